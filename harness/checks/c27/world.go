package main

// The real world of one replay / one race: a scratch directory with one socket path and one database,
// shell goroutines calling the real daemon.Activate and daemon goroutines running the real
// daemon.Serve (started by the startProcess override, as the repository's tests do).
// daemon.VerifPause is one global hook: calls are routed to the instance by socket path and to the
// actor by goroutine id. In gate mode every hook call reports an arrival and blocks until released
// (the scheduler of the G replays); in log mode it only appends to the instance's tracer (V).

import (
	"bytes"
	"fmt"
	"io"
	"net"
	"os"
	"path/filepath"
	"runtime"
	"strconv"
	"sync"
	"syscall"
	"time"

	"src.elv.sh/pkg/daemon"
	"src.elv.sh/pkg/daemon/daemondefs"
)

const versionBase = 1000 // daemon d answers Version = versionBase + d (>= api.Version, hence "ok")

// patience bounds every wait of the harness; expiry is a machinery problem (exit 2), never a verdict.
var patience = 300 * time.Second

func goid() int64 {
	var buf [64]byte
	n := runtime.Stack(buf[:], false)
	f := bytes.Fields(buf[:n])
	if len(f) < 2 {
		return -1
	}
	id, _ := strconv.ParseInt(string(f[1]), 10, 64)
	return id
}

type arrival struct {
	Point string
	Arg   int
}

type actor struct {
	shell   bool
	id      int
	gid     int64
	arrived chan arrival  // hook calls / virtual points reached (buffered)
	release chan struct{} // scheduler lets the actor run on
	done    chan struct{} // goroutine finished
	// shells
	cl  daemondefs.Client
	err error
	// daemons
	sig  chan os.Signal
	code int
}

func (a *actor) name() string {
	if a.shell {
		return fmt.Sprintf("s%d", a.id)
	}
	return fmt.Sprintf("d%d", a.id)
}

type event struct {
	Ev   string `json:"ev"`
	N    int    `json:"n"`
	S    int    `json:"s"`
	D    int    `json:"d"`
	P    string `json:"p"`
	Arg  int    `json:"arg"`
	Ok   bool   `json:"ok"`
	Db   bool   `json:"db"`
	Code int    `json:"code"`
}

type instance struct {
	dir, sock, db string
	gate          bool // gate mode (G) or log mode (V)

	mu       sync.Mutex
	byGid    map[int64]*actor
	shells   map[int]*actor
	daemons  map[int]*actor
	nextD    int
	dying    bool // teardown: hooks no longer block; shells stuck in the wait loop are ended
	stopped  bool // V: tracer closed
	evs      []event
	problems []string // machinery problems noticed inside hooks
	inoOwner map[uint64]int
}

var (
	instMu    sync.Mutex
	instances = map[string]*instance{}
	hookOnce  sync.Once
)

func installHooks() {
	hookOnce.Do(func() {
		daemon.VerifPause = dispatch
		daemon.VerifSetStartProcess(startProcess)
		daemon.VerifSetSpawnTimeout(longTimeout, time.Millisecond)
	})
}

const longTimeout = 2 * time.Hour

func lookup(sock string) *instance {
	instMu.Lock()
	defer instMu.Unlock()
	return instances[sock]
}

func newInstance(gate bool) (*instance, error) {
	installHooks()
	dir, err := os.MkdirTemp("", "va")
	if err != nil {
		return nil, err
	}
	if dir, err = filepath.EvalSymlinks(dir); err != nil {
		return nil, err
	}
	w := &instance{dir: dir, sock: filepath.Join(dir, "s"), db: filepath.Join(dir, "db"), gate: gate,
		byGid: map[int64]*actor{}, shells: map[int]*actor{}, daemons: map[int]*actor{}, inoOwner: map[uint64]int{}}
	if len(w.sock) > 90 {
		os.RemoveAll(dir)
		return nil, fmt.Errorf("socket path too long: %s", w.sock)
	}
	instMu.Lock()
	instances[w.sock] = w
	instMu.Unlock()
	return w, nil
}

func (w *instance) problem(format string, a ...any) {
	w.mu.Lock()
	w.problems = append(w.problems, fmt.Sprintf(format, a...))
	w.mu.Unlock()
}

func (w *instance) log(e event) {
	w.mu.Lock()
	if !w.stopped {
		w.evs = append(w.evs, e)
	}
	w.mu.Unlock()
}

// dispatch is daemon.VerifPause.
func dispatch(point, sock string, arg int) {
	w := lookup(sock)
	if w == nil {
		return // an instance already torn down (a late goroutine): nothing to observe
	}
	g := goid()
	w.mu.Lock()
	a := w.byGid[g]
	dying := w.dying
	w.mu.Unlock()
	if a == nil {
		w.problem("hook %s called by an unregistered goroutine %d", point, g)
		return
	}
	w.reach(a, point, arg, dying)
}

// reach: actor a is at a (real or virtual) point.
func (w *instance) reach(a *actor, point string, arg int, dying bool) {
	if dying {
		if a.shell && point == "shell.retry-detected" && arg != daemon.VerifDaemonOK {
			runtime.Goexit() // a shell that would otherwise poll for hours; deferred cleanup runs
		}
		return
	}
	if !w.gate {
		e := event{Ev: "H", P: point, Arg: arg}
		if a.shell {
			e.S = a.id
		} else {
			e.D = a.id
		}
		w.log(e)
		return
	}
	select {
	case a.arrived <- arrival{point, arg}:
	default:
		w.problem("%s: arrival queue overflow at %s", a.name(), point)
	}
	<-a.release
	w.mu.Lock()
	dying = w.dying
	w.mu.Unlock()
	if dying && a.shell && point == "shell.retry-detected" && arg != daemon.VerifDaemonOK {
		runtime.Goexit()
	}
}

func newActor(shell bool, id int) *actor {
	return &actor{shell: shell, id: id, arrived: make(chan arrival, 64), release: make(chan struct{}, 64), done: make(chan struct{})}
}

// startShell runs the real Activate on a new goroutine. after (optional) runs on that goroutine once
// Activate returned (V uses it to observe and log).
func (w *instance) startShell(id int, after func(a *actor)) *actor {
	a := newActor(true, id)
	w.mu.Lock()
	w.shells[id] = a
	w.mu.Unlock()
	ready := make(chan struct{})
	go func() {
		defer close(a.done)
		w.mu.Lock()
		a.gid = goid()
		w.byGid[a.gid] = a
		w.mu.Unlock()
		close(ready)
		cl, err := daemon.Activate(io.Discard, &daemondefs.SpawnConfig{DbPath: w.db, SockPath: w.sock, RunDir: w.dir})
		a.cl, a.err = cl, err
		if after != nil {
			after(a)
		}
		if w.gate {
			select {
			case a.arrived <- arrival{"shell.returned", b2i(err == nil)}:
			default:
			}
		}
	}()
	<-ready
	return a
}

func b2i(b bool) int {
	if b {
		return 1
	}
	return 0
}

// startProcess replaces os.StartProcess inside spawn: argv = elvish -daemon -db DB -sock SOCK.
// It runs on the goroutine of the shell that spawns.
func startProcess(name string, argv []string, attr *os.ProcAttr) error {
	var sock, db string
	for i := 0; i+1 < len(argv); i++ {
		switch argv[i] {
		case "-sock":
			sock = argv[i+1]
		case "-db":
			db = argv[i+1]
		}
	}
	w := lookup(sock)
	if w == nil {
		return fmt.Errorf("verif: no instance for socket %q", sock)
	}
	g := goid()
	w.mu.Lock()
	if w.dying {
		w.mu.Unlock()
		return fmt.Errorf("verif: instance is being torn down")
	}
	by := w.byGid[g]
	s := 0
	if by != nil {
		s = by.id
	}
	w.nextD++
	id := w.nextD
	if !w.gate && !w.stopped {
		// id allocation and its log entry are one critical section: the trace specification
		// numbers daemons in the order of the DaemonStart events
		w.evs = append(w.evs, event{Ev: "DaemonStart", D: id, S: s})
	}
	w.mu.Unlock()
	w.startDaemon(id, s, sock, db, false)
	return nil
}

// startDaemon runs the real Serve on a new goroutine; in gate mode it first waits at the virtual
// point daemon.spawned (Serve has no hook before net.Listen).
func (w *instance) startDaemon(id, byShell int, sock, db string, logStart bool) *actor {
	a := newActor(false, id)
	a.sig = make(chan os.Signal)
	w.mu.Lock()
	w.daemons[id] = a
	w.mu.Unlock()
	if logStart && !w.gate {
		w.log(event{Ev: "DaemonStart", D: id, S: byShell})
	}
	ready := make(chan struct{})
	go func() {
		defer close(a.done)
		w.mu.Lock()
		a.gid = goid()
		w.byGid[a.gid] = a
		dying := w.dying
		w.mu.Unlock()
		close(ready)
		if w.gate {
			w.reach(a, "daemon.spawned", 0, dying)
		}
		v := versionBase + id
		a.code = daemon.Serve(sock, db, daemon.ServeOpts{Version: &v, Signals: a.sig})
		if w.gate {
			select {
			case a.arrived <- arrival{"daemon.returned", a.code}:
			default:
			}
		} else {
			w.log(event{Ev: "DaemonReturn", D: id, Code: a.code})
		}
		// a real process exit closes every descriptor; in-process the connections that were accepted
		// but never registered are only closed by their finalizers
		runtime.GC()
	}()
	<-ready
	return a
}

// makeStale leaves a socket file nobody listens on (a crashed daemon): listen, then close the
// listener with unlink-on-close disabled.
func (w *instance) makeStale() error {
	l, err := net.Listen("unix", w.sock)
	if err != nil {
		return err
	}
	l.(*net.UnixListener).SetUnlinkOnClose(false)
	if err := l.Close(); err != nil {
		return err
	}
	ino, ok := w.ino()
	if !ok {
		return fmt.Errorf("stale socket vanished")
	}
	w.mu.Lock()
	w.inoOwner[ino] = 1
	if w.nextD < 1 {
		w.nextD = 1
	}
	w.mu.Unlock()
	return nil
}

func (w *instance) ino() (uint64, bool) {
	fi, err := os.Lstat(w.sock)
	if err != nil {
		return 0, false
	}
	st, ok := fi.Sys().(*syscall.Stat_t)
	if !ok {
		return 0, false
	}
	return st.Ino, true
}

// sockOwner projects the socket path: 0 = no file, d = the inode created by daemon d
// (1 for the initial stale socket), -1 = a file of unknown origin.
func (w *instance) sockOwner() int {
	ino, ok := w.ino()
	if !ok {
		return 0
	}
	w.mu.Lock()
	defer w.mu.Unlock()
	if d, ok := w.inoOwner[ino]; ok {
		return d
	}
	return -1
}

func (w *instance) noteListening(d int) {
	if ino, ok := w.ino(); ok {
		w.mu.Lock()
		w.inoOwner[ino] = d
		w.mu.Unlock()
	}
}

// await waits for the next arrival of an actor. While waiting it runs the garbage collector now and
// then (see startDaemon: connection finalizers stand in for a process exit).
func (w *instance) await(a *actor) (arrival, error) {
	deadline := time.After(patience)
	tick := time.NewTicker(50 * time.Millisecond)
	defer tick.Stop()
	for {
		select {
		case x := <-a.arrived:
			return x, nil
		case <-tick.C:
			runtime.GC()
		case <-deadline:
			return arrival{}, fmt.Errorf("%s did not reach its next point within %s\n%s", a.name(), patience, allStacks())
		}
	}
}

func (w *instance) let(a *actor) { a.release <- struct{}{} }

// awaitConns waits until daemon d has PROCESSED a client's disconnect that leaves it with n registered
// connections (no hook sits there): the goroutines its main loop started for connections (they run
// rpc.(*Server).ServeConn and then report connDone; "created by ... in goroutine <d's>") are down to n, and
// after that the main loop is parked in its select again. The finished connection goroutine has handed
// its connDone to the loop before it ended, so a loop that is parked afterwards has handled it.
// If the daemon reaches a hook instead (it left the loop), that arrival is returned.
func (w *instance) awaitConns(d *actor, n int) (*arrival, error) {
	deadline := time.Now().Add(patience)
	buf := make([]byte, 4<<20)
	head := []byte(fmt.Sprintf("goroutine %d [", d.gid))
	creator := []byte(fmt.Sprintf(" in goroutine %d\n", d.gid))
	fewEnough := false
	for {
		select {
		case x := <-d.arrived:
			return &x, nil
		default:
		}
		all := buf[:runtime.Stack(buf, true)]
		all = append(all, '\n')
		if !fewEnough {
			cnt := 0
			for _, blk := range bytes.Split(all, []byte("\n\n")) {
				if bytes.Contains(blk, []byte("rpc.(*Server).ServeConn")) && bytes.Contains(append(blk, '\n'), creator) {
					cnt++
				}
			}
			fewEnough = cnt <= n
		} else if i := bytes.Index(all, head); i >= 0 && (i == 0 || all[i-1] == '\n') {
			if bytes.HasPrefix(all[i+len(head):], []byte("select")) {
				return nil, nil
			}
		}
		if time.Now().After(deadline) {
			return nil, fmt.Errorf("%s: no sign within %s that the disconnect was handled (connection goroutines <= %d: %v)\n%s", d.name(), patience, n, fewEnough, allStacks())
		}
		time.Sleep(300 * time.Microsecond)
	}
}

// awaitQueued waits until shell a has dialled and sent its Version request and is blocked waiting for
// the answer (no hook sits there): its goroutine is parked in rpc.(*Client).Call. If the shell reaches
// a hook instead, that arrival is returned (the caller reports the mismatch).
func (w *instance) awaitQueued(a *actor) (*arrival, error) {
	deadline := time.Now().Add(patience)
	buf := make([]byte, 1<<20)
	head := []byte(fmt.Sprintf("goroutine %d [", a.gid))
	for {
		select {
		case x := <-a.arrived:
			return &x, nil
		default:
		}
		n := runtime.Stack(buf, true)
		all := buf[:n]
		if i := bytes.Index(all, head); i >= 0 && (i == 0 || all[i-1] == '\n') {
			blk := all[i:]
			if j := bytes.Index(blk, []byte("\n\n")); j >= 0 {
				blk = blk[:j]
			}
			parked := bytes.HasPrefix(blk[len(head):], []byte("chan receive")) || bytes.HasPrefix(blk[len(head):], []byte("select"))
			if parked && bytes.Contains(blk, []byte("rpc.(*Client).Call")) {
				return nil, nil
			}
		}
		if time.Now().After(deadline) {
			return nil, fmt.Errorf("%s neither reached a hook nor blocked in its Version request within %s\n%s", a.name(), patience, allStacks())
		}
		time.Sleep(300 * time.Microsecond)
	}
}

func allStacks() string {
	buf := make([]byte, 1<<20)
	n := runtime.Stack(buf, true)
	if n > 20000 {
		n = 20000
	}
	return string(buf[:n])
}

// teardown ends every goroutine of the instance and removes its directory. Leftover goroutines are a
// machinery problem.
func (w *instance) teardown() error {
	w.mu.Lock()
	w.dying = true
	w.stopped = true
	var all []*actor
	for _, a := range w.shells {
		all = append(all, a)
	}
	for _, a := range w.daemons {
		all = append(all, a)
	}
	w.mu.Unlock()
	// free everybody held at a gate (and whoever arrives later: hooks no longer block)
	stopFeed := make(chan struct{})
	var feed sync.WaitGroup
	if w.gate {
		for _, a := range all {
			feed.Add(1)
			go func(a *actor) {
				defer feed.Done()
				for {
					select {
					case a.release <- struct{}{}:
					case <-a.done:
						return
					case <-stopFeed:
						return
					}
				}
			}(a)
		}
	}
	for _, a := range all {
		if !a.shell {
			close(a.sig) // Serve leaves its loop, closes its connections and exits
		}
	}
	var err error
	deadline := time.Now().Add(patience)
	for _, a := range all {
		for waiting := true; waiting; {
			select {
			case <-a.done:
				waiting = false
			case <-time.After(50 * time.Millisecond):
				runtime.GC()
				if time.Now().After(deadline) {
					err = fmt.Errorf("teardown: %s still running after %s\n%s", a.name(), patience, allStacks())
					waiting = false
				}
			}
		}
	}
	close(stopFeed)
	feed.Wait()
	for _, a := range all {
		if a.shell && a.cl != nil {
			select {
			case <-a.done:
				a.cl.ResetConn()
			default:
			}
		}
	}
	instMu.Lock()
	delete(instances, w.sock)
	instMu.Unlock()
	os.RemoveAll(w.dir)
	w.mu.Lock()
	if err == nil && len(w.problems) > 0 {
		err = fmt.Errorf("hook problems: %v", w.problems)
	}
	w.mu.Unlock()
	return err
}
