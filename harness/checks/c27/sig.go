package main

import (
	"fmt"
	"strings"
)

// Schedule signature of a violating behaviour: the steps that change what the socket path names
// (remove by a shell, listen, the daemon's own remove, the listener's unlink-on-close) and failed db
// locks, from the step where the offending actor formed the belief it acts on to the FIRST offending
// step (the `bad` label computed by Activation.tla), with actors renamed in order of appearance:
//
//	shell-remove-live : from the shell's dial that was refused      stale>remove(s1)>listen(d1)>remove(s2)
//	                    (refused by a daemon between bind and listen)  bound>remove(s1)
//	rmsock-other      : from the daemon's own Listen                 listen(d1)>remove(s1)>listen(d2)>rmsock(d1)
//	close-other       : from the daemon's own RemoveSock             rmsock(d1)>listen(d2)>close(d1)
//	serve-without-db  : from the lock holder's RemoveSock            rmsock(d1)>listen(d2)>dbfail(d2)
//
// It is a pure projection of TLC's (or the trace specification's) labelled steps; no oracle here.
func signature(init string, steps []step) (class, sig string, at int) {
	k := -1
	for i, st := range steps {
		if st.Bad != "" {
			k = i
			break
		}
	}
	if k < 0 {
		return "", "", -1
	}
	st := steps[k]
	class = st.Bad
	start, prefix := 0, ""
	last := func(pred func(step) bool) int {
		for i := k - 1; i >= 0; i-- {
			if pred(steps[i]) {
				return i
			}
		}
		return -1
	}
	switch class {
	case "shell-remove-live":
		j := last(func(x step) bool { return (x.A == "Dial" || x.A == "RetryDial") && x.S == st.S })
		if j >= 0 {
			start = j
			ino := steps[j].Sock
			switch {
			case init == "stale" && ino == 1:
				prefix = "stale"
			case ino >= 1 && ino <= len(steps[j].Dpc) && steps[j].Dpc[ino-1] == "bound":
				prefix = "bound" // refused by a live daemon caught between bind and listen
			default:
				prefix = "dead"
			}
		}
	case "rmsock-other":
		j := last(func(x step) bool { return x.A == "Listen" && x.D == st.D })
		if j >= 0 {
			start = j
		} else {
			prefix = "live"
		}
	case "close-other":
		if j := last(func(x step) bool { return x.A == "RemoveSock" && x.D == st.D }); j >= 0 {
			start = j
		}
	case "serve-without-db":
		holder := st.Db
		if j := last(func(x step) bool { return x.A == "RemoveSock" && x.D == holder }); j >= 0 {
			start = j
		} else {
			prefix = "held"
		}
	}
	names := map[string]string{}
	count := map[byte]int{}
	nm := func(kind byte, id int) string {
		key := fmt.Sprintf("%c%d", kind, id)
		if n, ok := names[key]; ok {
			return n
		}
		count[kind]++
		names[key] = fmt.Sprintf("%c%d", kind, count[kind])
		return names[key]
	}
	var out []string
	if prefix != "" {
		out = append(out, prefix)
	}
	for i := start; i <= k; i++ {
		x := steps[i]
		switch {
		case x.A == "RemoveStale" && x.R == "removed":
			out = append(out, "remove("+nm('s', x.S)+")")
		case x.A == "Listen" && x.R == "ok":
			out = append(out, "listen("+nm('d', x.D)+")")
		case x.A == "OpenDb" && x.R == "timeout":
			out = append(out, "dbfail("+nm('d', x.D)+")")
		case x.A == "RemoveSock":
			out = append(out, "rmsock("+nm('d', x.D)+")")
		case x.A == "CloseListener" && x.R == "removed":
			out = append(out, "close("+nm('d', x.D)+")")
		}
	}
	return class, strings.Join(out, ">"), k
}
