package main

// V: free-running races of real shells and daemons; the hook only logs. TraceActivation judges.

import (
	"encoding/json"
	"fmt"
	"math/rand"
	"runtime"
	"sort"
	"sync"
	"syscall"
	"time"

	"src.elv.sh/pkg/daemon"
	"verif.local/harness/lib"
)

type race struct {
	evs   []event
	infra error
}

// oneRace: kind in none|stale|live, n shells started (almost) together or staggered, each exiting
// after a random while (or staying until the end).
func oneRace(rng *rand.Rand) *race {
	rc := &race{}
	w, err := newInstance(false)
	if err != nil {
		rc.infra = err
		return rc
	}
	kind := []string{"none", "stale", "stale", "live"}[rng.Intn(4)]
	switch kind {
	case "stale":
		if err := w.makeStale(); err != nil {
			rc.infra = err
		}
	case "live":
		w.mu.Lock()
		w.nextD = 1
		w.mu.Unlock()
		d := w.startDaemon(1, 0, w.sock, w.db, false)
		// wait (bounded) until its hooks show it in the main loop; no probe connection is made: closing
		// one would make the daemon exit
		deadline := time.Now().Add(patience)
		for up := false; !up && rc.infra == nil; {
			w.mu.Lock()
			for _, e := range w.evs {
				if e.Ev == "H" && e.P == "daemon.serving" {
					up = true
				}
				if e.Ev == "H" && e.P == "daemon.db-failed" {
					rc.infra = fmt.Errorf("initial daemon could not open the db")
				}
			}
			w.mu.Unlock()
			select {
			case <-d.done:
				rc.infra = fmt.Errorf("initial daemon exited with %d", d.code)
			default:
			}
			if !up && time.Now().After(deadline) {
				rc.infra = fmt.Errorf("initial daemon did not come up")
			}
			if !up {
				time.Sleep(200 * time.Microsecond)
			}
		}
	}
	if rc.infra != nil {
		w.teardown()
		return rc
	}
	w.mu.Lock()
	w.evs = []event{{Ev: "Init", P: kind}}
	w.mu.Unlock()

	n := 2 + rng.Intn(4)
	stagger := rng.Intn(3) == 0
	type plan struct {
		delay time.Duration
		hold  time.Duration
		exit  bool
		seed  int64
	}
	plans := make([]plan, n)
	for i := range plans {
		p := plan{exit: rng.Intn(5) != 0, seed: rng.Int63()}
		if stagger {
			p.delay = time.Duration(rng.Intn(3000)) * time.Microsecond
		} else if rng.Intn(3) == 0 {
			p.delay = time.Duration(rng.Intn(200)) * time.Microsecond
		}
		p.hold = time.Duration(rng.Intn(2000)) * time.Microsecond
		plans[i] = p
	}
	var wg sync.WaitGroup
	start := make(chan struct{})
	for i := range plans {
		id, p := i+1, plans[i]
		wg.Add(1)
		go func() {
			defer wg.Done()
			<-start
			if p.delay > 0 {
				time.Sleep(p.delay)
			} else {
				runtime.Gosched()
			}
			w.log(event{Ev: "ShellStart", S: id})
			a := w.startShell(id, func(a *actor) {
				e := event{Ev: "ShellReturn", S: id, Ok: a.err == nil}
				if a.err == nil {
					if v, err := a.cl.Version(); err == nil {
						e.D = v - versionBase
					}
					_, aerr := a.cl.AddCmd("x")
					e.Db = aerr == nil
				}
				w.log(e)
			})
			<-a.done
			if a.err != nil || !p.exit {
				return
			}
			time.Sleep(p.hold)
			w.log(event{Ev: "ExitStart", S: id})
			a.cl.Close()
			w.log(event{Ev: "ExitEnd", S: id})
		}()
	}
	close(start)
	done := make(chan struct{})
	go func() { wg.Wait(); close(done) }()
	deadline := time.After(patience)
	tick := time.NewTicker(20 * time.Millisecond)
	defer tick.Stop()
wait:
	for {
		select {
		case <-done:
			break wait
		case <-tick.C:
			runtime.GC() // stands in for the descriptor cleanup of exited daemon processes
		case <-deadline:
			rc.infra = fmt.Errorf("race: shells did not finish within %s\n%s", patience, allStacks())
			break wait
		}
	}
	// let exiting daemons finish their exit: until the log is quiet (this only decides how much of the
	// tail is recorded; the recorded prefix is judged whatever its length)
	last := -1
	for i := 0; i < 25; i++ {
		w.mu.Lock()
		cur := len(w.evs)
		w.mu.Unlock()
		if cur == last && i >= 2 {
			break
		}
		last = cur
		time.Sleep(4 * time.Millisecond)
	}
	w.mu.Lock()
	w.stopped = true
	rc.evs = append([]event{}, w.evs...)
	w.mu.Unlock()
	if err := w.teardown(); err != nil && rc.infra == nil {
		rc.infra = err
	}
	return rc
}

func runRaces(c *lib.Ctx) []*race {
	installHooks()
	restore := daemon.VerifSetSpawnTimeout(time.Second, 10*time.Millisecond) // the real values
	defer restore()
	n := c.Pick(40, 450)
	out := make([]*race, n)
	seeds := make([]int64, n)
	rng := rand.New(rand.NewSource(c.Seed))
	for i := range seeds {
		seeds[i] = rng.Int63()
	}
	lib.Parallel(n, 4, func(i int) {
		out[i] = oneRace(rand.New(rand.NewSource(seeds[i])))
	})
	return append(out, boundProbe())
}

type diagLine struct {
	Kind  string   `json:"kind"`
	Init  string   `json:"init"`
	Inv   []string `json:"inv"`
	At    int      `json:"at"`
	Race  int      `json:"race"`
	Steps []step   `json:"steps"`
}

// boundProbe is the directed probe for the bind/listen window of net.Listen (no hook can sit inside it):
// the harness plays a daemon that has bound the socket path and does not listen yet, one real shell
// activates. What the real Activate does with that socket is recorded like any race.
func boundProbe() *race {
	rc := &race{}
	w, err := newInstance(false)
	if err != nil {
		rc.infra = err
		return rc
	}
	fd, err := syscall.Socket(syscall.AF_UNIX, syscall.SOCK_STREAM, 0)
	if err == nil {
		err = syscall.Bind(fd, &syscall.SockaddrUnix{Name: w.sock})
	}
	if err != nil {
		rc.infra = fmt.Errorf("bound probe: %v", err)
		w.teardown()
		return rc
	}
	defer syscall.Close(fd)
	w.mu.Lock()
	w.nextD = 1
	w.evs = []event{{Ev: "Init", P: "bound"}}
	w.mu.Unlock()
	w.log(event{Ev: "ShellStart", S: 1})
	a := w.startShell(1, func(a *actor) {
		e := event{Ev: "ShellReturn", S: 1, Ok: a.err == nil}
		if a.err == nil {
			if v, err := a.cl.Version(); err == nil {
				e.D = v - versionBase
			}
			_, aerr := a.cl.AddCmd("x")
			e.Db = aerr == nil
		}
		w.log(e)
	})
	select {
	case <-a.done:
	case <-time.After(patience):
		rc.infra = fmt.Errorf("bound probe: the shell did not finish\n%s", allStacks())
	}
	w.mu.Lock()
	w.stopped = true
	rc.evs = append([]event{}, w.evs...)
	w.mu.Unlock()
	if err := w.teardown(); err != nil && rc.infra == nil {
		rc.infra = err
	}
	return rc
}

// concat numbers the races of a batch and closes it with an End event.
func concat(b []*race) []event {
	var evs []event
	for i, r := range b {
		for j, e := range r.evs {
			if j == 0 {
				e.N = i + 1
			}
			evs = append(evs, e)
		}
	}
	return append(evs, event{Ev: "End", N: len(b)})
}

// judgeBatch validates the races of a batch in ONE TLC process and returns those that have no
// explanation satisfying the properties.
func judgeBatch(c *lib.Ctx, dir string, b []*race) ([]*race, error) {
	evs := concat(b)
	v, err := lib.ValidateTrace(c, "TraceActivation", dir, "TraceActivation", evs, 12*time.Minute)
	if err != nil {
		return nil, err
	}
	if !v.Accepted {
		return nil, lib.Infra("TraceActivation: high-water %d of %d although Skip is always possible (%s %s)", v.HighWater, len(evs), v.Result.ErrKind, v.InvName)
	}
	acc := map[int]bool{}
	for _, t := range v.Result.Tagged("ACC") {
		if n, ok := t[0].(int64); ok {
			acc[int(n)] = true
		}
	}
	var rej []*race
	for i, r := range b {
		if !acc[i+1] {
			rej = append(rej, r)
		}
	}
	return rej, nil
}

func judgeRaces(c *lib.Ctx, dir string, races []*race) error {
	var good []*race
	for _, r := range races {
		if r.infra != nil {
			return lib.Infra("race driver: %v", r.infra)
		}
		if len(r.evs) > 1 {
			good = append(good, r)
		}
	}
	if len(good) == 0 {
		return nil
	}
	c.AddEvals(len(good))
	kinds := map[string]int{}
	for i, r := range good {
		c.Distinct(r.evs)
		kinds[r.evs[0].P]++
		if i == 0 {
			c.Sample(r.evs[:min(len(r.evs), 30)])
		}
		for _, e := range r.evs {
			if e.Ev == "H" {
				c.Inc("v_hook_"+e.P, 1)
			}
		}
	}
	c.Set("v_races_by_initial_world", kinds)
	// vacuity guard: a recorded race with one falsified observation must be rejected
	var corrupt *race
	if c.Replay == "" {
		// Only a race in which the falsified observation has no explanation under ANY placement of the
		// unlogged steps is used: the world does not start with a live daemon (nobody holds the database
		// lock initially) and exactly one daemon ever reaches the point where it opens the database, so
		// its OpenDb finds the lock free in every behaviour of the specification. With a second daemon
		// in the race the order of one daemon's CloseDb and the other's OpenDb is not fixed by the
		// recorded hooks, and "db-failed" can be a behaviour of the specification as well.
	search:
		for _, r := range good {
			listeners := map[int]bool{}
			for _, e := range r.evs {
				if e.Ev == "H" && (e.P == "daemon.listening" || e.P == "daemon.db-opened" || e.P == "daemon.db-failed") {
					listeners[e.D] = true
				}
			}
			if r.evs[0].P == "live" || len(listeners) != 1 {
				continue
			}
			for i, e := range r.evs {
				if e.Ev == "H" && e.P == "daemon.db-opened" {
					corrupt = &race{evs: append([]event{}, r.evs...)}
					corrupt.evs[i].P = "daemon.db-failed"
					break search
				}
			}
		}
		c.Set("v_vacuity_guard_ran", corrupt != nil)
	}
	perBatch := 150
	var batches [][]*race
	for i := 0; i < len(good); i += perBatch {
		batches = append(batches, append([]*race{}, good[i:min(i+perBatch, len(good))]...))
	}
	if corrupt != nil {
		batches[0] = append(batches[0], corrupt)
	}
	var mu sync.Mutex
	var firstErr error
	var rejected []*race
	lib.Parallel(len(batches), 1, func(bi int) {
		rej, err := judgeBatch(c, dir, batches[bi])
		mu.Lock()
		defer mu.Unlock()
		if err != nil {
			if firstErr == nil {
				firstErr = err
			}
			return
		}
		c.AddTraces(len(batches[bi]))
		rejected = append(rejected, rej...)
	})
	if firstErr != nil {
		return firstErr
	}
	if corrupt != nil {
		found := false
		var rest []*race
		for _, r := range rejected {
			if r == corrupt {
				found = true
			} else {
				rest = append(rest, r)
			}
		}
		if !found {
			return lib.Infra("vacuity guard: TraceActivation accepted a race with db-opened turned into db-failed")
		}
		rejected = rest
	}
	c.Set("v_races_rejected", len(rejected))
	if len(rejected) == 0 {
		return nil
	}
	return diagnose(c, dir, rejected)
}

// diagnose: the races have no explanation that satisfies the properties. The Diag configuration prints
// the labelled steps of the explanations that run into a violation; their schedule signature is the key.
func diagnose(c *lib.Ctx, dir string, rs []*race) error {
	evs := concat(rs)
	res, err := c.TLC("TraceActivation(diag)", lib.TLCRun{Dir: dir, Module: "TraceActivation", Cfg: "TraceActivationDiag.cfg", Workers: 1, DFS: true,
		Timeout: 12 * time.Minute, HeapGB: 6, Files: map[string][]byte{"trace.ndjson": lib.NDJSON(evs)}})
	if err != nil {
		return err
	}
	if res.ErrKind != "" {
		return lib.Infra("TraceActivation(diag): unexpected TLC outcome %s %s", res.ErrKind, res.Err)
	}
	type cand struct {
		key, cls string
		inv      []string
		at       int
	}
	cands := map[int][]cand{}
	for _, l := range res.PrintedStrings() {
		var d diagLine
		if json.Unmarshal([]byte(l), &d) != nil || d.Kind != "viol" {
			continue
		}
		cls, sig, at := signature(d.Init, d.Steps)
		k := cand{key: "activation:" + sig, cls: cls, inv: d.Inv, at: d.At}
		if at < 0 {
			k.key = "activation:violates:" + fmt.Sprint(d.Inv)
		}
		cands[d.Race] = append(cands[d.Race], k)
	}
	rhw := map[int]int{} // race -> index (1-based, in the concatenation) of the first event no explanation consumes
	for _, t := range res.Tagged("RHW") {
		if len(t) == 2 {
			i, ok1 := t[0].(int64)
			h, ok2 := t[1].(int64)
			if ok1 && ok2 {
				rhw[int(i)] = int(h)
			}
		}
	}
	off := 0
	for i, r := range rs {
		rc := map[string]any{"mode": "V", "events": r.evs}
		cs := cands[i+1]
		start := off
		off += len(r.evs)
		if len(cs) == 0 {
			matched := rhw[i+1] - 1 - start
			next := "(unknown)"
			if matched >= 0 && matched < len(r.evs) {
				b, _ := json.Marshal(r.evs[matched])
				next = string(b)
			}
			c.Reject("activation:trace-rejected", fmt.Sprintf("recorded events of real shells/daemons are not a behaviour of the activation protocol: init %s, matched %d of %d events, first unmatched %s", r.evs[0].P, matched, len(r.evs), next), rc)
			continue
		}
		// every explanation of the race runs into a violation; report the one that gets furthest (ties: by key)
		sort.Slice(cs, func(a, b int) bool {
			if cs[a].at != cs[b].at {
				return cs[a].at > cs[b].at
			}
			return cs[a].key < cs[b].key
		})
		k := cs[0]
		c.Inc("v_races_showing_a_violation", 1)
		c.Reject(k.key, fmt.Sprintf("a free-running race of real shells/daemons has no explanation satisfying the properties: every placement of the unlogged steps violates them (%s; %v) — init %s, %d events", k.cls, k.inv, r.evs[0].P, len(r.evs)), rc)
	}
	return nil
}
