package main

// V: free-running races of real shells and daemons; the hook only logs. TraceActivation judges.

import (
	"encoding/json"
	"fmt"
	"math/rand"
	"runtime"
	"sort"
	"sync"
	"time"

	"src.elv.sh/pkg/daemon"
	"verif.local/harness/lib"
)

type race struct {
	evs   []event
	infra error
}

// oneRace: kind in none|stale|live, n shells started (almost) together or staggered, each exiting
// after a random while (or staying until the end).
func oneRace(rng *rand.Rand) *race {
	rc := &race{}
	w, err := newInstance(false)
	if err != nil {
		rc.infra = err
		return rc
	}
	kind := []string{"none", "stale", "stale", "live"}[rng.Intn(4)]
	switch kind {
	case "stale":
		if err := w.makeStale(); err != nil {
			rc.infra = err
		}
	case "live":
		w.mu.Lock()
		w.nextD = 1
		w.mu.Unlock()
		d := w.startDaemon(1, 0, w.sock, w.db, false)
		// wait (bounded) until its hooks show it in the main loop; no probe connection is made: closing
		// one would make the daemon exit
		deadline := time.Now().Add(patience)
		for up := false; !up && rc.infra == nil; {
			w.mu.Lock()
			for _, e := range w.evs {
				if e.Ev == "H" && e.P == "daemon.serving" {
					up = true
				}
				if e.Ev == "H" && e.P == "daemon.db-failed" {
					rc.infra = fmt.Errorf("initial daemon could not open the db")
				}
			}
			w.mu.Unlock()
			select {
			case <-d.done:
				rc.infra = fmt.Errorf("initial daemon exited with %d", d.code)
			default:
			}
			if !up && time.Now().After(deadline) {
				rc.infra = fmt.Errorf("initial daemon did not come up")
			}
			if !up {
				time.Sleep(200 * time.Microsecond)
			}
		}
	}
	if rc.infra != nil {
		w.teardown()
		return rc
	}
	w.mu.Lock()
	w.evs = []event{{Ev: "Init", P: kind}}
	w.mu.Unlock()

	n := 2 + rng.Intn(4)
	stagger := rng.Intn(3) == 0
	type plan struct {
		delay time.Duration
		hold  time.Duration
		exit  bool
		seed  int64
	}
	plans := make([]plan, n)
	for i := range plans {
		p := plan{exit: rng.Intn(5) != 0, seed: rng.Int63()}
		if stagger {
			p.delay = time.Duration(rng.Intn(3000)) * time.Microsecond
		} else if rng.Intn(3) == 0 {
			p.delay = time.Duration(rng.Intn(200)) * time.Microsecond
		}
		p.hold = time.Duration(rng.Intn(2000)) * time.Microsecond
		plans[i] = p
	}
	var wg sync.WaitGroup
	start := make(chan struct{})
	for i := range plans {
		id, p := i+1, plans[i]
		wg.Add(1)
		go func() {
			defer wg.Done()
			<-start
			if p.delay > 0 {
				time.Sleep(p.delay)
			} else {
				runtime.Gosched()
			}
			w.log(event{Ev: "ShellStart", S: id})
			a := w.startShell(id, func(a *actor) {
				e := event{Ev: "ShellReturn", S: id, Ok: a.err == nil}
				if a.err == nil {
					if v, err := a.cl.Version(); err == nil {
						e.D = v - versionBase
					}
					_, aerr := a.cl.AddCmd("x")
					e.Db = aerr == nil
				}
				w.log(e)
			})
			<-a.done
			if a.err != nil || !p.exit {
				return
			}
			time.Sleep(p.hold)
			w.log(event{Ev: "ExitStart", S: id})
			a.cl.Close()
			w.log(event{Ev: "ExitEnd", S: id})
		}()
	}
	close(start)
	done := make(chan struct{})
	go func() { wg.Wait(); close(done) }()
	deadline := time.After(patience)
	tick := time.NewTicker(20 * time.Millisecond)
	defer tick.Stop()
wait:
	for {
		select {
		case <-done:
			break wait
		case <-tick.C:
			runtime.GC() // stands in for the descriptor cleanup of exited daemon processes
		case <-deadline:
			rc.infra = fmt.Errorf("race: shells did not finish within %s\n%s", patience, allStacks())
			break wait
		}
	}
	// let exiting daemons finish their exit: until the log is quiet (this only decides how much of the
	// tail is recorded; the recorded prefix is judged whatever its length)
	last := -1
	for i := 0; i < 25; i++ {
		w.mu.Lock()
		cur := len(w.evs)
		w.mu.Unlock()
		if cur == last && i >= 2 {
			break
		}
		last = cur
		time.Sleep(4 * time.Millisecond)
	}
	w.mu.Lock()
	w.stopped = true
	rc.evs = append([]event{}, w.evs...)
	w.mu.Unlock()
	if err := w.teardown(); err != nil && rc.infra == nil {
		rc.infra = err
	}
	return rc
}

func runRaces(c *lib.Ctx) []*race {
	installHooks()
	restore := daemon.VerifSetSpawnTimeout(time.Second, 10*time.Millisecond) // the real values
	defer restore()
	n := c.Pick(60, 1200)
	out := make([]*race, n)
	seeds := make([]int64, n)
	rng := rand.New(rand.NewSource(c.Seed))
	for i := range seeds {
		seeds[i] = rng.Int63()
	}
	lib.Parallel(n, 4, func(i int) {
		out[i] = oneRace(rand.New(rand.NewSource(seeds[i])))
	})
	return out
}

type diagLine struct {
	Kind  string   `json:"kind"`
	Init  string   `json:"init"`
	Inv   []string `json:"inv"`
	At    int      `json:"at"`
	Steps []step   `json:"steps"`
}

func judgeRaces(c *lib.Ctx, dir string, races []*race) error {
	var good []*race
	for _, r := range races {
		if r.infra != nil {
			return lib.Infra("race driver: %v", r.infra)
		}
		if len(r.evs) > 1 {
			good = append(good, r)
		}
	}
	if len(good) == 0 {
		return nil
	}
	c.AddEvals(len(good))
	kinds := map[string]int{}
	for i, r := range good {
		c.Distinct(r.evs)
		kinds[r.evs[0].P]++
		if i == 0 {
			c.Sample(r.evs[:min(len(r.evs), 30)])
		}
		for _, e := range r.evs {
			if e.Ev == "H" {
				c.Inc("v_hook_"+e.P, 1)
			}
		}
	}
	c.Set("v_races_by_initial_world", kinds)
	// vacuity guard: a recorded race with one falsified observation must be rejected
	if c.Replay == "" {
		guarded := false
		for _, r := range good {
			for i, e := range r.evs {
				if e.Ev == "H" && e.P == "daemon.db-opened" {
					bad := append([]event{}, r.evs...)
					bad[i].P = "daemon.db-failed"
					v, err := lib.ValidateTrace(c, "TraceActivation(selftest-corrupt)", dir, "TraceActivation", bad, 5*time.Minute)
					if err != nil {
						return err
					}
					if v.Accepted {
						return lib.Infra("vacuity guard: TraceActivation accepted a race with db-opened turned into db-failed")
					}
					guarded = true
					break
				}
			}
			if guarded {
				break
			}
		}
		c.Set("v_vacuity_guard_ran", guarded)
	}
	perBatch := 20
	var batches [][]*race
	for i := 0; i < len(good); i += perBatch {
		batches = append(batches, good[i:min(i+perBatch, len(good))])
	}
	var mu sync.Mutex
	var firstErr error
	setErr := func(err error) {
		mu.Lock()
		if firstErr == nil {
			firstErr = err
		}
		mu.Unlock()
	}
	lib.Parallel(len(batches), 4, func(bi int) {
		b := batches[bi]
		var evs []event
		for _, r := range b {
			evs = append(evs, r.evs...)
		}
		v, err := lib.ValidateTrace(c, "TraceActivation", dir, "TraceActivation", evs, 8*time.Minute)
		if err != nil {
			setErr(err)
			return
		}
		c.AddTraces(len(b))
		if v.Accepted {
			return
		}
		if len(b) == 1 {
			if err := diagnose(c, dir, b[0], v); err != nil {
				setErr(err)
			}
			return
		}
		// the batch stops at its first rejected race; judge every race from there on its own
		pos, from := 0, 0
		for i, r := range b {
			if v.HighWater < pos+len(r.evs) {
				from = i
				break
			}
			pos += len(r.evs)
		}
		for _, r := range b[from:] {
			one, err := lib.ValidateTrace(c, "TraceActivation(single)", dir, "TraceActivation", r.evs, 8*time.Minute)
			if err != nil {
				setErr(err)
				return
			}
			if !one.Accepted {
				if err := diagnose(c, dir, r, one); err != nil {
					setErr(err)
					return
				}
			}
		}
	})
	return firstErr
}

// diagnose: the race has no explanation that satisfies the properties. The Diag configuration prints
// the labelled steps of the explanations that run into a violation; their schedule signature is the key.
func diagnose(c *lib.Ctx, dir string, r *race, v *lib.TraceVerdict) error {
	res, err := c.TLC("TraceActivation(diag)", lib.TLCRun{Dir: dir, Module: "TraceActivation", Cfg: "TraceActivationDiag.cfg", Workers: 1, DFS: true,
		Timeout: 8 * time.Minute, HeapGB: 6, Files: map[string][]byte{"trace.ndjson": lib.NDJSON(r.evs)}})
	if err != nil {
		return err
	}
	if res.ErrKind != "" && res.ErrKind != "postcondition" {
		return lib.Infra("TraceActivation(diag): unexpected TLC outcome %s %s", res.ErrKind, res.Err)
	}
	type cand struct {
		key, cls string
		inv      []string
		at       int
	}
	var cands []cand
	for _, l := range res.PrintedStrings() {
		var d diagLine
		if json.Unmarshal([]byte(l), &d) != nil || d.Kind != "viol" {
			continue
		}
		cls, sig, at := signature(d.Init, d.Steps)
		if at < 0 {
			cands = append(cands, cand{key: "activation:violates:" + fmt.Sprint(d.Inv), at: d.At, inv: d.Inv})
			continue
		}
		cands = append(cands, cand{key: "activation:" + sig, cls: cls, inv: d.Inv, at: d.At})
	}
	rc := map[string]any{"mode": "V", "events": r.evs}
	if len(cands) == 0 {
		next := "(end)"
		if v.HighWater < len(r.evs) {
			b, _ := json.Marshal(r.evs[v.HighWater])
			next = string(b)
		}
		c.Reject("activation:trace-rejected", fmt.Sprintf("recorded events of real shells/daemons are not a behaviour of the activation protocol: matched %d of %d events, first unmatched %s", v.HighWater, len(r.evs), next), rc)
		return nil
	}
	// every explanation of the race runs into a violation; report the one that gets furthest (ties: by key)
	sort.Slice(cands, func(i, j int) bool {
		if cands[i].at != cands[j].at {
			return cands[i].at > cands[j].at
		}
		return cands[i].key < cands[j].key
	})
	k := cands[0]
	c.Inc("v_races_showing_a_violation", 1)
	c.Reject(k.key, fmt.Sprintf("a free-running race of real shells/daemons has no explanation satisfying the properties: every placement of the unlogged steps violates them (%s; %v) — init %s, %d events", k.cls, k.inv, r.evs[0].P, len(r.evs)), rc)
	return nil
}
