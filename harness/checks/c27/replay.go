package main

// G: a behaviour of Activation.tla (labelled steps + projected post-states, emitted by TLC) is
// replayed on the real code. Every model step becomes: release the actor from the hook it is held at,
// wait until it reaches the hook the model step ends at, then project the real world and compare.

import (
	"fmt"
	"time"

	"src.elv.sh/pkg/daemon"
)

type step struct {
	A     string   `json:"a"`
	S     int      `json:"s"`
	D     int      `json:"d"`
	R     string   `json:"r"`
	Bad   string   `json:"bad"`
	Sock  int      `json:"sock"`
	Db    int      `json:"db"`
	Spc   []string `json:"spc"`
	Sconn []int    `json:"sconn"`
	Dpc   []string `json:"dpc"`
	Hasdb []bool   `json:"hasdb"`
	Nconn []int    `json:"nconn"` // registered connections per daemon
}

type behaviour struct {
	Kind  string   `json:"kind"` // term | viol | deep
	Init  string   `json:"init"`
	Inv   []string `json:"inv"`
	Steps []step   `json:"steps"`
}

// outcome of one replay
type outcome struct {
	mismatchAt int    // -1: every step matched
	what       string // first mismatch
	infra      error
	observed   []map[string]any // projected real world after each step (evidence / replay file)
}

func statusOf(r string) int {
	switch r {
	case "missing":
		return daemon.VerifSockfileMissing
	case "refused":
		return daemon.VerifConnectionRefused
	}
	return -1
}

type replayer struct {
	w   *instance
	b   *behaviour
	pos map[*actor]arrival // the point each actor is held at
	out *outcome
}

type mismatch struct{ what string }

func (r *replayer) fail(format string, a ...any) { panic(mismatch{fmt.Sprintf(format, a...)}) }
func (r *replayer) infra(err error)              { panic(err) }

// expect waits for actor a to reach point (with arg when arg >= 0).
func (r *replayer) expect(a *actor, point string, arg int) {
	x, err := r.w.await(a)
	if err != nil {
		r.infra(err)
	}
	r.pos[a] = x
	if x.Point != point || (arg >= 0 && x.Arg != arg) {
		r.fail("%s reached %s(%d), the model step ends at %s(%d)", a.name(), x.Point, x.Arg, point, arg)
	}
}

func (r *replayer) shell(id int) *actor {
	r.w.mu.Lock()
	defer r.w.mu.Unlock()
	return r.w.shells[id]
}

func (r *replayer) daemon(id int) *actor {
	r.w.mu.Lock()
	defer r.w.mu.Unlock()
	a := r.w.daemons[id]
	return a
}

func (r *replayer) at(a *actor, points ...string) {
	p := r.pos[a].Point
	for _, q := range points {
		if p == q {
			return
		}
	}
	r.infra(fmt.Errorf("replayer: %s is held at %q, expected one of %v (generator/scheduler defect)", a.name(), p, points))
}

// queued: the model says the shell dialled a listener and waits for the answer.
func (r *replayer) queued(a *actor, d int) {
	x, err := r.w.awaitQueued(a)
	if err != nil {
		r.infra(err)
	}
	if x != nil {
		r.pos[a] = *x
		r.fail("%s reached %s(%d), the model says it is queued on d%d's listener waiting for the answer", a.name(), x.Point, x.Arg, d)
	}
}

// shellFinishes: the shell's Activate returns; ok says whether without error.
func (r *replayer) shellFinishes(a *actor, ok bool) {
	r.w.let(a)
	x, err := r.w.await(a)
	if err != nil {
		r.infra(err)
	}
	// a shell released at detected(missing)/after-remove passes further hooks only when it goes on
	if x.Point != "shell.returned" {
		r.fail("%s went on to %s(%d), the model says its activation ends here (ok=%v)", a.name(), x.Point, x.Arg, ok)
	}
	r.pos[a] = x
	select {
	case <-a.done:
	case <-time.After(patience):
		r.infra(fmt.Errorf("%s: goroutine did not finish", a.name()))
	}
	if (a.err == nil) != ok {
		r.fail("%s: Activate returned err=%v, the model says ok=%v", a.name(), a.err, ok)
	}
}

func (r *replayer) run() {
	w, b := r.w, r.b
	switch b.Init {
	case "stale":
		if err := w.makeStale(); err != nil {
			r.infra(err)
		}
	case "live":
		w.mu.Lock()
		w.nextD = 1
		w.mu.Unlock()
		d := w.startDaemon(1, 0, w.sock, w.db, false)
		r.expect(d, "daemon.spawned", -1)
		w.let(d)
		r.expect(d, "daemon.listening", -1)
		w.noteListening(1)
		w.let(d)
		r.expect(d, "daemon.db-opened", -1)
		w.let(d)
		r.expect(d, "daemon.serving", -1)
		w.let(d)
	}
	for i := range b.Steps {
		r.out.mismatchAt = i
		r.step(&b.Steps[i])
		r.observe(&b.Steps[i])
	}
	r.out.mismatchAt = -1
}

func (r *replayer) step(st *step) {
	w := r.w
	switch st.A {
	case "Lstat":
		a := w.startShell(st.S, nil)
		if st.R == "missing" {
			r.expect(a, "shell.detected", statusOf(st.R))
		}
	case "Dial", "RetryDial":
		// follows its Lstat at once (no hook between the two: nobody else moves in between)
		a := r.shell(st.S)
		point := "shell.detected"
		if st.A == "RetryDial" {
			point = "shell.retry-detected"
		}
		switch st.R {
		case "refused":
			r.expect(a, point, statusOf(st.R))
		case "queued":
			if st.Dpc[st.D-1] != "serving" {
				r.queued(a, st.D) // (a serving daemon answers at once: the Accept step follows)
			}
		default:
			r.infra(fmt.Errorf("replayer: %s with outcome %q cannot be scheduled through the hooks", st.A, st.R))
		}
	case "RetryLstat":
		a := r.shell(st.S)
		r.at(a, "shell.spawned", "shell.retry-detected")
		w.let(a)
		if st.R == "missing" {
			r.expect(a, "shell.retry-detected", statusOf(st.R))
		}
	case "Accept":
		a := r.shell(st.S)
		x, err := w.await(a)
		if err != nil {
			r.infra(err)
		}
		r.pos[a] = x
		if !(x.Point == "shell.detected" || x.Point == "shell.retry-detected") || x.Arg != daemon.VerifDaemonOK {
			r.fail("%s reached %s(%d), the model says its Version request is answered by d%d", a.name(), x.Point, x.Arg, st.D)
		}
		r.shellFinishes(a, true)
	case "RemoveStale":
		a := r.shell(st.S)
		r.at(a, "shell.detected")
		w.let(a)
		r.expect(a, "shell.before-remove", -1)
		w.let(a)
		r.expect(a, "shell.after-remove", -1)
		if st.R == "enoent" {
			r.shellFinishes(a, false)
		}
	case "Spawn":
		a := r.shell(st.S)
		r.at(a, "shell.detected", "shell.after-remove")
		w.let(a)
		r.expect(a, "shell.before-spawn", -1)
		w.mu.Lock()
		next := w.nextD + 1
		w.mu.Unlock()
		if next != st.D {
			r.infra(fmt.Errorf("replayer: the next real daemon is d%d, the model spawns d%d", next, st.D))
		}
		w.let(a)
		r.expect(a, "shell.spawned", -1)
		d := r.daemon(st.D)
		if d == nil {
			r.fail("%s passed spawn without starting a daemon process", a.name())
		}
		r.expect(d, "daemon.spawned", -1)
	case "GiveUp":
		a := r.shell(st.S)
		r.at(a, "shell.spawned", "shell.retry-detected")
		// the wait loop is bounded by time; the model's K-th retry is made the last one by letting
		// the deadline pass while every other actor is held (GiveUp replays run one at a time)
		restore := daemon.VerifSetSpawnTimeout(0, time.Millisecond)
		func() {
			defer restore()
			r.shellFinishes(a, false)
		}()
	case "Exit":
		a := r.shell(st.S)
		if a.cl == nil {
			r.infra(fmt.Errorf("replayer: %s has no client to close", a.name()))
		}
		if err := a.cl.Close(); err != nil {
			r.fail("%s: closing the client failed: %v", a.name(), err)
		}
	case "ConnDone":
		d := r.daemon(st.D)
		if st.R == "exit" {
			r.expect(d, "daemon.before-remove", -1)
		} else {
			// the daemon goes on serving its other clients; wait until it has handled this disconnect,
			// so that the model's order of connects and disconnects is the order the daemon sees
			x, err := w.awaitConns(d, st.Nconn[st.D-1])
			if err != nil {
				r.infra(err)
			}
			if x != nil {
				r.pos[d] = *x
				r.fail("d%d left its loop (%s) after s%d disconnected, the model keeps it serving its %d connected client(s)", st.D, x.Point, st.S, st.Nconn[st.D-1])
			}
		}
	case "Listen":
		d := r.daemon(st.D)
		r.at(d, "daemon.spawned")
		w.let(d)
		if st.R == "ok" {
			// bind; the listen(2) of the same net.Listen follows at once (StartListen), and only then
			// the hook: both are awaited here so that the path can be projected after this step
			r.expect(d, "daemon.listening", -1)
			w.noteListening(st.D)
		} else {
			r.expect(d, "daemon.listen-failed", -1)
			w.let(d)
			r.expect(d, "daemon.returned", 2)
		}
	case "StartListen":
		r.at(r.daemon(st.D), "daemon.listening")
	case "OpenDb":
		d := r.daemon(st.D)
		r.at(d, "daemon.listening")
		w.let(d)
		if st.R == "ok" {
			r.expect(d, "daemon.db-opened", -1)
		} else {
			r.expect(d, "daemon.db-failed", -1)
		}
		w.let(d)
		r.expect(d, "daemon.serving", -1)
		w.let(d)
	case "RemoveSock":
		d := r.daemon(st.D)
		r.at(d, "daemon.before-remove")
		w.let(d)
		r.expect(d, "daemon.after-remove", -1)
	case "CloseDb":
		d := r.daemon(st.D)
		r.at(d, "daemon.after-remove")
		w.let(d)
		r.expect(d, "daemon.before-close", -1)
	case "CloseListener":
		d := r.daemon(st.D)
		r.at(d, "daemon.before-close")
		w.let(d)
		r.expect(d, "daemon.closed", -1)
		w.let(d)
		r.expect(d, "daemon.returned", 0)
		// shells that were queued on the listener get an RPC error and fail
		for s := 1; s <= len(st.Spc); s++ {
			a := r.shell(s)
			if a == nil || st.Spc[s-1] != "failed" || r.pos[a].Point == "shell.returned" {
				continue
			}
			select {
			case <-a.done:
				continue
			default:
			}
			x, err := w.await(a)
			if err != nil {
				r.infra(err)
			}
			r.pos[a] = x
			if !(x.Point == "shell.detected" || x.Point == "shell.retry-detected") || x.Arg != daemon.VerifConnectionOtherError {
				r.fail("%s reached %s(%d) after d%d closed its listener, the model says its request fails", a.name(), x.Point, x.Arg, st.D)
			}
			r.shellFinishes(a, false)
		}
	default:
		r.infra(fmt.Errorf("replayer: unknown action %q", st.A))
	}
}

// observe projects the real world after a step and compares it with the model's post-state:
// the inode the path names, nobody moved unexpectedly, and for every connected shell which daemon
// answers on ITS connection and whether that daemon owns the database.
func (r *replayer) observe(st *step) {
	w := r.w
	obs := map[string]any{"a": st.A, "s": st.S, "d": st.D, "r": st.R}
	sock := w.sockOwner()
	obs["sock"] = sock
	var conn []any
	defer func() {
		obs["connected"] = conn
		r.out.observed = append(r.out.observed, obs)
	}()
	if sock != st.Sock {
		r.fail("after %s(s%d,d%d): the socket path names inode %s, the model says %s", st.A, st.S, st.D, inoName(sock), inoName(st.Sock))
	}
	if (r.b.Kind == "term" || r.b.Kind == "sess") && st == &r.b.Steps[len(r.b.Steps)-1] {
		// a terminal state of the model: nobody may have moved beyond the point the model left it at
		w.mu.Lock()
		var all []*actor
		for _, a := range w.shells {
			all = append(all, a)
		}
		for _, a := range w.daemons {
			all = append(all, a)
		}
		w.mu.Unlock()
		for _, a := range all {
			select {
			case x := <-a.arrived:
				if x.Point != "shell.returned" && x.Point != "daemon.returned" {
					r.fail("at the end: %s moved on to %s(%d), the model keeps it where it was", a.name(), x.Point, x.Arg)
				}
			default:
			}
		}
	}
	for s := 1; s <= len(st.Spc); s++ {
		if st.Spc[s-1] != "connected" {
			continue
		}
		a := r.shell(s)
		if a == nil || a.cl == nil {
			r.fail("s%d is connected in the model but Activate has not returned a client", s)
		}
		d := st.Sconn[s-1]
		if st.Dpc[d-1] != "serving" {
			continue // the model itself says the daemon left (only after a violation)
		}
		v, err := a.cl.Version()
		if err != nil {
			r.fail("s%d: Version on its connection fails (%v), the model says d%d serves it", s, err, d)
		}
		_, aerr := a.cl.AddCmd("x")
		conn = append(conn, map[string]any{"s": s, "d": v - versionBase, "db": aerr == nil})
		if v-versionBase != d {
			r.fail("s%d is connected to d%d, the model says d%d", s, v-versionBase, d)
		}
		if (aerr == nil) != (st.Db == d && st.Hasdb[d-1]) {
			r.fail("s%d: AddCmd through d%d err=%v, the model says d%d owns the db: %v", s, d, aerr, d, st.Db == d)
		}
	}
}

func inoName(i int) string {
	switch {
	case i == 0:
		return "none"
	case i < 0:
		return "unknown"
	}
	return fmt.Sprintf("of d%d", i)
}

// replayBehaviour runs one behaviour on a fresh instance of the real world.
func replayBehaviour(b *behaviour) *outcome {
	out := &outcome{mismatchAt: -1}
	w, err := newInstance(true)
	if err != nil {
		out.infra = err
		return out
	}
	r := &replayer{w: w, b: b, pos: map[*actor]arrival{}, out: out}
	func() {
		defer func() {
			if x := recover(); x != nil {
				switch v := x.(type) {
				case mismatch:
					out.what = v.what
				case error:
					out.infra = v
				default:
					panic(x)
				}
			}
		}()
		r.run()
	}()
	if err := w.teardown(); err != nil && out.infra == nil {
		out.infra = err
	}
	return out
}
