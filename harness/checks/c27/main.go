// C27 — daemon activation yields one live daemon per socket.
// M: MCActivation — every interleaving of shells (detect / remove stale socket / spawn / retry / exit)
//    and daemons (listen / open db / accept / exit: remove socket, close db, close listener / crash)
//    from the initial worlds {no socket, stale socket, live daemon}; the as-is protocol is expected to
//    violate RemoveOnlyOwn, OneServerPerSocket and ConnectedIsLive; liveness (Termination) under WF.
// G: behaviours emitted by TLC (ordinary terminal ones and every class of counterexample) are replayed
//    on the REAL daemon.Activate / daemon.Serve in-process, the VerifPause hook being the scheduler;
//    after every step the real world is projected and compared with the model's post-state.
//    A counterexample the real code reproduces step by step is a genuine defect (known finding keyed
//    by its schedule signature); a mismatch on the conforming part of a behaviour is a violation.
// V: free-running races of 2..5 real shells (with / without a stale socket, shells exiting at random),
//    the hook only logging; TraceActivation lets TLC infer the unlogged steps.
package main

import (
	"encoding/json"
	"fmt"
	"math/rand"
	"os"
	"sort"
	"strings"
	"sync"
	"time"

	"verif.local/harness/lib"
)

func main() { lib.Main("C27", run) }

func mcCfg(ns, nd, k, crash int, record bool, spec string, lines ...string) []byte {
	rec := "FALSE"
	if record {
		rec = "TRUE"
	}
	s := fmt.Sprintf("CONSTANTS NS = %d ND = %d K = %d MaxCrash = %d Record = %s InitKinds = {\"none\", \"stale\", \"live\"}\nSPECIFICATION %s\n", ns, nd, k, crash, rec, spec)
	return []byte(s + strings.Join(lines, "\n") + "\n")
}

type tlcJob struct {
	name string
	run  lib.TLCRun
	res  *lib.TLCResult
	err  error
}

func run(c *lib.Ctx) error {
	dir := c.SpecDir("Activation")
	// the machine is shared: keep each JVM small (fewer GC/JIT threads); affects speed only
	os.Setenv("_JAVA_OPTIONS", "-XX:ParallelGCThreads=2 -XX:CICompilerCount=2 -XX:-UsePerfData")
	if c.Replay != "" {
		return replayStored(c, dir)
	}
	c.Set("rule", "a G case is one TLC behaviour replayed on the real Activate/Serve, distinct by its labelled step sequence, counted when it has >= 4 steps; a V case is one free-running race, distinct by its recorded event sequence")
	if os.Getenv("C27_ONLY") == "V" { // development switch: races only
		return judgeRaces(c, dir, runRaces(c))
	}
	type mc struct{ ns, nd, crash int }
	safety := []mc{{2, 3, 0}}
	live := mc{2, 2, 0}
	if c.Thorough() {
		safety = []mc{{3, 2, 0}, {2, 3, 1}}
		live = mc{2, 3, 1}
	}
	c.Set("bounds", map[string]any{"safety(NS,ND,crashes)": fmt.Sprint(safety), "liveness(NS,ND,crashes)": fmt.Sprint(live), "K": 2, "G": "NS=2 ND=3 K=2 crashes=0",
		"V": fmt.Sprintf("%d free-running races of 2-5 shells + 1 directed probe", c.Pick(40, 450))})
	jobs := []*tlcJob{
		{name: "MCActivation G first violations + terminal behaviours", run: lib.TLCRun{Dir: dir, Module: "MCActivation", Workers: 1, HeapGB: 4, Timeout: 13 * time.Minute,
			Files: map[string][]byte{"MCActivation.cfg": mcCfg(2, 3, 2, 0, true, "SpecG", "VIEW View", "CONSTRAINT StopAtViolation", "INVARIANT TypeOK EmitG EmitTerm")}}},
		{name: "MCActivation G deep counterexamples", run: lib.TLCRun{Dir: dir, Module: "MCActivation", Workers: 1, HeapGB: 4, Timeout: 13 * time.Minute,
			Files: map[string][]byte{"MCActivation.cfg": mcCfg(2, 3, 2, 0, true, "SpecG", "VIEW View", "CONSTRAINT StopAtDeep", "INVARIANT TypeOK EmitDeep")}}},
		{name: fmt.Sprintf("MCActivation liveness NS=%d ND=%d K=2 crash<=%d", live.ns, live.nd, live.crash), run: lib.TLCRun{Dir: dir, Module: "MCActivation", Workers: 2, HeapGB: 4, Timeout: 13 * time.Minute,
			Files: map[string][]byte{"MCActivation.cfg": mcCfg(live.ns, live.nd, 2, live.crash, false, "SpecLive", "PROPERTY Termination")}}},
	}
	nsess := c.Pick(3, 4)
	sessJob := &tlcJob{name: fmt.Sprintf("MCActivation G client sessions of one daemon, %d clients", nsess), run: lib.TLCRun{Dir: dir, Module: "MCActivation", Workers: 2, HeapGB: 4, Timeout: 13 * time.Minute,
		Files: map[string][]byte{"MCActivation.cfg": []byte(fmt.Sprintf("CONSTANTS NS = %d ND = 1 K = 1 MaxCrash = 0 Record = TRUE InitKinds = {\"live\"}\nSPECIFICATION SpecG\nCONSTRAINT SessionOK\nINVARIANT TypeOK DaemonExitsOnlyWhenNoClient ServeWhileClients EmitSess\n", nsess))}}}
	jobs = append(jobs, sessJob)
	for i, m := range safety {
		w := 2
		if i == 0 && c.Thorough() {
			w = 4
		}
		jobs = append(jobs, &tlcJob{name: fmt.Sprintf("MCActivation safety NS=%d ND=%d K=2 crash<=%d", m.ns, m.nd, m.crash), run: lib.TLCRun{Dir: dir, Module: "MCActivation", Workers: w, HeapGB: c.Pick(4, 12), Timeout: 13 * time.Minute,
			Files: map[string][]byte{"MCActivation.cfg": mcCfg(m.ns, m.nd, 2, m.crash, false, "Spec", "INVARIANT TypeOK DaemonExitsOnlyWhenNoClient EmitM")}}})
	}
	var wg sync.WaitGroup
	slots := make(chan struct{}, 3) // at most 3 model-checking JVMs at a time (+ the trace validation of V)
	for _, j := range jobs {
		wg.Add(1)
		go func(j *tlcJob) {
			defer wg.Done()
			slots <- struct{}{}
			defer func() { <-slots }()
			j.res, j.err = c.TLC(j.name, j.run)
		}(j)
	}
	// V runs while TLC works: the races are recorded first (they use the real spawn timeout, the G
	// replays below a practically infinite one: the two never overlap), then judged in the background
	races := runRaces(c)
	vdone := make(chan error, 1)
	go func() { vdone <- judgeRaces(c, dir, races) }()
	wg.Wait()
	for _, j := range jobs {
		if j.err != nil {
			return j.err
		}
		if j.res.ErrKind != "" {
			return lib.Infra("%s: the MODEL fails %s %s — model and code must be re-examined before any verdict:\n%s", j.name, j.res.ErrKind, j.res.ErrName, j.res.ErrTrace)
		}
	}
	// ---- M: what the as-is protocol violates (candidates; verdicts only from G and V)
	modelViol := map[string]int{}
	for _, j := range jobs {
		if !strings.Contains(j.name, "safety") {
			continue
		}
		for _, l := range j.res.PrintedStrings() {
			var m struct {
				Kind string   `json:"kind"`
				Inv  []string `json:"inv"`
				Bad  []string `json:"bad"`
			}
			if json.Unmarshal([]byte(l), &m) != nil || m.Kind != "m" {
				continue
			}
			for _, i := range m.Inv {
				modelViol[i]++
			}
		}
		c.Logf("%s: %d distinct states", j.name, j.res.Distinct)
	}
	c.Set("model_violating_state_reports_by_invariant", modelViol)
	if modelViol["ServeWhileClients"] > 0 {
		return lib.Infra("the model violates ServeWhileClients, which the as-is protocol is expected to satisfy: re-examine the model")
	}
	for _, inv := range []string{"RemoveOnlyOwn", "OneServerPerSocket", "ConnectedIsLive"} {
		if modelViol[inv] == 0 {
			c.Logf("note: the model no longer violates %s", inv)
		}
	}

	// ---- G
	var behs []*behaviour
	for _, j := range []*tlcJob{jobs[0], jobs[1], sessJob} {
		seen := map[string]bool{}
		for _, l := range j.res.PrintedStrings() {
			if seen[l] {
				continue
			}
			seen[l] = true
			b := &behaviour{}
			if err := json.Unmarshal([]byte(l), b); err != nil {
				return lib.Infra("bad behaviour from TLC: %v: %.200s", err, l)
			}
			if b.Kind == "" || len(b.Steps) == 0 {
				continue
			}
			behs = append(behs, b)
		}
	}
	if err := replayAll(c, behs); err != nil {
		<-vdone
		return err
	}

	// ---- V
	if err := <-vdone; err != nil {
		return err
	}
	c.Assume("TLC trusted; in-process: shells and daemons are goroutines of one process running the real daemon.Activate / daemon.Serve (startProcess overridden as in the repository's tests); the bbolt file lock is per open file description, so it conflicts inside one process as across processes; a crashed daemon is a listener closed with unlink-on-close disabled; connections accepted but never served are closed by finalizers (runtime.GC) where a real process exit would close them; the K retries of the model stand for the time-bounded wait loop (GiveUp is forced by a zero deadline while every other actor is held); statuses sockfileOtherError/daemonOutdated and signals are outside the model")
	return nil
}

func hasAction(b *behaviour, a string) bool {
	for _, s := range b.Steps {
		if s.A == a {
			return true
		}
	}
	return false
}

func labels(b *behaviour) []string {
	out := []string{b.Init}
	for _, s := range b.Steps {
		out = append(out, fmt.Sprintf("%s(%d,%d,%s)", s.A, s.S, s.D, s.R))
	}
	return out
}

// replayAll selects behaviours (all counterexample classes deterministically + a seeded sample) and
// replays them on the real code.
func replayAll(c *lib.Ctx, behs []*behaviour) error {
	type item struct {
		b   *behaviour
		key string // "" for ordinary behaviours
		cls string
		bad int
	}
	var ordinary, viol, sessions []item
	for _, b := range behs {
		skip := false
		for _, s := range b.Steps {
			if s.R == "outofids" {
				skip = true // the bound of the model, not a behaviour of the code
			}
		}
		if skip {
			continue
		}
		if b.Kind == "sess" {
			sessions = append(sessions, item{b: b, bad: -1})
			continue
		}
		if b.Kind == "term" {
			ordinary = append(ordinary, item{b: b, bad: -1})
			continue
		}
		cls, sig, at := signature(b.Init, b.Steps)
		if at < 0 {
			return lib.Infra("TLC emitted a %s behaviour without an offending step: %v", b.Kind, labels(b))
		}
		viol = append(viol, item{b: b, key: "activation:" + sig, cls: cls, bad: at})
	}
	sort.SliceStable(viol, func(i, j int) bool {
		if viol[i].key != viol[j].key {
			return viol[i].key < viol[j].key
		}
		if viol[i].b.Kind != viol[j].b.Kind {
			return viol[i].b.Kind < viol[j].b.Kind
		}
		if len(viol[i].b.Steps) != len(viol[j].b.Steps) {
			return len(viol[i].b.Steps) < len(viol[j].b.Steps)
		}
		return strings.Join(labels(viol[i].b), " ") < strings.Join(labels(viol[j].b), " ")
	})
	sort.SliceStable(ordinary, func(i, j int) bool {
		return strings.Join(labels(ordinary[i].b), " ") < strings.Join(labels(ordinary[j].b), " ")
	})
	rng := rand.New(rand.NewSource(c.Seed))
	// counterexamples: per (signature, kind) the shortest one in every run, plus a seeded sample
	var chosen []item
	sigs := map[string]int{}
	group := map[string][]item{}
	var order []string
	for _, it := range viol {
		sigs[it.key]++
		g := it.key + "/" + it.b.Kind
		if _, ok := group[g]; !ok {
			order = append(order, g)
		}
		group[g] = append(group[g], it)
	}
	extra := c.Pick(1, 6)
	for _, g := range order {
		its := group[g]
		chosen = append(chosen, its[0])
		rest := its[1:]
		rng.Shuffle(len(rest), func(i, j int) { rest[i], rest[j] = rest[j], rest[i] })
		for i := 0; i < extra && i < len(rest); i++ {
			chosen = append(chosen, rest[i])
		}
	}
	c.Set("model_counterexample_signatures", sigs)
	nOrd := c.Pick(45, len(ordinary))
	rng.Shuffle(len(ordinary), func(i, j int) { ordinary[i], ordinary[j] = ordinary[j], ordinary[i] })
	if os.Getenv("C27_CORRUPT") != "" && len(ordinary) > 0 { // development switch (vacuity guard by hand):
		b := ordinary[0].b // falsify one prescribed post-state; the replay must report a mismatch
		b.Steps[len(b.Steps)/2].Sock = 3 - b.Steps[len(b.Steps)/2].Sock
	}
	if nOrd > len(ordinary) {
		nOrd = len(ordinary)
	}
	c.Set("g_ordinary_behaviours_available", len(ordinary))
	c.Set("g_exhaustive_over_terminal_behaviours", nOrd == len(ordinary))
	chosen = append(chosen, ordinary[:nOrd]...)
	// client sessions of one daemon: every order of connects and disconnects (3 clients: all of them in
	// every run; 4 clients: a seeded sample on top of nothing less than 400)
	sort.SliceStable(sessions, func(i, j int) bool {
		return strings.Join(labels(sessions[i].b), " ") < strings.Join(labels(sessions[j].b), " ")
	})
	nSess := len(sessions)
	if nSess > 600 {
		rng.Shuffle(len(sessions), func(i, j int) { sessions[i], sessions[j] = sessions[j], sessions[i] })
		nSess = 600
	}
	c.Set("g_session_behaviours_available", len(sessions))
	c.Set("g_session_behaviours_replayed", nSess)
	chosen = append(chosen, sessions[:nSess]...)
	c.Logf("G: %d behaviours emitted (%d counterexamples in %d signatures, %d terminal, %d client sessions); replaying %d", len(behs), len(viol), len(sigs), len(ordinary), len(sessions), len(chosen))

	var par, seq []item
	for _, it := range chosen {
		if hasAction(it.b, "GiveUp") {
			seq = append(seq, it)
		} else {
			par = append(par, it)
		}
	}
	var mu sync.Mutex
	var firstErr error
	reproduced := map[string]int{}
	unreproduced := 0
	handle := func(it item) {
		out := replayBehaviour(it.b)
		mu.Lock()
		defer mu.Unlock()
		if out.infra != nil {
			if firstErr == nil {
				firstErr = lib.Infra("replay of %v: %v", labels(it.b), out.infra)
			}
			return
		}
		c.AddTraces(1)
		c.AddEvals(len(it.b.Steps))
		if len(it.b.Steps) >= 4 {
			c.Distinct(labels(it.b))
		}
		c.Inc("g_steps_replayed", int64(len(out.observed)))
		for _, s := range it.b.Steps {
			c.Inc("g_action_"+s.A, 1)
		}
		rc := map[string]any{"mode": "G", "behaviour": it.b, "observed": out.observed}
		switch {
		case out.mismatchAt < 0 && it.key == "":
			// conforming behaviour reproduced
		case out.mismatchAt < 0:
			reproduced[it.key]++
			if reproduced[it.key] == 1 {
				c.Sample(map[string]any{"signature": it.key, "class": it.cls, "steps": labels(it.b)})
			}
			c.Reject(it.key, fmt.Sprintf("the real Activate/Serve reproduce a model counterexample step by step (%s; violates %v): %s", it.cls, it.b.Inv, strings.Join(labels(it.b), " ")), rc)
		case it.key != "" && out.mismatchAt >= it.bad:
			// the real code does not take the offending step the as-is model takes: candidate not reproduced
			unreproduced++
			c.Logf("candidate %s not reproduced at step %d: %s", it.key, out.mismatchAt, out.what)
		default:
			st := it.b.Steps[out.mismatchAt]
			c.Reject("activation:replay-mismatch:"+st.A, fmt.Sprintf("step %d %s(s%d,d%d,%s) of a conforming model behaviour: %s  [%s]", out.mismatchAt, st.A, st.S, st.D, st.R, out.what, strings.Join(labels(it.b), " ")), rc)
		}
	}
	lib.Parallel(len(par), 4, func(i int) { handle(par[i]) })
	for _, it := range seq {
		handle(it)
	}
	c.Set("g_counterexamples_reproduced_by_signature", reproduced)
	c.Set("g_candidates_not_reproduced", unreproduced)
	return firstErr
}

func replayStored(c *lib.Ctx, dir string) error {
	b, err := os.ReadFile(c.Replay)
	if err != nil {
		return lib.Infra("%v", err)
	}
	var f struct {
		Key  string `json:"key"`
		Case struct {
			Mode      string     `json:"mode"`
			Behaviour *behaviour `json:"behaviour"`
			Events    []event    `json:"events"`
		} `json:"case"`
	}
	if err := json.Unmarshal(b, &f); err != nil {
		return lib.Infra("%v", err)
	}
	if f.Case.Mode == "G" && f.Case.Behaviour != nil {
		return replayAll(c, []*behaviour{f.Case.Behaviour})
	}
	if f.Case.Mode == "V" {
		return judgeRaces(c, dir, []*race{{evs: f.Case.Events}})
	}
	return lib.Infra("replay file has no case")
}
