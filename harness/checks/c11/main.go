// C11 — exact arithmetic is mathematically exact and canonical.
//
// M: BigNat.tla against native arithmetic (MCBigNat); internal theorems of Arith.tla on the
//
//	native instance (MCArithLaws); both instances agree on every small case (MCArith).
//
// G: every (command, argument list) over the small pool (MCArith) and over the 2^63 boundary pool
//
//	(MCArithBig), with the outcome Arith.tla prescribes, is replayed through the real builtins.
//
// V: seeded random calls of the real builtins are recorded and judged by JudgeArith.tla (BigNat).
//
// The Go side renders abstract arguments as Elvish source, runs the real interpreter and projects
// results (Go representation = class; big.Int <-> limbs). It computes no expected value.
package main

import (
	"encoding/json"
	"fmt"
	"math/big"
	"os"
	"strings"
	"time"

	"src.elv.sh/pkg/eval"
	"verif.local/harness/checks/c11/numx"
	"verif.local/harness/elv"
	"verif.local/harness/lib"
)

type acase struct {
	Cmd  string       `json:"cmd"`
	Args []numx.Val   `json:"args"`
	Step []numx.Val   `json:"step"`
	Out  numx.Outcome `json:"out"` // prescribed (G)
}

type vcase struct {
	Cmd  string       `json:"cmd"`
	Args []numx.Val   `json:"args"`
	Step []numx.Val   `json:"step"`
	Obs  numx.Outcome `json:"obs"` // observed (V)
}

func main() { lib.Main("C11", run) }

// source renders a call. typed: arguments as (num ...) values, else as their string representations.
func source(cmd string, args, step []numx.Val, typed bool) string {
	var sb strings.Builder
	sb.WriteString(cmd)
	r := func(v numx.Val) string {
		if typed {
			return v.Typed()
		}
		return v.Text()
	}
	for _, s := range step {
		sb.WriteString(" &step=" + r(s))
	}
	for _, a := range args {
		sb.WriteString(" " + r(a))
	}
	return sb.String()
}

// observe runs the call on the real interpreter and projects what happened.
func observe(ev *eval.Evaler, code string) (numx.Outcome, string, error) {
	o := elv.RunCtx(ev, code, nil, 60*time.Second)
	switch {
	case o.Timeout:
		return numx.Outcome{}, "", lib.Infra("evaluation of %q did not return", code)
	case o.Panic != "":
		first := o.Panic
		if i := strings.IndexByte(first, '\n'); i > 0 {
			first = first[:i]
		}
		return numx.Outcome{T: "panic", Vs: []numx.Res{}}, "panic: " + first, nil
	case o.Err != nil:
		if cl := elv.ErrClass(o.Err); cl != "exception" {
			return numx.Outcome{}, "", lib.Infra("rendered call %q is not valid Elvish (%s): %v", code, cl, o.Err)
		}
		return numx.Outcome{T: "exc", Vs: []numx.Res{}}, "exception: " + o.Err.Error(), nil
	}
	out := numx.Outcome{T: "vals", Vs: []numx.Res{}}
	for _, v := range o.Values {
		out.Vs = append(out.Vs, numx.Project(v))
	}
	return out, out.String(), nil
}

func sig(cmd string, args, step []numx.Val) string {
	var ss []string
	for _, a := range args {
		ss = append(ss, a.Sig())
	}
	s := cmd + ":" + strings.Join(ss, ",")
	for _, st := range step {
		s += ":step=" + st.Sig()
	}
	return s
}

// kind names the way an observed outcome deviates from the prescribed one.
func kind(want, got numx.Outcome) string {
	switch {
	case got.T == "panic":
		return "panic"
	case want.T == "exc":
		return "missing-exception"
	case got.T == "exc":
		return "unexpected-exception"
	case len(want.Vs) != len(got.Vs):
		return "wrong-count"
	}
	for i := range want.Vs {
		if want.Vs[i].Cls != got.Vs[i].Cls {
			return "wrong-class"
		}
	}
	return "wrong-value"
}

func show(cmd string, args, step []numx.Val) string { return source(cmd, args, step, false) }

// replayCase runs one prescribed case in both argument spellings.
func replayCase(c *lib.Ctx, ev *eval.Evaler, gc acase) error {
	if gc.Out.T != "vals" && gc.Out.T != "exc" {
		c.Inc("not_prescribed_"+gc.Out.T, 1)
		return nil
	}
	c.Distinct(show(gc.Cmd, gc.Args, gc.Step))
	for _, typed := range []bool{true, false} {
		code := source(gc.Cmd, gc.Args, gc.Step, typed)
		got, desc, err := observe(ev, code)
		if err != nil {
			return err
		}
		c.AddEvals(1)
		if !got.Equal(gc.Out) {
			key := sig(gc.Cmd, gc.Args, gc.Step) + ":" + kind(gc.Out, got)
			c.Reject(key, fmt.Sprintf("%s -> %s; Arith.tla prescribes %s", code, desc, gc.Out), gc)
			return nil
		}
	}
	return nil
}

func parseCases(r *lib.TLCResult) ([]acase, error) {
	seen := map[string]bool{}
	var out []acase
	for _, s := range r.PrintedStrings() {
		if seen[s] {
			continue
		}
		seen[s] = true
		var gc acase
		if err := json.Unmarshal([]byte(s), &gc); err != nil {
			return nil, lib.Infra("bad case from TLC: %v: %s", err, s)
		}
		out = append(out, gc)
	}
	return out, nil
}

func cfg(consts string, invs ...string) []byte {
	s := consts + "INIT Init\nNEXT Next\n"
	for _, i := range invs {
		s += "INVARIANT " + i + "\n"
	}
	return []byte(s)
}

func run(c *lib.Ctx) error {
	dir := c.SpecDir("Arith")
	if c.Replay != "" {
		return replay(c)
	}
	ev := newEvaler()
	c.Set("rule", "a case is (command, argument list, step); distinct by its rendered call; counted only when Arith.tla prescribes values or an exception (Unspecified and inexact cases are not counted)")

	// ---- V, recording half: random calls of the real builtins (judged by TLC below)
	cases, err := recordRandom(c, ev)
	if err != nil {
		return err
	}

	// ---- the TLC work runs as 4 concurrent processes with one worker each (the two model runs are chained)
	nBig := c.Pick(10, 120)
	K, D := c.Pick(3, 6), c.Pick(3, 4)
	maxLen := 3
	L := c.Pick(2, 3)
	agree := c.Pick(2, 3) // BackEndsAgree is evaluated on lists up to this length
	var rSmall, rBig *lib.TLCResult
	var bad []lib.BadCase
	errs := make([]error, 5)
	// development aid: VERIF_C11_ONLY=small|big|random|model restricts the run to one part
	only := os.Getenv("VERIF_C11_ONLY")
	want := func(part string) bool { return only == "" || only == part }
	task := func(i int) {
		if !want([]string{"model", "model", "small", "big", "random"}[i]) {
			return
		}
		switch i {
		case 0: // M: the integer back end
			r, err := c.TLC("MCBigNat", lib.TLCRun{Dir: dir, Module: "MCBigNat", Workers: 1, Timeout: 14 * time.Minute,
				Files: map[string][]byte{"MCBigNat.cfg": cfg(fmt.Sprintf("CONSTANT N = %d\nCONSTANT AllWide = %s\n", nBig, map[bool]string{true: "TRUE", false: "FALSE"}[c.Thorough()]), "NativeOK", "WideOK")}})
			if err == nil && r.ErrKind != "" {
				err = lib.Infra("BigNat disagrees with native arithmetic: %s\n%s", r.Err, r.ErrTrace)
			}
			errs[i] = err
		case 1: // M: internal theorems of Arith.tla
			r, err := c.TLC("MCArithLaws", lib.TLCRun{Dir: dir, Module: "MCArithLaws", Workers: 1, Timeout: 14 * time.Minute,
				Files: map[string][]byte{"MCArithLaws.cfg": cfg(fmt.Sprintf("CONSTANT K = %d\nCONSTANT D = %d\n", K, D), "Unary", "Binary", "Ternary")}})
			if err == nil && r.ErrKind != "" {
				err = lib.Infra("an internal theorem of Arith.tla fails in the model: %s %s\n%s", r.ErrName, r.Err, r.ErrTrace)
			}
			errs[i] = err
		case 2: // M + G: small pool, exhaustive
			r, err := c.TLC("MCArith", lib.TLCRun{Dir: dir, Module: "MCArith", Workers: 1, Timeout: 14 * time.Minute,
				Files: map[string][]byte{"MCArith.cfg": cfg(fmt.Sprintf("CONSTANT MaxLen = %d\nCONSTANT AgreeLen = %d\n", maxLen, agree), "BackEndsAgree", "Canonical", "Emit")}})
			if err == nil && r.ErrKind != "" {
				err = lib.Infra("Arith.tla inconsistent on the small pool: %s %s\n%s", r.ErrName, r.Err, r.ErrTrace)
			}
			rSmall, errs[i] = r, err
		case 3: // G: the 2^63 boundary, BigNat
			r, err := c.TLC("MCArithBig", lib.TLCRun{Dir: dir, Module: "MCArithBig", Workers: c.Pick(1, 2), Timeout: 14 * time.Minute,
				Files: map[string][]byte{"MCArithBig.cfg": cfg(fmt.Sprintf("CONSTANT L = %d\n", L), "WellFormed", "Emit")}})
			if err == nil && r.ErrKind != "" {
				err = lib.Infra("Arith.tla over BigNat prescribes a non-canonical value: %s %s\n%s", r.ErrName, r.Err, r.ErrTrace)
			}
			rBig, errs[i] = r, err
		case 4: // V, judging half
			bad, errs[i] = lib.Judge(c, "JudgeArith", dir, "JudgeArith", cases, c.Pick(1, 2), 14*time.Minute)
		}
	}
	lib.Parallel(4, 4, func(i int) {
		if i == 0 {
			task(0)
			task(1)
		} else {
			task(i + 1)
		}
	})
	for _, e := range errs {
		if e != nil {
			return e
		}
	}

	var small, bigc []acase
	if rSmall != nil {
		small, err = parseCases(rSmall)
	}
	if err != nil {
		return err
	}
	if want("small") && len(small) < 10000 {
		return lib.Infra("small-pool enumeration incomplete: %d cases", len(small))
	}
	for i, gc := range small {
		if err := replayCase(c, ev, gc); err != nil {
			return err
		}
		if i%4001 == 7 {
			c.Sample(gc)
		}
	}
	c.AddTraces(len(small))
	c.Logf("small pool: %d cases replayed", len(small))

	if rBig != nil {
		bigc, err = parseCases(rBig)
	}
	if err != nil {
		return err
	}
	if want("big") && len(bigc) < 1000 {
		return lib.Infra("boundary enumeration incomplete: %d cases", len(bigc))
	}
	for i, gc := range bigc {
		if err := replayCase(c, ev, gc); err != nil {
			return err
		}
		if i%701 == 5 {
			c.Sample(gc)
		}
	}
	c.AddTraces(len(bigc))
	c.Logf("boundary pool: %d cases replayed", len(bigc))
	c.Set("exhaustive", only == "")
	c.Set("bounds", map[string]any{"small_pool": "{-3,-2,-1,-1/2,0,1/3,1/2,1,2,3} + floats {0.0,1.5,+Inf,NaN} for * / %", "max_len": maxLen,
		"boundary_pool": "{0,+-1,+-2^31,+-(2^63-1),+-2^63,+-(2^63+1),2^64,10^30} + big rationals", "boundary_len": L,
		"laws_K": K, "laws_D": D, "bignat_native_N": nBig, "back_ends_agree_len": agree})

	if want("random") {
		if err := reportRandom(c, cases, bad); err != nil {
			return err
		}
	}
	c.Assume("TLC is trusted; Arith.tla is the reading of builtin_fn_num.d.elv, math.d.elv and language.md (Exactness); BigNat.tla is checked against TLC's native integers and algebraic identities only up to the stated bounds")
	c.Assume("the executor converts between big.Int and base-10^4 limbs and takes the Go representation (int, *big.Int, *big.Rat, float64) of a result as its class; arguments are built by the real `num` (C05 covers it)")
	return nil
}

func recordRandom(c *lib.Ctx, ev *eval.Evaler) ([]vcase, error) {
	n := c.Pick(400, 9000)
	g := &gen{r: c.Rand}
	var cases []vcase
	for i := 0; i < n; i++ {
		cmd, args, step := g.call()
		if args == nil {
			args = []numx.Val{}
		}
		if step == nil {
			step = []numx.Val{}
		}
		typed := c.Rand.Intn(4) != 0
		obs, _, err := observe(ev, source(cmd, args, step, typed))
		if err != nil {
			return nil, err
		}
		c.AddEvals(1)
		cases = append(cases, vcase{cmd, args, step, obs})
	}
	// vacuity guard: the last case is a copy of a recorded exact result with its value changed by
	// one; the judge must reject it (checked in reportRandom)
	for _, vc := range cases {
		if vc.Obs.T == "vals" && len(vc.Obs.Vs) == 1 && vc.Obs.Vs[0].Cls == "int" && vc.Obs.Vs[0].N.IsInt64() && vc.Obs.Vs[0].N.Int64() < 1000 {
			bad := vc
			r := vc.Obs.Vs[0]
			r.N = numx.ZInt(r.N.Int64() + 1)
			bad.Obs = numx.Outcome{T: "vals", Vs: []numx.Res{r}}
			cases = append(cases, bad)
			return cases, nil
		}
	}
	return nil, lib.Infra("no recorded case suitable for the vacuity guard")
}

func reportRandom(c *lib.Ctx, cases []vcase, bad []lib.BadCase) error {
	np := 0
	// the corrupted copy (last case) must be among the rejected ones
	guard := len(cases) - 1
	caught := false
	for _, b := range bad {
		if b.Index == guard {
			if why, _ := b.Info[0].(string); !strings.HasPrefix(why, "np:") {
				caught = true
			}
		}
	}
	if !caught {
		return lib.Infra("vacuity guard: JudgeArith accepted a corrupted result")
	}
	cases = cases[:guard]
	for _, b := range bad {
		if b.Index == guard {
			continue
		}
		vc := cases[b.Index]
		why, _ := b.Info[0].(string)
		if strings.HasPrefix(why, "np:") {
			np++
			continue
		}
		want := numx.Outcome{T: why}
		key := sig(vc.Cmd, vc.Args, vc.Step) + ":" + kind(want, vc.Obs)
		c.Reject(key, fmt.Sprintf("%s -> %s; JudgeArith.tla rejects it (prescribed kind: %s)", show(vc.Cmd, vc.Args, vc.Step), vc.Obs, why), vc)
	}
	for i, vc := range cases {
		c.Distinct(show(vc.Cmd, vc.Args, vc.Step))
		if i < 2 {
			c.Sample(vc)
		}
	}
	c.AddTraces(len(cases) - np)
	c.Set("random_cases", len(cases))
	c.Set("random_cases_not_prescribed", np)
	c.Set("vacuity_guard", "a corrupted copy of one recorded result was rejected by JudgeArith")
	c.Logf("random: %d cases judged, %d not prescribed", len(cases), np)
	return nil
}

// newEvaler returns an interpreter with math: imported once (importing it in every evaluation
// would add one global slot per call and make long runs quadratic).
func newEvaler() *eval.Evaler {
	ev := elv.New()
	if o := elv.Run(ev, "use math"); o.Err != nil || o.Panic != "" {
		panic(fmt.Sprintf("use math: %v %s", o.Err, o.Panic))
	}
	return ev
}

func replay(c *lib.Ctx) error {
	b, err := os.ReadFile(c.Replay)
	if err != nil {
		return lib.Infra("%v", err)
	}
	var f struct {
		Case json.RawMessage `json:"case"`
	}
	if err := json.Unmarshal(b, &f); err != nil {
		return lib.Infra("%v", err)
	}
	ev := newEvaler()
	var probe struct {
		Out *numx.Outcome `json:"out"`
	}
	json.Unmarshal(f.Case, &probe)
	if probe.Out != nil {
		var gc acase
		if err := json.Unmarshal(f.Case, &gc); err != nil {
			return lib.Infra("%v", err)
		}
		return replayCase(c, ev, gc)
	}
	// a recorded (V) case: run it again and judge it again
	var vc vcase
	if err := json.Unmarshal(f.Case, &vc); err != nil {
		return lib.Infra("%v", err)
	}
	obs, _, err := observe(ev, source(vc.Cmd, vc.Args, vc.Step, true))
	if err != nil {
		return err
	}
	vc.Obs = obs
	bad, err := lib.Judge(c, "JudgeArith", c.SpecDir("Arith"), "JudgeArith", []vcase{vc}, 1, 5*time.Minute)
	if err != nil {
		return err
	}
	for _, bc := range bad {
		why, _ := bc.Info[0].(string)
		if !strings.HasPrefix(why, "np:") {
			c.Reject(sig(vc.Cmd, vc.Args, vc.Step)+":"+kind(numx.Outcome{T: why}, obs), fmt.Sprintf("%s -> %s", show(vc.Cmd, vc.Args, vc.Step), obs), vc)
		}
	}
	return nil
}

var _ = big.NewInt
