package main

import (
	"math/big"
	"math/rand"

	"verif.local/harness/checks/c11/numx"
)

// gen draws random calls (inputs only): machine integers biased to 0, +-1 and the +-2^63
// boundary, big integers, and rationals of all sizes, for every command of the property.
type gen struct{ r *rand.Rand }

func (g *gen) bigInt() *big.Int          { return (&numx.Gen{R: g.r}).BigInt() }
func (g *gen) exact() numx.Val           { return (&numx.Gen{R: g.r}).Exact(true) }
func (g *gen) exactB(big_ bool) numx.Val { return (&numx.Gen{R: g.r}).Exact(big_) }

func (g *gen) float() numx.Val {
	fs := []string{"0.0", "-0.0", "1.5", "-2.0", "+Inf", "-Inf", "NaN", "5e-324", "1e308"}
	id := fs[g.r.Intn(len(fs))]
	cl := "fin"
	switch id {
	case "+Inf", "-Inf":
		cl = "inf"
	case "NaN":
		cl = "nan"
	}
	return numx.Val{K: "f", N: numx.ZInt(0), D: numx.ZInt(1), C: cl, Id: id}
}

func (g *gen) list(n int, floats bool) []numx.Val {
	out := make([]numx.Val, n)
	bigRats := 0
	for i := range out {
		if floats && g.r.Intn(5) == 0 {
			out[i] = g.float()
		} else if floats && g.r.Intn(3) == 0 {
			out[i] = numx.ExactInt(big.NewInt(0))
		} else {
			out[i] = g.exactB(bigRats < 2)
			if out[i].D.BitLen() > 10 {
				bigRats++
			}
		}
	}
	return out
}

var cmds = []string{"+", "-", "*", "/", "%", "range", "math:abs", "math:ceil", "math:floor", "math:round",
	"math:round-to-even", "math:trunc", "math:min", "math:max", "math:pow"}

func (g *gen) call() (string, []numx.Val, []numx.Val) {
	r := g.r
	cmd := cmds[r.Intn(len(cmds))]
	switch cmd {
	case "+", "-", "math:min", "math:max":
		return cmd, g.list(r.Intn(7), false), nil
	case "*", "/":
		n := r.Intn(7)
		if cmd == "/" && n == 0 {
			n = 1
		}
		return cmd, g.list(n, r.Intn(4) == 0), nil
	case "%":
		if r.Intn(6) == 0 {
			return cmd, g.list(2, true), nil
		}
		return cmd, []numx.Val{numx.ExactInt(g.bigInt()), numx.ExactInt(g.bigInt())}, nil
	case "math:pow":
		base := g.exact()
		var e int64
		if base.N.BitLen() <= 2 && base.D.BitLen() <= 2 {
			e = int64(r.Intn(141) - 70)
		} else {
			e = int64(r.Intn(11) - 5)
		}
		return cmd, []numx.Val{base, numx.ExactInt(big.NewInt(e))}, nil
	case "range":
		// choose start, step, and a length; the end is derived so that the walk stays short
		start := g.exactB(false).Rat()
		var step *big.Rat
		switch r.Intn(4) {
		case 0:
			step = nil
		case 1:
			step = big.NewRat(int64(1+r.Intn(5)), int64(1+r.Intn(4)))
		default:
			step = new(big.Rat).Abs(g.exactB(false).Rat())
			if step.Sign() == 0 {
				step = big.NewRat(1, 1)
			}
		}
		down := r.Intn(2) == 0
		eff := big.NewRat(1, 1)
		if step != nil {
			eff = new(big.Rat).Set(step)
		}
		if down {
			eff.Neg(eff)
			if step != nil {
				step = new(big.Rat).Neg(step)
			}
		}
		n := int64(r.Intn(9))
		end := new(big.Rat).Mul(eff, big.NewRat(2*n+int64(r.Intn(2)), 2)) // start + eff*(n or n+1/2)
		end.Add(end, start)
		if step != nil && r.Intn(12) == 0 {
			step.Neg(step) // wrong direction: documented exception
		}
		args := []numx.Val{numx.Exact(start), numx.Exact(end)}
		if start.Sign() == 0 && r.Intn(2) == 0 {
			args = args[1:]
		}
		if step == nil {
			return cmd, args, nil
		}
		return cmd, args, []numx.Val{numx.Exact(step)}
	default: // unary
		return cmd, []numx.Val{g.exact()}, nil
	}
}
