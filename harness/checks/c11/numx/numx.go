// Package numx is shared by the numeric checks (C05, C11, C12): the JSON forms of numbers that
// travel between TLC and the executors, and the projection of real Elvish numbers to them.
// It contains no expected outcomes: only representation changes (big.Int <-> base-10^4 limbs).
package numx

import (
	"encoding/json"
	"fmt"
	"math"
	"math/big"
	"strings"
)

// Z is an integer in either JSON form used by the specifications: a plain JSON integer (native
// back end of Arith.tla) or {"s": sign, "m": [little-endian base-10^4 limbs]} (BigNat.tla).
type Z struct{ big.Int }

const limbBase = 10000

func NewZ(b *big.Int) Z { var z Z; z.Set(b); return z }
func ZInt(i int64) Z    { var z Z; z.SetInt64(i); return z }

func (z *Z) UnmarshalJSON(b []byte) error {
	s := strings.TrimSpace(string(b))
	if strings.HasPrefix(s, "{") {
		var r struct {
			S int   `json:"s"`
			M []int `json:"m"`
		}
		if err := json.Unmarshal(b, &r); err != nil {
			return err
		}
		acc := new(big.Int)
		base := big.NewInt(limbBase)
		for i := len(r.M) - 1; i >= 0; i-- {
			if r.M[i] < 0 || r.M[i] >= limbBase {
				return fmt.Errorf("limb out of range: %d", r.M[i])
			}
			acc.Mul(acc, base)
			acc.Add(acc, big.NewInt(int64(r.M[i])))
		}
		if (r.S == 0) != (len(r.M) == 0) || r.S < -1 || r.S > 1 {
			return fmt.Errorf("non-canonical integer %s", s)
		}
		if r.S < 0 {
			acc.Neg(acc)
		}
		z.Set(acc)
		return nil
	}
	if _, ok := z.SetString(s, 10); !ok {
		return fmt.Errorf("bad integer %q", s)
	}
	return nil
}

// MarshalJSON always produces the limb form (what the Big instance of the specifications reads).
func (z Z) MarshalJSON() ([]byte, error) {
	m := []int{}
	a := new(big.Int).Abs(&z.Int)
	base := big.NewInt(limbBase)
	r := new(big.Int)
	for a.Sign() > 0 {
		a.QuoRem(a, base, r)
		m = append(m, int(r.Int64()))
	}
	return json.Marshal(map[string]any{"s": z.Sign(), "m": m})
}

// Val is an argument value: exact n/d (lowest terms, d > 0) or a float atom.
//
//	K = "x": N, D;      K = "f": C = "fin" | "inf" | "nan", Id = name, Bits = IEEE bit pattern
type Val struct {
	K    string `json:"k"`
	N    Z      `json:"n"`
	D    Z      `json:"d"`
	C    string `json:"c"`
	Id   string `json:"id"`
	Bits []int  `json:"bits,omitempty"` // floats: the 16 hex digits of the IEEE-754 bit pattern
}

// HexDigits splits a bit pattern into 16 hex digits, most significant first.
func HexDigits(b uint64) []int {
	out := make([]int, 16)
	for i := 15; i >= 0; i-- {
		out[i] = int(b & 15)
		b >>= 4
	}
	return out
}

// FromHex is the inverse of HexDigits.
func FromHex(d []int) uint64 {
	var b uint64
	for _, x := range d {
		b = b<<4 | uint64(x&15)
	}
	return b
}

// F64 is the float an argument of kind "f" stands for (from its bits, else from its name).
func (v Val) F64() float64 {
	if len(v.Bits) == 16 {
		return math.Float64frombits(FromHex(v.Bits))
	}
	switch v.Id {
	case "+Inf":
		return math.Inf(1)
	case "-Inf":
		return math.Inf(-1)
	case "NaN":
		return math.NaN()
	}
	var f float64
	fmt.Sscanf(v.Id, "%g", &f)
	return f
}

func Exact(r *big.Rat) Val { return Val{K: "x", N: NewZ(r.Num()), D: NewZ(r.Denom())} }
func ExactInt(b *big.Int) Val {
	return Val{K: "x", N: NewZ(b), D: ZInt(1)}
}

func FloatClass(f float64) string {
	switch {
	case math.IsNaN(f):
		return "nan"
	case math.IsInf(f, 0):
		return "inf"
	}
	return "fin"
}

func Float(f float64) Val {
	return Val{K: "f", N: ZInt(0), D: ZInt(1), C: FloatClass(f), Id: FloatText(f), Bits: HexDigits(math.Float64bits(f))}
}

// FloatText is a spelling of f that `num` reads back to the same bit pattern (NaN: any NaN).
func FloatText(f float64) string {
	switch {
	case math.IsNaN(f):
		return "NaN"
	case math.IsInf(f, 1):
		return "+Inf"
	case math.IsInf(f, -1):
		return "-Inf"
	}
	s := fmt.Sprintf("%g", f)
	if !strings.ContainsAny(s, ".e") {
		s += ".0"
	}
	return s
}

func (v Val) Rat() *big.Rat { return new(big.Rat).SetFrac(&v.N.Int, &v.D.Int) }

// Text is the string representation of the value (what `num` parses).
func (v Val) Text() string {
	if v.K == "f" {
		if len(v.Bits) == 16 {
			return FloatText(v.F64())
		}
		return v.Id
	}
	if v.D.IsInt64() && v.D.Int64() == 1 {
		return v.N.String()
	}
	return v.N.String() + "/" + v.D.String()
}

// Typed renders the value as Elvish source producing the typed number.
func (v Val) Typed() string { return "(num " + v.Text() + ")" }

// Sig is the structural class of an argument, used in finding keys: 0, +i, -i (fits 64 bits),
// +I, -I (big integer), +r, -r (non-integral), f:<class>.
func (v Val) Sig() string {
	if v.K == "f" {
		if len(v.Bits) != 16 {
			return "f:" + v.C
		}
		f := v.F64()
		sg := "+"
		if math.Signbit(f) {
			sg = "-"
		}
		switch {
		case math.IsNaN(f):
			return "f:nan"
		case math.IsInf(f, 0):
			return "f:" + sg + "inf"
		case f == 0:
			return "f:" + sg + "0"
		case math.Abs(f) < 2.2250738585072014e-308:
			return "f:" + sg + "sub"
		}
		return "f:" + sg + "fin"
	}
	if v.N.Sign() == 0 {
		return "0"
	}
	sg := "+"
	if v.N.Sign() < 0 {
		sg = "-"
	}
	switch {
	case !(v.D.IsInt64() && v.D.Int64() == 1):
		return sg + "r"
	case v.N.IsInt64():
		return sg + "i"
	}
	return sg + "I"
}

// Res is one output value: canonical class and value.
type Res struct {
	Cls string `json:"cls"` // int | bigint | rat | float | other
	N   Z      `json:"n"`
	D   Z      `json:"d"`
	F   uint64 `json:"-"` // bit pattern when Cls == "float"
}

// Project maps a real Elvish value to Res by its Go representation (the representation IS the class).
func Project(v any) Res {
	switch v := v.(type) {
	case int:
		return Res{Cls: "int", N: ZInt(int64(v)), D: ZInt(1)}
	case *big.Int:
		return Res{Cls: "bigint", N: NewZ(v), D: ZInt(1)}
	case *big.Rat:
		return Res{Cls: "rat", N: NewZ(v.Num()), D: NewZ(v.Denom())}
	case float64:
		return Res{Cls: "float", N: ZInt(0), D: ZInt(1), F: math.Float64bits(v)}
	}
	return Res{Cls: "other", N: ZInt(0), D: ZInt(1)}
}

func (r Res) Equal(o Res) bool {
	return r.Cls == o.Cls && r.N.Cmp(&o.N.Int) == 0 && r.D.Cmp(&o.D.Int) == 0 && r.F == o.F
}

func (r Res) String() string {
	if r.Cls == "float" {
		return "float:" + FloatText(math.Float64frombits(r.F))
	}
	if r.D.IsInt64() && r.D.Int64() == 1 {
		return r.Cls + ":" + r.N.String()
	}
	return r.Cls + ":" + r.N.String() + "/" + r.D.String()
}

// Outcome of a command: t = vals | exc | panic | inexact | unspec (the last two only from specs).
type Outcome struct {
	T  string `json:"t"`
	Vs []Res  `json:"vs"`
}

func (o Outcome) Equal(p Outcome) bool {
	if o.T != p.T || len(o.Vs) != len(p.Vs) {
		return false
	}
	for i := range o.Vs {
		if !o.Vs[i].Equal(p.Vs[i]) {
			return false
		}
	}
	return true
}

func (o Outcome) String() string {
	if o.T != "vals" {
		return o.T
	}
	var ss []string
	for _, v := range o.Vs {
		ss = append(ss, v.String())
	}
	return "[" + strings.Join(ss, " ") + "]"
}
