package numx

import (
	"math"
	"math/big"
	"math/rand"
)

// Gen draws random numbers (inputs only, never expectations): machine integers biased to 0, +-1
// and the +-2^63 boundary, big integers, rationals of all sizes, and float bit patterns.
type Gen struct{ R *rand.Rand }

func Pow2(k uint) *big.Int { return new(big.Int).Lsh(big.NewInt(1), k) }

func (g *Gen) BigInt() *big.Int {
	r := g.R
	var b *big.Int
	neg := func() {
		if r.Intn(2) == 0 {
			b.Neg(b)
		}
	}
	switch r.Intn(10) {
	case 0, 1:
		b = big.NewInt(int64(r.Intn(7) - 3))
	case 2:
		b = big.NewInt(int64(r.Intn(2001) - 1000))
	case 3, 4: // around +-2^63
		b = Pow2(63)
		b.Add(b, big.NewInt(int64(r.Intn(7)-3)))
		neg()
	case 5: // around 2^31, 2^32, 2^53, 2^62, 2^64
		b = Pow2([]uint{31, 32, 53, 62, 64}[r.Intn(5)])
		b.Add(b, big.NewInt(int64(r.Intn(5)-2)))
		neg()
	case 6, 7: // random 64-bit pattern as int64
		b = big.NewInt(int64(r.Uint64()))
	case 8: // random up to 2^66
		b = new(big.Int).Rand(r, Pow2(66))
		neg()
	default: // random big
		b = new(big.Int).Rand(r, Pow2(uint(70+r.Intn(60))))
		neg()
	}
	return b
}

// Exact draws an exact number; large == false keeps rationals small (TLC reduces every result
// with Euclid's algorithm on base-10^4 limbs: the cost grows with the size of the denominators).
func (g *Gen) Exact(large bool) Val {
	r := g.R
	k := r.Intn(10)
	if !large && k >= 8 {
		k = 5
	}
	switch k {
	case 0, 1, 2, 3, 4:
		return ExactInt(g.BigInt())
	case 5, 6: // small rational
		return Exact(big.NewRat(int64(r.Intn(41)-20), int64(1+r.Intn(12))))
	case 7: // half-integers at the boundary: rounding crosses 2^63
		n := Pow2(64)
		n.Add(n, big.NewInt(int64(2*r.Intn(5)-5)))
		if r.Intn(2) == 0 {
			n.Neg(n)
		}
		return Exact(new(big.Rat).SetFrac(n, big.NewInt(2)))
	default:
		d := g.BigInt()
		if d.Sign() == 0 {
			d = big.NewInt(3)
		}
		return Exact(new(big.Rat).SetFrac(g.BigInt(), d))
	}
}

var specialFloats = []float64{0, math.Copysign(0, -1), 1.5, -2, math.Inf(1), math.Inf(-1), math.NaN(), 5e-324, -5e-324,
	math.MaxFloat64, -math.MaxFloat64, 0.5, -0.5, 2.5, -2.5, 0.1, 1 << 53, -(1 << 63), 1 << 63, 0.49999999999999994, 4503599627370495.5}

// FloatBits draws a float: a special value, a "human" value, a random pattern with a moderate
// exponent, or (extreme == true) any of the 2^64 bit patterns.
func (g *Gen) FloatBits(extreme bool) float64 {
	r := g.R
	switch k := r.Intn(10); {
	case k < 3:
		return specialFloats[r.Intn(len(specialFloats))]
	case k < 5:
		return float64(r.Intn(4001)-2000) / float64([]int{1, 2, 4, 8, 10, 3}[r.Intn(6)])
	case k < 8 || !extreme:
		// random mantissa, exponent within 2^-70 .. 2^70
		bits := r.Uint64()&^(0x7ff<<52) | uint64(1023-70+r.Intn(141))<<52
		return math.Float64frombits(bits)
	default:
		return math.Float64frombits(r.Uint64())
	}
}
