package numx

import (
	"math/big"
	"sync"
	"time"

	"verif.local/harness/lib"
)

// Prescribe hands recorded inputs to a TLA+ "case walker" module that prints, for the k-th line of
// cases.ndjson, <<"OUT", k, json>> (the outcome the specification prescribes for that input).
// The cases are split over par TLC processes; the result has one JSON text per case.
func Prescribe[T any](c *lib.Ctx, name, dir, module string, cases []T, par int, timeout time.Duration) ([]string, error) {
	out := make([]string, len(cases))
	if len(cases) == 0 {
		return out, nil
	}
	if par < 1 {
		par = 1
	}
	chunk := (len(cases) + par - 1) / par
	if chunk < 200 {
		chunk = 200
	}
	type job struct{ lo, hi int }
	var jobs []job
	for lo := 0; lo < len(cases); lo += chunk {
		hi := lo + chunk
		if hi > len(cases) {
			hi = len(cases)
		}
		jobs = append(jobs, job{lo, hi})
	}
	var mu sync.Mutex
	var firstErr error
	lib.Parallel(len(jobs), par, func(i int) {
		j := jobs[i]
		r, err := c.TLC(name, lib.TLCRun{Dir: dir, Module: module, Workers: 1, Timeout: timeout, HeapGB: 3,
			Files: map[string][]byte{"cases.ndjson": lib.NDJSON(cases[j.lo:j.hi])}})
		mu.Lock()
		defer mu.Unlock()
		if err == nil && r.ErrKind != "" {
			err = lib.Infra("%s failed: %s %s\n%s", module, r.ErrName, r.Err, r.ErrTrace)
		}
		if err != nil {
			if firstErr == nil {
				firstErr = err
			}
			return
		}
		for _, t := range r.Tagged("OUT") {
			if len(t) != 2 {
				continue
			}
			k, ok1 := t[0].(int64)
			js, ok2 := t[1].(string)
			if !ok1 || !ok2 || k < 1 || int(k) > j.hi-j.lo {
				continue
			}
			out[j.lo+int(k)-1] = js
		}
	})
	if firstErr != nil {
		return nil, firstErr
	}
	for i, s := range out {
		if s == "" {
			return nil, lib.Infra("%s prescribed nothing for case %d of %d", module, i, len(cases))
		}
	}
	return out, nil
}

// NearCase is one conversion judged by spec/Arith/JudgeNearest.tla: the exact value
// (-1)^neg * m * 10^sc (kind "dec") or (-1)^neg * m/d (kind "rat") and the double the real code
// produced for it (16 hex digits).
type NearCase struct {
	Kind string `json:"kind"`
	Neg  bool   `json:"neg"`
	M    []int  `json:"m"`
	D    []int  `json:"d"`
	Sc   int    `json:"sc"`
	Bits []int  `json:"bits"`
}

// Limbs is the BigNat form of |b|.
func Limbs(b *big.Int) []int {
	m := []int{}
	a := new(big.Int).Abs(b)
	base := big.NewInt(limbBase)
	r := new(big.Int)
	for a.Sign() > 0 {
		a.QuoRem(a, base, r)
		m = append(m, int(r.Int64()))
	}
	return m
}

// Cost estimates the size of the numbers TLC has to multiply for this case (in limbs).
func (n NearCase) Cost() int {
	sc := n.Sc
	if sc < 0 {
		sc = -sc
	}
	e := int((FromHex(n.Bits)>>52)&0x7ff) - 1075
	if e < 0 {
		e = -e
	}
	return len(n.M) + len(n.D) + sc/4 + e/13
}
