package main

import (
	"errors"
	"fmt"
	"math/rand"
	"strings"

	"src.elv.sh/pkg/eval"
	"src.elv.sh/pkg/eval/vals"
	"src.elv.sh/pkg/eval/vars"
	"src.elv.sh/pkg/parse"
	"verif.local/harness/lib"
)

// oneCase is an abstract call of `order` plus the seed that fixes its concretisation.
type oneCase struct {
	In   []Item `json:"in"`
	O    Opts   `json:"o"`
	Seed int64  `json:"seed"`
}

// outcome is what the real builtin did, projected back.
type outcome struct {
	Exc     bool
	Out     []Item
	Prof    string
	Code    string
	KeyN    int // calls of the &key callback
	LtN     int // calls of the &less-than callback
	ErrText string
	ProjErr error // an output value that is not in the tables (reported as a rejection: not a permutation)
	Panic   string
}

var errBoom = errors.New("verif: callback told to fail")

func fastRun(ev *eval.Evaler, ns *eval.Ns, code string, capacity int) (vs []any, err error, pan string) {
	ch := make(chan any, capacity)
	port := &eval.Port{File: eval.DevNull, Chan: ch}
	func() {
		defer func() {
			if p := recover(); p != nil {
				pan = fmt.Sprint(p)
			}
		}()
		err = ev.Eval(parse.Source{Name: "[verif]", Code: code}, eval.EvalCfg{Ports: []*eval.Port{nil, port, nil}, Global: ns})
	}()
	close(ch)
	for v := range ch {
		vs = append(vs, v)
	}
	return
}

// profileFor chooses how the items are represented, given what the options need.
func profileFor(cs oneCase, rnd *rand.Rand) string {
	switch {
	case cs.O.Keyf:
		return profPair
	case cs.O.Cmp == "lt" || cs.O.Cmp == "ltdesc" || cs.O.Cmp == "both":
		if rnd.Intn(3) == 0 {
			return profPlain
		}
		return profPair
	}
	return profPlain
}

// runOrder concretises the case, calls the real `order` and projects the result.
func runOrder(ev *eval.Evaler, cs oneCase) (outcome, error) {
	rnd := rand.New(rand.NewSource(cs.Seed))
	res := outcome{Prof: profileFor(cs, rnd)}
	o := cs.O
	rep := func() int { return 1 + rnd.Intn(2) }
	in := vals.EmptyList
	for _, it := range cs.In {
		if res.Prof == profPlain {
			it = plainTag(it)
		}
		v, err := concItem(it, res.Prof, rep)
		if err != nil {
			return res, lib.Infra("concretising %+v: %v", it, err)
		}
		in = in.Conj(v)
	}
	// what the comparison looks at, given the value handed to the comparator
	cmpArg := func(v any) (any, error) {
		if res.Prof == profPair && !o.Keyf {
			return vals.Index(v, 0)
		}
		return v, nil
	}
	useLambda := o.Fail == "none" && rnd.Intn(2) == 0
	nb := eval.BuildNs().AddVar("in", vars.NewReadOnly(in))
	nb.AddGoFn("kf", func(x any) (any, error) {
		res.KeyN++
		if o.Fail == "key" && res.KeyN == o.At {
			return nil, errBoom
		}
		return vals.Index(x, 0)
	})
	nb.AddGoFn("lt", func(a, b any) (bool, error) {
		res.LtN++
		if o.Fail == "lt" && res.LtN == o.At {
			return false, errBoom
		}
		x, err := cmpArg(a)
		if err != nil {
			return false, err
		}
		y, err := cmpArg(b)
		if err != nil {
			return false, err
		}
		if o.Fail == "lton" {
			for _, z := range []any{x, y} {
				if k, err := projKey(z, nil); err == nil && k.R == o.At && k.Kind != "list" {
					return false, errBoom
				}
			}
		}
		switch c := vals.Cmp(x, y); {
		case c == vals.CmpUncomparable:
			return false, eval.ErrUncomparable // what the documented-equivalent callback (`compare`) does
		case o.Cmp == "ltdesc":
			return c == vals.CmpMore, nil
		default:
			return c == vals.CmpLess, nil
		}
	})
	var args []string
	if o.Rev {
		args = append(args, []string{"&reverse", "&reverse=$true"}[rnd.Intn(2)])
	}
	if o.Keyf {
		if useLambda {
			args = append(args, "&key={|x| put $x[0]}")
		} else {
			args = append(args, "&key=$kf~")
		}
	}
	sub := ""
	if res.Prof == profPair && !o.Keyf {
		sub = "[0]"
	}
	switch o.Cmp {
	case "total":
		args = append(args, "&total")
	case "both":
		args = append(args, "&total=$true", "&less-than=$lt~")
	case "lt", "ltdesc":
		want := "-1"
		if o.Cmp == "ltdesc" {
			want = "1"
		}
		if useLambda {
			args = append(args, fmt.Sprintf("&less-than={|a b| == %s (compare $a%s $b%s)}", want, sub, sub))
		} else {
			args = append(args, "&less-than=$lt~")
		}
	}
	if rnd.Intn(2) == 0 {
		res.Code = "order " + strings.Join(append(args, "$in"), " ")
	} else {
		res.Code = "all $in | order " + strings.Join(args, " ")
	}
	ns := eval.CombineNs(ev.Global(), nb.Ns())
	vs, err, pan := fastRun(ev, ns, res.Code, len(cs.In)+16)
	res.Panic = pan
	if err != nil {
		res.Exc = true
		res.ErrText = err.Error()
	}
	res.Out = []Item{}
	for _, v := range vs {
		it, perr := projItem(v, res.Prof)
		if perr != nil {
			res.ProjErr = perr
			it = Item{nk("unknown", 0), -1}
		}
		res.Out = append(res.Out, it)
	}
	return res, nil
}

// measureKR asks the real `compare &total` for the order of types and renders module OrderKR.
func measureKR(ev *eval.Evaler) ([]byte, map[string]map[string]int, error) {
	kinds := []string{"num", "str", "bool", "list", "nil", "map"}
	reps := map[string][]string{"num": {"(num 1)", "(num 0.5)", "(num 1/3)"}, "str": {"a", "''"}, "bool": {"$true", "$false"},
		"list": {"[a]", "[]"}, "nil": {"$nil"}, "map": {"[&a=b]", "[&]"}}
	kr := map[string]map[string]int{}
	for _, a := range kinds {
		kr[a] = map[string]int{}
		for _, b := range kinds {
			if a == b {
				continue
			}
			first := true
			for _, ra := range reps[a] {
				for _, rb := range reps[b] {
					vs, err, pan := fastRun(ev, nil, fmt.Sprintf("compare &total %s %s", ra, rb), 4)
					if err != nil || pan != "" || len(vs) != 1 {
						return nil, nil, lib.Infra("compare &total %s %s: %v %s", ra, rb, err, pan)
					}
					n, ok := vs[0].(int)
					if !ok {
						return nil, nil, lib.Infra("compare &total %s %s gave %s", ra, rb, vals.ReprPlain(vs[0]))
					}
					if first {
						kr[a][b] = n
						first = false
					} else if kr[a][b] != n {
						kr[a][b] = 9 // different answers for the same pair of types: ConsistentKinds rejects it
					}
				}
			}
		}
	}
	var sb strings.Builder
	sb.WriteString("---- MODULE OrderKR ----\nEXTENDS Integers\nKinds == <<\"num\", \"str\", \"bool\", \"list\", \"nil\", \"map\">>\nKR == [")
	for i, a := range kinds {
		if i > 0 {
			sb.WriteString(",\n       ")
		}
		sb.WriteString(a + " |-> [")
		for j, b := range kinds {
			if j > 0 {
				sb.WriteString(", ")
			}
			fmt.Fprintf(&sb, "%s |-> %d", b, kr[a][b])
		}
		sb.WriteString("]")
	}
	sb.WriteString("]\n====\n")
	return []byte(sb.String()), kr, nil
}
