// C10 — `order` outputs a stable sorted permutation of its input.
//
// M: spec/Order/MCOrder: on all sequences of length <= N over 3 keys x 2 tags the stable sorted
//
//	permutation exists, is unique, equals the constructive Sort, and the permutation-free
//	predicate used for long inputs is equivalent to the declarative one.
//
// G: spec/Order/GenOrder enumerates sequences x option combinations with the prescribed outcome;
//
//	every case is replayed through the real `order` builtin (argument and pipeline form, Go and
//	Elvish callbacks) and compared.
//
// V: seeded sequences of length 0..300 over numbers, strings, booleans, lists, $nil and maps,
//
//	duplicate keys with payload tags, callbacks that throw at a chosen call; the recorded
//	{in, opts, exc, out} is judged by spec/Order/JudgeOrder (TLC).
package main

import (
	"encoding/json"
	"fmt"
	"math/rand"
	"os"
	"sort"
	"sync"
	"time"

	"src.elv.sh/pkg/eval"
	"verif.local/harness/elv"
	"verif.local/harness/lib"
)

func main() { lib.Main("C10", run) }

type expT struct {
	Exc bool   `json:"exc"`
	Out []Item `json:"out"`
}

type genLine struct {
	In    []Item `json:"in"`
	Cases map[string]struct {
		O      Opts `json:"o"`
		Exp    expT `json:"exp"`
		Unspec bool `json:"unspec"`
	} `json:"cases"`
}

// judged is the record handed to JudgeOrder.
type judged struct {
	In  []Item `json:"in"`
	O   Opts   `json:"o"`
	Exc bool   `json:"exc"`
	Out []Item `json:"out"`
}

func fixItems(xs []Item) []Item {
	if xs == nil {
		return []Item{}
	}
	for i := range xs {
		xs[i].Key = fixKey(xs[i].Key)
	}
	return xs
}

func sameItems(a, b []Item) bool {
	x, _ := json.Marshal(fixItems(a))
	y, _ := json.Marshal(fixItems(b))
	return string(x) == string(y)
}

func describe(cs oneCase, res outcome) string {
	return fmt.Sprintf("`%s` (profile %s) on %s: threw=%v (%s) output=%s key-calls=%d less-than-calls=%d",
		res.Code, res.Prof, mustJSON(cs.In), res.Exc, res.ErrText, mustJSON(res.Out), res.KeyN, res.LtN)
}

func mustJSON(v any) string { b, _ := json.Marshal(v); return string(b) }

func run(c *lib.Ctx) error {
	os.Setenv("JDK_JAVA_OPTIONS", "-XX:ParallelGCThreads=2 -XX:CICompilerCount=2")
	dir := c.SpecDir("Order")
	ev := elv.New()
	krFile, kr, err := measureKR(ev)
	if err != nil {
		return err
	}
	files := map[string][]byte{"OrderKR.tla": krFile}
	c.Set("type_order_measured", kr)
	if c.Replay != "" {
		return replay(c, ev, files)
	}
	c.Set("rule", "a case is (input sequence of abstract items, option combination); distinct by that pair; non-trivial = length >= 2 or a failure option (shorter inputs have only one possible output)")

	// ---- M (concurrently)
	var wg sync.WaitGroup
	var mErr error
	wg.Add(1)
	go func() {
		defer wg.Done()
		n := c.Pick(4, 5)
		r, err := c.TLC("MCOrder", lib.TLCRun{Dir: dir, Module: "MCOrder", Workers: 3, Timeout: 12 * time.Minute, Files: map[string][]byte{
			"OrderKR.tla": krFile,
			"MCOrder.cfg": []byte(fmt.Sprintf("CONSTANTS N = %d\n NE = 3\nINIT Init\nNEXT Next\nINVARIANT ExistsUnique\nINVARIANT Equivalent\nINVARIANT WeakOrder\nINVARIANT NoFailure\nINVARIANT FlatSound\n", n))}})
		if err != nil {
			mErr = err
		} else if r.ErrKind != "" {
			mErr = lib.Infra("the model of Order.tla fails its own theorems: %s\n%s", r.Err, r.ErrTrace)
		}
		c.Set("model_bounds", map[string]any{"N": n, "keys": 3, "tags": 2, "equivalence_checked_up_to_length": 3})
	}()

	// ---- G
	N := c.Pick(3, 4)
	r, err := c.TLC("GenOrder", lib.TLCRun{Dir: dir, Module: "GenOrder", Workers: 3, Timeout: 12 * time.Minute, Files: map[string][]byte{
		"OrderKR.tla":  krFile,
		"GenOrder.cfg": []byte(fmt.Sprintf("CONSTANT N = %d\nINIT Init\nNEXT Next\nINVARIANT Sound\nINVARIANT FlatSound\nINVARIANT Emit\n", N))}})
	if err != nil {
		return err
	}
	if r.ErrKind != "" {
		return lib.Infra("GenOrder: %s\n%s", r.Err, r.ErrTrace)
	}
	seen := map[string]bool{}
	type gcase struct {
		cs     oneCase
		exp    expT
		unspec bool
	}
	var gcs []gcase
	for _, s := range r.PrintedStrings() {
		var gl genLine
		if err := json.Unmarshal([]byte(s), &gl); err != nil {
			return lib.Infra("bad line from TLC: %v: %.300s", err, s)
		}
		k := mustJSON(gl.In)
		if seen[k] {
			continue
		}
		seen[k] = true
		for _, gc := range gl.Cases {
			gcs = append(gcs, gcase{oneCase{In: fixItems(append([]Item{}, gl.In...)), O: gc.O}, gc.Exp, gc.Unspec})
		}
	}
	// deterministic order (Go map iteration is random), then replay on 6 Evalers
	sort.Slice(gcs, func(i, j int) bool {
		a, b := mustJSON([]any{gcs[i].cs.In, gcs[i].cs.O}), mustJSON([]any{gcs[j].cs.In, gcs[j].cs.O})
		return a < b
	})
	nG, nUnspec := len(gcs), 0
	var gErr error
	var gmu sync.Mutex
	const gpar = 6
	lib.Parallel(gpar, gpar, func(w int) {
		ev := elv.New()
		for i := w; i < len(gcs); i += gpar {
			gc := gcs[i]
			cs := gc.cs
			cs.Seed = c.Seed*1_000_003 + int64(i)
			res, err := runOrder(ev, cs)
			if err != nil {
				gmu.Lock()
				gErr = err
				gmu.Unlock()
				return
			}
			c.AddEvals(1)
			if len(cs.In) >= 2 || cs.O.Fail != "none" || cs.O.Cmp == "both" {
				c.Distinct([]any{cs.In, cs.O})
			}
			if i%(len(gcs)/3+1) == 7 {
				c.Sample(map[string]any{"in": cs.In, "o": cs.O, "code": res.Code, "exp": gc.exp, "threw": res.Exc, "out": res.Out})
			}
			exp := gc.exp.Out
			if res.Prof == profPlain {
				exp = append([]Item{}, exp...)
				for i := range exp {
					exp[i] = plainTag(exp[i])
				}
			}
			if gc.unspec {
				gmu.Lock()
				nUnspec++
				gmu.Unlock()
			}
			switch {
			case res.Panic != "":
				c.Reject("order-G:panic:"+cs.O.String(), describe(cs, res)+" PANIC "+res.Panic, cs)
			case gc.exp.Exc && !(res.Exc && len(res.Out) == 0):
				c.Reject("order-G:must-throw-without-output:"+cs.O.String(), describe(cs, res)+"; prescribed: exception, no output", cs)
			case gc.unspec && res.Exc && len(res.Out) == 0:
				// the reference leaves open whether this call throws; it threw without output
			case !gc.exp.Exc && (res.Exc || res.ProjErr != nil || !sameItems(exp, res.Out)):
				c.Reject("order-G:not-the-stable-sorted-permutation:"+cs.O.String(), describe(cs, res)+"; prescribed output "+mustJSON(exp), cs)
			}
		}
	})
	if gErr != nil {
		return gErr
	}
	if int64(len(seen)) != r.Distinct {
		return lib.Infra("GenOrder: TLC reported %d sequences, received %d", r.Distinct, len(seen))
	}
	c.AddTraces(nG)
	c.Set("exhaustive", true)
	c.Set("bounds", map[string]any{"G_max_length": N, "G_keys": 4, "G_tags": 2, "G_sequences": len(seen), "G_cases": nG, "G_unspecified": nUnspec})
	c.Logf("G: %d sequences, %d cases replayed", len(seen), nG)

	// ---- V
	if err := validate(c, ev, files); err != nil {
		return err
	}
	wg.Wait()
	if mErr != nil {
		return mErr
	}
	c.Assume("TLC is trusted; number rank r stands for the value r/2 (int, rational or float64, exactly representable), string ranks index a fixed byte-ordered table: the order-preserving concretisation tables are trusted; the internal order of types under &total is measured with `compare &total` and only required to be consistent")
	c.Assume("callbacks: &key takes element 0 of a [key payload] pair; &less-than is the documented equivalent `== -1 (compare $a $b)` (or its opposite), as Elvish lambda or as Go function (vals.Cmp) that can be told to fail at a chosen call")
	return nil
}

func validate(c *lib.Ctx, ev *eval.Evaler, files map[string][]byte) error {
	g := &gen{rnd: rand.New(rand.NewSource(c.Seed*104729 + 5))}
	n := c.Pick(400, 4000)
	var cases []oneCase
	var recs []judged
	maxLen, long := 0, 0
	for i := 0; i < n; i++ {
		cs := g.draw(i, n)
		cs.Seed = c.Seed*7_000_003 + int64(i)
		res, err := runOrder(ev, cs)
		if err != nil {
			return err
		}
		c.AddEvals(1)
		if res.Panic != "" {
			c.Reject("order-V:panic:"+cs.O.String(), describe(cs, res)+" PANIC "+res.Panic, cs)
			continue
		}
		in := cs.In
		if res.Prof == profPlain {
			in = append([]Item{}, in...)
			for j := range in {
				in[j] = plainTag(in[j])
			}
		}
		if len(in) > maxLen {
			maxLen = len(in)
		}
		if len(in) > 20 {
			long++
		}
		cases = append(cases, cs)
		recs = append(recs, judged{In: fixItems(in), O: cs.O, Exc: res.Exc, Out: fixItems(res.Out)})
		if len(in) >= 2 {
			c.Distinct([]any{in, cs.O})
		}
		if i%(n/3+1) == 2 {
			c.Sample(map[string]any{"code": res.Code, "n": len(in), "o": cs.O, "threw": res.Exc, "outputs": len(res.Out), "less_than_calls": res.LtN, "key_calls": res.KeyN})
		}
	}
	c.Set("V", map[string]any{"cases": len(recs), "max_length": maxLen, "longer_than_insertion_sort_block_20": long})
	return judgeAll(c, "JudgeOrder", cases, recs, files, ev)
}

func judgeAll(c *lib.Ctx, name string, cases []oneCase, recs []judged, files map[string][]byte, ev *eval.Evaler) error {
	if os.Getenv("C10_SELFTEST") == "corrupt" {
		// vacuity guard (development only): swap two outputs of the first case that has two different ones
		for i := range recs {
			if o := recs[i].Out; len(o) >= 2 && mustJSON(o[0]) != mustJSON(o[1]) {
				o[0], o[1] = o[1], o[0]
				break
			}
		}
	}
	if p := os.Getenv("C10_DUMP"); p != "" {
		os.WriteFile(p, lib.NDJSON(recs), 0o644)
	}
	bad, unspec, err := judgeKR(c, name, recs, files)
	if err != nil {
		return err
	}
	c.AddTraces(len(recs))
	c.Inc("V_unspecified", int64(unspec))
	for _, b := range bad {
		cs := cases[b.Index]
		res, _ := runOrder(ev, cs)
		reason, _ := b.Info[0].(string)
		c.Reject("order-V:"+reason+":"+cs.O.String(), describe(cs, res), cs)
	}
	return nil
}

// judgeKR is lib.Judge with the extra file OrderKR.tla (lib.Judge has no way to pass extra files).
func judgeKR(c *lib.Ctx, name string, recs []judged, files map[string][]byte) ([]lib.BadCase, int, error) {
	if len(recs) == 0 {
		return nil, 0, nil
	}
	// balance the chunks by total input length: the cost of a case grows with its length
	const par = 5
	type chunk struct {
		idx  []int
		cost int
	}
	chunks := make([]chunk, par)
	for i, r := range recs {
		best := 0
		for j := range chunks {
			if chunks[j].cost < chunks[best].cost {
				best = j
			}
		}
		chunks[best].idx = append(chunks[best].idx, i)
		chunks[best].cost += 20 + len(r.In)*len(r.In)/8 + len(r.In)
	}
	var mu sync.Mutex
	var bad []lib.BadCase
	unspec := 0
	var firstErr error
	lib.Parallel(par, par, func(j int) {
		ch := chunks[j]
		if len(ch.idx) == 0 {
			return
		}
		sub := make([]judged, len(ch.idx))
		for i, x := range ch.idx {
			sub[i] = recs[x]
		}
		fs := map[string][]byte{"cases.ndjson": lib.NDJSON(sub)}
		for k, v := range files {
			fs[k] = v
		}
		r, err := c.TLC(name, lib.TLCRun{Dir: c.SpecDir("Order"), Module: "JudgeOrder", Workers: 1, Timeout: 14 * time.Minute, HeapGB: 3, Files: fs})
		mu.Lock()
		defer mu.Unlock()
		switch {
		case err != nil:
			if firstErr == nil {
				firstErr = err
			}
			return
		case r.ErrKind != "":
			if firstErr == nil {
				firstErr = lib.Infra("JudgeOrder reported %s (%s)", r.ErrKind, r.Err)
			}
			return
		case r.Distinct != int64(len(sub))+1:
			if firstErr == nil {
				firstErr = lib.Infra("JudgeOrder walked %d states for %d cases", r.Distinct, len(sub))
			}
			return
		}
		unspec += len(r.Tagged("UNSPEC"))
		for _, t := range r.Tagged("BAD") {
			if k, ok := t[0].(int64); ok && k >= 1 && int(k) <= len(sub) {
				bad = append(bad, lib.BadCase{Index: ch.idx[k-1], Info: t[1:]})
			}
		}
	})
	return bad, unspec, firstErr
}

func replay(c *lib.Ctx, ev *eval.Evaler, files map[string][]byte) error {
	b, err := os.ReadFile(c.Replay)
	if err != nil {
		return lib.Infra("%v", err)
	}
	var f struct {
		Case oneCase `json:"case"`
	}
	if err := json.Unmarshal(b, &f); err != nil {
		return lib.Infra("%v", err)
	}
	cs := f.Case
	cs.In = fixItems(cs.In)
	res, err := runOrder(ev, cs)
	if err != nil {
		return err
	}
	c.Logf("%s", describe(cs, res))
	if res.Panic != "" {
		c.Reject("order-V:panic:"+cs.O.String(), describe(cs, res), cs)
		return nil
	}
	in := cs.In
	if res.Prof == profPlain {
		in = append([]Item{}, in...)
		for j := range in {
			in[j] = plainTag(in[j])
		}
	}
	return judgeAll(c, "JudgeOrder-replay", []oneCase{cs}, []judged{{In: fixItems(in), O: cs.O, Exc: res.Exc, Out: fixItems(res.Out)}}, files, ev)
}
