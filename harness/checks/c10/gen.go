package main

import "math/rand"

// gen draws the inputs of the V half: which sequences and options the real `order` is run on.
// It contains no expectation; JudgeOrder (TLC) decides every recorded outcome.
type gen struct{ rnd *rand.Rand }

func (g *gen) length(i, total int) int {
	// a fixed share of long inputs (beyond the insertion-sort blocks of sort.Stable), the rest short
	switch {
	case i%25 == 0:
		return 200 + g.rnd.Intn(101) // 200..300
	case i%25 == 1:
		return 21 + g.rnd.Intn(80)
	case i%6 == 0:
		return g.rnd.Intn(3) // 0..2
	}
	return g.rnd.Intn(21)
}

func (g *gen) numKey(span int) Key {
	if g.rnd.Intn(40) == 0 {
		return nk("num", []int{rNaN, rNegInf, rPosInf}[g.rnd.Intn(3)])
	}
	return nk("num", g.rnd.Intn(2*span+1)-span)
}

func (g *gen) key(kind string, span int) Key {
	switch kind {
	case "num":
		return g.numKey(span)
	case "str":
		s := span
		if s > len(strTable) {
			s = len(strTable)
		}
		return nk("str", g.rnd.Intn(s))
	case "bool":
		return nk("bool", g.rnd.Intn(2))
	case "nil":
		return nk("nil", 0)
	case "map":
		return nk("map", g.rnd.Intn(3))
	case "list":
		k := nk("list", 0)
		for n := g.rnd.Intn(4); n > 0; n-- {
			k.Es = append(k.Es, g.numKey(2))
		}
		return k
	case "mixlist": // lists whose elements are of several kinds (comparable only under &total)
		k := nk("list", 0)
		for n := g.rnd.Intn(3); n > 0; n-- {
			k.Es = append(k.Es, g.key([]string{"num", "str", "bool", "nil"}[g.rnd.Intn(4)], 2))
		}
		return k
	}
	panic("kind")
}

func (g *gen) draw(i, total int) oneCase {
	n := g.length(i, total)
	o := Opts{Rev: g.rnd.Intn(2) == 0, Keyf: g.rnd.Intn(2) == 0, Cmp: "default", Fail: "none"}
	switch g.rnd.Intn(10) {
	case 0, 1, 2:
		o.Cmp = "total"
	case 3, 4:
		o.Cmp = "lt"
	case 5, 6:
		o.Cmp = "ltdesc"
	}
	// the scenario decides the kinds of the keys
	scen := []string{"num", "num", "num", "str", "list", "bool", "same-map", "nil", "mixed", "mixed"}[g.rnd.Intn(10)]
	if n > 60 && g.rnd.Intn(3) > 0 {
		scen = "num"
	}
	span := 1 + g.rnd.Intn(6) // few distinct keys: many duplicates
	if g.rnd.Intn(6) == 0 {
		span = 150 // mostly distinct keys
		if n > 120 {
			n = 61 + n%60 // the judge is quadratic in the number of distinct keys
		}
	}
	var in []Item
	for j := 0; j < n; j++ {
		var k Key
		switch scen {
		case "same-map":
			k = nk("map", 7)
		case "mixed":
			kind := []string{"num", "str", "bool", "list", "nil", "map", "mixlist"}[g.rnd.Intn(7)]
			k = g.key(kind, span)
		default:
			k = g.key(scen, span)
		}
		in = append(in, Item{k, j + 1}) // payload = input position (erased by the plain profile)
	}
	if scen == "mixed" && g.rnd.Intn(3) > 0 {
		o.Cmp = "total" // otherwise the call must throw (also exercised, less often)
	}
	// failure options
	switch f := g.rnd.Intn(12); {
	case f == 0 && o.Keyf && n > 0:
		o.Fail, o.At = "key", 1+g.rnd.Intn(n)
	case f == 1 && (o.Cmp == "lt" || o.Cmp == "ltdesc") && n >= 2:
		o.Fail, o.At = "lt", 1+g.rnd.Intn(n-1)
	case f == 2 && (o.Cmp == "lt" || o.Cmp == "ltdesc") && n >= 2 && scen == "num":
		o.Fail, o.At = "lton", in[g.rnd.Intn(n)].Key.R
	case f == 3 && (o.Cmp == "lt" || o.Cmp == "ltdesc"):
		o.Fail, o.At = "lt", n+g.rnd.Intn(3*n+2) // beyond n-1: Unspecified
	case f == 4 && g.rnd.Intn(3) == 0:
		o.Cmp = "both"
	}
	return oneCase{In: in, O: o}
}
