package main

// Concretisation (abstract key / item -> real Elvish value) and projection (real value -> abstract
// item) for C10, kept next to each other.  No ordering knowledge lives here except the fixed,
// order-preserving tables rank -> value (stated as assumptions in the evidence); which outputs
// are correct is decided by spec/Order/Order.tla.

import (
	"fmt"
	"math"
	"math/big"
	"strconv"

	"src.elv.sh/pkg/eval/vals"
)

type Key struct {
	Kind string `json:"kind"`
	R    int    `json:"r"`
	Es   []Key  `json:"es"`
}

type Item struct {
	Key Key `json:"key"`
	Tag int `json:"tag"`
}

type Opts struct {
	Rev  bool   `json:"rev"`
	Keyf bool   `json:"keyf"`
	Cmp  string `json:"cmp"`
	Fail string `json:"fail"`
	At   int    `json:"at"`
}

func (o Opts) String() string {
	return fmt.Sprintf("rev=%v,key=%v,cmp=%s,fail=%s@%d", o.Rev, o.Keyf, o.Cmp, o.Fail, o.At)
}

func nk(kind string, r int, es ...Key) Key {
	if es == nil {
		es = []Key{}
	}
	return Key{kind, r, es}
}

func fixKey(k Key) Key {
	if k.Es == nil {
		k.Es = []Key{}
	}
	for i := range k.Es {
		k.Es[i] = fixKey(k.Es[i])
	}
	return k
}

// number ranks: the value of rank r is r/2; three special ranks for NaN (documented as smaller than
// every number), -Inf and +Inf.
const (
	rNaN    = -1000
	rNegInf = -999
	rPosInf = 999
)

// strTable[r] is the string of rank r: strictly increasing in byte order.
var strTable = []string{"", "\x00", " ", "0", "10", "9", "A", "Z", "a", "a\x00", "aa", "ab", "b", "~", "é", "你", "\xff"}

const (
	repExact = 1 // tag of a plain number item: exact representation (int or rational)
	repFloat = 2 // inexact
)

func concNum(r int, rep int) (any, error) {
	switch r {
	case rNaN:
		return math.NaN(), nil
	case rNegInf:
		return math.Inf(-1), nil
	case rPosInf:
		return math.Inf(1), nil
	}
	if rep == repFloat {
		return float64(r) / 2, nil
	}
	var s string
	if r%2 == 0 {
		s = strconv.Itoa(r / 2)
	} else {
		s = strconv.Itoa(r) + "/2"
	}
	v := vals.ParseNum(s) // the real constructor: int, or a normalised *big.Rat
	if v == nil {
		return nil, fmt.Errorf("ParseNum(%q) failed", s)
	}
	return v, nil
}

// concKey builds the real value of an abstract key; rep chooses the representation of numbers.
func concKey(k Key, rep func() int) (any, error) {
	switch k.Kind {
	case "num":
		return concNum(k.R, rep())
	case "str":
		if k.R < 0 || k.R >= len(strTable) {
			return nil, fmt.Errorf("string rank %d out of table", k.R)
		}
		return strTable[k.R], nil
	case "bool":
		return k.R != 0, nil
	case "nil":
		return nil, nil
	case "map":
		return vals.MakeMap("id", strconv.Itoa(k.R)), nil
	case "list":
		l := vals.EmptyList
		for _, e := range k.Es {
			x, err := concKey(e, rep)
			if err != nil {
				return nil, err
			}
			l = l.Conj(x)
		}
		return l, nil
	}
	return nil, fmt.Errorf("unknown kind %q", k.Kind)
}

// projKey is the inverse of concKey; repOut receives the representation of a top-level number.
func projKey(v any, repOut *int) (Key, error) {
	setRep := func(r int) {
		if repOut != nil {
			*repOut = r
		}
	}
	switch v := v.(type) {
	case nil:
		return nk("nil", 0), nil
	case bool:
		if v {
			return nk("bool", 1), nil
		}
		return nk("bool", 0), nil
	case int:
		setRep(repExact)
		return nk("num", 2*v), nil
	case *big.Rat:
		setRep(repExact)
		d := new(big.Rat).Mul(v, big.NewRat(2, 1))
		if !d.IsInt() || !d.Num().IsInt64() {
			return Key{}, fmt.Errorf("number %s outside the rank table", v)
		}
		return nk("num", int(d.Num().Int64())), nil
	case float64:
		setRep(repFloat)
		switch {
		case math.IsNaN(v):
			return nk("num", rNaN), nil
		case math.IsInf(v, -1):
			return nk("num", rNegInf), nil
		case math.IsInf(v, 1):
			return nk("num", rPosInf), nil
		}
		d := v * 2
		if d != math.Trunc(d) || math.Abs(d) > 1e6 {
			return Key{}, fmt.Errorf("number %v outside the rank table", v)
		}
		return nk("num", int(d)), nil
	case string:
		for i, s := range strTable {
			if s == v {
				return nk("str", i), nil
			}
		}
		return Key{}, fmt.Errorf("string %q outside the rank table", v)
	case vals.List:
		out := nk("list", 0)
		for it := v.Iterator(); it.HasElem(); it.Next() {
			e, err := projKey(it.Elem(), nil)
			if err != nil {
				return Key{}, err
			}
			out.Es = append(out.Es, e)
		}
		return out, nil
	case vals.Map:
		id, ok := v.Index("id")
		s, _ := id.(string)
		n, err := strconv.Atoi(s)
		if !ok || err != nil || v.Len() != 1 {
			return Key{}, fmt.Errorf("map %s outside the table", vals.ReprPlain(v))
		}
		return nk("map", n), nil
	}
	return Key{}, fmt.Errorf("value %s outside the tables", vals.ReprPlain(v))
}

// A profile says how items become values.
//
//	pair   value = [K "t<tag>"]: the key and a payload; used with &key (callback takes $x[0]) and with
//	       &less-than callbacks that compare $a[0] $b[0]
//	plain  value = K itself; the tag of a number is its representation (1 exact, 2 inexact), every
//	       other kind has no payload (tag 0)
const (
	profPair  = "pair"
	profPlain = "plain"
)

func concItem(it Item, prof string, rep func() int) (any, error) {
	if prof == profPlain {
		return concKey(it.Key, func() int { return it.Tag })
	}
	k, err := concKey(it.Key, rep)
	if err != nil {
		return nil, err
	}
	return vals.MakeList(k, "t"+strconv.Itoa(it.Tag)), nil
}

func projItem(v any, prof string) (Item, error) {
	if prof == profPlain {
		rep := 0
		k, err := projKey(v, &rep)
		if err != nil {
			return Item{}, err
		}
		if k.Kind != "num" {
			rep = 0
		}
		return Item{k, rep}, nil
	}
	l, ok := v.(vals.List)
	if !ok || l.Len() != 2 {
		return Item{}, fmt.Errorf("output %s is not a [key tag] pair", vals.ReprPlain(v))
	}
	k0, _ := l.Index(0)
	t0, _ := l.Index(1)
	ts, _ := t0.(string)
	if len(ts) < 2 || ts[0] != 't' {
		return Item{}, fmt.Errorf("bad payload in %s", vals.ReprPlain(v))
	}
	tag, err := strconv.Atoi(ts[1:])
	if err != nil {
		return Item{}, err
	}
	k, err := projKey(k0, nil)
	if err != nil {
		return Item{}, err
	}
	return Item{k, tag}, nil
}

// plainTag erases payload that the plain profile cannot carry.
func plainTag(it Item) Item {
	if it.Key.Kind != "num" {
		it.Tag = 0
	} else if it.Key.R == rNaN || it.Key.R == rNegInf || it.Key.R == rPosInf {
		it.Tag = repFloat
	} else if it.Tag != repExact && it.Tag != repFloat {
		it.Tag = 1 + it.Tag%2 // payload of a plain number = its representation
	}
	return it
}
