// C39 — one interpreter can safely be used from many goroutines.
// M: EvalerShared.tla: as-is configuration violates NoUnsyncMapAccess / AtMostOnce / NoPartialVisible,
//
//	the switched configurations satisfy them (model sanity).
//
// G: TLC's counterexample schedules are replayed on the REAL Evaler with gates at the verifTrace
//
//	points (goroutines parked immediately before their access to Evaler.modules / around module
//	execution); a schedule the real code reproduces is a rejected real behaviour.
//
// V: free-running concurrent evaluations on one Evaler in a child process (a runtime fatal error kills
//
//	it): declarations must not be lost, module code must run once; judged by a TLC case walker.
package main

import (
	"bytes"
	"encoding/json"
	"fmt"
	"os"
	"os/exec"
	"path/filepath"
	"runtime"
	"strconv"
	"strings"
	"sync"
	"time"

	"src.elv.sh/pkg/eval"
	"src.elv.sh/pkg/parse"
	"verif.local/harness/elv"
	"verif.local/harness/lib"
)

func main() {
	if os.Getenv("C39_CHILD") == "race" {
		raceChild()
		return
	}
	if os.Getenv("C39_CHILD") != "" {
		child()
		return
	}
	lib.Main("C39", run)
}

func goid() int {
	var buf [64]byte
	n := runtime.Stack(buf[:], false)
	f := strings.Fields(string(buf[:n]))
	id, _ := strconv.Atoi(f[1])
	return id
}

// ---- harness world: ticking modules in a temp lib dir

type world struct {
	dir   string
	mu    sync.Mutex
	ticks map[string]int
}

func newWorld(mods []string) (*world, error) {
	dir, err := os.MkdirTemp("", "vc39-")
	if err != nil {
		return nil, err
	}
	w := &world{dir: dir, ticks: map[string]int{}}
	for _, m := range mods {
		code := fmt.Sprintf("var tok = (vm-tick %s)\n", m)
		if err := os.WriteFile(filepath.Join(dir, m+".elv"), []byte(code), 0o644); err != nil {
			return nil, err
		}
	}
	return w, nil
}

func (w *world) evaler() *eval.Evaler {
	ev := elv.New()
	ev.LibDirs = []string{w.dir}
	ev.ExtendBuiltin(eval.BuildNs().AddGoFn("vm-tick", func(name string) string {
		w.mu.Lock()
		defer w.mu.Unlock()
		w.ticks[name]++
		return fmt.Sprintf("%s#%d", name, w.ticks[name])
	}))
	return ev
}

// ---- gates

type arrival struct {
	g     int
	point string
	held  bool
}

type gates struct {
	mu      sync.Mutex
	park    map[int]string        // goroutine -> point at which it parks (first arrival only)
	parked  map[int]chan struct{} // goroutine -> release channel, once parked
	arrived chan arrival
	log     []arrival
}

func installGates() *gates {
	gt := &gates{park: map[int]string{}, parked: map[int]chan struct{}{}, arrived: make(chan arrival, 64)}
	eval.VerifTrace = func(ev *eval.Evaler, fm *eval.Frame, point string) {
		g := goid()
		gt.mu.Lock()
		want, ok := gt.park[g]
		if !ok || want != point {
			gt.mu.Unlock()
			return
		}
		delete(gt.park, g)
		ch := make(chan struct{})
		gt.parked[g] = ch
		a := arrival{g, point, eval.VerifMuHeld(ev)}
		gt.log = append(gt.log, a)
		gt.mu.Unlock()
		gt.arrived <- a
		<-ch
	}
	return gt
}

// release lets goroutine g go if it is parked, and withdraws a park request it has not reached yet
// (a goroutine that was excluded while another one sat in its window must not park later).
func (gt *gates) release(g int) {
	gt.mu.Lock()
	delete(gt.park, g)
	ch := gt.parked[g]
	delete(gt.parked, g)
	gt.mu.Unlock()
	if ch != nil {
		close(ch)
	}
}

// start runs f on a new goroutine that parks at point; returns its goroutine id and a done channel.
func (gt *gates) start(point string, f func()) (int, chan struct{}) {
	idc := make(chan int)
	done := make(chan struct{})
	go func() {
		g := goid()
		if point != "" {
			gt.mu.Lock()
			gt.park[g] = point
			gt.mu.Unlock()
		}
		idc <- g
		defer close(done)
		f()
	}()
	return <-idc, done
}

func waitArrival(gt *gates, g int, d time.Duration) (arrival, bool) {
	deadline := time.After(d)
	for {
		select {
		case a := <-gt.arrived:
			if a.g == g {
				return a, true
			}
		case <-deadline:
			return arrival{}, false
		}
	}
}

const reach = 2 * time.Second

type sched struct {
	Name   string   `json:"name"`
	Steps  []string `json:"steps"`
	Result string   `json:"result"`
}

// overlap: A parks immediately before its access to the module table (kindA); can B get to its own
// access (kindB) while A sits there? One of the two accesses writes, so with a common lock held
// across each access window B cannot; if B arrives, two goroutines are inside access windows at
// once, one of them writing.
func overlap(c *lib.Ctx, kindA, kindB string) (sched, error) {
	w, err := newWorld([]string{"ma", "mb"})
	if err != nil {
		return sched{}, lib.Infra("%v", err)
	}
	defer os.RemoveAll(w.dir)
	ev := w.evaler()
	gt := installGates()
	defer func() { eval.VerifTrace = nil }()
	s := sched{Name: "overlap:" + kindA + "/" + kindB}
	access := func(kind, mod string) (string, func()) {
		switch kind {
		case "iter":
			return "modules.iter", func() { ev.Check(parse.Source{Name: "[c]", Code: "put a"}, nil) }
		case "read":
			return "modules.read", func() { elv.RunSync(ev, "use "+mod) }
		default:
			return "modules.write", func() { elv.RunSync(ev, "use "+mod) }
		}
	}
	pointA, fA := access(kindA, "ma")
	gA, doneA := gt.start(pointA, fA)
	a, ok := waitArrival(gt, gA, 10*time.Second)
	if !ok {
		return s, lib.Infra("goroutine A never reached %s", pointA)
	}
	s.Steps = append(s.Steps, fmt.Sprintf("A parked before %s (mu held by someone: %v)", pointA, a.held))
	pointB, fB := access(kindB, "mb")
	gB, doneB := gt.start(pointB, fB)
	b, reached := waitArrival(gt, gB, reach)
	if reached {
		s.Steps = append(s.Steps, fmt.Sprintf("B parked before %s while A is still inside its %s window (mu held by someone: %v)", pointB, kindA, b.held))
		s.Result = "overlap"
	} else {
		s.Steps = append(s.Steps, "B did not reach its access while A is parked")
		s.Result = "excluded"
	}
	if !reached {
		gt.release(gB) // withdraw B's park request: it must not park once A lets go of the lock
	}
	// Let A finish first so that the two real map accesses never overlap physically (the runtime
	// would abort the process); if A then needs a lock B holds while parked, let B go after a while.
	gt.release(gA)
	select {
	case <-doneA:
	case <-time.After(3 * time.Second):
	}
	gt.release(gB)
	select {
	case <-doneA:
	case <-time.After(20 * time.Second):
		return s, stuck(&s, "A")
	}
	select {
	case <-doneB:
	case <-time.After(20 * time.Second):
		return s, stuck(&s, "B")
	}
	return s, nil
}

// stuck decides what a goroutine that does not finish after every gate has been opened means: if the
// goroutine dump shows goroutines blocked in a sync lock called from pkg/eval and none waiting at a
// gate of this harness, the real Evaler has deadlocked (a violation: evaluations must complete);
// anything else is a defect of the driver (exit 2).
func stuck(s *sched, who string) error {
	buf := make([]byte, 4<<20)
	buf = buf[:runtime.Stack(buf, true)]
	var blocked []string
	atGate := false
	for _, g := range strings.Split(string(buf), "\n\n") {
		if strings.Contains(g, "installGates.func1") {
			atGate = true
		}
		if !strings.Contains(g, "src.elv.sh/pkg/eval.") {
			continue
		}
		lines := strings.Split(g, "\n")
		if len(lines) < 2 || !(strings.Contains(lines[0], "sync.RWMutex") || strings.Contains(lines[0], "sync.Mutex") || strings.Contains(g, "sync.(*RWMutex).") || strings.Contains(g, "sync.(*Mutex).Lock")) {
			continue
		}
		var fr []string
		for _, l := range lines[1:] {
			if strings.HasPrefix(l, "sync.(") || strings.HasPrefix(l, "src.elv.sh/pkg/eval.") {
				if i := strings.LastIndex(l, "("); i > 0 {
					l = l[:i]
				}
				fr = append(fr, strings.TrimPrefix(l, "src.elv.sh/pkg/"))
			}
			if len(fr) == 4 {
				break
			}
		}
		blocked = append(blocked, strings.Join(fr, " < "))
	}
	if atGate || len(blocked) == 0 {
		return lib.Infra("goroutine %s did not finish (at a gate: %v, goroutines blocked in a lock under pkg/eval: %d)", who, atGate, len(blocked))
	}
	s.Steps = append(s.Steps, fmt.Sprintf("every gate is open, yet goroutine %s does not finish within 20 s; %d goroutine(s) blocked in a lock under pkg/eval: %s", who, len(blocked), strings.Join(blocked, " || ")))
	s.Result = "deadlock"
	return nil
}

// twice: A has missed the cache for module m and is parked before installing it; B imports m completely.
func twice(c *lib.Ctx) (sched, error) {
	w, err := newWorld([]string{"ma"})
	if err != nil {
		return sched{}, lib.Infra("%v", err)
	}
	defer os.RemoveAll(w.dir)
	ev := w.evaler()
	gt := installGates()
	defer func() { eval.VerifTrace = nil }()
	s := sched{Name: "use-twice"}
	gA, doneA := gt.start("module.install-begin", func() { elv.RunSync(ev, "use ma") })
	if _, ok := waitArrival(gt, gA, 10*time.Second); !ok {
		return s, lib.Infra("goroutine A never reached module.install-begin")
	}
	s.Steps = append(s.Steps, "A missed the cache for ma and is parked before installing it")
	_, doneB := gt.start("", func() { elv.RunSync(ev, "use ma") })
	select {
	case <-doneB:
		s.Steps = append(s.Steps, "B imported ma completely meanwhile")
	case <-time.After(reach):
		s.Steps = append(s.Steps, "B waits for A's import")
	}
	gt.release(gA)
	select {
	case <-doneA:
	case <-time.After(20 * time.Second):
		return s, stuck(&s, "A")
	}
	select {
	case <-doneB:
	case <-time.After(20 * time.Second):
		return s, stuck(&s, "B")
	}
	w.mu.Lock()
	n := w.ticks["ma"]
	w.mu.Unlock()
	s.Steps = append(s.Steps, fmt.Sprintf("module code of ma ran %d time(s)", n))
	if n > 1 {
		s.Result = "evaluated-twice"
	} else {
		s.Result = "once"
	}
	return s, nil
}

// partial: A is executing module m (parked at module.exec-begin); B imports m and reads its variable.
func partial(c *lib.Ctx) (sched, error) {
	w, err := newWorld([]string{"ma"})
	if err != nil {
		return sched{}, lib.Infra("%v", err)
	}
	defer os.RemoveAll(w.dir)
	ev := w.evaler()
	gt := installGates()
	defer func() { eval.VerifTrace = nil }()
	s := sched{Name: "partial-visible"}
	gA, doneA := gt.start("module.exec-begin", func() { elv.RunSync(ev, "use ma") })
	if _, ok := waitArrival(gt, gA, 10*time.Second); !ok {
		return s, lib.Infra("goroutine A never reached module.exec-begin")
	}
	s.Steps = append(s.Steps, "A installed ma's namespace and is parked before executing its code")
	var out elv.Outcome
	_, doneB := gt.start("", func() { out = elv.RunSync(ev, "use ma; put $ma:tok") })
	finished := false
	select {
	case <-doneB:
		finished = true
	case <-time.After(reach):
	}
	gt.release(gA)
	select {
	case <-doneA:
	case <-time.After(20 * time.Second):
		return s, stuck(&s, "A")
	}
	select {
	case <-doneB:
	case <-time.After(20 * time.Second):
		return s, stuck(&s, "B")
	}
	if finished && out.Err == nil && len(out.Values) == 1 {
		if v, ok := out.Values[0].(string); ok && strings.HasPrefix(v, "ma#") {
			s.Steps = append(s.Steps, "B read the initialised variable "+v)
			s.Result = "complete"
		} else {
			s.Steps = append(s.Steps, fmt.Sprintf("B finished `use ma; put $ma:tok` before ma's code ran and read %v", elv.Abs(out.Values[0])))
			s.Result = "partial-namespace-observed"
		}
	} else if finished {
		s.Steps = append(s.Steps, fmt.Sprintf("B finished early with error %v", out.Err))
		s.Result = "partial-namespace-observed"
	} else {
		s.Steps = append(s.Steps, "B waited for A to finish executing ma")
		s.Result = "complete"
	}
	return s, nil
}

func run(c *lib.Ctx) error {
	dir := c.SpecDir("EvalerShared")
	c.Set("rule", "G: one case per model counterexample schedule replayed on the real Evaler; V: one case per concurrent run (goroutines x evaluations), distinct by its recorded summary; runs with a single goroutine are not counted")
	// ---- M
	type cfg struct {
		name, locked, once, inv string
		expectViolation         bool
	}
	cfgs := []cfg{
		{"asis-unsync", "FALSE", "FALSE", "NoUnsyncMapAccess", true},
		{"asis-once", "FALSE", "FALSE", "AtMostOnce", true},
		{"asis-partial", "FALSE", "FALSE", "NoPartialVisible", true},
		{"locked-unsync", "TRUE", "FALSE", "NoUnsyncMapAccess", false},
		{"switched-all", "TRUE", "TRUE", "NoUnsyncMapAccess AtMostOnce NoPartialVisible", false},
	}
	candidates := map[string]string{}
	for _, k := range cfgs {
		text := fmt.Sprintf("CONSTANTS Procs = {1, 2, 3} Mods = {1, 2} LockedAccess = %s LoadOnce = %s\nCONSTANT Scripts <- ScriptsDef\nSPECIFICATION Spec\nINVARIANT %s\n", k.locked, k.once, k.inv)
		r, err := c.TLC("MCEvalerShared "+k.name, lib.TLCRun{Dir: dir, Module: "MCEvalerShared", Cfg: "run.cfg", Workers: 2, Timeout: 5 * time.Minute,
			Files: map[string][]byte{"run.cfg": []byte(text)}})
		if err != nil {
			return err
		}
		if k.expectViolation != (r.ErrKind == "invariant") {
			return lib.Infra("model configuration %s: expected violation=%v, TLC reported %q %s", k.name, k.expectViolation, r.ErrKind, r.ErrName)
		}
		if r.ErrKind == "invariant" {
			candidates[r.ErrName] = fmt.Sprintf("%d-state counterexample", len(r.TraceStates()))
		}
	}
	for _, nested := range []string{"FALSE", "TRUE"} {
		text := fmt.Sprintf("CONSTANTS Procs = {1, 2, 3} NestedRead = %s\nCONSTANT Scripts <- ScriptsDef\nSPECIFICATION Spec\nINVARIANT MutualExclusion\nCHECK_DEADLOCK TRUE\n", nested)
		r, err := c.TLC("MCEvalerLock nested="+nested, lib.TLCRun{Dir: dir, Module: "MCEvalerLock", Cfg: "lock.cfg", Workers: 2, Timeout: 5 * time.Minute, Deadlock: true,
			Files: map[string][]byte{"lock.cfg": []byte(text)}})
		if err != nil {
			return err
		}
		if (nested == "TRUE") != (r.ErrKind == "deadlock") || (nested == "FALSE" && r.ErrKind != "") {
			return lib.Infra("lock model NestedRead=%s: TLC reported %q %s", nested, r.ErrKind, r.Err)
		}
		if r.ErrKind == "deadlock" {
			candidates["Completes (nested read lock)"] = fmt.Sprintf("%d-state counterexample", len(r.TraceStates()))
		}
	}
	c.Set("model_candidates", candidates)

	// ---- G: replay the candidates on the real code
	var scheds []sched
	for _, ab := range [][2]string{{"write", "iter"}, {"write", "read"}, {"write", "write"}, {"iter", "write"}, {"read", "write"}} {
		s, err := overlap(c, ab[0], ab[1])
		if err != nil {
			return err
		}
		scheds = append(scheds, s)
	}
	if s, err := twice(c); err != nil {
		return err
	} else {
		scheds = append(scheds, s)
	}
	if s, err := partial(c); err != nil {
		return err
	} else {
		scheds = append(scheds, s)
	}
	for _, s := range scheds {
		c.AddEvals(1)
		c.AddTraces(1)
		c.Distinct(s.Name)
		c.Sample(s)
		switch s.Result {
		case "overlap":
			c.Reject("evaler:modules-map-unsynchronised", "schedule "+s.Name+" reproduced on the real Evaler: two goroutines inside access windows on Evaler.modules, one writing, no common lock: "+strings.Join(s.Steps, "; "), s)
		case "deadlock":
			c.Reject("evaler:deadlock:"+s.Name, "schedule "+s.Name+" on the real Evaler never completes (EvalerLock: Completes): "+strings.Join(s.Steps, "; "), s)
		case "evaluated-twice":
			c.Reject("evaler:concurrent-use-evaluates-twice", "schedule reproduced on the real Evaler: "+strings.Join(s.Steps, "; "), s)
		case "partial-namespace-observed":
			c.Reject("evaler:partial-module-visible", "schedule reproduced on the real Evaler: "+strings.Join(s.Steps, "; "), s)
		}
	}

	// ---- V: free-running, in a child process
	return freeRunning(c, dir)
}

// ---- V

type vcase struct {
	G        int  `json:"g"`        // goroutines
	K        int  `json:"k"`        // evaluations per goroutine
	Lost     int  `json:"lost"`     // declared names that a later evaluation could not read
	Wrong    int  `json:"wrong"`    // reads that returned another value than the one declared
	MaxTicks int  `json:"maxticks"` // most executions of one module's code
	Used     int  `json:"used"`     // modules imported
	Errors   int  `json:"errors"`   // evaluations/checks that returned an unexpected error
	Mixed    bool `json:"mixed"`    // run had concurrent use + Check
	Races    int  `json:"races"`    // data-race reports of the Go race detector naming elvish code (race child only)
}

func freeRunning(c *lib.Ctx, dir string) error {
	runs := c.Pick(12, 120)
	withUse := !c.IsKnown("evaler:modules-map-unsynchronised")
	c.Set("v_concurrent_use_and_check", withUse)
	cmd := exec.Command("timeout", "-s", "KILL", "600", os.Args[0])
	cmd.Env = append(os.Environ(), "C39_CHILD=1", fmt.Sprintf("C39_RUNS=%d", runs), fmt.Sprintf("C39_SEED=%d", c.Seed), fmt.Sprintf("C39_USE=%v", withUse))
	var out, errb bytes.Buffer
	cmd.Stdout, cmd.Stderr = &out, &errb
	err := cmd.Run()
	var cases []vcase
	for _, l := range strings.Split(out.String(), "\n") {
		if strings.HasPrefix(l, "{") {
			var v vcase
			if json.Unmarshal([]byte(l), &v) == nil {
				cases = append(cases, v)
			}
		}
	}
	if err != nil {
		tail := errb.String()
		if len(tail) > 3000 {
			tail = tail[:3000]
		}
		if strings.Contains(tail, "concurrent map") {
			c.Reject("evaler:modules-map-unsynchronised", "free-running concurrent use/Check on one Evaler killed the process: "+firstLine(tail), map[string]any{"completed_runs": len(cases), "stderr": tail})
		} else if strings.Contains(tail, "fatal error") || strings.Contains(tail, "panic:") {
			c.Reject("evaler:process-died", "free-running concurrent evaluations killed the process: "+firstLine(tail), map[string]any{"completed_runs": len(cases), "stderr": tail})
		} else {
			return lib.Infra("V child failed: %v\n%s", err, tail)
		}
	}
	for _, v := range cases {
		c.AddEvals(v.G * v.K)
		if v.G > 1 {
			c.Distinct(v)
		}
	}
	if len(cases) > 0 {
		c.Sample(cases[0])
		bad, err := lib.Judge(c, "JudgeShared", dir, "JudgeShared", cases, 2, 5*time.Minute)
		if err != nil {
			return err
		}
		c.AddTraces(len(cases))
		for _, b := range bad {
			v := cases[b.Index]
			key := "evaler:free-running:" + fmt.Sprint(b.Info...)
			if v.MaxTicks > 1 && v.Lost == 0 && v.Wrong == 0 && v.Errors == 0 {
				key = "evaler:concurrent-use-evaluates-twice"
			}
			c.Reject(key, fmt.Sprintf("free-running run %+v rejected by JudgeShared: %v", v, b.Info), v)
		}
	}
	if err := raceObserver(c, dir); err != nil {
		return err
	}
	c.Assume("TLC trusted; goroutines are identified by the id in runtime.Stack; `B did not reach its access within 2 s while A is parked` is read as exclusion (a slow machine can only hide a finding, never create one); module re-evaluation and visibility of partially evaluated modules are judged against the statement's `results that some sequential order could produce`")
	return nil
}

func firstLine(s string) string {
	for _, l := range strings.Split(s, "\n") {
		if strings.Contains(l, "fatal error") || strings.Contains(l, "panic:") {
			return l
		}
	}
	return strings.SplitN(s, "\n", 2)[0]
}
