package main

import (
	"encoding/json"
	"fmt"
	"math/rand"
	"os"
	"runtime"
	"strconv"
	"sync"

	"src.elv.sh/pkg/parse"
	"verif.local/harness/elv"
)

// child runs free-running concurrent evaluations on one Evaler per run and prints one JSON summary
// per run. A runtime fatal error kills this process; the parent reads what was printed so far.
func child() {
	runs, _ := strconv.Atoi(os.Getenv("C39_RUNS"))
	seed, _ := strconv.ParseInt(os.Getenv("C39_SEED"), 10, 64)
	withUse := os.Getenv("C39_USE") == "true"
	rng := rand.New(rand.NewSource(seed))
	for r := 0; r < runs; r++ {
		G := 2 + rng.Intn(7)
		K := 3 + rng.Intn(8)
		runtime.GOMAXPROCS([]int{1, 2, 4, 8, 16}[rng.Intn(5)])
		mods := []string{"ma", "mb", "mc"}
		w, err := newWorld(mods)
		if err != nil {
			fmt.Fprintln(os.Stderr, err)
			os.Exit(3)
		}
		ev := w.evaler()
		v := vcase{G: G, K: K, Mixed: withUse}
		var mu sync.Mutex
		var wg sync.WaitGroup
		usedSet := map[string]bool{}
		for g := 0; g < G; g++ {
			wg.Add(1)
			gr := rand.New(rand.NewSource(rng.Int63()))
			go func(g int) {
				defer wg.Done()
				for i := 0; i < K; i++ {
					name := fmt.Sprintf("v%d-%d", g, i)
					code := fmt.Sprintf("var %s = %d", name, g*1000+i)
					if i > 0 { // read the previous declaration of this goroutine: must still be there
						code += fmt.Sprintf("; put $v%d-%d", g, i-1)
					}
					var m string
					if withUse && gr.Intn(2) == 0 {
						m = mods[gr.Intn(len(mods))]
						code += "; use " + m
					}
					if gr.Intn(3) == 0 {
						code = "peach {|x| put $x } [a b] | nop (all); " + code
					}
					o := elv.Run(ev, code)
					mu.Lock()
					if m != "" {
						usedSet[m] = true
					}
					if o.Err != nil || o.Panic != "" {
						if elv.ErrClass(o.Err) == "compile" {
							v.Lost++
						} else {
							v.Errors++
						}
					} else if i > 0 {
						if len(o.Values) == 0 || o.Values[len(o.Values)-1] != fmt.Sprint(g*1000+i-1) {
							v.Wrong++
						}
					}
					mu.Unlock()
					if withUse && gr.Intn(3) == 0 {
						ev.Check(parse.Source{Name: "[c]", Code: "put $nonexistent"}, nil)
					}
				}
			}(g)
		}
		wg.Wait()
		// after quiescence every declared name must be readable with its value
		for g := 0; g < G; g++ {
			for i := 0; i < K; i++ {
				o := elv.Run(ev, fmt.Sprintf("put $v%d-%d", g, i))
				if o.Err != nil {
					v.Lost++
				} else if len(o.Values) != 1 || o.Values[0] != fmt.Sprint(g*1000+i) {
					v.Wrong++
				}
			}
		}
		w.mu.Lock()
		for _, n := range w.ticks {
			if n > v.MaxTicks {
				v.MaxTicks = n
			}
		}
		w.mu.Unlock()
		v.Used = len(usedSet)
		os.RemoveAll(w.dir)
		b, _ := json.Marshal(v)
		fmt.Println(string(b))
	}
}
