package main

import (
	"bytes"
	"crypto/md5"
	"fmt"
	"os"
	"os/exec"
	"path/filepath"
	"regexp"
	"strings"
	"sync"
	"time"

	"src.elv.sh/pkg/parse"
	"verif.local/harness/elv"
	"verif.local/harness/lib"
)

// raceObserver rebuilds this executor with the Go race detector and runs concurrent scenarios on
// one Evaler in that child. "Without data races" is part of the property statement, so a report
// that names elvish code is real-code behaviour the specification rejects; the summary goes through
// the same TLC walker (JudgeShared: races = 0).
func raceObserver(c *lib.Ctx, dir string) error {
	root := c.Root
	tag := fmt.Sprintf("%x", md5sum(c.Repo+"\n"))[:8]
	bdir := filepath.Join(root, ".build", tag)
	bin := filepath.Join(bdir, "bin", "c39-race")
	build := exec.Command("go", "build", "-race", "-tags", "verif", "-modfile="+filepath.Join(bdir, "go.mod"), "-o", bin, "./checks/c39")
	build.Dir = filepath.Join(root, "harness")
	build.Env = append(os.Environ(), "CGO_ENABLED=1")
	if out, err := build.CombinedOutput(); err != nil {
		c.Logf("race build not available (%v): %s", err, firstLine(string(out)))
		c.Set("race_observer", "not available: "+firstLine(string(out)))
		return nil // the race detector is an extra observer; its absence is not a verdict
	}
	rounds := c.Pick(3, 12)
	cmd := exec.Command("timeout", "-s", "KILL", "900", bin)
	cmd.Env = append(os.Environ(), "C39_CHILD=race", fmt.Sprintf("C39_RUNS=%d", rounds), "GORACE=halt_on_error=0")
	var out, errb bytes.Buffer
	cmd.Stdout, cmd.Stderr = &out, &errb
	runErr := cmd.Run()
	reports := parseRaces(errb.String())
	c.Set("race_observer", map[string]any{"rounds": rounds, "reports_naming_elvish_code": len(reports)})
	c.AddEvals(rounds * 6)
	if strings.Contains(errb.String(), "fatal error") {
		c.Reject("evaler:process-died", "concurrent scenarios under the race detector killed the process: "+firstLine(errb.String()), errb.String()[:min(3000, errb.Len())])
	} else if runErr != nil && len(reports) == 0 && !strings.Contains(out.String(), "RACE-CHILD-DONE") {
		return lib.Infra("race child failed: %v\n%s", runErr, errb.String()[:min(2000, errb.Len())])
	}
	v := vcase{G: 3, K: rounds, Races: len(reports)}
	bad, err := lib.Judge(c, "JudgeShared(race)", dir, "JudgeShared", []vcase{v}, 1, 5*time.Minute)
	if err != nil {
		return err
	}
	c.AddTraces(1)
	if len(bad) > 0 {
		seen := map[string]bool{}
		for _, r := range reports {
			if seen[r.key] {
				continue
			}
			seen[r.key] = true
			c.Reject("evaler:data-race:"+r.key, "the Go race detector reports a data race in elvish code during concurrent use of one Evaler: "+r.key, r.text)
		}
	}
	return nil
}

type raceReport struct{ key, text string }

var reElvFrame = regexp.MustCompile(`src\.elv\.sh/pkg/[\w/]+\.(\([^)]*\)\.)?[\w.]+`)

// parseRaces splits the race detector's output into reports and keys each by the first two
// distinct elvish functions it names (the two sides of the race).
func parseRaces(stderr string) []raceReport {
	var out []raceReport
	for _, blk := range strings.Split(stderr, "WARNING: DATA RACE")[1:] {
		if i := strings.Index(blk, "=================="); i >= 0 {
			blk = blk[:i]
		}
		fr := reElvFrame.FindAllString(blk, -1)
		var fns []string
		for _, f := range fr {
			f = strings.TrimPrefix(f, "src.elv.sh/")
			if len(fns) == 0 || (len(fns) == 1 && fns[0] != f) {
				fns = append(fns, f)
			}
		}
		if len(fns) == 0 {
			continue // a race inside the harness or the runtime only: not elvish's
		}
		if len(blk) > 4000 {
			blk = blk[:4000]
		}
		out = append(out, raceReport{strings.Join(fns, "|"), blk})
	}
	return out
}

// raceChild: concurrent scenarios on one Evaler, run in a binary built with -race.
func raceChild() {
	rounds := 3
	fmt.Sscan(os.Getenv("C39_RUNS"), &rounds)
	for r := 0; r < rounds; r++ {
		w, err := newWorld([]string{"ma", "mb"})
		if err != nil {
			fmt.Fprintln(os.Stderr, err)
			os.Exit(3)
		}
		ev := w.evaler()
		elv.Run(ev, "var x = init; var l = [a b]; var m = [&k=v]")
		progs := []string{
			`range 300 | each {|i| set x = str-$i }`,
			`range 300 | each {|i| set x = [$i] }`,
			`range 300 | each {|_| nop $x }`,
			`range 100 | each {|i| set l = (conj $l $i); set m = (assoc $m $i v) }`,
			`range 100 | each {|_| nop $l $m (count $l) }`,
			`var y` + fmt.Sprint(r) + ` = 1; use ma; use mb; run-parallel { range 200 | each {|i| set x = p-$i } } { range 200 | each {|_| nop $x } }`,
			`peach {|v| nop $x $v } [(range 50)]; fn f` + fmt.Sprint(r) + ` { put $x }; f` + fmt.Sprint(r),
		}
		var wg sync.WaitGroup
		for _, p := range progs {
			wg.Add(1)
			go func(p string) {
				defer wg.Done()
				elv.Run(ev, p)
				ev.Check(parse.Source{Name: "[c]", Code: "put $x"}, nil)
			}(p)
		}
		wg.Wait()
		os.RemoveAll(w.dir)
	}
	fmt.Println("RACE-CHILD-DONE")
}

func md5sum(s string) [16]byte { return md5.Sum([]byte(s)) }
