package main

import (
	"fmt"
	"math/rand"
	"os"
	"strings"

	"src.elv.sh/pkg/eval/vals"
	"verif.local/harness/elv"
	"verif.local/harness/lib"
)

func readFile(p string) ([]byte, error) { return os.ReadFile(p) }

// reCase is what JudgeRe reads (inputs: s, pat/lit, n, c; the rest is recorded).
type reCase struct {
	S      []int   `json:"s"`
	Pat    string  `json:"pat"` // the pattern text (information; "" when lit is used)
	Lit    [][]int `json:"lit"` // [] or [literal]: the pattern is re:quote literal
	N      int     `json:"n"`
	C      []int   `json:"c"`
	Err    bool    `json:"err"`
	Ms     [][]int `json:"ms"`
	Texts  [][]int `json:"texts"`
	G0     [][]int `json:"g0"`
	Findn  [][]int `json:"findn"`
	Split  [][]int `json:"split"`
	Splitn [][]int `json:"splitn"`
	Repid  []int   `json:"repid"`
	Repfn  []int   `json:"repfn"`
	Repc   []int   `json:"repc"`
	Replit []int   `json:"replit"`
	Match  bool    `json:"match"`
}

func reProgram(k reCase) string {
	pat := elv.Quote(k.Pat)
	if len(k.Lit) == 1 {
		pat = "(re:quote " + elv.Quote(string(toBytes(k.Lit[0]))) + ")"
	}
	return fmt.Sprintf(`var s = %s; var pat = %s
try {
  var ms = [(re:find $pat $s)]
  put [(each {|m| put [$m[start] $m[end]] } $ms)]
  put [(each {|m| put $m[text] } $ms)]
  put [(each {|m| put [$m[groups][0][start] $m[groups][0][end]] } $ms)]
  put [(re:find &max=%d $pat $s | each {|m| put [$m[start] $m[end]] })]
  put [(re:split $pat $s)] [(re:split &max=%d $pat $s)]
  put (re:replace $pat '${0}' $s) (re:replace $pat {|x| put $x } $s) (re:replace $pat %s $s) (re:replace &literal $pat '$0' $s)
  put (re:match $pat $s)
} catch e { put err }`, elv.Quote(string(toBytes(k.S))), pat, k.N, k.N, elv.Quote(string(toBytes(k.C))))
}

func emptyRe(k reCase) reCase {
	k.Err = false
	k.Ms, k.Texts, k.G0, k.Findn, k.Split, k.Splitn = [][]int{}, [][]int{}, [][]int{}, [][]int{}, [][]int{}, [][]int{}
	k.Repid, k.Repfn, k.Repc, k.Replit = []int{}, []int{}, []int{}, []int{}
	k.Match = false
	if k.Lit == nil {
		k.Lit = [][]int{}
	}
	if k.C == nil {
		k.C = []int{}
	}
	if k.S == nil {
		k.S = []int{}
	}
	return k
}

// recordRe runs the re: builtins on the inputs of k. Shape problems are recorded as an
// exception (err), which JudgeRe rejects unless the pattern is a quoted ill-formed literal.
func recordRe(pool *evPool, k reCase) reCase {
	k = emptyRe(k)
	o := pool.run(reProgram(k))
	v := o.Values
	if o.Panic != "" || o.Err != nil || len(v) != 11 {
		k.Err = true
		return k
	}
	ok := make([]bool, 11)
	var e bool
	k.Ms, e, ok[0] = asRanges(v[0])
	k.Texts, ok[1] = asStrList(v[1])
	k.G0, _, ok[2] = asRanges(v[2])
	k.Findn, _, ok[3] = asRanges(v[3])
	k.Split, ok[4] = asStrList(v[4])
	k.Splitn, ok[5] = asStrList(v[5])
	k.Repid, ok[6] = asStr(v[6])
	k.Repfn, ok[7] = asStr(v[7])
	k.Repc, ok[8] = asStr(v[8])
	k.Replit, ok[9] = asStr(v[9])
	k.Match, ok[10] = v[10].(bool)
	for i := range ok {
		if !ok[i] || e {
			bad := emptyRe(k)
			bad.Err = true
			_ = vals.ReprPlain
			return bad
		}
	}
	return k
}

func reKey(k reCase, why string) string {
	// known class: a quoted U+FFFD matches ill-formed bytes of the text
	if why == "quote" && len(k.Lit) == 1 && strings.Contains(string(toBytes(k.Lit[0])), "�") {
		return "re-quote:U+FFFD-matches-ill-formed-byte"
	}
	if len(k.Lit) == 1 {
		return fmt.Sprintf("re:%s:quote=%x:s=%x:n=%d", why, toBytes(k.Lit[0]), toBytes(k.S), k.N)
	}
	return fmt.Sprintf("re:%s:pat=%s:s=%x:n=%d", why, k.Pat, toBytes(k.S), k.N)
}

var rePatterns = []string{
	"", "a", "b", "ab", "é", ",", ".", "a*", "a+", "a?", "a*?", "a|b", "(a|b)", "(a|)", "[ab]", "[^a]", "[^,]*",
	"^", "$", "^a", "a$", "^$", "(a)(b)?", "x*", "(?:ab)*", ".*", ".+", ".?", `\b`, `\B`, "b*a", "(é|a)+", `\pL`, `\PL`,
	"[[:alpha:]]+", "(?i)A", "a{2}", "a{0,1}", "(,)|a", `\x{fffd}`, `(?s).`, `[^\x00-\x7f]`, "(a*)(b*)", "a*b*", "(?U)a+",
}

func textsOver(units []string, max int) [][]int {
	out := [][]int{{}}
	prev := [][]int{{}}
	for l := 1; l <= max; l++ {
		var cur [][]int
		for _, t := range prev {
			for _, u := range units {
				cur = append(cur, append(append([]int{}, t...), fromString(u)...))
			}
		}
		out = append(out, cur...)
		prev = cur
	}
	return out
}

func reCases(c *lib.Ctx, pool *evPool) []reCase {
	rnd := rand.New(rand.NewSource(c.Seed*1299709 + 41))
	units := []string{"a", "b", ",", "é", "\xff"}
	if c.Quick() || true { // the separator character comes with the directed subjects below
		units = []string{"a", "b", "é", "\xff"}
	}
	subjects := textsOver(units, c.Pick(3, 4))
	subjects = append(subjects, fromString(","), fromString("a,b"), fromString(",a,"), fromString("a,,b"))
	// longer, random subjects over a richer alphabet
	rich := []string{"a", "b", ",", "é", "\xff", "\x80", "ab", " ", "你", "A", "\n"}
	for i := 0; i < c.Pick(60, 100); i++ {
		l := 4 + rnd.Intn(5)
		var sb strings.Builder
		for j := 0; j < l; j++ {
			sb.WriteString(rich[rnd.Intn(len(rich))])
		}
		subjects = append(subjects, fromString(sb.String()))
	}
	lits := textsOver([]string{"a", ",", "é", ".", "*", "\xff"}, 1)
	{
		for _, l := range []string{"a,", "éa", ".*", "aa", "\xffa", "$0", "\\E"} {
			lits = append(lits, fromString(l))
		}
	}
	consts := [][]int{{}, fromString("-"), fromString("é"), fromString("xy"), fromString("a")}
	var in []reCase
	i := 0
	for _, s := range subjects {
		for _, p := range rePatterns {
			in = append(in, reCase{S: s, Pat: p, N: i % 5, C: consts[i%len(consts)]})
			i++
		}
		for _, l := range lits {
			in = append(in, reCase{S: s, Lit: [][]int{l}, N: i % 5, C: consts[i%len(consts)]})
			i++
		}
	}
	// directed probe (known finding): the quoted replacement character against ill-formed bytes
	for _, s := range []string{"\xff", "a\xffb�", "�", "\xe2\x82"} {
		in = append(in, reCase{S: fromString(s), Lit: [][]int{fromString("�")}, N: 1, C: fromString("-")})
	}
	out := make([]reCase, len(in))
	lib.Parallel(len(in), 6, func(j int) { out[j] = recordRe(pool, in[j]) })
	c.AddEvals(len(in))
	for _, k := range out {
		if len(k.S) > 0 {
			c.Distinct(fmt.Sprintf("re|%s|%v|%x", k.Pat, k.Lit, toBytes(k.S)))
		}
	}
	c.Set("re_patterns", len(rePatterns))
	c.Set("re_literals", len(lits))
	c.Set("re_subjects", len(subjects))
	return out
}
