package main

import (
	"encoding/json"
	"fmt"
	"math/rand"
	"strconv"
	"strings"
	"sync"
	"time"

	"src.elv.sh/pkg/eval"
	"src.elv.sh/pkg/eval/vals"
	"verif.local/harness/elv"
	"verif.local/harness/lib"
)

// ---- interpreters

type evPool struct{ ch chan *eval.Evaler }

func newPool(n int) *evPool {
	p := &evPool{ch: make(chan *eval.Evaler, n)}
	for i := 0; i < n; i++ {
		ev := elv.New()
		elv.Run(ev, "use str; use re")
		p.ch <- ev
	}
	return p
}

func (p *evPool) run(code string) elv.Outcome {
	ev := <-p.ch
	o := elv.Run(ev, code)
	p.ch <- ev
	return o
}

// ---- what is recorded from the str: builtins for one (s, p, n); the shape JudgeStr reads

type strCase struct {
	S     []int   `json:"s"`
	P     []int   `json:"p"`
	N     int     `json:"n"`
	Split [][]int `json:"split"`
	Join  []int   `json:"join"`
	Hp    bool    `json:"hp"`
	Hs    bool    `json:"hs"`
	Tp    []int   `json:"tp"`
	Ts    []int   `json:"ts"`
	Idx   int     `json:"idx"`
	Lidx  int     `json:"lidx"`
	Cont  bool    `json:"cont"`
	Cnt   int     `json:"cnt"`
	Cps   []int   `json:"cps"`
	Back  []int   `json:"back"`
	Bytes []int   `json:"bytes"`
	Bback [][]int `json:"bback"`
	Chars [][]int `json:"chars"`
	Trim  []int   `json:"trim"`
	Up    []int   `json:"up"`
	Lo    []int   `json:"lo"`
	Ti    []int   `json:"ti"`
	Qerr  bool    `json:"qerr"`
	Qr    [][]int `json:"qr"`
}

type replayFile struct {
	Kind string   `json:"kind"` // "pair" | "unary" | "str" | "re"
	Str  *strCase `json:"str,omitempty"`
	Re   *reCase  `json:"re,omitempty"`
	Gen  *genCase `json:"gen,omitempty"`
	Seq  *seqCase `json:"seq,omitempty"`
}

func listItems(v any) ([]any, bool) {
	l, ok := v.(vals.List)
	if !ok {
		return nil, false
	}
	var out []any
	for it := l.Iterator(); it.HasElem(); it.Next() {
		out = append(out, it.Elem())
	}
	return out, true
}

const (
	progPair  = 1
	progUnary = 2
	progBoth  = 3
)

// one Elvish program per case: 11 outputs for the (s, p, n) builtins, 9 for the builtins of s alone
func strProgram(s, p string, n int, which int) string {
	var sb strings.Builder
	fmt.Fprintf(&sb, "var s = %s; var p = %s\n", elv.Quote(s), elv.Quote(p))
	if which&progPair != 0 {
		fmt.Fprintf(&sb, `put [(str:split &max=%d $p $s)]
put (str:join $p [(str:split &max=%d $p $s)])
put (str:has-prefix $s $p) (str:has-suffix $s $p) (str:trim-prefix $s $p) (str:trim-suffix $s $p)
put (str:index $s $p) (str:last-index $s $p) (str:contains $s $p) (str:count $s $p)
put [(try { re:find (re:quote $p) $s | each {|m| put [$m[start] $m[end]] } } catch { put err })]
`, n, n)
	}
	if which&progUnary != 0 {
		sb.WriteString(`put [(str:to-codepoints $s)]
put (str:from-codepoints (str:to-codepoints $s))
put [(str:to-utf8-bytes $s)]
put [(try { str:from-utf8-bytes (str:to-utf8-bytes $s) } catch { })]
put [(str:split '' $s)]
put (str:trim-space $s) (str:to-upper $s) (str:to-lower $s) (str:to-title $s)
`)
	}
	return sb.String()
}

func asStr(v any) ([]int, bool) {
	s, ok := v.(string)
	if !ok {
		return nil, false
	}
	return fromString(s), true
}

func asStrList(v any) ([][]int, bool) {
	l, ok := v.(vals.List)
	if !ok {
		return nil, false
	}
	out := [][]int{}
	for it := l.Iterator(); it.HasElem(); it.Next() {
		b, ok := asStr(it.Elem())
		if !ok {
			return nil, false
		}
		out = append(out, b)
	}
	return out, true
}

func asInt(v any) (int, bool) {
	switch x := v.(type) {
	case int:
		return x, true
	case string:
		n, err := strconv.ParseInt(x, 0, 64)
		return int(n), err == nil
	}
	return 0, false
}

func asIntList(v any) ([]int, bool) {
	l, ok := v.(vals.List)
	if !ok {
		return nil, false
	}
	out := []int{}
	for it := l.Iterator(); it.HasElem(); it.Next() {
		n, ok := asInt(it.Elem())
		if !ok {
			return nil, false
		}
		out = append(out, n)
	}
	return out, true
}

// ranges projects a list of [start end] lists; a trailing string "err" marks an exception.
func asRanges(v any) (rs [][]int, sawErr bool, ok bool) {
	l, isL := v.(vals.List)
	if !isL {
		return nil, false, false
	}
	rs = [][]int{}
	for it := l.Iterator(); it.HasElem(); it.Next() {
		if s, isS := it.Elem().(string); isS && s == "err" {
			sawErr = true
			continue
		}
		r, ok := asIntList(it.Elem())
		if !ok || len(r) != 2 {
			return nil, false, false
		}
		rs = append(rs, r)
	}
	return rs, sawErr, true
}

// recordStr runs every str: builtin of the check on (s, p, n). An error return means the
// program did not produce the expected shape (an exception, a panic, a wrong kind of value).
func recordStr(pool *evPool, s, p []int, n int, which int) (strCase, error) {
	code := strProgram(string(toBytes(s)), string(toBytes(p)), n, which)
	o := pool.run(code)
	sc := strCase{S: s, P: p, N: n, Split: [][]int{}, Join: []int{}, Tp: []int{}, Ts: []int{}, Cps: []int{}, Back: []int{}, Bytes: []int{},
		Bback: [][]int{}, Chars: [][]int{}, Trim: []int{}, Up: []int{}, Lo: []int{}, Ti: []int{}, Qr: [][]int{}}
	if o.Panic != "" {
		return sc, fmt.Errorf("panic: %s", firstLine(o.Panic))
	}
	if o.Err != nil {
		return sc, fmt.Errorf("exception: %v", o.Err)
	}
	v := o.Values
	want := 0
	if which&progPair != 0 {
		want += 11
	}
	if which&progUnary != 0 {
		want += 9
	}
	if len(v) != want {
		return sc, fmt.Errorf("%d outputs, want %d", len(v), want)
	}
	ok := make([]bool, 0, 20)
	add := func(b bool) { ok = append(ok, b) }
	var b bool
	if which&progPair != 0 {
		sc.Split, b = asStrList(v[0])
		add(b)
		sc.Join, b = asStr(v[1])
		add(b)
		sc.Hp, b = v[2].(bool)
		add(b)
		sc.Hs, b = v[3].(bool)
		add(b)
		sc.Tp, b = asStr(v[4])
		add(b)
		sc.Ts, b = asStr(v[5])
		add(b)
		sc.Idx, b = asInt(v[6])
		add(b)
		sc.Lidx, b = asInt(v[7])
		add(b)
		sc.Cont, b = v[8].(bool)
		add(b)
		sc.Cnt, b = asInt(v[9])
		add(b)
		sc.Qr, sc.Qerr, b = asRanges(v[10])
		add(b)
		v = v[11:]
	}
	if which&progUnary != 0 {
		sc.Cps, b = asIntList(v[0])
		add(b)
		sc.Back, b = asStr(v[1])
		add(b)
		sc.Bytes, b = asIntList(v[2])
		add(b)
		sc.Bback, b = asStrList(v[3])
		add(b)
		sc.Chars, b = asStrList(v[4])
		add(b)
		sc.Trim, b = asStr(v[5])
		add(b)
		sc.Up, b = asStr(v[6])
		add(b)
		sc.Lo, b = asStr(v[7])
		add(b)
		sc.Ti, b = asStr(v[8])
		add(b)
	}
	for i, b := range ok {
		if !b {
			return sc, fmt.Errorf("output %d has an unexpected kind: %s", i, vals.ReprPlain(o.Values[i]))
		}
	}
	return sc, nil
}

func firstLine(s string) string {
	if i := strings.IndexByte(s, '\n'); i >= 0 {
		return s[:i]
	}
	return s
}

// ---- G: generated cases

// genCase is one line of MCStrRe!Emit (either family; absent fields stay nil).
type genCase struct {
	F     string          `json:"f"`
	S     []int           `json:"s"`
	P     []int           `json:"p"`
	N     int             `json:"n"`
	Split json.RawMessage `json:"split,omitempty"`
	Join  json.RawMessage `json:"join,omitempty"`
	Hp    json.RawMessage `json:"hp,omitempty"`
	Hs    json.RawMessage `json:"hs,omitempty"`
	Tp    json.RawMessage `json:"tp,omitempty"`
	Ts    json.RawMessage `json:"ts,omitempty"`
	Idx   json.RawMessage `json:"idx,omitempty"`
	Lidx  json.RawMessage `json:"lidx,omitempty"`
	Cont  json.RawMessage `json:"cont,omitempty"`
	Cnt   json.RawMessage `json:"cnt,omitempty"`
	Qok   bool            `json:"qok,omitempty"`
	Qr    json.RawMessage `json:"qr,omitempty"`
	Cps   json.RawMessage `json:"cps,omitempty"`
	Back  json.RawMessage `json:"back,omitempty"`
	Valid bool            `json:"valid,omitempty"`
	Trim  json.RawMessage `json:"trim,omitempty"`
	Up    []json.RawMessage `json:"up,omitempty"`
	Lo    []json.RawMessage `json:"lo,omitempty"`
	Ti    []json.RawMessage `json:"ti,omitempty"`
	Chars json.RawMessage `json:"chars,omitempty"`
}

type gen struct {
	c        *lib.Ctx
	pool     *evPool
	mu       sync.Mutex
	nCases   int
	nLeft    int
	caseLeft []strCase // unary cases whose case images are not unique or not specified: to the judge
}

func canon(v any) string {
	b, err := json.Marshal(v)
	if err != nil {
		panic(err)
	}
	var x any
	json.Unmarshal(b, &x)
	b, _ = json.Marshal(x)
	return string(b)
}

func (g *gen) runJob(dir string, j genJob) error {
	c := g.c
	r, err := c.TLC("GenStrRe:"+j.name, lib.TLCRun{Dir: dir, Module: "MCStrRe", Workers: 4, Timeout: 25 * time.Minute,
		Files: map[string][]byte{"MCStrRe.cfg": mcCfg(j.family, j.ls, j.lp, j.alpha, j.ns, "INVARIANT Emit\n")}})
	if err != nil {
		return err
	}
	if r.ErrKind != "" {
		return lib.Infra("generator %s failed: %s\n%s", j.name, r.Err, r.ErrTrace)
	}
	seen := map[string]bool{}
	var cases []*genCase
	for _, s := range r.PrintedStrings() {
		if seen[s] {
			continue
		}
		seen[s] = true
		gc := &genCase{}
		if err := json.Unmarshal([]byte(s), gc); err != nil {
			return lib.Infra("bad case from TLC: %v: %s", err, s)
		}
		cases = append(cases, gc)
	}
	// every stage-1 state is one case; stage-0 states are the texts
	texts := map[string]bool{}
	for _, gc := range cases {
		texts[hexOf(gc.S)] = true
	}
	if int64(len(cases)+len(texts)) != r.Distinct {
		return lib.Infra("generator %s: %d cases over %d texts received, TLC reports %d states", j.name, len(cases), len(texts), r.Distinct)
	}
	var firstErr error
	var emu sync.Mutex
	lib.Parallel(len(cases), 6, func(i int) {
		if err := g.replayGen(cases[i]); err != nil {
			emu.Lock()
			if firstErr == nil {
				firstErr = err
			}
			emu.Unlock()
		}
	})
	if firstErr != nil {
		return firstErr
	}
	g.mu.Lock()
	g.nCases += len(cases)
	g.mu.Unlock()
	c.AddTraces(len(cases))
	if len(cases) > 0 {
		c.Sample(cases[len(cases)/3])
	}
	c.Logf("generator %s: %d cases over %d texts replayed", j.name, len(cases), len(texts))
	return nil
}

func (g *gen) replayGen(gc *genCase) error {
	c := g.c
	if gc.P == nil {
		gc.P = []int{}
	}
	if gc.S == nil {
		gc.S = []int{}
	}
	if len(gc.S) > 0 {
		c.Distinct(fmt.Sprintf("%s|%x|%x|%d", gc.F, toBytes(gc.S), toBytes(gc.P), gc.N))
	}
	c.AddEvals(1)
	which := progPair
	if gc.F != "pair" {
		which = progUnary
	}
	sc, err := recordStr(g.pool, gc.S, gc.P, gc.N, which)
	key := func(field string) string {
		return fmt.Sprintf("%s:%s:s=%x:p=%x:n=%d", gc.F, field, toBytes(gc.S), toBytes(gc.P), gc.N)
	}
	rf := replayFile{Kind: gc.F, Gen: gc}
	if err != nil {
		c.Reject(key("run"), fmt.Sprintf("str builtins on s=%q p=%q n=%d: %v", toBytes(gc.S), toBytes(gc.P), gc.N, err), rf)
		return nil
	}
	cmp := func(field string, got any, want json.RawMessage) {
		if want == nil {
			return
		}
		if canon(got) != canon(want) {
			c.Reject(key(field), fmt.Sprintf("%s on s=%q p=%q n=%d gives %s; prescribed %s", field, toBytes(gc.S), toBytes(gc.P), gc.N, canon(got), want), rf)
		}
	}
	if gc.F == "pair" {
		cmp("str:split", sc.Split, gc.Split)
		cmp("str:join", sc.Join, gc.Join)
		cmp("str:has-prefix", sc.Hp, gc.Hp)
		cmp("str:has-suffix", sc.Hs, gc.Hs)
		cmp("str:trim-prefix", sc.Tp, gc.Tp)
		cmp("str:trim-suffix", sc.Ts, gc.Ts)
		cmp("str:index", sc.Idx, gc.Idx)
		cmp("str:last-index", sc.Lidx, gc.Lidx)
		cmp("str:contains", sc.Cont, gc.Cont)
		cmp("str:count", sc.Cnt, gc.Cnt)
		if sc.Qerr {
			if gc.Qok { // Unspecified (3) only covers literals that are not UTF-8
				c.Reject(key("re:find-quote"), fmt.Sprintf("re:find (re:quote %q) %q raises an exception", toBytes(gc.P), toBytes(gc.S)), rf)
			}
		} else {
			cmp("re:find-quote", sc.Qr, gc.Qr)
		}
		return nil
	}
	cmp("str:to-codepoints", sc.Cps, gc.Cps)
	cmp("str:from-codepoints", sc.Back, gc.Back)
	cmp("str:to-utf8-bytes", sc.Bytes, mustRaw(gc.S))
	if gc.Valid {
		cmp("str:from-utf8-bytes", sc.Bback, mustRaw([][]int{gc.S}))
	} else {
		cmp("str:from-utf8-bytes", sc.Bback, mustRaw([][]int{}))
	}
	cmp("str:split-empty-separator", sc.Chars, gc.Chars)
	cmp("str:trim-space", sc.Trim, gc.Trim)
	left := false
	for _, t := range []struct {
		name string
		got  []int
		want []json.RawMessage
	}{{"str:to-upper", sc.Up, gc.Up}, {"str:to-lower", sc.Lo, gc.Lo}, {"str:to-title", sc.Ti, gc.Ti}} {
		if len(t.want) == 1 {
			cmp(t.name, t.got, t.want[0])
		} else {
			left = true
		}
	}
	if left { // alternative or unspecified case images: the judge decides (it reads every field)
		g.mu.Lock()
		g.nLeft++
		take := g.nLeft%c.Pick(3, 6) == 0
		g.mu.Unlock()
		if take {
			if full, err := recordStr(g.pool, gc.S, gc.P, gc.N, progBoth); err == nil {
				g.mu.Lock()
				g.caseLeft = append(g.caseLeft, full)
				g.mu.Unlock()
			}
		}
	}
	return nil
}

func mustRaw(v any) json.RawMessage {
	b, _ := json.Marshal(v)
	return b
}

// ---- V: random texts

func randomStrCases(c *lib.Ctx, pool *evPool, n int) []strCase {
	rnd := rand.New(rand.NewSource(c.Seed*104729 + 41))
	units := []string{"a", "b", "c", "A", "Z", ",", " ", "\t", "\n", "\u00e9", "\u00c9", "\u00df", "\u0130", "\u0131", "\u01c6", "\u01c5", "\u01c4",
		"\u00a0", "\u2003", "\u200b", "\u3000", "\u0085", "\u4f60", "\U0001F600",
		"\xff", "\x80", "\xc3", "\xe2\x82", "\xf0\x9f", "\xed\xa0\x80", "\xc0\x80", "\x00", "\u00c0", "$", ".", "*"}
	text := func(max int) []int {
		l := rnd.Intn(max + 1)
		var sb strings.Builder
		for i := 0; i < l; i++ {
			sb.WriteString(units[rnd.Intn(len(units))])
		}
		return fromString(sb.String())
	}
	inputs := make([][3]any, n)
	for i := range inputs {
		s := text(c.Pick(8, 12))
		var p []int
		switch rnd.Intn(4) {
		case 0:
			p = []int{}
		case 1: // a substring of s (also misaligned)
			if len(s) > 0 {
				a := rnd.Intn(len(s))
				b := a + 1 + rnd.Intn(min(3, len(s)-a))
				p = append([]int{}, s[a:b]...)
			} else {
				p = []int{}
			}
		default:
			p = text(2)
		}
		inputs[i] = [3]any{s, p, rnd.Intn(6) - 1}
	}
	out := make([]strCase, n)
	bad := make([]error, n)
	lib.Parallel(n, 6, func(i int) {
		out[i], bad[i] = recordStr(pool, inputs[i][0].([]int), inputs[i][1].([]int), inputs[i][2].(int), progBoth)
	})
	c.AddEvals(n)
	var res []strCase
	for i := range out {
		k := out[i]
		c.Distinct(fmt.Sprintf("rstr|%x|%x|%d", toBytes(k.S), toBytes(k.P), k.N))
		if bad[i] != nil {
			c.Reject(fmt.Sprintf("str:run:s=%x:p=%x:n=%d", toBytes(k.S), toBytes(k.P), k.N), fmt.Sprintf("str builtins on s=%q p=%q n=%d: %v", toBytes(k.S), toBytes(k.P), k.N, bad[i]), replayFile{Kind: "str", Str: &k})
			continue
		}
		res = append(res, k)
	}
	if len(res) > 0 {
		c.Sample(res[0])
	}
	return res
}

func replay(c *lib.Ctx) error {
	b, err := readFile(c.Replay)
	if err != nil {
		return lib.Infra("%v", err)
	}
	var f struct {
		Case replayFile `json:"case"`
	}
	if err := json.Unmarshal(b, &f); err != nil {
		return lib.Infra("%v", err)
	}
	pool := newPool(1)
	dir := c.SpecDir("StrRe")
	switch f.Case.Kind {
	case "pair", "unary":
		g := &gen{c: c, pool: pool}
		if err := g.replayGen(f.Case.Gen); err != nil {
			return err
		}
		if len(g.caseLeft) > 0 {
			return judgeStr(c, dir, g.caseLeft)
		}
		return nil
	case "str":
		k, err := recordStr(pool, f.Case.Str.S, f.Case.Str.P, f.Case.Str.N, progBoth)
		if err != nil {
			c.Reject(fmt.Sprintf("str:run:s=%x:p=%x:n=%d", toBytes(k.S), toBytes(k.P), k.N), err.Error(), f.Case)
			return nil
		}
		return judgeStr(c, dir, []strCase{k})
	case "reseq":
		k, err := recordSeq(pool, *f.Case.Seq)
		if err != nil {
			c.Reject(seqKey(k, "run"), err.Error(), f.Case)
			return nil
		}
		return judgeSeq(c, dir, []seqCase{k}, 1)
	case "re":
		k := recordRe(pool, *f.Case.Re)
		bad, err := lib.Judge(c, "JudgeRe", dir, "JudgeRe", []reCase{k}, 1, 5*time.Minute)
		if err != nil {
			return err
		}
		for _, bc := range bad {
			why := fmt.Sprint(bc.Info...)
			c.Reject(reKey(k, why), fmt.Sprintf("recorded re: outputs rejected by JudgeRe (%s): %s", why, mustJSON(k)), f.Case)
		}
		return nil
	}
	return lib.Infra("unknown replay kind %q", f.Case.Kind)
}

func judgeStr(c *lib.Ctx, dir string, sc []strCase) error {
	bad, err := lib.Judge(c, "JudgeStr", dir, "JudgeStr", sc, 1, 5*time.Minute)
	if err != nil {
		return err
	}
	for _, b := range bad {
		k := sc[b.Index]
		why := fmt.Sprint(b.Info...)
		c.Reject(fmt.Sprintf("str:%s:s=%x:p=%x:n=%d", why, toBytes(k.S), toBytes(k.P), k.N), fmt.Sprintf("recorded str: outputs rejected by JudgeStr (%s): %s", why, mustJSON(k)), replayFile{Kind: "str", Str: &k})
	}
	return nil
}
