package main

import (
	"fmt"
	"strings"
	"time"

	"verif.local/harness/elv"
	"verif.local/harness/lib"
)

// Histories of re: calls in one interpreter process: the same (pattern, text) with alternating
// &longest / &posix. The shape JudgeReSeq reads.
type seqObs struct {
	Mode  string  `json:"mode"`
	Err   bool    `json:"err"`
	Ms    [][]int `json:"ms"`
	Split [][]int `json:"split"`
	Repc  []int   `json:"repc"`
	Match bool    `json:"match"`
}

type seqCase struct {
	S    []int    `json:"s"`
	Pat  string   `json:"pat"`
	C    []int    `json:"c"`
	Plan []string `json:"plan"` // the modes, in call order (input)
	Obs  []seqObs `json:"obs"`
}

var modeOpts = map[string][2]string{ // options of find/split/replace; options of match
	"plain":        {"", ""},
	"longest":      {"&longest", ""},
	"posix":        {"&posix", "&posix"},
	"posixlongest": {"&posix &longest", "&posix"},
}

// patterns whose leftmost-first and leftmost-longest matches differ on some text, and a few where
// they do not
var seqPatterns = []string{
	"k(a|ab)", "a|ab", "(a|ab)(c|bcd)", "a*|b", "(a|ab)*", "a*?", "a+?b*", "(|a)+", "x*|a", "(a|ab|abc)", "b|ab|a",
	"a(b|bc)c?", "(ab|a)(bc|c)?", "a*", "[ab]+", "a", "", "(a*)(ab)*", "b*?a", "(a|b)*?c", "a??b",
}

var basePlan = []string{"plain", "posix"}

func seqProgram(k seqCase) string {
	var sb strings.Builder
	fmt.Fprintf(&sb, "var s = %s; var pat = %s; var c = %s\n", elv.Quote(string(toBytes(k.S))), elv.Quote(k.Pat), elv.Quote(string(toBytes(k.C))))
	for _, m := range k.Plan {
		o := modeOpts[m]
		fmt.Fprintf(&sb, `try {
  put [ok [(re:find %s $pat $s | each {|m| put [$m[start] $m[end]] })] [(re:split %s $pat $s)] (re:replace %s $pat $c $s) (re:match %s $pat $s)]
} catch e { put [err] }
`, o[0], o[0], o[0], o[1])
	}
	return sb.String()
}

func recordSeq(pool *evPool, k seqCase) (seqCase, error) {
	o := pool.run(seqProgram(k))
	k.Obs = nil
	if o.Panic != "" {
		return k, fmt.Errorf("panic: %s", firstLine(o.Panic))
	}
	if o.Err != nil || len(o.Values) != len(k.Plan) {
		return k, fmt.Errorf("history program: %d outputs for %d steps, err %v", len(o.Values), len(k.Plan), o.Err)
	}
	for i, v := range o.Values {
		ob := seqObs{Mode: k.Plan[i], Ms: [][]int{}, Split: [][]int{}, Repc: []int{}}
		it, ok := listItems(v)
		if !ok || len(it) == 0 {
			return k, fmt.Errorf("step %d: unexpected output", i)
		}
		if tag, _ := it[0].(string); tag == "err" {
			ob.Err = true
			k.Obs = append(k.Obs, ob)
			continue
		}
		if len(it) != 5 {
			return k, fmt.Errorf("step %d: %d items", i, len(it))
		}
		var ok1, ok2, ok3, ok4 bool
		ob.Ms, _, ok1 = asRanges(it[1])
		ob.Split, ok2 = asStrList(it[2])
		ob.Repc, ok3 = asStr(it[3])
		ob.Match, ok4 = it[4].(bool)
		if !(ok1 && ok2 && ok3 && ok4) {
			return k, fmt.Errorf("step %d: unexpected kinds", i)
		}
		k.Obs = append(k.Obs, ob)
	}
	return k, nil
}

func seqCases(c *lib.Ctx, pool *evPool) []seqCase {
	subjects := textsOver([]string{"a", "b", "c"}, c.Pick(4, 5))
	for _, s := range []string{"xkaby", "kab", "abcd", "abbcd", "aab", "xay", "kaka", "abcabc", "é", "a\xffab"} {
		subjects = append(subjects, fromString(s))
	}
	plans := [][]string{
		{"plain", "longest", "plain", "longest", "posix", "posixlongest", "posix", "plain"},
		{"longest", "plain", "posixlongest", "posix", "longest", "plain"},
		{"posix", "plain", "posixlongest", "longest", "posix", "plain"},
	}
	consts := [][]int{fromString("_"), {}, fromString("xy")}
	var in []seqCase
	i := int(c.Seed)
	for _, s := range subjects {
		for _, p := range seqPatterns {
			in = append(in, seqCase{S: s, Pat: p, C: consts[i%len(consts)], Plan: plans[i%len(plans)]})
			i++
		}
	}
	// Phase A: every (pattern, text) once without &longest, before any &longest call on these
	// patterns has happened in this process; phase B: the histories. The observations of phase A
	// come first in each case, so a result that depends on earlier calls anywhere in the process
	// shows as two unequal observations of one mode.
	base := make([]seqCase, len(in))
	out := make([]seqCase, len(in))
	errs := make([]error, len(in))
	lib.Parallel(len(in), 6, func(j int) {
		b := in[j]
		b.Plan = basePlan
		base[j], errs[j] = recordSeq(pool, b)
	})
	lib.Parallel(len(in), 6, func(j int) {
		if errs[j] != nil {
			out[j] = base[j]
			return
		}
		out[j], errs[j] = recordSeq(pool, in[j])
		out[j].Plan = append(append([]string{}, basePlan...), out[j].Plan...)
		out[j].Obs = append(append([]seqObs{}, base[j].Obs...), out[j].Obs...)
	})
	c.AddEvals(2 * len(in))
	var res []seqCase
	for j, k := range out {
		c.Distinct(fmt.Sprintf("reseq|%s|%x|%v", k.Pat, toBytes(k.S), k.Plan))
		if errs[j] != nil {
			c.Reject(seqKey(k, "run"), fmt.Sprintf("re: history on pattern %q text %q: %v", k.Pat, toBytes(k.S), errs[j]), replayFile{Kind: "reseq", Seq: &k})
			continue
		}
		res = append(res, k)
	}
	c.Set("re_history_cases", map[string]any{"cases": len(res), "patterns": len(seqPatterns), "subjects": len(subjects), "steps_per_case": "6-8"})
	return res
}

func seqKey(k seqCase, why string) string {
	return fmt.Sprintf("re-history:%s:pat=%s:s=%x", why, k.Pat, toBytes(k.S))
}

func judgeSeq(c *lib.Ctx, dir string, sc []seqCase, par int) error {
	bad, err := lib.Judge(c, "JudgeReSeq", dir, "JudgeReSeq", sc, par, 25*time.Minute)
	if err != nil {
		return err
	}
	c.AddTraces(len(sc))
	for _, b := range bad {
		k := sc[b.Index]
		why := fmt.Sprint(b.Info...)
		first := why
		if len(b.Info) > 0 {
			first = fmt.Sprint(b.Info[0])
		}
		c.Reject(seqKey(k, first), fmt.Sprintf("re: history rejected by JudgeReSeq %s: pattern %q text %q: %s", why, k.Pat, toBytes(k.S), mustJSON(k)), replayFile{Kind: "reseq", Seq: &k})
	}
	return nil
}
