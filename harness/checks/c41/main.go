// C41 — string and regex builtins satisfy their algebraic laws (spec/StrRe).
//
//	M: MCStrRe.cfg — the laws on the model: Join(Split) = s, codepoint round trip, affix / index
//	   laws, quoted-literal ranges vs split/replace, trim-space, case tables.
//	G: TLC enumerates (text, separator/affix, &max) and texts with the prescribed outputs of the
//	   str: builtins and of re:find (re:quote lit); each case is one Elvish program run on the
//	   real builtins (use str; use re) and compared output by output.
//	V: random longer texts through the str: builtins (JudgeStr), and the re: builtins on a
//	   pattern grammar x texts, recorded and judged for mutual consistency (JudgeRe).
package main

import (
	"encoding/json"
	"fmt"
	"os"
	"strings"
	"sync"
	"time"

	"verif.local/harness/lib"
)

func main() {
	os.Setenv("JDK_JAVA_OPTIONS", "-XX:ParallelGCThreads=2 -XX:CICompilerCount=2")
	lib.Main("C41", run)
}

const laws = "INVARIANT JoinSplit\nINVARIANT SplitCount\nINVARIANT NoSepInside\nINVARIANT MaxBound\nINVARIANT Affix\nINVARIANT IndexLaws\nINVARIANT QuoteLaws\nINVARIANT Roundtrip\nINVARIANT TrimLaws\nINVARIANT CaseLaws\n"

func mcCfg(family string, ls, lp int, alpha, ns string, inv string) []byte {
	return []byte(fmt.Sprintf("CONSTANT Family = \"%s\"\nCONSTANT LS = %d\nCONSTANT LP = %d\nCONSTANT Alpha = \"%s\"\nCONSTANT NsRaw = %s\nINIT Init\nNEXT Next\n%s",
		family, ls, lp, alpha, ns, inv))
}

type genJob struct {
	name   string
	family string
	ls, lp int
	alpha  string
	ns     string
}

func run(c *lib.Ctx) error {
	if c.Replay != "" {
		return replay(c)
	}
	dir := c.SpecDir("StrRe")
	c.Set("rule", "a case is the tuple of input texts (bytes) and the &max; distinct by that tuple; non-trivial = the text is non-empty")
	pool := newPool(6)

	// ---- M: the laws, in the background
	var wg sync.WaitGroup
	var mErr error
	var mMu sync.Mutex
	model := func(name string, cfg []byte, workers int) {
		defer wg.Done()
		r, err := c.TLC(name, lib.TLCRun{Dir: dir, Module: "MCStrRe", Workers: workers, Timeout: 25 * time.Minute, Files: map[string][]byte{"MCStrRe.cfg": cfg}})
		mMu.Lock()
		defer mMu.Unlock()
		if err != nil {
			if mErr == nil {
				mErr = err
			}
			return
		}
		if r.ErrKind != "" && mErr == nil {
			mErr = lib.Infra("a law of StrRe fails in the model itself (%s): %s\n%s", name, r.Err, r.ErrTrace)
		}
	}
	wg.Add(2)
	go model("MCStrRe:laws-pair", mcCfg("pair", 3, c.Pick(1, 2), tierName(c), "{9, 0, 1, 2, 3}", laws), c.Pick(2, 4))
	go model("MCStrRe:laws-unary", mcCfg("unary", c.Pick(3, 4), 0, tierName(c), "{9}", laws), c.Pick(2, 4))

	// ---- G
	var jobs []genJob
	if c.Quick() {
		jobs = []genJob{
			{"pair", "pair", 4, 2, "quick", "{9}"},
			{"pair-max", "pair", 3, 1, "quick", "{0, 1, 2, 3}"},
			{"unary", "unary", 3, 0, "quick", "{9}"},
		}
	} else {
		jobs = []genJob{
			{"pair", "pair", 4, 2, "quick", "{9, 1}"},
			{"pair-max", "pair", 3, 1, "quick", "{0, 2, 3}"},
			{"pair-wide", "pair", 3, 2, "thorough", "{9}"},
			{"pair-long", "pair", 5, 1, "quick", "{9}"},
			{"unary", "unary", 3, 0, "quick", "{9}"},
			{"unary-long", "unary", 4, 0, "thorough", "{9}"},
		}
	}
	var bounds []map[string]any
	for _, j := range jobs {
		bounds = append(bounds, map[string]any{"name": j.name, "family": j.family, "max_text_tokens": j.ls, "max_sep_tokens": j.lp, "alphabet": j.alpha, "max_values": j.ns})
	}
	c.Set("bounds", bounds)
	g := &gen{c: c, pool: pool}
	var gErr error
	var gmu sync.Mutex
	lib.Parallel(len(jobs), 2, func(i int) {
		if err := g.runJob(dir, jobs[i]); err != nil {
			gmu.Lock()
			if gErr == nil {
				gErr = err
			}
			gmu.Unlock()
		}
	})
	if gErr != nil {
		wg.Wait()
		return gErr
	}
	c.Set("exhaustive", true)
	c.Set("generated_cases", g.nCases)
	c.Set("case_images_left_to_judge", map[string]any{"cases": g.nLeft, "judged": len(g.caseLeft)})

	// ---- V: str builtins on random texts (+ the generated texts whose case images are not unique)
	sc := randomStrCases(c, pool, c.Pick(2500, 6000))
	sc = append(sc, g.caseLeft...)
	c.Logf("judging %d recorded str cases (%d from the generator with alternative case images)", len(sc), len(g.caseLeft))
	bad, err := lib.Judge(c, "JudgeStr", dir, "JudgeStr", sc, c.Pick(3, 6), 25*time.Minute)
	if err != nil {
		wg.Wait()
		return err
	}
	c.AddTraces(len(sc))
	for _, b := range bad {
		k := sc[b.Index]
		why := fmt.Sprint(b.Info...)
		c.Reject(fmt.Sprintf("str:%s:s=%x:p=%x:n=%d", why, bytesOf(k.S), bytesOf(k.P), k.N), fmt.Sprintf("recorded str: outputs rejected by JudgeStr (%s): %s", why, mustJSON(k)), replayFile{Kind: "str", Str: &k})
	}

	// ---- V: re builtins, mutual consistency
	rc := reCases(c, pool)
	c.Logf("judging %d recorded re cases", len(rc))
	bad, err = lib.Judge(c, "JudgeRe", dir, "JudgeRe", rc, c.Pick(4, 6), 25*time.Minute)
	if err != nil {
		wg.Wait()
		return err
	}
	c.AddTraces(len(rc))
	if len(rc) > 0 {
		c.Sample(rc[len(rc)/2])
	}
	for _, b := range bad {
		k := rc[b.Index]
		why := fmt.Sprint(b.Info...)
		c.Reject(reKey(k, why), fmt.Sprintf("recorded re: outputs rejected by JudgeRe (%s): pattern %q text %q: %s", why, k.Pat, string(toBytes(k.S)), mustJSON(k)), replayFile{Kind: "re", Re: &k})
	}
	// ---- V: re builtins, histories in one process (&longest / &posix alternating)
	qc := seqCases(c, pool)
	c.Logf("judging %d recorded re histories", len(qc))
	if err := judgeSeq(c, dir, qc, 4); err != nil {
		wg.Wait()
		return err
	}
	if len(qc) > 0 {
		c.Sample(qc[len(qc)/2])
	}
	wg.Wait()
	if mErr != nil {
		return mErr
	}
	c.Set("re_cases", len(rc))
	c.Assume("TLC is trusted; regular-expression semantics is Go's regexp and is not specified: only the agreement of re:find/re:split/re:replace/re:match on the recorded match ranges, and the quoted-literal law, are judged")
	c.Assume("Unicode tables are module constants: White_Space; case mappings for ASCII, U+00E9/C9, U+00DF, U+0130/0131, U+01C4-01C6 (simple and full images accepted); other code points and ill-formed bytes are Unspecified for case conversion")
	return nil
}

func tierName(c *lib.Ctx) string {
	if c.Thorough() {
		return "thorough"
	}
	return "quick"
}

func mustJSON(v any) string {
	b, _ := json.Marshal(v)
	return string(b)
}

func bytesOf(a []int) []byte { return toBytes(a) }

func toBytes(a []int) []byte {
	b := make([]byte, len(a))
	for i, x := range a {
		b[i] = byte(x)
	}
	return b
}

func fromString(s string) []int {
	out := make([]int, len(s))
	for i := 0; i < len(s); i++ {
		out[i] = int(s[i])
	}
	return out
}

func hexOf(a []int) string { return strings.ToLower(fmt.Sprintf("%x", toBytes(a))) }
