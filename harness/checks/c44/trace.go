package main

// V: random sessions recorded at the wire and judged by TLC (TraceLspServer).

import (
	"encoding/json"
	"fmt"
	"sort"
	"strings"
	"sync"
	"time"

	"verif.local/harness/lib"
)

// op is one client action of a session script (the inputs; enough to replay the session).
type op struct {
	Op    string   `json:"op"` // open | change | hover | completion
	URI   string   `json:"uri"`
	Sym   []string `json:"sym"`
	Text  string   `json:"text"`
	L     int      `json:"l"`
	C     int      `json:"c"`
	Drain bool     `json:"drain"` // after this op, read until every request so far is answered
}

type atEntry struct {
	H  int `json:"h"`
	N  int `json:"n"`
	Rf int `json:"rf"`
	Rt int `json:"rt"`
}

type cmpRec struct {
	H  int    `json:"h"`
	N  int    `json:"n"`
	Rg [4]int `json:"rg"`
}

// event is one line of a recorded trace; every event has every field (TLC accesses fields strictly).
type event struct {
	E      string    `json:"e"`
	ID     int       `json:"id"`
	URI    string    `json:"uri"`
	Text   []string  `json:"text"`
	Errs   [][2]int  `json:"errs"`
	L      int       `json:"l"`
	C      int       `json:"c"`
	At     []atEntry `json:"at"`
	Ok     bool      `json:"ok"`
	Cls    string    `json:"cls"`
	Cmp    cmpRec    `json:"cmp"`
	Ranges [][4]int  `json:"ranges"`
}

func blank(e, uri string, id int) event {
	return event{E: e, ID: id, URI: uri, Text: []string{}, Errs: [][2]int{}, At: []atEntry{}, Ranges: [][4]int{}}
}

type trace struct {
	Ev      []event `json:"ev"`
	script  []op
	note    string
	skipped bool
}

type storedTrace struct {
	Script []op    `json:"script"`
	Ev     []event `json:"ev"`
}

var asciiVariety = []string{"x", "x", "x", "x", "y", " ", ")", "(", "$", ";", "|", "#", "\t"}
var bmpVariety = []string{"你", "€", "好"}
var astralVariety = []string{"😀", "𝄞"}

func randomDoc(c *lib.Ctx) ([]string, string) {
	var sym []string
	var sb strings.Builder
	add := func(s, conc string) { sym = append(sym, s); sb.WriteString(conc) }
	term := func() {
		switch c.Rand.Intn(4) {
		case 0:
			add("CR", "\r")
		case 1, 2:
			add("CR", "\r")
			add("LF", "\n")
		default:
			add("LF", "\n")
		}
	}
	lines := c.Rand.Intn(5)
	for i := 0; i < lines; i++ {
		if i > 0 {
			term()
		}
		switch c.Rand.Intn(5) {
		case 0: // an isolated documented command word
			w := words[c.Rand.Intn(len(words))]
			add(w, w)
		case 1: // ... or a completable prefix
			w := prefixes[c.Rand.Intn(len(prefixes))]
			add(w, w)
		case 2: // empty line
		default:
			for n := 1 + c.Rand.Intn(4); n > 0; n-- {
				switch c.Rand.Intn(5) {
				case 0:
					add("b", bmpVariety[c.Rand.Intn(len(bmpVariety))])
				case 1:
					add("A", astralVariety[c.Rand.Intn(len(astralVariety))])
				default:
					add("a", asciiVariety[c.Rand.Intn(len(asciiVariety))])
				}
			}
		}
	}
	if c.Rand.Intn(3) == 0 {
		term()
	}
	if sym == nil {
		sym = []string{}
	}
	return sym, sb.String()
}

func randomScript(c *lib.Ctx) []op {
	uris := []string{"u1", "u1", "u2", "u2", "u3"}
	var out []op
	lines := map[string]int{}
	opened := map[string]bool{}
	n := 8 + c.Rand.Intn(18)
	for i := 0; i < n; i++ {
		u := uris[c.Rand.Intn(len(uris))]
		var o op
		if i == 0 || c.Rand.Intn(10) < 3 {
			sym, text := randomDoc(c)
			o = op{Op: "open", URI: u, Sym: sym, Text: text}
			if u == "u3" && c.Rand.Intn(2) == 0 {
				continue // keep u3 unknown most of the time
			}
			if opened[u] || (c.Rand.Intn(12) == 0) { // a change; rarely of a document never opened
				o.Op = "change"
			}
			opened[u] = true
			lines[u] = strings.Count(text, "\n") + strings.Count(text, "\r")
		} else {
			o = op{Op: "hover", URI: u, Sym: []string{}, L: c.Rand.Intn(lines[u] + 3), C: c.Rand.Intn(7)}
			if c.Rand.Intn(3) == 0 {
				o.C = 0
			}
			if c.Rand.Intn(2) == 0 {
				o.Op = "completion"
			}
		}
		o.Drain = c.Rand.Intn(5) < 2
		out = append(out, o)
	}
	return out
}

const sessionQuiet = 20 * time.Second

// runScript plays a script against a fresh server and records what is seen at the wire.
func runScript(c *lib.Ctx, emptyDir string, script []op) (trace, error) {
	tr := trace{script: script}
	s, err := startServer(emptyDir)
	if err != nil {
		return tr, lib.Infra("cannot start the language server child: %v", err)
	}
	defer func() {
		if s != nil {
			s.kill()
		}
	}()
	cp := newCompleter()
	uriOf := func(u string) string { return "file:///session/" + u + ".elv" }
	absOf := func(uri string) string {
		return strings.TrimSuffix(strings.TrimPrefix(uri, "file:///session/"), ".elv")
	}
	type docState struct {
		sym  []string
		text string
	}
	cur := map[string]docState{}
	kinds := map[int]string{}
	outstanding, owedPubs := 0, 0
	// take one message from the wire into the trace; false = stream ended / silent
	take := func(limit time.Duration) string {
		m, st := s.recv(limit)
		if st != "ok" {
			return st
		}
		if !m.isResponse() {
			ev := blank("pub", "", 0)
			var p lspPublish
			if m.Method != "textDocument/publishDiagnostics" || json.Unmarshal(m.Params, &p) != nil {
				ev.E = "other:" + m.Method
			} else {
				ev.URI = absOf(p.URI)
				for _, d := range p.Diagnostics {
					ev.Ranges = append(ev.Ranges, [4]int{d.Range.Start.Line, d.Range.Start.Character, d.Range.End.Line, d.Range.End.Character})
				}
				owedPubs--
			}
			tr.Ev = append(tr.Ev, ev)
			return "ok"
		}
		ev := blank("resp", "", m.id())
		outstanding--
		switch {
		case m.Error != nil:
			ev.Cls = "error"
		case kinds[m.id()] == "hover":
			ev.Ok = true
			ev.Cls = hoverClass(m.Result)
		default:
			ev.Ok = true
			ev.Cls, ev.Cmp = projectCompletion(m.Result)
		}
		tr.Ev = append(tr.Ev, ev)
		return "ok"
	}
	for i, o := range script {
		id := i + 1
		ev := blank(o.Op, o.URI, id)
		switch o.Op {
		case "open", "change":
			ev.Text = o.Sym
			ev.Errs = parseErrs("x", o.Text)
			cur[o.URI] = docState{o.Sym, o.Text}
			tr.Ev = append(tr.Ev, ev) // logged before it is written
			if o.Op == "open" {
				s.notify("textDocument/didOpen", docItem(uriOf(o.URI), o.Text))
			} else {
				s.notify("textDocument/didChange", docChange(uriOf(o.URI), o.Text))
			}
			owedPubs++
		default:
			ev.L, ev.C = o.L, o.C
			if d, ok := cur[o.URI]; ok && o.Op == "completion" {
				ev.At = atTable(cp, d.text)
			}
			tr.Ev = append(tr.Ev, ev)
			kinds[id] = o.Op
			s.write(map[string]any{"jsonrpc": "2.0", "id": id, "method": "textDocument/" + o.Op, "params": docPos(uriOf(o.URI), o.L, o.C)})
			outstanding++
		}
		c.AddEvals(1)
		if o.Drain {
			for outstanding > 0 {
				if st := take(sessionQuiet); st != "ok" {
					tr.note = "server " + st + " with " + fmt.Sprint(outstanding) + " requests unanswered; stderr: " + tail(s.stderr.String(), 1200)
					return tr, nil
				}
			}
		}
	}
	// quiescence: every request answered, every open/change published (or the server falls silent)
	for outstanding > 0 || owedPubs > 0 {
		if st := take(sessionQuiet); st != "ok" {
			tr.note = fmt.Sprintf("server %s with %d requests unanswered and %d publications missing; stderr: %s", st, outstanding, owedPubs, tail(s.stderr.String(), 1200))
			return tr, nil
		}
	}
	// nothing more may come: close the connection and see the child end
	if how := s.close(); how != "" {
		tr.note = "server did not end cleanly: " + how
	}
	for m := range s.msgs { // anything written after quiescence is part of the trace
		ev := blank("other:"+m.Method, "", m.id())
		tr.Ev = append(tr.Ev, ev)
	}
	s = nil
	return tr, nil
}

// projectCompletion projects a completion result: "items" (a list whose edits all carry one range)
// or "malformed"; hash and number of the labels; the range of the edits.
func projectCompletion(result json.RawMessage) (string, cmpRec) {
	var items []lspItem
	if json.Unmarshal(result, &items) != nil {
		return "malformed", cmpRec{}
	}
	var labels []string
	for i, it := range items {
		labels = append(labels, it.Label)
		if it.TextEdit == nil || (i > 0 && it.TextEdit.Range != items[0].TextEdit.Range) {
			return "malformed", cmpRec{H: labelHash(labels), N: len(items)}
		}
	}
	cmp := cmpRec{H: labelHash(labels), N: len(items)}
	if len(items) > 0 {
		r := items[0].TextEdit.Range
		cmp.Rg = [4]int{r.Start.Line, r.Start.Character, r.End.Line, r.End.Character}
	}
	return "items", cmp
}

// atTable: the real completer at every character boundary of text.
func atTable(cp *completer, text string) []atEntry {
	var out []atEntry
	off := 0
	for {
		r := cp.at(text, off)
		out = append(out, atEntry{H: labelHash(r.Labels), N: len(r.Labels), Rf: r.From, Rt: r.To})
		if off >= len(text) {
			return out
		}
		_, size := decodeRune(text[off:])
		off += size
	}
}

// isReplyComplaint: reasons after which the walk continues (see TraceLspServer Resp).
func isReplyComplaint(why string) bool {
	switch why {
	case "error-reply-on-known-document", "hover", "completion", "completion-malformed", "completion-at-normalised-position", "crlf-linestart:hover", "crlf-linestart:completion", "at-table-mismatch":
		return true
	}
	return false
}

func decodeRune(s string) (rune, int) {
	for i, r := range s {
		_ = i
		return r, len(string(r))
	}
	return 0, 1
}

func recordSessions(c *lib.Ctx, emptyDir string) ([]trace, error) {
	n := c.Pick(30, 250)
	scripts := make([][]op, n)
	for i := range scripts {
		scripts[i] = randomScript(c)
	}
	// directed: the smallest CR LF session (keeps the known class reproduced by V as well)
	scripts = append(scripts, []op{
		{Op: "open", URI: "u1", Sym: []string{"a", "CR", "LF", "nop"}, Text: "x\r\nnop"},
		{Op: "hover", URI: "u1", Sym: []string{}, L: 1, C: 0},
		{Op: "completion", URI: "u1", Sym: []string{}, L: 1, C: 3, Drain: true},
		{Op: "hover", URI: "u3", Sym: []string{}, L: 0, C: 0},
	})
	// directed: completion with candidates at positions the server has to normalise: past the end
	// of an LF line, of a CR LF line, of the document, and between the halves of a surrogate pair
	scripts = append(scripts, []op{
		{Op: "open", URI: "u1", Sym: []string{"ech", "LF", "a", "a", "a"}, Text: "ech\nfoo"},
		{Op: "completion", URI: "u1", Sym: []string{}, L: 0, C: 10},
		{Op: "completion", URI: "u1", Sym: []string{}, L: 1, C: 9},
		{Op: "completion", URI: "u1", Sym: []string{}, L: 7, C: 0, Drain: true},
		{Op: "change", URI: "u1", Sym: []string{"$pa", "CR", "LF", "A", "LF", "pu"}, Text: "$pa\r\n😀\npu"},
		{Op: "completion", URI: "u1", Sym: []string{}, L: 0, C: 5},
		{Op: "completion", URI: "u1", Sym: []string{}, L: 1, C: 1},
		{Op: "completion", URI: "u1", Sym: []string{}, L: 2, C: 6},
		{Op: "completion", URI: "u1", Sym: []string{}, L: 2, C: 2},
	})
	// directed: bursts of changes of one document without waiting (publications race in the server)
	for i := c.Pick(20, 80); i > 0; i-- {
		burst := []op{{Op: "open", URI: "u1", Sym: []string{}, Text: ""}}
		for k := 1; k <= 12; k++ {
			sym := make([]string, k)
			for j := range sym {
				sym[j] = "a"
			}
			burst = append(burst, op{Op: "change", URI: "u1", Sym: sym, Text: strings.Repeat("x", k-1) + ")"})
		}
		scripts = append(scripts, burst)
	}
	traces := make([]trace, len(scripts))
	var mu sync.Mutex
	var firstErr error
	lib.Parallel(len(scripts), 6, func(i int) {
		if c.Violations() > 20 { // the verdict is settled; do not spend minutes on more sessions
			traces[i] = trace{script: scripts[i], skipped: true}
			return
		}
		tr, err := runScript(c, emptyDir, scripts[i])
		mu.Lock()
		defer mu.Unlock()
		if err != nil && firstErr == nil {
			firstErr = err
		}
		traces[i] = tr
	})
	if firstErr != nil {
		return nil, firstErr
	}
	nev := 0
	var kept []trace
	for _, t := range traces {
		if !t.skipped {
			kept = append(kept, t)
			nev += len(t.Ev)
		}
	}
	traces = kept
	c.Set("V_sessions", len(traces))
	c.Set("V_events", nev)
	c.Logf("V: %d sessions, %d events recorded", len(traces), nev)
	return traces, nil
}

func judgeTraces(c *lib.Ctx, dir string, traces []trace) error {
	if len(traces) == 0 {
		return nil
	}
	const chunk = 60
	type job struct{ lo, hi int }
	var jobs []job
	for lo := 0; lo < len(traces); lo += chunk {
		hi := lo + chunk
		if hi > len(traces) {
			hi = len(traces)
		}
		jobs = append(jobs, job{lo, hi})
	}
	type complaint struct {
		at  int
		why string
	}
	done := make([]bool, len(traces))
	complaints := make([]map[complaint]bool, len(traces))
	var mu sync.Mutex
	var firstErr error
	lib.Parallel(len(jobs), 4, func(j int) {
		lo, hi := jobs[j].lo, jobs[j].hi
		r, err := c.TLC("TraceLspServer", lib.TLCRun{Dir: dir, Module: "TraceLspServer", Workers: 1, Timeout: 10 * time.Minute, HeapGB: 3,
			Files: map[string][]byte{"traces.ndjson": lib.NDJSON(traces[lo:hi])}})
		mu.Lock()
		defer mu.Unlock()
		if err != nil {
			if firstErr == nil {
				firstErr = err
			}
			return
		}
		if r.ErrKind != "" {
			if firstErr == nil {
				firstErr = lib.Infra("TraceLspServer reported %s (%s): it must print verdicts, not fail", r.ErrKind, r.Err)
			}
			return
		}
		for _, t := range r.Tagged("DONE") {
			if k, ok := t[0].(int64); ok {
				done[lo+int(k)-1] = true
			}
		}
		for _, t := range r.Tagged("AT") {
			k, ok1 := t[0].(int64)
			p, ok2 := t[1].(int64)
			why, _ := t[2].(string)
			if ok1 && ok2 {
				i := lo + int(k) - 1
				if complaints[i] == nil {
					complaints[i] = map[complaint]bool{}
				}
				complaints[i][complaint{int(p), why}] = true
			}
		}
	})
	if firstErr != nil {
		return firstErr
	}
	c.AddTraces(len(traces))
	classes := map[string]int{}
	for i, tr := range traces {
		for _, e := range tr.Ev {
			c.Distinct(e)
		}
		if done[i] && len(complaints[i]) == 0 {
			classes["accepted"]++
			continue
		}
		if !done[i] && len(complaints[i]) == 0 {
			return lib.Infra("TraceLspServer gave no verdict for session %d", i)
		}
		var cs []complaint
		for k := range complaints[i] {
			cs = append(cs, k)
		}
		sort.Slice(cs, func(a, b int) bool { return cs[a].at < cs[b].at || (cs[a].at == cs[b].at && cs[a].why < cs[b].why) })
		if !done[i] {
			// a branch that stops early prints its stopping point; with branching (several owed
			// publications match) only the furthest stop is the verdict
			last := cs[len(cs)-1]
			var keep []complaint
			for _, k := range cs {
				if isReplyComplaint(k.why) || k == last {
					keep = append(keep, k)
				}
			}
			cs = keep
		}
		for _, v := range cs {
			if v.why == "at-table-mismatch" {
				return lib.Infra("session %d: %s at event %d", i, v.why, v.at)
			}
			classes[v.why]++
			evText := "(end of trace)"
			if v.at < len(tr.Ev) {
				b, _ := json.Marshal(tr.Ev[v.at])
				evText = tail(string(b), 400)
			}
			key := v.why
			switch {
			case strings.HasPrefix(key, "crlf-linestart:"):
			case key == "stale-final-publication":
				key = "publish-stale-final"
			default:
				key = "session:" + v.why
			}
			c.Reject(key, fmt.Sprintf("recorded session is not a behaviour of LspServer: at event %d of %d: %s: %s %s", v.at+1, len(tr.Ev), v.why, evText, tr.note),
				storedTrace{Script: tr.script, Ev: tr.Ev})
		}
	}
	keys := []string{}
	for k := range classes {
		keys = append(keys, k)
	}
	sort.Strings(keys)
	c.Set("V_verdicts", classes)
	c.Logf("V verdicts: %v", classes)
	if len(traces) > 0 && len(traces[0].Ev) > 2 {
		c.Sample(traces[0].Ev[:3])
	}
	return nil
}
