// C44 — the language server answers every request and maps positions exactly.
//
// M: MCLspPos   reference conversion (UTF-16 units, CR LF one break) is injective, monotone and
//
//	           round-trips on all texts <= N characters; the code-shaped walk is characterised
//	           (deviates exactly at line starts after CR LF; the repaired walk does not).
//	MCLspServer  every interleaving of <= MaxMsgs client messages with the server's Handle and
//	           Publish steps: responses in order, once; quiescence => nothing missing; liveness.
//
// G: MCLspGen prints, for every text <= N symbols over {a, b, A, CR, LF, nop}, the position of
//
//	every boundary and, for a grid of positions one beyond the text, the boundary the conversion
//	must return and the hover documentation prescribed there.  Every text is opened / changed
//	on a REAL JSON-RPC connection to the server subprogram; every grid position is sent as a
//	hover and a completion request (pipelined); index -> position is observed through the
//	diagnostics of variants of the text that carry parse errors.
//
// V: random sessions (3 uris, random documents with mixed line endings, parse errors, documented
//
//	words; bursts of pipelined requests, unknown documents) are recorded at the wire and judged
//	by TLC against TraceLspServer.
package main

import (
	"encoding/json"
	"fmt"
	"hash/fnv"
	"os"
	"sort"
	"strings"
	"sync"
	"time"

	"src.elv.sh/pkg/edit/complete"
	"src.elv.sh/pkg/eval"
	"src.elv.sh/pkg/mods/doc"
	"src.elv.sh/pkg/parse"
	"verif.local/harness/lib"
)

func main() {
	if len(os.Args) > 1 && os.Args[1] == serverArg {
		serverMain()
		return
	}
	lib.Main("C44", run)
}

// ---- concretisation of symbols
var words = []string{"nop", "put", "echo", "each"}

// completable prefixes (LspPos Prefixes): plain ASCII runs for which the completer has candidates
var prefixes = []string{"ech", "$pa", "pu"}

func isWord(s string) bool {
	for _, w := range words {
		if s == w {
			return true
		}
	}
	return false
}

type repSet struct{ a, b, A string }

var repSets = []repSet{{"x", "你", "😀"}, {"y", "€", "𝄞"}}

func concretise(sym []string, r repSet) string {
	var sb strings.Builder
	for _, s := range sym {
		switch s {
		case "a":
			sb.WriteString(r.a)
		case "b":
			sb.WriteString(r.b)
		case "A":
			sb.WriteString(r.A)
		case "CR":
			sb.WriteString("\r")
		case "LF":
			sb.WriteString("\n")
		default:
			sb.WriteString(s)
		}
	}
	return sb.String()
}

// ---- primitives evaluated by the executor (declared in the evidence assumptions)

// parseErrs: the byte ranges of the parse errors of a text, from the real parser.
func parseErrs(uri, text string) [][2]int {
	_, err := parse.Parse(parse.Source{Name: uri, Code: text}, parse.Config{})
	out := [][2]int{}
	for _, e := range parse.UnpackErrors(err) {
		r := e.Range()
		out = append(out, [2]int{r.From, r.To})
	}
	return out
}

// completer: the real completion algorithm at a byte offset, as the server configures it.
type compResult struct {
	Labels []string
	From   int
	To     int
}

type completer struct {
	ev    *eval.Evaler
	cache map[string]compResult
}

func newCompleter() *completer { return &completer{eval.NewEvaler(), map[string]compResult{}} }

func (cp *completer) at(text string, off int) compResult {
	key := fmt.Sprintf("%d|%s", off, text)
	if r, ok := cp.cache[key]; ok {
		return r
	}
	var out compResult
	res, err := complete.Complete(complete.CodeBuffer{Content: text, Dot: off}, cp.ev, complete.Config{})
	if err == nil {
		for _, it := range res.Items {
			out.Labels = append(out.Labels, it.ToInsert)
		}
		out.From, out.To = res.Replace.From, res.Replace.To
	}
	if len(cp.cache) > 20000 {
		cp.cache = map[string]compResult{}
	}
	cp.cache[key] = out
	return out
}

func labelHash(labels []string) int {
	h := fnv.New32a()
	for _, l := range labels {
		h.Write([]byte(l))
		h.Write([]byte{0})
	}
	return int(h.Sum32() & 0x3fffffff)
}

var docOf = map[string]string{} // documentation markdown -> command name

func init() {
	for _, w := range words {
		if md, err := doc.Source(w); err == nil {
			docOf[md] = w
		}
	}
}

// hoverClass projects a hover result: "null", the documented command name, or "other".
func hoverClass(result json.RawMessage) string {
	if len(result) == 0 || string(result) == "null" {
		return "null"
	}
	var h lspHover
	if json.Unmarshal(result, &h) != nil {
		return "malformed"
	}
	if w, ok := docOf[h.Contents.Value]; ok {
		return w
	}
	return "other"
}

// ---- server environment: the executor's own completer must see what the server child sees
func inServerEnv(dir string, f func()) error {
	oldPath := os.Getenv("PATH")
	oldWd, err := os.Getwd()
	if err != nil {
		return err
	}
	os.Setenv("PATH", dir)
	if err := os.Chdir(dir); err != nil {
		return err
	}
	defer func() {
		os.Setenv("PATH", oldPath)
		os.Chdir(oldWd)
	}()
	f()
	return nil
}

func tail(s string, n int) string {
	if len(s) > n {
		return "..." + s[len(s)-n:]
	}
	return s
}

func run(c *lib.Ctx) error {
	dir := c.SpecDir("Lsp")
	if len(docOf) != len(words) {
		return lib.Infra("doc.Source does not know all of %v", words)
	}
	empty, err := os.MkdirTemp("", "vlsp-")
	if err != nil {
		return lib.Infra("%v", err)
	}
	defer os.RemoveAll(empty)
	if c.Replay != "" {
		return replay(c, dir, empty)
	}
	N := c.Pick(4, 5)
	NG := c.Pick(4, 5)
	maxMsgs := c.Pick(2, 3)
	c.Set("rule", "G: a case is (text, position, request kind) or (text variant, published diagnostics); distinct by (symbols, l, c, kind) / variant text; V: an event of a recorded session; requests at positions that are not Required and on error-carrying documents count as non-trivial only for 'a reply arrives'")
	c.Set("bounds", map[string]any{"MCLspPos_N": N, "MCLspGen_N_symbols": NG, "MCLspServer_MaxMsgs": maxMsgs,
		"alphabet": "a (ASCII), b (BMP, 3 bytes), A (astral, 4 bytes, 2 units), CR, LF, nop (documented command word)"})

	// ---- M (two models) and the G enumeration run side by side
	var rPos, rSrv, rGen, rRace *lib.TLCResult
	var ePos, eSrv, eGen, eRace error
	var wg sync.WaitGroup
	wg.Add(3)
	go func() {
		defer wg.Done()
		rPos, ePos = c.TLC("MCLspPos", lib.TLCRun{Dir: dir, Module: "MCLspPos", Workers: 4, Timeout: 12 * time.Minute,
			Files: map[string][]byte{"MCLspPos.cfg": []byte(fmt.Sprintf("CONSTANT N = %d\nINIT Init\nNEXT Next\nINVARIANT Theorems\n", N))}})
	}()
	go func() {
		defer wg.Done()
		rSrv, eSrv = c.TLC("MCLspServer", lib.TLCRun{Dir: dir, Module: "MCLspServer", Workers: 2, Timeout: 12 * time.Minute, Coverage: false,
			Files: map[string][]byte{"MCLspServer.cfg": []byte(fmt.Sprintf("CONSTANT MaxMsgs = %d\nCONSTANT Ordered = TRUE\nSPECIFICATION Spec\nINVARIANT InOrderOnce\nINVARIANT NoDuplicatePublish\nINVARIANT QuiescentComplete\nINVARIANT Causal\nINVARIANT ReplyAtLineStart\nINVARIANT FinalPublishFresh\nPROPERTY EventuallyQuiescent\n", maxMsgs))}})
		if eSrv != nil || rSrv.ErrKind != "" || c.Quick() {
			return
		}
		// the design of the code (publications race): TLC is expected to find the stale final
		// publication in the model; that is a candidate, confirmed or not on the real server below
		rRace, eRace = c.TLC("MCLspServer-racing", lib.TLCRun{Dir: dir, Module: "MCLspServer", Workers: 2, Timeout: 12 * time.Minute,
			Files: map[string][]byte{"MCLspServer.cfg": []byte("CONSTANT MaxMsgs = 2\nCONSTANT Ordered = FALSE\nSPECIFICATION Spec\nINVARIANT FinalPublishFresh\n")}})
	}()
	go func() {
		defer wg.Done()
		rGen, eGen = c.TLC("MCLspGen", lib.TLCRun{Dir: dir, Module: "MCLspGen", Workers: 4, Timeout: 12 * time.Minute,
			Files: map[string][]byte{"MCLspGen.cfg": []byte(fmt.Sprintf("CONSTANT N = %d\nINIT GInit\nNEXT GNext\nINVARIANT GridSound\nINVARIANT Emit\n", NG))}})
	}()
	wg.Wait()
	for _, e := range []error{ePos, eSrv, eGen, eRace} {
		if e != nil {
			return e
		}
	}
	if rPos.ErrKind != "" {
		return lib.Infra("position model: theorem fails in the model itself: %s\n%s", rPos.Err, rPos.ErrTrace)
	}
	if rSrv.ErrKind != "" {
		return lib.Infra("server model: property fails in the model itself: %s\n%s", rSrv.Err, rSrv.ErrTrace)
	}
	if rGen.ErrKind != "" {
		return lib.Infra("generator model inconsistent: %s\n%s", rGen.Err, rGen.ErrTrace)
	}
	if rRace != nil {
		c.Set("model_candidate_racing_publications", rRace.ErrKind == "invariant" && rRace.ErrName == "FinalPublishFresh")
	}
	c.Logf("models: MCLspPos %d states, MCLspServer %d states, MCLspGen %d states", rPos.Distinct, rSrv.Distinct, rGen.Distinct)

	// ---- G
	seen := map[string]bool{}
	var texts []genText
	for _, s := range rGen.PrintedStrings() {
		var gt genText
		if err := json.Unmarshal([]byte(s), &gt); err != nil {
			return lib.Infra("bad case from TLC: %v: %s", err, tail(s, 300))
		}
		k := strings.Join(gt.Sym, ",")
		if seen[k] {
			continue
		}
		seen[k] = true
		texts = append(texts, gt)
	}
	if int64(2*len(texts)) != rGen.Distinct {
		return lib.Infra("TLC reported %d states (2 per text), received %d texts", rGen.Distinct, len(texts))
	}
	sort.Slice(texts, func(i, j int) bool { return strings.Join(texts[i].Sym, ",") < strings.Join(texts[j].Sym, ",") })
	// the representative characters of each text are chosen by the seed
	for i := range texts {
		texts[i].Rep = c.Rand.Intn(len(repSets))
	}
	var gerr error
	var ccases []compCase
	if err := inServerEnv(empty, func() { ccases, gerr = replayGenerated(c, empty, texts) }); err != nil {
		return lib.Infra("%v", err)
	}
	if gerr != nil {
		return gerr
	}
	if err := judgeCompletions(c, dir, ccases, len(texts) > 50); err != nil {
		return err
	}
	c.Set("generated_texts", len(texts))
	c.Set("exhaustive", true)

	// ---- V
	var traces []trace
	var verr error
	if err := inServerEnv(empty, func() { traces, verr = recordSessions(c, empty) }); err != nil {
		return lib.Infra("%v", err)
	}
	if verr != nil {
		return verr
	}
	if err := judgeTraces(c, dir, traces); err != nil {
		return err
	}
	c.Assume("TLC is trusted. Primitives evaluated by the executor and given to the specification as data: the parse-error byte ranges of a text (parse.Parse), the completion candidates and replace range at a byte offset (complete.Complete with a fresh Evaler and the default Config, in the same empty directory and with the same PATH as the server child), the documentation text of a builtin (doc.Source)")
	c.Assume("the offset between CR and LF has no position of its own: index -> position must give the start of the next line (the next offset that has a position), so that a non-empty byte range stays a non-empty position range")
	c.Assume("Unspecified and accepted either way: which character boundary a position past the end of a line / past the last line / between surrogate halves is normalised to (a completion reply must be the completion at one of them); result or error for an unknown document; order of publications; hover content except inside an isolated documented command word on an error-free document")
	return nil
}

// ---- replay of a stored case: a generated text (G) or a recorded session's inputs (V)
func replay(c *lib.Ctx, dir, empty string) error {
	b, err := os.ReadFile(c.Replay)
	if err != nil {
		return lib.Infra("%v", err)
	}
	var f struct {
		Case json.RawMessage `json:"case"`
	}
	if err := json.Unmarshal(b, &f); err != nil {
		return lib.Infra("%v", err)
	}
	var gt genText
	if json.Unmarshal(f.Case, &gt) == nil && gt.Pos != nil {
		var gerr error
		var ccases []compCase
		if err := inServerEnv(empty, func() { ccases, gerr = replayGenerated(c, empty, []genText{gt}) }); err != nil {
			return lib.Infra("%v", err)
		}
		if gerr != nil {
			return gerr
		}
		return judgeCompletions(c, dir, ccases, false)
	}
	var st storedTrace
	if err := json.Unmarshal(f.Case, &st); err != nil || st.Script == nil {
		return lib.Infra("unrecognised replay file")
	}
	var tr trace
	var verr error
	if err := inServerEnv(empty, func() { tr, verr = runScript(c, empty, st.Script) }); err != nil {
		return lib.Infra("%v", err)
	}
	if verr != nil {
		return verr
	}
	return judgeTraces(c, dir, []trace{tr})
}
