package main

// A minimal JSON-RPC 2.0 client over the LSP base protocol (Content-Length framing), written
// here instead of using a client library so that the executor sees the raw wire: the order of
// responses, duplicate or missing responses, notifications in between, and a dying server.
//
// The server is the real language-server subprogram (src.elv.sh/pkg/lsp Program, run through
// prog.Run exactly like `elvish -lsp`), in a child process (this binary re-executed with the
// argument __lspserver) connected through OS pipes: a crash of the server is an observation,
// not the end of the check.

import (
	"bufio"
	"bytes"
	"encoding/json"
	"fmt"
	"io"
	"os"
	"os/exec"
	"strconv"
	"strings"
	"sync"
	"syscall"
	"time"

	"src.elv.sh/pkg/lsp"
	"src.elv.sh/pkg/prog"
)

const serverArg = "__lspserver"

// serverMain is the child: the language server on stdin/stdout.
func serverMain() {
	os.Exit(prog.Run([3]*os.File{os.Stdin, os.Stdout, os.Stderr}, []string{"elvish", "-lsp"}, &lsp.Program{}))
}

type rpcError struct {
	Code    int    `json:"code"`
	Message string `json:"message"`
}

// wireMsg is anything the server wrote.
type wireMsg struct {
	ID     *json.RawMessage `json:"id"`
	Method string           `json:"method"`
	Params json.RawMessage  `json:"params"`
	Result json.RawMessage  `json:"result"`
	Error  *rpcError        `json:"error"`
	raw    []byte
}

func (m *wireMsg) isResponse() bool { return m.Method == "" }
func (m *wireMsg) id() int {
	if m.ID == nil {
		return -1
	}
	n, err := strconv.Atoi(strings.TrimSpace(string(*m.ID)))
	if err != nil {
		return -1
	}
	return n
}

type session struct {
	cmd    *exec.Cmd
	in     io.WriteCloser
	msgs   chan *wireMsg // closed when the server's stdout ends
	stderr *syncBuf
	wmu    sync.Mutex
	nextID int
	sent   int // messages written
}

type syncBuf struct {
	mu sync.Mutex
	b  bytes.Buffer
}

func (s *syncBuf) Write(p []byte) (int, error) {
	s.mu.Lock()
	defer s.mu.Unlock()
	if s.b.Len() < 1<<16 {
		s.b.Write(p)
	}
	return len(p), nil
}
func (s *syncBuf) String() string { s.mu.Lock(); defer s.mu.Unlock(); return s.b.String() }

// startServer launches the server child in dir (its working directory) with PATH = dir.
func startServer(dir string) (*session, error) {
	exe, err := os.Executable()
	if err != nil {
		return nil, err
	}
	cmd := exec.Command(exe, serverArg)
	cmd.Dir = dir
	cmd.Env = append(os.Environ(), "PATH="+dir, "HOME="+dir, "XDG_CONFIG_HOME="+dir, "XDG_DATA_HOME="+dir, "XDG_STATE_HOME="+dir)
	cmd.SysProcAttr = &syscall.SysProcAttr{Pdeathsig: syscall.SIGKILL}
	in, err := cmd.StdinPipe()
	if err != nil {
		return nil, err
	}
	out, err := cmd.StdoutPipe()
	if err != nil {
		return nil, err
	}
	s := &session{cmd: cmd, in: in, msgs: make(chan *wireMsg, 4096), stderr: &syncBuf{}}
	cmd.Stderr = s.stderr
	if err := cmd.Start(); err != nil {
		return nil, err
	}
	go func() {
		defer close(s.msgs)
		r := bufio.NewReaderSize(out, 1<<16)
		for {
			n := -1
			for {
				l, err := r.ReadString('\n')
				if err != nil {
					return
				}
				l = strings.TrimSpace(l)
				if l == "" {
					break
				}
				if i := strings.IndexByte(l, ':'); i > 0 && strings.EqualFold(l[:i], "Content-Length") {
					n, _ = strconv.Atoi(strings.TrimSpace(l[i+1:]))
				}
			}
			if n < 0 {
				return
			}
			buf := make([]byte, n)
			if _, err := io.ReadFull(r, buf); err != nil {
				return
			}
			m := &wireMsg{raw: buf}
			if err := json.Unmarshal(buf, m); err != nil {
				m.Method = "!unparsable"
			}
			s.msgs <- m
		}
	}()
	// LSP handshake
	id := s.request("initialize", map[string]any{})
	m, st := s.recv(30 * time.Second)
	if st != "ok" || m.id() != id || m.Error != nil {
		s.kill()
		return nil, fmt.Errorf("initialize failed: %v; stderr: %s", m, s.stderr.String())
	}
	s.notify("initialized", map[string]any{})
	return s, nil
}

func (s *session) write(v any) {
	b, _ := json.Marshal(v)
	s.wmu.Lock()
	defer s.wmu.Unlock()
	s.sent++
	fmt.Fprintf(s.in, "Content-Length: %d\r\n\r\n", len(b))
	s.in.Write(b)
}

func (s *session) notify(method string, params any) {
	s.write(map[string]any{"jsonrpc": "2.0", "method": method, "params": params})
}

// request writes a request and returns its id. It does not wait.
func (s *session) request(method string, params any) int {
	s.nextID++
	id := s.nextID
	s.write(map[string]any{"jsonrpc": "2.0", "id": id, "method": method, "params": params})
	return id
}

// recv returns the next message the server wrote. status: "ok", "eof" (the server's output
// ended: it died or closed the connection) or "timeout" (nothing arrived within the limit).
func (s *session) recv(limit time.Duration) (*wireMsg, string) {
	select {
	case m, ok := <-s.msgs:
		if !ok {
			return nil, "eof"
		}
		return m, "ok"
	case <-time.After(limit):
		return nil, "timeout"
	}
}

func (s *session) kill() {
	s.in.Close()
	if s.cmd.Process != nil {
		s.cmd.Process.Kill()
	}
	s.cmd.Wait()
}

// close ends the session politely (closing stdin ends the connection) and reports how the child exited.
func (s *session) close() string {
	s.in.Close()
	done := make(chan error, 1)
	go func() { done <- s.cmd.Wait() }()
	select {
	case err := <-done:
		if err != nil {
			return err.Error()
		}
		return ""
	case <-time.After(10 * time.Second):
		s.cmd.Process.Kill()
		<-done
		return "did not exit after the connection was closed"
	}
}

// ---- LSP parameter shapes (plain maps: the executor speaks the protocol, not the server's Go types)

func docItem(uri, text string) map[string]any {
	return map[string]any{"textDocument": map[string]any{"uri": uri, "languageId": "elvish", "version": 1, "text": text}}
}

func docChange(uri, text string) map[string]any {
	return map[string]any{"textDocument": map[string]any{"uri": uri, "version": 2},
		"contentChanges": []any{map[string]any{"text": text}}}
}

func docPos(uri string, l, c int) map[string]any {
	return map[string]any{"textDocument": map[string]any{"uri": uri}, "position": map[string]any{"line": l, "character": c}}
}

type lspPos struct {
	Line      int `json:"line"`
	Character int `json:"character"`
}
type lspRange struct {
	Start lspPos `json:"start"`
	End   lspPos `json:"end"`
}
type lspDiag struct {
	Range lspRange `json:"range"`
}
type lspPublish struct {
	URI         string    `json:"uri"`
	Diagnostics []lspDiag `json:"diagnostics"`
}
type lspItem struct {
	Label    string `json:"label"`
	TextEdit *struct {
		Range   lspRange `json:"range"`
		NewText string   `json:"newText"`
	} `json:"textEdit"`
}
type lspHover struct {
	Contents struct {
		Kind  string `json:"kind"`
		Value string `json:"value"`
	} `json:"contents"`
}
