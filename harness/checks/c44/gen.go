package main

// G: texts enumerated by MCLspGen, with the prescribed tables, replayed over the wire.

import (
	"encoding/json"
	"fmt"
	"strings"
	"sync"
	"time"

	"verif.local/harness/lib"
)

type gridPos struct {
	L    int    `json:"l"`
	C    int    `json:"c"`
	K    int    `json:"k"` // boundary the conversion must return; -1 = Unspecified
	W    string `json:"w"` // documentation a hover must show ("" = not prescribed)
	CRLF bool   `json:"crlf"`
}

// genText is one text printed by MCLspGen.
type genText struct {
	Sym  []string  `json:"sym"`
	Off  []int     `json:"off"` // byte offset of boundary k at index k
	Pos  [][2]int  `json:"pos"` // reference position of boundary k
	Mid  []bool    `json:"mid"` // boundary k is inside a CR LF pair
	Grid []gridPos `json:"grid"`
	Rep  int       `json:"rep"`
}

func (gt *genText) boundaryOf(off int) int {
	for k, o := range gt.Off {
		if o == off {
			return k
		}
	}
	return -1
}

// posOK: is p the position prescribed for boundary k (PosOKT)?
func (gt *genText) posOK(k int, p lspPos) bool {
	if k < 0 || k >= len(gt.Pos) {
		return false
	}
	return p.Line == gt.Pos[k][0] && p.Character == gt.Pos[k][1]
}

// boundaryKind names what surrounds boundary k (coverage evidence only: which kinds of offsets
// the ends of parse-error ranges reached).
func (gt *genText) boundaryKind(k int) string {
	var exp []string
	for _, s := range gt.Sym {
		if isWord(s) {
			for range s {
				exp = append(exp, "a")
			}
		} else {
			exp = append(exp, s)
		}
	}
	prev, next := "start", "end"
	if k > 0 && k <= len(exp) {
		prev = exp[k-1]
	}
	if k < len(exp) {
		next = exp[k]
	}
	if k < len(gt.Mid) && gt.Mid[k] {
		return "between-CR-and-LF"
	}
	return prev + "|" + next
}

// diagOK: the published ranges are exactly the converted error ranges (DiagOK).
func (gt *genText) diagOK(errs [][2]int, diags []lspDiag) bool {
	if len(errs) != len(diags) {
		return false
	}
	match := func(e [2]int, d lspDiag) bool {
		return gt.posOK(gt.boundaryOf(e[0]), d.Range.Start) && gt.posOK(gt.boundaryOf(e[1]), d.Range.End)
	}
	for _, e := range errs {
		ok := false
		for _, d := range diags {
			ok = ok || match(e, d)
		}
		if !ok {
			return false
		}
	}
	for _, d := range diags {
		ok := false
		for _, e := range errs {
			ok = ok || match(e, d)
		}
		if !ok {
			return false
		}
	}
	return true
}

// variants: concretisations of the same symbols in which ASCII characters are replaced by
// characters that make the parser report errors (the abstract text, hence every table, is the same).
func variants(sym []string, r repSet) []string {
	var out []string
	var idx []int
	for i, s := range sym {
		if s == "a" {
			idx = append(idx, i)
		}
	}
	mk := func(repl map[int]string) string {
		var sb strings.Builder
		for i, s := range sym {
			if ch, ok := repl[i]; ok {
				sb.WriteString(ch)
			} else {
				sb.WriteString(concretise([]string{s}, r))
			}
		}
		return sb.String()
	}
	// one error-making character at each ASCII position: an unmatched closer, and incomplete
	// constructs whose error is reported on / after the FOLLOWING character -- placed directly
	// before CR LF, CR, LF, a multi-byte character or the end of the text this puts the ends of
	// parse-error ranges on every kind of offset
	for _, i := range idx {
		for _, ch := range []string{")", "$", ">", "(", "'", "\"", "{"} {
			out = append(out, mk(map[int]string{i: ch}))
		}
	}
	for n, i := range idx { // two- and three-character constructs on adjacent ASCII positions
		if n+1 < len(idx) && idx[n+1] == i+1 {
			out = append(out, mk(map[int]string{i: "<", i + 1: "&"}), mk(map[int]string{i: " ", i + 1: ">"}))
			if n+2 < len(idx) && idx[n+2] == i+2 {
				out = append(out, mk(map[int]string{i: "{", i + 1: "|", i + 2: "&"}), mk(map[int]string{i: "x", i + 1: " ", i + 2: ">"}))
			}
		}
	}
	if len(idx) > 1 { // several errors
		all := map[int]string{}
		for _, i := range idx {
			all[i] = ")"
		}
		out = append(out, mk(all))
	}
	return out
}

// compCase is a completion reply at a position that is not Required, recorded for the TLC case
// walker JudgeLspCompletion (the reply must be the completion at SOME character boundary).
type compCase struct {
	Sym []string  `json:"sym"`
	L   int       `json:"l"`
	C   int       `json:"c"`
	At  []atEntry `json:"at"`
	Cls string    `json:"cls"`
	Cmp cmpRec    `json:"cmp"`
	// not read by the judge
	text string
	gt   *genText
}

type genWorker struct {
	cases       []compCase
	c           *lib.Ctx
	dir         string
	s           *session
	cp          *completer
	uriN        int
	uri         string
	id          int // worker number
	phase       int // which third of the Unspecified positions gets a completion request
	nPrefix     int
	symOverride []string // symbols of the text being replayed when a word was swapped (prefix pass)
	missing     int      // publications that never came (the worker stops after a few: each costs publishLimit)
	stats       map[string]int
}

func (w *genWorker) ensureServer() error {
	if w.s != nil {
		return nil
	}
	s, err := startServer(w.dir)
	if err != nil {
		return lib.Infra("cannot start the language server child: %v", err)
	}
	w.s = s
	w.uri = ""
	return nil
}

// crashed reports the death of the server as a rejection and forgets the session.
func (w *genWorker) crashed(what string, replayCase any) {
	errText := tail(w.s.stderr.String(), 1500)
	w.s.kill()
	w.s = nil
	cls := "exit"
	if strings.Contains(errText, "panic:") {
		cls = "panic"
	}
	w.c.Reject("crash:"+cls+":"+what, fmt.Sprintf("the server died while %s; stderr: %s", what, errText), replayCase)
}

// openOrChange sends the text: alternately as didOpen of a fresh uri and didChange of the last one.
func (w *genWorker) openOrChange(text string) {
	if w.uri == "" || w.uriN%2 == 0 {
		w.uriN++
		w.uri = fmt.Sprintf("file:///w%d/doc%d.elv", w.id, w.uriN)
		w.s.notify("textDocument/didOpen", docItem(w.uri, text))
		w.stats["open"]++
	} else {
		w.uriN++
		w.s.notify("textDocument/didChange", docChange(w.uri, text))
		w.stats["change"]++
	}
}

// recvLimit: how long the executor waits for the next message while requests are outstanding (a
// hang = exit 2). publishLimit: how long it waits for a publication once every response has
// arrived, i.e. when the server is idle (its absence then is an observation, not a timing matter).
const recvLimit = 60 * time.Second
const publishLimit = 20 * time.Second

func (w *genWorker) replayText(gt genText) error {
	c := w.c
	symKey := strings.Join(gt.Sym, ",")
	r := repSets[gt.Rep%len(repSets)]
	text := concretise(gt.Sym, r)
	if len(gt.Off) == 0 || gt.Off[len(gt.Off)-1] != len(text) {
		return lib.Infra("text %q: TLC byte length %v, concrete %d", text, gt.Off, len(text))
	}
	if err := w.ensureServer(); err != nil {
		return err
	}
	errs := parseErrs("x", text)
	w.openOrChange(text)
	type pending struct {
		kind string
		g    gridPos
	}
	want := map[int]pending{}
	var order []int
	for _, g := range gt.Grid {
		id := w.s.request("textDocument/hover", docPos(w.uri, g.L, g.C))
		want[id] = pending{"hover", g}
		order = append(order, id)
		// completion at every Required position; at the others (only "a reply arrives" is
		// demanded there, and the reply is usually the full command list) at a seed-chosen third
		if g.K < 0 && (g.L+g.C+w.phase)%3 != 0 {
			continue
		}
		id = w.s.request("textDocument/completion", docPos(w.uri, g.L, g.C))
		want[id] = pending{"completion", g}
		order = append(order, id)
	}
	c.AddEvals(len(order) + 1)
	nResp, nPub := 0, 0
	for nResp < len(order) || nPub < 1 {
		limit := recvLimit
		if nResp == len(order) {
			limit = publishLimit
		}
		m, st := w.s.recv(limit)
		if st == "eof" {
			what := "handling didOpen/didChange"
			if nResp < len(order) {
				p := want[order[nResp]]
				what = fmt.Sprintf("handling %s", p.kind)
			}
			w.crashed(what, gt)
			return nil
		}
		if st == "timeout" {
			if nResp < len(order) {
				return lib.Infra("no message from the server for %s (text %q, %d of %d responses)", recvLimit, text, nResp, len(order))
			}
			c.Reject("publish-missing", fmt.Sprintf("no publishDiagnostics for %q within %s after all responses", text, publishLimit), gt)
			w.missing++
			return nil
		}
		if !m.isResponse() {
			if m.Method != "textDocument/publishDiagnostics" {
				c.Reject("unexpected-message:"+m.Method, fmt.Sprintf("server wrote %s", tail(string(m.raw), 300)), gt)
				continue
			}
			var p lspPublish
			if json.Unmarshal(m.Params, &p) != nil || p.URI != w.uri {
				c.Reject("publish-malformed", fmt.Sprintf("publishDiagnostics for %q: %s", text, tail(string(m.raw), 300)), gt)
				nPub++
				continue
			}
			nPub++
			if nPub > 1 {
				c.Reject("publish-duplicate", fmt.Sprintf("second publishDiagnostics for one didOpen/didChange of %q", text), gt)
			}
			if !gt.diagOK(errs, p.Diagnostics) {
				c.Reject("diag:"+symKey, fmt.Sprintf("text %q has parse errors at bytes %v; published ranges %+v; reference positions %v", text, errs, p.Diagnostics, gt.Pos), gt)
			}
			continue
		}
		// a response: must be the oldest unanswered request
		if nResp >= len(order) || m.id() != order[nResp] {
			c.Reject("response-order", fmt.Sprintf("text %q: response id %d, expected id %v (response %d of %d)", text, m.id(), func() any {
				if nResp < len(order) {
					return order[nResp]
				}
				return "none"
			}(), nResp+1, len(order)), gt)
			return w.resync()
		}
		nResp++
		p := want[m.id()]
		w.checkReply(gt, text, errs, p.kind, p.g, m)
	}
	c.AddTraces(1)
	c.Distinct("text:" + symKey)
	w.stats["grid-requests"] += len(order)

	// index -> position through diagnostics of error-carrying variants
	for _, v := range variants(gt.Sym, r) {
		verrs := parseErrs("x", v)
		for _, e := range verrs {
			if gt.boundaryOf(e[0]) < 0 || gt.boundaryOf(e[1]) < 0 {
				return lib.Infra("parse error range %v of %q is not on character boundaries", e, v)
			}
		}
		w.openOrChange(v)
		c.AddEvals(1)
		m, st := w.s.recv(publishLimit)
		if st == "eof" {
			w.crashed("handling didOpen/didChange", map[string]any{"text": v})
			return nil
		}
		if st == "timeout" {
			c.Reject("publish-missing", fmt.Sprintf("no publishDiagnostics for %q within %s", v, publishLimit), gt)
			w.missing++
			return w.resync()
		}
		var p lspPublish
		if m.isResponse() || m.Method != "textDocument/publishDiagnostics" || json.Unmarshal(m.Params, &p) != nil || p.URI != w.uri {
			c.Reject("publish-malformed", fmt.Sprintf("after change to %q the server wrote %s", v, tail(string(m.raw), 300)), gt)
			return w.resync()
		}
		if !gt.diagOK(verrs, p.Diagnostics) {
			c.Reject("diag:"+symKey, fmt.Sprintf("text %q has parse errors at bytes %v; published ranges %+v; prescribed positions of the boundaries %v (inside CR LF: %v)", v, verrs, p.Diagnostics, gt.Pos, gt.Mid), gt)
		}
		w.stats["diag-variants"]++
		w.stats["diag-ranges"] += len(verrs)
		for _, e := range verrs {
			w.stats["diag-start:"+gt.boundaryKind(gt.boundaryOf(e[0]))]++
			w.stats["diag-end:"+gt.boundaryKind(gt.boundaryOf(e[1]))]++
		}
		c.Distinct("variant:" + v)
	}
	return w.prefixPass(gt, r)
}

// prefixPass: the same text with the command word swapped for a completable prefix of the same
// length ("ech", "$pa": the tables stay valid), completion requested at EVERY grid position, so
// that replies with candidates exist at positions the server has to normalise.
func (w *genWorker) prefixPass(gt genText, r repSet) error {
	c := w.c
	hasWord := false
	for _, s := range gt.Sym {
		hasWord = hasWord || s == "nop"
	}
	if !hasWord {
		return nil
	}
	// one of the two prefixes per text (which one alternates with the text and the seed)
	w.nPrefix++
	for _, pw := range []string{[]string{"ech", "$pa"}[(w.nPrefix+w.phase)%2]} {
		sym := make([]string, len(gt.Sym))
		for i, s := range gt.Sym {
			sym[i] = s
			if s == "nop" {
				sym[i] = pw
			}
		}
		text := concretise(sym, r)
		if w.s == nil {
			if err := w.ensureServer(); err != nil {
				return err
			}
		}
		errs := parseErrs("x", text)
		w.openOrChange(text)
		var order []int
		want := map[int]gridPos{}
		for _, g := range gt.Grid {
			id := w.s.request("textDocument/completion", docPos(w.uri, g.L, g.C))
			want[id] = g
			order = append(order, id)
		}
		c.AddEvals(len(order) + 1)
		w.symOverride = sym
		nResp, nPub := 0, 0
		for nResp < len(order) || nPub < 1 {
			limit := recvLimit
			if nResp == len(order) {
				limit = publishLimit
			}
			m, st := w.s.recv(limit)
			if st == "eof" {
				w.symOverride = nil
				w.crashed("handling completion", map[string]any{"text": text})
				return nil
			}
			if st == "timeout" {
				w.symOverride = nil
				if nResp < len(order) {
					return lib.Infra("no message from the server for %s (text %q, %d of %d responses)", recvLimit, text, nResp, len(order))
				}
				c.Reject("publish-missing", fmt.Sprintf("no publishDiagnostics for %q within %s after all responses", text, publishLimit), gt)
				w.missing++
				return nil
			}
			if !m.isResponse() {
				nPub++
				continue
			}
			if m.id() != order[nResp] {
				w.symOverride = nil
				c.Reject("response-order", fmt.Sprintf("text %q: response id %d, expected id %d", text, m.id(), order[nResp]), gt)
				return w.resync()
			}
			nResp++
			w.checkReply(gt, text, errs, "completion", want[m.id()], m)
		}
		w.symOverride = nil
		w.stats["prefix-texts"]++
		w.stats["grid-requests"] += len(order)
		c.Distinct("prefix:" + text)
	}
	return nil
}

// resync drops the session after a protocol-level surprise so that later texts start clean.
func (w *genWorker) resync() error {
	if w.s != nil {
		w.s.kill()
		w.s = nil
	}
	return nil
}

func (w *genWorker) checkReply(gt genText, text string, errs [][2]int, kind string, g gridPos, m *wireMsg) {
	c := w.c
	symOf := gt.Sym
	if w.symOverride != nil {
		symOf = w.symOverride
	}
	caseKey := fmt.Sprintf("%s:%s:%d:%d", kind, strings.Join(gt.Sym, ","), g.L, g.C)
	c.Distinct(caseKey)
	classKey := func() string { // the class of a failing case: CR LF line starts are one known class
		if g.CRLF {
			return "crlf-linestart:" + kind
		}
		return caseKey
	}
	if g.K < 0 {
		// Unspecified position: any well-formed reply (result or error)
		w.stats["unspecified-positions"]++
		if m.Error == nil && kind == "completion" {
			cls, cmp := projectCompletion(m.Result)
			if cls == "items" && cmp.N == 0 && (g.L+g.C)%4 != 0 {
				return // an empty reply says little: a quarter of them is judged
			}
			w.cases = append(w.cases, compCase{Sym: symOf, L: g.L, C: g.C, At: atTable(w.cp, text), Cls: cls, Cmp: cmp, text: text, gt: &gt})
			if cmp.N > 0 {
				w.stats["completion-unspecified-with-candidates"]++
			}
		}
		return
	}
	if m.Error != nil {
		c.Reject(classKey(), fmt.Sprintf("%s at (%d,%d) of %q (a character boundary of a known document) answered with error %+v", kind, g.L, g.C, text, *m.Error), gt)
		return
	}
	if kind == "hover" {
		cls := hoverClass(m.Result)
		if cls == "malformed" {
			c.Reject("malformed:hover", fmt.Sprintf("hover at (%d,%d) of %q: result %s", g.L, g.C, text, tail(string(m.Result), 200)), gt)
			return
		}
		if g.W != "" && len(errs) == 0 {
			w.stats["hover-doc-prescribed"]++
			if cls != g.W {
				c.Reject(classKey(), fmt.Sprintf("hover at (%d,%d) of %q: position is byte offset %d, inside the command word %q; the reply is %s, not its documentation", g.L, g.C, text, gt.Off[g.K], g.W, cls), gt)
			}
		}
		return
	}
	// completion at a Required position: the real completer at the prescribed offset
	var items []lspItem
	if err := json.Unmarshal(m.Result, &items); err != nil {
		c.Reject("malformed:completion", fmt.Sprintf("completion at (%d,%d) of %q: result %s", g.L, g.C, text, tail(string(m.Result), 200)), gt)
		return
	}
	exp := w.cp.at(text, gt.Off[g.K])
	w.stats["completion-compared"]++
	if len(exp.Labels) > 0 {
		w.stats["completion-with-candidates"]++
	}
	ok := len(items) == len(exp.Labels)
	for i := 0; ok && i < len(items); i++ {
		ok = items[i].Label == exp.Labels[i]
	}
	if !ok {
		c.Reject(classKey(), fmt.Sprintf("completion at (%d,%d) of %q: position is byte offset %d; %d candidates, the completer at that offset gives %d (%v...)", g.L, g.C, text, gt.Off[g.K], len(items), len(exp.Labels), firstN(exp.Labels, 3)), gt)
		return
	}
	if len(items) > 0 {
		kf, kt := gt.boundaryOf(exp.From), gt.boundaryOf(exp.To)
		for _, it := range items {
			if it.TextEdit == nil || !gt.posOK(kf, it.TextEdit.Range.Start) || !gt.posOK(kt, it.TextEdit.Range.End) {
				c.Reject(classKey(), fmt.Sprintf("completion at (%d,%d) of %q: replace range is bytes [%d,%d]; edit %+v; reference positions %v", g.L, g.C, text, exp.From, exp.To, it.TextEdit, gt.Pos), gt)
				return
			}
		}
	}
}

func firstN(s []string, n int) []string {
	if len(s) > n {
		return s[:n]
	}
	return s
}

func replayGenerated(c *lib.Ctx, emptyDir string, texts []genText) ([]compCase, error) {
	par := 6
	if len(texts) < par {
		par = 1
	}
	var mu sync.Mutex
	var firstErr error
	total := map[string]int{}
	var allCases []compCase
	var wg sync.WaitGroup
	for wi := 0; wi < par; wi++ {
		wg.Add(1)
		go func(wi int) {
			defer wg.Done()
			w := &genWorker{c: c, dir: emptyDir, cp: newCompleter(), id: wi, phase: int(c.Seed % 3), stats: map[string]int{}}
			for i := wi; i < len(texts) && w.missing < 2 && c.Violations() <= 20; i += par { // (more than 20 are not stored anyway)
				if err := w.replayText(texts[i]); err != nil {
					mu.Lock()
					if firstErr == nil {
						firstErr = err
					}
					mu.Unlock()
					break
				}
			}
			if w.s != nil {
				if how := w.s.close(); how != "" {
					c.Reject("crash:shutdown", "the server did not end cleanly when the connection was closed: "+how+"; stderr: "+tail(w.s.stderr.String(), 800), nil)
				}
			}
			mu.Lock()
			for k, v := range w.stats {
				total[k] += v
			}
			allCases = append(allCases, w.cases...)
			mu.Unlock()
		}(wi)
	}
	wg.Wait()
	if firstErr != nil {
		return nil, firstErr
	}
	c.Set("G_counts", total)
	c.Logf("G: %d texts replayed: %v", len(texts), total)
	if len(texts) > 2 {
		c.Sample(map[string]any{"sym": texts[len(texts)/2].Sym, "grid_positions": len(texts[len(texts)/2].Grid)})
	}
	return allCases, nil
}

// judgeCompletions hands the completion replies at positions that are not Required to TLC.
func judgeCompletions(c *lib.Ctx, dir string, cases []compCase, wantCandidates bool) error {
	withItems := 0
	for _, cc := range cases {
		if cc.Cmp.N > 0 {
			withItems++
		}
	}
	c.Set("completion_replies_at_normalised_positions", map[string]int{"judged": len(cases), "with_candidates": withItems})
	if wantCandidates && c.Violations() == 0 && withItems == 0 {
		return lib.Infra("vacuity: no completion reply with candidates at a position that is not Required")
	}
	bad, err := lib.Judge(c, "JudgeLspCompletion", dir, "JudgeLspCompletion", cases, 4, 10*time.Minute)
	if err != nil {
		return err
	}
	c.AddTraces(len(cases))
	c.Logf("G: %d completion replies at normalised positions judged (%d with candidates), %d rejected", len(cases), withItems, len(bad))
	for _, b := range bad {
		cc := cases[b.Index]
		why := "?"
		if len(b.Info) > 0 {
			why = fmt.Sprint(b.Info[0])
		}
		if why == "at-table-mismatch" {
			return lib.Infra("completer table of %q does not fit its symbols %v", cc.text, cc.Sym)
		}
		c.Reject(fmt.Sprintf("completion-normalised:%s:%d:%d", strings.Join(cc.Sym, ","), cc.L, cc.C),
			fmt.Sprintf("completion at (%d,%d) of %q (not a position of the document): %d candidates with edit range %v: %s", cc.L, cc.C, cc.text, cc.Cmp.N, cc.Cmp.Rg, why), cc.gt)
	}
	return nil
}
