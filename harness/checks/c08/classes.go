package main

import (
	"fmt"
	"math"
	"math/big"

	"src.elv.sh/pkg/eval/vals"
	"src.elv.sh/pkg/ui"
	"verif.local/harness/checks/c09/valpool"
)

// The pool of Eq-classes: every class lists differently constructed values that the documentation
// makes eq.  The two representatives of the model (Reps = {1, 2}) are concretised as one value from
// group A and one from group B; which ones is seeded.  A class whose groups differ by the sign of a
// zero carries leaf = "+0.0/-0.0" (structural key of the known finding).

type rep struct {
	desc string
	code string // Elvish expression; evaluated by the real interpreter
	val  any    // or a value built through the Go API
	x    any    // the real value
}

type class struct {
	name string
	a, b []rep
	leaf string
	// conditional: the documentation does NOT make these values eq (NaNs of different origins and bit
	// patterns).  The property is conditional on the real eq: the class is used iff the real eq
	// reports its members equal (then they must be one key); otherwise there is nothing to check.
	conditional bool
}

func code(c string) rep { return rep{desc: c, code: c} }
func goval(desc string, v any) rep {
	return rep{desc: "go:" + desc, val: v}
}

type structAB struct {
	A string
	B string
}

func classPool() []*class {
	two64p1, _ := new(big.Int).SetString("18446744073709551617", 10)
	ctrlA, _ := ui.ParseKey("Ctrl-A")
	return []*class{
		{name: "float-zero", leaf: "+0.0/-0.0",
			a: []rep{code("(num 0.0)"), goval("0.0", 0.0), code("(+ (num 0.0) (num 0.0))"), code("(inexact-num 0)")},
			b: []rep{code("(num -0.0)"), goval("-0.0", math.Copysign(0, -1)), code("(- (num 0.0))"), code("(* (num -1.0) (num 0.0))")}},
		{name: "int-three",
			a: []rep{code("(num 3)"), goval("3", 3)},
			b: []rep{code("(- 5 2)"), code("(exact-num 3.0)"), code("(+ 1 2)"), code("(/ 6 2)")}},
		{name: "rat-half",
			a: []rep{code("(/ 1 2)"), goval("1/2", big.NewRat(1, 2))},
			b: []rep{code("(num 2/4)"), code("(num 1/2)"), code("(exact-num 0.5)"), code("(- 1 1/2)")}},
		{name: "bigint",
			a: []rep{code("(num 18446744073709551617)"), goval("2^64+1", two64p1)},
			b: []rep{code("(+ (num 18446744073709551616) 1)"), code("(+ (* 4294967296 4294967296) 1)"), code("(exact-num 18446744073709551617/1)")}},
		{name: "int-zero",
			a: []rep{code("(num 0)"), goval("0", 0)},
			b: []rep{code("(- 3 3)"), code("(exact-num 0.0)"), code("(* 0 5.5)"), code("(exact-num -0.0)")}},
		{name: "float-1.5",
			a: []rep{code("(num 1.5)"), goval("1.5", 1.5)},
			b: []rep{code("(/ 3.0 2)"), code("(inexact-num 3/2)"), code("(+ 1 0.5)")}},
		{name: "float-inf",
			a: []rep{code("(num +Inf)"), goval("+Inf", math.Inf(1))},
			b: []rep{code("(/ 1.0 0.0)"), code("(* 2 (num +Inf))"), code("(inexact-num 10000000000000000000)"), code("(* (num 1e308) 10)")}},
		{name: "list",
			a: []rep{code("[a b]"), goval("MakeList", vals.MakeList("a", "b"))},
			b: []rep{code("(conj [a] b)"), code("[x a b y][1..3]"), code("[a b c][..-1]"), goval("SubVector", vals.MakeList("x", "a", "b").SubVector(1, 3))}},
		{name: "list-of-zero", leaf: "+0.0/-0.0",
			a: []rep{code("[(num 0.0)]"), goval("[0.0]", vals.MakeList(0.0))},
			b: []rep{code("[(num -0.0)]"), goval("[-0.0]", vals.MakeList(math.Copysign(0, -1)))}},
		{name: "map",
			a: []rep{code("[&a=1 &b=2]"), goval("MakeMap a b", vals.MakeMap("a", "1", "b", "2"))},
			b: []rep{code("[&b=2 &a=1]"), code("(assoc [&b=2] a 1)"), code("(dissoc [&a=1 &b=2 &c=3] c)"), goval("struct", structAB{"1", "2"}),
				goval("MakeMap b a", vals.MakeMap("b", "2", "a", "1"))}},
		{name: "map-of-zero", leaf: "+0.0/-0.0",
			a: []rep{code("[&k=(num 0.0)]")},
			b: []rep{code("[&k=(num -0.0)]"), code("(assoc [&] k (num -0.0))")}},
		{name: "map-zero-key", leaf: "+0.0/-0.0",
			a: []rep{code("[&(num 0.0)=v]")},
			b: []rep{code("[&(num -0.0)=v]")}},
		{name: "closure",
			a: []rep{code("$f1")},
			b: []rep{code("$f1-alias"), code("(put [$f1][0])")}},
		{name: "namespace",
			a: []rep{code("$n1:")},
			b: []rep{code("$n1-alias:"), code("(put [&k=$n1:][k])")}},
		{name: "string-bad-utf8",
			a: []rep{code(`"a\xff"`), goval(`"a\xff"`, "a\xff")},
			b: []rep{code(`a"\xff"`), code(`(str:join '' [a "\xff"])`)}},
		{name: "field-map",
			a: []rep{code("(re:find b abc)")},
			b: []rep{code("[&text=b &start=(num 1) &end=(num 2) &groups=[[&text=b &start=(num 1) &end=(num 2)]]]")}},
		{name: "nested",
			a: []rep{code("[[(num 1)] [&k=[a]]]")},
			b: []rep{code("(conj [] [(+ 0 1)] (assoc [&] k (conj [] a)))"), code("[x [(num 1)] [&k=[a]]][1..]")}},
		{name: "bool",
			a: []rep{code("$true"), goval("true", true)},
			b: []rep{code("(eq a a)"), code("(not $false)")}},
		{name: "nil",
			a: []rep{code("$nil"), goval("nil", nil)},
			b: []rep{code("(put [&a=$nil][a])")}},
		{name: "float-subnormal",
			a: []rep{code("(num 5e-324)"), goval("SmallestNonzeroFloat64", math.SmallestNonzeroFloat64)},
			b: []rep{code("(/ (num 1e-323) 2)"), code("(* (num 1e-200) (num 5e-124))"), goval("Float64frombits(1)", math.Float64frombits(1))}},
		{name: "float-neg-inf",
			a: []rep{code("(num -Inf)"), goval("-Inf", math.Inf(-1))},
			b: []rep{code("(/ -1.0 0.0)"), code("(* (num -1e308) 10)"), code("(- (num +Inf))"), code("(inexact-num -10000000000000000000)")}},
		// NaNs of different origins: parsed / math.NaN() = 0x7ff8000000000001; Inf-Inf, 0.0*Inf, 0.0/0.0 = the
		// FPU's default NaN (0xfff8000000000000 on amd64); negative sign; payload bits.
		{name: "nan", conditional: true,
			a: []rep{code("(num NaN)"), goval("math.NaN()", math.NaN()), code("(inexact-num NaN)")},
			b: []rep{code("(- (num +Inf) (num +Inf))"), code("(* (num 0.0) (num +Inf))"), code("(/ (num 0.0) (num 0.0))"),
				goval("Copysign(NaN,-1)", math.Copysign(math.NaN(), -1)), goval("NaN payload 0x7ff8000000000123", math.Float64frombits(0x7ff8000000000123)),
				goval("NaN 0xfff8000000000000", math.Float64frombits(0xfff8000000000000)), code("(+ (num NaN) 1)")}},
		{name: "list-of-nan", conditional: true,
			a: []rep{code("[(num NaN)]"), goval("[math.NaN()]", vals.MakeList(math.NaN()))},
			b: []rep{code("[(- (num +Inf) (num +Inf))]"), goval("[-NaN]", vals.MakeList(math.Copysign(math.NaN(), -1))), code("(conj [] (* (num 0.0) (num +Inf)))")}},
		{name: "map-of-nan", conditional: true,
			a: []rep{code("[&k=(num NaN)]")},
			b: []rep{code("[&k=(- (num +Inf) (num +Inf))]"), goval("[&k=-NaN]", vals.MakeMap("k", math.Copysign(math.NaN(), -1)))}},
		{name: "map-nan-key", conditional: true,
			a: []rep{code("[&(num NaN)=v]")},
			b: []rep{code("[&(- (num +Inf) (num +Inf))=v]"), goval("[&-NaN=v]", vals.MakeMap(math.Copysign(math.NaN(), -1), "v"))}},
		{name: "typed-field-map-of-zero", leaf: "+0.0/-0.0",
			a: []rep{goval("fmScore{/p, 0.0}", fmScore{"/p", 0.0}), code("[&path=/p &score=(num 0.0)]")},
			b: []rep{goval("fmScore{/p, -0.0}", fmScore{"/p", math.Copysign(0, -1)}), code("[&score=(num -0.0) &path=/p]"),
				goval("MakeMap -0.0", vals.MakeMap("path", "/p", "score", math.Copysign(0, -1)))}},
		{name: "typed-field-map",
			a: []rep{goval("fmTyped", fmTyped{"/q", 1.5, 3, true, "x"}), code("[&path=/q &score=(num 1.5) &count=(num 3) &flag=$true &extra=x]")},
			b: []rep{goval("fmAny", fmAny{"/q", 1.5, 3, true, "x"}), code("[&extra=x &flag=(eq a a) &count=(+ 1 2) &score=(/ 3.0 2) &path=/q]")}},
		{name: "ui-key",
			a: []rep{goval("ui.K('A', Ctrl)", ui.K('A', ui.Ctrl))},
			b: []rep{goval(`ParseKey("Ctrl-A")`, ctrlA)}},
	}
}

// build evaluates every representative.
func buildClasses(b *valpool.Builder, cs []*class) error {
	for _, c := range cs {
		for _, g := range []*[]rep{&c.a, &c.b} {
			for i := range *g {
				r := &(*g)[i]
				if r.code != "" {
					x, err := b.Eval(r.code)
					if err != nil {
						return fmt.Errorf("class %s: %v", c.name, err)
					}
					r.x = x
				} else {
					r.x = r.val
				}
			}
		}
	}
	return nil
}

func (c *class) all() []rep { return append(append([]rep(nil), c.a...), c.b...) }
