package main

import (
	"encoding/json"
	"fmt"
	"math"
	"math/big"
	"math/rand"
	"time"

	"src.elv.sh/pkg/eval/vals"
	"verif.local/harness/checks/c09/valpool"
	"verif.local/harness/lib"
)

// The pure implication  eq(a, b) => Hash(a) = Hash(b)  on
//   - every pair of values of the pool of Values.tla (seeded constructions) and every pair of
//     constructions of one pool value,
//   - every pair of class representatives,
//   - pairs of random related values (base value / neighbour with another zero sign, another
//     construction, another insertion order).
// Go records what vals.Equal and vals.Hash answered; JudgeHashEq.tla judges.

type hashCase struct {
	Eq     bool   `json:"eq"`
	HashEq bool   `json:"hasheq"`
	SpecEq int    `json:"speceq"`
	A      string `json:"a"`
	B      string `json:"b"`
	leaf   string
}

func leafPair(a, b *valpool.Term) string {
	switch {
	case a.T == "num" && b.T == "num":
		if (a.Num.ID == "f:0.0" && b.Num.ID == "f:-0.0") || (a.Num.ID == "f:-0.0" && b.Num.ID == "f:0.0") {
			return "+0.0/-0.0"
		}
	case a.T == "list" && b.T == "list":
		for i := 0; i < len(a.Elems) && i < len(b.Elems); i++ {
			if l := leafPair(a.Elems[i], b.Elems[i]); l != "" {
				return l
			}
		}
	case a.T == "map" && b.T == "map":
		for _, p := range a.Pairs {
			for _, q := range b.Pairs {
				if l := leafPair(p[0], q[0]); l != "" {
					return l
				}
				if l := leafPair(p[1], q[1]); l != "" {
					return l
				}
			}
		}
	}
	return ""
}

func (s *session) hashPairs(b *valpool.Builder) error {
	c := s.c
	r, err := c.TLC("EmitPool", lib.TLCRun{Dir: s.dir, Module: "EmitPool", Workers: 1, Timeout: 10 * time.Minute})
	if err != nil {
		return err
	}
	if r.ErrKind != "" {
		return lib.Infra("EmitPool: %s %s", r.ErrKind, r.ErrName)
	}
	pool := map[int]*valpool.Term{}
	for _, line := range r.PrintedStrings() {
		var p struct {
			Pool int           `json:"pool"`
			Term *valpool.Term `json:"term"`
		}
		if err := json.Unmarshal([]byte(line), &p); err != nil || p.Term == nil {
			return lib.Infra("bad pool line: %v: %s", err, line)
		}
		pool[p.Pool] = p.Term
	}
	n := len(pool)
	if n < 50 {
		return lib.Infra("EmitPool printed %d values", n)
	}
	nv := valpool.GoVariants + valpool.CodeVariants
	vs := make([][]any, n+1)
	for i := 1; i <= n; i++ {
		for v := 0; v < valpool.GoVariants; v++ {
			x, err := b.Go(pool[i], v)
			if err != nil {
				return lib.Infra("%v", err)
			}
			vs[i] = append(vs[i], x)
		}
		for v := 0; v < valpool.CodeVariants; v++ {
			code, err := b.Code(pool[i], v)
			if err != nil {
				return lib.Infra("%v", err)
			}
			x, err := b.Eval(code)
			if err != nil {
				return lib.Infra("%v", err)
			}
			vs[i] = append(vs[i], x)
		}
	}
	var cases []hashCase
	rec := func(x, y any, spec int, an, bn, leaf string) {
		cases = append(cases, hashCase{Eq: vals.Equal(x, y), HashEq: vals.Hash(x) == vals.Hash(y), SpecEq: spec, A: an, B: bn, leaf: leaf})
		c.AddEvals(3)
	}
	b2i := map[bool]int{false: 0, true: 1}
	for i := 1; i <= n; i++ {
		for j := 1; j <= n; j++ {
			// pairs the real eq reports equal are the ones that matter: they get more constructions
			combos := 1
			if vals.Equal(vs[i][0], vs[j][0]) {
				combos = c.Pick(8, nv*nv)
			}
			for k := 0; k < combos; k++ {
				va, vb := c.Rand.Intn(nv), c.Rand.Intn(nv)
				if combos == nv*nv {
					va, vb = k/nv, k%nv
				}
				rec(vs[i][va], vs[j][vb], -1, fmt.Sprintf("%s#%d", pool[i].Name(), va), fmt.Sprintf("%s#%d", pool[j].Name(), vb), leafPair(pool[i], pool[j]))
			}
			c.Distinct("hash|" + pool[i].Name() + "|" + pool[j].Name())
		}
	}
	// class representatives: ALL classes of the pool, also the conditional ones and those left out of
	// the map replays (the implication only speaks about pairs the real eq reports equal)
	for _, c1 := range s.all {
		for _, c2 := range s.all {
			for _, r1 := range c1.all() {
				for _, r2 := range c2.all() {
					leaf := ""
					if c1 == c2 {
						leaf = c1.leaf
					}
					rec(r1.x, r2.x, b2i[c1 == c2], c1.name+":"+r1.desc, c2.name+":"+r2.desc, leaf)
				}
			}
		}
	}
	// same-looking values with different bits / origins, alone and inside containers (as element, as map
	// value, as map key, nested): NaNs, zeros, infinities, subnormals
	cands := lookAlikes(b)
	for i, x := range cands {
		for j, y := range cands {
			rec(x.v, y.v, -1, x.name, y.name, x.leafWith(y))
			if i < j {
				c.Distinct("lookalike|" + x.name + "|" + y.name)
			}
		}
	}
	c.Set("lookalike_values", len(cands))
	// field maps: the same record as a Go struct with typed fields, as a struct with `any` fields, and as
	// an ordinary map (two insertion orders), with look-alike numbers in the fields
	fms := fieldMapLookAlikes()
	for i, x := range fms {
		for j, y := range fms {
			rec(x.v, y.v, -1, x.name, y.name, x.leafWith(y))
			if i < j {
				c.Distinct("fieldmap|" + x.name + "|" + y.name)
			}
		}
	}
	c.Set("fieldmap_values", len(fms))
	// random related values
	g := rand.New(rand.NewSource(c.Seed + 5))
	nrand := c.Pick(3000, 60000)
	for i := 0; i < nrand; i++ {
		t1 := randomKeyTerm(g, 2)
		t2 := flipZeros(t1, g)
		x, err1 := b.Go(t1, g.Intn(valpool.GoVariants))
		y, err2 := b.Go(t2, g.Intn(valpool.GoVariants))
		if err1 != nil || err2 != nil {
			return lib.Infra("%v %v", err1, err2)
		}
		rec(x, y, -1, t1.Name(), t2.Name(), leafPair(t1, t2))
		if i < 2000 {
			c.Distinct("hash|" + t1.Name() + "|" + t2.Name())
		}
	}
	bad, err := lib.Judge(c, "JudgeHashEq", s.dir, "JudgeHashEq", cases, c.Pick(2, 4), 15*time.Minute)
	if err != nil {
		return err
	}
	c.AddTraces(len(cases))
	neq := 0
	for _, hc := range cases {
		if hc.Eq {
			neq++
		}
	}
	c.Set("hash_pairs_judged", len(cases))
	c.Set("hash_pairs_with_eq_true", neq)
	if neq < 100 {
		return lib.Infra("only %d pairs are eq on the real code: the implication would be vacuous", neq)
	}
	for _, bc := range bad {
		hc := cases[bc.Index]
		key := "hash:" + hc.A + "~" + hc.B
		if hc.leaf != "" {
			key = "hash:" + hc.leaf
		}
		s.reject(key, fmt.Sprintf("eq reports %s and %s equal, their hashes differ", hc.A, hc.B), map[string]any{"kind": "hash-pair", "a": hc.A, "b": hc.B})
	}
	c.Logf("hash implication: %d pairs judged, %d eq, %d rejected", len(cases), neq, len(bad))
	return nil
}

func fatom(v any) *valpool.Term {
	a, _, err := valpool.AtomOf(v)
	if err != nil {
		panic(err)
	}
	return valpool.Num(a)
}

// randomKeyTerm draws a value that can serve as a key: numbers of all representations, strings,
// nested lists and maps; zeros are frequent.
func randomKeyTerm(g *rand.Rand, d int) *valpool.Term {
	k := g.Intn(10)
	if d <= 0 && k >= 6 {
		k = g.Intn(6)
	}
	switch {
	case k < 2:
		return fatom([]any{0.0, 0.0, 1.5, -2.5, 1e300, 3.0}[g.Intn(6)])
	case k < 4:
		return fatom([]any{0, 1, 3, -7, 1 << 40}[g.Intn(5)])
	case k == 4:
		return valpool.Str([]string{"", "a", "k", "a\xff", "0"}[g.Intn(5)])
	case k == 5:
		return []*valpool.Term{valpool.Nil(), valpool.Bool(true), valpool.Bool(false)}[g.Intn(3)]
	case k < 8:
		n := g.Intn(4)
		var es []*valpool.Term
		for i := 0; i < n; i++ {
			es = append(es, randomKeyTerm(g, d-1))
		}
		return valpool.List(es...)
	default:
		n := g.Intn(4)
		var ps [][2]*valpool.Term
		for i := 0; i < n; i++ {
			ps = append(ps, [2]*valpool.Term{valpool.Str(fmt.Sprintf("k%d", i)), randomKeyTerm(g, d-1)})
		}
		if g.Intn(3) == 0 {
			ps = append(ps, [2]*valpool.Term{fatom(0.0), randomKeyTerm(g, d-1)})
		}
		return valpool.Map(ps...)
	}
}

// flipZeros returns a copy in which float zeros change their sign at random and map entries are
// listed in another order: a value the documentation makes eq to the original.
func flipZeros(t *valpool.Term, g *rand.Rand) *valpool.Term {
	c := t.Clone()
	var walk func(x *valpool.Term)
	walk = func(x *valpool.Term) {
		switch x.T {
		case "num":
			if x.Num.ID == "f:0.0" && g.Intn(2) == 0 {
				x.Num.ID = "f:-0.0"
			}
		case "list":
			for _, e := range x.Elems {
				walk(e)
			}
		case "map":
			for _, p := range x.Pairs {
				walk(p[0])
				walk(p[1])
			}
			g.Shuffle(len(x.Pairs), func(i, j int) { x.Pairs[i], x.Pairs[j] = x.Pairs[j], x.Pairs[i] })
		}
	}
	walk(c)
	return c
}

type lookAlike struct {
	name string
	v    any
	zero int // +1 / -1 when the value is (built from) +0.0 / -0.0
	wrap string
}

func (x lookAlike) leafWith(y lookAlike) string {
	if x.wrap == y.wrap && x.zero*y.zero == -1 {
		return "+0.0/-0.0"
	}
	return ""
}

// lookAlikes builds floats that print alike but differ in bits or origin, through the Go API and
// through Elvish arithmetic, each alone and wrapped in a list, a nested list, a map value and a map key.
func lookAlikes(b *valpool.Builder) []lookAlike {
	type base struct {
		name string
		v    any
		zero int
	}
	nan := math.NaN()
	bs := []base{
		{"NaN:math.NaN()", nan, 0},
		{"NaN:-sign", math.Copysign(nan, -1), 0},
		{"NaN:0xfff8000000000000", math.Float64frombits(0xfff8000000000000), 0},
		{"NaN:payload", math.Float64frombits(0x7ff8000000000123), 0},
		{"NaN:signalling-pattern", math.Float64frombits(0x7ff0000000000001), 0},
		{"+0.0", 0.0, 1}, {"-0.0", math.Copysign(0, -1), -1},
		{"+Inf", math.Inf(1), 0}, {"-Inf", math.Inf(-1), 0},
		{"subnormal", math.SmallestNonzeroFloat64, 0}, {"-subnormal", -math.SmallestNonzeroFloat64, 0},
	}
	for _, code := range []string{"(num NaN)", "(- (num +Inf) (num +Inf))", "(* (num 0.0) (num +Inf))", "(/ (num 0.0) (num 0.0))", "(+ (num NaN) 1)",
		"(- (num NaN))", "(num -0.0)", "(* (num -1.0) (num 0.0))", "(* (num 1e308) 10)", "(/ (num 1e-323) 2)", "(/ (num -1e-323) 2)"} {
		if x, err := b.Eval(code); err == nil {
			z := 0
			if f, ok := x.(float64); ok && f == 0 {
				z = 1
				if math.Signbit(f) {
					z = -1
				}
			}
			bs = append(bs, base{"code:" + code, x, z})
		}
	}
	var out []lookAlike
	for _, x := range bs {
		out = append(out,
			lookAlike{x.name, x.v, x.zero, ""},
			lookAlike{"[" + x.name + "]", vals.MakeList(x.v), x.zero, "list"},
			lookAlike{"[a [" + x.name + "]]", vals.MakeList("a", vals.MakeList(x.v)), x.zero, "nested"},
			lookAlike{"[&k=" + x.name + "]", vals.MakeMap("k", x.v), x.zero, "mapval"},
			lookAlike{"[&" + x.name + "=v]", vals.MakeMap(x.v, "v"), x.zero, "mapkey"})
	}
	return out
}

// Harness field maps (structs with exported fields behave exactly like maps with dash-case keys).
type fmTyped struct {
	Path  string
	Score float64
	Count int
	Flag  bool
	Extra any
}

type fmAny struct {
	Path  any
	Score any
	Count any
	Flag  any
	Extra any
}

// fmScore is shaped like storedefs.Dir.
type fmScore struct {
	Path  string
	Score float64
}

func fieldMapLookAlikes() []lookAlike {
	nan := math.NaN()
	negz := math.Copysign(0, -1)
	big1, _ := new(big.Int).SetString("18446744073709551617", 10)
	scores := []struct {
		name string
		f    float64
		zero int
	}{{"0.0", 0, 1}, {"-0.0", negz, -1}, {"1.0", 1, 0}, {"NaN", nan, 0}, {"-NaN", math.Copysign(nan, -1), 0},
		{"NaN:fff8", math.Float64frombits(0xfff8000000000000), 0}, {"+Inf", math.Inf(1), 0}, {"5e-324", math.SmallestNonzeroFloat64, 0}}
	extras := []struct {
		name string
		v    any
		zero int
	}{{"i:1", 1, 0}, {"f:1.0", 1.0, 0}, {"f:0.0", 0.0, 1}, {"f:-0.0", negz, -1}, {"i:0", 0, 0}, {"z:2^64+1", big1, 0},
		{"r:1/2", big.NewRat(1, 2), 0}, {"f:NaN", nan, 0}, {"[f:-0.0]", vals.MakeList(negz), -1}, {"[f:0.0]", vals.MakeList(0.0), 1}}
	var out []lookAlike
	add := func(name string, zero int, path string, score float64, count int, flag bool, extra any) {
		w := "fm:" + name
		out = append(out,
			lookAlike{"struct{" + name + "}", fmTyped{path, score, count, flag, extra}, zero, w},
			lookAlike{"anystruct{" + name + "}", fmAny{path, score, count, flag, extra}, zero, w},
			lookAlike{"map{" + name + "}", vals.MakeMap("path", path, "score", score, "count", count, "flag", flag, "extra", extra), zero, w},
			lookAlike{"map'{" + name + "}", vals.MakeMap("extra", extra, "flag", flag, "count", count, "score", score, "path", path), zero, w})
	}
	for _, sc := range scores {
		// zero sign is part of the wrap name only through `zero`: records differing only in the sign of a
		// zero share the wrap name so that leafWith recognises the +0.0/-0.0 pair
		n := "score=" + sc.name
		if sc.zero != 0 {
			n = "score=zero"
		}
		add(n, sc.zero, "/p", sc.f, 3, true, "x")
		out[len(out)-4].name, out[len(out)-3].name = "struct{score="+sc.name+"}", "anystruct{score="+sc.name+"}"
		out[len(out)-2].name, out[len(out)-1].name = "map{score="+sc.name+"}", "map'{score="+sc.name+"}"
		// the two-field shape of storedefs.Dir
		w := "dir:" + n
		out = append(out, lookAlike{"dir{score=" + sc.name + "}", fmScore{"/p", sc.f}, sc.zero, w},
			lookAlike{"dirmap{score=" + sc.name + "}", vals.MakeMap("path", "/p", "score", sc.f), sc.zero, w})
	}
	for _, ex := range extras {
		n := "extra=" + ex.name
		if ex.zero != 0 {
			n = "extra=zero:" + map[bool]string{true: "list", false: "num"}[ex.name[0] == '[']
		}
		add(n, ex.zero, "/p", 2.5, 0, false, ex.v)
		out[len(out)-4].name, out[len(out)-3].name = "struct{extra="+ex.name+"}", "anystruct{extra="+ex.name+"}"
		out[len(out)-2].name, out[len(out)-1].name = "map{extra="+ex.name+"}", "map'{extra="+ex.name+"}"
	}
	// int / bool / string fields
	add("count=0", 0, "", 2.5, 0, false, nil)
	add("count=1,flag", 0, "a\xff", 2.5, 1, true, nil)
	return out
}
