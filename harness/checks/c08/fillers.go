package main

import (
	"fmt"
	"math/rand"
	"sync"

	"src.elv.sh/pkg/eval/vals"
)

// Filler keys: keys that are eq to no class representative.  The first ones are chosen by their REAL
// hash (vals.Hash): for every representative of the instance and every p in {5,10,...,30,32} a key
// whose hash shares exactly the low p bits with the representative's hash (32 = the same hash), so
// that the representative sits below the first trie levels / in a collision node of the 5-bit HAMT.
// Integers 0 <= n < 2^32 hash to themselves, which makes such keys easy to find; string fillers
// with shared low bits are found by search (p <= 15).  The remaining fillers are arbitrary.

type fillerKey struct {
	inst string
	F    int
}

type fillerSet struct {
	base vals.Map
	set  map[any]bool
}

type fillerCache struct{ m map[fillerKey]fillerSet }

func newFillerCache() *fillerCache { return &fillerCache{m: map[fillerKey]fillerSet{}} }

func isFiller(k any, fillers map[any]bool) bool {
	switch k.(type) {
	case int, string:
		return fillers[k]
	}
	return false
}

func instKey(in inst) string {
	s := ""
	for ci := 0; ci < 3; ci++ {
		s += in.cls[ci].name + ":" + in.reps[ci][0].desc + "|" + in.reps[ci][1].desc + ";"
	}
	return s
}

func (fc *fillerCache) get(in inst, F int, rng *rand.Rand) (vals.Map, map[any]bool) {
	if F == 0 {
		return vals.EmptyMap, nil
	}
	k := fillerKey{instKey(in), F}
	if fs, ok := fc.m[k]; ok {
		return fs.base, fs.set
	}
	var reps []any
	for ci := 0; ci < 3; ci++ {
		reps = append(reps, in.reps[ci][0].x, in.reps[ci][1].x)
	}
	keys := makeFillers(reps, F, rng)
	base := vals.EmptyMap
	set := map[any]bool{}
	for _, key := range keys {
		base = base.Assoc(key, "filler")
		set[key] = true
	}
	if len(fc.m) > 4000 {
		fc.m = map[fillerKey]fillerSet{}
	}
	fc.m[k] = fillerSet{base, set}
	return base, set
}

func sharesExactly(h1, h2 uint32, p int) bool {
	if p >= 32 {
		return h1 == h2
	}
	mask := uint32(1)<<uint(p) - 1
	return h1&mask == h2&mask && (h1>>uint(p))&1 != (h2>>uint(p))&1
}

func makeFillers(reps []any, F int, rng *rand.Rand) []any {
	used := map[any]bool{}
	var out []any
	ok := func(k any) bool {
		if used[k] {
			return false
		}
		for _, r := range reps {
			if vals.Equal(k, r) {
				return false
			}
		}
		return true
	}
	add := func(k any) {
		if len(out) < F && ok(k) {
			used[k] = true
			out = append(out, k)
		}
	}
	ps := []int{32, 30, 25, 20, 15, 10, 5}
	order := rng.Perm(len(reps))
	// F = 1: a single filler, colliding as deeply as the seed says with one representative
	for round := 0; len(out) < F && round < len(ps); round++ {
		p := ps[(round+rng.Intn(len(ps)))%len(ps)]
		if F > 7*len(reps) {
			p = ps[round]
		}
		for _, ri := range order {
			h := vals.Hash(reps[ri])
			// integer with the wanted hash
			var n uint32
			if p >= 32 {
				n = h
			} else {
				mask := uint32(1)<<uint(p) - 1
				n = h&mask | (^h)&(1<<uint(p)) | rng.Uint32()&^(mask<<1|1)
			}
			if k := int(n); sharesExactly(vals.Hash(k), h, p) {
				add(k)
			}
			// string with the wanted low bits (from a table of 2^18 strings by the low 16 bits of their real hash)
			if p <= 15 && F > 8 {
				for _, sk := range stringsSharing(h, p, rng) {
					if sharesExactly(vals.Hash(sk), h, p) {
						add(sk)
						break
					}
				}
			}
		}
	}
	for i := 0; len(out) < F; i++ {
		if i%2 == 0 {
			add(fmt.Sprintf("fill%d", i))
		} else {
			add(100000 + i)
		}
	}
	return out
}

var (
	strTableOnce sync.Once
	strTable     [][]string // by low 16 bits of vals.Hash
)

// stringsSharing returns candidate strings whose hash shares exactly the low p (<= 15) bits with h.
func stringsSharing(h uint32, p int, rng *rand.Rand) []string {
	strTableOnce.Do(func() {
		strTable = make([][]string, 1<<16)
		for t := 0; t < 1<<18; t++ {
			sk := fmt.Sprintf("s%d", t)
			b := vals.Hash(sk) & 0xffff
			if len(strTable[b]) < 3 {
				strTable[b] = append(strTable[b], sk)
			}
		}
	})
	mask := uint32(1)<<uint(p) - 1
	want := h&mask | (^h)&(1<<uint(p))             // bits 0..p fixed
	free := rng.Uint32() & 0xffff &^ (mask<<1 | 1) // bits above p free
	return strTable[(want|free)&0xffff]
}
