// C08 — values that are eq are the same map key.
//
//	M  MCEqKeys.tla (MODE "M"): exhaustive exploration of EqKeys (3 classes x 2 representatives, fill in
//	   {0,1}, reads and writes) with NoTwoEqKeys, LenIsClassCount, RepIndependent, MutationSeenByAllReps.
//	G  MCEqKeys.tla (MODE "G"): every behaviour of DEPTH mutating steps with the prescribed reads after
//	   each step, replayed on real maps through the Go API (vals.Assoc/Dissoc/Index/HasKey/Len) and
//	   through the builtins (assoc, dissoc, has-key, indexing, count), with the model's classes
//	   concretised from a pool of eq-classes and fill concretised as 1..2000 filler keys whose real
//	   hashes share 5..32 low bits with the hashes of the representatives.
//	V  long random histories over all classes at once, recorded with the projection of the real map
//	   after every step, judged by JudgeEqKeys.tla; and the pure implication eq => same hash on every
//	   pair of the value pool (all constructions), of the class representatives and of random values,
//	   judged by JudgeHashEq.tla.
package main

import (
	"encoding/json"
	"fmt"
	"math/rand"
	"os"
	"sort"
	"strings"
	"sync"
	"time"

	"src.elv.sh/pkg/eval/vals"
	"verif.local/harness/checks/c09/valpool"
	"verif.local/harness/elv"
	"verif.local/harness/lib"
)

func main() { lib.Main("C08", run) }

type stepExp struct {
	Op    string `json:"op"`
	C     int    `json:"c"`
	R     int    `json:"r"`
	X     int    `json:"x"`
	Len   int    `json:"len"`
	Reads []struct {
		Has bool `json:"has"`
		Val int  `json:"val"`
	} `json:"reads"`
}

type behaviour struct {
	Fill  int       `json:"fill"`
	Steps []stepExp `json:"steps"`
}

func (b behaviour) sig() string {
	var sb strings.Builder
	fmt.Fprintf(&sb, "f%d", b.Fill)
	for _, s := range b.Steps {
		fmt.Fprintf(&sb, ">%s(%d.%d,%d)", s.Op, s.C, s.R, s.X)
	}
	return sb.String()
}

var fillSizes = []int{1, 31, 33, 600, 2000}

type session struct {
	c       *lib.Ctx
	dir     string
	classes []*class // usable classes (representatives pairwise eq on the real code)
	mu      sync.Mutex
	rejects map[string]int
	condOut []string // conditional classes whose members the real eq does not report equal
	all     []*class // every class of the pool, usable or not (hash pairs are recorded for all)
}

func run(c *lib.Ctx) error {
	s := &session{c: c, dir: c.SpecDir("Values"), rejects: map[string]int{}}
	b, err := valpool.NewBuilder()
	if err != nil {
		return lib.Infra("builder: %v", err)
	}
	if o := elv.Run(b.Ev, "use re; use str"); o.Err != nil {
		return lib.Infra("use re: %v", o.Err)
	}
	all := classPool()
	if err := buildClasses(b, all); err != nil {
		return lib.Infra("%v", err)
	}
	s.all = all
	if err := s.selectClasses(all); err != nil {
		return err
	}
	if c.Replay != "" {
		return s.replay(b)
	}
	c.Set("rule", "a case is (behaviour of the model, class triple, filler size, API) / a recorded history step / a pair of values; behaviours consisting only of dissoc on an empty map are trivial and not counted")
	c.Set("classes", classNames(s.classes))
	c.Set("fill_sizes", fillSizes)

	// ---- M
	depthM := c.Pick(3, 5)
	mdone := make(chan error, 1)
	go func() {
		if os.Getenv("VERIF_DEV_SKIP") == "M" { // development only (mutant trials): M does not depend on /repo
			mdone <- nil
			return
		}
		r, err := c.TLC("MCEqKeys(M)", lib.TLCRun{Dir: s.dir, Module: "MCEqKeys", Workers: 2, Timeout: 20 * time.Minute, Coverage: false,
			Files: map[string][]byte{"MCEqKeys.cfg": []byte(mcCfg(depthM, "M"))}})
		if err == nil && r.ErrKind != "" {
			err = lib.Infra("EqKeys model breaks its own property %s %s:\n%s", r.ErrKind, r.ErrName, r.ErrTrace)
		}
		mdone <- err
	}()

	// ---- the pure implication (V2) first: it is cheap and names the defect directly
	if err := s.hashPairs(b); err != nil {
		<-mdone
		return err
	}
	// ---- G
	if err := s.generate(b); err != nil {
		<-mdone
		return err
	}
	// ---- V
	if err := s.histories(b); err != nil {
		<-mdone
		return err
	}
	if err := <-mdone; err != nil {
		return err
	}
	c.Set("model_depth_M", depthM)
	c.Set("rejections_by_key", s.rejects)
	c.Assume("TLC is trusted; classes are concretised from hand-listed constructions that the documentation makes eq; a class whose representatives the real eq does NOT report equal is left out (that is C09's subject)")
	c.Assume("the real map is projected to the model by iterating it and attributing every entry to the class it is eq to (real vals.Equal); filler keys are recognised by identity of construction")
	c.Assume("which representative a map retains as the stored key, and the iteration order, are unspecified")
	return nil
}

func mcCfg(depth int, mode string) string {
	s := fmt.Sprintf("CONSTANTS\n  Classes = {1, 2, 3}\n  Reps = {1, 2}\n  Vals = {1, 2}\n  DEPTH = %d\n  MODE = %q\nINIT MCInit\nNEXT MCNext\n", depth, mode)
	for _, i := range []string{"TypeOK", "NoTwoEqKeys", "LenIsClassCount", "RepIndependent", "ReadsAgree", "Emit"} {
		s += "INVARIANT " + i + "\n"
	}
	return s + "PROPERTY MutationSeenByAllReps\n"
}

func classNames(cs []*class) []string {
	var out []string
	for _, c := range cs {
		out = append(out, c.name)
	}
	return out
}

func (s *session) reject(key, what string, replay any) {
	s.mu.Lock()
	s.rejects[key]++
	n := s.rejects[key]
	s.mu.Unlock()
	if n <= 3 || !s.c.IsKnown(key) {
		s.c.Reject(key, what, replay)
	}
}

// selectClasses keeps the classes whose representatives are pairwise eq on the real code (the
// antecedent of the property) and checks that different classes are not eq (else no projection).
func (s *session) selectClasses(all []*class) error {
	for _, c := range all {
		ok := true
		rs := c.all()
		for i := range rs {
			for j := range rs {
				if !vals.Equal(rs[i].x, rs[j].x) {
					if ok && !c.conditional {
						s.c.Logf("class %s left out: real eq says %s and %s differ (C09's subject)", c.name, rs[i].desc, rs[j].desc)
					}
					ok = false
				}
			}
		}
		if ok {
			s.classes = append(s.classes, c)
			if c.conditional {
				s.c.Logf("conditional class %s: the real eq reports its members equal, so they must be one key", c.name)
			}
		} else if c.conditional {
			s.condOut = append(s.condOut, c.name)
		}
	}
	s.c.Set("conditional_classes_not_eq_on_this_tree", s.condOut)
	for i, c1 := range s.classes {
		for j, c2 := range s.classes {
			if i == j {
				continue
			}
			for _, r1 := range c1.all() {
				for _, r2 := range c2.all() {
					if vals.Equal(r1.x, r2.x) {
						return lib.Infra("real eq identifies %s (%s) and %s (%s): classes cannot be projected (C09's subject)", c1.name, r1.desc, c2.name, r2.desc)
					}
				}
			}
		}
	}
	if len(s.classes) < 6 {
		return lib.Infra("only %d usable classes", len(s.classes))
	}
	return nil
}

// ---------------------------------------------------------------------------------------------
// G

// inst is a concretisation of the model: three classes with two representatives each.
type inst struct {
	cls  [3]*class
	reps [3][2]rep
}

func (in inst) name() string {
	return in.cls[0].name + "," + in.cls[1].name + "," + in.cls[2].name
}

func (s *session) generate(b *valpool.Builder) error {
	c := s.c
	depth := c.Pick(3, 4)
	r, err := c.TLC("MCEqKeys(G)", lib.TLCRun{Dir: s.dir, Module: "MCEqKeys", Workers: c.Pick(2, 4), Timeout: 30 * time.Minute, HeapGB: 6,
		Files: map[string][]byte{"MCEqKeys.cfg": []byte(mcCfg(depth, "G"))}})
	if err != nil {
		return err
	}
	if r.ErrKind != "" {
		return lib.Infra("EqKeys model: %s %s\n%s", r.ErrKind, r.ErrName, r.ErrTrace)
	}
	seen := map[string]bool{}
	var behs []behaviour
	for _, line := range r.PrintedStrings() {
		var bh behaviour
		if err := json.Unmarshal([]byte(line), &bh); err != nil {
			return lib.Infra("bad behaviour from TLC: %v", err)
		}
		if len(bh.Steps) != depth {
			return lib.Infra("behaviour of length %d", len(bh.Steps))
		}
		if k := bh.sig(); !seen[k] {
			seen[k] = true
			behs = append(behs, bh)
		}
	}
	want := 2
	for i := 0; i < depth; i++ {
		want *= 18
	}
	if len(behs) != want {
		return lib.Infra("expected %d behaviours of depth %d, TLC printed %d", want, depth, len(behs))
	}
	sort.Slice(behs, func(i, j int) bool { return behs[i].sig() < behs[j].sig() })
	c.Set("behaviour_depth", depth)
	c.Set("behaviours", len(behs))
	c.Set("exhaustive", true)
	c.Sample(behs[len(behs)/3])

	// Instances: class triples covering every usable class (rotation offset seeded), two seeded
	// representatives per class.  Go API: every behaviour on every instance, fill = 1 at every filler
	// size (quick: two sizes per instance).
	ninst := c.Pick(8, 28)
	for ninst*3 < len(s.classes) {
		ninst++
	}
	rng := rand.New(rand.NewSource(c.Seed + 77))
	var insts []inst
	perm := rng.Perm(len(s.classes))
	for i := 0; i < ninst; i++ {
		if i > 0 && (3*i)%len(s.classes) < 3 { // a new round through the pool: other neighbours
			perm = rng.Perm(len(s.classes))
		}
		var in inst
		for k := 0; k < 3; k++ {
			cl := s.classes[perm[(3*i+k)%len(s.classes)]]
			in.cls[k] = cl
			in.reps[k][0] = cl.a[rng.Intn(len(cl.a))]
			in.reps[k][1] = cl.b[rng.Intn(len(cl.b))]
		}
		if in.cls[0] == in.cls[1] || in.cls[1] == in.cls[2] || in.cls[0] == in.cls[2] {
			continue
		}
		insts = append(insts, in)
	}
	var goRuns int64
	var mu sync.Mutex
	lib.Parallel(len(insts), 6, func(ii int) {
		in := insts[ii]
		r := rand.New(rand.NewSource(c.Seed*1000 + int64(ii)))
		fc := newFillerCache()
		sizes := fillSizes
		if c.Quick() {
			sizes = []int{fillSizes[ii%len(fillSizes)], fillSizes[(ii+2)%len(fillSizes)]}
		}
		n := 0
		for _, bh := range behs {
			if bh.Fill == 0 {
				s.replayGo(bh, in, vals.EmptyMap, nil, 0)
				n++
				continue
			}
			for _, F := range sizes {
				base, fillers := fc.get(in, F, r)
				s.replayGo(bh, in, base, fillers, F)
				n++
			}
		}
		mu.Lock()
		goRuns += int64(n)
		mu.Unlock()
	})
	c.AddTraces(int(goRuns))
	c.Set("go_replays", goRuns)
	c.Set("instances", len(insts))
	for _, bh := range behs {
		if nontrivial(bh) {
			c.Distinct("beh|" + bh.sig())
		}
	}

	// builtins: one evaluation per behaviour, a seeded third (thorough: half) of the behaviours, instances and fill sizes rotating
	fc := newFillerCache()
	elvRuns := 0
	for pass := 0; pass < 1; pass++ {
		for ii, in := range insts {
			stride := len(insts) * c.Pick(3, 2) // quick: every third, thorough: every second behaviour (which one is seeded)
			for bi := ii + len(insts)*(int(c.Seed)%c.Pick(3, 2)); bi < len(behs); bi += stride {
				bh := behs[(bi+pass*3)%len(behs)]
				F := 0
				if bh.Fill == 1 {
					F = fillSizes[(ii+pass+int(c.Seed))%len(fillSizes)]
				}
				base, fillers := fc.get(in, F, rng)
				if err := s.replayElv(b, bh, in, base, fillers, F); err != nil {
					return err
				}
				elvRuns++
			}
		}
	}
	c.AddTraces(elvRuns)
	c.Set("builtin_replays", elvRuns)
	c.Logf("G: %d behaviours of depth %d on %d instances; %d replays through the Go API, %d through the builtins", len(behs), depth, len(insts), goRuns, elvRuns)
	return nil
}

func nontrivial(bh behaviour) bool {
	for _, st := range bh.Steps {
		if st.Op == "assoc" {
			return true
		}
	}
	return false
}

func valName(x int) string { return fmt.Sprintf("v%d", x) }

type mismatch struct {
	cls  *class
	what string
}

// checkStep compares the real map after a step with the prescription; returns the first mismatch.
func checkStep(m any, st stepExp, in inst, fillers map[any]bool, F int, full bool) *mismatch {
	if n := vals.Len(m); n-F != st.Len {
		// attribute to a class that has two entries, if any
		cls := dupClass(m, in, fillers)
		if cls == nil {
			cls = in.cls[st.C-1]
		}
		return &mismatch{cls, fmt.Sprintf("count is %d with %d fillers, prescribed %d keys", n, F, st.Len)}
	}
	for ci := 0; ci < 3; ci++ {
		for ri := 0; ri < 2; ri++ {
			k := in.reps[ci][ri].x
			has := vals.HasKey(m, k)
			v, err := vals.Index(m, k)
			if has != st.Reads[ci].Has {
				return &mismatch{in.cls[ci], fmt.Sprintf("has-key through %s gives %v, prescribed %v", in.reps[ci][ri].desc, has, st.Reads[ci].Has)}
			}
			if (err == nil) != st.Reads[ci].Has {
				return &mismatch{in.cls[ci], fmt.Sprintf("indexing through %s: error %v, prescribed present=%v", in.reps[ci][ri].desc, err, st.Reads[ci].Has)}
			}
			if err == nil && v != valName(st.Reads[ci].Val) {
				return &mismatch{in.cls[ci], fmt.Sprintf("indexing through %s gives %v, prescribed %s", in.reps[ci][ri].desc, v, valName(st.Reads[ci].Val))}
			}
		}
	}
	if full {
		if cls := dupClass(m, in, fillers); cls != nil {
			return &mismatch{cls, "the map holds two keys that are eq to each other"}
		}
	}
	return nil
}

// dupClass iterates the real map and returns a class to which two entries belong (nil if none).
func dupClass(m any, in inst, fillers map[any]bool) *class {
	mm, ok := m.(vals.Map)
	if !ok {
		return nil
	}
	var cnt [3]int
	for it := mm.Iterator(); it.HasElem(); it.Next() {
		k, _ := it.Elem()
		if isFiller(k, fillers) {
			continue
		}
		for ci := 0; ci < 3; ci++ {
			if vals.Equal(k, in.reps[ci][0].x) || vals.Equal(k, in.reps[ci][1].x) {
				cnt[ci]++
			}
		}
	}
	for ci := 0; ci < 3; ci++ {
		if cnt[ci] > 1 {
			return in.cls[ci]
		}
	}
	return nil
}

func (s *session) keyFor(cls *class, what string) string {
	if cls.leaf != "" {
		return "hash:" + cls.leaf
	}
	return "eqkeys:" + cls.name
}

func (s *session) replayGo(bh behaviour, in inst, base vals.Map, fillers map[any]bool, F int) {
	c := s.c
	var m any = base
	evals := 0
	defer func() {
		if r := recover(); r != nil {
			s.reject("panic:"+in.name(), fmt.Sprintf("panic replaying %s: %v", bh.sig(), r), map[string]any{"kind": "behaviour", "beh": bh, "classes": in.name(), "fill": F})
		}
		c.AddEvals(evals)
	}()
	for si, st := range bh.Steps {
		k := in.reps[st.C-1][st.R-1].x
		var err error
		switch st.Op {
		case "assoc":
			m, err = vals.Assoc(m, k, valName(st.X))
		case "dissoc":
			if d := vals.Dissoc(m, k); d != nil {
				m = d
			} else {
				err = fmt.Errorf("Dissoc returned nil")
			}
		}
		evals += 14
		var mm *mismatch
		if err != nil {
			mm = &mismatch{in.cls[st.C-1], fmt.Sprintf("%s through %s failed: %v", st.Op, in.reps[st.C-1][st.R-1].desc, err)}
		} else {
			mm = checkStep(m, st, in, fillers, F, F <= 33 || si == len(bh.Steps)-1)
		}
		if mm != nil {
			s.reject(s.keyFor(mm.cls, mm.what),
				fmt.Sprintf("go: classes (%s), %d fillers, behaviour %s, after step %d: class %s: %s", in.name(), F, bh.sig(), si+1, mm.cls.name, mm.what),
				map[string]any{"kind": "behaviour", "beh": bh, "classes": in.name(), "fill": F, "via": "go"})
			return
		}
	}
}

const missing = "\x00missing"

func (s *session) replayElv(b *valpool.Builder, bh behaviour, in inst, base vals.Map, fillers map[any]bool, F int) error {
	c := s.c
	b.Bind("base", base)
	b.Bind("missing", missing)
	for ci := 0; ci < 3; ci++ {
		for ri := 0; ri < 2; ri++ {
			b.Bind(fmt.Sprintf("k%d%d", ci+1, ri+1), in.reps[ci][ri].x)
		}
	}
	var sb strings.Builder
	sb.WriteString("var m = $base\n")
	for _, st := range bh.Steps {
		k := fmt.Sprintf("$k%d%d", st.C, st.R)
		if st.Op == "assoc" {
			fmt.Fprintf(&sb, "set m = (assoc $m %s %s)\n", k, valName(st.X))
		} else {
			fmt.Fprintf(&sb, "set m = (dissoc $m %s)\n", k)
		}
		sb.WriteString("put (count $m)\n")
		for ci := 1; ci <= 3; ci++ {
			for ri := 1; ri <= 2; ri++ {
				fmt.Fprintf(&sb, "put (has-key $m $k%d%d) (try { put $m[$k%d%d] } catch { put $missing })\n", ci, ri, ci, ri)
			}
		}
		sb.WriteString("put $m\n")
	}
	o := elv.Run(b.Ev, sb.String())
	c.AddEvals(1)
	fail := func(cls *class, si int, what string) {
		s.reject(s.keyFor(cls, what),
			fmt.Sprintf("builtins: classes (%s), %d fillers, behaviour %s, after step %d: class %s: %s", in.name(), F, bh.sig(), si+1, cls.name, what),
			map[string]any{"kind": "behaviour", "beh": bh, "classes": in.name(), "fill": F, "via": "elvish"})
	}
	if o.Panic != "" || o.Err != nil {
		fail(in.cls[0], 0, fmt.Sprintf("evaluation failed: %v %s", o.Err, o.Panic))
		return nil
	}
	per := 1 + 12 + 1
	if len(o.Values) != per*len(bh.Steps) {
		return lib.Infra("builtin replay produced %d values, expected %d", len(o.Values), per*len(bh.Steps))
	}
	for si, st := range bh.Steps {
		v := o.Values[si*per : (si+1)*per]
		if n, ok := v[0].(int); !ok || n-F != st.Len {
			cls := dupClass(v[13], in, fillers)
			if cls == nil {
				cls = in.cls[st.C-1]
			}
			fail(cls, si, fmt.Sprintf("count is %v with %d fillers, prescribed %d keys", v[0], F, st.Len))
			return nil
		}
		for ci := 0; ci < 3; ci++ {
			for ri := 0; ri < 2; ri++ {
				has, got := v[1+2*(ci*2+ri)], v[2+2*(ci*2+ri)]
				exp := st.Reads[ci]
				if has != exp.Has {
					fail(in.cls[ci], si, fmt.Sprintf("has-key through %s gives %v, prescribed %v", in.reps[ci][ri].desc, has, exp.Has))
					return nil
				}
				want := any(missing)
				if exp.Has {
					want = valName(exp.Val)
				}
				if got != want {
					fail(in.cls[ci], si, fmt.Sprintf("indexing through %s gives %v, prescribed %v", in.reps[ci][ri].desc, got, want))
					return nil
				}
			}
		}
		if F <= 33 || si == len(bh.Steps)-1 {
			if cls := dupClass(v[13], in, fillers); cls != nil {
				fail(cls, si, "the map holds two keys that are eq to each other")
				return nil
			}
		}
	}
	return nil
}

// ---------------------------------------------------------------------------------------------
// replay of a stored case

func (s *session) replay(b *valpool.Builder) error {
	raw, err := os.ReadFile(s.c.Replay)
	if err != nil {
		return lib.Infra("%v", err)
	}
	var f struct {
		Case struct {
			Kind    string    `json:"kind"`
			Beh     behaviour `json:"beh"`
			Classes string    `json:"classes"`
			Fill    int       `json:"fill"`
			Via     string    `json:"via"`
		} `json:"case"`
	}
	if err := json.Unmarshal(raw, &f); err != nil {
		return lib.Infra("%v", err)
	}
	switch f.Case.Kind {
	case "behaviour":
		names := strings.Split(f.Case.Classes, ",")
		if len(names) != 3 {
			return lib.Infra("bad class triple %q", f.Case.Classes)
		}
		rng := rand.New(rand.NewSource(s.c.Seed))
		// all combinations of representatives of the three classes
		var cs [3]*class
		for i, n := range names {
			for _, c := range s.classes {
				if c.name == n {
					cs[i] = c
				}
			}
			if cs[i] == nil {
				return lib.Infra("class %q is not usable on this tree", n)
			}
		}
		fc := newFillerCache()
		for t := 0; t < 40; t++ {
			var in inst
			for k := 0; k < 3; k++ {
				in.cls[k] = cs[k]
				in.reps[k][0] = cs[k].a[rng.Intn(len(cs[k].a))]
				in.reps[k][1] = cs[k].b[rng.Intn(len(cs[k].b))]
			}
			base, fillers := fc.get(in, f.Case.Fill, rng)
			s.replayGo(f.Case.Beh, in, base, fillers, f.Case.Fill)
			if err := s.replayElv(b, f.Case.Beh, in, base, fillers, f.Case.Fill); err != nil {
				return err
			}
		}
		return nil
	case "hash-pair", "history":
		// these are re-derived from the pools: run the corresponding phase again
		if f.Case.Kind == "hash-pair" {
			return s.hashPairs(b)
		}
		return s.histories(b)
	}
	return lib.Infra("replay file of kind %q cannot be re-run", f.Case.Kind)
}
