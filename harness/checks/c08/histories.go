package main

import (
	"fmt"
	"math/rand"
	"strconv"
	"strings"
	"time"

	"src.elv.sh/pkg/eval/vals"
	"verif.local/harness/checks/c09/valpool"
	"verif.local/harness/elv"
	"verif.local/harness/lib"
)

// V: long random histories over ALL usable classes at once, any representative of a class at any
// step, 0..2000 filler keys, through the Go API and through the builtins.  After every step the
// real map is projected to the model (class -> value) by iteration; JudgeEqKeys.tla judges every
// recorded step against EqKeys' step relation.

type histStep struct {
	H      int    `json:"h"`
	S      int    `json:"s"`
	Op     string `json:"op"`
	C      int    `json:"c"`
	R      int    `json:"r"`
	X      int    `json:"x"`
	Pre    []int  `json:"pre"`
	Post   []int  `json:"post"`
	Dups   int    `json:"dups"`
	Strays int    `json:"strays"`
	Len    int    `json:"len"`
	Found  bool   `json:"found"`
	Val    int    `json:"val"`
	Via    string `json:"via"`
	fill   int
	dupcls []int
}

func valIndex(v any) int {
	if s, ok := v.(string); ok && strings.HasPrefix(s, "v") {
		if n, err := strconv.Atoi(s[1:]); err == nil {
			return n
		}
	}
	return -1
}

// project attributes every entry of the real map to a class.
func (s *session) project(m any, fillers map[any]bool) (post []int, dups, strays int, dupcls []int) {
	post = make([]int, len(s.classes))
	cnt := make([]int, len(s.classes))
	mm, ok := m.(vals.Map)
	if !ok {
		return post, 0, 1, nil
	}
	for it := mm.Iterator(); it.HasElem(); it.Next() {
		k, v := it.Elem()
		if isFiller(k, fillers) {
			continue
		}
		found := false
		for ci, c := range s.classes {
			if vals.Equal(k, c.a[0].x) || vals.Equal(k, c.b[0].x) {
				cnt[ci]++
				post[ci] = valIndex(v)
				found = true
				break
			}
		}
		if !found {
			strays++
		}
	}
	for ci, n := range cnt {
		if n > 1 {
			dups += n - 1
			dupcls = append(dupcls, ci)
		}
	}
	return
}

func (s *session) histories(b *valpool.Builder) error {
	c := s.c
	nh := c.Pick(16, 300)
	L := c.Pick(100, 250)
	rng := rand.New(rand.NewSource(c.Seed + 991))
	var allReps []any
	for _, cl := range s.classes {
		for _, r := range cl.all() {
			allReps = append(allReps, r.x)
		}
	}
	var steps []histStep
	b.Bind("missing", missing)
	for h := 0; h < nh; h++ {
		F := append([]int{0}, fillSizes...)[rng.Intn(len(fillSizes)+1)]
		var base vals.Map = vals.EmptyMap
		fillers := map[any]bool{}
		if F > 0 {
			for _, k := range makeFillers(allReps, F, rng) {
				base = base.Assoc(k, "filler")
				fillers[k] = true
			}
		}
		via := "go"
		if h%2 == 1 {
			via = "elvish"
		}
		var m any = base
		pre, _, _, _ := s.project(m, fillers)
		for st := 1; st <= L; st++ {
			ci := rng.Intn(len(s.classes))
			// a few classes are hit much more often so that overwrite / delete / re-insert happen
			if rng.Intn(2) == 0 {
				ci = rng.Intn(4)
			}
			reps := s.classes[ci].all()
			ri := rng.Intn(len(reps))
			k := reps[ri].x
			x := 1 + rng.Intn(3)
			op := []string{"assoc", "assoc", "assoc", "dissoc", "dissoc", "has-key", "has-key", "index", "index", "index"}[rng.Intn(10)]
			hs := histStep{H: h, S: st, Op: op, C: ci + 1, R: ri + 1, Pre: pre, Via: via, fill: F}
			var err error
			if via == "go" {
				c.AddEvals(1)
				switch op {
				case "assoc":
					hs.X = x
					m, err = vals.Assoc(m, k, valName(x))
				case "dissoc":
					if d := vals.Dissoc(m, k); d != nil {
						m = d
					} else {
						err = fmt.Errorf("Dissoc returned nil")
					}
				case "has-key":
					hs.Found = vals.HasKey(m, k)
				case "index":
					v, e := vals.Index(m, k)
					hs.Found = e == nil
					if e == nil {
						hs.Val = valIndex(v)
					}
				}
			} else {
				b.Bind("m", m)
				b.Bind("k", k)
				var code string
				switch op {
				case "assoc":
					hs.X = x
					code = "put (assoc $m $k " + valName(x) + ")"
				case "dissoc":
					code = "put (dissoc $m $k)"
				case "has-key":
					code = "put (has-key $m $k)"
				case "index":
					code = "try { put $m[$k] } catch { put $missing }"
				}
				o := elv.Run(b.Ev, code)
				c.AddEvals(1)
				switch {
				case o.Panic != "":
					err = fmt.Errorf("panic: %s", o.Panic)
				case o.Err != nil:
					err = o.Err
				case len(o.Values) != 1:
					err = fmt.Errorf("%d outputs", len(o.Values))
				case op == "assoc" || op == "dissoc":
					m = o.Values[0]
				case op == "has-key":
					hs.Found, _ = o.Values[0].(bool)
				default:
					if o.Values[0] != any(missing) {
						hs.Found = true
						hs.Val = valIndex(o.Values[0])
					}
				}
			}
			if err != nil {
				s.reject(s.keyFor(s.classes[ci], "error"), fmt.Sprintf("%s: %s through %s of class %s failed: %v", via, op, reps[ri].desc, s.classes[ci].name, err),
					map[string]any{"kind": "history", "step": hs})
				break
			}
			hs.Post, hs.Dups, hs.Strays, hs.dupcls = s.project(m, fillers)
			hs.Len = vals.Len(m) - F
			steps = append(steps, hs)
			pre = hs.Post
			if hs.Dups > 0 || hs.Strays > 0 {
				break // the projection is no longer a function: nothing more can be attributed
			}
		}
	}
	c.Sample(steps[len(steps)/2])
	bad, err := lib.Judge(c, "JudgeEqKeys", s.dir, "JudgeEqKeys", steps, c.Pick(2, 4), 20*time.Minute)
	if err != nil {
		return err
	}
	c.AddTraces(len(steps))
	c.Set("history_steps_judged", len(steps))
	c.Set("histories", nh)
	for i := 0; i < len(steps) && i < 3000; i++ {
		st := steps[i]
		c.Distinct(fmt.Sprintf("hist|%s|%d|%d|%v", st.Op, st.C, st.R, st.Pre))
	}
	why := map[int][]string{}
	var order []int
	for _, bc := range bad {
		if _, ok := why[bc.Index]; !ok {
			order = append(order, bc.Index)
		}
		why[bc.Index] = append(why[bc.Index], fmt.Sprint(bc.Info...))
	}
	for _, k := range order {
		st := steps[k]
		cls := s.classes[st.C-1]
		if len(st.dupcls) > 0 {
			cls = s.classes[st.dupcls[0]]
		}
		why := strings.Join(why[k], "+")
		s.reject(s.keyFor(cls, why), fmt.Sprintf("%s: history %d step %d (%d fillers): %s on class %s through %s: rejected (%s): pre %v post %v len %d found %v val %d",
			st.Via, st.H, st.S, st.fill, st.Op, s.classes[st.C-1].name, s.classes[st.C-1].all()[st.R-1].desc, why, st.Pre, st.Post, st.Len, st.Found, st.Val),
			map[string]any{"kind": "history", "step": st})
	}
	c.Logf("V: %d histories, %d recorded steps judged, %d rejected", nh, len(steps), len(order))
	return nil
}
