package main

import (
	"math/rand"
	"strings"
)

// gen draws random abstract values (depth <= 5, width <= 8).  It only chooses inputs: whether a
// drawn value is well-formed (keys of a map pairwise unrelated) is re-checked by JudgeRepr
// (Valid), an ill-formed value is a machinery error.
type gen struct{ rnd *rand.Rand }

var keyAtoms = []AVal{atom("num", "i:0"), atom("num", "f:+0.0"), atom("num", "f:-0.0"), atom("num", "i:1"), atom("num", "f:1.0"),
	atom("num", "f:NaN"), atom("str", "s:numlike"), atom("str", "s:empty"), atom("nil", "nil"), atom("num", "i:2^63"), atom("num", "f:2^63")}

func (g *gen) atom() AVal {
	n := 3 + len(strClasses) + len(numAtoms)
	i := g.rnd.Intn(n)
	switch {
	case i == 0:
		return atom("nil", "nil")
	case i == 1:
		return atom("bool", "true")
	case i == 2:
		return atom("bool", "false")
	case i < 3+len(strClasses):
		return atom("str", strClasses[i-3])
	}
	return atom("num", numAtoms[i-3-len(strClasses)].name)
}

// canon is a string that is equal for values the specification relates by RT (zero sign ignored,
// maps as sorted entry lists); used only to keep the keys of one generated map apart.
func canon(v AVal) string {
	switch v.K {
	case "list":
		ss := make([]string, len(v.Es))
		for i, e := range v.Es {
			ss[i] = canon(e)
		}
		return "[" + strings.Join(ss, " ") + "]"
	case "map":
		ss := make([]string, len(v.Ps))
		for i, p := range v.Ps {
			ss[i] = canon(p[0]) + "=" + canon(p[1])
		}
		sortStrings(ss)
		return "{" + strings.Join(ss, " ") + "}"
	}
	if v.A == "f:-0.0" {
		return "num/f:+0.0"
	}
	return v.K + "/" + v.A
}

func sortStrings(ss []string) {
	for i := 1; i < len(ss); i++ {
		for j := i; j > 0 && ss[j] < ss[j-1]; j-- {
			ss[j], ss[j-1] = ss[j-1], ss[j]
		}
	}
}

func (g *gen) value(d, w int, halve, top bool) AVal {
	kind := "atom"
	if d > 0 {
		if top {
			kind = []string{"list", "map"}[g.rnd.Intn(2)]
		} else {
			kind = []string{"atom", "atom", "list", "map", "map"}[g.rnd.Intn(5)]
		}
	}
	w2 := w
	if halve && w > 1 {
		w2 = w / 2
	}
	switch kind {
	case "atom":
		return g.atom()
	case "list":
		n := g.rnd.Intn(w + 1)
		out := AVal{K: "list"}
		for i := 0; i < n; i++ {
			out.Es = append(out.Es, g.value(d-1, w2, halve, false))
		}
		return out
	}
	n := g.rnd.Intn(w + 1)
	out := AVal{K: "map"}
	seen := map[string]bool{}
	for i := 0; i < n; i++ {
		var k AVal
		switch g.rnd.Intn(6) {
		case 0, 1:
			kw := w2
			if kw > 2 {
				kw = 2
			}
			k = g.value(d-1, kw, halve, false)
		case 2, 3:
			k = keyAtoms[g.rnd.Intn(len(keyAtoms))]
		default:
			k = g.atom()
		}
		ck := canon(k)
		if seen[ck] {
			continue
		}
		seen[ck] = true
		out.Ps = append(out.Ps, [2]AVal{k, g.value(d-1, w2, halve, false)})
	}
	return out
}

// draw mixes three shapes: deep (width 8,4,2,1,1), wide (depth 2, width 8), narrow (depth 5, width 2).
func (g *gen) draw() AVal {
	switch g.rnd.Intn(3) {
	case 0:
		return g.value(5, 8, true, true)
	case 1:
		return g.value(2, 8, false, true)
	}
	return g.value(5, 2, false, true)
}

// probes are directed cases around the known finding: two keys that are not eq but rank equal in
// `compare &total` (exact 0 against inexact 0.0) at several nesting positions.
func probes() []AVal {
	i0, f0, fm0 := atom("num", "i:0"), atom("num", "f:+0.0"), atom("num", "f:-0.0")
	x, y, z := atom("str", "s:bare"), atom("str", "s:bare2"), atom("str", "s:tab")
	doc := aMap([2]AVal{i0, x}, [2]AVal{f0, y})
	return []AVal{
		doc,
		aMap([2]AVal{f0, y}, [2]AVal{i0, x}),
		aMap([2]AVal{i0, x}, [2]AVal{fm0, y}),
		aMap([2]AVal{i0, x}, [2]AVal{f0, y}, [2]AVal{z, z}),
		aList(doc, doc),
		aMap([2]AVal{x, doc}),
		aMap([2]AVal{doc, x}),
		aMap([2]AVal{aList(i0), x}, [2]AVal{aList(f0), y}),
		aMap([2]AVal{atom("num", "i:1"), x}, [2]AVal{atom("num", "f:1.0"), y}),
		aMap([2]AVal{atom("num", "i:2^63"), x}, [2]AVal{atom("num", "f:2^63"), y}),
		aMap([2]AVal{aMap([2]AVal{x, x}), x}, [2]AVal{aMap([2]AVal{y, y}), y}),
	}
}
