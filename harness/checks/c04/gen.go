package main

import (
	"encoding/hex"
	"fmt"
	"math"
	"math/big"
	"math/rand"
	"strconv"
	"strings"

	"src.elv.sh/pkg/eval/vals"
)

// isRep: every representative string of a class; poolImage: float64 images of the pool numbers
// (filled by initAtoms) -- dynamic atoms keep clear of both.
var isRep = map[string]bool{}
var poolImage = map[uint64]bool{}

// gen draws random abstract values (depth <= 5, width <= 8).  It only chooses inputs: whether a
// drawn value is well-formed (keys of a map pairwise unrelated) is re-checked by JudgeRepr
// (Valid), an ill-formed value is a machinery error.
type gen struct {
	rnd  *rand.Rand
	dstr map[string]string // dynamic atoms of the value being drawn
	dnum map[string]string
	seen map[string]bool
}

// takeDyn returns and resets the dynamic atom tables of the value drawn last.
func (g *gen) takeDyn() (map[string]string, map[string]string) {
	ds, dn := g.dstr, g.dnum
	g.dstr, g.dnum, g.seen = nil, nil, nil
	return ds, dn
}

// dynStr draws a random byte string (adversarial alphabet) as a new string atom "d:<n>".
func (g *gen) dynStr() AVal {
	alphabet := []string{"a", "b", "Z", "0", "9", " ", "'", "\"", "\\", "\t", "\n", "\r", "$", "~", "&", "=", "[", "]", "{", "}", "(", ")", "|", ";", "#", "*", "?", "<", ">", "`", ",", "^", ".", "-", "+", "/", ":", "%", "@", "!",
		"\x00", "\x1b", "\x7f", "\xff", "\xc3", "\xe4\xbd", "é", "你", "😀", "\u200b", "\u00a0", "\ufffd", "\u2028"}
	for {
		n := 1 + g.rnd.Intn(6)
		s := ""
		for i := 0; i < n; i++ {
			s += alphabet[g.rnd.Intn(len(alphabet))]
		}
		if g.seen["s"+s] || isRep[s] {
			continue
		}
		if g.dstr == nil {
			g.dstr, g.seen = map[string]string{}, orMap(g.seen)
		}
		g.seen["s"+s] = true
		name := fmt.Sprintf("d:%d", len(g.dstr)+1)
		g.dstr[name] = hex.EncodeToString([]byte(s))
		return atom("str", name)
	}
}

func orMap(m map[string]bool) map[string]bool {
	if m == nil {
		return map[string]bool{}
	}
	return m
}

// dynNum draws a random number text for the real constructor as a new number atom "n:<n>".
// Values within one case have pairwise different float64 images (so no two of them tie in the
// numeric order) and differ from every pool atom.
func (g *gen) dynNum() AVal {
	for {
		var t string
		switch g.rnd.Intn(10) {
		case 8: // power of two or ten, or a neighbour
			b := new(big.Int).Lsh(big.NewInt(1), uint(1+g.rnd.Intn(66)))
			if g.rnd.Intn(2) == 0 {
				b = new(big.Int).Exp(big.NewInt(10), big.NewInt(int64(1+g.rnd.Intn(21))), nil)
			}
			b.Add(b, big.NewInt(int64(g.rnd.Intn(3)-1)))
			if g.rnd.Intn(2) == 0 {
				b.Neg(b)
			}
			t = b.String()
		case 9: // dense small ints
			t = strconv.Itoa(g.rnd.Intn(1401) - 300)
		case 0: // machine int
			t = strconv.FormatInt(g.rnd.Int63n(1<<62)-(1<<61), 10)
		case 1: // small int
			t = strconv.Itoa(g.rnd.Intn(2000) - 1000)
		case 2: // big int
			b := new(big.Int).Lsh(big.NewInt(1), uint(63+g.rnd.Intn(100)))
			b.Add(b, big.NewInt(g.rnd.Int63n(1000)))
			if g.rnd.Intn(2) == 0 {
				b.Neg(b)
			}
			t = b.String()
		case 3: // rational
			t = fmt.Sprintf("%d/%d", g.rnd.Intn(2000)-1000, 2+g.rnd.Intn(1000))
		case 4: // float, random bits
			f := math.Float64frombits(g.rnd.Uint64())
			if math.IsNaN(f) || math.IsInf(f, 0) {
				continue
			}
			t = strconv.FormatFloat(f, 'g', 17, 64)
		case 5: // integer-valued float with 1..22 digits
			d := 1 + g.rnd.Intn(22)
			f := math.Trunc(math.Pow(10, float64(d-1)) * (1 + 9*g.rnd.Float64()))
			if g.rnd.Intn(3) == 0 {
				f = math.Pow(10, float64(d-1))
			}
			t = strconv.FormatFloat(f, 'e', -1, 64)
		case 6: // small-magnitude float around the 0.0001 threshold
			t = strconv.FormatFloat(math.Pow(10, float64(-1-g.rnd.Intn(8)))*(1+9*g.rnd.Float64()), 'g', -1, 64)
		default: // short decimal
			t = strconv.FormatFloat(float64(g.rnd.Intn(2_000_000)-1_000_000)/1000, 'f', -1, 64)
			if !strings.Contains(t, ".") {
				t += ".0"
			}
		}
		x := vals.ParseNum(t)
		if x == nil {
			continue
		}
		img := vals.ConvertToFloat64(x)
		key := "n" + strconv.FormatUint(math.Float64bits(img), 16)
		if img == 0 || img == 1 || math.Abs(img) == 0.5 || g.seen[key] || poolImage[math.Float64bits(img)] {
			continue
		}
		if g.dnum == nil {
			g.dnum = map[string]string{}
		}
		g.seen = orMap(g.seen)
		g.seen[key] = true
		name := fmt.Sprintf("n:%d", len(g.dnum)+1)
		g.dnum[name] = t
		return atom("dnum", name)
	}
}

var keyAtoms = []AVal{atom("num", "i:0"), atom("num", "f:+0.0"), atom("num", "f:-0.0"), atom("num", "i:1"), atom("num", "f:1.0"),
	atom("num", "f:NaN"), atom("str", "s:numlike"), atom("str", "s:empty"), atom("nil", "nil"), atom("num", "i:2^63"), atom("num", "f:2^63")}

func (g *gen) atom() AVal {
	switch g.rnd.Intn(10) {
	case 0, 1:
		return g.dynNum()
	case 2:
		return g.dynStr()
	}
	n := 3 + len(strClasses) + len(numAtoms)
	i := g.rnd.Intn(n)
	switch {
	case i == 0:
		return atom("nil", "nil")
	case i == 1:
		return atom("bool", "true")
	case i == 2:
		return atom("bool", "false")
	case i < 3+len(strClasses):
		return atom("str", strClasses[i-3])
	}
	return atom("num", numAtoms[i-3-len(strClasses)].name)
}

// canon is a string that is equal for values the specification relates by RT (zero sign ignored,
// maps as sorted entry lists); used only to keep the keys of one generated map apart.
func canon(v AVal) string {
	switch v.K {
	case "list":
		ss := make([]string, len(v.Es))
		for i, e := range v.Es {
			ss[i] = canon(e)
		}
		return "[" + strings.Join(ss, " ") + "]"
	case "map":
		ss := make([]string, len(v.Ps))
		for i, p := range v.Ps {
			ss[i] = canon(p[0]) + "=" + canon(p[1])
		}
		sortStrings(ss)
		return "{" + strings.Join(ss, " ") + "}"
	}
	if v.A == "f:-0.0" {
		return "num/f:+0.0"
	}
	return v.K + "/" + v.A
}

func sortStrings(ss []string) {
	for i := 1; i < len(ss); i++ {
		for j := i; j > 0 && ss[j] < ss[j-1]; j-- {
			ss[j], ss[j-1] = ss[j-1], ss[j]
		}
	}
}

func (g *gen) value(d, w int, halve, top bool) AVal {
	kind := "atom"
	if d > 0 {
		if top {
			kind = []string{"list", "map"}[g.rnd.Intn(2)]
		} else {
			kind = []string{"atom", "atom", "list", "map", "map"}[g.rnd.Intn(5)]
		}
	}
	w2 := w
	if halve && w > 1 {
		w2 = w / 2
	}
	switch kind {
	case "atom":
		return g.atom()
	case "list":
		n := g.rnd.Intn(w + 1)
		out := AVal{K: "list"}
		for i := 0; i < n; i++ {
			out.Es = append(out.Es, g.value(d-1, w2, halve, false))
		}
		return out
	}
	n := g.rnd.Intn(w + 1)
	out := AVal{K: "map"}
	seen := map[string]bool{}
	for i := 0; i < n; i++ {
		var k AVal
		switch g.rnd.Intn(6) {
		case 0, 1:
			kw := w2
			if kw > 2 {
				kw = 2
			}
			k = g.value(d-1, kw, halve, false)
		case 2, 3:
			k = keyAtoms[g.rnd.Intn(len(keyAtoms))]
		default:
			k = g.atom()
		}
		ck := canon(k)
		if seen[ck] {
			continue
		}
		seen[ck] = true
		out.Ps = append(out.Ps, [2]AVal{k, g.value(d-1, w2, halve, false)})
	}
	return out
}

// draw mixes three shapes: deep (width 8,4,2,1,1), wide (depth 2, width 8), narrow (depth 5, width 2).
func (g *gen) draw() AVal {
	switch g.rnd.Intn(3) {
	case 0:
		return g.value(5, 8, true, true)
	case 1:
		return g.value(2, 8, false, true)
	}
	return g.value(5, 2, false, true)
}

// sweepNumbers lists the texts (for the real constructor vals.ParseNum) of the dense number sweep.
func sweepNumbers() []string {
	var out []string
	seen := map[string]bool{}
	add := func(b *big.Int) {
		for _, d := range []int64{-1, 0, 1} {
			for _, sign := range []int64{1, -1} {
				x := new(big.Int).Add(b, big.NewInt(d))
				x.Mul(x, big.NewInt(sign))
				if t := x.String(); !seen[t] {
					seen[t] = true
					out = append(out, t)
				}
			}
		}
	}
	for i := -300; i <= 1100; i++ {
		t := strconv.Itoa(i)
		seen[t] = true
		out = append(out, t)
	}
	for k := uint(1); k <= 66; k++ {
		add(new(big.Int).Lsh(big.NewInt(1), k))
	}
	for k := int64(1); k <= 21; k++ {
		add(new(big.Int).Exp(big.NewInt(10), big.NewInt(k), nil))
	}
	return out
}

// sweepCases: every sweep number n as the values  n  and  [n [&n=x] [&x=n]].
func sweepCases() []caseIn {
	var out []caseIn
	x := atom("str", "s:bare")
	for _, t := range sweepNumbers() {
		n := atom("dnum", "n:1")
		dn := map[string]string{"n:1": t}
		if real := vals.ParseNum(t); real != nil {
			for _, na := range numAtoms { // a pool atom is used under its own name
				if sameNum(numReal[na.name], real) {
					n, dn = atom("num", na.name), nil
				}
			}
		}
		out = append(out, caseIn{Src: "sweep", V: n, DNum: dn},
			caseIn{Src: "sweep", V: aList(n, aMap([2]AVal{n, x}), aMap([2]AVal{x, n})), DNum: dn})
	}
	return out
}

// probes are directed cases around the known finding: two keys that are not eq but rank equal in
// `compare &total` (exact 0 against inexact 0.0) at several nesting positions.
func probes() []AVal {
	i0, f0, fm0 := atom("num", "i:0"), atom("num", "f:+0.0"), atom("num", "f:-0.0")
	x, y, z := atom("str", "s:bare"), atom("str", "s:bare2"), atom("str", "s:tab")
	doc := aMap([2]AVal{i0, x}, [2]AVal{f0, y})
	return []AVal{
		doc,
		aMap([2]AVal{f0, y}, [2]AVal{i0, x}),
		aMap([2]AVal{i0, x}, [2]AVal{fm0, y}),
		aMap([2]AVal{i0, x}, [2]AVal{f0, y}, [2]AVal{z, z}),
		aList(doc, doc),
		aMap([2]AVal{x, doc}),
		aMap([2]AVal{doc, x}),
		aMap([2]AVal{aList(i0), x}, [2]AVal{aList(f0), y}),
		aMap([2]AVal{atom("num", "i:1"), x}, [2]AVal{atom("num", "f:1.0"), y}),
		aMap([2]AVal{atom("num", "i:2^63"), x}, [2]AVal{atom("num", "f:2^63"), y}),
		aMap([2]AVal{aMap([2]AVal{x, x}), x}, [2]AVal{aMap([2]AVal{y, y}), y}),
	}
}
