package main

// Concretisation (abstract value -> real Elvish value) and projection (real value -> abstract
// value) for C04, kept next to each other.  Neither contains an expectation: which abstract
// values are related is decided by spec/Repr/Repr.tla.

import (
	"encoding/json"
	"fmt"
	"math"
	"math/big"
	"math/rand"
	"sort"

	"src.elv.sh/pkg/eval/vals"
	"verif.local/harness/lib"
)

// AVal mirrors the record shape of Repr.tla: [k, a, es, ps].
type AVal struct {
	K  string    `json:"k"`
	A  string    `json:"a"`
	Es []AVal    `json:"es"`
	Ps [][2]AVal `json:"ps"`
}

// MarshalJSON writes the compact form read by JudgeRepr.Norm: atoms {k,a}, lists {k,es}, maps {k,ps}.
func (v AVal) MarshalJSON() ([]byte, error) {
	switch v.K {
	case "list":
		es := v.Es
		if es == nil {
			es = []AVal{}
		}
		return json.Marshal(struct {
			K  string `json:"k"`
			Es []AVal `json:"es"`
		}{v.K, es})
	case "map":
		ps := v.Ps
		if ps == nil {
			ps = [][2]AVal{}
		}
		return json.Marshal(struct {
			K  string    `json:"k"`
			Ps [][2]AVal `json:"ps"`
		}{v.K, ps})
	}
	return json.Marshal(struct {
		K string `json:"k"`
		A string `json:"a"`
	}{v.K, v.A})
}

// listing returns v with the entries of every map sorted by their JSON text: a canonical listing
// of the set of pairs (no semantics: two listings are equal iff the sets of JSON texts are).
func listing(v AVal) AVal {
	out := AVal{K: v.K, A: v.A}
	for _, e := range v.Es {
		out.Es = append(out.Es, listing(e))
	}
	if len(v.Ps) > 0 {
		type ent struct {
			txt string
			p   [2]AVal
		}
		es := make([]ent, len(v.Ps))
		for i, p := range v.Ps {
			q := [2]AVal{listing(p[0]), listing(p[1])}
			b, _ := json.Marshal(q)
			es[i] = ent{string(b), q}
		}
		sort.SliceStable(es, func(i, j int) bool { return es[i].txt < es[j].txt })
		for _, e := range es {
			out.Ps = append(out.Ps, e.p)
		}
	}
	return out
}

func atom(k, a string) AVal { return AVal{K: k, A: a} }
func aList(es ...AVal) AVal { return AVal{K: "list", Es: es} }
func aMap(ps ...[2]AVal) AVal {
	return AVal{K: "map", Ps: ps}
}

// hasBigMap tells whether some map inside v has at least n entries.
func hasMapOf(v AVal, n int) bool {
	if v.K == "map" && len(v.Ps) >= n {
		return true
	}
	for _, e := range v.Es {
		if hasMapOf(e, n) {
			return true
		}
	}
	for _, p := range v.Ps {
		if hasMapOf(p[0], n) || hasMapOf(p[1], n) {
			return true
		}
	}
	return false
}

func hasNaN(v AVal) bool {
	if v.A == "f:NaN" {
		return true
	}
	for _, e := range v.Es {
		if hasNaN(e) {
			return true
		}
	}
	for _, p := range v.Ps {
		if hasNaN(p[0]) || hasNaN(p[1]) {
			return true
		}
	}
	return false
}

func size(v AVal) int {
	n := 1
	for _, e := range v.Es {
		n += size(e)
	}
	for _, p := range v.Ps {
		n += size(p[0]) + size(p[1])
	}
	return n
}

func depth(v AVal) int {
	d := 0
	for _, e := range v.Es {
		if x := depth(e) + 1; x > d {
			d = x
		}
	}
	for _, p := range v.Ps {
		for _, e := range p {
			if x := depth(e) + 1; x > d {
				d = x
			}
		}
	}
	return d
}

// ---- string atoms: class -> representatives (pairwise disjoint across classes)

var strReps = map[string][]string{
	"s:empty":   {""},
	"s:bare":    {"a", "foo", "Z9", "a-b_c", "x.y", "%", "+", "a:b", "@"},
	"s:bare2":   {"b", "bar", "Q7", "-", "/usr/bin", "..", "k", "_"},
	"s:space":   {" ", "a b", "  x ", "a  "},
	"s:squote":  {"'", "it's", "''", "'a'"},
	"s:dquote":  {"\"", "say \"hi\"", "\"\"", "'\""},
	"s:tab":     {"\t", "a\tb", "\t\t", " \t"},
	"s:nl":      {"\n", "a\nb", "\r\n", "\n\n", "a\r"},
	"s:bad":     {"\xff", "a\xffb", "\xc3", "\xe4\xbd", "\xf0\x9f\x98", "\xc0\x80", "\xed\xa0\x80"},
	"s:ctrl":    {"\x00", "\x1b[0m", "\x7f", "a\x01b", "\x08"},
	"s:uni":     {"é", "你好", "😀", "ñandú", "Ω"},
	"s:unp":     {"\u200b", "\u0085", "\U000e0001", "\u00a0", "\u2028", "\ufeff", "\ufffd"},
	"s:meta":    {"$x", "a;b", "(", "[", "]", "{", "}", "|", "&", "=", "#c", "*", "?", "<", ">", "\\", "`", ",", "a=b", "a|b", "^", "!"},
	"s:numlike": {"0", "1", "0.0", "-1", "NaN", "1/3", "+Inf", "0x10", "1e3", "-0"},
	"s:kw":      {"$nil", "$true", "nil", "true", "&a=b", "[a]", "(num 0)", "[&]"},
	"s:tilde":   {"~", "~a", "a~", "~/x"},
}

var strClasses []string // sorted

// ---- number atoms: name -> Elvish code that builds it through the real constructors

type numAtom struct {
	name   string
	code   string // Elvish code that denotes the number (checked as a "literal" case, judged by TLC)
	cls    string
	native any // the value itself, built in Go in its canonical representation
}

func bigI(s string) *big.Int { z, _ := new(big.Int).SetString(s, 10); return z }
func bigR(a, b string) *big.Rat {
	return new(big.Rat).SetFrac(bigI(a), bigI(b)) // SetFrac normalises; none of these is an integer
}

// The original of every number atom is built natively, so that it is what the table says whatever
// the number parser does; what `num <text>` / arithmetic denotes is a separate, judged case.
var numAtoms = []numAtom{
	{"i:0", "num 0", "int", 0}, {"i:1", "num 1", "int", 1}, {"i:-1", "num -1", "int", -1}, {"i:42", "* 6 7", "int", 42},
	{"i:maxint", "num 9223372036854775807", "int", int(math.MaxInt64)}, {"i:minint", "num -9223372036854775808", "int", int(math.MinInt64)},
	{"i:2^63", "+ 9223372036854775807 1", "bigint", bigI("9223372036854775808")}, {"i:-2^63-1", "- -9223372036854775808 1", "bigint", bigI("-9223372036854775809")},
	{"i:10^30", "num 1000000000000000000000000000000", "bigint", bigI("1000000000000000000000000000000")},
	{"i:-10^30", "* -1 (num 1000000000000000000000000000000)", "bigint", bigI("-1000000000000000000000000000000")},
	{"r:1/3", "/ 1 3", "rat", big.NewRat(1, 3)}, {"r:-1/3", "num -1/3", "rat", big.NewRat(-1, 3)}, {"r:3/2", "/ 6 4", "rat", big.NewRat(3, 2)},
	{"r:big", "/ 100000000000000000000000000001 300000000000000000000000000000", "rat", bigR("100000000000000000000000000001", "300000000000000000000000000000")},
	{"f:+0.0", "num 0.0", "float", 0.0}, {"f:-0.0", "num -0.0", "float", math.Copysign(0, -1)}, {"f:1.0", "num 1.0", "float", 1.0}, {"f:-1.5", "num -1.5", "float", -1.5},
	{"f:0.1", "num 0.1", "float", 0.1}, {"f:+Inf", "num +Inf", "float", math.Inf(1)}, {"f:-Inf", "num -Inf", "float", math.Inf(-1)}, {"f:NaN", "num NaN", "float", math.NaN()},
	{"f:1e21", "num 1e21", "float", 1e21}, {"f:1e-7", "num 1e-7", "float", 1e-7}, {"f:max", "num 1.7976931348623157e308", "float", math.MaxFloat64},
	{"f:denorm", "num 5e-324", "float", math.SmallestNonzeroFloat64}, {"f:2^63", "+ 9223372036854775807 1.0", "float", 9223372036854775808.0}, {"f:1e15", "num 1e15", "float", 1e15},
	{"f:123456.789", "num 123456.789", "float", 123456.789},
	{"f:2^53", "num 9007199254740992.0", "float", 9007199254740992.0}, {"f:12345678901", "* 12345678901 1.0", "float", 12345678901.0},
}

var numReal = map[string]any{} // name -> real value, built once by the real Evaler

func goCls(v any) string {
	switch v.(type) {
	case int:
		return "int"
	case *big.Int:
		return "bigint"
	case *big.Rat:
		return "rat"
	case float64:
		return "float"
	}
	return "none"
}

// sameNum: identical representation class and identical value bits (NaN matches NaN).
func sameNum(a, b any) bool {
	switch a := a.(type) {
	case int:
		b, ok := b.(int)
		return ok && a == b
	case *big.Int:
		b, ok := b.(*big.Int)
		return ok && a.Cmp(b) == 0
	case *big.Rat:
		b, ok := b.(*big.Rat)
		return ok && a.Cmp(b) == 0
	case float64:
		b, ok := b.(float64)
		if !ok {
			return false
		}
		if math.IsNaN(a) || math.IsNaN(b) {
			return math.IsNaN(a) && math.IsNaN(b)
		}
		return math.Float64bits(a) == math.Float64bits(b)
	}
	return false
}

// initAtoms registers the number atoms and checks the tables (machinery).
func initAtoms() error {
	for c := range strReps {
		strClasses = append(strClasses, c)
	}
	sort.Strings(strClasses)
	seen := map[string]string{}
	for _, c := range strClasses {
		for _, s := range strReps[c] {
			if o, dup := seen[s]; dup {
				return lib.Infra("string representative %q in classes %s and %s", s, o, c)
			}
			seen[s] = c
			isRep[s] = true
		}
	}
	for _, na := range numAtoms {
		if goCls(na.native) != na.cls {
			return lib.Infra("number atom %s: native value is a %T, table says %s", na.name, na.native, na.cls)
		}
		for n, r := range numReal {
			if sameNum(r, na.native) {
				return lib.Infra("number atoms %s and %s are the same real value", n, na.name)
			}
		}
		numReal[na.name] = na.native
		poolImage[math.Float64bits(vals.ConvertToFloat64(na.native))] = true
	}
	return nil
}

// repSel fixes, for one case, which representative every string class stands for.
type repSel struct {
	seed int64
	dstr map[string]string // dynamic string atoms "d:<n>" -> bytes
	dnum map[string]any    // dynamic number atoms "n:<n>" -> real value
}

func (r repSel) str(class string) (string, bool) {
	if s, ok := r.dstr[class]; ok {
		return s, true
	}
	reps, ok := strReps[class]
	if !ok {
		return "", false
	}
	h := uint64(r.seed)*0x9e3779b97f4a7c15 + 0x1234567
	for i := 0; i < len(class); i++ {
		h = (h ^ uint64(class[i])) * 0x100000001b3
	}
	return reps[(h>>17)%uint64(len(reps))], true
}

func (r repSel) class(s string) string {
	for n, x := range r.dstr {
		if x == s {
			return n
		}
	}
	for _, c := range strClasses {
		if x, _ := r.str(c); x == s {
			return c
		}
	}
	return "?"
}

// ---- concretise: abstract value + construction history -> real value

// history: how every map inside the value is put together.
//
//	asis      entries in the order TLC listed them
//	rev       reversed
//	shufN     seeded permutation N
//	overwrite every key first associated (in reverse order) with $nil, then with its value in order
//	dissoc    a foreign key is inserted first and removed at the end
const foreignKey = "\x00verif-foreign-key\x00"

func build(v AVal, hist string, rs repSel, rnd *rand.Rand) (any, error) {
	switch v.K {
	case "nil":
		return nil, nil
	case "bool":
		return v.A == "true", nil
	case "str":
		s, ok := rs.str(v.A)
		if !ok {
			return nil, fmt.Errorf("unknown string atom %q", v.A)
		}
		return s, nil
	case "num":
		r, ok := numReal[v.A]
		if !ok {
			return nil, fmt.Errorf("unknown number atom %q", v.A)
		}
		return r, nil
	case "dnum":
		r, ok := rs.dnum[v.A]
		if !ok {
			return nil, fmt.Errorf("unknown dynamic number %q", v.A)
		}
		return r, nil
	case "list":
		l := vals.EmptyList
		for _, e := range v.Es {
			x, err := build(e, hist, rs, rnd)
			if err != nil {
				return nil, err
			}
			l = l.Conj(x)
		}
		return l, nil
	case "map":
		n := len(v.Ps)
		ks := make([]any, n)
		xs := make([]any, n)
		for i, p := range v.Ps {
			var err error
			if ks[i], err = build(p[0], hist, rs, rnd); err != nil {
				return nil, err
			}
			if xs[i], err = build(p[1], hist, rs, rnd); err != nil {
				return nil, err
			}
		}
		idx := make([]int, n)
		for i := range idx {
			idx[i] = i
		}
		m := vals.EmptyMap
		switch {
		case hist == "rev":
			for i, j := 0, n-1; i < j; i, j = i+1, j-1 {
				idx[i], idx[j] = idx[j], idx[i]
			}
		case len(hist) > 4 && hist[:4] == "shuf":
			rnd.Shuffle(n, func(i, j int) { idx[i], idx[j] = idx[j], idx[i] })
		case hist == "overwrite":
			for i := n - 1; i >= 0; i-- {
				if !hasNaN(v.Ps[i][0]) { // a key holding NaN is not eq to itself: a second Assoc would add an entry
					m = m.Assoc(ks[i], nil)
				}
			}
		case hist == "dissoc":
			m = m.Assoc(foreignKey, "x")
		}
		for _, i := range idx {
			m = m.Assoc(ks[i], xs[i])
		}
		if hist == "dissoc" {
			m = m.Dissoc(foreignKey)
		}
		return m, nil
	}
	return nil, fmt.Errorf("unknown kind %q", v.K)
}

// ---- project: real value -> abstract value (atoms by representation class and exact value)

func project(x any, rs repSel) AVal {
	switch x := x.(type) {
	case nil:
		return atom("nil", "nil")
	case bool:
		if x {
			return atom("bool", "true")
		}
		return atom("bool", "false")
	case string:
		return atom("str", rs.class(x))
	case int, *big.Int, *big.Rat, float64:
		for n, r := range rs.dnum {
			if sameNum(r, x) {
				return atom("dnum", n)
			}
		}
		for _, na := range numAtoms {
			if sameNum(numReal[na.name], x) {
				return atom("num", na.name)
			}
		}
		return atom("num", "?")
	case vals.List:
		out := AVal{K: "list", Es: []AVal{}}
		for it := x.Iterator(); it.HasElem(); it.Next() {
			out.Es = append(out.Es, project(it.Elem(), rs))
		}
		return out
	case vals.Map:
		out := AVal{K: "map", Ps: [][2]AVal{}}
		for it := x.Iterator(); it.HasElem(); it.Next() {
			k, v := it.Elem()
			out.Ps = append(out.Ps, [2]AVal{project(k, rs), project(v, rs)})
		}
		return out
	}
	return atom("error", "kind:"+vals.Kind(x))
}
