// C04 — repr output evaluates back to an equal value; the text depends only on the contents.
//
// M: spec/Repr/MCRepr: the oracle relations EqDoc / RT of Repr.tla are an equivalence (EqDoc up to
//
//	NaN), agree on NaN-free values, on an exhaustive depth<=2/width<=2 value set.
//
// G: spec/Repr/MCReprGen enumerates abstract values (families F0..F6); each is built through the
//
//	real constructors in several construction histories, printed with vals.ReprPlain and
//	vals.Repr(v, 0), both texts are evaluated by the real Evaler (`put <text>`), the results are
//	projected back (representation class per number) and judged by spec/Repr/JudgeRepr (TLC).
//
// V: the same pipeline on seeded random values of depth <= 5 / width <= 8 and on directed probes.
package main

import (
	"encoding/hex"
	"encoding/json"
	"fmt"
	"math/rand"
	"os"
	"strings"
	"sync"
	"time"

	"src.elv.sh/pkg/eval"
	"src.elv.sh/pkg/eval/vals"
	"src.elv.sh/pkg/eval/vars"
	"src.elv.sh/pkg/parse"
	"verif.local/harness/elv"
	"verif.local/harness/lib"
)

const knownOrderKey = "repr-order:keys-equal-under-total-order-not-eq"

// caseIn is an abstract input case; caseRec is what the judge sees.
type caseIn struct {
	ID  int    `json:"id"`
	Src string `json:"src"` // family / "random" / "probe"
	Rep int64  `json:"rep"` // selects the representative string of every class
	// dynamic atoms of this case (random part): strings by name -> hex bytes, numbers by name ->
	// text handed to the real constructor vals.ParseNum
	DStr map[string]string `json:"dstr,omitempty"`
	DNum map[string]string `json:"dnum,omitempty"`
	// Src "literal": Lit is Elvish code that denotes the number atom V; the case records what the
	// real Evaler makes of it (kind of value a number literal / arithmetic result denotes)
	Lit string `json:"lit,omitempty"`
	V   AVal   `json:"v"`
}

type runRec struct {
	Ords   []string `json:"ords"` // construction histories that gave exactly this record
	Plain  string   `json:"plain"`
	Pretty string   `json:"pretty"`
	Bp     int      `json:"bp"`  // 1-based index into Backs: value read back from the single-line text
	Bq     int      `json:"bq"`  // ... from the pretty text
	Eqp    bool     `json:"eqp"` // vals.Equal(original, value read back from the single-line text)
	Eqq    bool     `json:"eqq"`
}

type caseRec struct {
	ID    int      `json:"id"`
	Chk   bool     `json:"chk"` // v does not come from TLC: the judge re-checks that it is well-formed
	V     AVal     `json:"v"`
	Backs []AVal   `json:"backs"`
	Runs  []runRec `json:"runs"`
}

func main() { lib.Main("C04", run) }

func histories(v AVal) []string {
	if !hasMapOf(v, 1) {
		return []string{"asis"}
	}
	if !hasMapOf(v, 2) {
		return []string{"asis", "dissoc"}
	}
	if hasMapOf(v, 3) {
		return []string{"asis", "rev", "shuf1", "shuf2", "shuf3", "overwrite", "dissoc"}
	}
	return []string{"asis", "rev", "overwrite", "dissoc"}
}

type evalerT struct{ ev *eval.Evaler }

func newEvaler() *evalerT { return &evalerT{elv.New()} }

// fastRun evaluates code with the real Evaler, collecting value output in a buffered channel
// (elv.Run creates an OS pipe and two goroutines per call, which dominates at 10^5 evaluations).
func fastRun(ev *eval.Evaler, code string, capacity int) (vs []any, err error, pan string) {
	ch := make(chan any, capacity)
	port := &eval.Port{File: eval.DevNull, Chan: ch}
	func() {
		defer func() {
			if p := recover(); p != nil {
				pan = fmt.Sprint(p)
			}
		}()
		err = ev.Eval(parse.Source{Name: "[verif]", Code: code}, eval.EvalCfg{Ports: []*eval.Port{nil, port, nil}})
	}()
	close(ch)
	for v := range ch {
		vs = append(vs, v)
	}
	return
}

// evalTexts evaluates the texts with the real Evaler: first all of them in one chunk
// (`put T1` newline `put T2` ...: compiling one chunk costs as much as compiling one text); when that
// does not give exactly one value per text, each text on its own so that the failure is attributed.
func (w *evalerT) evalTexts(texts []string) []backVal {
	code := ""
	for _, t := range texts {
		code += "put " + t + "\n"
	}
	vs, err, pan := fastRun(w.ev, code, len(texts)+8)
	out := make([]backVal, len(texts))
	if err == nil && pan == "" && len(vs) == len(texts) {
		for i, v := range vs {
			out[i] = backVal{ok: true, v: v}
		}
		return out
	}
	for i, t := range texts {
		vs, err, pan := fastRun(w.ev, "put "+t, 64)
		switch {
		case pan != "":
			out[i] = backVal{why: "panic"}
		case err != nil:
			out[i] = backVal{why: elv.ErrClass(err)}
		case len(vs) != 1:
			out[i] = backVal{why: fmt.Sprintf("count:%d", len(vs))}
		default:
			out[i] = backVal{ok: true, v: vs[0]}
		}
	}
	return out
}

// builtinTexts runs `repr $x` and `pprint $x` on the real Evaler and returns their byte output
// without the final newline.
func (w *evalerT) builtinTexts(x any) ([2]string, [2]bool, error) {
	var out [2]string
	var pan [2]bool
	ns := eval.CombineNs(w.ev.Global(), eval.BuildNs().AddVar("x", vars.NewReadOnly(x)).Ns())
	for i, code := range []string{"repr $x", "pprint $x"} {
		port, collect, err := eval.CapturePort()
		if err != nil {
			return out, pan, lib.Infra("%v", err)
		}
		func() {
			defer func() {
				if p := recover(); p != nil {
					pan[i] = true
				}
			}()
			err = w.ev.Eval(parse.Source{Name: "[verif]", Code: code}, eval.EvalCfg{Ports: []*eval.Port{nil, port, nil}, Global: ns})
		}()
		_, bs := collect()
		if pan[i] {
			continue
		}
		if err != nil {
			return out, pan, lib.Infra("%s failed: %v", code, err)
		}
		out[i] = strings.TrimSuffix(string(bs), "\n")
	}
	return out, pan, nil
}

// safeText runs a repr call of the real code; a panic is an outcome to be judged, not a crash
// of the executor.
func safeText(f func() string) (s string, panicked bool) {
	defer func() {
		if p := recover(); p != nil {
			s, panicked = "", true
		}
	}()
	return f(), false
}

type backVal struct {
	ok  bool
	v   any
	why string
}

func runCase(c *lib.Ctx, ev *evalerT, ci caseIn) (caseRec, error) {
	rec := caseRec{ID: ci.ID, Chk: ci.Src == "random" || ci.Src == "probe" || ci.Src == "sweep" || ci.Src == "literal", V: listing(ci.V)}
	rs := repSel{seed: ci.Rep, dstr: map[string]string{}, dnum: map[string]any{}}
	for n, h := range ci.DStr {
		b, err := hex.DecodeString(h)
		if err != nil {
			return rec, lib.Infra("case %d: %v", ci.ID, err)
		}
		if c := (repSel{seed: ci.Rep}).class(string(b)); c != "?" {
			return rec, lib.Infra("case %d: dynamic string %q is the representative of %s", ci.ID, b, c)
		}
		rs.dstr[n] = string(b)
	}
	for n, t := range ci.DNum {
		x := vals.ParseNum(t)
		if x == nil {
			return rec, lib.Infra("case %d: vals.ParseNum(%q) failed", ci.ID, t)
		}
		for _, na := range numAtoms {
			if sameNum(numReal[na.name], x) {
				return rec, lib.Infra("case %d: dynamic number %s is the pool atom %s", ci.ID, t, na.name)
			}
		}
		rs.dnum[n] = x
	}
	if ci.Src == "literal" {
		return literalCase(c, ev, ci, rs, rec)
	}
	hs := histories(ci.V)
	reals := make([]any, len(hs))
	var texts []string
	var panicked []bool // the call that should have produced texts[i] panicked
	for hi, h := range hs {
		rnd := rand.New(rand.NewSource(ci.Rep*131 + int64(hi)))
		real, err := build(ci.V, h, rs, rnd)
		if err != nil {
			return rec, lib.Infra("case %d: %v", ci.ID, err)
		}
		reals[hi] = real
		p1, pan1 := safeText(func() string { return vals.ReprPlain(real) })
		p2, pan2 := safeText(func() string { return vals.Repr(real, 0) })
		texts = append(texts, p1, p2)
		panicked = append(panicked, pan1, pan2)
	}
	// one more run: the texts as the builtins `repr` and `pprint` print them (byte output)
	if ci.ID%4 == 1 || ci.Src == "probe" {
		bt, bpan, err := ev.builtinTexts(reals[0])
		if err != nil {
			return rec, err
		}
		hs = append(hs, "builtin:"+hs[0])
		reals = append(reals, reals[0])
		texts = append(texts, bt[0], bt[1])
		panicked = append(panicked, bpan[0], bpan[1])
	}
	backs := ev.evalTexts(texts)
	for i, p := range panicked {
		if p { // no text was printed: recorded as a failed read-back of class "repr-panic"
			backs[i] = backVal{why: "repr-panic"}
		}
	}
	c.AddEvals(2 * len(texts))
	backIdx := map[string]int{}
	addBack := func(b backVal) int {
		a := atom("error", b.why)
		if b.ok {
			a = listing(project(b.v, rs))
		}
		k := mustJSON(a)
		if i, ok := backIdx[k]; ok {
			return i
		}
		rec.Backs = append(rec.Backs, a)
		backIdx[k] = len(rec.Backs)
		return len(rec.Backs)
	}
	index := map[string]int{}
	for hi, h := range hs {
		bp, bq := backs[2*hi], backs[2*hi+1]
		r := runRec{Ords: []string{h}, Plain: hex.EncodeToString([]byte(texts[2*hi])), Pretty: hex.EncodeToString([]byte(texts[2*hi+1])),
			Bp: addBack(bp), Bq: addBack(bq),
			Eqp: bp.ok && vals.Equal(reals[hi], bp.v), Eqq: bq.ok && vals.Equal(reals[hi], bq.v)}
		k := mustJSON([]any{r.Plain, r.Pretty, r.Bp, r.Bq, r.Eqp, r.Eqq})
		if i, ok := index[k]; ok {
			rec.Runs[i].Ords = append(rec.Runs[i].Ords, h)
			continue
		}
		index[k] = len(rec.Runs)
		rec.Runs = append(rec.Runs, r)
	}
	return rec, nil
}

// literalCase: the "text" is harness-written code for a number atom; its value is projected and
// judged like a read-back value (RT against the natively built original, real eq).
func literalCase(c *lib.Ctx, ev *evalerT, ci caseIn, rs repSel, rec caseRec) (caseRec, error) {
	orig, err := build(ci.V, "asis", rs, nil)
	if err != nil {
		return rec, lib.Infra("case %d: %v", ci.ID, err)
	}
	vs, eerr, pan := fastRun(ev.ev, "put ("+ci.Lit+")", 8)
	c.AddEvals(1)
	if eerr != nil || pan != "" || len(vs) != 1 {
		return rec, lib.Infra("literal %q of atom %s does not evaluate to one value: %v %s %v", ci.Lit, ci.V.A, eerr, pan, vs)
	}
	rec.Backs = []AVal{listing(project(vs[0], rs))}
	txt := hex.EncodeToString([]byte(ci.Lit))
	eq := vals.Equal(orig, vs[0])
	rec.Runs = []runRec{{Ords: []string{"literal"}, Plain: txt, Pretty: txt, Bp: 1, Bq: 1, Eqp: eq, Eqq: eq}}
	return rec, nil
}

// runAll executes the cases on the real code (in parallel, one Evaler per goroutine).
func runAll(c *lib.Ctx, cases []caseIn) ([]caseRec, error) {
	recs := make([]caseRec, len(cases))
	const par = 6
	var mu sync.Mutex
	var firstErr error
	chunk := (len(cases) + par - 1) / par
	lib.Parallel(par, par, func(g int) {
		ev := newEvaler()
		for i := g * chunk; i < (g+1)*chunk && i < len(cases); i++ {
			r, err := runCase(c, ev, cases[i])
			if err != nil {
				mu.Lock()
				if firstErr == nil {
					firstErr = err
				}
				mu.Unlock()
				return
			}
			recs[i] = r
		}
	})
	return recs, firstErr
}

// judge hands the records to JudgeRepr and turns rejected cases into verdicts.
func judge(c *lib.Ctx, name string, cases []caseIn, recs []caseRec) error {
	if len(recs) == 0 {
		return nil
	}
	if os.Getenv("C04_SELFTEST") == "corrupt" && len(recs) > 40 {
		// vacuity guard (development only): falsify one recorded read-back value and one text
		recs[20].Backs[0] = atom("str", "s:kw")
		recs[30].Runs = append(recs[30].Runs, recs[30].Runs[0])
		recs[30].Runs[len(recs[30].Runs)-1].Plain += "20"
	}
	if p := os.Getenv("C04_DUMP"); p != "" {
		os.WriteFile(p, lib.NDJSON(recs), 0o644)
	}
	bad, err := lib.Judge(c, name, c.SpecDir("Repr"), "JudgeRepr", recs, 4, 12*time.Minute)
	if err != nil {
		return err
	}
	c.AddTraces(len(recs))
	for _, b := range bad {
		ci, rec := cases[b.Index], recs[b.Index]
		reason, _ := b.Info[0].(string)
		tie, _ := b.Info[1].(string)
		runIdx, _ := b.Info[2].(int64)
		switch {
		case reason == "illformed":
			return lib.Infra("generator produced an ill-formed value (case %d from %s): %s", ci.ID, ci.Src, mustJSON(ci.V))
		case reason == "order-plain" || reason == "order-pretty":
			// entry order is not a function of the contents.  When some map of the value holds two
			// keys that are not eq but rank equal in the documented total order the sort cannot
			// separate them (known finding); without such a tie it is a plain violation.
			key := "repr-order:no-tie:" + reason + ":" + shape(ci.V)
			if tie != "none" {
				key = knownOrderKey
			}
			c.Reject(key, fmt.Sprintf("%s: the same abstract value printed differently for different construction histories: %s", reason, describeRuns(rec)), ci)
		default:
			r := rec.Runs[0]
			if runIdx >= 1 && int(runIdx) <= len(rec.Runs) {
				r = rec.Runs[runIdx-1]
			}
			key := "repr-" + reason + ":" + shape(ci.V)
			if ci.Src == "literal" {
				// the code `ci.Lit` does not denote a value of the atom's representation class / value
				key = "repr:number-kind:" + ci.V.A
			} else if b := rec.Backs[r.Bp-1]; b.K == "error" && b.A == "repr-panic" {
				key = "repr:panic:" + shape(ci.V)
			} else if b := rec.Backs[r.Bq-1]; b.K == "error" && b.A == "repr-panic" {
				key = "repr:panic:" + shape(ci.V)
			}
			c.Reject(key, fmt.Sprintf("%s: value %s%s (history %v) printed as %q / %q read back as %s / %s (real eq: %v / %v)",
				reason, mustJSON(ci.V), dynText(ci), r.Ords, unhex(r.Plain), unhex(r.Pretty), mustJSON(rec.Backs[r.Bp-1]), mustJSON(rec.Backs[r.Bq-1]), r.Eqp, r.Eqq), ci)
		}
	}
	return nil
}

// dynText names the dynamic atoms of a case (for messages).
func dynText(ci caseIn) string {
	if len(ci.DNum) == 0 && len(ci.DStr) == 0 {
		return ""
	}
	return " with numbers " + mustJSON(ci.DNum) + " strings(hex) " + mustJSON(ci.DStr)
}

func mustJSON(v any) string { b, _ := json.Marshal(v); return string(b) }
func unhex(s string) string { b, _ := hex.DecodeString(s); return string(b) }

func describeRuns(rec caseRec) string {
	s := ""
	for _, r := range rec.Runs {
		s += fmt.Sprintf("%v -> %q; ", r.Ords, unhex(r.Plain))
	}
	return s
}

// shape is a short structural description of a value for violation keys: kinds and atoms to depth 2.
func shape(v AVal) string {
	var f func(v AVal, d int) string
	f = func(v AVal, d int) string {
		switch v.K {
		case "list":
			if d == 0 {
				return "list"
			}
			s := "["
			for i, e := range v.Es {
				if i > 0 {
					s += " "
				}
				s += f(e, d-1)
			}
			return s + "]"
		case "map":
			if d == 0 {
				return "map"
			}
			s := "[&"
			for i, p := range v.Ps {
				if i > 0 {
					s += " "
				}
				s += f(p[0], d-1) + "=" + f(p[1], d-1)
			}
			return s + "]"
		}
		return v.A
	}
	s := f(v, 2)
	if len(s) > 120 {
		s = s[:120] + "..."
	}
	return s
}

func run(c *lib.Ctx) error {
	if err := initAtoms(); err != nil {
		return err
	}
	if c.Replay != "" {
		return replay(c)
	}
	dir := c.SpecDir("Repr")
	c.Set("rule", "a case is one abstract value (nested term over named atoms); distinct by the value and the chosen string representatives; non-trivial = every case except bare $nil/booleans (each is printed twice, evaluated twice and judged)")

	// keep the JVMs that run side by side from starting 16 GC threads each
	os.Setenv("JDK_JAVA_OPTIONS", "-XX:ParallelGCThreads=2 -XX:CICompilerCount=2")

	// ---- M: sanity of the oracle (runs concurrently with the generators)
	var mErr error
	var wg sync.WaitGroup
	wg.Add(1)
	go func() {
		defer wg.Done()
		full := "FALSE"
		if c.Thorough() {
			full = "TRUE"
		}
		r, err := c.TLC("MCRepr", lib.TLCRun{Dir: dir, Module: "MCRepr", Workers: 2, Timeout: 10 * time.Minute,
			Files: map[string][]byte{"MCRepr.cfg": []byte("CONSTANT Full = " + full + "\nINIT Init\nNEXT Next\nINVARIANT AllValid\nINVARIANT RTReflexive\nINVARIANT EqReflexive\nINVARIANT PairLaws\nINVARIANT Transitive\n")}})
		if err != nil {
			mErr = err
			return
		}
		if r.ErrKind != "" {
			mErr = lib.Infra("the oracle relations of Repr.tla fail their own sanity laws: %s\n%s", r.Err, r.ErrTrace)
			return
		}
		for _, t := range r.Tagged("SIZES") {
			c.Set("model_value_sets", map[string]any{"VS": t[0], "partners": t[1], "transitivity_set": t[2]})
		}
		// design-level model of reprMap: entry order is a function of the contents unless two keys
		// tie in rank and collide in hash (the candidate class replayed by the probes)
		r2, err := c.TLC("MCReprOrder", lib.TLCRun{Dir: dir, Module: "MCReprOrder", Workers: 1, Timeout: 5 * time.Minute})
		if err != nil {
			mErr = err
			return
		}
		if r2.ErrKind != "" {
			mErr = lib.Infra("MCReprOrder: the characterisation of order dependence fails: %s\n%s", r2.Err, r2.ErrTrace)
		}
	}()

	// ---- G: exhaustive families from TLC
	fams := []string{"{0, 1, 2, 6}", "{3}", "{4, 5}"}
	wide := "FALSE"
	if c.Thorough() {
		wide = "TRUE"
	}
	famCases := make([][]caseIn, len(fams))
	var gErr error
	var gmu sync.Mutex
	lib.Parallel(len(fams), 3, func(i int) {
		f := fams[i]
		name := "MCReprGen-F" + f
		r, err := c.TLC(name, lib.TLCRun{Dir: dir, Module: "MCReprGen", Workers: 1, Timeout: 10 * time.Minute,
			Files: map[string][]byte{"MCReprGen.cfg": []byte(fmt.Sprintf("CONSTANT Fams = %s\nCONSTANT Wide = "+wide+"\nINIT Init\nNEXT Next\nINVARIANT WellFormed\nINVARIANT Emit\n", f))}})
		if err == nil && r.ErrKind != "" {
			err = lib.Infra("%s: %s\n%s", name, r.Err, r.ErrTrace)
		}
		var out []caseIn
		if err == nil {
			seen := map[string]bool{}
			for _, s := range r.PrintedStrings() {
				var e struct {
					V AVal `json:"v"`
				}
				if jerr := json.Unmarshal([]byte(s), &e); jerr != nil {
					err = lib.Infra("bad value from TLC: %v: %s", jerr, s)
					break
				}
				k := mustJSON(e.V)
				if seen[k] {
					continue
				}
				seen[k] = true
				out = append(out, caseIn{Src: "F" + f, V: e.V})
			}
			if err == nil && int64(len(out)) != r.Distinct {
				err = lib.Infra("%s: TLC reported %d values, received %d", name, r.Distinct, len(out))
			}
		}
		c.Logf("%s: %d values", name, len(out))
		gmu.Lock()
		defer gmu.Unlock()
		if err != nil && gErr == nil {
			gErr = err
		}
		famCases[i] = out
	})
	if gErr != nil {
		return gErr
	}
	var cases []caseIn
	// directed probes first: the documented pair and nested variants (deterministic known finding)
	for _, p := range probes() {
		cases = append(cases, caseIn{Src: "probe", V: p})
	}
	perFam := map[string]int{}
	for i, fc := range famCases {
		perFam["F"+fams[i]] = len(fc)
		cases = append(cases, fc...)
	}
	nG := len(cases)
	// dense sweep of exact numbers (every int in -300..1100, powers of two and of ten with their
	// neighbours up to and beyond the machine-int range), each at top level and as list element,
	// map key and map value
	sw := sweepCases()
	cases = append(cases, sw...)
	for _, na := range numAtoms {
		cases = append(cases, caseIn{Src: "literal", V: atom("num", na.name), Lit: na.code})
	}
	c.Set("sweep_cases", len(sw))
	c.Set("exhaustive", true)
	c.Set("families", perFam)

	// ---- V: seeded random values, depth <= 5, width <= 8
	nRand := c.Pick(1500, 20000)
	g := &gen{rnd: rand.New(rand.NewSource(c.Seed*7919 + 17))}
	maxSize, maxDepth := 0, 0
	for i := 0; i < nRand; i++ {
		v := g.draw()
		ds, dn := g.takeDyn()
		if s := size(v); s > maxSize {
			maxSize = s
		}
		if d := depth(v); d > maxDepth {
			maxDepth = d
		}
		cases = append(cases, caseIn{Src: "random", V: v, DStr: ds, DNum: dn})
	}
	for i := range cases {
		cases[i].ID = i + 1
		cases[i].Rep = c.Seed*1000003 + int64(i)
	}
	c.Set("bounds", map[string]any{"exhaustive_values": nG, "random_values": nRand, "random_depth_max": 5, "random_width_max": 8,
		"largest_random_value_nodes": maxSize, "deepest_random_value": maxDepth, "atoms": 3 + len(strReps) + len(numAtoms)})
	c.Logf("cases: %d enumerated + %d random", nG, nRand)

	recs, err := runAll(c, cases)
	if err != nil {
		return err
	}
	c.Logf("real code done: %d cases", len(recs))
	for i, ci := range cases {
		if ci.V.K == "nil" || ci.V.K == "bool" {
			continue
		}
		c.Distinct([]any{ci.V, ci.Rep % 97})
		if i%(len(cases)/5+1) == 0 {
			c.Sample(map[string]any{"v": ci.V, "plain": unhex(recs[i].Runs[0].Plain), "histories": len(histories(ci.V))})
		}
	}
	if err := judge(c, "JudgeRepr", cases, recs); err != nil {
		return err
	}
	wg.Wait()
	if mErr != nil {
		return mErr
	}
	c.Assume("TLC is trusted; atoms are names: the numeric text of a number atom is produced and parsed by the real code and only its representation class and value identity (Go type + bits/Cmp against the atom's own real value) are projected; string atoms are classes with fixed representatives chosen per case")
	c.Assume("EqDoc is the reading of `eq` in builtin_fn_pred.d.elv / language.md: same type and value, NaN unequal to itself, containers element-wise, maps as sets of pairs")
	return nil
}

func replay(c *lib.Ctx) error {
	b, err := os.ReadFile(c.Replay)
	if err != nil {
		return lib.Infra("%v", err)
	}
	var f struct {
		Case caseIn `json:"case"`
	}
	if err := json.Unmarshal(b, &f); err != nil {
		return lib.Infra("%v", err)
	}
	cases := []caseIn{f.Case}
	recs, err := runAll(c, cases)
	if err != nil {
		return err
	}
	for _, r := range recs[0].Runs {
		c.Logf("history %v: plain %q pretty %q back %s / %s", r.Ords, unhex(r.Plain), unhex(r.Pretty), mustJSON(recs[0].Backs[r.Bp-1]), mustJSON(recs[0].Backs[r.Bq-1]))
	}
	return judge(c, "JudgeRepr-replay", cases, recs)
}
