// C21 — tmp, with and defer restore and clean up on every exit path.
// M: MCCleanup: every function of the Cleanup grammar with <= MaxSize nodes; the property predicates
//    (RestoreMatches, DeferOnce, ReverseOrder, ExcRule, StoreRestored, FinalRestored) on its ghost log.
// G: each of those functions, printed with the prescribed observable outcome, is rendered to Elvish
//    and run on a fresh real Evaler; the values put by the probes, the exception of the call and the
//    store after the call are compared with the prescription.
// V: directed probes and random larger functions are run on the real Evaler, recorded, and judged by
//    the TLC walker JudgeCleanup (the reference semantics evaluated on the recorded program).
package main

import (
	"encoding/json"
	"fmt"
	"os"
	"reflect"
	"sort"
	"sync"
	"time"

	"verif.local/harness/lib"
)

func main() { lib.Main("C21", run) }

// gCase is what MCCleanup prints.
type gCase struct {
	Prog []Node   `json:"prog"`
	Exp  Outcome  `json:"exp"`
	Alt  Outcome  `json:"alt"`
	Tags []string `json:"tags"`
}

// vCase is what the executor records for JudgeCleanup.
type vCase struct {
	Prog []Node `json:"prog"`
	Obs  []Obs  `json:"obs"`
	A0   int    `json:"a0"`
	A1   int    `json:"a1"`
	B    int    `json:"b"`
	Exc  Exc    `json:"exc"`
}

var tagKey = map[string]string{
	"swallow":   "defer:failure-swallowed-after-later-success",
	"loopstop":  "defer:loop-ended-by-successful-defer",
	"trycatch":  "defer:catch-entered-after-successful-defer",
	"":          "cleanup:unexplained",
	"unexplained": "cleanup:unexplained",
}

func mcCfg(size int) []byte {
	return []byte(fmt.Sprintf("CONSTANT MaxSize = %d\nINIT Init\nNEXT Next\nINVARIANT InvRestoreMatches\nINVARIANT InvDeferOnce\nINVARIANT InvReverseOrder\nINVARIANT InvExcRule\nINVARIANT InvStoreRestored\nINVARIANT InvFinalRestored\nINVARIANT InvNoQuirk\nINVARIANT Emit\n", size))
}

func run(c *lib.Ctx) error {
	dir := c.SpecDir("Cleanup")
	if c.Replay != "" {
		return replay(c, dir)
	}
	c.Set("rule", "a case is one function (AST over tmp/set/defer/with/loop/call/try/exit); distinct by its rendered Elvish text; non-trivial = contains at least one tmp, with or defer")
	size := c.Pick(2, 3)
	c.Set("bounds", map[string]any{"MaxSize_nodes_exhaustive": size, "random_programs": c.Pick(500, 6000), "random_size": "4..16 nodes, nesting <= 5"})

	// ---- M + G
	r, err := c.TLC("MCCleanup", lib.TLCRun{Dir: dir, Module: "MCCleanup", Workers: 4, Timeout: 12 * time.Minute, HeapGB: 6,
		Files: map[string][]byte{"MCCleanup.cfg": mcCfg(size)}})
	if err != nil {
		return err
	}
	if r.ErrKind != "" {
		return lib.Infra("the Cleanup semantics violates its own property %s %s:\n%s", r.ErrKind, r.ErrName, r.ErrTrace)
	}
	seen := map[string]bool{}
	var cases []gCase
	for _, s := range r.PrintedStrings() {
		var gc gCase
		if err := json.Unmarshal([]byte(s), &gc); err != nil {
			return lib.Infra("bad case from TLC: %v: %.300s", err, s)
		}
		k := Render(gc.Prog)
		if !seen[k] {
			seen[k] = true
			cases = append(cases, gc)
		}
	}
	if int64(len(cases)) != r.Distinct {
		return lib.Infra("TLC reported %d programs, received %d", r.Distinct, len(cases))
	}
	c.Logf("exhaustive programs: %d", len(cases))
	corrupt := os.Getenv("VERIF_CORRUPT") // development-time vacuity guard: "g" / "v" corrupt one expectation / one record
	if corrupt == "g" {
		cases[len(cases)/2].Exp.B += 1000
	}
	var mu sync.Mutex
	tagged := 0
	lib.Parallel(len(cases), 4, func(i int) {
		gc := cases[i]
		got := Execute(gc.Prog)
		c.AddEvals(1)
		if nontrivial(gc.Prog) {
			c.Distinct(Render(gc.Prog))
		}
		if i < 2 {
			c.Sample(map[string]any{"elvish": Render(gc.Prog), "prescribed": gc.Exp})
		}
		if agrees(got, gc.Exp) {
			return
		}
		tag := ""
		if agrees(got, gc.Alt) && len(gc.Tags) > 0 {
			tag = gc.Tags[0]
		}
		mu.Lock()
		tagged++
		mu.Unlock()
		c.Reject(tagKey[tag], fmt.Sprintf("fn f {\n%s}; f\n real: %s\n prescribed: %s", Render(gc.Prog), got, gc.Exp), gc)
	})
	c.AddTraces(len(cases))
	c.Set("exhaustive", true)
	c.Set("g_rejected", tagged)

	// ---- V: directed probes + random larger programs, judged by TLC
	var progs [][]Node
	progs = append(progs, Directed()...)
	nd := len(progs)
	rng := newRand(c.Seed)
	for i := 0; i < c.Pick(500, 6000); i++ {
		progs = append(progs, Label(RandomProg(rng)))
	}
	vc := make([]vCase, len(progs))
	lib.Parallel(len(progs), 4, func(i int) {
		got := Execute(progs[i])
		c.AddEvals(1)
		if nontrivial(progs[i]) {
			c.Distinct(Render(progs[i]))
		}
		vc[i] = vCase{Prog: progs[i], Obs: got.Obs, A0: got.A0, A1: got.A1, B: got.B, Exc: got.one()}
	})
	c.Sample(map[string]any{"elvish": Render(progs[nd]), "recorded": vc[nd]})
	if corrupt == "v" {
		vc[nd+1].A1 += 1000
	}
	if err := judge(c, dir, vc); err != nil {
		return err
	}
	c.AddTraces(len(vc))
	c.Assume("TLC trusted; the executor's rendering of the AST to Elvish text and the projection of put values ([tag id $a[0] $a[1] $b]) are trusted; restores that themselves fail are not generated (a restore of a saved value cannot fail for plain variables); deferred callbacks fail only by `fail`; which of several failing callbacks is reported, and whether `return` counts as success of the function body, are Unspecified")
	return nil
}

func judge(c *lib.Ctx, dir string, vc []vCase) error {
	bad, err := lib.Judge(c, "JudgeCleanup", dir, "JudgeCleanup", vc, 4, 12*time.Minute)
	if err != nil {
		return err
	}
	for _, b := range bad {
		tag := "unexplained"
		if len(b.Info) > 0 {
			if s, ok := b.Info[0].(string); ok {
				tag = s
			}
		}
		k := vc[b.Index]
		c.Reject(tagKey[tag], fmt.Sprintf("fn f {\n%s}; f\n real: obs %v store %d %d %d exc %v; the specification rejects it (%s)", Render(k.Prog), k.Obs, k.A0, k.A1, k.B, k.Exc, tag), k)
	}
	return nil
}

func nontrivial(b []Node) bool {
	for _, n := range b {
		if n.T == "tmp" || n.T == "with" || n.T == "defer" || nontrivial(n.Body) {
			return true
		}
	}
	return false
}

// agrees: the observed outcome is one the (set-valued) prescription allows.
func agrees(got Outcome, want Outcome) bool {
	if got.A0 != want.A0 || got.A1 != want.A1 || got.B != want.B {
		return false
	}
	if len(got.Obs) != len(want.Obs) {
		return false
	}
	for i := range got.Obs {
		if got.Obs[i] != want.Obs[i] {
			return false
		}
	}
	if len(got.Excs) != 1 {
		return false
	}
	for _, e := range want.Excs {
		if e == got.Excs[0] {
			return true
		}
	}
	return false
}

func replay(c *lib.Ctx, dir string) error {
	b, err := os.ReadFile(c.Replay)
	if err != nil {
		return lib.Infra("%v", err)
	}
	var f struct {
		Case struct {
			Prog []Node `json:"prog"`
		} `json:"case"`
	}
	if err := json.Unmarshal(b, &f); err != nil {
		return lib.Infra("%v", err)
	}
	got := Execute(f.Case.Prog)
	c.AddEvals(1)
	fmt.Fprintf(os.Stderr, "fn f {\n%s}; f\n real: %s\n", Render(f.Case.Prog), got)
	return judge(c, dir, []vCase{{Prog: f.Case.Prog, Obs: got.Obs, A0: got.A0, A1: got.A1, B: got.B, Exc: got.one()}})
}

var _ = reflect.DeepEqual
var _ = sort.Strings
