package main

import (
	"errors"
	"fmt"
	"math/rand"
	"strconv"
	"strings"

	"src.elv.sh/pkg/eval"
	"verif.local/harness/elv"
)

// Node is one AST node of the Cleanup grammar (spec/Cleanup/Cleanup.tla).
type Node struct {
	T    string `json:"t"`
	V    string `json:"v"`
	At   int    `json:"at"`
	ID   int    `json:"id"`
	Body []Node `json:"body"`
}

type Obs struct {
	K  string `json:"k"`
	ID int    `json:"id"`
	A0 int    `json:"a0"`
	A1 int    `json:"a1"`
	B  int    `json:"b"`
}

type Exc struct {
	K  string `json:"k"`
	ID int    `json:"id"`
}

type Outcome struct {
	Obs  []Obs `json:"obs"`
	A0   int   `json:"a0"`
	A1   int   `json:"a1"`
	B    int   `json:"b"`
	Excs []Exc `json:"excs"`
}

func (o Outcome) one() Exc {
	if len(o.Excs) == 1 {
		return o.Excs[0]
	}
	return Exc{K: "?"}
}

func (o Outcome) String() string {
	return fmt.Sprintf("obs %v store [%d %d] %d exc %v", o.Obs, o.A0, o.A1, o.B, o.Excs)
}

func newRand(seed int64) *rand.Rand { return rand.New(rand.NewSource(seed)) }

func nd(t, v string, at int, body ...Node) Node {
	if body == nil {
		body = []Node{}
	}
	return Node{T: t, V: v, At: at, Body: body}
}

// Label numbers the nodes in preorder from 1 (as MCCleanup's Lab).
func Label(b []Node) []Node {
	n := 1
	var rec func(b []Node) []Node
	rec = func(b []Node) []Node {
		out := make([]Node, len(b))
		for i, x := range b {
			x.ID = n
			n++
			x.Body = rec(x.Body)
			out[i] = x
		}
		return out
	}
	return rec(b)
}

// ---- concretisation: AST -> Elvish text

func probe(tag string, id int) string {
	return fmt.Sprintf("put [%s %d $a[0] $a[1] $b]", tag, id)
}

func assignText(tg string, id int) string {
	switch tg {
	case "a":
		return fmt.Sprintf("a = [%d %d]", id*10, id*10+1)
	case "a0":
		return fmt.Sprintf("a[0] = %d", id*10)
	case "a1":
		return fmt.Sprintf("a[1] = %d", id*10+1)
	case "b":
		return fmt.Sprintf("b = %d", id*10+2)
	case "bad":
		return fmt.Sprintf("b = (fail %d)", id)
	}
	panic("bad target " + tg)
}

var withTargets = map[string][]string{"a": {"a"}, "a0": {"a0"}, "ab": {"a", "b"}, "a0a1": {"a0", "a1"}, "a0bad": {"a0", "bad"}}

// Render gives the body of `fn f { ... }`.
func Render(b []Node) string {
	var sb strings.Builder
	renderBlock(&sb, b, "", "  ")
	return sb.String()
}

func renderBlock(sb *strings.Builder, b []Node, loopVar, ind string) {
	for _, n := range b {
		sb.WriteString(ind)
		switch n.T {
		case "tmp":
			sb.WriteString("tmp " + assignText(n.V, n.ID))
		case "set":
			sb.WriteString("set " + assignText(n.V, n.ID))
		case "defer":
			sb.WriteString("defer {\n" + ind + "  " + probe("d", n.ID) + "\n")
			renderBlock(sb, n.Body, loopVar, ind+"  ")
			sb.WriteString(ind + "}")
		case "with":
			tg := withTargets[n.V]
			sb.WriteString("with")
			if n.V == "a" {
				// the bracket-less form; element lvalues are only accepted inside [ ]
				sb.WriteString(" " + assignText(tg[0], n.ID))
			} else {
				for _, t := range tg {
					sb.WriteString(" [" + assignText(t, n.ID) + "]")
				}
			}
			sb.WriteString(" {\n")
			renderBlock(sb, n.Body, loopVar, ind+"  ")
			sb.WriteString(ind + "}")
		case "loop":
			lv := fmt.Sprintf("i%d", n.ID)
			sb.WriteString("for " + lv + " [1 2] {\n")
			renderBlock(sb, n.Body, lv, ind+"  ")
			sb.WriteString(ind + "}")
		case "call":
			sb.WriteString("{\n")
			renderBlock(sb, n.Body, loopVar, ind+"  ")
			sb.WriteString(ind + "}")
		case "try":
			sb.WriteString("try {\n")
			renderBlock(sb, n.Body, loopVar, ind+"  ")
			sb.WriteString(ind + "} catch e { " + probe("c", n.ID) + " }")
		case "exit":
			cmd := n.V
			if n.V == "fail" {
				cmd = fmt.Sprintf("fail %d", n.ID)
			}
			if n.At != 0 {
				if loopVar == "" {
					panic("guarded exit outside a loop")
				}
				cmd = fmt.Sprintf("if (eq $%s %d) { %s }", loopVar, n.At, cmd)
			}
			sb.WriteString(cmd)
		default:
			panic("bad node " + n.T)
		}
		sb.WriteString("\n" + ind + probe("p", n.ID) + "\n")
	}
}

// ---- running the real evaluator and projecting what it did

func atoi(s string) int {
	n, err := strconv.Atoi(s)
	if err != nil {
		return -1
	}
	return n
}

func projectExc(err error, pan string) Exc {
	if pan != "" {
		return Exc{K: "panic"}
	}
	if err == nil {
		return Exc{K: "none"}
	}
	r := elv.Reason(err)
	var fe eval.FailError
	if errors.As(r, &fe) {
		if s, ok := fe.Content.(string); ok {
			return Exc{K: "fail", ID: atoi(s)}
		}
	}
	if f, ok := r.(eval.Flow); ok {
		return Exc{K: f.Error()}
	}
	return Exc{K: "other:" + elv.ErrClass(err) + ":" + err.Error()}
}

// Execute defines the function on a fresh Evaler, calls it, and reads the store afterwards.
func Execute(prog []Node) Outcome {
	ev := eval.NewEvaler()
	out := Outcome{Obs: []Obs{}, A0: -1, A1: -1, B: -1}
	o := elv.Run(ev, "var a = [1 2]\nvar b = 3\nfn f {\n"+Render(prog)+"}\n")
	if o.Err != nil || o.Panic != "" {
		panic(fmt.Sprintf("generated program does not compile: %v %s\n%s", o.Err, o.Panic, Render(prog)))
	}
	o = elv.Run(ev, "f")
	for _, v := range o.Values {
		ss, ok := elv.ListStrings(v)
		if !ok || len(ss) != 5 {
			out.Obs = append(out.Obs, Obs{K: "?"})
			continue
		}
		out.Obs = append(out.Obs, Obs{K: ss[0], ID: atoi(ss[1]), A0: atoi(ss[2]), A1: atoi(ss[3]), B: atoi(ss[4])})
	}
	out.Excs = []Exc{projectExc(o.Err, o.Panic)}
	o = elv.Run(ev, "put $a[0] $a[1] $b")
	if o.Err == nil && len(o.Values) == 3 {
		var s [3]int
		for i, v := range o.Values {
			if str, ok := v.(string); ok {
				s[i] = atoi(str)
			} else {
				s[i] = -1
			}
		}
		out.A0, out.A1, out.B = s[0], s[1], s[2]
	}
	return out
}

// ---- directed probes (always run, every tier)

func Directed() [][]Node {
	fail := nd("exit", "fail", 0)
	ps := [][]Node{
		// the confirmed defect: fn f { defer { fail }; defer { } }
		{nd("defer", "", 0, fail), nd("defer", "", 0)},
		{nd("defer", "", 0), nd("defer", "", 0, fail)},
		{nd("defer", "", 0, fail)},
		{nd("defer", "", 0, fail), nd("defer", "", 0, fail)},
		{nd("tmp", "a0", 0), nd("defer", "", 0, fail), nd("tmp", "b", 0), nd("defer", "", 0), nd("exit", "return", 0)},
		{nd("loop", "", 0, nd("defer", "", 0), nd("tmp", "a", 0))},
		{nd("try", "", 0, nd("defer", "", 0))},
		// hand-probed facts of the design
		{nd("with", "a0a1", 0, nd("exit", "fail", 0))},
		{nd("loop", "", 0, nd("with", "ab", 0, nd("exit", "continue", 0)))},
		{nd("loop", "", 0, nd("with", "ab", 0, nd("exit", "break", 2)))},
		{nd("tmp", "a0", 0), nd("set", "a1", 0), nd("exit", "return", 0)},
		{nd("loop", "", 0, nd("tmp", "a", 0)), nd("tmp", "b", 0)},
		{nd("call", "", 0, nd("defer", "", 0), nd("tmp", "a0", 0)), nd("defer", "", 0)},
		{nd("with", "a0bad", 0, nd("tmp", "b", 0))},
		{nd("tmp", "a", 0), nd("with", "a0", 0, nd("tmp", "a1", 0), nd("defer", "", 0, nd("tmp", "a", 0), fail), nd("exit", "break", 0))},
	}
	out := make([][]Node, len(ps))
	for i, p := range ps {
		out[i] = Label(p)
	}
	return out
}

// ---- random programs beyond the exhaustive scope

func RandomProg(r *rand.Rand) []Node {
	budget := 4 + r.Intn(13)
	return randBlock(r, &budget, 0, false, false)
}

func randBlock(r *rand.Rand, budget *int, depth int, inLoop, inDefer bool) []Node {
	out := []Node{}
	n := 1 + r.Intn(4)
	if depth > 0 && r.Intn(6) == 0 {
		n = 0
	}
	for i := 0; i < n && *budget > 0; i++ {
		*budget--
		p := r.Intn(100)
		switch {
		case p < 22:
			out = append(out, nd("tmp", []string{"a", "a0", "a1", "b"}[r.Intn(4)], 0))
		case p < 28:
			out = append(out, nd("set", []string{"a1", "b"}[r.Intn(2)], 0))
		case p < 44 && depth < 5:
			out = append(out, nd("defer", "", 0, randBlock(r, budget, depth+1, false, true)...))
		case p < 60 && depth < 5:
			out = append(out, nd("with", []string{"a", "a0", "ab", "a0a1", "a0bad"}[r.Intn(5)], 0, randBlock(r, budget, depth+1, inLoop, inDefer)...))
		case p < 70 && depth < 5:
			out = append(out, nd("loop", "", 0, randBlock(r, budget, depth+1, true, inDefer)...))
		case p < 77 && depth < 5:
			out = append(out, nd("call", "", 0, randBlock(r, budget, depth+1, inLoop, inDefer)...))
		case p < 84 && depth < 5:
			out = append(out, nd("try", "", 0, randBlock(r, budget, depth+1, inLoop, inDefer)...))
		default:
			kinds := []string{"fail", "break", "continue", "return"}
			if inDefer {
				kinds = []string{"fail"}
			}
			k := kinds[r.Intn(len(kinds))]
			at := 0
			if inLoop && k != "return" && r.Intn(2) == 0 {
				at = 1 + r.Intn(2)
			}
			out = append(out, nd("exit", k, at))
			if at == 0 && r.Intn(4) != 0 {
				return out // what follows an unguarded exit is dead code; keep some of it anyway
			}
		}
	}
	return out
}
