package main

import (
	"math/rand"
	"runtime"
	"sync"
	"sync/atomic"
	"time"

	"src.elv.sh/pkg/edit/highlight"
	"src.elv.sh/pkg/ui"
)

// V: free-running real Highlighters; events for TraceHighlighter.tla.

type event struct {
	Ev     string `json:"ev"`
	G      int    `json:"g"`
	Code   int    `json:"code"`
	Cmd    bool   `json:"cmd"`
	Plain  int    `json:"plain"`
	Sty    int    `json:"sty"`
	Lookup bool   `json:"lookup"`
	N      int    `json:"n"`
	Rem    int    `json:"rem"`
}

type tracer struct {
	mu  sync.Mutex
	evs []event
}

func (t *tracer) log(e event) {
	t.mu.Lock()
	t.evs = append(t.evs, e)
	t.mu.Unlock()
}

// interner maps code strings to the ids used in the trace; 0 is always "".
type interner struct {
	ids   map[string]int
	codes []string
}

func newInterner() *interner { return &interner{ids: map[string]int{"": 0}, codes: []string{""}} }
func (in *interner) id(s string) int {
	if id, ok := in.ids[s]; ok {
		return id
	}
	in.ids[s] = len(in.codes)
	in.codes = append(in.codes, s)
	return len(in.codes) - 1
}
func (in *interner) lookup(s string) int {
	if id, ok := in.ids[s]; ok {
		return id
	}
	return -1
}

type vStats struct {
	gets, full, partial, lates int
}

// vRun drives one fresh Highlighter: a typist goroutine changes the current code (and sometimes calls
// Get / InvalidateCache itself), the editor goroutine calls Get on every redraw request and on every
// LateUpdates notification. HasCommand sleeps for a random while. Nothing here decides anything: the
// events are judged by TLC.
func vRun(rng *rand.Rand, in *interner, pool []*codeInfo, lookup bool, nOps int, block time.Duration, procs int) ([]event, error) {
	runtime.GOMAXPROCS(procs)
	highlight.VerifSetMaxBlockForLate(block)
	tr := &tracer{}
	tr.log(event{Ev: "Reset", Lookup: lookup})
	ids := make([]int, len(pool))
	for i, ci := range pool {
		ids[i] = in.id(ci.Code)
	}
	var delaySeed atomic.Int64
	delaySeed.Store(rng.Int63())
	maxDelay := []int{0, 200, 2000, 6000}[rng.Intn(4)] // microseconds
	cfg := highlight.Config{}
	if lookup {
		cfg.HasCommand = func(name string) bool {
			x := delaySeed.Add(0x9e3779b97f4a7c) & 0x7fffffff
			switch x % 4 {
			case 0:
			case 1:
				runtime.Gosched()
			default:
				if maxDelay > 0 {
					time.Sleep(time.Duration(x/4%int64(maxDelay)) * time.Microsecond)
				}
			}
			return answer(name)
		}
	}
	hl := highlight.NewHighlighter(cfg)
	var cur atomic.Int32
	get := func(g int) {
		k := int(cur.Load())
		ci := pool[k]
		tr.log(event{Ev: "GetStart", G: g, Code: ids[k], Cmd: ci.Cmd})
		var text ui.Text
		text, _ = hl.Get(ci.Code)
		tr.log(event{Ev: "GetEnd", G: g, Code: ids[k], Cmd: ci.Cmd, Plain: in.lookup(plainOf(text)), Sty: ci.styOf(text, lookup)})
	}
	redraw := make(chan struct{}, 1)
	stop := make(chan struct{})
	var wg sync.WaitGroup
	wg.Add(2)
	go func() { // editor
		defer wg.Done()
		for {
			select {
			case <-hl.LateUpdates():
				tr.log(event{Ev: "Late"})
				get(1)
			case <-redraw:
				get(1)
			case <-stop:
				return
			}
		}
	}()
	typistSeed := rng.Int63()
	go func() { // typist
		defer wg.Done()
		defer close(stop)
		r := rand.New(rand.NewSource(typistSeed))
		for i := 0; i < nOps; i++ {
			switch r.Intn(5) {
			case 0:
				runtime.Gosched()
			case 1, 2:
				time.Sleep(time.Duration(r.Intn(1500)) * time.Microsecond)
			}
			// mostly toggle between neighbours (typing / deleting), sometimes jump
			k := int(cur.Load())
			switch r.Intn(6) {
			case 0, 1:
				k = (k + 1) % len(pool)
			case 2, 3:
				k = (k + len(pool) - 1) % len(pool)
			case 4:
				k = r.Intn(len(pool))
			}
			cur.Store(int32(k))
			switch r.Intn(10) {
			case 0:
				tr.log(event{Ev: "InvStart", G: 2})
				hl.InvalidateCache()
				tr.log(event{Ev: "InvEnd", G: 2})
			case 1, 2, 3:
				get(2)
			default:
				select {
				case redraw <- struct{}{}:
				default:
				}
			}
		}
	}()
	wg.Wait()
	// quiescence, then drain: every notification is received and answered by a Get, as the editor does
	for {
		if err := waitCensusZero(); err != nil {
			return nil, err
		}
		n := len(hl.LateUpdates())
		tr.log(event{Ev: "Quiet", N: n})
		if n == 0 {
			break
		}
		<-hl.LateUpdates()
		tr.log(event{Ev: "Late"})
		get(1)
	}
	get(1)
	if err := waitCensusZero(); err != nil {
		return nil, err
	}
	for len(hl.LateUpdates()) > 0 { // a last Get may have started a last late computation
		<-hl.LateUpdates()
		tr.log(event{Ev: "Late"})
		get(1)
		if err := waitCensusZero(); err != nil {
			return nil, err
		}
	}
	evs := tr.evs
	rem := 0
	for i := len(evs) - 1; i >= 0; i-- {
		if evs[i].Ev == "Late" {
			rem++
		}
		evs[i].Rem = rem
	}
	return evs, nil
}

func statsOf(evs []event) vStats {
	var s vStats
	for _, e := range evs {
		switch e.Ev {
		case "GetEnd":
			s.gets++
			if e.Sty == 1 {
				s.full++
			} else if e.Cmd {
				s.partial++
			}
		case "Late":
			s.lates++
		}
	}
	return s
}

// vPool builds the codes of one run: a typing chain (prefixes of one code) plus unrelated codes.
func vPool(rng *rand.Rand) ([]*codeInfo, error) {
	var codes []string
	base := genCode(rng)
	for len(base) < 3 {
		base = genCode(rng)
	}
	cut := 1 + rng.Intn(len(base)-1)
	codes = append(codes, base[:cut], base)
	if cut > 1 && rng.Intn(2) == 0 {
		codes = append(codes, base[:cut-1])
	}
	for n := 1 + rng.Intn(3); n > 0; n-- {
		codes = append(codes, genCode(rng))
	}
	if rng.Intn(3) == 0 {
		codes = append(codes, "")
	}
	if rng.Intn(2) == 0 {
		codes = append(codes, pickStr(rng, []string{"l", "ls", "ls ", "ls | cat", "echo $x | grep 'y'"}))
	}
	seen := map[string]bool{}
	var pool []*codeInfo
	for _, s := range codes {
		if seen[s] {
			continue
		}
		seen[s] = true
		ci, err := infoOf(s)
		if err != nil {
			return nil, err
		}
		pool = append(pool, ci)
	}
	rng.Shuffle(len(pool), func(i, j int) { pool[i], pool[j] = pool[j], pool[i] })
	return pool, nil
}

func pickStr(r *rand.Rand, xs []string) string { return xs[r.Intn(len(xs))] }
