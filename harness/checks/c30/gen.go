package main

import (
	"math/rand"
	"strings"
)

// Generators of Elvish-looking code: valid, invalid and not even UTF-8. They only produce inputs;
// nothing here knows what the highlighter should answer.

var words = []string{"ls", "l", "echo", "e:cat", "put", "a.b", "x-y", "nop", "if", "elif", "else", "for", "while",
	"try", "catch", "except", "finally", "var", "set", "tmp", "del", "fn", "use", "and", "or", "=", "x", "y", "foo",
	"1.0", "0x1f", "a=b", "@", "str:join", "./run", "/bin/sh", "é", "你好", "😀", "%", "^", ","}

var varToks = []string{"$x", "$@rest", "$x[0]", "$e:PATH", "$", "$?", "$x:y", "$-", "$你"}

var quoteToks = []string{"'sq'", "''", "'it''s'", "'open", `"dq\n"`, `""`, `"open`, `"\x41é"`, `"bad \q"`, "'multi\nline'"}

var punctToks = []string{"(", ")", "[", "]", "{", "}", "|", ";", "\n", ">", ">>", "<", "?>", "&", "&k=v", "*", "**",
	"?", "~", "~user", "?(", "<>", ">&2", "2>&1", "\\\n", "\\", "[&]", "[&k=v]", "{a,b}", "..", "1..=2"}

var strayToks = []string{"\xff", "\xc3", "\xe4\xbd", "\xf0\x9f", "\x00", "\x1b", "\x7f", "\xc0\x80", "\xed\xa0\x80", "\t", "\r", " ", " "}

func pick(r *rand.Rand, xs []string) string { return xs[r.Intn(len(xs))] }

func sp(r *rand.Rand) string {
	switch r.Intn(6) {
	case 0:
		return "  "
	case 1:
		return "\t"
	default:
		return " "
	}
}

func genArg(r *rand.Rand, depth int) string {
	switch r.Intn(12) {
	case 0, 1, 2:
		return pick(r, words)
	case 3, 4:
		return pick(r, varToks)
	case 5, 6:
		return pick(r, quoteToks)
	case 7:
		if depth > 0 {
			return "(" + genPipeline(r, depth-1) + ")"
		}
		return "*"
	case 8:
		if depth > 0 {
			return "[" + genArg(r, depth-1) + " " + genArg(r, depth-1) + "]"
		}
		return "[]"
	case 9:
		if depth > 0 {
			return "{ " + genPipeline(r, depth-1) + " }"
		}
		return "{ }"
	case 10:
		return pick(r, words) + pick(r, varToks) + pick(r, quoteToks) // compound
	default:
		return pick(r, punctToks)
	}
}

func genForm(r *rand.Rand, depth int) string {
	body := func() string {
		if depth > 0 {
			return "{ " + genPipeline(r, depth-1) + " }"
		}
		return "{ nop }"
	}
	switch r.Intn(14) {
	case 0:
		s := "if " + genArg(r, 0) + " " + body()
		if r.Intn(2) == 0 {
			s += " elif " + genArg(r, 0) + " " + body()
		}
		if r.Intn(2) == 0 {
			s += " else " + body()
		}
		return s
	case 1:
		s := "for " + pick(r, []string{"x", "y", "$x", "'q'"}) + " [a b] " + body()
		if r.Intn(2) == 0 {
			s += " else " + body()
		}
		return s
	case 2:
		s := "try " + body()
		if r.Intn(2) == 0 {
			s += " " + pick(r, []string{"catch", "except"}) + " " + pick(r, []string{"e", "'e'", "$e", ""}) + " " + body()
		}
		if r.Intn(3) == 0 {
			s += " else " + body()
		}
		if r.Intn(2) == 0 {
			s += " finally " + body()
		}
		return s
	case 3:
		return pick(r, []string{"var", "set", "tmp"}) + " " + pick(r, []string{"x", "x y", "@r", "x[0]", "$x", "'q'"}) + " = " + genArg(r, depth)
	case 4:
		return "del " + pick(r, []string{"x", "x[0]", "$x", "x y"})
	case 5:
		return pick(r, varToks) + " " + genArg(r, depth) // variable as head: no command region
	case 6:
		return pick(r, quoteToks) + " " + genArg(r, depth) // quoted head
	default:
		n := r.Intn(4)
		s := pick(r, words)
		for i := 0; i < n; i++ {
			s += sp(r) + genArg(r, depth)
		}
		if r.Intn(6) == 0 {
			s += " " + pick(r, []string{">", ">>", "<", "2>"}) + " " + pick(r, words)
		}
		return s
	}
}

func genPipeline(r *rand.Rand, depth int) string {
	n := 1 + r.Intn(3)
	var parts []string
	for i := 0; i < n; i++ {
		parts = append(parts, genForm(r, depth))
	}
	return strings.Join(parts, pick(r, []string{" | ", "|", "; ", "\n", " |\n"}))
}

func genSoup(r *rand.Rand) string {
	n := r.Intn(9)
	var b strings.Builder
	for i := 0; i < n; i++ {
		switch r.Intn(10) {
		case 0, 1, 2:
			b.WriteString(pick(r, words))
		case 3:
			b.WriteString(pick(r, varToks))
		case 4:
			b.WriteString(pick(r, quoteToks))
		case 5, 6:
			b.WriteString(pick(r, punctToks))
		case 7:
			b.WriteString(pick(r, strayToks))
		case 8:
			b.WriteString("#" + pick(r, words) + pick(r, strayToks) + "\n")
		default:
			b.WriteByte(byte(r.Intn(256)))
		}
		if r.Intn(3) > 0 {
			b.WriteString(sp(r))
		}
	}
	return b.String()
}

// mutate damages a piece of code: deletes, inserts or replaces a byte, or truncates (typing in progress).
func mutate(r *rand.Rand, s string) string {
	if s == "" {
		return pick(r, strayToks)
	}
	i := r.Intn(len(s))
	switch r.Intn(5) {
	case 0:
		return s[:i] + s[i+1:]
	case 1:
		return s[:i] + pick(r, strayToks) + s[i:]
	case 2:
		return s[:i] + pick(r, punctToks) + s[i:]
	case 3:
		return s[:i] // a prefix, as while typing
	default:
		return s[:i] + string([]byte{byte(r.Intn(256))}) + s[i+1:]
	}
}

// genCode returns one code; roughly 45 % structured (mostly valid), 25 % damaged, 30 % token soup.
func genCode(r *rand.Rand) string {
	var s string
	switch k := r.Intn(20); {
	case k < 9:
		s = genPipeline(r, 2)
		if r.Intn(4) == 0 {
			s = sp(r) + s
		}
		if r.Intn(4) == 0 {
			s += pick(r, []string{"\n", " ", " # c", ";"})
		}
	case k < 14:
		s = mutate(r, genPipeline(r, 1))
		if r.Intn(3) == 0 {
			s = mutate(r, s)
		}
	default:
		s = genSoup(r)
	}
	if len(s) > 120 {
		s = s[:120]
	}
	return s
}

// fixed corner cases that every sweep includes
var cornerCodes = []string{"", " ", "\n", "ls", " ls\n", "ls $x 'y'", "'ls'", "a$x", "ls ]", "ls $? ]", "ls $", "ls [", "set _",
	"nop $mod1:", "l", "ls | cat", "\xff", "ls \xff\xfe", "#c", "#c\xff\nls", "if $true { ls } else { cat }",
	"for x [a] { put $x } else { nop }", "try { a } catch e { b } else { c } finally { d }", "var x = 1", "set x y = 1 2", "del x[0]",
	"tmp x = 2", "e:ls>>f", "a;b;c", "(((", ")))", "{", "}", "[&", "'", "\"", "\\", "$", "?(", "ls\\\nx", "ls # c\n", "\x00", "你好 世界",
	"put 😀", "if", "if x", "for", "try", "var", "var =", "set = =", "del", "a | | b", "a &", "> x", "x > ", "ls 2>&", "~", "*", "**/*"}
