package main

import (
	"fmt"
	"math/rand"
	"strings"
	"sync"
	"time"

	"src.elv.sh/pkg/edit/highlight"
	"src.elv.sh/pkg/eval"
	"src.elv.sh/pkg/parse"
	"src.elv.sh/pkg/ui"
	"verif.local/harness/elv"
	"verif.local/harness/lib"
)

// The non-concurrent sweep: many generated codes through the real highlighter in every configuration;
// the recorded segments are judged by JudgeRegions.tla (Regions!IsAssemblyOf).

type sweepCase struct {
	Cfg  string  `json:"cfg"` // plain | check | lookup | lookup+check | partial | late
	Code []int   `json:"code"`
	Segs [][]int `json:"segs"`
	src  string
}

func mkCase(cfg, code string, t ui.Text) sweepCase {
	return sweepCase{Cfg: cfg, Code: toInts(code), Segs: segTexts(t), src: code}
}

func checker() func(parse.Tree) (string, []*eval.CompilationError) {
	ev := elv.New()
	return func(t parse.Tree) (string, []*eval.CompilationError) {
		autofixes, err := ev.CheckTree(t, nil)
		return strings.Join(autofixes, "; "), eval.UnpackCompilationErrors(err)
	}
}

type panicked struct {
	cfg, code, msg string
}

// sweepParallel: configurations in which Get cannot leave anything in flight (no lookup, or lookup
// with an unbounded blocking window). maxBlockForLate is set once before and not touched meanwhile.
func sweepParallel(codes []string, par int) ([]sweepCase, []panicked) {
	highlight.VerifSetMaxBlockForLate(longBlock)
	out := make([][]sweepCase, par)
	var pmu sync.Mutex
	var panics []panicked
	var wg sync.WaitGroup
	for w := 0; w < par; w++ {
		wg.Add(1)
		go func(w int) {
			defer wg.Done()
			chk := checker()
			tip := func(s string) ui.Text { return ui.T("autofix: " + s) }
			has := func(name string) bool { return answer(name) }
			for i := w; i < len(codes); i += par {
				code := codes[i]
				cfgs := []struct {
					name string
					cfg  highlight.Config
				}{
					{"plain", highlight.Config{}},
					{"lookup", highlight.Config{HasCommand: has}},
				}
				switch i % 3 {
				case 0:
					cfgs = append(cfgs, struct {
						name string
						cfg  highlight.Config
					}{"lookup+check", highlight.Config{HasCommand: has, Check: chk, AutofixTip: tip}})
				case 1:
					cfgs = append(cfgs, struct {
						name string
						cfg  highlight.Config
					}{"check", highlight.Config{Check: chk, AutofixTip: tip}})
				}
				for _, cf := range cfgs {
					func() {
						defer func() {
							if r := recover(); r != nil {
								pmu.Lock()
								panics = append(panics, panicked{cf.name, code, fmt.Sprint(r)})
								pmu.Unlock()
							}
						}()
						t, _ := highlight.NewHighlighter(cf.cfg).Get(code)
						out[w] = append(out[w], mkCase(cf.name, code, t))
					}()
				}
			}
		}(w)
	}
	wg.Wait()
	var all []sweepCase
	for _, o := range out {
		all = append(all, o...)
	}
	return all, panics
}

// sweepLate: the partial text, then (gate released, notification received) the late text, one code at a time.
var lateMissing int

func sweepLate(codes []string) ([]sweepCase, error) {
	var out []sweepCase
	chk := checker()
	for i, code := range codes {
		g := newGate(true)
		cfg := highlight.Config{HasCommand: g.hasCommand}
		if i%2 == 0 {
			cfg.Check = chk
		}
		highlight.VerifSetMaxBlockForLate(0)
		hl := highlight.NewHighlighter(cfg)
		t, _ := hl.Get(code)
		out = append(out, mkCase("partial", code, t))
		p, err := g.settle()
		if err != nil {
			return nil, err
		}
		if p == 0 {
			continue // no command region: nothing is late
		}
		if err := g.releaseAll(); err != nil {
			return nil, err
		}
		select {
		case <-hl.LateUpdates():
			t2, _ := hl.Get(code)
			out = append(out, mkCase("late", code, t2))
		default:
			lateMissing++ // counted in the evidence; notifications are compared in G and V
		}
	}
	return out, nil
}

func genCodes(rng *rand.Rand, n int) []string {
	seen := map[string]bool{}
	var out []string
	for _, s := range cornerCodes {
		if !seen[s] {
			seen[s] = true
			out = append(out, s)
		}
	}
	for fuel := 0; len(out) < n && fuel < 20*n; fuel++ {
		s := genCode(rng)
		if !seen[s] {
			seen[s] = true
			out = append(out, s)
		}
	}
	return out
}

func judgeSweep(c *lib.Ctx, cases []sweepCase, par int) ([]lib.BadCase, error) {
	return lib.Judge(c, "JudgeRegions", c.SpecDir("Highlighter"), "JudgeRegions", cases, par, 10*time.Minute)
}
