package main

import (
	"bytes"
	"fmt"
	"hash/fnv"
	"runtime"
	"strconv"
	"strings"
	"sync"
	"time"

	"src.elv.sh/pkg/edit/highlight"
	"src.elv.sh/pkg/ui"
	"verif.local/harness/lib"
)

// ---- projection of the public result (kept next to concretisation in g.go)

// plainOf is the plain content of a styled text: the concatenation of its segment texts.
func plainOf(t ui.Text) string {
	var b strings.Builder
	for _, s := range t {
		b.WriteString(s.Text)
	}
	return b.String()
}

// sigOf is the style signature: per segment its length and SGR style.
func sigOf(t ui.Text) string {
	var b strings.Builder
	for _, s := range t {
		b.WriteString(strconv.Itoa(len(s.Text)))
		b.WriteByte(':')
		b.WriteString(s.Style.SGR())
		b.WriteByte(' ')
	}
	return b.String()
}

func segTexts(t ui.Text) [][]int {
	out := make([][]int, 0, len(t))
	for _, s := range t {
		out = append(out, toInts(s.Text))
	}
	return out
}

func toInts(s string) []int {
	out := make([]int, len(s))
	for i := 0; i < len(s); i++ {
		out[i] = int(s[i])
	}
	return out
}

// ---- goroutine identity and census

func goid() int {
	var buf [64]byte
	n := runtime.Stack(buf[:], false)
	f := strings.Fields(string(buf[:n]))
	id, _ := strconv.Atoi(f[1])
	return id
}

var (
	stackBuf   = make([]byte, 8<<20)
	censusMu   sync.Mutex
	hlCreateBy = []byte("created by src.elv.sh/pkg/edit/highlight.highlight")
)

// census counts the goroutines that highlight() has spawned and that still exist: for every late
// computation the goroutine that consults HasCommand and the one that waits to hand the result to the
// late callback. It is a synchronisation aid only (to know that a released late callback has finished
// its critical section and its send); it never enters a verdict.
func census() int {
	censusMu.Lock()
	defer censusMu.Unlock()
	n := runtime.Stack(stackBuf, true)
	return bytes.Count(stackBuf[:n], hlCreateBy)
}

const watchdog = 90 * time.Second

func waitCensusZero() error {
	deadline := time.Now().Add(watchdog)
	for i := 0; ; i++ {
		if census() == 0 {
			return nil
		}
		if time.Now().After(deadline) {
			return lib.Infra("late computations did not finish within %s (census %d)", watchdog, census())
		}
		pause(i)
	}
}

func pause(i int) {
	if i < 20 {
		runtime.Gosched()
	} else {
		time.Sleep(50 * time.Microsecond)
	}
}

// ---- the gated HasCommand

type ticket struct {
	goid    int
	first   string
	release chan struct{}
	code    int
}

// gate is the HasCommand callback of a Highlighter under test. All HasCommand calls of one late
// computation come from one goroutine; its first call parks (when park is set) until the driver
// releases the ticket, i.e. the late computation finishes exactly when the schedule says so.
type gate struct {
	mu     sync.Mutex
	park   bool
	seen   map[int]*ticket
	parked []*ticket
	calls  int
}

func newGate(park bool) *gate { return &gate{park: park, seen: map[int]*ticket{}} }

// answer is the (constant) truth about commands: decided by the name only.
func answer(name string) bool {
	h := fnv.New32a()
	h.Write([]byte(name))
	return h.Sum32()%2 == 0
}

func (g *gate) hasCommand(name string) bool {
	id := goid()
	g.mu.Lock()
	g.calls++
	t := g.seen[id]
	if t == nil {
		t = &ticket{goid: id, first: name, release: make(chan struct{}), code: -1}
		g.seen[id] = t
		if g.park {
			g.parked = append(g.parked, t)
		} else {
			close(t.release)
		}
	}
	g.mu.Unlock()
	<-t.release
	return answer(name)
}

func (g *gate) setPark(p bool) { g.mu.Lock(); g.park = p; g.mu.Unlock() }
func (g *gate) nParked() int   { g.mu.Lock(); defer g.mu.Unlock(); return len(g.parked) }
func (g *gate) nCalls() int    { g.mu.Lock(); defer g.mu.Unlock(); return g.calls }

// claim gives the most recently parked, still unclaimed ticket the code id of the Get that started it.
func (g *gate) claim(code int) bool {
	g.mu.Lock()
	defer g.mu.Unlock()
	for i := len(g.parked) - 1; i >= 0; i-- {
		if g.parked[i].code == -1 {
			g.parked[i].code = code
			return true
		}
	}
	return false
}

// releaseCode lets the oldest parked computation of the given code finish (code < 0: any).
func (g *gate) releaseCode(code int) bool {
	g.mu.Lock()
	defer g.mu.Unlock()
	for i, t := range g.parked {
		if code < 0 || t.code == code {
			g.parked = append(g.parked[:i:i], g.parked[i+1:]...)
			close(t.release)
			return true
		}
	}
	return false
}

// settle waits until every goroutine spawned by highlight() belongs to a parked computation (two
// goroutines each) and returns the number of parked computations.
func (g *gate) settle() (int, error) {
	deadline := time.Now().Add(watchdog)
	for i := 0; ; i++ {
		p := g.nParked()
		c := census()
		if c == 2*p && p == g.nParked() {
			return p, nil
		}
		if time.Now().After(deadline) {
			return p, lib.Infra("highlighter goroutines did not settle within %s: %d goroutines spawned by highlight(), %d parked late computations (2 goroutines per late computation expected)", watchdog, c, p)
		}
		pause(i)
	}
}

func (g *gate) releaseAll() error {
	for g.releaseCode(-1) {
	}
	g.setPark(false)
	return waitCensusZero()
}

// ---- attributes of a code, taken from the real highlighter in a sequential pre-pass

const longBlock = 10 * time.Minute

type codeInfo struct {
	Code    string
	Cmd     bool   // HasCommand is consulted for this code (it has a command region)
	Partial string // style signature of the text without command styling
	Full    string // style signature of the late text
	NoLook  string // style signature without command lookup (Config.HasCommand == nil)
}

var (
	infoMu    sync.Mutex
	infoCache = map[string]*codeInfo{}
)

// infoOf determines, with nothing else running, whether the code has command regions and the style
// signatures of its partial and late texts. Only the styles are taken from here (to tell "partial"
// from "late" in the projection); the text is never taken from a reference.
func infoOf(code string) (*codeInfo, error) {
	infoMu.Lock()
	defer infoMu.Unlock()
	if ci := infoCache[code]; ci != nil {
		return ci, nil
	}
	ci := &codeInfo{Code: code}
	t0, _ := highlight.NewHighlighter(highlight.Config{}).Get(code)
	ci.NoLook = sigOf(t0)
	g := newGate(false)
	highlight.VerifSetMaxBlockForLate(longBlock)
	hl := highlight.NewHighlighter(highlight.Config{HasCommand: g.hasCommand})
	t, _ := hl.Get(code)
	ci.Full = sigOf(t)
	ci.Cmd = g.nCalls() > 0
	ci.Partial = ci.Full
	if err := waitCensusZero(); err != nil {
		return nil, err
	}
	if ci.Cmd {
		g2 := newGate(true)
		highlight.VerifSetMaxBlockForLate(0)
		hl2 := highlight.NewHighlighter(highlight.Config{HasCommand: g2.hasCommand})
		t2, _ := hl2.Get(code)
		ci.Partial = sigOf(t2)
		if err := g2.releaseAll(); err != nil {
			return nil, err
		}
		if ci.Partial == ci.Full {
			return nil, lib.Infra("pre-pass: code %q consults HasCommand but its partial and late texts have the same styles", code)
		}
	}
	infoCache[code] = ci
	return ci, nil
}

// styOf projects a returned text to 0 (partial styles; without lookup: the only styles there are),
// 1 (late styles) or 2 (neither).
func (ci *codeInfo) styOf(t ui.Text, lookup bool) int {
	s := sigOf(t)
	switch {
	case !lookup && s == ci.NoLook:
		return 0
	case !lookup:
		return 2
	case s == ci.Partial:
		return 0
	case s == ci.Full:
		return 1
	}
	return 2
}

func short(s string) string {
	if len(s) > 60 {
		s = s[:60] + "…"
	}
	return fmt.Sprintf("%q", s)
}
