package main

import (
	"encoding/json"
	"fmt"
	"math/rand"

	"src.elv.sh/pkg/edit/highlight"
	"verif.local/harness/lib"
)

// G: schedules enumerated by TLC (MCHighlighter, Rec = TRUE) replayed on the real Highlighter.

type step struct {
	Op    string `json:"op"`   // get | deliver | recv | inv
	Code  int    `json:"code"` // abstract code id
	Mode  string `json:"mode"` // get: hit|final|full|partial ; deliver: apply|drop
	Of    int    `json:"of"`   // get: id of the code the returned text must consist of
	Late  bool   `json:"late"` // get: the returned text carries the late (command) styling
	Lates int    `json:"lates"`
	Infl  int    `json:"infl"`
}

type gCase struct {
	Kind  string   `json:"kind"` // "g"
	Steps []step   `json:"steps"`
	Codes []string `json:"codes"` // concretisation: abstract code id -> code (for reading; invalid UTF-8 is not exact here)
	Bytes [][]int  `json:"bytes"` // the same codes byte by byte (authoritative on replay)
}

// withBytes fills Bytes from Codes (when recording) or Codes from Bytes (when replaying a stored case).
func (gc *gCase) withBytes() *gCase {
	if len(gc.Bytes) == len(gc.Codes) && len(gc.Bytes) > 0 {
		for i, b := range gc.Bytes {
			bs := make([]byte, len(b))
			for j, x := range b {
				bs[j] = byte(x)
			}
			gc.Codes[i] = string(bs)
		}
		return gc
	}
	gc.Bytes = make([][]int, len(gc.Codes))
	for i, s := range gc.Codes {
		gc.Bytes[i] = toInts(s)
	}
	return gc
}

type gMismatch struct {
	key, what string
	at        int
}

// concretise chooses real codes for the abstract ids: 0 = "", CmdCodes from the pool of codes with
// a command region, the others from the pool without.
type pools struct {
	cmd, plain []string
}

func (p *pools) concretise(r *rand.Rand, nCodes int, cmdIDs map[int]bool) []string {
	out := make([]string, nCodes)
	used := map[string]bool{"": true}
	for id := 1; id < nCodes; id++ {
		src := p.plain
		if cmdIDs[id] {
			src = p.cmd
		}
		for try := 0; ; try++ {
			s := src[r.Intn(len(src))]
			if !used[s] || try > 50 {
				out[id] = s
				used[s] = true
				break
			}
		}
	}
	return out
}

// replayG drives one fresh real Highlighter through the schedule and compares, after every step,
// everything the model prescribes that the public API shows: the plain content of the returned text
// (against the code the MODEL says it consists of), whether it carries the late styling, and the
// number of pending LateUpdates notifications. A nil mismatch means the real code followed the model.
func replayG(gc *gCase) (*gMismatch, error) {
	infos := make([]*codeInfo, len(gc.Codes))
	for i, s := range gc.Codes {
		ci, err := infoOf(s)
		if err != nil {
			return nil, err
		}
		infos[i] = ci
	}
	g := newGate(true)
	hl := highlight.NewHighlighter(highlight.Config{HasCommand: g.hasCommand})
	// A text mismatch (the statement of the property) ends the replay and is what is reported; a styling
	// or notification mismatch (conformance to the specification beyond the statement) is remembered,
	// the replay goes on looking for a text mismatch, comparing texts only from there on.
	var mm, soft *gMismatch
	fail := func(i int, key, format string, a ...any) {
		m := &gMismatch{key: key, what: fmt.Sprintf("step %d %s(%d,%s): ", i+1, gc.Steps[i].Op, gc.Steps[i].Code, gc.Steps[i].Mode) + fmt.Sprintf(format, a...), at: i}
		if key == "g:text" {
			if mm == nil {
				mm = m
			}
		} else if soft == nil {
			soft = m
		}
	}
	var infra error
	for i, st := range gc.Steps {
		switch st.Op {
		case "get":
			if st.Mode == "full" {
				g.setPark(false)
				highlight.VerifSetMaxBlockForLate(longBlock)
			} else {
				g.setPark(true)
				highlight.VerifSetMaxBlockForLate(0)
			}
			text, _ := hl.Get(gc.Codes[st.Code])
			plain := plainOf(text)
			if plain != gc.Codes[st.Of] {
				fail(i, "g:text", "Get(%s) returned a text consisting of %s; the specification prescribes the text of code %d = %s", short(gc.Codes[st.Code]), short(plain), st.Of, short(gc.Codes[st.Of]))
			} else if soft == nil {
				want := 0
				if st.Late {
					want = 1
				}
				if sty := infos[st.Of].styOf(text, true); sty != want {
					fail(i, "g:style", "Get(%s) returned styles class %d (0 partial, 1 late, 2 neither), the specification prescribes %d", short(gc.Codes[st.Code]), sty, want)
				}
			}
			p, err := g.settle()
			if err != nil {
				infra = err
				break
			}
			if st.Mode == "partial" && p == st.Infl {
				if !g.claim(st.Code) {
					infra = lib.Infra("step %d: no new parked late computation to claim", i+1)
				}
			}
			if p != st.Infl && mm == nil && soft == nil && infra == nil {
				infra = lib.Infra("step %d get(%d,%s): %d late computations are parked, the model has %d in flight: the internal shape (cache hit/miss, when HasCommand is consulted) differs from Highlighter.tla -- re-examine the specification; this is not a verdict", i+1, st.Code, st.Mode, p, st.Infl)
			}
		case "deliver":
			if !g.releaseCode(st.Code) {
				if soft == nil {
					infra = lib.Infra("step %d: no parked late computation for code %d", i+1, st.Code)
				}
				break
			}
			if _, err := g.settle(); err != nil {
				infra = err
			}
		case "recv":
			select {
			case <-hl.LateUpdates():
			default:
				if soft == nil {
					fail(i, "g:notify", "no notification on LateUpdates() where the specification has one pending")
				}
			}
		case "inv":
			hl.InvalidateCache()
		default:
			infra = lib.Infra("unknown step %q", st.Op)
		}
		if infra != nil || mm != nil {
			break
		}
		if n := len(hl.LateUpdates()); n != st.Lates && soft == nil {
			fail(i, "g:notify", "%d notifications pending on LateUpdates(), the specification prescribes %d", n, st.Lates)
		}
	}
	if mm == nil {
		mm = soft
	}
	if err := g.releaseAll(); err != nil && infra == nil {
		infra = err
	}
	return mm, infra
}

func parseSchedules(lines []string) ([][]step, error) {
	seen := map[string]bool{}
	var out [][]step
	for _, l := range lines {
		if l == "" || l[0] != '[' || seen[l] {
			continue
		}
		seen[l] = true
		var st []step
		if err := json.Unmarshal([]byte(l), &st); err != nil {
			return nil, lib.Infra("schedule line: %v", err)
		}
		if len(st) > 0 {
			out = append(out, st)
		}
	}
	return out, nil
}
