// C30 — syntax highlighting never changes the text and is never stale.
// M: MCHighlighter (all interleavings of Get / LateDeliver / Send / Recv / Invalidate, 3 codes + "",
//    <= 3 late computations in flight), MCRegions (the text-assembly rule for every arrangement of
//    regions), and the design mutant "late path without the code test" (must violate TextPreserved).
// G: TLC-enumerated schedules (transition cover of the model graph; thorough: plus every behaviour of
//    bounded length) replayed on the REAL Highlighter: Config.HasCommand is a gate, so that a late
//    computation finishes exactly at the model's LateDeliver; maxBlockForLate 0 / unbounded (hook) forces
//    ImmediatePartial / ImmediateFull. After every step the returned text, its styling class and the
//    pending notifications are compared with what the model prescribes. The mutant model's
//    counterexample is replayed too (a candidate; the real code must not reproduce it).
// V: free-running real Highlighters (typist + editor goroutines, HasCommand with random delays) are
//    recorded and validated against TraceHighlighter (TLC places the critical sections and the late
//    callbacks); a sequential sweep of generated codes in all configurations is judged by JudgeRegions.
package main

import (
	"encoding/json"
	"fmt"
	"math/rand"
	"os"
	"regexp"
	"runtime"
	"sort"
	"strconv"
	"strings"
	"sync"
	"time"

	"verif.local/harness/lib"
)

func main() { lib.Main("C30", run) }

const invariants = "TypeOK TextPreserved CacheConsistent LateOnlyForItsCode LateIsLooked"

func mcCfg(lookup bool, latesCap int, rec bool, depth, maxInfl int, variant string, extra string) []byte {
	b := func(x bool) string {
		if x {
			return "TRUE"
		}
		return "FALSE"
	}
	return []byte(fmt.Sprintf("CONSTANTS Codes = {0, 1, 2, 3} CmdCodes = {1, 2} WithLookup = %s LatesCap = %d\n"+
		"          Rec = %s Depth = %d MaxInflight = %d Variant = \"%s\"\nSPECIFICATION Spec\nCONSTRAINT Bound\n%s\n",
		b(lookup), latesCap, b(rec), depth, maxInfl, variant, extra))
}

var cmdIDs = map[int]bool{1: true, 2: true}

type bg struct {
	wg   sync.WaitGroup
	mu   sync.Mutex
	errs []error
}

func (b *bg) goRun(f func() error) {
	b.wg.Add(1)
	go func() {
		defer b.wg.Done()
		if err := f(); err != nil {
			b.mu.Lock()
			b.errs = append(b.errs, err)
			b.mu.Unlock()
		}
	}()
}

func (b *bg) wait() error {
	b.wg.Wait()
	if len(b.errs) > 0 {
		return b.errs[0]
	}
	return nil
}

func run(c *lib.Ctx) error {
	dir := c.SpecDir("Highlighter")
	if c.Replay != "" {
		return replay(c, dir)
	}
	c.Set("rule", "G: a replayed schedule counts when it contains a late delivery; V: a recorded run counts when a late notification was received, a sweep case when the text has at least two segments; hashed after projection")
	rng := rand.New(rand.NewSource(c.Seed))
	sem := make(chan struct{}, 4) // at most 4 TLC processes of this check at any time
	tlc := func(name string, r lib.TLCRun) (*lib.TLCResult, error) {
		sem <- struct{}{}
		defer func() { <-sem }()
		return c.TLC(name, r)
	}
	var jobs bg
	err := body(c, dir, rng, sem, tlc, &jobs)
	// background TLC processes are always awaited: nothing may outlive the check
	if werr := jobs.wait(); err == nil {
		err = werr
	}
	return err
}

func body(c *lib.Ctx, dir string, rng *rand.Rand, sem chan struct{}, tlc func(string, lib.TLCRun) (*lib.TLCResult, error), jobs *bg) error {
	// ---------------------------------------------------------------- M (background)
	jobs.goRun(func() error {
		r, err := tlc("MCHighlighter", lib.TLCRun{Dir: dir, Module: "MCHighlighter", Workers: 2, Timeout: 12 * time.Minute, Coverage: true,
			Files: map[string][]byte{"MCHighlighter.cfg": mcCfg(true, 2, false, 0, c.Pick(3, 4), "asis", "INVARIANT "+invariants+"\nPROPERTY Refines")}})
		if err != nil {
			return err
		}
		if r.ErrKind != "" {
			return lib.Infra("the Highlighter MODEL violates %s %s -- model and code must be re-examined before any verdict:\n%s", r.ErrKind, r.ErrName, r.ErrTrace)
		}
		c.Set("model_states", r.Distinct)
		cov := actionCoverage(r.Stdout)
		c.Set("model_action_coverage", cov)
		for _, a := range []string{"DoGetHit", "DoGetFull", "DoGetPartial", "DoGetFinal", "DoApply", "DoDrop", "DoSend", "DoRecv", "DoInvalidate"} {
			if cov[a] == 0 {
				return lib.Infra("vacuity guard: action %s was never taken in the exhaustive model (coverage %v)", a, cov)
			}
		}
		return nil
	})
	if c.Thorough() {
		jobs.goRun(func() error {
			r, err := tlc("MCHighlighter(no lookup)", lib.TLCRun{Dir: dir, Module: "MCHighlighter", Workers: 1, Timeout: 10 * time.Minute,
				Files: map[string][]byte{"MCHighlighter.cfg": mcCfg(false, 2, false, 0, 3, "asis", "INVARIANT "+invariants+"\nPROPERTY Refines")}})
			if err != nil {
				return err
			}
			if r.ErrKind != "" {
				return lib.Infra("the Highlighter MODEL (no lookup) violates %s %s:\n%s", r.ErrKind, r.ErrName, r.ErrTrace)
			}
			return nil
		})
	}
	jobs.goRun(func() error {
		n, k := 5, 3
		if c.Thorough() {
			n = 6
		}
		r, err := tlc("MCRegions", lib.TLCRun{Dir: dir, Module: "MCRegions", Workers: 2, Timeout: 12 * time.Minute,
			Files: map[string][]byte{"MCRegions.cfg": []byte(fmt.Sprintf("CONSTANTS N = %d K = %d\nINIT Init\nNEXT Next\nINVARIANT Theorem KeptDisjoint\n", n, k))}})
		if err != nil {
			return err
		}
		if r.ErrKind != "" {
			return lib.Infra("the Regions rule violates %s %s -- the design theorem fails in the model:\n%s", r.ErrKind, r.ErrName, r.ErrTrace)
		}
		c.Set("regions_bound", map[string]int{"N": n, "K": k})
		c.Set("regions_arrangements", r.Distinct)
		return nil
	})
	// the design mutant: must be caught by the model's invariants; its counterexample is a candidate
	var candidate []step
	candDone := make(chan struct{})
	jobs.goRun(func() error {
		defer close(candDone)
		if c.Quick() {
			return nil // thorough tier only (one more TLC process); the same schedule is part of the transition cover
		}
		r, err := tlc("MCHighlighter(design mutant: no code test)", lib.TLCRun{Dir: dir, Module: "MCHighlighter", Workers: 1, Timeout: 10 * time.Minute,
			Files: map[string][]byte{"MCHighlighter.cfg": mcCfg(true, 8, true, 6, 2, "nocheck", "INVARIANT TextPreserved")}})
		if err != nil {
			return err
		}
		if r.ErrKind != "invariant" || r.ErrName != "TextPreserved" {
			return lib.Infra("vacuity guard: the model without the code test in the late path does not violate TextPreserved (%s %s)", r.ErrKind, r.ErrName)
		}
		sts := r.TraceStates()
		if len(sts) == 0 {
			return lib.Infra("no counterexample states parsed")
		}
		b, _ := json.Marshal(sts[len(sts)-1]["hist"])
		if err := json.Unmarshal(b, &candidate); err != nil || len(candidate) == 0 {
			return lib.Infra("cannot read the candidate schedule from the counterexample: %v (%s)", err, b)
		}
		return nil
	})
	// ---------------------------------------------------------------- G generation (background)
	var schedules [][]step
	genDone := make(chan struct{})
	jobs.goRun(func() error {
		defer close(genDone)
		r, err := tlc("MCHighlighter(transition cover)", lib.TLCRun{Dir: dir, Module: "MCHighlighter", Workers: 1, Timeout: 12 * time.Minute,
			Files: map[string][]byte{"MCHighlighter.cfg": mcCfg(true, 3, true, 99, c.Pick(2, 3), "asis", "VIEW View\nACTION_CONSTRAINT EmitT\nINVARIANT TextPreserved CacheConsistent LateOnlyForItsCode")}})
		if err != nil {
			return err
		}
		if r.ErrKind != "" {
			return lib.Infra("generator run reported %s %s", r.ErrKind, r.ErrName)
		}
		s, err := parseSchedules(r.PrintedStrings())
		if err != nil {
			return err
		}
		c.Set("g_transition_cover", len(s))
		if int64(len(s)) < r.Distinct {
			return lib.Infra("generator printed %d schedules for %d distinct states", len(s), r.Distinct)
		}
		if c.Thorough() {
			r2, err := tlc("MCHighlighter(all behaviours)", lib.TLCRun{Dir: dir, Module: "MCHighlighter", Workers: 2, Timeout: 12 * time.Minute,
				Files: map[string][]byte{"MCHighlighter.cfg": mcCfg(true, 128, true, 5, 3, "asis", "INVARIANT TextPreserved CacheConsistent LateOnlyForItsCode Emit")}})
			if err != nil {
				return err
			}
			if r2.ErrKind != "" {
				return lib.Infra("generator run reported %s %s", r2.ErrKind, r2.ErrName)
			}
			s2, err := parseSchedules(r2.PrintedStrings())
			if err != nil {
				return err
			}
			c.Set("g_all_behaviours_depth5", len(s2))
			s = append(s, s2...)
		}
		schedules = s
		return nil
	})

	// ---------------------------------------------------------------- real code: sweep
	nCodes := c.Pick(3000, 40000)
	codes := genCodes(rng, nCodes)
	t0 := time.Now()
	cases, panics := sweepParallel(codes, 4)
	for _, p := range panics {
		c.Reject("sweep:panic", fmt.Sprintf("highlighting %s (%s) panicked: %s", short(p.code), p.cfg, p.msg), map[string]any{"kind": "sweep", "cfg": p.cfg, "code": toInts(p.code)})
	}
	var lateCodes []string
	for i, s := range codes {
		if i < len(cornerCodes) || i%c.Pick(4, 6) == 0 {
			lateCodes = append(lateCodes, s)
		}
	}
	lc, err := sweepLate(lateCodes)
	if err != nil {
		return err
	}
	cases = append(cases, lc...)
	c.AddEvals(len(cases))
	c.Set("sweep_codes", len(codes))
	c.Set("sweep_cases", len(cases))
	c.Set("sweep_late_missing", lateMissing)
	c.Logf("sweep: %d codes, %d cases in %.1fs", len(codes), len(cases), time.Since(t0).Seconds())
	for i := range cases {
		if len(cases[i].Segs) >= 2 {
			c.Distinct([]any{"sweep", cases[i].Cfg, cases[i].Code})
		}
	}
	c.Sample(map[string]any{"sweep": cases[len(cornerCodes)*2].src, "cfg": cases[len(cornerCodes)*2].Cfg, "segments": len(cases[len(cornerCodes)*2].Segs)})
	jobs.goRun(func() error {
		// vacuity guard: a case with one byte changed must be rejected by the judge
		bad := sweepCase{Cfg: "selftest", Code: toInts("ls | cat"), Segs: [][]int{toInts("ls"), toInts(" "), toInts("|"), toInts(" "), toInts("cbt")}}
		bad2 := sweepCase{Cfg: "selftest", Code: toInts("ls | cat"), Segs: [][]int{toInts("ls"), toInts("|"), toInts(" "), toInts("cat")}}
		all := append([]sweepCase{bad, bad2}, cases...)
		par := c.Pick(1, 2)
		for i := 0; i < par; i++ {
			sem <- struct{}{}
		}
		res, err := lib.Judge(c, "JudgeRegions", dir, "JudgeRegions", all, par, 14*time.Minute)
		for i := 0; i < par; i++ {
			<-sem
		}
		if err != nil {
			return err
		}
		got := map[int]bool{}
		for _, b := range res {
			got[b.Index] = true
		}
		if !got[0] || !got[1] {
			return lib.Infra("vacuity guard: JudgeRegions accepted a corrupted case")
		}
		for _, b := range res {
			if b.Index < 2 {
				continue
			}
			cs := all[b.Index]
			c.Reject("sweep:text", fmt.Sprintf("highlight of %s (%s) returned segments that are not an assembly of the code: %v", short(cs.src), cs.Cfg, b.Info),
				map[string]any{"kind": "sweep", "cfg": cs.Cfg, "code": cs.Code, "segs": cs.Segs})
		}
		c.AddTraces(len(cases))
		return nil
	})

	// ---------------------------------------------------------------- real code: V runs
	nRuns := c.Pick(30, 600)
	perBatch := c.Pick(15, 25)
	type batch struct {
		runs [][]event
		in   *interner
	}
	var batches []batch
	cur := batch{in: newInterner()}
	var tot vStats
	t0 = time.Now()
	var firstRun []event
	for i := 0; i < nRuns; i++ {
		pool, err := vPool(rng)
		if err != nil {
			return err
		}
		lookup := rng.Intn(8) != 0
		block := []time.Duration{0, 100 * time.Microsecond, time.Millisecond, 3 * time.Millisecond}[rng.Intn(4)]
		evs, err := vRun(rng, cur.in, pool, lookup, 8+rng.Intn(14), block, []int{1, 2, 4, 8}[rng.Intn(4)])
		if err != nil {
			return err
		}
		st := statsOf(evs)
		tot.gets += st.gets
		tot.full += st.full
		tot.partial += st.partial
		tot.lates += st.lates
		c.AddEvals(st.gets)
		if st.lates > 0 {
			c.Distinct(evs)
		}
		if firstRun == nil && st.lates > 1 {
			firstRun = evs
		}
		cur.runs = append(cur.runs, evs)
		if len(cur.runs) == perBatch {
			batches = append(batches, cur)
			cur = batch{in: newInterner()}
		}
	}
	if len(cur.runs) > 0 {
		batches = append(batches, cur)
	}
	runtime.GOMAXPROCS(runtime.NumCPU())
	c.Set("v_runs", nRuns)
	c.Set("v_gets", tot.gets)
	c.Set("v_gets_late_styled", tot.full)
	c.Set("v_gets_partial", tot.partial)
	c.Set("v_late_notifications", tot.lates)
	c.Logf("V: %d runs, %d Gets (%d late-styled, %d partial), %d notifications in %.1fs", nRuns, tot.gets, tot.full, tot.partial, tot.lates, time.Since(t0).Seconds())
	if firstRun != nil {
		c.Sample(firstRun[:min(len(firstRun), 20)])
	}
	if tot.lates == 0 || tot.partial == 0 || tot.full == 0 {
		return lib.Infra("vacuity guard: the V runs did not exercise the late path (late-styled %d, partial %d, notifications %d)", tot.full, tot.partial, tot.lates)
	}
	// vacuity guard, inside the last batch: a copy of a recorded run in which one returned text is
	// replaced by the empty text is appended; the batch must be rejected exactly at that event
	var corrupt []event
	corruptAt := -1
	if firstRun != nil {
		corrupt = append([]event{}, firstRun...)
		for i := range corrupt {
			if corrupt[i].Ev == "GetEnd" && corrupt[i].Code != 0 && i > len(corrupt)/2 {
				corrupt[i].Plain = 0
				corruptAt = i
				break
			}
		}
	}
	if corruptAt < 0 {
		return lib.Infra("vacuity guard: no recorded run with a late notification to corrupt")
	}
	for bi, b := range batches {
		b := b
		last := bi == len(batches)-1
		jobs.goRun(func() error {
			var evs []event
			for _, r := range b.runs {
				evs = append(evs, r...)
			}
			own := len(evs)
			if last {
				// the corrupted copy uses the code ids of firstRun's batch; ids only need to be
				// consistent within a run
				evs = append(evs, corrupt...)
			}
			sem <- struct{}{}
			v, err := lib.ValidateTrace(c, "TraceHighlighter", dir, "TraceHighlighter", evs, 12*time.Minute)
			<-sem
			if err != nil {
				return err
			}
			c.AddTraces(len(b.runs))
			if last {
				switch {
				case v.Accepted:
					return lib.Infra("vacuity guard: TraceHighlighter accepted a run in which one returned text was replaced by the empty text")
				case v.HighWater == own+corruptAt:
					c.Set("v_vacuity_guard", "corrupted copy rejected exactly at the changed GetEnd")
					return nil
				case v.HighWater > own:
					return lib.Infra("vacuity guard: corrupted copy rejected at event %d, expected %d", v.HighWater-own, corruptAt)
				}
			} else if v.Accepted {
				return nil
			}
			pos := 0
			for _, rn := range b.runs {
				if v.HighWater < pos+len(rn) {
					sem <- struct{}{}
					one, err := lib.ValidateTrace(c, "TraceHighlighter(single)", dir, "TraceHighlighter", rn, 10*time.Minute)
					<-sem
					if err != nil {
						return err
					}
					if one.Accepted {
						return lib.Infra("batch rejected at event %d but the run alone is accepted", v.HighWater)
					}
					rejectTrace(c, rn, b.in.codes, one)
					return nil
				}
				pos += len(rn)
			}
			return lib.Infra("batch rejected beyond its end")
		})
	}

	// ---------------------------------------------------------------- real code: G replays
	<-genDone
	<-candDone
	if schedules == nil || (candidate == nil && c.Thorough()) {
		return nil // a generator job failed; its error is reported by run
	}
	t0 = time.Now()
	runtime.GOMAXPROCS(4)
	pl := &pools{}
	for _, s := range codes[:min(len(codes), 1500)] {
		if len(s) == 0 || len(s) > 40 {
			continue
		}
		ci, err := infoOf(s)
		if err != nil {
			return err
		}
		if ci.Cmd {
			pl.cmd = append(pl.cmd, s)
		} else {
			pl.plain = append(pl.plain, s)
		}
	}
	if len(pl.cmd) < 10 || len(pl.plain) < 5 {
		return lib.Infra("code pools too small: %d with, %d without command regions", len(pl.cmd), len(pl.plain))
	}
	// typing pairs: a code and its one-byte-longer extension are favourite neighbours
	pl.cmd = append(pl.cmd, "l", "ls", "ls ", "ls -l", "e:ls")
	c.Set("g_pool_cmd", len(pl.cmd))
	c.Set("g_pool_nocmd", len(pl.plain))
	// (a) the candidate of the mutated design
	if candidate != nil {
		gc := &gCase{Kind: "candidate", Steps: candidate, Codes: []string{"", "l", "ls", "'x'"}}
		repro, err := replayCandidate(gc)
		if err != nil {
			return err
		}
		c.AddTraces(1)
		c.Set("candidate_schedule", candidate)
		c.Set("candidate_reproduced_on_real_code", repro != nil)
		if repro != nil {
			c.Reject("g:stale-late", "the schedule that violates TextPreserved in the design without the code test is reproduced by the real code: "+repro.what, gc)
		}
	}
	// (b) vacuity guard: a schedule with one prescribed text changed must be reported by the replay
	selfDone := false
	nDeliver, nSteps, nText := 0, 0, 0
	for idx, st := range schedules {
		gc := (&gCase{Kind: "g", Steps: st, Codes: pl.concretise(rng, 4, cmdIDs)}).withBytes()
		mm, err := replayG(gc)
		if err != nil {
			return fmt.Errorf("schedule %d: %w", idx, err)
		}
		nSteps += len(st)
		hasDeliver := false
		for _, s := range st {
			if s.Op == "get" {
				c.AddEvals(1)
			}
			if s.Op == "deliver" {
				hasDeliver = true
			}
		}
		if hasDeliver {
			nDeliver++
			c.Distinct([]any{"g", st})
		}
		if idx == len(schedules)/2 {
			c.Sample(gc)
		}
		if mm != nil {
			c.Reject(mm.key, "replay of a model schedule on the real Highlighter: "+mm.what, gc)
			if mm.key == "g:text" {
				nText++
			}
			if nText >= 3 || c.Violations() >= 12 {
				break
			}
			continue
		}
		if !selfDone && hasDeliver && st[len(st)-1].Op == "get" && st[len(st)-1].Of != 0 {
			bad := &gCase{Kind: "g", Steps: append([]step{}, st...), Codes: gc.Codes}
			bad.Steps[len(st)-1].Of = 0
			if mm, err := replayG(bad); err != nil {
				return err
			} else if mm == nil {
				return lib.Infra("vacuity guard: the replay accepted a schedule with a changed prescribed text")
			}
			selfDone = true
		}
	}
	c.AddTraces(len(schedules))
	c.Set("g_schedules", len(schedules))
	c.Set("g_schedules_with_late_delivery", nDeliver)
	c.Set("g_steps", nSteps)
	c.Set("exhaustive", true)
	c.Logf("G: %d schedules (%d with late deliveries, %d steps) replayed in %.1fs", len(schedules), nDeliver, nSteps, time.Since(t0).Seconds())
	if !selfDone && c.Violations() == 0 {
		return lib.Infra("vacuity guard of the replay did not run")
	}
	runtime.GOMAXPROCS(runtime.NumCPU())
	c.Assume("TLC trusted; a styled text is abstracted to (the code its plain content equals, partial/late styling class); the styling classes and the attribute 'has a command region' of a code are taken from a sequential pre-pass over the real highlighter, never the text")
	c.Assume("G: HasCommand is the only gate; that a released late callback has left its critical section and sent its notification is observed through the goroutines created by highlight() (runtime.Stack), a synchronisation aid that never enters a verdict; store and send of a late callback cannot be separated by a gate and are replayed fused")
	c.Assume("V: events are ordered by one mutex-protected tracer; critical sections and late callbacks are placed by TLC between Start and End events; LateDrop is not placed (unobservable)")
	return nil
}

var reActCov = regexp.MustCompile(`(?m)^<(Do\w+) line \d+, col \d+ to line \d+, col \d+ of module MCHighlighter[^>]*>: (\d+):(\d+)`)

// actionCoverage reads TLC's per-action counts (states generated through the action).
func actionCoverage(stdout string) map[string]int64 {
	out := map[string]int64{}
	for _, m := range reActCov.FindAllStringSubmatch(stdout, -1) {
		n, _ := strconv.ParseInt(m[3], 10, 64)
		out[m[1]] += n
	}
	return out
}

func rejectTrace(c *lib.Ctx, evs []event, codes []string, v *lib.TraceVerdict) {
	key := "v:trace-rejected"
	if v.InvName != "" {
		key = "v:" + v.InvName
	}
	next := "(end)"
	if v.HighWater < len(evs) {
		e := evs[v.HighWater]
		b, _ := json.Marshal(e)
		next = string(b)
		if e.Ev == "GetEnd" {
			if e.Plain != e.Code {
				key = "v:text"
			} else {
				key = "v:style-or-notify"
			}
			name := func(id int) string {
				if id >= 0 && id < len(codes) {
					return short(codes[id])
				}
				return "(a text equal to no code of the run)"
			}
			next += fmt.Sprintf(" -- Get(%s) returned the text %s, styling class %d", name(e.Code), name(e.Plain), e.Sty)
		}
	}
	used := map[int]string{}
	for _, e := range evs {
		if e.Code >= 0 && e.Code < len(codes) {
			used[e.Code] = codes[e.Code]
		}
	}
	c.Reject(key, fmt.Sprintf("recorded events of a real Highlighter are not a behaviour of Highlighter.tla: matched %d of %d events, invariant %q, first unmatched event %s", v.HighWater, len(evs), v.InvName, next),
		map[string]any{"kind": "v", "events": evs, "codes": used})
}

// replayCandidate replays the ops of a counterexample of the mutated design. It reports a Get whose
// returned text does not consist of the code asked for (the state TextPreserved forbids).
func replayCandidate(gc *gCase) (*gMismatch, error) {
	// the prescribed outcomes of the mutated design are the "bad" ones: compare as usual and see where
	// the real code departs; reproduced iff the real code returns the text the mutated design returns
	steps := gc.Steps
	var bad *step
	for i := range steps {
		if steps[i].Op == "get" && steps[i].Of != steps[i].Code {
			bad = &steps[i]
		}
	}
	if bad == nil {
		return nil, lib.Infra("candidate schedule contains no Get that violates TextPreserved")
	}
	mm, err := replayG(gc)
	if err != nil {
		// a settle/shape problem while following a schedule of a DIFFERENT design is expected to be
		// impossible here (the ops are the same); report as infrastructure
		return nil, err
	}
	if mm == nil {
		return &gMismatch{key: "g:stale-late", what: fmt.Sprintf("every step matched the mutated design, including Get(%s) returning the text of %s", short(gc.Codes[bad.Code]), short(gc.Codes[bad.Of]))}, nil
	}
	return nil, nil
}

func replay(c *lib.Ctx, dir string) error {
	b, err := os.ReadFile(c.Replay)
	if err != nil {
		return lib.Infra("%v", err)
	}
	var f struct {
		Case json.RawMessage `json:"case"`
	}
	if err := json.Unmarshal(b, &f); err != nil {
		return lib.Infra("%v", err)
	}
	var kind struct {
		Kind string `json:"kind"`
	}
	json.Unmarshal(f.Case, &kind)
	switch kind.Kind {
	case "g", "candidate":
		var gc gCase
		if err := json.Unmarshal(f.Case, &gc); err != nil {
			return lib.Infra("%v", err)
		}
		gc.withBytes()
		if kind.Kind == "candidate" {
			mm, err := replayCandidate(&gc)
			if err != nil {
				return err
			}
			if mm != nil {
				c.Reject("g:stale-late", mm.what, gc)
			}
			return nil
		}
		mm, err := replayG(&gc)
		if err != nil {
			return err
		}
		if mm != nil {
			c.Reject(mm.key, mm.what, gc)
		}
	case "v":
		var vc struct {
			Events []event        `json:"events"`
			Codes  map[int]string `json:"codes"`
		}
		if err := json.Unmarshal(f.Case, &vc); err != nil {
			return lib.Infra("%v", err)
		}
		v, err := lib.ValidateTrace(c, "TraceHighlighter(replay)", dir, "TraceHighlighter", vc.Events, 10*time.Minute)
		if err != nil {
			return err
		}
		if !v.Accepted {
			var codes []string
			var ids []int
			for id := range vc.Codes {
				ids = append(ids, id)
			}
			sort.Ints(ids)
			for _, id := range ids {
				for len(codes) <= id {
					codes = append(codes, "")
				}
				codes[id] = vc.Codes[id]
			}
			rejectTrace(c, vc.Events, codes, v)
		}
	case "sweep":
		var sc struct {
			Cfg  string `json:"cfg"`
			Code []int  `json:"code"`
		}
		if err := json.Unmarshal(f.Case, &sc); err != nil {
			return lib.Infra("%v", err)
		}
		var sb strings.Builder
		for _, x := range sc.Code {
			sb.WriteByte(byte(x))
		}
		cases, panics := sweepParallel([]string{sb.String(), sb.String(), sb.String()}, 1)
		for _, p := range panics {
			c.Reject("sweep:panic", p.msg, sc)
		}
		lc, err := sweepLate([]string{sb.String(), sb.String()})
		if err != nil {
			return err
		}
		cases = append(cases, lc...)
		res, err := lib.Judge(c, "JudgeRegions", dir, "JudgeRegions", cases, 1, 5*time.Minute)
		if err != nil {
			return err
		}
		for _, bc := range res {
			c.Reject("sweep:text", fmt.Sprintf("highlight of %s (%s) returned segments that are not an assembly of the code", short(cases[bc.Index].src), cases[bc.Index].Cfg), sc)
		}
	default:
		return lib.Infra("unknown replay kind %q", kind.Kind)
	}
	return nil
}
