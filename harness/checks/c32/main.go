// C32 — the editor event loop handles events serially and never loses a redraw.
// M: MCLoop (exhaustive interleavings of 2-3 producers with the loop; safety + liveness under WF).
// V: events recorded from the REAL loop (cli.VerifNewLoop, build tag verif) under free-running
// producers and handlers are validated against TraceLoop (TLC infers the unlogged internal steps
// and evaluates NoLostRedraw / FullKept in every inferred state).
package main

import (
	"encoding/json"
	"fmt"
	"math/rand"
	"os"
	"runtime"
	"sync"
	"time"

	"src.elv.sh/pkg/cli"
	"verif.local/harness/lib"
)

type event struct {
	Ev    string `json:"ev"`
	P     int    `json:"p"`
	Full  bool   `json:"full"`
	Final bool   `json:"final"`
	E     int    `json:"e"`
	B     string `json:"b"`
	Tok   int    `json:"tok"`
	Nin   int    `json:"nin"`
}

type tracer struct {
	mu  sync.Mutex
	evs []event
}

func (t *tracer) log(e event) {
	t.mu.Lock()
	t.evs = append(t.evs, e)
	t.mu.Unlock()
}

func main() { lib.Main("C32", run) }

func mcCfg(prods string, live bool, cb int) []byte {
	s := "CONSTANTS Prods = " + prods + " InCap = 2 CbBudget = " + fmt.Sprint(cb) + "\nSPECIFICATION Spec\nINVARIANT Serial NoLostRedraw FullKept OneFinal FirstReturnWins FifoPerProducer HandledOnce\nPROPERTY NothingAfterFinal"
	if live {
		s += " EventuallyRedrawn"
	}
	return []byte(s + "\n")
}

func run(c *lib.Ctx) error {
	dir := c.SpecDir("Loop")
	if c.Replay != "" {
		return replay(c, dir)
	}
	c.Set("rule", "a V case is one run of the real loop (2-4 producers, handlers that request redraws/returns); distinct by its recorded event sequence; runs with fewer than 4 producer operations are not counted")
	// ---- M
	// two producers with a redraw callback that may itself request a redraw (both tiers); three
	// producers with a silent callback in the thorough tier (with CbBudget = 1 that configuration has
	// several million states and does not finish the liveness check in the time allowed)
	type mc struct {
		prods string
		cb    int
	}
	mcs := []mc{{"{1, 2}", 1}}
	if c.Thorough() {
		mcs = append(mcs, mc{"{1, 2, 3}", 0})
	}
	for _, m := range mcs {
		r, err := c.TLC(fmt.Sprintf("MCLoop %s cb=%d", m.prods, m.cb), lib.TLCRun{Dir: dir, Module: "MCLoop", Workers: 8, Timeout: 14 * time.Minute, HeapGB: 12,
			Files: map[string][]byte{"MCLoop.cfg": mcCfg(m.prods, true, m.cb)}})
		if err != nil {
			return err
		}
		if r.ErrKind != "" {
			return lib.Infra("the loop MODEL violates %s %s — model and code must be re-examined before any verdict:\n%s", r.ErrKind, r.ErrName, r.ErrTrace)
		}
		c.Logf("model %s cb=%d: %d distinct states", m.prods, m.cb, r.Distinct)
	}

	// ---- vacuity guard: the trace spec must reject corrupted traces
	if err := vacuityGuard(c, dir); err != nil {
		return err
	}

	// ---- V
	nruns := c.Pick(60, 1200)
	perBatch := 10
	type batch struct {
		evs  []event
		runs [][]event
	}
	var batches []batch
	rng := rand.New(rand.NewSource(c.Seed))
	cur := batch{}
	for i := 0; i < nruns; i++ {
		np := 2 + rng.Intn(3)
		if c.Thorough() && rng.Intn(4) == 0 {
			np = 5 + rng.Intn(4)
		}
		evs := oneRun(rng, np, 3+rng.Intn(6), []int{1, 2, 4, 8, 16}[rng.Intn(5)])
		c.AddEvals(1)
		nops := 0
		for _, e := range evs {
			if e.Ev == "RedrawStart" || e.Ev == "InputStart" || e.Ev == "ReturnStart" {
				nops++
			}
		}
		if nops >= 4 {
			c.Distinct(evs)
		}
		if i == 0 {
			c.Sample(evs[:min(len(evs), 25)])
		}
		cur.evs = append(cur.evs, evs...)
		cur.runs = append(cur.runs, evs)
		if len(cur.runs) == perBatch {
			batches = append(batches, cur)
			cur = batch{}
		}
	}
	if len(cur.runs) > 0 {
		batches = append(batches, cur)
	}
	runtime.GOMAXPROCS(runtime.NumCPU())
	var mu sync.Mutex
	var firstErr error
	lib.Parallel(len(batches), 6, func(i int) {
		b := batches[i]
		v, err := lib.ValidateTrace(c, "TraceLoop", dir, "TraceLoop", b.evs, 5*time.Minute)
		mu.Lock()
		defer mu.Unlock()
		if err != nil {
			if firstErr == nil {
				firstErr = err
			}
			return
		}
		c.AddTraces(len(b.runs))
		if !v.Accepted {
			// locate the run containing the first unmatched line
			pos := 0
			for _, rn := range b.runs {
				if v.HighWater < pos+len(rn) {
					one, err := lib.ValidateTrace(c, "TraceLoop(single)", dir, "TraceLoop", rn, 5*time.Minute)
					if err == nil && !one.Accepted {
						rejectTrace(c, "run", rn, one)
					} else if err == nil {
						firstErr = lib.Infra("batch rejected at %d but the run alone is accepted", v.HighWater)
					}
					break
				}
				pos += len(rn)
			}
		}
	})
	if firstErr != nil {
		return firstErr
	}
	c.Assume("TLC trusted; events are ordered by one mutex-protected tracer; effects of lock-free calls are placed by TLC between Start and End; the Go select choice is not forced (free-running schedules only)")
	return nil
}

// vacuityGuard shows that TraceLoop binds: a hand-written sequential trace of the loop is accepted and
// each corruption of it is rejected. The corruptions are chosen so that NO placement of the unlogged
// internal steps (Effect, Extract, SelRedraw, polls) can explain them — in this trace every call has
// ended (its effect is forced to lie before the End event) before the loop event that depends on it is
// logged. A recorded run of the real loop is not used for the flag corruptions in general: there a
// request can be outstanding (RedrawStart logged, effect not yet placed) when a Draw is logged, and
// then BOTH values of the Draw flag are behaviours of the specification, so a flipped flag may be
// accepted rightly. From a recorded run only the flip that is unexplainable for every schedule is
// used: a Draw without the full flag, logged before any full request was even started, turned into
// a full one.
func vacuityGuard(c *lib.Ctx, dir string) error {
	synth := []event{
		{Ev: "Reset"},
		{Ev: "Draw"}, // 1
		{Ev: "RedrawStart", P: 1}, {Ev: "RedrawEnd", P: 1},
		{Ev: "Draw"}, // 4
		{Ev: "InputStart", P: 1, E: 1001}, {Ev: "InputEnd", P: 1},
		{Ev: "InputStart", P: 1, E: 1002}, {Ev: "InputEnd", P: 1},
		{Ev: "Handle", E: 1001}, // 9
		{Ev: "Handle", E: 1002}, // 10
		{Ev: "Draw"},            // 11
		{Ev: "RedrawStart", P: 1, Full: true}, {Ev: "RedrawEnd", P: 1},
		{Ev: "Draw", Full: true}, // 14
		{Ev: "Quiescent"},        // 15
		{Ev: "ReturnStart", P: 99, B: "end"}, {Ev: "ReturnEnd", P: 99},
		{Ev: "ReturnStart", P: 1, B: "late"}, {Ev: "ReturnEnd", P: 1},
		{Ev: "Draw", Final: true}, // 20
		{Ev: "Returned", B: "end"},
	}
	for i, want := range map[int]string{1: "Draw", 4: "Draw", 9: "Handle", 10: "Handle", 11: "Draw", 14: "Draw", 15: "Quiescent", 20: "Draw", 21: "Returned"} {
		if synth[i].Ev != want {
			return lib.Infra("vacuity guard: hand-written trace index %d is %s, not %s", i, synth[i].Ev, want)
		}
	}
	type corruption struct {
		name string
		evs  []event
	}
	mod := func(f func(e []event) []event) []event { return f(append([]event{}, synth...)) }
	cs := []corruption{
		{"a full Draw although no full redraw was ever requested", mod(func(e []event) []event { e[4].Full = true; return e })},
		{"a requested full redraw downgraded (Draw without the full flag)", mod(func(e []event) []event { e[14].Full = false; return e })},
		{"events handled out of arrival order", mod(func(e []event) []event { e[9].E, e[10].E = e[10].E, e[9].E; return e })},
		{"an event handled twice", mod(func(e []event) []event { e[10].E = e[9].E; return e })},
		{"a lost redraw (request, no Draw after it, token gone at quiescence)", mod(func(e []event) []event { return append(e[:14], e[15:]...) })},
		{"a redraw token reported pending at quiescence although the only request had been served", mod(func(e []event) []event { e[15].Tok = 1; return e })},
		{"the second committed result returned instead of the first", mod(func(e []event) []event { e[21].B = "late"; return e })},
		{"two final redraws", mod(func(e []event) []event {
			return append(e[:21], append([]event{{Ev: "Draw", Final: true}}, e[21:]...)...)
		})},
		{"no final redraw", mod(func(e []event) []event { return append(e[:20], e[21:]...) })},
	}
	// a recorded run of the real loop: accepted as recorded; rejected with the one flip that no
	// schedule explains (see above), when the run has such a Draw
	good := oneRun(rand.New(rand.NewSource(12345)), 3, 5, 2)
	fullAsked := false
	for i, e := range good {
		if e.Ev == "RedrawStart" && e.Full {
			fullAsked = true
		}
		if e.Ev == "Draw" && !e.Final && !e.Full && !fullAsked {
			k := append([]event{}, good...)
			k[i].Full = true
			cs = append(cs, corruption{"a recorded run with a Draw turned full before any full request was started", k})
			break
		}
	}
	var mu sync.Mutex
	var firstErr error
	fail := func(err error) {
		mu.Lock()
		if firstErr == nil {
			firstErr = err
		}
		mu.Unlock()
	}
	runtime.GOMAXPROCS(runtime.NumCPU())
	lib.Parallel(len(cs)+2, 6, func(i int) {
		switch {
		case i == 0:
			if v, err := lib.ValidateTrace(c, "TraceLoop(selftest-synthetic)", dir, "TraceLoop", synth, 3*time.Minute); err != nil {
				fail(err)
			} else if !v.Accepted {
				fail(lib.Infra("vacuity guard: TraceLoop rejects the hand-written sequential trace (matched %d of %d events, invariant %q)", v.HighWater, len(synth), v.InvName))
			}
		case i == 1:
			if v, err := lib.ValidateTrace(c, "TraceLoop(selftest-good)", dir, "TraceLoop", good, 3*time.Minute); err != nil {
				fail(err)
			} else if !v.Accepted {
				mu.Lock()
				rejectTrace(c, "selftest", good, v)
				mu.Unlock()
			}
		default:
			k := cs[i-2]
			if v, err := lib.ValidateTrace(c, "TraceLoop(selftest-corrupt)", dir, "TraceLoop", k.evs, 3*time.Minute); err != nil {
				fail(err)
			} else if v.Accepted {
				fail(lib.Infra("vacuity guard: TraceLoop accepted a trace with %s", k.name))
			}
		}
	})
	if firstErr != nil {
		return firstErr
	}
	c.Set("vacuity_guard", fmt.Sprintf("hand-written sequential trace and one recorded run accepted; %d corrupted traces rejected", len(cs)))
	return nil
}

func rejectTrace(c *lib.Ctx, what string, evs []event, v *lib.TraceVerdict) {
	key := "loop:trace-rejected"
	if v.InvName != "" {
		key = "loop:" + v.InvName
	}
	next := "(end)"
	if v.HighWater < len(evs) {
		b, _ := json.Marshal(evs[v.HighWater])
		next = string(b)
	}
	c.Reject(key, fmt.Sprintf("%s: recorded events of the real loop are not a behaviour of the loop specification: matched %d of %d events, invariant %q, first unmatched event %s", what, v.HighWater, len(evs), v.InvName, next), evs)
}

// oneRun drives a fresh real loop with np free-running producers and records the events.
func oneRun(rng *rand.Rand, np, nops, procs int) []event {
	runtime.GOMAXPROCS(procs)
	tr := &tracer{}
	tr.log(event{Ev: "Reset"})
	lp := cli.VerifNewLoop()
	acts := map[int]int{} // event id -> handler action: 0 none, 1 redraw, 2 redraw full, 3 return
	type op struct{ kind, arg int }
	scripts := make([][]op, np)
	anyReturn := false
	for p := range scripts {
		for i := 0; i < nops; i++ {
			k := rng.Intn(10)
			switch {
			case k < 3:
				scripts[p] = append(scripts[p], op{0, 0}) // redraw
			case k < 5:
				scripts[p] = append(scripts[p], op{0, 1}) // redraw full
			case k < 9:
				id := (p+1)*1000 + i
				a := rng.Intn(8)
				if a > 3 {
					a = 0
				}
				if a == 3 && rng.Intn(2) == 0 {
					a = 0
				}
				acts[id] = a
				if a == 3 {
					anyReturn = true
				}
				scripts[p] = append(scripts[p], op{1, id})
			default:
				if rng.Intn(3) == 0 {
					scripts[p] = append(scripts[p], op{2, 0})
					anyReturn = true
				} else {
					scripts[p] = append(scripts[p], op{0, 0})
				}
			}
		}
	}
	yield := make([]int64, np)
	for p := range yield {
		yield[p] = rng.Int63()
	}
	lp.HandleCb(func(ev any) {
		id := ev.(int)
		tr.log(event{Ev: "Handle", E: id})
		switch acts[id] {
		case 1, 2:
			tr.log(event{Ev: "RedrawStart", P: 0, Full: acts[id] == 2})
			lp.Redraw(acts[id] == 2)
			tr.log(event{Ev: "RedrawEnd", P: 0})
		case 3:
			b := fmt.Sprintf("h%d", id)
			tr.log(event{Ev: "ReturnStart", P: 0, B: b})
			lp.Return(b, nil)
			tr.log(event{Ev: "ReturnEnd", P: 0})
		}
	})
	// what the redraw callback does besides logging, by draw number: it may request a redraw itself
	// (loop.go: "the callback may itself request a redraw") and it may take a while, so that requests
	// of the producers land while it is running
	cbReq := map[int]int{} // 1 redraw, 2 redraw full
	cbSlow := map[int]time.Duration{}
	for n := 0; n < 2; n++ {
		if rng.Intn(3) != 0 {
			cbReq[rng.Intn(6)] = 1 + rng.Intn(2)
		}
	}
	for n := 0; n < 3; n++ {
		cbSlow[rng.Intn(8)] = time.Duration(20+rng.Intn(300)) * time.Microsecond
	}
	ndraw := 0
	lp.RedrawCb(func(flag uint) {
		tr.log(event{Ev: "Draw", Full: flag&cli.VerifFullRedraw != 0, Final: flag&cli.VerifFinalRedraw != 0})
		n := ndraw
		ndraw++
		if flag&cli.VerifFinalRedraw != 0 {
			return
		}
		if d, ok := cbSlow[n]; ok {
			time.Sleep(d)
		}
		if a := cbReq[n]; a != 0 {
			tr.log(event{Ev: "RedrawStart", P: 0, Full: a == 2})
			lp.Redraw(a == 2)
			tr.log(event{Ev: "RedrawEnd", P: 0})
		}
	})
	done := make(chan string, 1)
	go func() {
		b, _ := lp.Run()
		done <- b
	}()
	var wg sync.WaitGroup
	returned := make(chan struct{})
	for p := 0; p < np; p++ {
		wg.Add(1)
		go func(p int) {
			defer wg.Done()
			r := rand.New(rand.NewSource(yield[p]))
			for i, o := range scripts[p] {
				switch r.Intn(4) {
				case 0:
					runtime.Gosched()
				case 1:
					time.Sleep(time.Duration(r.Intn(200)) * time.Microsecond)
				}
				switch o.kind {
				case 0:
					tr.log(event{Ev: "RedrawStart", P: p + 1, Full: o.arg == 1})
					lp.Redraw(o.arg == 1)
					tr.log(event{Ev: "RedrawEnd", P: p + 1})
				case 1:
					tr.log(event{Ev: "InputStart", P: p + 1, E: o.arg})
					sent := make(chan struct{})
					go func() { lp.Input(o.arg); close(sent) }()
					select {
					case <-sent:
						tr.log(event{Ev: "InputEnd", P: p + 1})
					case <-returned:
						// the loop has returned: an Input may block forever on a full channel; the
						// call stays outstanding (no End event), which the trace spec allows
						select {
						case <-sent:
							tr.log(event{Ev: "InputEnd", P: p + 1})
						case <-time.After(20 * time.Millisecond):
							return
						}
					}
				case 2:
					b := fmt.Sprintf("r%d-%d", p+1, i)
					tr.log(event{Ev: "ReturnStart", P: p + 1, B: b})
					lp.Return(b, nil)
					tr.log(event{Ev: "ReturnEnd", P: p + 1})
				}
			}
		}(p)
	}
	finish := func(b string) {
		tr.log(event{Ev: "Returned", B: b})
		close(returned)
	}
	if anyReturn {
		select {
		case b := <-done:
			finish(b)
			wg.Wait()
			return tr.evs
		case <-waitCh(&wg):
			// all producers done; a handler-issued return may not have been reached (event not handled
			// before another return) — fall through to quiescence handling
		}
	} else {
		wg.Wait()
	}
	// quiescence: let the loop drain, then sample the token under the tracer lock
	select {
	case b := <-done:
		finish(b)
		return tr.evs
	case <-time.After(3 * time.Millisecond):
	}
	tr.mu.Lock()
	select {
	case b := <-done:
		tr.evs = append(tr.evs, event{Ev: "Returned", B: b})
		tr.mu.Unlock()
		close(returned)
		return tr.evs
	default:
	}
	tok, _, nin, _ := lp.Snapshot()
	tr.evs = append(tr.evs, event{Ev: "Quiescent", Tok: tok, Nin: nin})
	tr.mu.Unlock()
	tr.log(event{Ev: "ReturnStart", P: 99, B: "end"})
	lp.Return("end", nil)
	tr.log(event{Ev: "ReturnEnd", P: 99})
	finish(<-done)
	return tr.evs
}

func waitCh(wg *sync.WaitGroup) <-chan struct{} {
	ch := make(chan struct{})
	go func() { wg.Wait(); close(ch) }()
	return ch
}

func replay(c *lib.Ctx, dir string) error {
	b, err := os.ReadFile(c.Replay)
	if err != nil {
		return lib.Infra("%v", err)
	}
	var f struct {
		Case []event `json:"case"`
	}
	if err := json.Unmarshal(b, &f); err != nil {
		return lib.Infra("%v", err)
	}
	v, err := lib.ValidateTrace(c, "TraceLoop(replay)", dir, "TraceLoop", f.Case, 5*time.Minute)
	if err != nil {
		return err
	}
	if !v.Accepted {
		rejectTrace(c, "stored trace", f.Case, v)
	}
	return nil
}
