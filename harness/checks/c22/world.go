package main

import (
	"errors"
	"fmt"
	"math/rand"
	"os"
	"path/filepath"
	"reflect"
	"strconv"
	"strings"
	"sync"

	"src.elv.sh/pkg/eval"
	"src.elv.sh/pkg/parse"
	"verif.local/harness/elv"
	"verif.local/harness/lib"
)

// ---- abstract forms of spec/Modules/Modules.tla

type Spec struct {
	Rel  bool     `json:"rel"`
	Up   int      `json:"up"`
	Segs []string `json:"segs"`
}

type Imp struct {
	Spec  Spec `json:"spec"`
	Guard bool `json:"guard"`
}

type Mod struct {
	Path    []string `json:"path"`
	Imports []Imp    `json:"imports"`
	Fail    string   `json:"fail"`
}

type TopOp struct {
	File bool     `json:"file"`
	Dir  []string `json:"dir"`
	Spec Spec     `json:"spec"`
}

type Exc struct {
	K string `json:"k"`
	M int    `json:"m"`
}

type LogEv struct {
	E string `json:"e"`
	A int    `json:"a"`
	B int    `json:"b"`
	C int    `json:"c"`
}

type OpRec struct {
	Op    TopOp   `json:"op"`
	Res   Exc     `json:"res"`
	Log   []LogEv `json:"log"`
	Evals []int   `json:"evals"`
}

type Behaviour struct {
	World []Mod   `json:"world"`
	Ops   []OpRec `json:"ops"`
}

// Case is one line for TraceModules (uniform fields).
type Case struct {
	Kind  string  `json:"kind"`
	World []Mod   `json:"world"`
	Op    TopOp   `json:"op"`
	Res   Exc     `json:"res"`
	Log   []LogEv `json:"log"`
	Evals []int   `json:"evals"`
}

func newRand(seed int64) *rand.Rand { return rand.New(rand.NewSource(seed)) }

// ---- concretisation

func (s Spec) text() string {
	p := strings.Join(s.Segs, "/")
	if !s.Rel {
		return p
	}
	if s.Up == 0 {
		return "./" + p
	}
	return strings.Repeat("../", s.Up) + p
}

func moduleBody(idx int, m Mod) string {
	var sb strings.Builder
	fmt.Fprintf(&sb, "var tok = (vm-tick %d)\n", idx)
	if m.Fail == "begin" {
		fmt.Fprintf(&sb, "fail %d\n", idx)
	}
	for j, im := range m.Imports {
		use := fmt.Sprintf("use %s m%d; vm-saw $tok %d $m%d:tok", im.Spec.text(), j+1, j+1, j+1)
		if im.Guard {
			fmt.Fprintf(&sb, "try { %s } catch e { vm-caught $tok %d }\n", use, j+1)
		} else {
			sb.WriteString(use + "\n")
		}
	}
	if m.Fail == "end" {
		fmt.Fprintf(&sb, "fail %d\n", idx)
	}
	return sb.String()
}

func (b Behaviour) files() map[string]string {
	out := map[string]string{}
	for i, m := range b.World {
		out[strings.Join(m.Path, "/")+".elv"] = moduleBody(i+1, m)
	}
	return out
}

func (o TopOp) text() string {
	src := "-c, cwd="
	if o.File {
		src = "script in "
	}
	return fmt.Sprintf("[%s%s] use %s", src, strings.Join(o.Dir, "/"), o.Spec.text())
}

func (b Behaviour) opTexts() []string {
	var out []string
	for _, o := range b.Ops {
		out = append(out, o.Op.text())
	}
	return out
}

func (b Behaviour) key() string { return fmt.Sprint(b.files(), b.opTexts()) }

var allDirs = [][]string{{"lib"}, {"lib", "d"}, {"w"}, {"w", "sub"}, {"w", "sub", "deep"}}

// ---- the real interpreter on a materialised world

type world struct {
	root   string
	ev     *eval.Evaler
	log    []LogEv
	ntok   int
	counts []int
	evals  int
}

func materialise(mods []Mod) (*world, error) {
	root, err := os.MkdirTemp("", "vc22-")
	if err != nil {
		return nil, err
	}
	if r, err := filepath.EvalSymlinks(root); err == nil {
		root = r
	}
	w := &world{root: root, counts: make([]int, len(mods))}
	for _, d := range allDirs {
		if err := os.MkdirAll(filepath.Join(append([]string{root}, d...)...), 0o755); err != nil {
			return nil, err
		}
	}
	for i, m := range mods {
		p := filepath.Join(append([]string{root}, m.Path...)...) + ".elv"
		if err := os.MkdirAll(filepath.Dir(p), 0o755); err != nil {
			return nil, err
		}
		if err := os.WriteFile(p, []byte(moduleBody(i+1, m)), 0o644); err != nil {
			return nil, err
		}
	}
	ev := eval.NewEvaler()
	ev.LibDirs = []string{filepath.Join(root, "lib")}
	ev.ExtendBuiltin(eval.BuildNs().AddGoFns(map[string]any{
		"vm-tick": func(m int) int {
			w.ntok++
			if m >= 1 && m <= len(w.counts) {
				w.counts[m-1]++
			}
			w.log = append(w.log, LogEv{E: "tick", A: m, B: w.ntok})
			return w.ntok
		},
		"vm-saw":    func(a, b, c int) { w.log = append(w.log, LogEv{E: "saw", A: a, B: b, C: c}) },
		"vm-caught": func(a, b int) { w.log = append(w.log, LogEv{E: "caught", A: a, B: b}) },
	}))
	w.ev = ev
	return w, nil
}

func (w *world) close() { os.RemoveAll(w.root) }

// cwdMu serialises the process-wide working directory: an operation from non-file code sets it and
// holds the lock exclusively while it runs; operations from files run under the shared lock, with
// whatever directory the last non-file operation (of any world) left behind.
var cwdMu sync.RWMutex

// do runs one top-level use and reports what happened.
func (w *world) do(o TopOp) (OpRec, string) {
	w.log = []LogEv{}
	code := fmt.Sprintf("use %s t; vm-saw 0 1 $t:tok", o.Spec.text())
	dir := filepath.Join(append([]string{w.root}, o.Dir...)...)
	src := parse.Source{Name: "[c22]", Code: code}
	if o.File {
		src = parse.Source{Name: filepath.Join(dir, "main.elv"), Code: code, IsFile: true}
		cwdMu.RLock()
		defer cwdMu.RUnlock()
	} else {
		cwdMu.Lock()
		defer cwdMu.Unlock()
		if err := os.Chdir(dir); err != nil {
			return OpRec{}, "chdir: " + err.Error()
		}
		defer os.Chdir("/")
	}
	pan := ""
	var err error
	func() {
		defer func() {
			if p := recover(); p != nil {
				pan = fmt.Sprint(p)
			}
		}()
		err = w.ev.Eval(src, eval.EvalCfg{})
	}()
	w.evals++
	rec := OpRec{Op: o, Log: w.log, Evals: append([]int{}, w.counts...)}
	switch {
	case pan != "":
		rec.Res = Exc{K: "panic"}
	case err == nil:
		rec.Res = Exc{K: "none"}
	default:
		r := elv.Reason(err)
		var fe eval.FailError
		var ns eval.NoSuchModule
		switch {
		case errors.As(r, &fe):
			n, _ := strconv.Atoi(fmt.Sprint(fe.Content))
			rec.Res = Exc{K: "fail", M: n}
		case errors.As(r, &ns):
			rec.Res = Exc{K: "nosuch"}
		default:
			rec.Res = Exc{K: "other:" + err.Error()}
		}
	}
	return rec, pan
}

// ---- G

func replayBehaviour(c *lib.Ctx, beh Behaviour) {
	w, err := materialise(beh.World)
	if err != nil {
		panic(fmt.Sprintf("materialise: %v", err))
	}
	defer w.close()
	if heavy(beh) {
		c.Distinct(beh.key())
	}
	for k, want := range beh.Ops {
		got, pan := w.do(want.Op)
		if want.Log == nil {
			want.Log = []LogEv{}
		}
		why := ""
		switch {
		case pan != "":
			why = "panic"
		case got.Res != want.Res:
			why = "result"
		case !reflect.DeepEqual(got.Log, want.Log):
			why = "log"
		case !reflect.DeepEqual(got.Evals, want.Evals):
			why = "count"
		}
		if why != "" {
			c.Reject("modules:"+why, fmt.Sprintf("files %v\nops %v\nstep %d: real result %+v log %+v counts %v %s\nprescribed result %+v log %+v counts %v",
				beh.files(), beh.opTexts(), k+1, got.Res, got.Log, got.Evals, pan, want.Res, want.Log, want.Evals), Behaviour{beh.World, beh.Ops[:k+1]})
			break
		}
	}
	c.AddEvals(w.evals)
}

func heavy(b Behaviour) bool {
	for _, o := range b.Ops {
		for _, e := range o.Log {
			if e.E == "tick" {
				return true
			}
		}
	}
	return false
}

// ---- V

func record(c *lib.Ctx, mods []Mod, ops []TopOp) []Case {
	w, err := materialise(mods)
	if err != nil {
		panic(fmt.Sprintf("materialise: %v", err))
	}
	defer w.close()
	out := []Case{{Kind: "reset", World: mods, Op: TopOp{Dir: []string{}, Spec: Spec{Segs: []string{}}}, Res: Exc{K: "none"}, Log: []LogEv{}, Evals: []int{}}}
	beh := Behaviour{World: mods}
	for _, o := range ops {
		rec, pan := w.do(o)
		if pan != "" {
			c.Reject("modules:panic", o.text()+": "+pan, mods)
		}
		out = append(out, Case{Kind: "op", World: []Mod{}, Op: o, Res: rec.Res, Log: rec.Log, Evals: rec.Evals})
		beh.Ops = append(beh.Ops, rec)
		if heavy(Behaviour{Ops: []OpRec{rec}}) {
			c.Distinct(beh.key())
		}
	}
	c.AddEvals(w.evals)
	return out
}

var locPool = [][]string{{"lib", "a"}, {"lib", "d", "b"}, {"lib", "d", "g"}, {"w", "c"}, {"w", "sub", "e"}, {"w", "sub", "deep", "h"}}

func relSpec(dir, path []string) Spec {
	cp := 0
	for cp < len(dir) && cp < len(path)-1 && dir[cp] == path[cp] {
		cp++
	}
	return Spec{Rel: true, Up: len(dir) - cp, Segs: append([]string{}, path[cp:]...)}
}

func specTo(r *rand.Rand, dir []string, target []string) Spec {
	if target[0] == "lib" && r.Intn(2) == 0 {
		return Spec{Segs: append([]string{}, target[1:]...)}
	}
	return relSpec(dir, target)
}

func RandomWorld(r *rand.Rand) ([]Mod, []TopOp) {
	n := 1 + r.Intn(6)
	perm := r.Perm(len(locPool))[:n]
	mods := make([]Mod, n)
	for i, li := range perm {
		mods[i] = Mod{Path: locPool[li], Imports: []Imp{}, Fail: "no"}
		switch q := r.Intn(10); {
		case q < 2:
			mods[i].Fail = "end"
		case q < 3:
			mods[i].Fail = "begin"
		}
	}
	missing := func(dir []string) Spec {
		if r.Intn(2) == 0 {
			return Spec{Segs: []string{"zz"}}
		}
		return Spec{Rel: true, Up: r.Intn(len(dir) + 1), Segs: []string{"zz"}}
	}
	for i := range mods {
		dir := mods[i].Path[:len(mods[i].Path)-1]
		for j := r.Intn(4); j > 0; j-- {
			sp := missing(dir)
			if r.Intn(8) != 0 {
				sp = specTo(r, dir, mods[r.Intn(n)].Path)
			}
			mods[i].Imports = append(mods[i].Imports, Imp{Spec: sp, Guard: r.Intn(10) < 3})
		}
	}
	var ops []TopOp
	for k := 1 + r.Intn(8); k > 0; k-- {
		dir := allDirs[r.Intn(len(allDirs))]
		sp := missing(dir)
		if r.Intn(10) != 0 {
			sp = specTo(r, dir, mods[r.Intn(n)].Path)
		}
		ops = append(ops, TopOp{File: r.Intn(2) == 0, Dir: dir, Spec: sp})
	}
	return mods, ops
}
