// C22 — a module is evaluated at most once per interpreter and shared.
// M: MCModules: the module cache as a state machine (install before exec, unload on failure, nested
//    and cyclic uses) over ALL small worlds of a generated family and over curated 3-4 module worlds;
//    AtMostOnce, Shared, FailedForgotten, InstalledWhileLoading, OneLive in every state.
// G: every behaviour (world + sequence of top-level `use` operations with prescribed result, harness
//    event log and evaluation counts) is materialised as a temporary directory tree and run on a
//    fresh real Evaler (importers from files and from non-file code with a chosen working directory).
// V: random worlds of 1..6 modules with random import orders, recorded and judged by the stateful
//    TLC walker TraceModules.
package main

import (
	"encoding/json"
	"fmt"
	"os"
	"strings"
	"time"

	"verif.local/harness/lib"
)

func main() { lib.Main("C22", run) }

type mcBound struct {
	family               string
	nmods, maxImp, maxOps int
	failModes, guards    string
	nsources             int
}

func (b mcBound) cfg() []byte {
	return []byte(fmt.Sprintf("CONSTANTS Family = %q NMods = %d MaxImp = %d MaxOps = %d FailModes = %s Guards = %s NSources = %d\nSPECIFICATION Spec0\nVIEW View\nINVARIANT InvAtMostOnce\nINVARIANT InvShared\nINVARIANT InvFailedForgotten\nINVARIANT InvInstalled\nINVARIANT InvOneLive\nACTION_CONSTRAINT EmitT\n",
		b.family, b.nmods, b.maxImp, b.maxOps, b.failModes, b.guards, b.nsources))
}

func run(c *lib.Ctx) error {
	dir := c.SpecDir("Modules")
	if c.Replay != "" {
		return replay(c, dir)
	}
	c.Set("rule", "G: a behaviour is (world, sequence of top-level uses); distinct by (module files, operations). V: one case per top-level use; distinct by (world, operation prefix); operations that evaluate no module body (cache hits, missing modules) are not counted as non-trivial")
	bounds := []mcBound{
		{"both", 2, 1, 2, `{"no", "end"}`, `{FALSE}`, 2},
	}
	if c.Thorough() {
		bounds = []mcBound{
			{"gen", 2, 1, 2, `{"no", "end", "begin"}`, `{FALSE, TRUE}`, 2},
			{"gen", 2, 2, 1, `{"no", "end"}`, `{FALSE}`, 2},
			{"curated", 0, 0, 3, `{"no"}`, `{FALSE}`, 2},
		}
	}
	var bs []string
	for _, b := range bounds {
		bs = append(bs, strings.ReplaceAll(string(b.cfg()[:strings.IndexByte(string(b.cfg()), '\n')]), `"`, "'"))
	}
	c.Set("bounds", map[string]any{"exhaustive": bs, "random_worlds": c.Pick(150, 3000), "random_modules": "1..6", "random_ops": "1..8"})
	seen := map[string]bool{}
	for _, b := range bounds {
		r, err := c.TLC(fmt.Sprintf("MCModules(%s,%d,%d,%d)", b.family, b.nmods, b.maxImp, b.maxOps), lib.TLCRun{Dir: dir, Module: "MCModules", Workers: 4, Timeout: 13 * time.Minute, HeapGB: 8,
			Files: map[string][]byte{"MCModules.cfg": b.cfg()}})
		if err != nil {
			return err
		}
		if r.ErrKind != "" {
			return lib.Infra("the Modules model violates its own property %s %s:\n%s", r.ErrKind, r.ErrName, r.ErrTrace)
		}
		var behs []Behaviour
		for _, l := range r.PrintedStrings() {
			var beh Behaviour
			if err := json.Unmarshal([]byte(l), &beh); err != nil {
				return lib.Infra("bad behaviour from TLC: %v: %.300s", err, l)
			}
			k := beh.key()
			if seen[k] {
				continue
			}
			seen[k] = true
			behs = append(behs, beh)
		}
		if len(behs) == 0 {
			return lib.Infra("TLC emitted no behaviour for %+v", b)
		}
		if os.Getenv("VERIF_CORRUPT") == "g" { // development-time vacuity guard
			behs[len(behs)/2].Ops[0].Evals[0] += 7
		}
		c.Logf("model %s: %d distinct states, %d transitions, %d behaviours", b.family, r.Distinct, r.Generated, len(behs))
		c.Sample(map[string]any{"files": behs[0].files(), "ops": behs[0].opTexts()})
		lib.Parallel(len(behs), 4, func(i int) { replayBehaviour(c, behs[i]) })
		c.AddTraces(len(behs))
	}
	c.Set("exhaustive", true)

	// ---- V
	n := c.Pick(150, 3000)
	rng := newRand(c.Seed)
	groups := make([][]Case, n)
	worlds := make([][]Mod, n)
	opss := make([][]TopOp, n)
	for i := 0; i < n; i++ {
		worlds[i], opss[i] = RandomWorld(rng)
	}
	lib.Parallel(n, 4, func(i int) { groups[i] = record(c, worlds[i], opss[i]) })
	c.Sample(groups[0][:min(3, len(groups[0]))])
	if os.Getenv("VERIF_CORRUPT") == "v" {
		e := &groups[1][len(groups[1])-1]
		e.Evals[0] += 7
	}
	if err := judge(c, dir, groups); err != nil {
		return err
	}
	c.AddTraces(n)
	c.Assume("TLC trusted; the executor's materialisation of worlds (files, spec texts, working directory) and the harness commands vm-tick/vm-saw/vm-caught (registered in the builtin namespace) are trusted; namespace identity is observed through a token defined by the first statement of every module body; plugin (.so) and bundled modules are out of the model; evaluations are sequential (concurrent use of one Evaler is C39)")
	return nil
}

func judge(c *lib.Ctx, dir string, groups [][]Case) error {
	bad, err := lib.JudgeGroups(c, "TraceModules", dir, "TraceModules", groups, 4, 12*time.Minute)
	if err != nil {
		return err
	}
	var flat []Case
	starts := []int{}
	for _, g := range groups {
		starts = append(starts, len(flat))
		flat = append(flat, g...)
	}
	for _, b := range bad {
		gi := 0
		for i, s := range starts {
			if s <= b.Index {
				gi = i
			}
		}
		why := "?"
		if len(b.Info) > 0 {
			why = fmt.Sprint(b.Info[0])
		}
		g := flat[starts[gi] : b.Index+1]
		beh := Behaviour{World: g[0].World}
		for _, e := range g[1:] {
			beh.Ops = append(beh.Ops, OpRec{Op: e.Op, Res: e.Res, Log: e.Log, Evals: e.Evals})
		}
		c.Reject("modules:"+why, fmt.Sprintf("world %v ops %v: recorded result %+v log %+v counts %v; the specification prescribes %v", beh.files(), beh.opTexts(), flat[b.Index].Res, flat[b.Index].Log, flat[b.Index].Evals, b.Info), g)
	}
	return nil
}

func replay(c *lib.Ctx, dir string) error {
	b, err := os.ReadFile(c.Replay)
	if err != nil {
		return lib.Infra("%v", err)
	}
	var f struct {
		Case json.RawMessage `json:"case"`
	}
	if err := json.Unmarshal(b, &f); err != nil {
		return lib.Infra("%v", err)
	}
	var beh Behaviour
	if json.Unmarshal(f.Case, &beh) == nil && len(beh.World) > 0 {
		replayBehaviour(c, beh)
		return nil
	}
	var g []Case
	if err := json.Unmarshal(f.Case, &g); err != nil || len(g) == 0 {
		return lib.Infra("unrecognised replay case: %v", err)
	}
	var ops []TopOp
	for _, e := range g[1:] {
		ops = append(ops, e.Op)
	}
	return judge(c, dir, [][]Case{record(c, g[0].World, ops)})
}
