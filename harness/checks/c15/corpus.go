package main

// Directed programs: the examples of website/ref/language.md and of the builtin documentation
// that fall inside the core language, plus interactions the random generator reaches rarely.
// Each program is a list of top-level chunks evaluated one after the other by one Evaler (REPL
// granularity).  They are parsed by the real parser, lifted to the AST (elvcore.LiftChunk) and
// judged exactly like generated programs; nothing here states an expected outcome.
var corpus = [][]string{
	// ---- values, variables, compounding, indexing
	{`put 'a'b"c"`, `var v = value`, `put '$v is '$v`},
	{`var li = [lorem ipsum foo bar]`, `put $li[0]`, `put $li[-1]`, `put $li[0..2]`, `put $li[1..-1]`, `put $li[..2] $li[2..] $li[..]`, `put $li[1..=2]`, `put $@li`},
	{`put elv[0 2 0..2]`, `put [lorem ipsum foo bar][0 2 0..2]`, `put [&a=lorem &b=ipsum &a..b=haha][a a..b]`, `put {[foo bar] [lorem ipsum]}[0 1]`},
	{`put {a b}-{1 2}`, `var li = [foo bar]`, `put {a b}-$li[0 1]`, `var n = (num 10)`, `put 'Number: '$n`, `put 'List: '$li`},
	{`var x y = 3 4`, `put $x $y`, `var a b = (put lorem ipsum)`, `put $a $b`, `var s = 'Hi'`, `put $@s`},
	{`var x y z`, `set x = foo`, `set x y = lorem ipsum`, `put $x $y`, `set x @y z = a b`, `put $x $y $z`, `set x @y z = a b c d`, `put $x $y $z`, `set y[0] = foo`, `put $y`},
	{`var li = [foo bar]`, `var li2 = $li`, `set li[0] = lorem`, `put $li $li2`},
	{`var x = foo`, `var x = [$x]`, `put $x`},
	{`var x = old`, `fn f { put $x }`, `var x = new`, `put $x`, `f`},
	{`put [&foo=bar &lorem=ipsum][foo]`, `put [&a=10 &b=23 &sum=(+ 10 23)][sum]`, `var m = [&k=v]`, `set m[k2] = v2`, `put $m[k2] (count $m)`, `put $m[nokey]`},
	{`put (num 6)[0]`, `put $nil[a]`, `put [a b][2]`, `put [a b][-3]`, `put [a b][x]`, `put abc[1..]`, `put [a b c][2..1]`},
	{`+ 1 10 100`, `var x = (+ 1 10 100)`, `put $x`, `- 5`, `- 10 3 2`, `* 2 3 4`, `*`, `+`, `-`, `< 1 2 3`, `< 1 3 2`, `== 1 1 1`, `!= 1 2`, `!= 1`, `>= 3 3 1`, `+ a 1`, `!= a`, `% x`, `- `, `% 7 -2`, `% -7 2`, `% 1 0`},
	{`has-key [&a=b] a`, `has-key [&a=b] x`, `has-key [a b] 1`, `has-key [a b] 2`, `has-key [a b] x`, `has-key [a b c] 0..2`, `has-value [a b] b`, `has-value [&k=v] v`, `has-value [&k=v] k`, `assoc [a b] 0 x`, `assoc [a b] 2 x`, `assoc [&k=v] k2 v2`, `dissoc [&k=v &j=w] k`, `dissoc [&k=v] nokey`, `conj [a] b c`, `conj [a]`, `conj`, `to-string (num 12)`, `to-string a b`, `kind-of a [] [&] (num 1) $nil $true { } ?(fail x)`, `bool $nil`, `bool []`, `not a`, `not $false`},
	{`/ 6 3`, `/ 12 2 3`, `/ -6 3`, `/ 6 0`, `/ 0 6`, `/ 1`, `/ 0`, `num 12`, `num x`, `num (num 3)`, `num []`, `eq a a`, `eq a b`, `eq [a [b]] [a [b]]`, `eq [&a=b &c=d] [&c=d &a=b]`, `eq a (num 1)`, `eq 1 (num 1)`, `not-eq a b`, `not-eq a`, `eq`, `eq a`},
	{`var x = 2`, `put $x`, `del x`, `var m = [&k=v &k2=v2]`, `del m[k2]`, `put $m`, `var l = [[&k=v &k2=v2]]`, `del l[0][k2]`, `put $l`, `del m[nokey]`, `put $m`, `del l[0]`, `del l[1][k]`},
	{`var x = value`, `fn f { put $x }`, `del x`, `f`, `var y = 1; fail stop; del y`, `var z = 3`, `fail stop; del z`},
	// ---- rationals
	{`/ 1 2`, `/ 2 4`, `/ 6 3`, `/ 1 3 2`, `/ 2`, `/ -3 6`, `/ 3 -6`, `+ (/ 1 2) (/ 1 2)`, `+ (/ 1 2) (/ 1 3)`, `- (/ 1 2) 1`, `* (/ 2 3) (/ 3 4)`, `/ (/ 1 2) (/ 1 4)`, `- (/ 1 2)`, `< (/ 1 3) (/ 1 2) 1`, `== (/ 2 4) (/ 1 2)`, `!= (/ 1 2) 1`, `eq (/ 1 2) (/ 2 4)`, `put a(/ 1 2)`, `to-string (/ -1 2)`, `kind-of (/ 1 2)`, `num (/ 1 2)`, `% (/ 1 2) 2`, `put [a b][(/ 1 2)]`, `take (/ 1 2) [a]`, `order [(/ 1 2) (num 0) (/ -1 3) 1]`, `put [&(/ 1 2)=half][(/ 2 4)]`, `/ (/ 1 2) 0`, `echo (/ 3 2)`, `range (/ 1 2) 2`},
	// ---- keys, order with comparators, str:
	{`var m = [&b=1 &a=2 &c=3]`, `keys $m | order`, `keys $m | count`, `keys [&k=v]`, `keys [&]`, `keys [a b]`, `count [(keys [&k=v])]`, `keys $m | order &reverse`, `keys $m`},
	{`order &less-than={|a b| < $a $b } [5 1 10]`, `order &less-than={|a b| > $a $b } [5 1 10]`, `order &key={|x| - $x } [5 1 10]`, `order &reverse &less-than={|a b| < $a $b } [5 1 10 1]`, `order &less-than={|a b| eq $a x } [l x o r x e x m]`, `order &less-than={|a b| put x } [b a]`, `order &less-than={|a b| fail cmp } [b a]`, `order &less-than={|a b| put $true $true } [b a]`, `order &less-than={|a b| fail never } [a]`, `var n = (num 0)`, `order &less-than={|a b| set n = (+ $n 1); < $a $b } [3 1 2 5 4]`, `put $n`, `order &key={|x| fail k } [a]`, `order &key={|x| put $x[1] } [[0 x] [1 a] [2 b]]`, `order &total [a]`},
	{`use str`, `str:join , [a b c]`, `str:join '' [a b]`, `str:join , []`, `put a b | str:join -`, `str:join , [a (num 1)]`, `str:join , a`, `str:split , a,b,c`, `str:split '' abc`, `str:split , ''`, `str:split '' ''`, `str:split ab xabyabz`, `str:split , (num 1)`, `str:has-prefix foobar foo`, `str:has-prefix foobar bar`, `str:has-suffix foobar bar`, `str:has-prefix a ''`, `str:has-prefix`, `put (str:split ' ' 'how are you?' | take 1)`, `str:to-upper a`},
	// ---- modules
	{`#mod a: put 'mod a loading'; var x = 1; fn f { put 'f from mod a' $x }; fn inc { set x = (+ $x 1) }`, `use a`, `a:f`, `put $a:x`, `a:inc`, `a:f`, `set a:x = 10`, `a:f`, `use a`, `use a b`, `b:f`, `put $b:x`, `{ use a c; c:inc }`, `put $a:x`, `put $a:nosuch`, `a:nosuch`, `put $a:`},
	{`#mod a: var v = a-val`, `#mod b: use a; var w = $a:v'-and-b'; fn g { put $a:v $w }`, `use b`, `b:g`, `put $b:w`, `use nosuchmod`, `put $b:a:v`},
	{`#mod bad: put before; fail in-module; var unreached = 1`, `use bad`, `use bad`, `put ?(use bad)`},
	{`#mod a: var x = 1`, `fn f { use a; put $a:x }`, `f`, `{ use a; set a:x = 2 }`, `f`, `fail stop; use a`, `put $a:`},
	// ---- byte output
	{`echo a b`, `print a b`, `echo`, `print`, `echo &sep=, a b c`, `echo a (num 3) b`, `put (echo "a\nb")`, `put (echo "a\r\nb")`, `put (echo "a\n")`, `put (print what) (echo what)`, `put (print "a\n\nb")`, `put (print "x\r")`, `var l = [(echo a; echo b)]`, `put $l`, `put ?(echo in-xcap)`},
	{`echo a b | each {|x| put [$x] }`, `print "l1\nl2\nl3" | take 2`, `echo x | count`, `{ echo a; echo b } | order &reverse`, `for x [a b] { echo $x }`, `fn f { echo from-f; put v }`, `f`, `echo a | nop`, `put (put a; echo b)`},
	{`fn f { echo from-f; put v }`, `var o = [(f)]`},
	// ---- tmp, with, defer
	{`var x = foo`, `fn f { put $x }`, `{ tmp x = bar; f }`, `f`, `var x = old`, `with x = new { put $x }`, `put $x`, `var y = old-y`, `with [x = new-x] [y = new-y] { put $x $y }`, `put $x $y`},
	{`{ defer { put foo }; put bar }`, `defer { put foo }`, `fn f { defer { put d1 }; defer { put d2 }; put body }`, `f`, `fn g { defer { put d }; fail body }`, `g`, `fn h { defer { fail d }; put body }`, `h`, `fn k { defer { put d }; return; put unreached }`, `k`},
	{`var x = 1`, `for i [a b] { tmp x = $i; put $x }`, `put $x`, `if $true { tmp x = 2; put $x }`, `put $x`, `try { tmp x = 3; fail t } catch e { put $x }`, `var l = [a b]`, `{ tmp l[0] = z; put $l }`, `put $l`, `{ tmp x = 5; tmp x = 6; put $x }`, `put $x`},
	{`var x = 1`, `with x = 2 { fail in-with }`, `put $x`, `with x = (fail rhs) { put unreached }`, `put $x`, `var y = 1`, `with [x = 2] [y = a b] { put unreached }`, `put $x $y`, `for i [a b] { with x = $i { if (eq $i a) { continue }; put $x } }`, `put $x`, `fn f { with x = 9 { return }; put unreached }`, `f`, `put $x`},
	{`var x = 1`, `fn f { defer { put $x }; tmp x = 2; put $x }`, `f`, `put $x`, `for i [a b] { defer { put end-$i }; put $i }`, `range 2 | each {|v| defer { put d$v }; put $v }`, `{ defer { put outer }; { defer { put inner }; put body } }`, `put (put a; { defer { put captured }; put b })`},
	// ---- closures
	{`fn make-adder { var n = 0; put { put $n } { set n = (+ $n 1) } }`, `var getter adder = (make-adder)`, `$getter`, `$adder`, `$getter`, `var getter2 adder2 = (make-adder)`, `$getter2`, `$getter`},
	{`var f = {|a b| put $b $a }`, `$f lorem ipsum`, `$f lorem`, `$f a b c`},
	{`var f = {|a @rest| put $a $rest }`, `$f lorem`, `$f lorem ipsum dolar sit`, `set f = {|a @rest b| put $a $rest $b }`, `$f lorem ipsum dolar sit`, `$f lorem`},
	{`var f = {|&opt=default| put 'Value of $opt is '$opt }`, `$f`, `$f &opt=foobar`, `$f &k2=v2`, `fn g {|&opt=$false| put $opt }`, `g &opt=$true`},
	{`fn f { { put a; return }; put b }`, `f`, `{ f; put c }`, `{ put x; return; put y }`},
	{`fn fact {|n| if (== $n 0) { put 1 } else { * $n (fact (- $n 1)) } }`, `fact 3`, `fact 5`},
	{`var fs = []`, `for x [1 2 3] { set fs = [$@fs { put $x }] }`, `for f $fs { $f }`},
	{`var x = 1`, `{ put $x; var x = 2; put $x }`, `put $x`, `{ var f = { put $x }; var x = 3; $f }`},
	{`var x = value`, `fn f { put $x }`, `f`, `$f~`, `var v = $f~`, `$v`, `put $put~`, `$put~ a b`},
	{`var x = 1`, `$x`, `[a] b`, `(put put) a`, `x`},
	// ---- control flow
	{`if $true { put yes } else { put no }`, `if $false { put yes } elif $nil { put nil } else { put no }`, `if (put $true $false) { put both }`, `if (fail bad) { put x }`, `if (nop) { put no-value-is-true } else { put f }`, `if $nil { put t }`, `if [] { put empty-list-is-true }`, `if (put $true $true) { put both }`, `if ?(fail x) { put t } elif ?(nop) { put ok-is-true }`},
	{`var i = (num 0)`, `while (< $i 3) { put $i; set i = (+ $i 1) } else { put never }`, `while (< $i 3) { put again } else { put never }`, `while $true { put once; break }`, `var n = (num 0)`, `while (nop) { put no-value; set n = (+ $n 1); if (== $n 2) { break } }`, `set i = 0`, `while (< $i 5) { set i = (+ $i 1); if (== $i 2) { continue }; if (== $i 4) { break }; put $i }`},
	{`for x [a b c] { put $x } else { put empty }`, `for x [] { put $x } else { put empty }`, `put $x`, `for x abc { put $x }`, `for x [&a=b] { put $x }`, `for x (put a b) { put $x }`, `for x [a b c] { if (eq $x b) { break }; put $x }`, `put $x`},
	{`for x [1 2 3] { for y [a b] { if (eq $y b) { continue }; put $x$y }; if (== $x 2) { break } }`},
	{`fn brk { break }`, `for x [a b c] { put $x; brk; put unreached }`, `fn cnt { continue }`, `for x [a b] { put $x; cnt; put unreached }`, `brk`},
	{`fn f { for x [a b c] { put $x; return } ; put after }`, `f`, `fn g { each {|x| put $x; return } [a b]; put after }`, `g`},
	// ---- exceptions
	{`try { fail bad } catch e { put caught }`, `try { nop } catch e { put caught } else { put good }`, `try { fail bad } finally { put final }`, `try { put good } finally { put final }`},
	{`try { nop } catch e { put c } else { put good } finally { put final }`, `try { fail bad } catch e { put c } else { put good } finally { put final }`, `try { fail bad } catch e { fail worse }`, `try { fail bad } catch e { fail worse } finally { fail worst }`, `try { nop } catch { put c } else { fail in-else }`},
	{`try { fail bad } catch e { put $e }`, `put $e`, `fail $e`, `try { fail $e } catch e2 { put $e2 }`},
	{`for x [a b] { try { put $x; break } finally { put fin } }`, `for x [a b] { try { put $x; continue } catch e { put caught-$x } }`, `for x [a b] { try { break } catch { put swallowed-$x } }`},
	{`fn f { try { return } finally { put fin }; put unreached }`, `f`, `fn g { try { return } catch e { put caught }; put reached }`, `g`},
	{`put ?(fail bad)`, `put ?(nop)`, `if ?(fail x) { put t } else { put f }`, `var output = (var error = ?(put foo; fail bad))`, `put $output $error`, `put (put a; fail b)`, `put ?(put a)`},
	{`put ?(fail foo)[reason][content]`, `put ?(fail foo)[reason][type]`, `put ?(return)[reason][name] ?(break)[reason][type]`, `try { fail [a b] } catch e { put $e[reason][content][1] }`, `var p = ?(fail x | fail y)`, `put $p[reason][type]`, `for x $p[reason][exceptions] { put $x[reason][content] }`, `put ?(fail a)[reason][nokey]`, `put ?(put [][0])[reason][type]`},
	{`fail`, `fail a b`, `put [(fail x)]`, `var z = (fail y)`, `put $z`, `set z = (put a b)`, `put $z`},
	{`break`, `continue`, `return`, `put ?(break) ?(return)`, `{ break }`, `fn f { break }`, `f`},
	// ---- and / or / coalesce
	{`and $true $false`, `and a b c`, `and a $false`, `and`, `or $true $false`, `or a b c`, `or $false a b`, `or`, `or $false $nil`, `coalesce $nil a b`, `coalesce $nil $nil`, `coalesce`, `coalesce a b`},
	{`and $false (fail foo)`, `or $true (fail foo)`, `coalesce a (fail foo)`, `and $true (fail foo)`, `or (put $false $nil x) y`, `and (put a $nil b) c`, `and {a b}`, `or ?(fail a) ?(nop)`},
	// ---- pipelines of value-stream builtins
	{`put a b c | each {|x| put $x$x }`, `range 3 | each {|x| * $x $x }`, `range 5 8 | each {|x| + $x 1 }`, `range 10 | take 3`, `range 10 | drop 8`, `range 2 | drop 10`, `range 2 | take 10`, `range 5 | count`, `put a b | all`, `put [foo bar] [lorem ipsum] | put (all)[0]`},
	{`range 5 1`, `range 1 10 &step=3`, `range 10 1 &step=-4`, `range 1 5 &step=-1`, `range 5 1 &step=1`, `range`, `range 1 2 3`, `range a`, `range 3 &stp=1`},
	{`put a a b b c | compact`, `put a b a | compact`, `compact [a a b]`, `put x | one`, `put x y | one`, `one [z]`, `all [foo [lorem ipsum]]`, `all foo`, `take 3 [a b c d e]`, `drop 2 [a b c d e]`, `count [lorem ipsum]`, `count lorem`, `count [&a=b]`, `each {|x| put $x } [lorem ipsum]`, `each {|x| put $x } 12`, `take a [x]`},
	{`put foo bar ipsum | order`, `order [(num 10) (num 1) (num 5)]`, `order [[a b] [a] [b b] [a c]]`, `order &reverse [a c b]`, `put [0 x] [1 a] [2 b] | order &key={|l| put $l[1]}`, `order [5 1 10]`, `order [a (num 2)]`, `order &key={|x| put a b } [x]`, `order &reverse [a b a]`, `order [$true $false]`},
	{`put foo bar foobar | keep-if {|s| == 3 (count $s) }`, `keep-if {|s| put $true } [a b]`, `keep-if {|s| put x } [a b]`, `keep-if {|s| put $true $true } [a]`, `keep-if {|s| fail no } [a]`},
	{`range 5 | each {|x| if (== $x 3) { break }; put $x }`, `range 5 | each {|x| if (== $x 1) { continue }; put $x }`, `range 3 | each {|x| fail $x }`, `put a b | each {|x| put $x } | each {|y| put $y$y } | count`},
	{`var acc = (num 0)`, `range 5 | each {|x| set acc = (+ $acc $x) }`, `put $acc`, `var l = []`, `put a b | each {|x| set l = [$@l $x] }`, `put $l`},
	{`put a b | nop`, `put a b | put c`, `fail x | put c`, `put a | fail y`, `fail x | fail y`, `fail x | nop | fail z`, `{ put a; fail x } | all`, `nop | all`, `put a | { put b; all }`, `{ put a; fail x } | nop`},
	{`fn f { all }`, `put 1 2 | f`, `fn g { var inputs = [(all)]; put $inputs[1] }`, `put foo bar baz | g`, `put 1 2 3 | put [(all)]`, `put a b | { all; all }`, `put a b | { count; count }`},
	{`put (range 3 | each {|x| put $x })`, `var r = [(range 4 | drop 1)]`, `put $r`, `for x [(range 3)] { put $x }`, `put ?(range 3 | each {|x| fail $x })`},
}
