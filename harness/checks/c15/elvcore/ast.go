// Package elvcore is the executor side of the ElvCore specification family (C15, C16): the AST of
// DESIGN.md Appendix B.1 (produced by the generators, consumed by TLC and by Render), the renderer
// with its re-parse check, the projection of real values / errors to the abstract form, and the
// program generators.  It contains no oracle: expected outcomes are computed by TLC from
// spec/ElvCore/*.tla.
package elvcore

import (
	"bytes"
	"encoding/json"
	"fmt"
)

// Node is one AST node.  Which fields are meaningful depends on T; MarshalJSON writes exactly the
// fields of the node kind, so that the TLA+ side sees records with known fields.
//
//	chunk    {t:"chunk", ps:[pipe]}
//	pipe     {t:"pipe", fs:[form]}
//	form     {t:"cmd", head:{t:"name",n}|expr, args:[expr], opts:[[name,expr]]}
//	         {t:"var", lhs:[lv], rest:int, eq:bool, rhs:[expr]}    rest: 1-based position of the @lvalue, 0 = none
//	         {t:"set"|"tmp", lhs:[lv], rest:int, rhs:[expr]}
//	         {t:"del", lhs:[lv]}
//	         {t:"use", spec:name, as:[name]?}
//	         {t:"with", assigns:[{lhs:[lv], rest:int, rhs:[expr]}], body:chunk}
//	         {t:"fn", name, lam:lam}
//	         {t:"if", arms:[[expr, chunk]], els:[chunk]?}
//	         {t:"while", cond:expr, body:chunk, els:[chunk]?}
//	         {t:"for", v:lv, iter:expr, body:chunk, els:[chunk]?}
//	         {t:"try", body:chunk, cvar:[name]?, catch:[chunk]?, els:[chunk]?, fin:[chunk]?}
//	         {t:"and"|"or"|"coalesce", args:[expr]}
//	lv       {n:name, idx:[expr], q:[ns-name]}        q: namespace qualifiers ($m:x is n "x", q ["m:"])
//	expr     {t:"str", v:[byte]} {t:"var", n, explode} {t:"list", es} {t:"map", ps:[[expr,expr]]}
//	         {t:"idx", e, is:[expr]} {t:"cat", es} {t:"brace", es} {t:"cap", c:chunk} {t:"xcap", c:chunk}
//	         {t:"lam", params:[name], rest:int, opts:[[name,expr]], body:chunk}
//
// Optional parts are encoded as a list of zero or one element ([]? above): TLC's JSON reader has no null.
type Node struct {
	T string

	Ps []*Node // chunk
	Fs []*Node // pipe

	Head *Node   // cmd
	Args []*Node // cmd, and/or/coalesce
	Opts []Opt   // cmd, lam

	Lhs  []LV    // var set tmp del
	Rest int     // var set tmp lam
	Eq   bool    // var
	Rhs  []*Node // var set tmp

	Name string // fn; name (head)
	Lam  *Node  // fn

	Arms []Arm // if
	Els  *Node // if while for try (nil = absent)

	Cond *Node // while
	Body *Node // while for try lam

	V    *LV   // for
	Iter *Node // for

	CVar  string // try ("" = none)
	Catch *Node  // try
	Fin   *Node  // try

	Str     []byte     // str
	Explode bool       // var
	Es      []*Node    // list cat brace
	Pairs   [][2]*Node // map
	E       *Node      // idx
	Is      []*Node    // idx
	C       *Node      // cap xcap

	Params []string // lam

	Assigns []*Node // with: nodes of kind "set" (lhs, rest, rhs)

	Q  []string // varx, name: namespace qualifiers, e.g. ["m:"] for $m:x
	As string   // use: alias ("" = none); Name holds the spec
}

type Opt struct {
	Name string
	E    *Node
}

type LV struct {
	N   string
	Idx []*Node
	Q   []string // namespace qualifiers
}

type Arm struct {
	Cond *Node
	Body *Node
}

func nodes(ns []*Node) []any {
	out := make([]any, len(ns))
	for i, n := range ns {
		out[i] = n
	}
	return out
}

func optional(n *Node) []any {
	if n == nil {
		return []any{}
	}
	return []any{n}
}

func strsJSON(ss []string) []any {
	out := make([]any, len(ss))
	for i, s := range ss {
		out[i] = s
	}
	return out
}

func lvJSON(lv LV) any { return map[string]any{"n": lv.N, "idx": nodes(lv.Idx), "q": strsJSON(lv.Q)} }

func lvsJSON(lvs []LV) []any {
	out := make([]any, len(lvs))
	for i, lv := range lvs {
		out[i] = lvJSON(lv)
	}
	return out
}

func optsJSON(os []Opt) []any {
	out := make([]any, len(os))
	for i, o := range os {
		out[i] = []any{o.Name, o.E}
	}
	return out
}

// BytesJSON converts bytes to the JSON form used in traces.
func BytesJSON(b []byte) []int { return bytesJSON(b) }

func bytesJSON(b []byte) []int {
	out := make([]int, len(b))
	for i, c := range b {
		out[i] = int(c)
	}
	return out
}

// MarshalJSON writes the node in the schema above.
func (n *Node) MarshalJSON() ([]byte, error) {
	m := map[string]any{"t": n.T}
	switch n.T {
	case "chunk":
		m["ps"] = nodes(n.Ps)
	case "pipe":
		m["fs"] = nodes(n.Fs)
	case "cmd":
		m["head"] = n.Head
		m["args"] = nodes(n.Args)
		m["opts"] = optsJSON(n.Opts)
	case "name":
		m["n"] = n.Name
		m["q"] = strsJSON(n.Q)
	case "use":
		m["spec"] = n.Name
		if n.As == "" {
			m["as"] = []any{}
		} else {
			m["as"] = []any{n.As}
		}
	case "bad":
		m["kind"] = n.Name
	case "var":
		m["lhs"] = lvsJSON(n.Lhs)
		m["rest"] = n.Rest
		m["eq"] = n.Eq
		m["rhs"] = nodes(n.Rhs)
	case "set", "tmp":
		m["lhs"] = lvsJSON(n.Lhs)
		m["rest"] = n.Rest
		m["rhs"] = nodes(n.Rhs)
	case "del":
		m["lhs"] = lvsJSON(n.Lhs)
	case "with":
		as := make([]any, len(n.Assigns))
		for i, a := range n.Assigns {
			as[i] = map[string]any{"lhs": lvsJSON(a.Lhs), "rest": a.Rest, "rhs": nodes(a.Rhs)}
		}
		m["assigns"] = as
		m["body"] = n.Body
	case "fn":
		m["name"] = n.Name
		m["lam"] = n.Lam
	case "if":
		arms := make([]any, len(n.Arms))
		for i, a := range n.Arms {
			arms[i] = []any{a.Cond, a.Body}
		}
		m["arms"] = arms
		m["els"] = optional(n.Els)
	case "while":
		m["cond"] = n.Cond
		m["body"] = n.Body
		m["els"] = optional(n.Els)
	case "for":
		m["v"] = lvJSON(*n.V)
		m["iter"] = n.Iter
		m["body"] = n.Body
		m["els"] = optional(n.Els)
	case "try":
		m["body"] = n.Body
		if n.CVar == "" {
			m["cvar"] = []any{}
		} else {
			m["cvar"] = []any{n.CVar}
		}
		m["catch"] = optional(n.Catch)
		m["els"] = optional(n.Els)
		m["fin"] = optional(n.Fin)
	case "and", "or", "coalesce":
		m["args"] = nodes(n.Args)
	case "str":
		m["v"] = bytesJSON(n.Str)
	case "varx":
		m["t"] = "var"
		m["n"] = n.Name
		m["explode"] = n.Explode
		m["q"] = strsJSON(n.Q)
	case "list", "cat", "brace":
		m["es"] = nodes(n.Es)
	case "map":
		ps := make([]any, len(n.Pairs))
		for i, p := range n.Pairs {
			ps[i] = []any{p[0], p[1]}
		}
		m["ps"] = ps
	case "idx":
		m["e"] = n.E
		m["is"] = nodes(n.Is)
	case "cap", "xcap":
		m["c"] = n.C
	case "lam":
		ps := make([]any, len(n.Params))
		for i, p := range n.Params {
			ps[i] = p
		}
		m["params"] = ps
		m["rest"] = n.Rest
		m["opts"] = optsJSON(n.Opts)
		m["body"] = n.Body
	default:
		return nil, fmt.Errorf("elvcore: unknown node kind %q", n.T)
	}
	var buf bytes.Buffer
	enc := json.NewEncoder(&buf)
	enc.SetEscapeHTML(false)
	if err := enc.Encode(m); err != nil {
		return nil, err
	}
	return bytes.TrimRight(buf.Bytes(), "\n"), nil
}

// The expression node for a variable use has kind "varx" in Go (the form `var` already uses "var");
// it is written to JSON as {t:"var", n, explode}: forms and expressions never share a position.

// ---- constructors

func Chunk(ps ...*Node) *Node { return &Node{T: "chunk", Ps: ps} }
func Pipe(fs ...*Node) *Node  { return &Node{T: "pipe", Fs: fs} }
func Stmt(f *Node) *Node      { return Pipe(f) }
func Cmd(name string, args ...*Node) *Node {
	return &Node{T: "cmd", Head: &Node{T: "name", Name: name}, Args: args}
}
func CmdX(head *Node, args ...*Node) *Node { return &Node{T: "cmd", Head: head, Args: args} }
func Str(s string) *Node                   { return &Node{T: "str", Str: []byte(s)} }
func Var(n string) *Node                   { return &Node{T: "varx", Name: n} }
func VarAt(n string) *Node                 { return &Node{T: "varx", Name: n, Explode: true} }
func List(es ...*Node) *Node               { return &Node{T: "list", Es: es} }
func Map(pairs ...[2]*Node) *Node          { return &Node{T: "map", Pairs: pairs} }
func Idx(e *Node, is ...*Node) *Node       { return &Node{T: "idx", E: e, Is: is} }
func Cat(es ...*Node) *Node                { return &Node{T: "cat", Es: es} }
func Brace(es ...*Node) *Node              { return &Node{T: "brace", Es: es} }
func Cap(ps ...*Node) *Node                { return &Node{T: "cap", C: Chunk(ps...)} }
func XCap(ps ...*Node) *Node               { return &Node{T: "xcap", C: Chunk(ps...)} }
func CapCmd(name string, args ...*Node) *Node {
	return Cap(Stmt(Cmd(name, args...)))
}
func VarDecl(names []string, rest int, rhs ...*Node) *Node {
	lhs := make([]LV, len(names))
	for i, n := range names {
		lhs[i] = LV{N: n}
	}
	return &Node{T: "var", Lhs: lhs, Rest: rest, Eq: true, Rhs: rhs}
}
func VarBare(names ...string) *Node {
	lhs := make([]LV, len(names))
	for i, n := range names {
		lhs[i] = LV{N: n}
	}
	return &Node{T: "var", Lhs: lhs}
}
func Set(lhs []LV, rest int, rhs ...*Node) *Node {
	return &Node{T: "set", Lhs: lhs, Rest: rest, Rhs: rhs}
}

// Walk calls f on n and every node below it (pre-order).
func (n *Node) Walk(f func(*Node)) {
	if n == nil {
		return
	}
	f(n)
	for _, k := range n.Kids() {
		k.Walk(f)
	}
}

// Kids lists the child nodes in source order.
func (n *Node) Kids() []*Node {
	var out []*Node
	add := func(ns ...*Node) {
		for _, k := range ns {
			if k != nil {
				out = append(out, k)
			}
		}
	}
	addLV := func(lv LV) { add(lv.Idx...) }
	switch n.T {
	case "chunk":
		add(n.Ps...)
	case "pipe":
		add(n.Fs...)
	case "cmd":
		add(n.Head)
		add(n.Args...)
		for _, o := range n.Opts {
			add(o.E)
		}
	case "var", "set", "tmp", "del":
		for _, lv := range n.Lhs {
			addLV(lv)
		}
		add(n.Rhs...)
	case "fn":
		add(n.Lam)
	case "with":
		for _, a := range n.Assigns {
			for _, lv := range a.Lhs {
				addLV(lv)
			}
			add(a.Rhs...)
		}
		add(n.Body)
	case "if":
		for _, a := range n.Arms {
			add(a.Cond, a.Body)
		}
		add(n.Els)
	case "while":
		add(n.Cond, n.Body, n.Els)
	case "for":
		addLV(*n.V)
		add(n.Iter, n.Body, n.Els)
	case "try":
		add(n.Body, n.Catch, n.Els, n.Fin)
	case "and", "or", "coalesce":
		add(n.Args...)
	case "list", "cat", "brace":
		add(n.Es...)
	case "map":
		for _, p := range n.Pairs {
			add(p[0], p[1])
		}
	case "idx":
		add(n.E)
		add(n.Is...)
	case "cap", "xcap":
		add(n.C)
	case "lam":
		for _, o := range n.Opts {
			add(o.E)
		}
		add(n.Body)
	}
	return out
}

// Size is the number of nodes.
func (n *Node) Size() int {
	c := 0
	n.Walk(func(*Node) { c++ })
	return c
}
