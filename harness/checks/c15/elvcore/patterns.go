package elvcore

import "fmt"

// ---- interaction patterns the random composition reaches rarely: closure factories, functions
// taking functions, bounded recursion, exception introspection.

func (g *Gen) patternStmt(depth int) []*Node {
	switch g.R.Intn(5) {
	case 0:
		return g.counterFactory(depth)
	case 1:
		return g.applyPattern(depth)
	case 2:
		return g.recursion(depth)
	case 3:
		return g.introspect(depth)
	default:
		return g.closureList(depth)
	}
}

// fn mkN { var n = (num K); put { put $n } { set n = (+ $n S) } }; var getN incN = (mkN); $incN; $getN ...
func (g *Gen) counterFactory(depth int) []*Node {
	g.uniq++
	mk, get, inc := fmt.Sprintf("mk%d", g.uniq), fmt.Sprintf("get%d", g.uniq), fmt.Sprintf("inc%d", g.uniq)
	body := Chunk(
		Stmt(VarDecl([]string{"n"}, 0, CapCmd("num", g.numLit()))),
		Stmt(Cmd("put",
			&Node{T: "lam", Params: []string{}, Body: Chunk(Stmt(Cmd("put", Var("n"))))},
			&Node{T: "lam", Params: []string{}, Body: Chunk(Stmt(Set([]LV{{N: "n"}}, 0, CapCmd("+", Var("n"), g.numLit()))))})))
	out := []*Node{
		Stmt(&Node{T: "fn", Name: mk, Lam: &Node{T: "lam", Params: []string{}, Body: body}}),
		Stmt(VarDecl([]string{get, inc}, 0, CapCmd(mk))),
	}
	g.declare(mk+"~", &varInfo{kind: KFn, fn: &fnInfo{named: true}})
	g.declare(get, &varInfo{kind: KFn, fn: &fnInfo{}})
	g.declare(inc, &varInfo{kind: KFn, fn: &fnInfo{}})
	for i := g.R.Intn(4); i > 0; i-- {
		out = append(out, Stmt(CmdX(Var(g.pick([]string{get, inc})))))
	}
	if g.chance(50) {
		// a second, independent instance
		get2, inc2 := get+"b", inc+"b"
		out = append(out, Stmt(VarDecl([]string{get2, inc2}, 0, CapCmd(mk))), Stmt(CmdX(Var(inc2))), Stmt(CmdX(Var(get2))), Stmt(CmdX(Var(get))))
		g.declare(get2, &varInfo{kind: KFn, fn: &fnInfo{}})
		g.declare(inc2, &varInfo{kind: KFn, fn: &fnInfo{}})
	}
	return out
}

// fn applyN {|f @a| $f $@a }; applyN {|x y| ... } 1 2 ; applyN $put~ a
func (g *Gen) applyPattern(depth int) []*Node {
	g.uniq++
	name := fmt.Sprintf("apply%d", g.uniq)
	lam := &Node{T: "lam", Params: []string{"f", "a"}, Rest: 2, Body: Chunk(Stmt(CmdX(Var("f"), VarAt("a"))))}
	out := []*Node{Stmt(&Node{T: "fn", Name: name, Lam: lam})}
	g.declare(name+"~", &varInfo{kind: KFn, fn: &fnInfo{params: 2, rest: true, named: true}})
	for i := 1 + g.R.Intn(2); i > 0; i-- {
		switch g.R.Intn(3) {
		case 0:
			out = append(out, Stmt(Cmd(name, Var(g.pick([]string{"put~", "+~", "eq~", "count~"})), g.Expr(KNStr, depth-1), g.Expr(KNStr, depth-1))))
		case 1:
			l, fi := g.lambda(depth-1, false)
			args := []*Node{l}
			for k := 0; k < fi.params; k++ {
				args = append(args, g.Expr(KNStr, depth-1))
			}
			out = append(out, Stmt(Cmd(name, args...)))
		default:
			if cs := g.callables(); len(cs) > 0 {
				c := cs[g.R.Intn(len(cs))]
				h := c.head
				if h.T == "name" {
					h = Var(h.Name + "~")
				}
				args := []*Node{h}
				for k := 0; k < c.fi.params; k++ {
					args = append(args, g.Expr(KNStr, depth-1))
				}
				out = append(out, Stmt(Cmd(name, args...)))
			}
		}
	}
	return out
}

// fn downN {|n| if (> $n 0) { put $n; downN (- $n 1) } else { <stmt> } }; downN 3
func (g *Gen) recursion(depth int) []*Node {
	g.uniq++
	name := fmt.Sprintf("down%d", g.uniq)
	g.push(true)
	g.declare("n", &varInfo{kind: KNum})
	g.inFn++
	g.inNamedFn++
	wasLoop := g.inLoop
	g.inLoop = 0
	base := g.stmts(1, depth-1)
	g.inLoop = wasLoop
	g.inNamedFn--
	g.inFn--
	g.pop()
	rec := Chunk(Stmt(Cmd("put", Var("n"))), Stmt(Cmd(name, CapCmd("-", Var("n"), Str("1")))))
	if g.chance(40) {
		rec.Ps = append(rec.Ps, Stmt(Cmd("put", Cat(Str("back"), Var("n")))))
	}
	body := Chunk(Stmt(&Node{T: "if", Arms: []Arm{{CapCmd(">", Var("n"), Str("0")), rec}}, Els: base}))
	out := []*Node{Stmt(&Node{T: "fn", Name: name, Lam: &Node{T: "lam", Params: []string{"n"}, Body: body}})}
	// registered without a signature: only this pattern calls it, with a small literal, so other
	// call sites cannot pass an arbitrary number (a recursion thousands of levels deep, each level
	// holding the pipe of an output capture)
	g.declare(name+"~", &varInfo{kind: KFn})
	out = append(out, Stmt(Cmd(name, Str(fmt.Sprint(g.R.Intn(4))))))
	return out
}

// try { <thrower> } catch e { put $e[reason][type]; put $e[reason][content] }
func (g *Gen) introspect(depth int) []*Node {
	if !g.F.Exc {
		return nil
	}
	n := &Node{T: "try", CVar: "e"}
	g.push(false)
	g.inTry++
	n.Body = Chunk(g.failStmt(depth))
	if g.inLoop > 0 && g.chance(30) {
		n.Body = Chunk(Stmt(Cmd(g.pick([]string{"break", "continue"}))))
	}
	g.inTry--
	g.pop()
	if vi := g.lookup("e"); vi != nil {
		*vi = varInfo{kind: KExc}
	} else {
		g.declare("e", &varInfo{kind: KExc})
	}
	field := g.pick([]string{"content", "content", "name", "type"})
	n.Catch = Chunk(Stmt(Cmd("put", Idx(Idx(Var("e"), Str("reason")), Str("type")))),
		Stmt(Cmd("put", Idx(Idx(Var("e"), Str("reason")), Str(field)))))
	return []*Node{Stmt(n)}
}

// var fs = []; for x [..] { set fs = [$@fs { put $x }] }; for f $fs { $f }   (one shared loop variable)
func (g *Gen) closureList(depth int) []*Node {
	g.uniq++
	fs, x, f := fmt.Sprintf("fs%d", g.uniq), fmt.Sprintf("x%d", g.uniq), fmt.Sprintf("f%d", g.uniq)
	m := 1 + g.R.Intn(3)
	es := make([]*Node, m)
	for i := range es {
		es[i] = g.numLit()
	}
	var capt *Node = &Node{T: "lam", Params: []string{}, Body: Chunk(Stmt(Cmd("put", Var(x))))}
	body := Chunk(Stmt(Set([]LV{{N: fs}}, 0, List(VarAt(fs), capt))))
	if g.chance(50) {
		// a fresh variable per iteration: each closure sees its own
		y := "y" + fmt.Sprint(g.uniq)
		capt.Body = Chunk(Stmt(Cmd("put", Var(y))))
		body.Ps = append([]*Node{Stmt(VarDecl([]string{y}, 0, Var(x)))}, body.Ps...)
	}
	out := []*Node{
		Stmt(VarDecl([]string{fs}, 0, List())),
		Stmt(&Node{T: "for", V: &LV{N: x}, Iter: List(es...), Body: body}),
		Stmt(&Node{T: "for", V: &LV{N: f}, Iter: Var(fs), Body: Chunk(Stmt(CmdX(Var(f))))}),
	}
	g.declare(fs, &varInfo{kind: KAny})
	g.declare(x, &varInfo{kind: KAny})
	g.declare(f, &varInfo{kind: KAny})
	return out
}
