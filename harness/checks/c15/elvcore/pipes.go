package elvcore

import "fmt"

// ---- feature group 8: pipelines of value-stream builtins

// pureLambda: {|x| ... } whose body only outputs values computed from x (no assignment to outer
// variables), usable in any stage of a pipeline.
func (g *Gen) pureLambda(depth int, ek Kind) *Node {
	lam := &Node{T: "lam", Params: []string{"x"}}
	g.push(true)
	g.declare("x", &varInfo{kind: ek, elem: KAny, n: -1})
	g.pure++
	wasLoop := g.inLoop
	g.inLoop = 0
	body := Chunk()
	n := 1 + g.R.Intn(2)
	for i := 0; i < n; i++ {
		switch g.R.Intn(8) {
		case 0:
			body.Ps = append(body.Ps, g.ifStmt(depth))
		case 1:
			if g.F.Exc && g.chance(40) {
				body.Ps = append(body.Ps, Stmt(Cmd(g.pick([]string{"break", "continue", "fail"}), []*Node{}...)))
				if last := body.Ps[len(body.Ps)-1].Fs[0]; last.Head.Name == "fail" {
					last.Args = []*Node{Var("x")}
				}
				continue
			}
			fallthrough
		default:
			args := []*Node{Var("x")}
			switch ek {
			case KNum, KNStr:
				args = []*Node{CapCmd(g.pick([]string{"+", "*", "-"}), Var("x"), g.numLit())}
			case KStr:
				args = []*Node{Cat(Var("x"), Str(g.pick([]string{"-s", "!", "_"})))}
			}
			if g.chance(25) {
				args = append(args, g.Expr(KAny, depth-1))
			}
			body.Ps = append(body.Ps, Stmt(Cmd("put", args...)))
		}
	}
	g.inLoop = wasLoop
	g.pure--
	g.pop()
	lam.Body = body
	return lam
}

func (g *Gen) predLambda(depth int, ek Kind) *Node {
	lam := &Node{T: "lam", Params: []string{"x"}}
	var cond *Node
	switch ek {
	case KNum, KNStr:
		cond = Cmd(g.pick([]string{"<", ">", "==", "!="}), Var("x"), g.numLit())
	default:
		cond = Cmd(g.pick([]string{"eq", "not-eq"}), Var("x"), Str(g.pick(words)))
	}
	if g.F.ErrRate > 0 && g.chance(2*g.F.ErrRate) {
		cond = Cmd("put", Str("x")) // not a boolean
	}
	lam.Body = Chunk(Stmt(cond))
	return lam
}

// producer: first stage; returns the form and the kind of the values it writes
func (g *Gen) producer(depth int) (*Node, Kind) {
	switch g.R.Intn(6) {
	case 0, 1:
		n := g.R.Intn(6)
		if g.chance(20) {
			return Cmd("range", Str(fmt.Sprint(g.R.Intn(4))), Str(fmt.Sprint(n+2))), KNum
		}
		return Cmd("range", Str(fmt.Sprint(n))), KNum
	case 2:
		if ms := g.varsOfKind(KMap); len(ms) > 0 && g.F.More && g.chance(40) {
			return Cmd("keys", Var(g.pick(ms))), KUnord // only `order` and `count` may follow
		}
		if vs := g.varsOfKind(KList); len(vs) > 0 {
			v := g.pick(vs)
			return Cmd("all", Var(v)), g.lookup(v).elem
		}
		fallthrough
	case 3:
		ek := []Kind{KNStr, KStr}[g.R.Intn(2)]
		n := g.R.Intn(5)
		args := make([]*Node, n)
		for i := range args {
			args[i] = g.Expr(ek, depth-1)
		}
		if g.chance(30) && n >= 2 {
			args[1] = args[0] // a run of equal values for compact
		}
		return Cmd("put", args...), ek
	case 4:
		ek := []Kind{KNStr, KStr, KNum}[g.R.Intn(3)]
		lam := g.pureLambda(depth-1, KAny) // generated in textual order: the lambda comes first
		l := g.expr(KList, depth-1)
		return Cmd("each", lam, l), ek
	default:
		return Cmd("put", g.multi(KAny, depth-1), g.multi(KAny, depth-1)), KAny
	}
}

func (g *Gen) filter(depth int, ek Kind) (*Node, Kind) {
	switch g.R.Intn(8) {
	case 0:
		return Cmd("take", Str(fmt.Sprint(g.R.Intn(4)))), ek
	case 1:
		return Cmd("drop", Str(fmt.Sprint(g.R.Intn(3)))), ek
	case 2:
		return Cmd("compact"), ek
	case 3:
		if ek == KNum || ek == KNStr || ek == KStr {
			f := Cmd("order")
			if g.chance(40) {
				f.Opts = append(f.Opts, Opt{"reverse", Var("true")})
			}
			if g.F.More && g.chance(35) {
				// an explicit comparator
				var body *Node
				if ek == KStr {
					body = Stmt(Cmd("<", CapCmd("count", Var("a")), CapCmd("count", Var("b"))))
				} else {
					body = Stmt(Cmd(g.pick([]string{"<", ">", "<="}), Var("a"), Var("b")))
				}
				if g.F.ErrRate > 0 && g.chance(3*g.F.ErrRate) {
					body = Stmt(Cmd("put", Str("x"))) // not a boolean
				}
				f.Opts = append(f.Opts, Opt{"less-than", &Node{T: "lam", Params: []string{"a", "b"}, Body: Chunk(body)}})
			} else if g.F.More && g.chance(25) {
				var body *Node
				if ek == KStr {
					body = Stmt(Cmd("count", Var("x")))
				} else {
					body = Stmt(Cmd("-", Var("x")))
				}
				f.Opts = append(f.Opts, Opt{"key", &Node{T: "lam", Params: []string{"x"}, Body: Chunk(body)}})
			}
			return f, ek
		}
		return Cmd("all"), ek
	case 4:
		return Cmd("keep-if", g.predLambda(depth, ek)), ek
	case 5:
		return Cmd("all"), ek
	default:
		return Cmd("each", g.pureLambda(depth-1, ek)), KAny
	}
}

func (g *Gen) consumer(depth int, ek Kind) *Node {
	switch g.R.Intn(9) {
	case 0:
		return Cmd("count")
	case 1:
		return Cmd("put", List(CapCmd("all")))
	case 2:
		return Cmd("one")
	case 3:
		// accumulate into a variable: side effects are allowed in the last form
		if vs := g.varsOfKind(KList); len(vs) > 0 {
			v := g.pick(vs)
			if !g.loopVar[v] {
				lam := &Node{T: "lam", Params: []string{"x"}, Body: Chunk(Stmt(Set([]LV{{N: v}}, 0, List(VarAt(v), Var("x")))))}
				g.lookup(v).n = -1
				g.lookup(v).elem = KAny
				return Cmd("each", lam)
			}
		}
		return Cmd("count")
	case 4:
		if g.F.ErrRate > 0 && g.chance(30) {
			return Cmd("nop") // a reader that never reads
		}
		return Cmd("all")
	case 5:
		if cs := g.callables(); len(cs) > 0 && g.chance(60) {
			if f := g.call(depth - 1); f != nil {
				return f
			}
		}
		return Cmd("take", Str("2"))
	default:
		f, _ := g.filter(depth, ek)
		return f
	}
}

func (g *Gen) pipeline(depth int) *Node {
	p, ek := g.producer(depth)
	fs := []*Node{p}
	if ek == KUnord {
		// the order of the keys of a map is not specified: sort or count them
		if g.chance(70) {
			fs = append(fs, Cmd("order"))
			if g.chance(50) {
				fs = append(fs, g.consumer(depth, KStr))
			}
		} else {
			fs = append(fs, Cmd("count"))
		}
		return Pipe(fs...)
	}
	for n := g.R.Intn(3); n > 0; n-- {
		f, k := g.filter(depth, ek)
		fs = append(fs, f)
		ek = k
	}
	fs = append(fs, g.consumer(depth, ek))
	return Pipe(fs...)
}

func (g *Gen) pipeStmt(depth int) *Node { return g.pipeline(depth) }
