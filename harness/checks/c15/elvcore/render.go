package elvcore

import (
	"bytes"
	"encoding/json"
	"fmt"
	"strings"

	"src.elv.sh/pkg/parse"
)

// Render turns an AST into Elvish source text.  It is total on the ASTs the generators produce;
// CheckRender re-parses the text with the real parser and lifts the parse tree back to an AST,
// which must be identical (a renderer defect is a machinery problem, never a verdict).
func Render(n *Node) string {
	var b strings.Builder
	renderChunkBody(&b, n)
	return b.String()
}

func renderChunkBody(b *strings.Builder, c *Node) {
	for i, p := range c.Ps {
		if i > 0 {
			b.WriteString("; ")
		}
		renderPipe(b, p)
	}
}

func renderBlock(b *strings.Builder, c *Node) {
	b.WriteString("{ ")
	renderChunkBody(b, c)
	if len(c.Ps) > 0 {
		b.WriteString(" ")
	}
	b.WriteString("}")
}

func renderPipe(b *strings.Builder, p *Node) {
	for i, f := range p.Fs {
		if i > 0 {
			b.WriteString(" | ")
		}
		renderForm(b, f)
	}
}

func renderLV(b *strings.Builder, lv LV, rest bool) {
	if rest {
		b.WriteString("@")
	}
	b.WriteString(strings.Join(lv.Q, "") + lv.N)
	for _, ix := range lv.Idx {
		b.WriteString("[")
		renderExpr(b, ix)
		b.WriteString("]")
	}
}

func renderAssign(b *strings.Builder, kw string, f *Node, eq bool) {
	b.WriteString(kw)
	for i, lv := range f.Lhs {
		b.WriteString(" ")
		renderLV(b, lv, f.Rest == i+1)
	}
	if eq {
		b.WriteString(" =")
		for _, e := range f.Rhs {
			b.WriteString(" ")
			renderExpr(b, e)
		}
	}
}

func renderOpts(b *strings.Builder, opts []Opt, lead string) {
	for i, o := range opts {
		if i > 0 || lead != "" {
			b.WriteString(" ")
		}
		b.WriteString("&" + o.Name + "=")
		renderExpr(b, o.E)
	}
}

func renderForm(b *strings.Builder, f *Node) {
	switch f.T {
	case "cmd":
		if f.Head.T == "name" {
			b.WriteString(strings.Join(f.Head.Q, "") + f.Head.Name)
		} else {
			renderExpr(b, f.Head)
		}
		for _, a := range f.Args {
			b.WriteString(" ")
			renderExpr(b, a)
		}
		renderOpts(b, f.Opts, " ")
	case "var":
		renderAssign(b, "var", f, f.Eq)
	case "set":
		renderAssign(b, "set", f, true)
	case "tmp":
		renderAssign(b, "tmp", f, true)
	case "del":
		b.WriteString("del")
		for _, lv := range f.Lhs {
			b.WriteString(" ")
			renderLV(b, lv, false)
		}
	case "use":
		b.WriteString("use " + f.Name)
		if f.As != "" {
			b.WriteString(" " + f.As)
		}
	case "with":
		b.WriteString("with")
		if len(f.Assigns) == 1 {
			var t strings.Builder
			renderAssign(&t, "", f.Assigns[0], true)
			b.WriteString(t.String())
		} else {
			for _, a := range f.Assigns {
				var t strings.Builder
				renderAssign(&t, "", a, true)
				b.WriteString(" [" + strings.TrimPrefix(t.String(), " ") + "]")
			}
		}
		b.WriteString(" ")
		renderBlock(b, f.Body)
	case "fn":
		b.WriteString("fn " + f.Name + " ")
		renderExpr(b, f.Lam)
	case "if":
		for i, a := range f.Arms {
			if i == 0 {
				b.WriteString("if ")
			} else {
				b.WriteString(" elif ")
			}
			renderExpr(b, a.Cond)
			b.WriteString(" ")
			renderBlock(b, a.Body)
		}
		if f.Els != nil {
			b.WriteString(" else ")
			renderBlock(b, f.Els)
		}
	case "while":
		b.WriteString("while ")
		renderExpr(b, f.Cond)
		b.WriteString(" ")
		renderBlock(b, f.Body)
		if f.Els != nil {
			b.WriteString(" else ")
			renderBlock(b, f.Els)
		}
	case "for":
		b.WriteString("for ")
		renderLV(b, *f.V, false)
		b.WriteString(" ")
		renderExpr(b, f.Iter)
		b.WriteString(" ")
		renderBlock(b, f.Body)
		if f.Els != nil {
			b.WriteString(" else ")
			renderBlock(b, f.Els)
		}
	case "try":
		b.WriteString("try ")
		renderBlock(b, f.Body)
		if f.Catch != nil {
			b.WriteString(" catch ")
			if f.CVar != "" {
				b.WriteString(f.CVar + " ")
			}
			renderBlock(b, f.Catch)
		}
		if f.Els != nil {
			b.WriteString(" else ")
			renderBlock(b, f.Els)
		}
		if f.Fin != nil {
			b.WriteString(" finally ")
			renderBlock(b, f.Fin)
		}
	case "and", "or", "coalesce":
		b.WriteString(f.T)
		for _, a := range f.Args {
			b.WriteString(" ")
			renderExpr(b, a)
		}
	case "bad":
		b.WriteString(DefectText[f.Name])
	default:
		panic(fmt.Sprintf("render: unknown form %q", f.T))
	}
}

func bareOK(s []byte) bool {
	if len(s) == 0 {
		return false
	}
	for i, c := range s {
		switch {
		case c >= 'a' && c <= 'z', c >= 'A' && c <= 'Z', c >= '0' && c <= '9', c == '_':
		case c == '-' && (i > 0 || len(s) > 1):
		default:
			return false
		}
	}
	return true
}

// QuoteBytes renders a byte string as an Elvish string literal.
func QuoteBytes(s []byte) string {
	if bareOK(s) {
		return string(s)
	}
	q, _ := parse.QuoteAs(string(s), parse.SingleQuoted)
	return q
}

func renderExpr(b *strings.Builder, e *Node) {
	switch e.T {
	case "str":
		b.WriteString(QuoteBytes(e.Str))
	case "varx":
		name := parse.QuoteVariableName(strings.Join(e.Q, "") + e.Name) // $'+~'
		if e.Explode {
			b.WriteString("$@" + name)
		} else {
			b.WriteString("$" + name)
		}
	case "list":
		b.WriteString("[")
		for i, x := range e.Es {
			if i > 0 {
				b.WriteString(" ")
			}
			renderExpr(b, x)
		}
		b.WriteString("]")
	case "map":
		b.WriteString("[")
		if len(e.Pairs) == 0 {
			b.WriteString("&")
		}
		for i, p := range e.Pairs {
			if i > 0 {
				b.WriteString(" ")
			}
			b.WriteString("&")
			renderExpr(b, p[0])
			b.WriteString("=")
			renderExpr(b, p[1])
		}
		b.WriteString("]")
	case "idx":
		renderExpr(b, e.E)
		b.WriteString("[")
		for i, x := range e.Is {
			if i > 0 {
				b.WriteString(" ")
			}
			renderExpr(b, x)
		}
		b.WriteString("]")
	case "cat":
		// adjacent string literals must not fuse ('a''b' is one string, ab one bareword) and a
		// bareword after a variable would extend its name: alternate the quoting style
		prev := ""
		for _, x := range e.Es {
			if x.T != "str" {
				renderExpr(b, x)
				prev = x.T
				continue
			}
			switch prev {
			case "":
				q := QuoteBytes(x.Str)
				b.WriteString(q)
				if strings.HasPrefix(q, `"`) {
					prev = "dq"
				} else {
					prev = "sq"
				}
			case "dq":
				q, _ := parse.QuoteAs(string(x.Str), parse.SingleQuoted)
				b.WriteString(q)
				if strings.HasPrefix(q, `"`) {
					prev = "dq" // unprintable content forces double quotes: "a""b" does not fuse
				} else {
					prev = "sq"
				}
			case "sq":
				q, _ := parse.QuoteAs(string(x.Str), parse.DoubleQuoted)
				b.WriteString(q)
				prev = "dq"
			default:
				q, _ := parse.QuoteAs(string(x.Str), parse.SingleQuoted)
				b.WriteString(q)
				if strings.HasPrefix(q, `"`) {
					prev = "dq"
				} else {
					prev = "sq"
				}
			}
		}
	case "brace":
		b.WriteString("{")
		for i, x := range e.Es {
			if i > 0 {
				b.WriteString(" ")
			}
			renderExpr(b, x)
		}
		b.WriteString("}")
	case "cap":
		b.WriteString("(")
		renderChunkBody(b, e.C)
		b.WriteString(")")
	case "xcap":
		b.WriteString("?(")
		renderChunkBody(b, e.C)
		b.WriteString(")")
	case "lam":
		b.WriteString("{")
		if len(e.Params) > 0 || len(e.Opts) > 0 {
			b.WriteString("|")
			for i, p := range e.Params {
				if i > 0 {
					b.WriteString(" ")
				}
				if e.Rest == i+1 {
					b.WriteString("@")
				}
				b.WriteString(p)
			}
			lead := ""
			if len(e.Params) > 0 {
				lead = " "
			}
			renderOpts(b, e.Opts, lead)
			b.WriteString("|")
		}
		b.WriteString(" ")
		renderChunkBody(b, e.Body)
		if len(e.Body.Ps) > 0 {
			b.WriteString(" ")
		}
		b.WriteString("}")
	default:
		panic(fmt.Sprintf("render: unknown expression %q", e.T))
	}
}

// CheckRender renders the chunk, parses the text with the real parser and requires the lifted
// parse tree to equal the AST.
func CheckRender(n *Node) (string, error) {
	src := Render(n)
	tree, err := parse.Parse(parse.Source{Name: "[render]", Code: src}, parse.Config{})
	if err != nil {
		return src, fmt.Errorf("rendered text does not parse: %v\n%s", err, src)
	}
	back, err := LiftChunk(tree.Root)
	if err != nil {
		return src, fmt.Errorf("lifting the parse tree of the rendered text: %v\n%s", err, src)
	}
	a, err := json.Marshal(n)
	if err != nil {
		return src, err
	}
	c, err := json.Marshal(back)
	if err != nil {
		return src, err
	}
	if !bytes.Equal(a, c) {
		return src, fmt.Errorf("render/parse round trip changed the AST\n src: %s\n ast: %s\n got: %s", src, a, c)
	}
	return src, nil
}
