package elvcore

// ---- feature group 12: `use` of in-memory modules, qualified names $m:x, m:f

// module generates the source of one module: variables, functions over them (closures over the
// module's own state) and some output while loading.  Its top-level scope is what `use` exports.
func (g *Gen) module(name string, depth int) {
	saved := g.scopes
	g.scopes = nil
	g.push(true)
	c := Chunk()
	if g.chance(60) {
		c.Ps = append(c.Ps, Stmt(Cmd("put", Str("loading-"+name))))
	}
	// a counter with an accessor and a mutator
	c.Ps = append(c.Ps, Stmt(VarDecl([]string{"n"}, 0, CapCmd("num", g.numLit()))))
	g.declare("n", &varInfo{kind: KNum})
	c.Ps = append(c.Ps, Stmt(VarDecl([]string{"s"}, 0, Str(g.pick(words)))))
	g.declare("s", &varInfo{kind: KStr})
	c.Ps = append(c.Ps, Stmt(&Node{T: "fn", Name: "get", Lam: &Node{T: "lam", Params: []string{}, Body: Chunk(Stmt(Cmd("put", Var("n"))))}}))
	g.declare("get~", &varInfo{kind: KFn, fn: &fnInfo{named: true}})
	c.Ps = append(c.Ps, Stmt(&Node{T: "fn", Name: "add", Lam: &Node{T: "lam", Params: []string{"d"},
		Body: Chunk(Stmt(Set([]LV{{N: "n"}}, 0, CapCmd("+", Var("n"), Var("d")))))}}))
	g.declare("add~", &varInfo{kind: KFn, fn: &fnInfo{params: 1, named: true}})
	if len(g.Mods) > 0 && g.chance(50) {
		// a module using an earlier module
		prev := g.Mods[0].Name
		c.Ps = append(c.Ps, Stmt(&Node{T: "use", Name: prev}),
			Stmt(&Node{T: "fn", Name: "both", Lam: &Node{T: "lam", Params: []string{}, Body: Chunk(
				Stmt(Cmd("put", Var("n"), &Node{T: "varx", Name: "n", Q: []string{prev + ":"}})))}}))
		g.declare("both~", &varInfo{kind: KFn, fn: &fnInfo{named: true}})
	}
	for i := g.R.Intn(3); i > 0; i-- {
		c.Ps = append(c.Ps, g.Stmt(depth-1)...)
	}
	g.modInfo[name] = g.top()
	g.Mods = append(g.Mods, Module{Name: name, Ast: c})
	g.scopes = saved
}

// useStmt: import a module (possibly again, possibly under an alias) and use what it exports
func (g *Gen) useStmt(depth int) *Node {
	m := g.Mods[g.R.Intn(len(g.Mods))]
	alias := ""
	if g.chance(25) {
		alias = "al"
	}
	nsName := m.Name
	if alias != "" {
		nsName = alias
	}
	if vi := g.lookup(nsName + ":"); vi == nil || g.chance(15) {
		g.declare(nsName+":", &varInfo{kind: KNs, mod: m.Name})
		return Stmt(&Node{T: "use", Name: m.Name, As: alias})
	}
	q := []string{nsName + ":"}
	sc := g.modInfo[m.Name]
	switch g.R.Intn(6) {
	case 0:
		return Stmt(Cmd("put", &Node{T: "varx", Name: g.pick([]string{"n", "s"}), Q: q}))
	case 1:
		return Stmt(&Node{T: "cmd", Head: &Node{T: "name", Name: "get", Q: q}, Args: []*Node{}})
	case 2:
		return Stmt(&Node{T: "cmd", Head: &Node{T: "name", Name: "add", Q: q}, Args: []*Node{g.numeric(depth - 1)}})
	case 3:
		return Stmt(Set([]LV{{N: "s", Q: q}}, 0, g.Expr(KStr, depth-1)))
	case 4:
		// any exported name, or (rarely) one that does not exist
		var names []string
		for _, n := range sc.order {
			if vi := sc.vars[n]; vi != nil && vi.kind != KFn && vi.kind != KNs {
				names = append(names, n)
			}
		}
		if g.F.ErrRate > 0 && g.chance(8*g.F.ErrRate) {
			names = []string{"nosuch"}
		}
		if len(names) == 0 {
			names = []string{"n"}
		}
		return Stmt(Cmd("put", &Node{T: "varx", Name: g.pick(names), Q: q}))
	default:
		if _, ok := sc.vars["both~"]; ok {
			return Stmt(&Node{T: "cmd", Head: &Node{T: "name", Name: "both", Q: q}, Args: []*Node{}})
		}
		return Stmt(Cmd("put", CapCmd("+", &Node{T: "varx", Name: "n", Q: q}, Str("1"))))
	}
}

// strStmt: the pre-defined module str (join, split, has-prefix, has-suffix on ASCII strings)
func (g *Gen) strStmt(depth int) []*Node {
	var out []*Node
	if g.lookup("str:") == nil {
		g.declare("str:", &varInfo{kind: KNs, mod: "str"})
		out = append(out, Stmt(&Node{T: "use", Name: "str"}))
	}
	q := []string{"str:"}
	head := func(n string) *Node { return &Node{T: "name", Name: n, Q: q} }
	var f *Node
	switch g.R.Intn(4) {
	case 0:
		f = &Node{T: "cmd", Head: head("join"), Args: []*Node{Str(g.pick([]string{",", "", "-", "ab"})), g.expr(KList, depth-1)}}
	case 1:
		f = &Node{T: "cmd", Head: head("split"), Args: []*Node{Str(g.pick([]string{",", "", "l", "ab", " "})), g.Expr(KStr, depth-1)}}
	case 2:
		f = &Node{T: "cmd", Head: head(g.pick([]string{"has-prefix", "has-suffix"})), Args: []*Node{g.Expr(KStr, depth-1), Str(g.pick([]string{"", "l", "fo", "ar", "xyz"}))}}
	default:
		// words joined and split again
		f = &Node{T: "cmd", Head: head("split"), Args: []*Node{Str(","), Cap(Stmt(&Node{T: "cmd", Head: head("join"), Args: []*Node{Str(","), List(Str(g.pick(words)), Str(g.pick(words)))}}))}}
	}
	if f.Opts == nil {
		f.Opts = []Opt{}
	}
	return append(out, Stmt(f))
}
