package elvcore

import (
	"encoding/json"
	"fmt"
)

// FromJSON reads an AST in the schema written by MarshalJSON (ASTs emitted by TLC in the G direction).
func FromJSON(b []byte) (*Node, error) {
	var v any
	if err := json.Unmarshal(b, &v); err != nil {
		return nil, err
	}
	return nodeFrom(v, false)
}

// UnmarshalJSON reads a chunk-level AST.
func (n *Node) UnmarshalJSON(b []byte) error {
	m, err := FromJSON(b)
	if err != nil {
		return err
	}
	*n = *m
	return nil
}

func list(v any) []any {
	l, _ := v.([]any)
	return l
}

func nodesFrom(v any, expr bool) ([]*Node, error) {
	out := []*Node{}
	for _, x := range list(v) {
		n, err := nodeFrom(x, expr)
		if err != nil {
			return nil, err
		}
		out = append(out, n)
	}
	return out, nil
}

func optionalFrom(v any) (*Node, error) {
	l := list(v)
	if len(l) == 0 {
		return nil, nil
	}
	return nodeFrom(l[0], false)
}

func strsFrom(v any) []string {
	var out []string
	for _, x := range list(v) {
		s, _ := x.(string)
		out = append(out, s)
	}
	return out
}

func lvFrom(v any) (LV, error) {
	m, ok := v.(map[string]any)
	if !ok {
		return LV{}, fmt.Errorf("lvalue is not an object")
	}
	idx, err := nodesFrom(m["idx"], true)
	if err != nil {
		return LV{}, err
	}
	name, _ := m["n"].(string)
	return LV{N: name, Idx: idx, Q: strsFrom(m["q"])}, nil
}

func optsFrom(v any) ([]Opt, error) {
	out := []Opt{}
	for _, x := range list(v) {
		p := list(x)
		if len(p) != 2 {
			return nil, fmt.Errorf("bad option")
		}
		e, err := nodeFrom(p[1], true)
		if err != nil {
			return nil, err
		}
		name, _ := p[0].(string)
		out = append(out, Opt{name, e})
	}
	return out, nil
}

// nodeFrom: expr tells whether the position is an expression position ({t:"var"} is then a
// variable use, else the `var` form).
func nodeFrom(v any, expr bool) (*Node, error) {
	m, ok := v.(map[string]any)
	if !ok {
		return nil, fmt.Errorf("node is not an object: %v", v)
	}
	t, _ := m["t"].(string)
	n := &Node{T: t}
	var err error
	switch t {
	case "chunk":
		n.Ps, err = nodesFrom(m["ps"], false)
	case "pipe":
		n.Fs, err = nodesFrom(m["fs"], false)
	case "cmd":
		if n.Head, err = nodeFrom(m["head"], true); err != nil {
			return nil, err
		}
		if n.Args, err = nodesFrom(m["args"], true); err != nil {
			return nil, err
		}
		n.Opts, err = optsFrom(m["opts"])
	case "name":
		n.Name, _ = m["n"].(string)
		n.Q = strsFrom(m["q"])
	case "use":
		n.Name, _ = m["spec"].(string)
		if as := list(m["as"]); len(as) == 1 {
			n.As, _ = as[0].(string)
		}
	case "bad":
		n.Name, _ = m["kind"].(string)
	case "var":
		if expr {
			n.T = "varx"
			n.Name, _ = m["n"].(string)
			n.Explode, _ = m["explode"].(bool)
			n.Q = strsFrom(m["q"])
			return n, nil
		}
		fallthrough
	case "set", "tmp", "del":
		n.Lhs = []LV{}
		for _, x := range list(m["lhs"]) {
			lv, err := lvFrom(x)
			if err != nil {
				return nil, err
			}
			n.Lhs = append(n.Lhs, lv)
		}
		if r, ok := m["rest"].(float64); ok {
			n.Rest = int(r)
		}
		n.Eq, _ = m["eq"].(bool)
		if t != "del" {
			n.Rhs, err = nodesFrom(m["rhs"], true)
		}
	case "with":
		for _, x := range list(m["assigns"]) {
			am, ok := x.(map[string]any)
			if !ok {
				return nil, fmt.Errorf("bad with assignment")
			}
			a := &Node{T: "set", Lhs: []LV{}}
			for _, l := range list(am["lhs"]) {
				lv, err := lvFrom(l)
				if err != nil {
					return nil, err
				}
				a.Lhs = append(a.Lhs, lv)
			}
			if r, ok := am["rest"].(float64); ok {
				a.Rest = int(r)
			}
			if a.Rhs, err = nodesFrom(am["rhs"], true); err != nil {
				return nil, err
			}
			n.Assigns = append(n.Assigns, a)
		}
		n.Body, err = nodeFrom(m["body"], false)
	case "fn":
		n.Name, _ = m["name"].(string)
		n.Lam, err = nodeFrom(m["lam"], true)
	case "if":
		for _, x := range list(m["arms"]) {
			p := list(x)
			if len(p) != 2 {
				return nil, fmt.Errorf("bad arm")
			}
			c, err := nodeFrom(p[0], true)
			if err != nil {
				return nil, err
			}
			b, err := nodeFrom(p[1], false)
			if err != nil {
				return nil, err
			}
			n.Arms = append(n.Arms, Arm{c, b})
		}
		n.Els, err = optionalFrom(m["els"])
	case "while":
		if n.Cond, err = nodeFrom(m["cond"], true); err != nil {
			return nil, err
		}
		if n.Body, err = nodeFrom(m["body"], false); err != nil {
			return nil, err
		}
		n.Els, err = optionalFrom(m["els"])
	case "for":
		lv, err := lvFrom(m["v"])
		if err != nil {
			return nil, err
		}
		n.V = &lv
		if n.Iter, err = nodeFrom(m["iter"], true); err != nil {
			return nil, err
		}
		if n.Body, err = nodeFrom(m["body"], false); err != nil {
			return nil, err
		}
		if n.Els, err = optionalFrom(m["els"]); err != nil {
			return nil, err
		}
	case "try":
		if n.Body, err = nodeFrom(m["body"], false); err != nil {
			return nil, err
		}
		if cv := list(m["cvar"]); len(cv) == 1 {
			n.CVar, _ = cv[0].(string)
		}
		if n.Catch, err = optionalFrom(m["catch"]); err != nil {
			return nil, err
		}
		if n.Els, err = optionalFrom(m["els"]); err != nil {
			return nil, err
		}
		n.Fin, err = optionalFrom(m["fin"])
	case "and", "or", "coalesce":
		n.Args, err = nodesFrom(m["args"], true)
	case "str":
		n.Str = []byte{}
		for _, x := range list(m["v"]) {
			f, _ := x.(float64)
			n.Str = append(n.Str, byte(f))
		}
	case "list", "cat", "brace":
		n.Es, err = nodesFrom(m["es"], true)
	case "map":
		n.Pairs = [][2]*Node{}
		for _, x := range list(m["ps"]) {
			p := list(x)
			if len(p) != 2 {
				return nil, fmt.Errorf("bad pair")
			}
			k, err := nodeFrom(p[0], true)
			if err != nil {
				return nil, err
			}
			val, err := nodeFrom(p[1], true)
			if err != nil {
				return nil, err
			}
			n.Pairs = append(n.Pairs, [2]*Node{k, val})
		}
	case "idx":
		if n.E, err = nodeFrom(m["e"], true); err != nil {
			return nil, err
		}
		n.Is, err = nodesFrom(m["is"], true)
	case "cap", "xcap":
		n.C, err = nodeFrom(m["c"], false)
	case "lam":
		n.Params = []string{}
		for _, x := range list(m["params"]) {
			s, _ := x.(string)
			n.Params = append(n.Params, s)
		}
		if r, ok := m["rest"].(float64); ok {
			n.Rest = int(r)
		}
		if n.Opts, err = optsFrom(m["opts"]); err != nil {
			return nil, err
		}
		n.Body, err = nodeFrom(m["body"], false)
	default:
		return nil, fmt.Errorf("unknown node kind %q", t)
	}
	if err != nil {
		return nil, err
	}
	return n, nil
}
