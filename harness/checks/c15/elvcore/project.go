package elvcore

import (
	"errors"
	"fmt"
	"math/big"
	"regexp"
	"strings"

	"src.elv.sh/pkg/eval"
	"src.elv.sh/pkg/eval/errs"
	"src.elv.sh/pkg/eval/vals"
	"src.elv.sh/pkg/parse"
)

// J is a JSON object.
type J = map[string]any

const maxInt = 32767

// ProjectValue maps a real Elvish value to the abstract JSON form of ElvCoreValues.tla
// (operator Matches).  Values outside the model get a kind no model value has.
func ProjectValue(v any) any {
	switch v := v.(type) {
	case nil:
		return J{"k": "nil"}
	case bool:
		return J{"k": "bool", "b": v}
	case string:
		return J{"k": "str", "s": bytesJSON([]byte(v))}
	case int:
		if v >= -maxInt && v <= maxInt {
			return J{"k": "num", "n": v}
		}
		return J{"k": "num-big", "text": fmt.Sprint(v)}
	case *big.Int:
		return J{"k": "num-big", "text": v.String()}
	case *big.Rat:
		if v.Num().IsInt64() && v.Denom().IsInt64() {
			n, d := v.Num().Int64(), v.Denom().Int64()
			if n >= -maxInt && n <= maxInt && d >= 2 && d <= maxInt {
				return J{"k": "rat", "n": n, "d": d}
			}
		}
		return J{"k": "num-rat", "text": v.String()}
	case float64:
		return J{"k": "num-float", "text": vals.ToString(v)}
	case vals.List:
		es := []any{}
		for it := v.Iterator(); it.HasElem(); it.Next() {
			es = append(es, ProjectValue(it.Elem()))
		}
		return J{"k": "list", "es": es}
	case vals.Map:
		ps := []any{}
		for it := v.Iterator(); it.HasElem(); it.Next() {
			k, val := it.Elem()
			ps = append(ps, []any{ProjectValue(k), ProjectValue(val)})
		}
		return J{"k": "map", "ps": ps}
	case eval.Exception:
		c, _ := ClassifyReason(v.Reason())
		return J{"k": "exc", "c": c}
	case eval.Callable:
		return J{"k": "fn"}
	case *eval.Ns:
		return J{"k": "ns"}
	default:
		return J{"k": "other:" + vals.Kind(v)}
	}
}

func ProjectValues(vs []any) []any {
	out := make([]any, len(vs))
	for i, v := range vs {
		out[i] = ProjectValue(v)
	}
	return out
}

var (
	reKeysValues  = regexp.MustCompile(`^\d+ keys but \d+ values$`)
	reVarNotFound = regexp.MustCompile(`^variable \$.* not found$`)
)

// messages of errors.New / fmt.Errorf reasons -> cause class
var messageClass = map[string]string{
	"index must be integer":                      "type",
	"not indexable":                              "type",
	"assoc is not supported":                     "type",
	"cannot dissoc":                              "type",
	"function does not accept any options":       "unsupported-option",
	"multi indexing not implemented":             "multi-index",
	"defer must be called from within a closure": "defer-outside",
	"index not at rune boundary":                 "bad-index",
	"replacement must be string":                 "type",
	"assoc with slice not yet supported":         "assoc-slice",
	"both &total and &less-than specified":       "bad-value",
}

// ClassifyReason maps the reason of an exception to its cause class (DESIGN.md Appendix B.2).
// This is the only place where Go error types of /repo are named.  ok = false: unclassifiable
// (a machinery problem: the table must be extended deliberately).
func ClassifyReason(r error) (J, bool) {
	if r == nil {
		return J{"c": "ok"}, true
	}
	switch r := r.(type) {
	case eval.FailError:
		return J{"c": "fail", "v": ProjectValue(r.Content)}, true
	case eval.PipelineError:
		cs := []any{}
		ok := true
		for _, e := range r.Errors {
			c, o := ClassifyReason(e.Reason())
			ok = ok && o
			cs = append(cs, c)
		}
		return J{"c": "pipeline", "cs": cs}, ok
	case errs.ArityMismatch:
		return J{"c": "arity"}, true
	case errs.BadValue:
		return J{"c": "bad-value"}, true
	case errs.OutOfRange:
		return J{"c": "out-of-range"}, true
	case errs.ReaderGone:
		return J{"c": "reader-gone"}, true
	case errs.SetReadOnlyVar:
		return J{"c": "read-only"}, true
	case eval.WrongArgType:
		return J{"c": "type"}, true
	case vals.WrongType:
		return J{"c": "type"}, true
	case eval.UnsupportedOptionsError, eval.UnknownOption:
		return J{"c": "unsupported-option"}, true
	case eval.NoSuchModule:
		return J{"c": "no-such-module"}, true
	}
	if r == eval.Return {
		return J{"c": "flow", "n": "return"}, true
	}
	if r == eval.Break {
		return J{"c": "flow", "n": "break"}, true
	}
	if r == eval.Continue {
		return J{"c": "flow", "n": "continue"}, true
	}
	if errors.Is(r, eval.ErrNoOptAccepted) {
		return J{"c": "unsupported-option"}, true
	}
	// unexported reason types, by type name
	switch fmt.Sprintf("%T", r) {
	case "vals.noSuchKeyError":
		return J{"c": "no-such-key"}, true
	case "vals.cannotConcat", "vals.cannotIterate", "vals.cannotIterateKeysOf", "vals.cannotParseAs":
		return J{"c": "type"}, true
	case "vars.elemErr":
		return J{"c": "type"}, true
	case "eval.noSuchVariableError":
		return J{"c": "no-such-variable"}, true
	}
	msg := r.Error()
	if c, ok := messageClass[msg]; ok {
		return J{"c": c}, true
	}
	if reVarNotFound.MatchString(msg) {
		return J{"c": "no-such-variable"}, true
	}
	if reKeysValues.MatchString(msg) {
		return J{"c": "arity"}, true
	}
	if strings.HasSuffix(msg, "cannot be iterated") {
		return J{"c": "type"}, true
	}
	if strings.Contains(msg, "executable file not found") {
		return J{"c": "external"}, true
	}
	if strings.HasPrefix(msg, "cannot get length of") {
		return J{"c": "type"}, true
	}
	if strings.HasPrefix(msg, "tilde doesn't work") {
		return J{"c": "type"}, true
	}
	return J{"c": "unclassified", "text": fmt.Sprintf("%T: %s", r, msg)}, false
}

// ErrKind classifies the error returned by Evaler.Eval: "", "parse", "compile", "exception", "other".
func ErrKind(err error) string {
	if err == nil {
		return ""
	}
	if parse.UnpackErrors(err) != nil {
		return "parse"
	}
	if eval.UnpackCompilationErrors(err) != nil {
		return "compile"
	}
	var exc eval.Exception
	if errors.As(err, &exc) {
		return "exception"
	}
	return "other"
}

// ClassifyErr maps the error of an Eval call that ran (no parse / compilation error) to a cause.
func ClassifyErr(err error) (J, bool) {
	if err == nil {
		return J{"c": "ok"}, true
	}
	var exc eval.Exception
	if errors.As(err, &exc) {
		return ClassifyReason(exc.Reason())
	}
	return J{"c": "unclassified", "text": err.Error()}, false
}
