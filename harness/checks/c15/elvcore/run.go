package elvcore

import (
	"fmt"
	"strings"
	"time"

	"src.elv.sh/pkg/eval"
	"verif.local/harness/elv"
)

// Event is one line of a recorded trace (TraceElvCore / TraceStatic).
type Event struct {
	Ev  string `json:"ev"` // "reset" | "chunk" | "static"
	Ast *Node  `json:"ast"`
	Out []any  `json:"out"`
	Byt []int  `json:"bytes"` // bytes written to the byte band
	Exc J      `json:"exc"`
	Src string `json:"src"` // rendered source (ignored by the specification)
	// reset events: the in-memory modules of the program, [[name, chunk AST], ...]
	Mods [][2]any `json:"mods"`

	// static events (C16)
	Kinds      []string `json:"kinds,omitempty"`
	Cls        string   `json:"cls,omitempty"`
	NOut       int      `json:"nout"`
	NBytes     int      `json:"nbytes"`
	Check      string   `json:"check,omitempty"`
	CheckAfter string   `json:"checkAfter,omitempty"`
	Names      bool     `json:"names"`
}

// Module is an in-memory module available to `use` (Evaler.BundledModules).
type Module struct {
	Name string
	Ast  *Node
}

func ResetEvent(mods ...Module) Event {
	e := Event{Ev: "reset", Ast: Chunk(), Out: []any{}, Byt: []int{}, Exc: J{"c": "ok"}, Mods: [][2]any{}}
	for _, m := range mods {
		e.Mods = append(e.Mods, [2]any{m.Name, m.Ast})
	}
	return e
}

// NewEvaler returns a fresh Evaler with the modules installed as bundled modules (their source
// is the rendering of the AST, checked like every chunk).
func NewEvaler(mods []Module) (*eval.Evaler, error) {
	ev := elv.New()
	for _, m := range mods {
		src, err := CheckRender(m.Ast)
		if err != nil {
			return nil, fmt.Errorf("renderer defect (module %s): %v", m.Name, err)
		}
		ev.BundledModules[m.Name] = src
	}
	return ev, nil
}

// RunChunk renders a valid chunk (checking the rendering by re-parsing), evaluates it on ev with
// capture ports and records what the real code did.  Every error is a machinery problem.
func RunChunk(ev *eval.Evaler, ch *Node) (Event, error) {
	src, err := CheckRender(ch)
	if err != nil {
		return Event{}, fmt.Errorf("renderer defect: %v", err)
	}
	o := elv.RunCtx(ev, src, nil, 180*time.Second) // generous: only turns a hang into exit 2
	if o.Timeout {
		return Event{}, fmt.Errorf("evaluation of a bounded program did not finish: %s", src)
	}
	if o.Panic != "" {
		// the real code crashed where the reference semantics prescribes an outcome: recorded as
		// the cause "panic", which no model cause matches
		first := o.Panic
		if i := strings.IndexByte(first, '\n'); i > 0 {
			first = first[:i]
		}
		return Event{Ev: "chunk", Ast: ch, Out: ProjectValues(o.Values), Byt: bytesJSON(o.Bytes), Exc: J{"c": "panic", "text": first}, Src: src, Mods: [][2]any{}}, nil
	}
	switch ErrKind(o.Err) {
	case "parse", "compile", "other":
		return Event{}, fmt.Errorf("generated chunk has a static error (generator defect): %v\n%s", o.Err, src)
	}
	cause, ok := ClassifyErr(o.Err)
	if !ok {
		return Event{}, fmt.Errorf("unclassifiable exception %v from: %s", cause["text"], src)
	}
	return Event{Ev: "chunk", Ast: ch, Out: ProjectValues(o.Values), Byt: bytesJSON(o.Bytes), Exc: cause, Src: src, Mods: [][2]any{}}, nil
}

// RunProgram runs the chunks of one program on a fresh Evaler.
func RunProgram(chunks []*Node, mods ...Module) ([]Event, error) {
	ev, err := NewEvaler(mods)
	if err != nil {
		return nil, err
	}
	evs := []Event{ResetEvent(mods...)}
	for _, ch := range chunks {
		e, err := RunChunk(ev, ch)
		if err != nil {
			return nil, err
		}
		evs = append(evs, e)
		if e.Exc["c"] == "panic" {
			break // the interpreter may be in an inconsistent state
		}
	}
	return evs, nil
}

// CoreFeatures: the feature set covered by spec and generator.
var CoreFeatures = Features{Control: true, Fn: true, Exc: true, Logic: true, XCap: true, RestOpts: true, Pipes: true, More: true, Del: true, Cleanup: true, Bytes: true, Use: true, ErrRate: 1}
