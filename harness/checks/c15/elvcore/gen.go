package elvcore

import (
	"fmt"
	"math/rand"
)

// Kind is the generator's static approximation of the kind of value an expression yields.
type Kind int

const (
	KAny  Kind = iota
	KNum       // typed number
	KNStr      // string in canonical decimal form
	KStr       // string (usually a word)
	KList      // list (elements of Elem kind)
	KMap       // map with word keys
	KBool
	KNil
	KFn
	KExc
	KNs
	KUnord // values in an unspecified order (keys of a map)
)

type varInfo struct {
	kind Kind
	elem Kind // element kind for lists / value kind for maps
	keys []string
	n    int // known length for lists (approximation, -1 unknown)
	fn   *fnInfo
	mod  string // KNs: the module
}

type fnInfo struct {
	params int
	rest   bool
	opts   []string
	named  bool // defined with fn (captures return)
}

type scope struct {
	vars  map[string]*varInfo
	order []string
	fnLvl bool     // scope of a function body (not a control-flow block)
	undo  []func() // what `tmp` changed in outer scopes: undone when the scope (frame) ends
}

// Features toggles the constructs the generator may use; they enter together with the
// corresponding part of ElvCore.tla.
type Features struct {
	Control  bool // if / while / for
	Fn       bool // fn, lambdas, closures, return
	Exc      bool // fail, try, break/continue
	Logic    bool // and / or / coalesce
	RestOpts bool // rest and optional arguments, options
	XCap     bool // ?( )
	Pipes    bool // pipelines of value-stream builtins
	More     bool // further builtins of Appendix B.4
	Del      bool // del of variables and map elements
	Cleanup  bool // tmp, with, defer
	Bytes    bool // echo / print, captured as lines
	Use      bool // use of in-memory modules, qualified names
	ErrRate  int  // percent of deliberately ill-kinded expressions
}

func (f Features) Names() []string {
	out := []string{"values", "put", "var", "set", "list", "map", "indexing", "arith", "compare", "compound", "braced", "output-capture", "element-assign"}
	add := func(b bool, n ...string) {
		if b {
			out = append(out, n...)
		}
	}
	add(f.Control, "if", "while", "for")
	add(f.Fn, "fn", "lambda", "closure", "return")
	add(f.Exc, "fail", "try", "break", "continue")
	add(f.Logic, "and", "or", "coalesce")
	add(f.RestOpts, "rest-args", "options")
	add(f.XCap, "exception-capture")
	add(f.Pipes, "pipelines")
	add(f.More, "more-builtins", "exception-fields", "interaction-patterns")
	add(f.Del, "del")
	add(f.Cleanup, "tmp", "with", "defer")
	add(f.Bytes, "byte-output")
	add(f.Use, "use", "qualified-names")
	add(f.More, "keys", "order-less-than", "str-module", "rationals")
	return out
}

// Gen is a seeded, fuel-bounded, type-directed program generator (profile Core).
type Gen struct {
	R         *rand.Rand
	F         Features
	scopes    []*scope
	fuel      int
	uniq      int
	inLoop    int
	inFn      int
	inNamedFn int
	pure      int // > 0: inside a lambda that must not assign outer variables
	inTry     int
	loopVar   map[string]bool
	dead      map[string]bool
	Mods      []Module          // the in-memory modules of the current program
	modInfo   map[string]*scope // module name -> its top-level scope (exports)
}

func NewGen(seed int64, f Features) *Gen {
	return &Gen{R: rand.New(rand.NewSource(seed)), F: f}
}

var varNames = []string{"a", "b", "c", "d", "x", "y", "z", "p", "q"}
var words = []string{"foo", "bar", "lorem", "k", "v", "ab", "xyz", "w-1", "Q", "hello world", "a=b", "it's", "", "né"}
var keyWords = []string{"k", "j", "key", "m"}

func (g *Gen) push(fnLvl bool) {
	g.scopes = append(g.scopes, &scope{vars: map[string]*varInfo{}, fnLvl: fnLvl})
}
func (g *Gen) pop()        { g.scopes = g.scopes[:len(g.scopes)-1] }
func (g *Gen) top() *scope { return g.scopes[len(g.scopes)-1] }

func (g *Gen) declare(name string, vi *varInfo) {
	s := g.top()
	if _, ok := s.vars[name]; !ok {
		s.order = append(s.order, name)
	}
	s.vars[name] = vi
}

func (g *Gen) lookup(name string) *varInfo {
	for i := len(g.scopes) - 1; i >= 0; i-- {
		if vi, ok := g.scopes[i].vars[name]; ok && vi != nil {
			return vi
		}
	}
	return nil
}

// deleted: after `del n` the name must not be used until it is declared again: an outer variable
// of the same name would become visible, which the model (one flat environment) does not track.
func (g *Gen) deleted(n string) {
	for i := range g.scopes {
		if _, ok := g.scopes[i].vars[n]; ok {
			g.scopes[i].vars[n] = nil
		}
	}
}

// visible variables (innermost binding of each name), in a deterministic order
func (g *Gen) visible() []string {
	seen := map[string]bool{}
	var out []string
	for i := len(g.scopes) - 1; i >= 0; i-- {
		for _, n := range g.scopes[i].order {
			if !seen[n] {
				seen[n] = true
				if g.scopes[i].vars[n] != nil {
					out = append(out, n)
				}
			}
		}
	}
	return out
}

func (g *Gen) varsOfKind(k Kind) []string {
	var out []string
	for _, n := range g.visible() {
		vi := g.lookup(n)
		if vi.kind == k && vi.kind != KFn {
			out = append(out, n)
		}
	}
	return out
}

func (g *Gen) pick(ss []string) string { return ss[g.R.Intn(len(ss))] }
func (g *Gen) chance(pct int) bool     { return g.R.Intn(100) < pct }
func (g *Gen) spend() bool {
	g.fuel--
	return g.fuel > 0
}

func (g *Gen) smallInt() int {
	switch g.R.Intn(10) {
	case 0:
		return -g.R.Intn(10)
	case 1:
		return 10 + g.R.Intn(90)
	default:
		return g.R.Intn(10)
	}
}

func (g *Gen) numLit() *Node { return Str(fmt.Sprint(g.smallInt())) }

func (g *Gen) wrongKind(k Kind) Kind {
	for {
		o := []Kind{KNum, KStr, KList, KMap, KBool, KNil}[g.R.Intn(6)]
		if o != k {
			return o
		}
	}
}

// Expr yields an expression evaluating to exactly one value of kind k (ErrRate percent of the
// time, deliberately, of another kind).
func (g *Gen) Expr(k Kind, depth int) *Node {
	rate := g.F.ErrRate
	if g.inTry > 0 {
		rate *= 8 // inside try bodies exceptions are welcome: they exercise catch / else / finally
	}
	if rate > 0 && k != KAny && g.chance(rate) {
		k = g.wrongKind(k)
	}
	return g.expr(k, depth)
}

func (g *Gen) expr(k Kind, depth int) *Node {
	leaf := depth <= 0 || !g.spend()
	switch k {
	case KAny:
		return g.expr([]Kind{KNum, KNStr, KStr, KList, KMap, KBool, KNil, KStr, KNum}[g.R.Intn(9)], depth)
	case KNil:
		return Var("nil")
	case KExc:
		if vs := g.varsOfKind(KExc); len(vs) > 0 && g.chance(50) {
			return Var(g.pick(vs))
		}
		if g.F.XCap {
			return XCap(g.capStmt(depth - 1))
		}
		return Var("ok")
	case KBool:
		if vs := g.varsOfKind(KBool); len(vs) > 0 && g.chance(30) {
			return Var(g.pick(vs))
		}
		if leaf || g.chance(30) {
			return Var([]string{"true", "false"}[g.R.Intn(2)])
		}
		if g.F.More && g.chance(20) {
			if ms := g.varsOfKind(KMap); len(ms) > 0 && g.chance(50) {
				return CapCmd("has-key", Var(g.pick(ms)), Str(g.pick(keyWords)))
			}
			if ls := g.varsOfKind(KList); len(ls) > 0 {
				l := g.pick(ls)
				return CapCmd(g.pick([]string{"has-value", "has-key"}), Var(l), g.Expr(KNStr, depth-1))
			}
			return CapCmd("bool", g.Expr(KAny, depth-1))
		}
		switch g.R.Intn(4) {
		case 0:
			return CapCmd(g.pick([]string{"==", "<", "<=", ">", ">=", "!="}), g.numeric(depth-1), g.numeric(depth-1))
		case 1:
			return CapCmd("eq", g.Expr(KAny, depth-1), g.Expr(KAny, depth-1))
		case 2:
			return CapCmd("not", g.Expr(KBool, depth-1))
		default:
			return CapCmd("not-eq", g.Expr(KStr, depth-1), g.Expr(KStr, depth-1))
		}
	case KNum:
		if vs := g.varsOfKind(KNum); len(vs) > 0 && g.chance(40) {
			return Var(g.pick(vs))
		}
		if leaf {
			return CapCmd("num", g.numLit())
		}
		switch g.R.Intn(6) {
		case 0, 1:
			n := 2 + g.R.Intn(2)
			args := make([]*Node, n)
			for i := range args {
				args[i] = g.numeric(depth - 1)
			}
			return CapCmd(g.pick([]string{"+", "-", "*", "+"}), args...)
		case 2:
			return CapCmd("-", g.numeric(depth-1))
		case 3:
			if vs := g.varsOfKind(KList); len(vs) > 0 {
				return CapCmd("count", Var(g.pick(vs)))
			}
			return CapCmd("count", g.expr(KList, depth-1))
		case 4:
			if e := g.elemOf(KNum, depth); e != nil {
				return e
			}
			return CapCmd("num", g.numLit())
		default:
			if g.F.More && g.chance(30) {
				d := 1 + g.R.Intn(4)
				if g.chance(50) {
					return CapCmd("/", g.numeric(depth-1), Str(fmt.Sprint(d+1))) // often a rational
				}
				return CapCmd("/", Str(fmt.Sprint(d*g.R.Intn(6))), Str(fmt.Sprint(d)))
			}
			return CapCmd("+", g.numeric(depth-1), g.numLit())
		}
	case KNStr:
		if vs := g.varsOfKind(KNStr); len(vs) > 0 && g.chance(40) {
			return Var(g.pick(vs))
		}
		return g.numLit()
	case KStr:
		if vs := g.varsOfKind(KStr); len(vs) > 0 && g.chance(35) {
			return Var(g.pick(vs))
		}
		if leaf || g.chance(40) {
			return Str(g.pick(words))
		}
		if g.F.More && g.chance(15) {
			if g.chance(50) {
				return CapCmd("kind-of", g.Expr(KAny, depth-1))
			}
			return CapCmd("to-string", g.numeric(depth-1))
		}
		switch g.R.Intn(4) {
		case 0, 1:
			return g.catExpr(depth)
		case 2:
			if e := g.elemOf(KStr, depth); e != nil {
				return e
			}
			return Str(g.pick(words))
		default:
			// character of a string
			s := g.pick([]string{"lorem", "abc", "xy"})
			return Idx(Str(s), Str(fmt.Sprint(g.R.Intn(len(s)+1)-1)))
		}
	case KList:
		if vs := g.varsOfKind(KList); len(vs) > 0 && g.chance(35) {
			return Var(g.pick(vs))
		}
		if !leaf && g.chance(20) {
			// slice of a list
			l := g.expr(KList, depth-1)
			return Idx(l, Str(g.sliceText()))
		}
		if !leaf && g.F.More && g.chance(15) {
			// conj only on a list literal: `conj $nil x` crashes the interpreter (C17's subject)
			return CapCmd("conj", List(g.Expr(KNStr, depth-1)), g.Expr(KNStr, depth-1))
		}
		n := g.R.Intn(4)
		if leaf && n > 2 {
			n = 2
		}
		ek := []Kind{KNStr, KStr, KNum, KAny}[g.R.Intn(4)]
		es := make([]*Node, 0, n)
		for i := 0; i < n; i++ {
			es = append(es, g.multi(ek, depth-1))
		}
		return List(es...)
	case KMap:
		if vs := g.varsOfKind(KMap); len(vs) > 0 && g.chance(35) {
			return Var(g.pick(vs))
		}
		if !leaf && g.F.More && g.chance(20) {
			if g.chance(50) {
				return CapCmd("assoc", g.expr(KMap, depth-1), Str(g.pick(keyWords)), g.Expr(KNStr, depth-1))
			}
			return CapCmd("dissoc", g.expr(KMap, depth-1), Str(g.pick(keyWords)))
		}
		n := g.R.Intn(3)
		var ps [][2]*Node
		for i := 0; i < n; i++ {
			ps = append(ps, [2]*Node{Str(g.pick(keyWords)), g.Expr([]Kind{KNStr, KStr, KNum, KList}[g.R.Intn(4)], depth-1)})
		}
		return Map(ps...)
	}
	return Str("x")
}

// numeric: something usable as a number (typed number or number-like string)
func (g *Gen) numeric(depth int) *Node {
	if g.chance(50) {
		return g.Expr(KNStr, depth)
	}
	return g.Expr(KNum, depth)
}

// multi: an expression for a position that accepts any number of values
func (g *Gen) multi(k Kind, depth int) *Node {
	if depth > 0 && k == KAny {
		switch {
		case g.F.Fn && g.chance(8):
			if f := g.call(depth - 1); f != nil {
				return Cap(Stmt(f)) // whatever the function outputs
			}
		case g.F.Pipes && g.pure == 0 && g.chance(6):
			return Cap(g.pipeline(depth - 1))
		case g.F.XCap && g.chance(6):
			return XCap(g.capStmt(depth - 1))
		case g.F.Bytes && g.chance(5):
			return Cap(Stmt(g.echoForm(depth - 1))) // the lines, as strings
		case g.F.Logic && g.chance(5):
			return Cap(Stmt(g.logicForm(depth - 1)))
		case g.F.Fn && g.chance(3):
			lam, _ := g.lambda(depth-1, false)
			return lam
		}
	}
	if depth > 0 && g.chance(12) {
		// braced list or exploded list
		switch g.R.Intn(3) {
		case 0:
			n := 1 + g.R.Intn(3) // `{}` is not an empty braced list: it holds one empty string
			es := make([]*Node, n)
			for i := range es {
				es[i] = g.Expr(k, depth-1)
			}
			return Brace(es...)
		case 1:
			if vs := g.varsOfKind(KList); len(vs) > 0 {
				return VarAt(g.pick(vs))
			}
		default:
			return Cap(Stmt(Cmd("put", g.Expr(k, depth-1), g.Expr(k, depth-1))))
		}
	}
	return g.Expr(k, depth)
}

func (g *Gen) sliceText() string {
	b := func() string {
		if g.chance(25) {
			return ""
		}
		return fmt.Sprint(g.R.Intn(5) - 1)
	}
	sep := ".."
	if g.chance(30) {
		sep = "..="
	}
	return b() + sep + b()
}

// element of a list variable / literal with elements of kind k
func (g *Gen) elemOf(k Kind, depth int) *Node {
	var cands []string
	for _, n := range g.varsOfKind(KList) {
		if vi := g.lookup(n); vi.elem == k || vi.elem == KAny {
			cands = append(cands, n)
		}
	}
	if len(cands) == 0 {
		return nil
	}
	n := g.pick(cands)
	vi := g.lookup(n)
	hi := 3
	if vi.n >= 0 {
		hi = vi.n + 1
	}
	i := g.R.Intn(hi+1) - 1 // -1 .. hi-1; occasionally out of range
	if vi.n < 0 {
		i = g.R.Intn(2) - 1
	}
	if vi.n > 0 && g.chance(95) {
		i = g.R.Intn(vi.n)
		if g.chance(20) {
			i = -1 - g.R.Intn(vi.n)
		}
	}
	var ix *Node = Str(fmt.Sprint(i))
	if g.chance(20) {
		ix = CapCmd("num", Str(fmt.Sprint(i)))
	}
	return Idx(Var(n), ix)
}

// compound expression: parts that can legally be adjacent in source text
func (g *Gen) catExpr(depth int) *Node {
	n := 2 + g.R.Intn(2)
	var es []*Node
	prev := ""
	for i := 0; i < n; i++ {
		var e *Node
		for tries := 0; tries < 8; tries++ {
			switch g.R.Intn(5) {
			case 0:
				e = Str(g.pick(words))
			case 1:
				vs := append(g.varsOfKind(KStr), g.varsOfKind(KNStr)...)
				vs = append(vs, g.varsOfKind(KNum)...)
				if len(vs) == 0 {
					continue
				}
				e = Var(g.pick(vs))
			case 2:
				e = g.Expr(KNum, depth-1)
			case 3:
				m := 1 + g.R.Intn(2)
				bs := make([]*Node, m)
				for j := range bs {
					bs[j] = g.Expr(KStr, depth-2)
				}
				e = Brace(bs...)
			default:
				e = g.numLit()
			}
			if e != nil && e.T != "str" && !adjacentOK(prev, e) {
				e = Brace(e)
			}
			if e != nil && adjacentOK(prev, e) {
				break
			}
			e = nil
		}
		if e == nil {
			e = Brace(Str(g.pick(words)))
		}
		es = append(es, e)
		prev = e.T
	}
	return Cat(es...)
}

// adjacentOK: can e follow a part of kind prev in a compound without changing how the text parses?
func adjacentOK(prev string, e *Node) bool {
	switch e.T {
	case "str":
		return true // the renderer alternates the quoting style
	case "varx", "cap", "xcap", "brace":
		return true
	}
	return false // lists, maps, indexings...: the caller wraps them in a braced list
}

// ---- statements

func kindOfExprList(k Kind) *varInfo { return &varInfo{kind: k, elem: KAny, n: -1} }

// freshName: a name of the pool that was never deleted (after `del x` an outer variable x would
// become visible again, which the flat environments of the model do not track)
func (g *Gen) freshName() string {
	for {
		if n := g.pick(varNames); !g.dead[n] {
			return n
		}
	}
}

// capStmt: a statement for the inside of a capture: no declarations there (profile, see the
// scoping note of ElvCore.tla)
func (g *Gen) capStmt(depth int) *Node {
	switch g.R.Intn(5) {
	case 0:
		if g.F.Exc {
			return g.failStmt(depth)
		}
	case 1:
		if g.F.Fn {
			if s := g.callStmt(depth); s != nil {
				return s
			}
		}
	case 2:
		if g.F.Logic {
			return g.logicStmt(depth)
		}
	case 3:
		if g.F.Exc {
			return g.thrower(depth)
		}
	}
	return g.putStmt(depth)
}

// Stmt yields one statement, as one or (for a loop with its counter) two pipelines.
func (g *Gen) Stmt(depth int) []*Node {
	g.spend()
	if g.pure > 0 {
		return []*Node{g.putStmt(depth)}
	}
	type alt struct {
		w int
		f func() []*Node
	}
	one := func(f func() *Node) func() []*Node {
		return func() []*Node {
			if n := f(); n != nil {
				return []*Node{n}
			}
			return nil
		}
	}
	alts := []alt{
		{30, one(func() *Node { return g.putStmt(depth) })},
		{20, one(func() *Node { return g.varStmt(depth) })},
		{14, one(func() *Node { return g.setStmt(depth) })},
	}
	if g.F.Control && depth > 0 {
		alts = append(alts, alt{8, one(func() *Node { return g.ifStmt(depth) })},
			alt{7, one(func() *Node { return g.forStmt(depth) })},
			alt{4, func() []*Node { return g.whileStmt(depth) }})
	}
	if g.F.Fn {
		if depth > 0 {
			alts = append(alts, alt{7, one(func() *Node { return g.fnStmt(depth) })},
				alt{4, one(func() *Node { return g.lambdaVarStmt(depth) })},
				alt{2, one(func() *Node { return g.blockCallStmt(depth) })})
		}
		alts = append(alts, alt{10, one(func() *Node { return g.callStmt(depth) })})
		if g.inNamedFn > 0 {
			alts = append(alts, alt{3, one(func() *Node { return Stmt(Cmd("return")) })})
		}
	}
	if g.F.Exc {
		if g.inTry > 0 || g.inFn > 0 {
			alts = append(alts, alt{3, one(func() *Node { return g.failStmt(depth) })})
		} else {
			alts = append(alts, alt{1, one(func() *Node { return g.failStmt(depth) })})
		}
		if depth > 0 {
			alts = append(alts, alt{8, one(func() *Node { return g.tryStmt(depth) })})
		}
		if g.inLoop > 0 {
			alts = append(alts, alt{5, one(func() *Node { return Stmt(Cmd(g.pick([]string{"break", "continue"}))) })})
		} else if g.chance(3) {
			alts = append(alts, alt{1, one(func() *Node { return Stmt(Cmd(g.pick([]string{"break", "continue", "return"}))) })})
		}
	}
	if g.F.Logic {
		alts = append(alts, alt{5, one(func() *Node { return g.logicStmt(depth) })})
	}
	if g.F.Pipes && depth > 0 {
		alts = append(alts, alt{10, one(func() *Node { return g.pipeStmt(depth) })})
	}
	if g.F.Del {
		alts = append(alts, alt{3, one(func() *Node { return g.delStmt(depth) })})
	}
	if g.F.Bytes {
		alts = append(alts, alt{6, one(func() *Node { return g.echoStmt(depth) })})
	}
	if g.F.More {
		alts = append(alts, alt{4, func() []*Node { return g.strStmt(depth) }})
	}
	if g.F.Use && len(g.Mods) > 0 {
		alts = append(alts, alt{7, func() []*Node {
			out := []*Node{g.useStmt(depth)}
			for i := g.R.Intn(3); i > 0; i-- {
				out = append(out, g.useStmt(depth))
			}
			return out
		}})
	}
	if g.F.Cleanup {
		alts = append(alts, alt{5, one(func() *Node { return g.tmpStmt(depth) })},
			alt{4, one(func() *Node { return g.deferStmt(depth) })})
		if depth > 0 {
			alts = append(alts, alt{4, one(func() *Node { return g.withStmt(depth) })})
		}
	}
	if g.F.Fn && g.F.More && depth > 0 {
		alts = append(alts, alt{6, func() []*Node { return g.patternStmt(depth) }})
	}
	total := 0
	for _, a := range alts {
		total += a.w
	}
	r := g.R.Intn(total)
	for _, a := range alts {
		if r < a.w {
			if s := a.f(); s != nil {
				return s
			}
			break
		}
		r -= a.w
	}
	return []*Node{g.putStmt(depth)}
}

func (g *Gen) putStmt(depth int) *Node {
	n := 1 + g.R.Intn(3)
	args := make([]*Node, n)
	for i := range args {
		args[i] = g.multi(KAny, depth)
	}
	return Stmt(Cmd("put", args...))
}

func (g *Gen) infoFor(k Kind, e *Node) *varInfo {
	vi := &varInfo{kind: k, elem: KAny, n: -1}
	if k == KList && e.T == "list" {
		vi.n = len(e.Es)
		for _, x := range e.Es {
			if x.T == "brace" || x.T == "cap" || (x.T == "varx" && x.Explode) {
				vi.n = -1
			}
		}
	}
	return vi
}

func (g *Gen) varStmt(depth int) *Node {
	switch g.R.Intn(10) {
	case 0: // declaration without value
		n := g.freshName()
		g.declare(n, &varInfo{kind: KNil})
		return Stmt(VarBare(n))
	case 1: // several variables
		n1, n2 := g.freshName(), g.freshName()
		k1, k2 := g.valueKind(), g.valueKind()
		e1, e2 := g.Expr(k1, depth), g.Expr(k2, depth)
		rhs := []*Node{e1, e2}
		if g.F.ErrRate > 0 && g.chance(g.F.ErrRate) {
			rhs = rhs[:1] // arity mismatch
		}
		st := Stmt(VarDecl([]string{n1, n2}, 0, rhs...))
		g.declare(n1, g.infoFor(k1, e1))
		g.declare(n2, g.infoFor(k2, e2)) // same name twice: the later one wins
		if len(rhs) == 1 {
			g.declare(n1, &varInfo{kind: KNil})
			g.declare(n2, &varInfo{kind: KNil})
		}
		return st
	case 2: // rest variable
		n1, n2 := g.freshName(), g.freshName()
		if n1 == n2 {
			n2 = n1 + "s"
		}
		m := g.R.Intn(4)
		rhs := make([]*Node, m)
		for i := range rhs {
			rhs[i] = g.Expr(KNStr, depth)
		}
		pos := 1 + g.R.Intn(2)
		names := []string{n1, n2}
		st := Stmt(VarDecl(names, pos, rhs...))
		for i, n := range names {
			if i+1 == pos {
				g.declare(n, &varInfo{kind: KList, elem: KNStr, n: max(m-1, 0)})
			} else {
				g.declare(n, &varInfo{kind: KNStr})
			}
		}
		if m == 0 {
			for _, n := range names {
				g.declare(n, &varInfo{kind: KNil})
			}
		}
		return st
	default:
		n := g.freshName()
		k := g.valueKind()
		e := g.Expr(k, depth)
		st := Stmt(VarDecl([]string{n}, 0, e))
		g.declare(n, g.infoFor(k, e))
		return st
	}
}

func (g *Gen) valueKind() Kind {
	return []Kind{KNum, KNStr, KStr, KList, KMap, KBool, KNum, KList}[g.R.Intn(8)]
}

func (g *Gen) setStmt(depth int) *Node {
	vis := g.visible()
	var cands []string
	for _, n := range vis {
		if vi := g.lookup(n); vi.kind != KFn && vi.kind != KNs && !g.loopVar[n] {
			cands = append(cands, n)
		}
	}
	if len(cands) == 0 {
		return nil
	}
	n := g.pick(cands)
	vi := g.lookup(n)
	switch {
	case vi.kind == KList && vi.n != 0 && g.chance(50):
		// element assignment
		hi := 2
		if vi.n > 0 {
			hi = vi.n
		}
		i := g.R.Intn(hi)
		if g.chance(10) {
			i = hi + 1
		}
		return Stmt(Set([]LV{{N: n, Idx: []*Node{Str(fmt.Sprint(i))}}}, 0, g.Expr(vi.elem, depth)))
	case vi.kind == KMap && g.chance(60):
		return Stmt(Set([]LV{{N: n, Idx: []*Node{Str(g.pick(keyWords))}}}, 0, g.Expr(KNStr, depth)))
	case g.chance(15) && len(cands) >= 2:
		// swap two variables
		m := g.pick(cands)
		if m != n {
			vj := g.lookup(m)
			st := Stmt(Set([]LV{{N: n}, {N: m}}, 0, Var(m), Var(n)))
			*vi, *vj = *vj, *vi
			return st
		}
	}
	k := vi.kind
	if k == KNil || k == KAny || g.chance(15) {
		k = g.valueKind()
	}
	e := g.Expr(k, depth)
	ni := g.infoFor(k, e)
	if len(g.scopes) > 0 && g.lookupScope(n) != g.top() {
		// assignment from an inner block: the kind is only known if it is unchanged
		if ni.kind != vi.kind {
			ni = &varInfo{kind: KAny, elem: KAny, n: -1}
		} else {
			ni.n = -1
		}
	}
	*vi = *ni
	return Stmt(Set([]LV{{N: n}}, 0, e))
}

// echoStmt: bytes on the byte band: echo / print of strings and numbers
func (g *Gen) echoForm(depth int) *Node {
	n := g.R.Intn(3)
	args := make([]*Node, n)
	for i := range args {
		switch g.R.Intn(4) {
		case 0:
			args[i] = g.Expr(KNum, depth-1)
		case 1:
			args[i] = Str(g.pick([]string{"line1\nline2", "cr\r", "trail\n", "", "x y"}))
		default:
			args[i] = g.Expr(KStr, depth-1)
		}
	}
	f := Cmd(g.pick([]string{"echo", "echo", "print"}), args...)
	if g.chance(20) {
		f.Opts = []Opt{{"sep", Str(g.pick([]string{",", "", "\n"}))}}
	}
	return f
}

func (g *Gen) echoStmt(depth int) *Node {
	f := g.echoForm(depth)
	if g.F.Pipes && g.chance(30) {
		// the lines are the value inputs of the next command
		return Pipe(f, g.consumer(depth, KStr))
	}
	return Stmt(f)
}

// delStmt: delete a variable of the current scope, or an element of a map variable
func (g *Gen) delStmt(depth int) *Node {
	if ms := g.varsOfKind(KMap); len(ms) > 0 && g.chance(50) {
		m := g.pick(ms)
		if !g.loopVar[m] {
			return Stmt(&Node{T: "del", Lhs: []LV{{N: m, Idx: []*Node{Str(g.pick(keyWords))}}}})
		}
	}
	var cands []string
	inPool := map[string]bool{}
	for _, n := range varNames {
		inPool[n] = true
	}
	ndead := len(g.dead)
	for _, n := range g.top().order {
		if vi := g.top().vars[n]; vi != nil && vi.kind != KFn && !g.loopVar[n] && g.lookup(n) == vi && inPool[n] {
			cands = append(cands, n)
		}
	}
	if len(cands) == 0 || ndead >= 3 {
		return nil
	}
	n := g.pick(cands)
	g.dead[n] = true
	g.top().vars[n] = nil // the name is gone (an outer variable of that name stays hidden: see lookup)
	g.deleted(n)
	return Stmt(&Node{T: "del", Lhs: []LV{{N: n}}})
}

func (g *Gen) lookupScope(name string) *scope {
	for i := len(g.scopes) - 1; i >= 0; i-- {
		if _, ok := g.scopes[i].vars[name]; ok {
			return g.scopes[i]
		}
	}
	return nil
}

// Block yields a chunk of n statements evaluated in a new scope (a control-flow body).
func (g *Gen) Block(n, depth int) *Node {
	g.push(false)
	defer g.pop()
	return g.stmts(n, depth)
}

func (g *Gen) stmts(n, depth int) *Node {
	c := Chunk()
	for i := 0; i < n; i++ {
		c.Ps = append(c.Ps, g.Stmt(depth)...)
	}
	return c
}

// Program yields the chunks of one program (evaluated one after the other by one Evaler).
func (g *Gen) Program(chunks, stmtsPer, depth, fuel int) []*Node {
	g.fuel = fuel
	g.fuel = fuel
	g.scopes = nil
	g.loopVar = map[string]bool{}
	g.dead = map[string]bool{}
	g.Mods, g.modInfo = nil, map[string]*scope{}
	if g.F.Use && g.chance(45) {
		for _, name := range []string{"ma", "mb"}[:1+g.R.Intn(2)] {
			g.module(name, depth)
		}
	}
	g.push(true)
	out := make([]*Node, 0, chunks)
	for c := 0; c < chunks; c++ {
		n := 1 + g.R.Intn(stmtsPer)
		out = append(out, g.stmts(n, depth))
	}
	return out
}
