package elvcore

// ---- feature group 10: tmp, with, defer (call frames with cleanup thunks)

func (g *Gen) inFrame() bool { return len(g.scopes) > 1 }

// assignable variables (not functions, not loop counters)
func (g *Gen) assignable() []string {
	var out []string
	for _, n := range g.visible() {
		if vi := g.lookup(n); vi.kind != KFn && vi.kind != KNs && !g.loopVar[n] {
			out = append(out, n)
		}
	}
	return out
}

// tmpStmt: `tmp x = e` / `tmp l[i] = e`; the old value comes back when the current frame ends
func (g *Gen) tmpStmt(depth int) *Node {
	if !g.inFrame() {
		return nil
	}
	cands := g.assignable()
	if len(cands) == 0 {
		return nil
	}
	n := g.pick(cands)
	vi := g.lookup(n)
	if g.lookupScope(n) != g.top() {
		// restored when this scope is popped
		saved := *vi
		g.top().undo = append(g.top().undo, func() { *vi = saved })
	}
	if vi.kind == KList && vi.n > 0 && g.chance(35) {
		return Stmt(&Node{T: "tmp", Lhs: []LV{{N: n, Idx: []*Node{Str("0")}}}, Rhs: []*Node{g.Expr(KNStr, depth-1)}})
	}
	k := g.valueKind()
	e := g.Expr(k, depth-1)
	*vi = *g.infoFor(k, e)
	return Stmt(&Node{T: "tmp", Lhs: []LV{{N: n}}, Rhs: []*Node{e}})
}

// withStmt: `with x = e { ... }` or `with [x = e] [y = e] { ... }`
func (g *Gen) withStmt(depth int) *Node {
	cands := g.assignable()
	if len(cands) == 0 {
		return nil
	}
	w := &Node{T: "with"}
	var undo []func()
	m := 1
	if g.chance(30) {
		m = 2
	}
	for i := 0; i < m; i++ {
		n := g.pick(cands)
		vi := g.lookup(n)
		saved := *vi
		undo = append(undo, func() { *vi = saved })
		k := g.valueKind()
		e := g.Expr(k, depth-1)
		rhs := []*Node{e}
		if g.F.ErrRate > 0 && g.chance(2*g.F.ErrRate) {
			rhs = append(rhs, Str("extra")) // the assignment fails: earlier ones are still undone
		}
		w.Assigns = append(w.Assigns, &Node{T: "set", Lhs: []LV{{N: n}}, Rhs: rhs})
		*vi = *g.infoFor(k, e)
	}
	w.Body = g.Block(1+g.R.Intn(2), depth-1)
	for i := len(undo) - 1; i >= 0; i-- {
		undo[i]()
	}
	return Stmt(w)
}

// deferStmt: `defer { ... }`; the callback runs when the current frame ends
func (g *Gen) deferStmt(depth int) *Node {
	if !g.inFrame() && !g.chance(5) {
		return nil // at the top level `defer` only raises an exception
	}
	g.push(true)
	g.inFn++
	wasLoop, wasNamed := g.inLoop, g.inNamedFn
	g.inLoop, g.inNamedFn = 0, 0
	var body *Node
	switch {
	case g.F.Exc && g.chance(12):
		body = Chunk(Stmt(Cmd("put", Str("deferred"))), g.failStmt(depth-1))
	default:
		body = g.stmts(1+g.R.Intn(2), depth-1)
	}
	g.inLoop, g.inNamedFn = wasLoop, wasNamed
	g.inFn--
	g.pop()
	return Stmt(Cmd("defer", &Node{T: "lam", Params: []string{}, Body: body}))
}
