package elvcore

import "fmt"

// ---- feature group 3: fn, lambdas, closures, return

var fnNames = []string{"f", "g", "h", "mk"}

func (g *Gen) params() ([]string, []Kind) {
	n := g.R.Intn(3)
	names := []string{"m", "n", "o"}[:n]
	kinds := make([]Kind, n)
	for i := range kinds {
		kinds[i] = []Kind{KNStr, KNum, KStr, KList}[g.R.Intn(4)]
	}
	return names, kinds
}

// lambda generates a function literal; the body is generated in a new function scope.
func (g *Gen) lambda(depth int, named bool) (*Node, *fnInfo) {
	names, kinds := g.params()
	lam := &Node{T: "lam", Params: append([]string{}, names...)}
	fi := &fnInfo{params: len(names), named: named}
	g.push(true)
	for i, n := range names {
		g.declare(n, &varInfo{kind: kinds[i], elem: KAny, n: -1})
	}
	if g.F.RestOpts {
		g.restAndOpts(lam, fi, depth)
	}
	g.inFn++
	if named {
		g.inNamedFn++
	}
	wasLoop := g.inLoop
	g.inLoop = 0
	lam.Body = g.stmts(1+g.R.Intn(3), depth-1)
	if g.F.Pipes && g.chance(15) {
		// a function that consumes its value input
		lam.Body.Ps = append(lam.Body.Ps, Stmt(Cmd(g.pick([]string{"all", "count"}))))
	}
	g.inLoop = wasLoop
	if named {
		g.inNamedFn--
	}
	g.inFn--
	g.pop()
	return lam, fi
}

func (g *Gen) fnStmt(depth int) *Node {
	name := g.pick(fnNames)
	// `fn` declares name~ before its body is compiled: a call of that name inside the body is a
	// recursive call.  The body must not call it (unbounded recursion), so the name is a
	// placeholder while the body is generated.
	g.declare(name+"~", &varInfo{kind: KFn})
	lam, fi := g.lambda(depth, true)
	g.declare(name+"~", &varInfo{kind: KFn, fn: fi})
	return Stmt(&Node{T: "fn", Name: name, Lam: lam})
}

func (g *Gen) lambdaVarStmt(depth int) *Node {
	name := g.pick([]string{"fa", "fb", "fc"})
	lam, fi := g.lambda(depth, false)
	g.declare(name, &varInfo{kind: KFn, fn: fi})
	return Stmt(VarDecl([]string{name}, 0, lam))
}

// blockCallStmt: a lambda used as a command, `{ ... }`
func (g *Gen) blockCallStmt(depth int) *Node {
	g.push(true)
	g.inFn++
	body := g.stmts(1+g.R.Intn(2), depth-1)
	g.inFn--
	g.pop()
	return Stmt(CmdX(&Node{T: "lam", Params: []string{}, Body: body}))
}

type callable struct {
	head *Node
	fi   *fnInfo
}

func (g *Gen) callables() []callable {
	var out []callable
	for _, n := range g.visible() {
		vi := g.lookup(n)
		if vi.kind != KFn || vi.fn == nil {
			continue
		}
		if len(n) > 1 && n[len(n)-1] == '~' {
			out = append(out, callable{&Node{T: "name", Name: n[:len(n)-1]}, vi.fn})
			if g.chance(15) {
				out = append(out, callable{Var(n), vi.fn}) // $f~ as a dynamic head
			}
		} else {
			out = append(out, callable{Var(n), vi.fn})
		}
	}
	return out
}

// call builds a command form calling one of the functions in scope (nil if there is none).
func (g *Gen) call(depth int) *Node {
	cs := g.callables()
	if len(cs) == 0 {
		return nil
	}
	c := cs[g.R.Intn(len(cs))]
	n := c.fi.params
	if c.fi.rest {
		n += g.R.Intn(3) - 1
	}
	if g.F.ErrRate > 0 && g.chance(g.F.ErrRate) {
		n += 1 - 2*g.R.Intn(2)
	}
	if n < 0 {
		n = 0
	}
	args := make([]*Node, n)
	for i := range args {
		args[i] = g.Expr([]Kind{KNStr, KNum, KStr, KList}[g.R.Intn(4)], depth-1)
	}
	f := CmdX(c.head, args...)
	if len(c.fi.opts) > 0 && g.chance(50) {
		f.Opts = append(f.Opts, Opt{g.pick(c.fi.opts), g.Expr(KNStr, depth-1)})
	}
	if g.F.RestOpts && g.F.ErrRate > 0 && g.chance(g.F.ErrRate) {
		f.Opts = append(f.Opts, Opt{"nosuch", Str("1")})
	}
	return f
}

func (g *Gen) callStmt(depth int) *Node {
	if f := g.call(depth); f != nil {
		return Stmt(f)
	}
	return nil
}

// ---- feature group 4: fail, try, break / continue

func (g *Gen) failStmt(depth int) *Node {
	if g.chance(15) {
		if vs := g.varsOfKind(KExc); len(vs) > 0 {
			return Stmt(Cmd("fail", Var(g.pick(vs)))) // rethrow
		}
	}
	return Stmt(Cmd("fail", g.Expr([]Kind{KStr, KNStr, KList, KNum}[g.R.Intn(4)], depth-1)))
}

func (g *Gen) tryStmt(depth int) *Node {
	n := &Node{T: "try"}
	g.push(false)
	g.inTry++
	n.Body = g.stmts(1+g.R.Intn(2), depth-1)
	if g.chance(60) {
		n.Body.Ps = append(n.Body.Ps, g.thrower(depth))
	}
	g.inTry--
	g.pop()
	shape := g.R.Intn(10)
	hasCatch := shape < 7
	hasFin := shape >= 5
	if hasCatch {
		if g.chance(75) {
			n.CVar = g.pick([]string{"e", "err"})
			if vi := g.lookup(n.CVar); vi != nil {
				*vi = varInfo{kind: KExc}
			} else {
				g.declare(n.CVar, &varInfo{kind: KExc})
			}
		}
		n.Catch = g.Block(1+g.R.Intn(2), depth-1)
		if g.chance(30) {
			n.Els = g.Block(1, depth-1)
		}
	}
	if hasFin {
		n.Fin = g.Block(1, depth-1)
	}
	return Stmt(n)
}

// thrower: a statement that is likely to throw
func (g *Gen) thrower(depth int) *Node {
	switch g.R.Intn(6) {
	case 0:
		return Stmt(Cmd("put", Idx(List(Str("a")), Str(fmt.Sprint(1+g.R.Intn(3))))))
	case 1:
		return Stmt(Cmd("put", CapCmd("+", Str("x"), Str("1"))))
	case 2:
		if g.inLoop > 0 {
			return Stmt(Cmd(g.pick([]string{"break", "continue"})))
		}
		fallthrough
	case 3:
		if g.inNamedFn > 0 {
			return Stmt(Cmd("return"))
		}
		fallthrough
	default:
		return g.failStmt(depth)
	}
}

// ---- feature group 5: and / or / coalesce

func (g *Gen) logicForm(depth int) *Node {
	kind := g.pick([]string{"and", "or", "coalesce"})
	n := g.R.Intn(4)
	f := &Node{T: kind, Args: []*Node{}}
	for i := 0; i < n; i++ {
		var a *Node
		switch g.R.Intn(6) {
		case 0:
			a = Var("nil")
		case 1:
			a = Var(g.pick([]string{"true", "false"}))
		case 2:
			a = g.multi(KBool, depth-1)
		case 3:
			if g.F.Exc {
				// must not be evaluated if an earlier argument decides
				a = Cap(g.failStmt(depth - 1))
				break
			}
			fallthrough
		default:
			a = g.Expr(KAny, depth-1)
		}
		f.Args = append(f.Args, a)
	}
	return f
}

func (g *Gen) logicStmt(depth int) *Node { return Stmt(g.logicForm(depth)) }

// ---- feature group 6: rest and optional arguments, options

func (g *Gen) restAndOpts(lam *Node, fi *fnInfo, depth int) {
	if g.chance(35) {
		// a rest parameter at a random position
		pos := g.R.Intn(len(lam.Params) + 1)
		ps := append([]string{}, lam.Params[:pos]...)
		ps = append(ps, "r")
		ps = append(ps, lam.Params[pos:]...)
		lam.Params = ps
		lam.Rest = pos + 1
		fi.rest = true
		fi.params = len(ps)
		g.declare("r", &varInfo{kind: KList, elem: KAny, n: -1})
	}
	if g.chance(35) {
		no := 1 + g.R.Intn(2)
		for i := 0; i < no; i++ {
			name := []string{"opt", "v"}[i]
			lam.Opts = append(lam.Opts, Opt{name, g.numLit()}) // evaluated in the enclosing scope: a literal
			fi.opts = append(fi.opts, name)
			g.declare(name, &varInfo{kind: KNStr})
		}
	}
}
