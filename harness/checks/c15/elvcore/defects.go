package elvcore

// Injected static defects (profile Static, C16): each is a statement that is a parse error or a
// compilation error in every context.  The class of each kind is stated by spec/ElvCore/Static.tla
// (ParseDefects / CompileDefects); this table only concretises the kinds as source text.
var DefectText = map[string]string{
	"unclosed-quote":       "put 'abc",
	"unclosed-paren":       "put (put x",
	"unclosed-list":        "put [p q",
	"unclosed-brace":       "{ put x",
	"bad-escape":           `put "\q"`,
	"stray-paren":          "put x)",
	"use-undeclared":       "put $u",
	"set-undeclared":       "set u = 1",
	"del-undeclared":       "del u",
	"if-no-body":           "if $true",
	"try-alone":            "try { put t }",
	"try-else-no-catch":    "try { put t } else { put e }",
	"var-qualified":        "var a:b = 1",
	"tmp-top-level":        "tmp a = 1",
	"del-non-local":        "{ del a }",
	"fn-no-body":           "fn g",
	"while-no-body":        "while $false",
	"for-no-body":          "for x [p]",
	"set-no-rhs":           "set a",
	"use-undeclared-in-fn": "fn g { put $u }",
	"modvar-registered":    "put $math:x",  // module registered on the Evaler, never imported by the generated programs
	"modvar-unregistered":  "put $nomod:x", // no such module
}

// DefectKinds lists the kinds that are defects wherever they are injected (tmp-top-level and
// del-non-local depend on the position and are only used at the top level / by the G direction).
var NestableDefects = []string{"unclosed-quote", "unclosed-paren", "unclosed-list", "unclosed-brace", "bad-escape", "stray-paren",
	"use-undeclared", "set-undeclared", "del-undeclared", "if-no-body", "try-alone", "try-else-no-catch", "var-qualified",
	"fn-no-body", "while-no-body", "for-no-body", "use-undeclared-in-fn", "modvar-registered", "modvar-unregistered"}

// Bad is the form node of an injected defect.
func Bad(kind string) *Node { return &Node{T: "bad", Name: kind} }

// InjectDefect returns a copy-free modification of chunk: a defect statement inserted after at
// least `after` statements, at the top level of the chunk or (nested = true) inside the first
// block found in a later statement.  It returns false if the chunk has no such position.
func InjectDefect(chunk *Node, kind string, pos int, nested bool) bool {
	if nested {
		for _, p := range chunk.Ps {
			var blocks []*Node
			p.Walk(func(n *Node) {
				switch n.T {
				case "if":
					for _, a := range n.Arms {
						blocks = append(blocks, a.Body)
					}
				case "for", "while", "try", "lam":
					if n.Body != nil {
						blocks = append(blocks, n.Body)
					}
				}
			})
			if len(blocks) > 0 {
				b := blocks[pos%len(blocks)]
				i := len(b.Ps)
				b.Ps = append(b.Ps[:i:i], Pipe(Bad(kind)))
				return true
			}
		}
		return false
	}
	if pos > len(chunk.Ps) {
		pos = len(chunk.Ps)
	}
	ps := append([]*Node{}, chunk.Ps[:pos]...)
	ps = append(ps, Pipe(Bad(kind)))
	ps = append(ps, chunk.Ps[pos:]...)
	chunk.Ps = ps
	return true
}
