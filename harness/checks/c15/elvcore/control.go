package elvcore

import "fmt"

// ---- feature group 2: if / while / for

func (g *Gen) cond(depth int) *Node {
	if g.chance(4) {
		return CapCmd("nop") // no value at all: "considered true, consistent with how `and` works"
	}
	if g.chance(10) {
		return g.Expr(KAny, depth-1) // any value has a truth value
	}
	if g.chance(8) {
		// several values are and'ed; no value is true
		n := 1 + g.R.Intn(3)
		es := make([]*Node, n)
		for i := range es {
			es[i] = g.Expr(KBool, depth-1)
		}
		return Brace(es...)
	}
	return g.Expr(KBool, depth-1)
}

func (g *Gen) ifStmt(depth int) *Node {
	n := &Node{T: "if"}
	arms := 1 + g.R.Intn(2)
	for i := 0; i < arms; i++ {
		c := g.cond(depth)
		n.Arms = append(n.Arms, Arm{c, g.Block(1+g.R.Intn(2), depth-1)})
	}
	if g.chance(50) {
		n.Els = g.Block(1+g.R.Intn(2), depth-1)
	}
	return Stmt(n)
}

func (g *Gen) forStmt(depth int) *Node {
	// iterate a literal list, a list variable or a string
	var iter *Node
	ek := KAny
	switch g.R.Intn(4) {
	case 0:
		if vs := g.varsOfKind(KList); len(vs) > 0 {
			v := g.pick(vs)
			iter = Var(v)
			ek = g.lookup(v).elem
			break
		}
		fallthrough
	case 1, 2:
		ek = []Kind{KNStr, KStr, KNum}[g.R.Intn(3)]
		m := g.R.Intn(4)
		es := make([]*Node, m)
		for i := range es {
			es[i] = g.Expr(ek, depth-1)
		}
		iter = List(es...)
	default:
		ek = KStr
		iter = Str(g.pick([]string{"ab", "xyz", ""}))
	}
	if g.F.ErrRate > 0 && g.chance(g.F.ErrRate) {
		iter = g.Expr(g.wrongKind(KList), depth-1)
	}
	name := g.freshName()
	if g.loopVar[name] {
		name = name + "e"
	}
	// the loop variable is the existing variable of that name if there is one, else a new
	// variable of the current scope
	if vi := g.lookup(name); vi != nil {
		if vi.kind == KFn {
			name = name + "i"
			g.declare(name, &varInfo{kind: ek, elem: KAny, n: -1})
		} else if g.lookupScope(name) == g.top() {
			*vi = varInfo{kind: ek, elem: KAny, n: -1}
		} else {
			*vi = varInfo{kind: KAny, elem: KAny, n: -1}
		}
	} else {
		g.declare(name, &varInfo{kind: ek, elem: KAny, n: -1})
	}
	g.inLoop++
	was := g.loopVar[name]
	g.loopVar[name] = true
	body := g.Block(1+g.R.Intn(3), depth-1)
	g.loopVar[name] = was
	g.inLoop--
	n := &Node{T: "for", V: &LV{N: name}, Iter: iter, Body: body}
	if g.chance(25) {
		n.Els = g.Block(1, depth-1)
	}
	if vi := g.lookup(name); vi != nil && vi.kind != KAny {
		// after the loop the variable holds the last element, or its old value
		vi.kind = KAny
	}
	return Stmt(n)
}

// whileStmt: a bounded loop with a counter of its own that nothing else can assign:
//
//	var iN = (num 0); while (< $iN B) { set iN = (+ $iN 1); ... }
//
// The increment is the first statement of the body, so `continue` cannot skip it.
func (g *Gen) whileStmt(depth int) []*Node {
	g.uniq++
	ctr := fmt.Sprintf("i%d", g.uniq)
	decl := Stmt(VarDecl([]string{ctr}, 0, CapCmd("num", Str("0"))))
	g.declare(ctr, &varInfo{kind: KNum})
	g.loopVar[ctr] = true
	bound := g.R.Intn(4)
	g.inLoop++
	g.push(false)
	body := g.stmts(g.R.Intn(3), depth-1)
	g.pop()
	g.inLoop--
	body.Ps = append([]*Node{Stmt(Set([]LV{{N: ctr}}, 0, CapCmd("+", Var(ctr), Str("1"))))}, body.Ps...)
	n := &Node{T: "while", Cond: CapCmd("<", Var(ctr), Str(fmt.Sprint(bound))), Body: body}
	if g.chance(30) {
		n.Els = g.Block(1, depth-1)
	}
	return []*Node{decl, Stmt(n)}
}
