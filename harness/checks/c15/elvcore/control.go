package elvcore

import "fmt"

// ---- feature group 2: if / while / for

func (g *Gen) cond(depth int) *Node {
	if g.chance(10) {
		return g.Expr(KAny, depth-1) // any value has a truth value
	}
	if g.chance(8) {
		// several values are and'ed; no value is true
		n := 1 + g.R.Intn(3)
		es := make([]*Node, n)
		for i := range es {
			es[i] = g.Expr(KBool, depth-1)
		}
		return Brace(es...)
	}
	return g.Expr(KBool, depth-1)
}

func (g *Gen) ifStmt(depth int) *Node {
	n := &Node{T: "if"}
	arms := 1 + g.R.Intn(2)
	for i := 0; i < arms; i++ {
		c := g.cond(depth)
		n.Arms = append(n.Arms, Arm{c, g.Block(1+g.R.Intn(2), depth-1)})
	}
	if g.chance(50) {
		n.Els = g.Block(1+g.R.Intn(2), depth-1)
	}
	return Stmt(n)
}

func (g *Gen) forStmt(depth int) *Node {
	// iterate a literal list, a list variable or a string
	var iter *Node
	ek := KAny
	switch g.R.Intn(4) {
	case 0:
		if vs := g.varsOfKind(KList); len(vs) > 0 {
			v := g.pick(vs)
			iter = Var(v)
			ek = g.lookup(v).elem
			break
		}
		fallthrough
	case 1, 2:
		ek = []Kind{KNStr, KStr, KNum}[g.R.Intn(3)]
		m := g.R.Intn(4)
		es := make([]*Node, m)
		for i := range es {
			es[i] = g.Expr(ek, depth-1)
		}
		iter = List(es...)
	default:
		ek = KStr
		iter = Str(g.pick([]string{"ab", "xyz", ""}))
	}
	if g.F.ErrRate > 0 && g.chance(g.F.ErrRate) {
		iter = g.Expr(g.wrongKind(KList), depth-1)
	}
	name := g.freshName()
	// the loop variable is the existing variable of that name if there is one, else a new
	// variable of the current scope
	if vi := g.lookup(name); vi != nil {
		if vi.kind == KFn {
			name = name + "i"
			g.declare(name, &varInfo{kind: ek, elem: KAny, n: -1})
		} else if g.lookupScope(name) == g.top() {
			*vi = varInfo{kind: ek, elem: KAny, n: -1}
		} else {
			*vi = varInfo{kind: KAny, elem: KAny, n: -1}
		}
	} else {
		g.declare(name, &varInfo{kind: ek, elem: KAny, n: -1})
	}
	g.inLoop++
	was := g.loopVar[name]
	g.loopVar[name] = true
	body := g.Block(1+g.R.Intn(3), depth-1)
	g.loopVar[name] = was
	g.inLoop--
	n := &Node{T: "for", V: &LV{N: name}, Iter: iter, Body: body}
	if g.chance(25) {
		n.Els = g.Block(1, depth-1)
	}
	if vi := g.lookup(name); vi != nil && vi.kind != KAny {
		// after the loop the variable holds the last element, or its old value
		vi.kind = KAny
	}
	return Stmt(n)
}

// whileStmt: a bounded loop  `var i = (num 0); while (< $i N) { ...; set i = (+ $i 1) }`
// rendered as two statements is not possible here (one statement per call), so the counter is
// declared by a preceding statement of the same chunk: the caller receives a pipeline for the
// loop and the declaration is emitted through pending.
func (g *Gen) whileStmt(depth int) *Node {
	// needs a numeric counter variable of the current scope that no enclosing loop uses
	var ctr string
	for _, n := range g.top().order {
		if vi := g.top().vars[n]; vi != nil && vi.kind == KNum && !g.loopVar[n] {
			ctr = n
		}
	}
	if ctr == "" {
		n := g.freshName()
		g.declare(n, &varInfo{kind: KNum})
		return Stmt(VarDecl([]string{n}, 0, CapCmd("num", Str(fmt.Sprint(g.R.Intn(3))))))
	}
	bound := g.R.Intn(4)
	was := g.loopVar[ctr]
	g.loopVar[ctr] = true
	g.inLoop++
	g.push(false)
	body := g.stmts(g.R.Intn(3), depth-1)
	g.pop()
	g.inLoop--
	g.loopVar[ctr] = was
	// the increment is the last statement of the body, unconditionally
	body.Ps = append(body.Ps, Stmt(Set([]LV{{N: ctr}}, 0, CapCmd("+", Var(ctr), Str("1")))))
	// the counter is first brought below the bound region: loops run at most `bound`+3 times
	n := &Node{T: "while", Cond: CapCmd("<", Var(ctr), Str(fmt.Sprint(bound))), Body: body}
	if g.chance(30) {
		n.Els = g.Block(1, depth-1)
	}
	return Stmt(n)
}
