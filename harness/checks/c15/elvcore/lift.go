package elvcore

import (
	"fmt"
	"strings"

	"src.elv.sh/pkg/parse"
	"src.elv.sh/pkg/parse/cmpd"
)

// LiftChunk maps a parse tree of the real parser back to the AST schema (inverse of Render).
func LiftChunk(c *parse.Chunk) (*Node, error) {
	out := &Node{T: "chunk", Ps: []*Node{}}
	for _, p := range c.Pipelines {
		if p.Background {
			return nil, fmt.Errorf("background pipeline")
		}
		pn := &Node{T: "pipe"}
		for _, f := range p.Forms {
			fn, err := liftForm(f)
			if err != nil {
				return nil, err
			}
			pn.Fs = append(pn.Fs, fn)
		}
		out.Ps = append(out.Ps, pn)
	}
	return out, nil
}

// splitQName splits a qualified name after each non-final ':' ("m:x" -> ["m:"], "x"; "m:" -> [], "m:").
func splitQName(name string) ([]string, string) {
	var q []string
	for {
		i := strings.IndexByte(name, ':')
		if i < 0 || i == len(name)-1 {
			return q, name
		}
		q = append(q, name[:i+1])
		name = name[i+1:]
	}
}

var specials = map[string]bool{"use": true, "var": true, "set": true, "tmp": true, "with": true, "del": true, "fn": true, "if": true,
	"while": true, "for": true, "try": true, "and": true, "or": true, "coalesce": true}

func liftLV(c *parse.Compound) (LV, bool, error) {
	if len(c.Indexings) != 1 {
		return LV{}, false, fmt.Errorf("compound lvalue")
	}
	in := c.Indexings[0]
	if in.Head.Type != parse.Bareword {
		return LV{}, false, fmt.Errorf("lvalue is not a bareword")
	}
	name := in.Head.Value
	rest := false
	if strings.HasPrefix(name, "@") {
		rest = true
		name = name[1:]
	}
	q, base := splitQName(name)
	lv := LV{N: base, Idx: []*Node{}, Q: q}
	for _, arr := range in.Indices {
		if len(arr.Compounds) != 1 {
			return LV{}, false, fmt.Errorf("lvalue index group with %d expressions", len(arr.Compounds))
		}
		e, err := liftCompound(arr.Compounds[0])
		if err != nil {
			return LV{}, false, err
		}
		lv.Idx = append(lv.Idx, e)
	}
	return lv, rest, nil
}

func liftAssign(kind string, args []*parse.Compound) (*Node, error) {
	n := &Node{T: kind, Lhs: []LV{}, Rhs: []*Node{}}
	i := 0
	for ; i < len(args); i++ {
		if parse.SourceText(args[i]) == "=" {
			n.Eq = true
			i++
			break
		}
		lv, rest, err := liftLV(args[i])
		if err != nil {
			return nil, err
		}
		n.Lhs = append(n.Lhs, lv)
		if rest {
			n.Rest = len(n.Lhs)
		}
	}
	for ; i < len(args); i++ {
		e, err := liftCompound(args[i])
		if err != nil {
			return nil, err
		}
		n.Rhs = append(n.Rhs, e)
	}
	if kind != "var" && !n.Eq {
		return nil, fmt.Errorf("%s without =", kind)
	}
	return n, nil
}

func liftBlock(c *parse.Compound) (*Node, error) {
	p, ok := cmpd.Lambda(c)
	if !ok {
		return nil, fmt.Errorf("expected a block, found %q", parse.SourceText(c))
	}
	if len(p.Elements) > 0 || len(p.MapPairs) > 0 {
		return nil, fmt.Errorf("block with a signature")
	}
	return LiftChunk(p.Chunk)
}

func isKeyword(c *parse.Compound, kw string) bool {
	s, ok := cmpd.StringLiteral(c)
	return ok && s == kw && parse.SourceText(c) == kw
}

func liftForm(f *parse.Form) (*Node, error) {
	if len(f.Redirs) > 0 {
		return nil, fmt.Errorf("redirection")
	}
	if f.Head == nil {
		return nil, fmt.Errorf("form without head")
	}
	head, isLit := cmpd.StringLiteral(f.Head)
	bare := isLit && len(f.Head.Indexings) == 1 && f.Head.Indexings[0].Head.Type == parse.Bareword
	if bare && specials[head] {
		if len(f.Opts) > 0 {
			return nil, fmt.Errorf("special form with options")
		}
		a := f.Args
		switch head {
		case "var", "set", "tmp":
			return liftAssign(head, a)
		case "use":
			if len(a) < 1 || len(a) > 2 {
				return nil, fmt.Errorf("use with %d arguments", len(a))
			}
			spec, ok := cmpd.StringLiteral(a[0])
			if !ok {
				return nil, fmt.Errorf("use: spec is not a literal")
			}
			n := &Node{T: "use", Name: spec}
			if len(a) == 2 {
				if n.As, ok = cmpd.StringLiteral(a[1]); !ok {
					return nil, fmt.Errorf("use: alias is not a literal")
				}
			}
			return n, nil
		case "with":
			if len(a) < 2 {
				return nil, fmt.Errorf("with needs assignments and a body")
			}
			body, err := liftBlock(a[len(a)-1])
			if err != nil {
				return nil, err
			}
			n := &Node{T: "with", Body: body}
			as := a[:len(a)-1]
			if p, ok := cmpd.Primary(as[0]); ok && p.Type == parse.List {
				for _, c := range as {
					p, ok := cmpd.Primary(c)
					if !ok || p.Type != parse.List {
						return nil, fmt.Errorf("with: argument must be a list")
					}
					an, err := liftAssign("set", p.Elements)
					if err != nil {
						return nil, err
					}
					n.Assigns = append(n.Assigns, an)
				}
			} else {
				an, err := liftAssign("set", as)
				if err != nil {
					return nil, err
				}
				n.Assigns = []*Node{an}
			}
			return n, nil
		case "del":
			n := &Node{T: "del", Lhs: []LV{}}
			for _, c := range a {
				lv, rest, err := liftLV(c)
				if err != nil || rest {
					return nil, fmt.Errorf("bad del operand")
				}
				n.Lhs = append(n.Lhs, lv)
			}
			return n, nil
		case "fn":
			if len(a) != 2 {
				return nil, fmt.Errorf("fn with %d arguments", len(a))
			}
			name, ok := cmpd.StringLiteral(a[0])
			if !ok {
				return nil, fmt.Errorf("fn name")
			}
			lam, err := liftCompound(a[1])
			if err != nil {
				return nil, err
			}
			if lam.T != "lam" {
				return nil, fmt.Errorf("fn body is not a lambda")
			}
			return &Node{T: "fn", Name: name, Lam: lam}, nil
		case "and", "or", "coalesce":
			n := &Node{T: head, Args: []*Node{}}
			for _, c := range a {
				e, err := liftCompound(c)
				if err != nil {
					return nil, err
				}
				n.Args = append(n.Args, e)
			}
			return n, nil
		case "if":
			n := &Node{T: "if"}
			i := 0
			for {
				if i+1 >= len(a) {
					return nil, fmt.Errorf("if: missing condition or body")
				}
				cond, err := liftCompound(a[i])
				if err != nil {
					return nil, err
				}
				body, err := liftBlock(a[i+1])
				if err != nil {
					return nil, err
				}
				n.Arms = append(n.Arms, Arm{cond, body})
				i += 2
				if i < len(a) && isKeyword(a[i], "elif") {
					i++
					continue
				}
				break
			}
			if i < len(a) && isKeyword(a[i], "else") {
				if i+1 >= len(a) {
					return nil, fmt.Errorf("if: else without body")
				}
				body, err := liftBlock(a[i+1])
				if err != nil {
					return nil, err
				}
				n.Els = body
				i += 2
			}
			if i != len(a) {
				return nil, fmt.Errorf("if: trailing arguments")
			}
			return n, nil
		case "while":
			if len(a) != 2 && len(a) != 4 {
				return nil, fmt.Errorf("while with %d arguments", len(a))
			}
			cond, err := liftCompound(a[0])
			if err != nil {
				return nil, err
			}
			body, err := liftBlock(a[1])
			if err != nil {
				return nil, err
			}
			n := &Node{T: "while", Cond: cond, Body: body}
			if len(a) == 4 {
				if !isKeyword(a[2], "else") {
					return nil, fmt.Errorf("while: expected else")
				}
				if n.Els, err = liftBlock(a[3]); err != nil {
					return nil, err
				}
			}
			return n, nil
		case "for":
			if len(a) != 3 && len(a) != 5 {
				return nil, fmt.Errorf("for with %d arguments", len(a))
			}
			lv, rest, err := liftLV(a[0])
			if err != nil || rest {
				return nil, fmt.Errorf("for variable")
			}
			iter, err := liftCompound(a[1])
			if err != nil {
				return nil, err
			}
			body, err := liftBlock(a[2])
			if err != nil {
				return nil, err
			}
			n := &Node{T: "for", V: &lv, Iter: iter, Body: body}
			if len(a) == 5 {
				if !isKeyword(a[3], "else") {
					return nil, fmt.Errorf("for: expected else")
				}
				if n.Els, err = liftBlock(a[4]); err != nil {
					return nil, err
				}
			}
			return n, nil
		case "try":
			if len(a) < 1 {
				return nil, fmt.Errorf("try without body")
			}
			body, err := liftBlock(a[0])
			if err != nil {
				return nil, err
			}
			n := &Node{T: "try", Body: body}
			i := 1
			if i < len(a) && isKeyword(a[i], "catch") {
				i++
				if i < len(a) {
					if s, ok := cmpd.StringLiteral(a[i]); ok {
						n.CVar = s
						i++
					}
				}
				if i >= len(a) {
					return nil, fmt.Errorf("try: catch without body")
				}
				if n.Catch, err = liftBlock(a[i]); err != nil {
					return nil, err
				}
				i++
			}
			if i < len(a) && isKeyword(a[i], "else") {
				if i+1 >= len(a) {
					return nil, fmt.Errorf("try: else without body")
				}
				if n.Els, err = liftBlock(a[i+1]); err != nil {
					return nil, err
				}
				i += 2
			}
			if i < len(a) && isKeyword(a[i], "finally") {
				if i+1 >= len(a) {
					return nil, fmt.Errorf("try: finally without body")
				}
				if n.Fin, err = liftBlock(a[i+1]); err != nil {
					return nil, err
				}
				i += 2
			}
			if i != len(a) {
				return nil, fmt.Errorf("try: trailing arguments")
			}
			return n, nil
		}
	}
	n := &Node{T: "cmd", Args: []*Node{}, Opts: []Opt{}}
	if bare {
		q, base := splitQName(head)
		n.Head = &Node{T: "name", Name: base, Q: q}
	} else {
		h, err := liftCompound(f.Head)
		if err != nil {
			return nil, err
		}
		n.Head = h
	}
	// Arguments and options are kept in two lists (their relative order is not semantic:
	// arguments are evaluated before options).
	for _, c := range f.Args {
		e, err := liftCompound(c)
		if err != nil {
			return nil, err
		}
		n.Args = append(n.Args, e)
	}
	for _, mp := range f.Opts {
		o, err := liftOpt(mp)
		if err != nil {
			return nil, err
		}
		n.Opts = append(n.Opts, o)
	}
	return n, nil
}

func liftOpt(mp *parse.MapPair) (Opt, error) {
	name, ok := cmpd.StringLiteral(mp.Key)
	if !ok {
		return Opt{}, fmt.Errorf("option name is not a literal")
	}
	if mp.Value == nil {
		// "&key is equivalent to &key=$true"
		return Opt{name, Var("true")}, nil
	}
	e, err := liftCompound(mp.Value)
	if err != nil {
		return Opt{}, err
	}
	return Opt{name, e}, nil
}

func liftCompound(c *parse.Compound) (*Node, error) {
	if len(c.Indexings) == 0 {
		return nil, fmt.Errorf("empty compound")
	}
	var parts []*Node
	for _, in := range c.Indexings {
		e, err := liftIndexing(in)
		if err != nil {
			return nil, err
		}
		parts = append(parts, e)
	}
	if len(parts) == 1 {
		return parts[0], nil
	}
	return &Node{T: "cat", Es: parts}, nil
}

func liftCompounds(cs []*parse.Compound) ([]*Node, error) {
	out := []*Node{}
	for _, c := range cs {
		e, err := liftCompound(c)
		if err != nil {
			return nil, err
		}
		out = append(out, e)
	}
	return out, nil
}

func liftIndexing(in *parse.Indexing) (*Node, error) {
	e, err := liftPrimary(in.Head)
	if err != nil {
		return nil, err
	}
	for _, arr := range in.Indices {
		is, err := liftCompounds(arr.Compounds)
		if err != nil {
			return nil, err
		}
		e = &Node{T: "idx", E: e, Is: is}
	}
	return e, nil
}

func liftPrimary(p *parse.Primary) (*Node, error) {
	switch p.Type {
	case parse.Bareword, parse.SingleQuoted, parse.DoubleQuoted:
		return &Node{T: "str", Str: []byte(p.Value)}, nil
	case parse.Variable:
		name := p.Value
		ex := false
		if strings.HasPrefix(name, "@") {
			ex = true
			name = name[1:]
		}
		q, base := splitQName(name)
		return &Node{T: "varx", Name: base, Explode: ex, Q: q}, nil
	case parse.List:
		es, err := liftCompounds(p.Elements)
		if err != nil {
			return nil, err
		}
		return &Node{T: "list", Es: es}, nil
	case parse.Map:
		n := &Node{T: "map", Pairs: [][2]*Node{}}
		for _, mp := range p.MapPairs {
			k, err := liftCompound(mp.Key)
			if err != nil {
				return nil, err
			}
			if mp.Value == nil {
				return nil, fmt.Errorf("map pair without value")
			}
			v, err := liftCompound(mp.Value)
			if err != nil {
				return nil, err
			}
			n.Pairs = append(n.Pairs, [2]*Node{k, v})
		}
		return n, nil
	case parse.Braced:
		es, err := liftCompounds(p.Braced)
		if err != nil {
			return nil, err
		}
		return &Node{T: "brace", Es: es}, nil
	case parse.OutputCapture, parse.ExceptionCapture:
		c, err := LiftChunk(p.Chunk)
		if err != nil {
			return nil, err
		}
		t := "cap"
		if p.Type == parse.ExceptionCapture {
			t = "xcap"
		}
		return &Node{T: t, C: c}, nil
	case parse.Lambda:
		n := &Node{T: "lam", Params: []string{}, Opts: []Opt{}}
		for i, el := range p.Elements {
			s, ok := cmpd.StringLiteral(el)
			if !ok {
				return nil, fmt.Errorf("lambda parameter is not a literal")
			}
			if strings.HasPrefix(s, "@") {
				n.Rest = i + 1
				s = s[1:]
			}
			n.Params = append(n.Params, s)
		}
		for _, mp := range p.MapPairs {
			o, err := liftOpt(mp)
			if err != nil {
				return nil, err
			}
			n.Opts = append(n.Opts, o)
		}
		body, err := LiftChunk(p.Chunk)
		if err != nil {
			return nil, err
		}
		n.Body = body
		return n, nil
	default:
		return nil, fmt.Errorf("primary of type %v (%q)", p.Type, parse.SourceText(p))
	}
}
