package main

import (
	"sort"
	"time"

	"verif.local/harness/checks/c15/elvcore"
	"verif.local/harness/lib"
)

type N = elvcore.Node

func cp(n *N) *N { c := *n; return &c }

func without(ns []*N, i int) []*N {
	out := make([]*N, 0, len(ns)-1)
	out = append(out, ns[:i]...)
	return append(out, ns[i+1:]...)
}

func replaced(ns []*N, i int, r ...*N) []*N {
	out := make([]*N, 0, len(ns)+len(r))
	out = append(out, ns[:i]...)
	out = append(out, r...)
	return append(out, ns[i+1:]...)
}

// blocks of a form: the chunks executed as bodies (candidates for hoisting)
func blocksOf(f *N) []*N {
	var out []*N
	add := func(c *N) {
		if c != nil {
			out = append(out, c)
		}
	}
	switch f.T {
	case "if":
		for _, a := range f.Arms {
			add(a.Body)
		}
		add(f.Els)
	case "for", "while":
		add(f.Body)
		add(f.Els)
	case "try":
		add(f.Body)
		add(f.Catch)
		add(f.Els)
		add(f.Fin)
	case "cmd":
		if f.Head.T == "lam" && len(f.Head.Params) == 0 {
			add(f.Head.Body)
		}
	case "fn":
		add(f.Lam.Body)
	}
	return out
}

// reduceList emits the list with one element dropped or reduced.
func reduceList(ns []*N, drop bool, emit func([]*N)) {
	if drop {
		for i := range ns {
			emit(without(ns, i))
		}
	}
	for i := range ns {
		reduce(ns[i], func(r *N) { emit(replaced(ns, i, r)) })
	}
}

// reduce emits every one-step reduction of n (n itself is never modified).
func reduce(n *N, emit func(*N)) {
	if n == nil {
		return
	}
	switch n.T {
	case "chunk":
		for i := range n.Ps {
			c := cp(n)
			c.Ps = without(n.Ps, i)
			emit(c)
		}
		for i, p := range n.Ps {
			if len(p.Fs) == 1 {
				for _, b := range blocksOf(p.Fs[0]) {
					c := cp(n)
					c.Ps = replaced(n.Ps, i, b.Ps...)
					emit(c)
				}
			}
		}
		reduceList(n.Ps, false, func(ps []*N) { c := cp(n); c.Ps = ps; emit(c) })
	case "pipe":
		if len(n.Fs) > 1 {
			for i := range n.Fs {
				c := cp(n)
				c.Fs = without(n.Fs, i)
				emit(c)
			}
		}
		reduceList(n.Fs, false, func(fs []*N) { c := cp(n); c.Fs = fs; emit(c) })
	case "cmd":
		reduceList(n.Args, true, func(as []*N) { c := cp(n); c.Args = as; emit(c) })
		if len(n.Opts) > 0 {
			c := cp(n)
			c.Opts = nil
			emit(c)
		}
		if n.Head.T != "name" {
			reduce(n.Head, func(h *N) {
				if h.T == "lam" || h.T == "varx" {
					c := cp(n)
					c.Head = h
					emit(c)
				}
			})
		}
	case "var", "set":
		reduceList(n.Rhs, false, func(rs []*N) { c := cp(n); c.Rhs = rs; emit(c) })
	case "fn":
		reduce(n.Lam, func(l *N) { c := cp(n); c.Lam = l; emit(c) })
	case "if":
		if n.Els != nil {
			c := cp(n)
			c.Els = nil
			emit(c)
		}
		if len(n.Arms) > 1 {
			for i := range n.Arms {
				c := cp(n)
				c.Arms = append(append([]elvcore.Arm{}, n.Arms[:i]...), n.Arms[i+1:]...)
				emit(c)
			}
		}
		for i, a := range n.Arms {
			reduce(a.Body, func(b *N) {
				c := cp(n)
				c.Arms = append([]elvcore.Arm{}, n.Arms...)
				c.Arms[i] = elvcore.Arm{Cond: a.Cond, Body: b}
				emit(c)
			})
			reduce(a.Cond, func(e *N) {
				c := cp(n)
				c.Arms = append([]elvcore.Arm{}, n.Arms...)
				c.Arms[i] = elvcore.Arm{Cond: e, Body: a.Body}
				emit(c)
			})
		}
		reduce(n.Els, func(b *N) { c := cp(n); c.Els = b; emit(c) })
	case "while", "for":
		if n.Els != nil {
			c := cp(n)
			c.Els = nil
			emit(c)
		}
		reduce(n.Body, func(b *N) { c := cp(n); c.Body = b; emit(c) })
		reduce(n.Els, func(b *N) { c := cp(n); c.Els = b; emit(c) })
		if n.T == "for" {
			reduce(n.Iter, func(e *N) { c := cp(n); c.Iter = e; emit(c) })
		}
	case "try":
		if n.Els != nil {
			c := cp(n)
			c.Els = nil
			emit(c)
		}
		if n.Fin != nil && n.Catch != nil {
			c := cp(n)
			c.Fin = nil
			emit(c)
		}
		reduce(n.Body, func(b *N) { c := cp(n); c.Body = b; emit(c) })
		reduce(n.Catch, func(b *N) { c := cp(n); c.Catch = b; emit(c) })
		reduce(n.Els, func(b *N) { c := cp(n); c.Els = b; emit(c) })
		reduce(n.Fin, func(b *N) { c := cp(n); c.Fin = b; emit(c) })
	case "and", "or", "coalesce":
		reduceList(n.Args, true, func(as []*N) { c := cp(n); c.Args = as; emit(c) })
	// expressions
	case "list", "brace":
		if n.T == "brace" && len(n.Es) == 1 {
			emit(n.Es[0])
		}
		reduceList(n.Es, n.T == "list" || len(n.Es) > 1, func(es []*N) { c := cp(n); c.Es = es; emit(c) })
	case "cat":
		for _, e := range n.Es {
			emit(e)
		}
	case "map":
		for i := range n.Pairs {
			c := cp(n)
			c.Pairs = append(append([][2]*N{}, n.Pairs[:i]...), n.Pairs[i+1:]...)
			emit(c)
		}
	case "idx":
		emit(n.E)
	case "cap", "xcap":
		emit(elvcore.Str("a"))
		reduce(n.C, func(b *N) { c := cp(n); c.C = b; emit(c) })
	case "lam":
		reduce(n.Body, func(b *N) { c := cp(n); c.Body = b; emit(c) })
	}
}

func progSize(p []*N) int {
	s := 0
	for _, c := range p {
		s += c.Size()
	}
	return s
}

// shrink: delta debugging on the AST.  Each round evaluates the smallest one-step reductions of
// the program on the real Evaler and lets TLC judge them; the first one that is still rejected
// (and compiles) replaces the program.  Verdicts come from TLC only.
func shrink(c *lib.Ctx, prog []*N, mods []elvcore.Module, rounds int) []*N {
	for r := 0; r < rounds; r++ {
		var cands [][]*N
		for i := range prog {
			if len(prog) > 1 && i < len(prog)-1 {
				cands = append(cands, append(append([]*N{}, prog[:i]...), prog[i+1:]...))
			}
			reduce(prog[i], func(ch *N) {
				p := append([]*N{}, prog...)
				p[i] = ch
				cands = append(cands, p)
			})
		}
		sort.SliceStable(cands, func(a, b int) bool { return progSize(cands[a]) < progSize(cands[b]) })
		if len(cands) > 60 {
			cands = cands[:60]
		}
		var traces [][]Event
		var which []int
		for i, p := range cands {
			evs, err := elvcore.RunProgram(p, mods...) // static errors, hangs ...: not a candidate
			if err == nil {
				traces = append(traces, evs)
				which = append(which, i)
			}
		}
		if len(traces) == 0 {
			return prog
		}
		j, err := judge(c, "TraceElvCore(shrink)", traces, 4)
		if err != nil {
			return prog
		}
		found := -1
		upto := 0
		for _, b := range j.bad {
			if k, _ := b.Info[0].(string); k == "mismatch" {
				g := j.grp[b.Index]
				if found == -1 || g < found {
					found = g
					upto = b.Index - j.off[g] // index of the chunk event within the group (1-based chunk)
				}
			}
		}
		if found == -1 {
			return prog
		}
		prog = cands[which[found]][:upto]
		c.Logf("shrink round %d: %d nodes", r+1, progSize(prog))
	}
	return prog
}

var _ = time.Second
