// C15 — core language programs evaluate as the language reference specifies.
//
// Specification: spec/ElvCore (ElvCore.tla + ElvCoreValues.tla + ElvCoreBuiltins.tla), the reference
// semantics written from website/ref/language.md as recursive TLA+ operators over JSON ASTs.
// V: a seeded type-directed Go generator (elvcore.Gen) produces programs (AST JSON + rendered
//
//	source, re-parsed by the real parser); the real Evaler runs every top-level chunk with capture
//	ports; TLC (TraceElvCore) evaluates the same ASTs with EvalChunk and requires exactly the
//	recorded value output and exception cause, carrying the state across the chunks of a program.
//
// The Go side contains no oracle.
package main

import (
	"encoding/json"
	"fmt"
	"os"
	"time"

	"verif.local/harness/checks/c15/elvcore"
	"verif.local/harness/elv"
	"verif.local/harness/lib"
)

func main() { lib.Main("C15", run) }

// Event is one line of the recorded trace.
type Event struct {
	Ev  string        `json:"ev"`
	Ast *elvcore.Node `json:"ast"`
	Out []any         `json:"out"`
	Exc elvcore.J     `json:"exc"`
	Src string        `json:"src"` // rendered source (ignored by the specification)
}

func resetEvent() Event {
	return Event{Ev: "reset", Ast: elvcore.Chunk(), Out: []any{}, Exc: elvcore.J{"c": "ok"}}
}

// features covered by spec and generator at this point of the growth
var features = elvcore.Features{Control: true, Fn: true, Exc: true, Logic: true, XCap: true, ErrRate: 3}

// runProgram renders and runs the chunks of one program on a fresh Evaler and records the events.
func runProgram(chunks []*elvcore.Node) ([]Event, error) {
	ev := elv.New()
	evs := []Event{resetEvent()}
	for _, ch := range chunks {
		src, err := elvcore.CheckRender(ch)
		if err != nil {
			return nil, lib.Infra("renderer defect: %v", err)
		}
		o := elv.RunCtx(ev, src, nil, 20*time.Second)
		if o.Timeout {
			return nil, lib.Infra("evaluation of a bounded program did not finish: %s", src)
		}
		if o.Panic != "" {
			return nil, lib.Infra("evaluation panicked (C17's subject, not judged here): %s\n%s", src, o.Panic)
		}
		switch elvcore.ErrKind(o.Err) {
		case "parse", "compile", "other":
			return nil, lib.Infra("generated chunk has a static error (generator defect): %v\n%s", o.Err, src)
		}
		cause, ok := elvcore.ClassifyErr(o.Err)
		if !ok {
			return nil, lib.Infra("unclassifiable exception %v from: %s", cause["text"], src)
		}
		if len(o.Bytes) > 0 {
			return nil, lib.Infra("core program wrote bytes %q: %s", o.Bytes, src)
		}
		evs = append(evs, Event{Ev: "chunk", Ast: ch, Out: elvcore.ProjectValues(o.Values), Exc: cause, Src: src})
	}
	return evs, nil
}

type judged struct {
	bad  []lib.BadCase
	flat []Event
	grp  []int // index of the program of each flat event
	off  []int // start of each program in flat
}

func judge(c *lib.Ctx, name string, progs [][]Event, par int) (*judged, error) {
	j := &judged{}
	for gi, p := range progs {
		j.off = append(j.off, len(j.flat))
		for range p {
			j.grp = append(j.grp, gi)
		}
		j.flat = append(j.flat, p...)
	}
	bad, err := lib.JudgeGroups(c, name, c.SpecDir("ElvCore"), "TraceElvCore", progs, par, 10*time.Minute)
	if err != nil {
		return nil, err
	}
	j.bad = bad
	return j, nil
}

func run(c *lib.Ctx) error {
	if c.Replay != "" {
		return replay(c)
	}
	c.Set("features", features.Names())
	c.Set("rule", "V: one case per top-level chunk evaluated by the real Evaler and by EvalChunk; distinct by rendered source; chunks that only declare variables without output or exception are not counted as non-trivial")

	nprog := c.Pick(500, 12000)
	if s := os.Getenv("VERIF_C15_N"); s != "" { // development only
		fmt.Sscan(s, &nprog)
	}
	progs := make([][]Event, nprog)
	errs := make([]error, nprog)
	lib.Parallel(nprog, 8, func(i int) {
		g := elvcore.NewGen(c.Seed*1_000_003+int64(i), features)
		chunks := g.Program(1+int(g.R.Intn(4)), 4, 3, 400)
		progs[i], errs[i] = runProgram(chunks)
	})
	for _, e := range errs {
		if e != nil {
			return e
		}
	}
	nchunks, excs := 0, 0
	causes := map[string]int{}
	kinds := map[string]int{}
	for _, p := range progs {
		for _, e := range p[1:] {
			e.Ast.Walk(func(n *elvcore.Node) {
				k := n.T
				if k == "cmd" && n.Head.T == "name" {
					k = "cmd:" + n.Head.Name
				}
				kinds[k]++
			})
			nchunks++
			c.AddEvals(1)
			cc := e.Exc["c"].(string)
			causes[cc]++
			if cc != "ok" {
				excs++
			}
			if len(e.Out) > 0 || cc != "ok" {
				c.Distinct(e.Src)
			}
		}
	}
	c.Sample(progs[0])
	c.Set("programs", nprog)
	c.Set("chunks", nchunks)
	c.Set("cause_histogram", causes)
	c.Set("node_kinds", kinds)

	j, err := judge(c, "TraceElvCore(V)", progs, 8)
	if err != nil {
		return err
	}
	oom := 0
	for _, b := range j.bad {
		kind, _ := b.Info[0].(string)
		if kind == "oom" {
			oom++
			continue
		}
		gi := j.grp[b.Index]
		e := j.flat[b.Index]
		want := ""
		if len(b.Info) > 1 {
			want, _ = b.Info[1].(string)
		}
		got, _ := json.Marshal(map[string]any{"out": e.Out, "exc": e.Exc})
		c.Reject("elvcore:"+e.Exc["c"].(string), fmt.Sprintf("chunk `%s`: real Evaler gave %s; reference semantics prescribes %s", e.Src, got, want),
			j.flat[j.off[gi]:b.Index+1])
	}
	c.AddTraces(nprog)
	c.Set("out_of_model_programs", oom)
	c.Logf("V: %d programs, %d chunks (%d with exception), %d programs left the model, %d rejected", nprog, nchunks, excs, oom, len(j.bad)-oom)
	if oom*2 > nprog {
		return lib.Infra("more than half of the programs (%d of %d) left the model: generator and specification have drifted apart", oom, nprog)
	}
	c.Assume("TLC trusted; Go side: generator, renderer (checked by re-parsing with the real parser and lifting back to the same AST), projection of values and classification of exception reasons (elvcore/project.go); numbers restricted to |n| < 2^15, strings used as numbers to canonical decimal form (else OutOfModel, skipped and counted)")
	return nil
}

func replay(c *lib.Ctx) error {
	b, err := os.ReadFile(c.Replay)
	if err != nil {
		return lib.Infra("%v", err)
	}
	var f struct {
		Case []struct {
			Ev  string          `json:"ev"`
			Src string          `json:"src"`
			Ast json.RawMessage `json:"ast"`
		} `json:"case"`
	}
	if err := json.Unmarshal(b, &f); err != nil {
		return lib.Infra("%v", err)
	}
	// re-run the recorded sources on a fresh Evaler; the ASTs are taken verbatim
	ev := elv.New()
	type rawEvent struct {
		Ev  string          `json:"ev"`
		Ast json.RawMessage `json:"ast"`
		Out []any           `json:"out"`
		Exc elvcore.J       `json:"exc"`
		Src string          `json:"src"`
	}
	var evs []rawEvent
	for _, e := range f.Case {
		if e.Ev == "reset" {
			ev = elv.New()
			evs = append(evs, rawEvent{Ev: "reset", Ast: e.Ast, Out: []any{}, Exc: elvcore.J{"c": "ok"}})
			continue
		}
		o := elv.RunCtx(ev, e.Src, nil, 20*time.Second)
		if o.Timeout || o.Panic != "" {
			return lib.Infra("replay: evaluation hung or panicked: %s", e.Src)
		}
		cause, _ := elvcore.ClassifyErr(o.Err)
		evs = append(evs, rawEvent{Ev: "chunk", Ast: e.Ast, Out: elvcore.ProjectValues(o.Values), Exc: cause, Src: e.Src})
	}
	bad, err := lib.JudgeGroups(c, "TraceElvCore(replay)", c.SpecDir("ElvCore"), "TraceElvCore", [][]rawEvent{evs}, 1, 5*time.Minute)
	if err != nil {
		return err
	}
	for _, bc := range bad {
		if k, _ := bc.Info[0].(string); k == "oom" {
			continue
		}
		e := evs[bc.Index]
		c.Reject("elvcore:"+e.Exc["c"].(string), fmt.Sprintf("chunk `%s` rejected: %v", e.Src, bc.Info), evs[:bc.Index+1])
	}
	return nil
}
