// C15 — core language programs evaluate as the language reference specifies.
//
// Specification: spec/ElvCore (ElvCore.tla + ElvCoreValues.tla + ElvCoreBuiltins.tla), the reference
// semantics written from website/ref/language.md as recursive TLA+ operators over JSON ASTs.
// V: a seeded type-directed Go generator (elvcore.Gen) produces programs (AST JSON + rendered
//
//	source, re-parsed by the real parser); the real Evaler runs every top-level chunk with capture
//	ports; TLC (TraceElvCore) evaluates the same ASTs with EvalChunk and requires exactly the
//	recorded value output and exception cause, carrying the state across the chunks of a program.
//
// The Go side contains no oracle.
package main

import (
	"encoding/json"
	"fmt"
	"os"
	"strings"
	"sync"
	"time"

	"src.elv.sh/pkg/parse"
	"verif.local/harness/checks/c15/elvcore"
	"verif.local/harness/elv"
	"verif.local/harness/lib"
)

func main() { lib.Main("C15", run) }

type Event = elvcore.Event

func resetEvent() Event { return elvcore.ResetEvent() }

// features covered by spec and generator at this point of the growth
var features = elvcore.CoreFeatures

func runProgram(chunks []*elvcore.Node, mods ...elvcore.Module) ([]Event, error) {
	evs, err := elvcore.RunProgram(chunks, mods...)
	if err != nil {
		return nil, lib.Infra("%v", err)
	}
	return evs, nil
}

// directed parses the corpus programs with the real parser and lifts them to ASTs.
type dirProg struct {
	chunks []*elvcore.Node
	mods   []elvcore.Module
}

// A corpus chunk of the form `#mod NAME: SOURCE` defines an in-memory module of the program.
func directed() ([]dirProg, error) {
	var out []dirProg
	srcs := corpus
	if p := os.Getenv("VERIF_C15_PROBE"); p != "" { // development: one program, one chunk per line
		b, err := os.ReadFile(p)
		if err != nil {
			return nil, lib.Infra("%v", err)
		}
		srcs = [][]string{strings.Split(strings.TrimSpace(string(b)), "\n")}
	}
	for _, prog := range srcs {
		var chunks []*elvcore.Node
		var mods []elvcore.Module
		for _, src := range prog {
			modName := ""
			if strings.HasPrefix(src, "#mod ") {
				i := strings.Index(src, ": ")
				modName, src = src[5:i], src[i+2:]
			}
			tree, err := parse.Parse(parse.Source{Name: "[corpus]", Code: src}, parse.Config{})
			if err != nil {
				return nil, lib.Infra("corpus chunk does not parse: %q: %v", src, err)
			}
			n, err := elvcore.LiftChunk(tree.Root)
			if err != nil {
				return nil, lib.Infra("corpus chunk outside the AST schema: %q: %v", src, err)
			}
			if modName != "" {
				mods = append(mods, elvcore.Module{Name: modName, Ast: n})
				continue
			}
			chunks = append(chunks, n)
		}
		out = append(out, dirProg{chunks, mods})
	}
	return out, nil
}

type judged struct {
	bad  []lib.BadCase
	flat []Event
	grp  []int // index of the program of each flat event
	off  []int // start of each program in flat
}

func judge(c *lib.Ctx, name string, progs [][]Event, par int) (*judged, error) {
	j := &judged{}
	for gi, p := range progs {
		j.off = append(j.off, len(j.flat))
		for range p {
			j.grp = append(j.grp, gi)
		}
		j.flat = append(j.flat, p...)
	}
	bad, err := lib.JudgeGroups(c, name, c.SpecDir("ElvCore"), "TraceElvCore", progs, par, 10*time.Minute)
	if err != nil {
		return nil, err
	}
	j.bad = bad
	return j, nil
}

// canon: canonical JSON text of a value (object keys sorted, numbers as written by encoding/json)
func canon(v any) string {
	b, _ := json.Marshal(v)
	var x any
	json.Unmarshal(b, &x)
	b, _ = json.Marshal(x)
	return string(b)
}

// generated: M + G.  TLC enumerates the template programs (GenElvCore), checks the meta-theorems
// on each, and emits it with the prescribed output and cause; each is rendered and run on a
// fresh Evaler and compared.
func generated(c *lib.Ctx) error {
	depth := c.Pick(2, 3)
	c.Set("gen_depth", depth)
	cfg := fmt.Sprintf("CONSTANT Depth = %d\nSPECIFICATION Spec\nINVARIANT FinallyRuns\nINVARIANT ElseIffNoThrow\nINVARIANT BreakContained\nINVARIANT ReturnContained\nINVARIANT LogicOneValue\nINVARIANT CaptureTotal\nINVARIANT ChunkStops\nINVARIANT Restored\nINVARIANT DeferRuns\nINVARIANT Emit\n", depth)
	r, err := c.TLC("GenElvCore", lib.TLCRun{Dir: c.SpecDir("ElvCore"), Module: "GenElvCore", Workers: 6, Timeout: 12 * time.Minute, HeapGB: 8,
		Files: map[string][]byte{"GenElvCore.cfg": []byte(cfg)}})
	if err != nil {
		return err
	}
	if r.ErrKind != "" {
		return lib.Infra("the reference semantics violates its own meta-theorem %s %s:\n%s", r.ErrKind, r.ErrName, r.ErrTrace)
	}
	lines := r.PrintedStrings()
	seen := map[string]bool{}
	type gcase struct {
		Ast *elvcore.Node `json:"ast"`
		Oom bool          `json:"oom"`
		Out []any         `json:"out"`
		Byt []int         `json:"bytes"`
		Exc any           `json:"exc"`
	}
	var cases []gcase
	for _, l := range lines {
		if seen[l] {
			continue
		}
		seen[l] = true
		var k gcase
		if err := json.Unmarshal([]byte(l), &k); err != nil {
			return lib.Infra("bad program from TLC: %v: %.300s", err, l)
		}
		cases = append(cases, k)
	}
	if int64(len(cases)) != r.Distinct {
		return lib.Infra("TLC found %d programs but emitted %d", r.Distinct, len(cases))
	}
	c.Logf("G: %d template programs of nesting depth <= %d, meta-theorems hold", len(cases), depth)
	errs := make([]error, len(cases))
	oom := 0
	var mu sync.Mutex
	lib.Parallel(len(cases), 8, func(i int) {
		k := cases[i]
		evs, err := runProgram([]*elvcore.Node{k.Ast})
		if err != nil {
			errs[i] = err
			return
		}
		e := evs[1]
		c.AddEvals(1)
		c.Distinct(e.Src)
		mu.Lock()
		defer mu.Unlock()
		if i < 2 {
			c.Sample(map[string]any{"src": e.Src, "prescribed": map[string]any{"out": k.Out, "exc": k.Exc}})
		}
		if k.Oom {
			oom++
			return
		}
		if k.Out == nil {
			k.Out = []any{}
		}
		if k.Byt == nil {
			k.Byt = []int{}
		}
		if canon(k.Out) != canon(e.Out) || canon(k.Exc) != canon(e.Exc) || canon(k.Byt) != canon(e.Byt) {
			c.Reject("elvcore-gen:"+e.Exc["c"].(string), fmt.Sprintf("program `%s`: reference semantics prescribes out=%s bytes=%s exc=%s; real Evaler gave out=%s bytes=%s exc=%s",
				e.Src, canon(k.Out), canon(k.Byt), canon(k.Exc), canon(e.Out), canon(e.Byt), canon(e.Exc)), []Event{resetEvent(), e})
		}
	})
	for _, e := range errs {
		if e != nil {
			return e
		}
	}
	c.AddTraces(len(cases))
	c.Set("gen_programs", len(cases))
	c.Set("gen_out_of_model", oom)
	c.Set("exhaustive", true)
	return nil
}

func run(c *lib.Ctx) error {
	if c.Replay != "" {
		return replay(c)
	}
	c.Set("features", features.Names())
	if os.Getenv("VERIF_C15_NOGEN") == "" { // development switch
		if err := generated(c); err != nil {
			return err
		}
	}
	c.Set("rule", "V: one case per top-level chunk evaluated by the real Evaler and by EvalChunk; distinct by rendered source; chunks that only declare variables without output or exception are not counted as non-trivial")

	nprog := c.Pick(800, 30000)
	if s := os.Getenv("VERIF_C15_N"); s != "" { // development only
		fmt.Sscan(s, &nprog)
	}
	dir, err := directed()
	if err != nil {
		return err
	}
	ndir := len(dir)
	c.Set("directed_programs", ndir)
	nprog += ndir
	progs := make([][]Event, nprog)
	errs := make([]error, nprog)
	lib.Parallel(nprog, 8, func(i int) {
		if i < ndir {
			progs[i], errs[i] = runProgram(dir[i].chunks, dir[i].mods...)
			return
		}
		g := elvcore.NewGen(c.Seed*1_000_003+int64(i), features)
		depth := 3
		if c.Thorough() && i%3 == 0 {
			depth = 4
		}
		chunks := g.Program(1+int(g.R.Intn(4)), 4, depth, 200*depth)
		progs[i], errs[i] = runProgram(chunks, g.Mods...)
	})
	for _, e := range errs {
		if e != nil {
			return e
		}
	}
	nchunks, excs := 0, 0
	causes := map[string]int{}
	kinds := map[string]int{}
	for _, p := range progs {
		for _, e := range p[1:] {
			e.Ast.Walk(func(n *elvcore.Node) {
				k := n.T
				if k == "cmd" && n.Head.T == "name" {
					k = "cmd:" + n.Head.Name
				}
				kinds[k]++
			})
			nchunks++
			c.AddEvals(1)
			cc := e.Exc["c"].(string)
			causes[cc]++
			if cc != "ok" {
				excs++
			}
			if len(e.Out) > 0 || cc != "ok" {
				c.Distinct(e.Src)
			}
		}
	}
	c.Sample(progs[0])
	c.Set("programs", nprog)
	c.Set("chunks", nchunks)
	c.Set("cause_histogram", causes)
	c.Set("node_kinds", kinds)

	j, err := judge(c, "TraceElvCore(V)", progs, 8)
	if err != nil {
		return err
	}
	oom := 0
	shrunk := 0
	oomWhy := map[string]int{}
	for _, b := range j.bad {
		kind, _ := b.Info[0].(string)
		if kind == "oom" {
			oom++
			why := "?"
			if len(b.Info) > 1 {
				why, _ = b.Info[1].(string)
			}
			oomWhy[why]++
			if oom <= 6 {
				c.Logf("out of model (%s): %.200s", why, j.flat[b.Index].Src)
			}
			continue
		}
		gi := j.grp[b.Index]
		e := j.flat[b.Index]
		want := ""
		if len(b.Info) > 1 {
			want, _ = b.Info[1].(string)
		}
		got, _ := json.Marshal(map[string]any{"out": e.Out, "bytes": e.Byt, "exc": e.Exc})
		what := fmt.Sprintf("chunk `%s`: real Evaler gave %s; reference semantics prescribes %s", e.Src, got, want)
		kase := j.flat[j.off[gi] : b.Index+1]
		if shrunk < 3 && os.Getenv("VERIF_C15_NOSHRINK") == "" {
			// minimise the program (verdicts of the reductions come from TLC as well)
			shrunk++
			var prog []*elvcore.Node
			for _, pe := range kase[1:] {
				prog = append(prog, pe.Ast)
			}
			var mods []elvcore.Module
			for _, m := range kase[0].Mods {
				mods = append(mods, elvcore.Module{Name: m[0].(string), Ast: m[1].(*elvcore.Node)})
			}
			min := shrink(c, prog, mods, 8)
			if evs, err := elvcore.RunProgram(min, mods...); err == nil {
				var srcs []string
				for _, pe := range evs[1:] {
					srcs = append(srcs, pe.Src)
				}
				what += fmt.Sprintf("; minimal program still rejected: %s", strings.Join(srcs, " ;; "))
				kase = evs
			}
		}
		c.Reject("elvcore:"+e.Exc["c"].(string), what, kase)
	}
	c.AddTraces(nprog)
	c.Set("out_of_model_programs", oom)
	c.Set("out_of_model_reasons", oomWhy)
	c.Logf("V: %d programs, %d chunks (%d with exception), %d programs left the model, %d rejected", nprog, nchunks, excs, oom, len(j.bad)-oom)
	if oom*2 > nprog {
		return lib.Infra("more than half of the programs (%d of %d) left the model: generator and specification have drifted apart", oom, nprog)
	}
	c.Assume("TLC trusted; Go side: generator, renderer (checked by re-parsing with the real parser and lifting back to the same AST), projection of values and classification of exception reasons (elvcore/project.go); numbers restricted to |n| < 2^15, strings used as numbers to canonical decimal form (else OutOfModel, skipped and counted)")
	return nil
}

func replay(c *lib.Ctx) error {
	b, err := os.ReadFile(c.Replay)
	if err != nil {
		return lib.Infra("%v", err)
	}
	var f struct {
		Case []struct {
			Ev   string              `json:"ev"`
			Src  string              `json:"src"`
			Ast  json.RawMessage     `json:"ast"`
			Mods [][]json.RawMessage `json:"mods"`
		} `json:"case"`
	}
	if err := json.Unmarshal(b, &f); err != nil {
		return lib.Infra("%v", err)
	}
	// re-run the recorded sources on a fresh Evaler; the ASTs are taken verbatim
	ev := elv.New()
	type rawEvent struct {
		Ev   string              `json:"ev"`
		Ast  json.RawMessage     `json:"ast"`
		Out  []any               `json:"out"`
		Byt  []int               `json:"bytes"`
		Exc  elvcore.J           `json:"exc"`
		Src  string              `json:"src"`
		Mods [][]json.RawMessage `json:"mods"`
	}
	var evs []rawEvent
	for _, e := range f.Case {
		if e.Ev == "reset" {
			var mods []elvcore.Module
			for _, m := range e.Mods {
				var name string
				if len(m) != 2 || json.Unmarshal(m[0], &name) != nil {
					return lib.Infra("replay: bad module entry")
				}
				ast, err := elvcore.FromJSON(m[1])
				if err != nil {
					return lib.Infra("replay: %v", err)
				}
				mods = append(mods, elvcore.Module{Name: name, Ast: ast})
			}
			var err error
			if ev, err = elvcore.NewEvaler(mods); err != nil {
				return lib.Infra("%v", err)
			}
			if e.Mods == nil {
				e.Mods = [][]json.RawMessage{}
			}
			evs = append(evs, rawEvent{Ev: "reset", Ast: e.Ast, Out: []any{}, Byt: []int{}, Exc: elvcore.J{"c": "ok"}, Mods: e.Mods})
			continue
		}
		o := elv.RunCtx(ev, e.Src, nil, 20*time.Second)
		if o.Timeout || o.Panic != "" {
			return lib.Infra("replay: evaluation hung or panicked: %s", e.Src)
		}
		cause, _ := elvcore.ClassifyErr(o.Err)
		evs = append(evs, rawEvent{Ev: "chunk", Ast: e.Ast, Out: elvcore.ProjectValues(o.Values), Byt: elvcore.BytesJSON(o.Bytes), Exc: cause, Src: e.Src, Mods: [][]json.RawMessage{}})
	}
	bad, err := lib.JudgeGroups(c, "TraceElvCore(replay)", c.SpecDir("ElvCore"), "TraceElvCore", [][]rawEvent{evs}, 1, 5*time.Minute)
	if err != nil {
		return err
	}
	for _, bc := range bad {
		if k, _ := bc.Info[0].(string); k == "oom" {
			continue
		}
		e := evs[bc.Index]
		c.Reject("elvcore:"+e.Exc["c"].(string), fmt.Sprintf("chunk `%s` rejected: %v", e.Src, bc.Info), evs[:bc.Index+1])
	}
	return nil
}
