// C40 — finished evaluations leave no file descriptors or goroutines behind.
// M: MCPortsRes (spec/Ports): small-step execution of program shapes (pipelines, redirections incl. a
//
//	failing one after an opened file, nested captures, input consumers, failing stages at every
//	position) with every interleaving and an interruption at every step: open = {} at return, every
//	open resource has a live owner, the evaluation always returns.
//
// G: every shape of the model is rendered to Elvish and evaluated N times on one Evaler, uninterrupted,
//
//	interrupted at each pipeline start (eval.VerifTrace) and in flight; after every evaluation the
//	projection (|/proc/self/fd| - baseline, NumGoroutine - baseline) must settle at (0,0).
//
// V: random larger programs (pipelines <= 4, captures nested <= 3, peach, run-parallel, loops, try,
//
//	closures, failing stages, interruptions), same measurement, judged by TLC (JudgePortsRes).
//
// The measured window contains nothing of the check's own: no TLC, no temp files, one goroutine.
package main

import (
	"context"
	"encoding/json"
	"fmt"
	"math/rand"
	"os"
	"runtime"
	"runtime/debug"
	"strings"
	"sync/atomic"
	"syscall"
	"time"

	"src.elv.sh/pkg/eval"
	"src.elv.sh/pkg/parse"
	"verif.local/harness/elv"
	"verif.local/harness/lib"
)

func main() { lib.Main("C40", run) }

// ---- abstract program shapes (same field names as the TLA+ records)

type Body struct {
	K   string   `json:"k"`
	Sub [][]Form `json:"sub"`
}

type Form struct {
	Redirs []string `json:"redirs"`
	Body   Body     `json:"body"`
}

type Shape = []Form

type GCase struct {
	Shape  Shape `json:"shape"`
	Fails  bool  `json:"fails"`
	NPipes int   `json:"npipes"`
}

// ---- concretisation: shape -> Elvish

type renderer struct {
	dir string
	// stdinRedirOK: redirecting port 0 of a piped form does not fault on this tree (see C42's
	// finding redir:stdin-redirected-in-pipeline-panics); when false such shapes are not evaluated.
	stdinRedirOK bool
	salt         int
}

func (r *renderer) redir(kind string, nOut *int) string {
	switch kind {
	case "fileout":
		*nOut++
		r.salt++
		return fmt.Sprintf("%s %s/o%d", []string{">", ">>", "<>"}[r.salt%3], r.dir, *nOut) // every writing operator opens a file the form owns
	case "filein":
		return "< " + r.dir + "/in"
	case "filefail":
		return "< " + r.dir + "/absent"
	case "dupok":
		return "2>&1"
	case "dupbad":
		return ">&9"
	case "close":
		return "2>&-"
	case "dupback":
		return ">&2"
	case "dupin":
		return "3<&0"
	case "dupinback":
		return "<&3"
	}
	panic("unknown redirection kind " + kind)
}

func (r *renderer) form(f Form, longSleep bool) string {
	var head string
	switch f.Body.K {
	case "ok":
		head = "echo x"
	case "fail":
		head = "fail boom"
	case "sleep":
		head = "sleep 0.001"
		if longSleep {
			head = "sleep 20"
		}
	case "consume":
		head = "each {|x| nop $x }"
	case "cap":
		head = "nop (" + r.pipeline(f.Body.Sub[0], longSleep) + ")"
	case "par":
		var bs []string
		for _, p := range f.Body.Sub {
			bs = append(bs, "{ "+r.pipeline(p, longSleep)+" }")
		}
		head = "run-parallel " + strings.Join(bs, " ")
	case "peach":
		head = "peach {|_| " + r.pipeline(f.Body.Sub[0], longSleep) + " } [a b c]"
	case "loop":
		head = "for _ [a b c] { " + r.pipeline(f.Body.Sub[0], longSleep) + " }"
	case "call":
		head = "{ " + r.pipeline(f.Body.Sub[0], longSleep) + " }"
	case "try":
		head = "try { " + r.pipeline(f.Body.Sub[0], longSleep) + " } catch e { nop $e }"
	default:
		panic("unknown body kind " + f.Body.K)
	}
	nOut := 0
	for _, k := range f.Redirs {
		head += " " + r.redir(k, &nOut)
	}
	return head
}

func (r *renderer) program(p []Form, longSleep bool) string {
	r.salt = len(p) + len(p[0].Redirs)
	return r.pipeline(p, longSleep)
}

func (r *renderer) pipeline(p []Form, longSleep bool) string {
	var fs []string
	for _, f := range p {
		fs = append(fs, r.form(f, longSleep))
	}
	return strings.Join(fs, " | ")
}

// retargetsPipedStdin: some form that reads from a pipe has a redirection of port 0.
func retargetsPipedStdin(p []Form) bool {
	for i, f := range p {
		if i > 0 {
			for _, k := range f.Redirs {
				if k == "filein" || k == "dupinback" {
					return true
				}
			}
		}
		for _, s := range f.Body.Sub {
			if retargetsPipedStdin(s) {
				return true
			}
		}
	}
	return false
}

// dupFamily: a form with three redirections (an owned port duplicated and redirected back / again).
func dupFamily(p []Form) bool {
	for _, f := range p {
		if len(f.Redirs) >= 3 {
			return true
		}
	}
	return false
}

func hasKind(p []Form, k string) bool {
	for _, f := range p {
		if f.Body.K == k {
			return true
		}
		for _, s := range f.Body.Sub {
			if hasKind(s, k) {
				return true
			}
		}
	}
	return false
}

// ---- measurement

type sample struct{ Fd, Go int }

func measure() sample {
	ents, err := os.ReadDir("/proc/self/fd")
	if err != nil {
		panic("cannot list /proc/self/fd: " + err.Error())
	}
	return sample{len(ents), runtime.NumGoroutine()}
}

// stableSample waits until three consecutive samples (>= 300us apart) agree.
func stableSample(limit time.Duration) (sample, bool) {
	deadline := time.Now().Add(limit)
	last := measure()
	same := 1
	for time.Now().Before(deadline) {
		time.Sleep(300 * time.Microsecond)
		s := measure()
		if s == last {
			same++
			if same >= 3 {
				return s, true
			}
		} else {
			last, same = s, 1
		}
	}
	return last, false
}

// settle samples after an evaluation: at once, then until the projection is back at the baseline or
// has stayed elsewhere for the whole limit (15 s: generous on purpose; a real leak is permanent, a slow
// machine must never turn a late goroutine exit into a verdict). stable=false: the count kept
// changing at the end (exit 2).
func settle(base sample) (delta sample, stable bool) {
	s := measure()
	if s == base {
		return sample{}, true
	}
	deadline := time.Now().Add(15 * time.Second)
	wait := 50 * time.Microsecond
	var hist []sample
	for time.Now().Before(deadline) {
		time.Sleep(wait)
		if wait < 20*time.Millisecond {
			wait *= 2
		}
		s = measure()
		if s == base {
			return sample{}, true
		}
		hist = append(hist, s)
	}
	n := len(hist)
	stable = n >= 3 && hist[n-1] == hist[n-2] && hist[n-2] == hist[n-3]
	return sample{s.Fd - base.Fd, s.Go - base.Go}, stable
}

// ---- running one evaluation

func (r *runner) evalOnWorker(j job) (res result) {
	defer func() {
		if p := recover(); p != nil {
			res.Panic = fmt.Sprintf("%v | %s", p, strings.Join(strings.Fields(string(debug.Stack())), " "))
		}
	}()
	res.Err = r.ev.Eval(parse.Source{Name: "[c40]", Code: j.code}, eval.EvalCfg{Interrupts: j.ctx, Ports: []*eval.Port{nil, r.out, r.out}})
	return res
}

type job struct {
	code string
	ctx  context.Context
}

type runner struct {
	jobs      chan job
	results   chan result
	ev        *eval.Evaler
	out       *eval.Port // the caller's ports 1 and 2: /dev/null opened for writing once, outside every measured window
	cancelAt  int32      // cancel the context at the k-th pipeline.enter (0 = never)
	enters    int32
	cancel    context.CancelFunc
	cancelled atomic.Bool
}

func newRunner() *runner {
	r := &runner{ev: elv.New()}
	null, err := os.OpenFile(os.DevNull, os.O_WRONLY, 0)
	if err != nil {
		panic(err)
	}
	r.out = &eval.Port{File: null, Chan: eval.BlackholeChan}
	r.jobs, r.results = make(chan job), make(chan result, 1)
	go func() {
		for j := range r.jobs {
			r.results <- r.evalOnWorker(j)
		}
	}()
	eval.VerifTrace = func(ev *eval.Evaler, fm *eval.Frame, point string) {
		if ev != r.ev || point != "pipeline.enter" {
			return
		}
		n := atomic.AddInt32(&r.enters, 1)
		if k := atomic.LoadInt32(&r.cancelAt); k > 0 && n == k {
			r.cancelled.Store(true)
			r.cancel()
		}
	}
	return r
}

type result struct {
	Err     error
	Panic   string
	Timeout bool
	Intr    bool
}

// eval evaluates code. cancelAt > 0: interrupt at that pipeline start; inflight > 0: interrupt that
// long after the start. The watchdog only turns a hang into exit 2.
func (r *runner) eval(code string, cancelAt int, inflight time.Duration) result {
	ctx, cancel := context.WithCancel(context.Background())
	defer cancel()
	r.cancel = cancel
	r.cancelled.Store(false)
	atomic.StoreInt32(&r.enters, 0)
	atomic.StoreInt32(&r.cancelAt, int32(cancelAt))
	var timer *time.Timer
	if inflight > 0 {
		timer = time.AfterFunc(inflight, func() { r.cancelled.Store(true); cancel() })
	}
	// the evaluation runs on the runner's one long-lived worker goroutine (part of every baseline), so
	// that no goroutine of the check's own starts or ends inside a measured window
	r.jobs <- job{code, ctx}
	var res result
	watchdog := time.NewTimer(180 * time.Second)
	select {
	case res = <-r.results:
		watchdog.Stop()
	case <-watchdog.C:
		return result{Timeout: true}
	}
	if timer != nil {
		timer.Stop()
	}
	res.Intr = r.cancelled.Load()
	return res
}

type VCase struct {
	Shape  Shape  `json:"shape"`
	Intr   bool   `json:"intr"`
	PFail  bool   `json:"pfail"`
	Flaky  bool   `json:"flaky"`  // raised in one evaluation and not in another without interruption
	Strict bool   `json:"strict"` // a shape of the model (G): the outcome is compared both ways
	Exc    bool   `json:"exc"`
	Fd     int    `json:"fd"`
	Go     int    `json:"go"`
	Bg     bool   `json:"bg"`
	Code   string `json:"code"`
	How    string `json:"how"` // plain | start:k | inflight | pipefail
	N      int    `json:"n"`   // number of evaluations summarised (worst projection kept)
}

type variant struct {
	how      string
	cancelAt int
	inflight time.Duration
	long     bool
	pipefail bool // the second pipe of the top pipeline cannot be created (descriptor limit)
}

const keyPipeFail = "leak:pipe-creation-failure"

// withFdLimit runs f with the soft RLIMIT_NOFILE lowered so that exactly `spare` descriptor numbers
// are free; the limit is restored before anything is measured.
func withFdLimit(spare int, f func()) error {
	d, err := os.Open("/proc/self/fd")
	if err != nil {
		return err
	}
	names, err := d.Readdirnames(-1)
	self := int(d.Fd())
	d.Close()
	if err != nil {
		return err
	}
	used := map[int]bool{}
	for _, name := range names {
		var n int
		if _, err := fmt.Sscanf(name, "%d", &n); err == nil && n != self { // the listing's own descriptor is free again
			used[n] = true
		}
	}
	limit, free := 0, 0
	for free < spare {
		if !used[limit] {
			free++
		}
		limit++
	}
	var old syscall.Rlimit
	if err := syscall.Getrlimit(syscall.RLIMIT_NOFILE, &old); err != nil {
		return err
	}
	lim := old
	lim.Cur = uint64(limit)
	if err := syscall.Setrlimit(syscall.RLIMIT_NOFILE, &lim); err != nil {
		return err
	}
	defer syscall.Setrlimit(syscall.RLIMIT_NOFILE, &old)
	f()
	return nil
}

// pipeFailApplies: three forms at the top, the first of which needs no descriptor of its own.
func pipeFailApplies(s Shape) bool {
	if len(s) != 3 || len(s[0].Body.Sub) > 0 {
		return false
	}
	for _, k := range s[0].Redirs {
		if k == "fileout" || k == "filein" || k == "filefail" {
			return false
		}
	}
	return true
}

// evaluateN evaluates one program n times under one variant and returns the recorded case (the worst
// projection over the n evaluations; it must be (0,0) every time).
func evaluateN(c *lib.Ctx, r *runner, rd *renderer, shape Shape, v variant, n int) (VCase, error) {
	code := rd.program(shape, v.long)
	vc := VCase{Shape: shape, Code: strings.ReplaceAll(code, rd.dir, "DIR"), How: v.how, N: n}
	runtime.GC()
	time.Sleep(time.Millisecond)
	runtime.GC() // let finalizers of earlier garbage run before the baseline is taken
	base, ok := stableSample(20 * time.Second)
	if !ok {
		return vc, lib.Infra("baseline of the fd/goroutine projection is not stable before %q", vc.Code)
	}
	old := debug.SetGCPercent(-1) // finalizers must not close a leaked file behind our back
	defer debug.SetGCPercent(old)
	rebase := 0
	for i := 0; i < n; i++ {
		var res result
		if v.pipefail {
			// room for exactly one pipe (two descriptors): the pipe after the second form cannot be created
			if err := withFdLimit(2, func() { res = r.eval(code, 0, 0) }); err != nil {
				return vc, lib.Infra("cannot lower RLIMIT_NOFILE: %v", err)
			}
			if res.Err == nil || !strings.Contains(res.Err.Error(), "failed to create pipe") {
				return vc, lib.Infra("%q under the descriptor limit: expected the pipe creation to fail, got %v", vc.Code, res.Err)
			}
			vc.PFail = true
		} else {
			res = r.eval(code, v.cancelAt, v.inflight)
		}
		c.AddEvals(1)
		if res.Timeout {
			return vc, lib.Infra("evaluation of %q (%s) did not return within 180 s", vc.Code, v.how)
		}
		if res.Panic != "" {
			return vc, lib.Infra("evaluation of %q (%s) faulted: %.300s", vc.Code, v.how, res.Panic)
		}
		if cls := elv.ErrClass(res.Err); cls == "parse" || cls == "compile" {
			return vc, lib.Infra("generator produced a program that does not compile: %q: %v", vc.Code, res.Err)
		}
		d, stable := settle(base)
		if stable && (d.Fd < 0 || d.Go < 0) && rebase < 8 {
			// something older went away (e.g. a file leaked by an earlier, already reported case was
			// finalised): the baseline moved, this is not a measurement of this evaluation
			rebase++
			if base, ok = stableSample(20 * time.Second); !ok {
				return vc, lib.Infra("baseline of the fd/goroutine projection is not stable before %q", vc.Code)
			}
			i--
			continue
		}
		if !stable {
			return vc, lib.Infra("fd/goroutine projection did not settle after %q (%s): last %+v", vc.Code, v.how, d)
		}
		vc.Fd, vc.Go = d.Fd, d.Go
		vc.Intr = vc.Intr || res.Intr
		if i == 0 {
			vc.Exc = res.Err != nil
		} else if !vc.Intr && vc.Exc != (res.Err != nil) {
			// whether it raises depends on the schedule (reader-gone / closed-port races inside peach,
			// run-parallel and pipelines): Unspecified for the outcome clause, the resource clause stays
			vc.Flaky = true
		}
		if d != (sample{}) {
			break // leaked: keep this evaluation's projection
		}
	}
	return vc, nil
}

func shapeKey(s Shape) string {
	b, _ := json.Marshal(s)
	return string(b)
}

func mcCfg(maxForms, level int, emit bool) []byte {
	s := fmt.Sprintf("CONSTANTS MaxForms = %d Level = %d PipeFail = TRUE Emitting = %s\nSPECIFICATION Spec\nINVARIANT CleanAtReturn\nINVARIANT NoOrphans\nINVARIANT OutcomeOK\n",
		maxForms, level, map[bool]string{true: "TRUE", false: "FALSE"}[emit])
	if emit {
		s += "INVARIANT Emit\n"
	}
	return []byte(s)
}

func run(c *lib.Ctx) error {
	dir := c.SpecDir("Ports")
	scratch, err := os.MkdirTemp("", "c40-")
	if err != nil {
		return lib.Infra("%v", err)
	}
	defer os.RemoveAll(scratch)
	if err := os.WriteFile(scratch+"/in", []byte("l1\nl2\n"), 0o644); err != nil {
		return lib.Infra("%v", err)
	}
	rd := &renderer{dir: scratch}
	r := newRunner()
	defer func() { eval.VerifTrace = nil }()
	c.Set("rule", "one case per (program shape, interruption variant); distinct by that pair; non-trivial = the program creates at least one resource (pipe, redirection file, capture, input merger)")

	if c.Replay != "" {
		return replay(c, r, rd, dir)
	}

	// ---- M + G: the model's shapes
	maxForms, level := 3, 1
	if c.Thorough() {
		maxForms, level = 3, 2
	}
	N := c.Pick(18, 40)
	c.Set("bounds", map[string]any{"MaxForms": maxForms, "Level": level, "N": N})
	tr, err := c.TLC("MCPortsRes", lib.TLCRun{Dir: dir, Module: "MCPortsRes", Workers: 4, Timeout: 40 * time.Minute, HeapGB: 8, Deadlock: true,
		Files: map[string][]byte{"MCPortsRes.cfg": mcCfg(maxForms, level, true)}})
	if err != nil {
		return err
	}
	if tr.ErrKind != "" {
		return lib.Infra("the resource model violates its own property %s %s:\n%s", tr.ErrKind, tr.ErrName, tr.ErrTrace)
	}
	seen := map[string]bool{}
	var shapes []GCase
	for _, s := range tr.PrintedStrings() {
		var g GCase
		if err := json.Unmarshal([]byte(s), &g); err != nil {
			return lib.Infra("bad shape from TLC: %v: %.200s", err, s)
		}
		if k := shapeKey(g.Shape); !seen[k] {
			seen[k] = true
			shapes = append(shapes, g)
		}
	}
	c.Logf("model: %d states, %d shapes", tr.Distinct, len(shapes))
	if len(shapes) == 0 {
		return lib.Infra("TLC emitted no shapes")
	}

	// does redirecting port 0 of a piped form fault on this tree? (C42 finding; evaluated in the last,
	// synchronous stage where the fault is recoverable)
	probe := r.eval("echo x | nop < "+scratch+"/in", 0, 0)
	rd.stdinRedirOK = probe.Panic == "" && !probe.Timeout
	c.Set("piped_stdin_redirection_evaluated", rd.stdinRedirOK)

	t0 := time.Now()
	var cases []VCase
	skipped, leaks, pfLeaks := 0, 0, 0
	const maxLeaks = 3 // enough to report; every further one costs the full settle limit
	for i, g := range shapes {
		if !rd.stdinRedirOK && retargetsPipedStdin(g.Shape) {
			skipped++
			continue
		}
		vs := []variant{{how: "plain"}}
		dup3 := dupFamily(g.Shape)
		for k := 1; k <= g.NPipes && k <= 3 && !(dup3 && c.Quick()); k++ {
			vs = append(vs, variant{how: fmt.Sprintf("start:%d", k), cancelAt: k})
		}
		if hasKind(g.Shape, "sleep") {
			vs = append(vs, variant{how: "inflight", inflight: 500 * time.Microsecond, long: true})
		}
		if pipeFailApplies(g.Shape) && pfLeaks < 1 { // a leaking case costs the full settle limit: one is enough to report
			vs = append(vs, variant{how: "pipefail", pipefail: true})
		}
		for _, v := range vs {
			n := N
			if v.how != "plain" || (dup3 && c.Quick()) {
				n = N / 3 // the three-redirection family is large: fewer repetitions in the quick tier
			}
			vc, err := evaluateN(c, r, rd, g.Shape, v, n)
			if err != nil {
				return err
			}
			vc.Strict = true
			if vc.Flaky {
				c.Inc("schedule_dependent_outcomes", 1)
			}
			if v.how == "plain" && !vc.Flaky && vc.Exc != g.Fails {
				return lib.Infra("%q: raised=%v but the model's FailsP=%v: the rendering does not take the intended path", vc.Code, vc.Exc, g.Fails)
			}
			cases = append(cases, vc)
			c.Distinct(shapeKey(g.Shape) + "|" + v.how)
			if (vc.Fd != 0 || vc.Go != 0) && !vc.PFail {
				leaks++
			}
			if (vc.Fd != 0 || vc.Go != 0) && vc.PFail {
				pfLeaks++
			}
		}
		if leaks >= maxLeaks {
			c.Logf("G: %d cases away from the baseline: stopping the enumeration early (each costs the full settle limit)", leaks)
			break
		}
		if i == 7 || i == len(shapes)/2 {
			c.Sample(cases[len(cases)-1])
		}
	}
	c.Set("shapes_skipped_known_c42_defect", skipped)
	c.Logf("G: %d shapes (%d skipped), %d (shape, variant) cases in %.1fs", len(shapes), skipped, len(cases), time.Since(t0).Seconds())
	c.Set("exhaustive", leaks < maxLeaks)

	// ---- V: random larger programs
	nv := c.Pick(300, 3000)
	rng := rand.New(rand.NewSource(c.Seed*104729 + 5))
	t0 = time.Now()
	for i := 0; i < nv && leaks < maxLeaks; i++ {
		shape := randPipeline(rng, rd, 0)
		v := variant{how: "plain"}
		switch rng.Intn(5) {
		case 0:
			v = variant{how: "start", cancelAt: 1 + rng.Intn(4)}
		case 1:
			if hasKind(shape, "sleep") {
				v = variant{how: "inflight", inflight: time.Duration(100+rng.Intn(900)) * time.Microsecond, long: true}
			}
		}
		vc, err := evaluateN(c, r, rd, shape, v, 3)
		if err != nil {
			return err
		}
		cases = append(cases, vc)
		c.Distinct(shapeKey(shape) + "|" + v.how)
		if vc.Flaky {
			c.Inc("schedule_dependent_outcomes", 1)
		}
		if vc.Fd != 0 || vc.Go != 0 {
			leaks++
		}
		if leaks >= maxLeaks {
			break
		}
		if i == 3 {
			c.Sample(vc)
		}
	}
	c.Logf("V: %d random programs in %.1fs", nv, time.Since(t0).Seconds())
	eval.VerifTrace = nil

	c.Assume("TLC trusted; the projection is (|/proc/self/fd|, runtime.NumGoroutine()) relative to a baseline of three equal consecutive samples, sampled after each evaluation with a settle loop of 15 s (still changing at the end = exit 2), GC off inside the window; the outcome (raised or not) is compared with the model's FailsP only to make sure the rendering took the intended path; interruptions are placed exactly at the k-th pipeline start (eval.VerifTrace) and by a timer in flight; shapes that redirect port 0 of a form reading from a pipe are evaluated only when that does not fault (C42 finding)")
	// ---- all recorded cases are judged by TLC (nothing is measured any more)
	return judge(c, dir, cases)
}

func judge(c *lib.Ctx, dir string, cases []VCase) error {
	bad, err := lib.Judge(c, "JudgePortsRes", dir, "JudgePortsRes", cases, 4, 40*time.Minute)
	if err != nil {
		return err
	}
	c.AddTraces(len(cases))
	for _, b := range bad {
		vc := cases[b.Index]
		why := ""
		if len(b.Info) > 0 {
			why, _ = b.Info[0].(string)
		}
		if why == "path" {
			return lib.Infra("%q (%s): raised=%v contradicts the model's outcome for the shape: the generator does not render the intended path", vc.Code, vc.How, vc.Exc)
		}
		key := "leak:" + vc.How + ":" + vc.Code
		if vc.PFail {
			key = keyPipeFail
		}
		c.Reject(key, fmt.Sprintf("%s (%s): %+d file descriptors, %+d goroutines above the baseline after the evaluation returned (settled)", vc.Code, vc.How, vc.Fd, vc.Go), vc)
	}
	return nil
}

// ---- V generator: larger shapes over the full grammar

func randRedirs(rng *rand.Rand, piped bool, rd *renderer) []string {
	n := []int{0, 0, 0, 1, 1, 2, 3, 3}[rng.Intn(8)]
	out := []string{}
	hasDupin := false
	for i := 0; i < n; i++ {
		k := []string{"fileout", "fileout", "filein", "filefail", "dupok", "dupbad", "close", "dupok", "dupback", "dupback", "dupin", "dupinback"}[rng.Intn(12)]
		if (k == "filein" || k == "dupinback") && piped && !rd.stdinRedirOK {
			k = "fileout"
		}
		if k == "dupinback" && !hasDupin {
			k = "dupin" // slot 3 may be inherited from an enclosing form: only redirect from it when this form made it
		}
		hasDupin = hasDupin || k == "dupin"
		out = append(out, k)
	}
	return out
}

func randPipeline(rng *rand.Rand, rd *renderer, depth int) []Form {
	n := []int{1, 1, 2, 2, 3, 4}[rng.Intn(6)]
	if depth >= 2 {
		n = 1 + rng.Intn(2)
	}
	p := make([]Form, n)
	for i := range p {
		f := Form{Redirs: randRedirs(rng, i > 0, rd), Body: Body{Sub: [][]Form{}}}
		kinds := []string{"ok", "ok", "fail", "consume", "sleep"}
		if depth < 3 {
			kinds = append(kinds, "cap", "cap", "par", "peach", "loop", "call", "try")
		}
		f.Body.K = kinds[rng.Intn(len(kinds))]
		switch f.Body.K {
		case "cap", "peach", "loop", "call", "try":
			f.Body.Sub = [][]Form{randPipeline(rng, rd, depth+1)}
		case "par":
			f.Body.Sub = [][]Form{randPipeline(rng, rd, depth+1), randPipeline(rng, rd, depth+1)}
		}
		p[i] = f
	}
	return p
}

func replay(c *lib.Ctx, r *runner, rd *renderer, dir string) error {
	b, err := os.ReadFile(c.Replay)
	if err != nil {
		return lib.Infra("%v", err)
	}
	var f struct {
		Case VCase `json:"case"`
	}
	if err := json.Unmarshal(b, &f); err != nil {
		return lib.Infra("%v", err)
	}
	probe := r.eval("echo x | nop < "+rd.dir+"/in", 0, 0)
	rd.stdinRedirOK = probe.Panic == "" && !probe.Timeout
	v := variant{how: f.Case.How}
	switch {
	case strings.HasPrefix(f.Case.How, "start:"):
		fmt.Sscanf(f.Case.How, "start:%d", &v.cancelAt)
	case f.Case.How == "start":
		v.cancelAt = 1
	case f.Case.How == "inflight":
		v.inflight, v.long = 500*time.Microsecond, true
	case f.Case.How == "pipefail":
		v.pipefail = true
	}
	n := f.Case.N
	if n <= 0 {
		n = 30
	}
	vc, err := evaluateN(c, r, rd, f.Case.Shape, v, n)
	if err != nil {
		return err
	}
	eval.VerifTrace = nil
	return judge(c, dir, []VCase{vc})
}
