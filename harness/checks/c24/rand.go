package main

import "math/rand"

func newRand(seed int64) *rand.Rand { return rand.New(rand.NewSource(seed)) }
