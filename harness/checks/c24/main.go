// C24 — the history store behaves like a sequential log with unique sequence numbers.
// M: MCHistStore: exhaustive model of the store API (invariants, NeverReissued, SeqMonotone).
// G: every transition of that model (one path to its source state + the step, with the prescribed
//    result) is replayed on a fresh real store; results compared step by step.
// V: long random histories on the real store (store.NewStore, fsync on) recorded and judged by the
//    stateful TLC walker TraceHistStore.
package main

import (
	"encoding/json"
	"fmt"
	"os"
	"reflect"
	"sync"
	"time"

	"src.elv.sh/pkg/store"
	"verif.local/harness/lib"
	"verif.local/harness/storex"
)

func main() { lib.Main("C24", run) }

func cfg(cmds, next, visits int) []byte {
	return []byte(fmt.Sprintf("CONSTANTS MaxCmds = %d MaxNext = %d MaxVisits = %d\nSPECIFICATION Spec\nVIEW View\nINVARIANT TypeOK\nINVARIANT IssuedAreOld\nPROPERTY NeverReissued\nPROPERTY SeqMonotone\nACTION_CONSTRAINT EmitT\n", cmds, next, visits))
}

func run(c *lib.Ctx) error {
	dir := c.SpecDir("HistStore")
	if c.Replay != "" {
		return replay(c, dir)
	}
	c.Set("rule", "G: one behaviour per transition of the exhaustive model, distinct by (operation sequence); V: one case per recorded API call, distinct by (operation, arguments, recorded result); reads on an empty store and no-op deletes are not counted as non-trivial")
	scratch, err := storex.ScratchDir()
	if err != nil {
		return lib.Infra("%v", err)
	}
	defer os.RemoveAll(scratch)

	// ---- M + G
	mc, mn, mv := 2, 2, 1
	if c.Thorough() {
		mc, mn, mv = 2, 3, 2
	}
	c.Set("bounds", map[string]any{"MaxCmds": mc, "MaxNext": mn, "MaxVisits": mv})
	r, err := c.TLC("MCHistStore", lib.TLCRun{Dir: dir, Module: "MCHistStore", Workers: 6, Timeout: 12 * time.Minute, HeapGB: 8,
		Files: map[string][]byte{"MCHistStore.cfg": cfg(mc, mn, mv)}})
	if err != nil {
		return err
	}
	if r.ErrKind != "" {
		return lib.Infra("the store model violates its own property %s %s:\n%s", r.ErrKind, r.ErrName, r.ErrTrace)
	}
	lines := r.PrintedStrings()
	c.Logf("model: %d distinct states, %d transitions, %d behaviours emitted", r.Distinct, r.Generated, len(lines))
	if int64(len(lines)) < r.Generated-1 {
		return lib.Infra("TLC generated %d transitions but emitted %d behaviours", r.Generated, len(lines))
	}
	var mu sync.Mutex
	var dirHist [][]storex.Event
	nb := 0
	const W = 8
	lib.Parallel(W, W, func(w int) {
		rs, err := storex.OpenReusable(storex.DBPath(scratch, w))
		if err != nil {
			panic(fmt.Sprintf("open store: %v", err))
		}
		defer rs.Close()
		for i := w; i < len(lines); i += W {
			var beh []storex.Step
			if err := json.Unmarshal([]byte(lines[i]), &beh); err != nil {
				panic(fmt.Sprintf("bad behaviour from TLC: %v", err))
			}
			if err := rs.Reset(); err != nil {
				panic(fmt.Sprintf("reset store: %v", err))
			}
			evs, ok := replayBehaviour(c, rs.Store, beh)
			mu.Lock()
			nb++
			if i < 2 {
				c.Sample(beh)
			}
			if ok && len(beh) > 0 && beh[len(beh)-1].O.Op == "Dirs" {
				dirHist = append(dirHist, evs)
			}
			mu.Unlock()
		}
	})
	c.AddTraces(nb)
	c.Set("exhaustive", true)
	// Dirs results (order / score drift) are judged by TLC
	if err := judge(c, dir, "TraceHistStore(G)", dirHist); err != nil {
		return err
	}

	// ---- V: random long histories on the real store as the shell opens it
	nh, steps := c.Pick(12, 150), c.Pick(120, 300)
	hist := make([][]storex.Event, nh)
	var verr error
	lib.Parallel(nh, 8, func(h int) {
		rng := newRand(c.Seed*1000 + int64(h))
		st, err := store.NewStore(storex.DBPath(scratch, 1_000_000+h))
		if err != nil {
			verr = lib.Infra("open store: %v", err)
			return
		}
		defer st.Close()
		evs := []storex.Event{storex.ResetEvent()}
		next := 0
		for k := 0; k < steps; k++ {
			o := storex.RandomOp(rng, next, true)
			ev, err := storex.Exec(st, o)
			if err != nil {
				c.Reject("store-error:"+o.Op, fmt.Sprintf("store operation %+v failed: %v", o, err), evs)
				break
			}
			if o.Op == "AddCmd" {
				next++
			}
			evs = append(evs, ev)
			c.AddEvals(1)
			if ev.O.Op == "AddCmd" || ev.O.Op == "AddDir" || len(ev.R.List) > 0 || ev.R.N != 0 || len(ev.Dirs) > 0 {
				c.Distinct(ev)
			}
		}
		hist[h] = evs
	})
	if verr != nil {
		return verr
	}
	c.Sample(hist[0][:min(6, len(hist[0]))])
	if err := judge(c, dir, "TraceHistStore(V)", hist); err != nil {
		return err
	}
	c.AddTraces(nh)
	c.Assume("TLC trusted; directory scores compared in milli-units with a drift bound of 2*visits+2 (7-significant-digit text rounding in the store vs truncation in the model); negative sequence arguments Unspecified; G replays run the same store code over a bbolt file opened with NoSync and emptied (buckets dropped and re-initialised) between behaviours (durability is C25)")
	return nil
}

func judge(c *lib.Ctx, dir, name string, hist [][]storex.Event) error {
	bad, err := lib.JudgeGroups(c, name, dir, "TraceHistStore", hist, 8, 10*time.Minute)
	if err != nil {
		return err
	}
	var flat []storex.Event
	starts := []int{}
	for _, h := range hist {
		starts = append(starts, len(flat))
		flat = append(flat, h...)
	}
	for _, b := range bad {
		// find the history containing the index and store it up to the failing event
		hi := 0
		for i, s := range starts {
			if s <= b.Index {
				hi = i
			}
		}
		ev := flat[b.Index]
		c.Reject(fmt.Sprintf("store:%s", ev.O.Op), fmt.Sprintf("recorded result of %+v = %+v dirs %+v; specification prescribes %v", ev.O, ev.R, ev.Dirs, b.Info), flat[starts[hi]:b.Index+1])
	}
	return nil
}

// replayBehaviour runs a model behaviour on a fresh real store, comparing each result with the
// prescribed one. It returns the recorded events (prefixed by Reset).
func replayBehaviour(c *lib.Ctx, st store.DBStore, beh []storex.Step) ([]storex.Event, bool) {
	evs := []storex.Event{storex.ResetEvent()}
	ops := ""
	for _, s := range beh {
		ops += fmt.Sprintf("%s(%d,%d,%v,%d,%d,%v);", s.O.Op, s.O.A, s.O.B, s.O.T, s.O.D, s.O.F, s.O.Bl)
	}
	c.Distinct(ops)
	for k, s := range beh {
		ev, err := storex.Exec(st, s.O)
		c.AddEvals(1)
		if err != nil {
			c.Reject("store-error:"+s.O.Op, fmt.Sprintf("store operation %+v failed: %v", s.O, err), beh[:k+1])
			return evs, false
		}
		evs = append(evs, ev)
		want := s.R
		if want.T == nil {
			want.T = []int{}
		}
		if want.List == nil {
			want.List = []storex.Entry{}
		}
		if s.O.Op != "Dirs" && !reflect.DeepEqual(ev.R, want) {
			c.Reject("store:"+s.O.Op, fmt.Sprintf("step %d %+v: real store returned %+v, specification prescribes %+v", k+1, s.O, ev.R, want), beh[:k+1])
			return evs, false
		}
	}
	return evs, true
}

func replay(c *lib.Ctx, dir string) error {
	b, err := os.ReadFile(c.Replay)
	if err != nil {
		return lib.Infra("%v", err)
	}
	var f struct {
		Case json.RawMessage `json:"case"`
	}
	if err := json.Unmarshal(b, &f); err != nil {
		return lib.Infra("%v", err)
	}
	scratch, err := storex.ScratchDir()
	if err != nil {
		return lib.Infra("%v", err)
	}
	defer os.RemoveAll(scratch)
	var beh []storex.Step
	if json.Unmarshal(f.Case, &beh) == nil && len(beh) > 0 && beh[0].O.Op != "Reset" && beh[0].O.Op != "" {
		st, err := storex.OpenNoSync(storex.DBPath(scratch, 0))
		if err != nil {
			return lib.Infra("%v", err)
		}
		defer st.Close()
		replayBehaviour(c, st, beh)
		return nil
	}
	var evs []storex.Event
	if err := json.Unmarshal(f.Case, &evs); err != nil {
		return lib.Infra("%v", err)
	}
	// re-execute the recorded operations on a fresh store and judge again
	st, err := store.NewStore(storex.DBPath(scratch, 1))
	if err != nil {
		return lib.Infra("%v", err)
	}
	defer st.Close()
	out := []storex.Event{storex.ResetEvent()}
	for _, e := range evs {
		if e.O.Op == "Reset" {
			continue
		}
		ev, err := storex.Exec(st, e.O)
		if err != nil {
			c.Reject("store-error:"+e.O.Op, err.Error(), evs)
			return nil
		}
		out = append(out, ev)
	}
	return judge(c, dir, "TraceHistStore(replay)", [][]storex.Event{out})
}
