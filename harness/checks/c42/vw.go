package main

// Harness commands registered on the Evaler (namespace vw:) and the runner that evaluates ONE form
// and projects what happened to the abstract observation of spec/Ports/Ports.tla.
//
//	vw:up            the producer in `vw:up | form`: writes the bytes UV and exits
//	vw:do op...      the body of a form: runs the given port operations in order from INSIDE the form,
//	                 on the frame the redirections produced:
//	                   b:FD:N   write the byte N to port FD   (real fm.ByteOutput().WriteString)
//	                   v:FD:S   write the value S to port FD  (real fm.ValueOutput().Put)
//	                   r:FD     read port FD's file to EOF    (real fm.InputFile())
//	                   rv:FD    poll port FD's value channel once, without blocking (fm.InputChan())
//	                 Each operation reaches the port through the public API only: the port is taken
//	                 with fm.Port(FD) and handed to Evaler.Call as port 0 or 1 of a callee that uses
//	                 the ordinary input/output accessors. vw:do never raises: per-operation results are
//	                 logged on the Go side. At the end it notes the *os.File of ports 0..5 so that the
//	                 runner can tell, after the form has finished, which of them were closed.
//
// No expected outcome is computed here: this file only concretises and projects.

import (
	"errors"
	"fmt"
	"io"
	"os"
	"runtime/debug"
	"strconv"
	"strings"

	"src.elv.sh/pkg/eval"
	"src.elv.sh/pkg/eval/errs"
	"src.elv.sh/pkg/parse"
	"verif.local/harness/elv"
)

const probeFds = 6 // ports 0..5 are noted by vw:do

// OpRes is one logged operation result: res in ok|err|noport|eof|block|open|panic, data = bytes read.
type OpRes struct {
	Res  string `json:"res"`
	Data []int  `json:"data"`
}

// Obs is the abstract observation of one evaluated form (same shape as Ports!Observe).
type Obs struct {
	Exc    string    `json:"exc"`    // "" | "redir" (raised before the body ran) | "body" (raised by the body)
	Log    []OpRes   `json:"log"`    // results of the body's operations
	Files  []FileObs `json:"files"`  // per path: existence and contents after the form
	Caps   []CapObs  `json:"caps"`   // what the caller's ports 1 and 2 received
	Closed []string  `json:"closed"` // per port 0..5 after the form: none|nofile|open|closed ([] if the body did not run)
}

type FileObs struct {
	Ex   bool  `json:"ex"`
	Data []int `json:"data"`
}

type CapObs struct {
	B []int    `json:"b"`
	V []string `json:"v"`
}

// Extra is what the runner saw outside the abstract observation.
type Extra struct {
	Panic   string
	Class   string // exception class: "", invalidfd, badvalue, other, parse, compile
	Err     error
	FdDelta int // |/proc/self/fd| after - before (meaningful only when nothing else runs)
}

type H struct {
	ev     *eval.Evaler
	dir    string
	paths  []string
	log    []OpRes
	stash  []*os.File
	noted  []string
	ran    bool
	wb, wv eval.Callable
	rb, rv eval.Callable
	rbOut  []byte
	rvOut  string
}

func NewH(dir string) *H {
	h := &H{ev: elv.New(), dir: dir}
	os.MkdirAll(dir, 0o755)
	h.paths = []string{dir + "/f1", dir + "/f2"}
	h.wb = eval.NewGoFn("vw:-wb", func(fm *eval.Frame, s string) error {
		_, err := fm.ByteOutput().WriteString(s)
		return err
	})
	h.wv = eval.NewGoFn("vw:-wv", func(fm *eval.Frame, v any) error {
		return fm.ValueOutput().Put(v)
	})
	h.rb = eval.NewGoFn("vw:-rb", func(fm *eval.Frame) error {
		f := fm.InputFile()
		if f == nil {
			return os.ErrInvalid
		}
		b, err := io.ReadAll(f)
		h.rbOut = b
		return err
	})
	h.rv = eval.NewGoFn("vw:-rv", func(fm *eval.Frame) {
		ch := fm.InputChan()
		select {
		case _, ok := <-ch:
			if ok {
				h.rvOut = "open"
			} else {
				h.rvOut = "eof"
			}
		default:
			h.rvOut = "block"
		}
	})
	ns := eval.BuildNsNamed("vw").AddGoFn("do", h.do).AddGoFn("up", func(fm *eval.Frame) error {
		_, err := fm.ByteOutput().WriteString("UV") // the producer of a piped form
		return err
	}).Ns()
	h.ev.ExtendBuiltin(eval.BuildNs().AddNs("vw", ns))
	return h
}

func guard(f func() error) (res string) {
	defer func() {
		if p := recover(); p != nil {
			res = "panic:" + fmt.Sprint(p)
		}
	}()
	if err := f(); err != nil {
		return "err"
	}
	return "ok"
}

func (h *H) do(fm *eval.Frame, ops ...string) error {
	h.ran = true
	for _, op := range ops {
		parts := strings.Split(op, ":")
		if len(parts) < 2 {
			return fmt.Errorf("vw:do: bad op %q", op)
		}
		fd, err := strconv.Atoi(parts[1])
		if err != nil {
			return fmt.Errorf("vw:do: bad fd in %q", op)
		}
		var p *eval.Port
		if fd >= 0 {
			p = fm.Port(fd)
		}
		if p == nil {
			h.log = append(h.log, OpRes{Res: "noport", Data: []int{}})
			continue
		}
		r := OpRes{Data: []int{}}
		switch parts[0] {
		case "b":
			n, _ := strconv.Atoi(parts[2])
			r.Res = guard(func() error {
				return h.ev.Call(h.wb, eval.CallCfg{Args: []any{string([]byte{byte(n)})}}, eval.EvalCfg{Ports: []*eval.Port{nil, p, nil}})
			})
		case "v":
			r.Res = guard(func() error {
				return h.ev.Call(h.wv, eval.CallCfg{Args: []any{parts[2]}}, eval.EvalCfg{Ports: []*eval.Port{nil, p, nil}})
			})
		case "r":
			h.rbOut = nil
			r.Res = guard(func() error {
				return h.ev.Call(h.rb, eval.CallCfg{}, eval.EvalCfg{Ports: []*eval.Port{p, nil, nil}})
			})
			if r.Res == "ok" {
				r.Data = elv.Bytes(string(h.rbOut))
			}
		case "rv":
			h.rvOut = ""
			r.Res = guard(func() error {
				return h.ev.Call(h.rv, eval.CallCfg{}, eval.EvalCfg{Ports: []*eval.Port{p, nil, nil}})
			})
			if r.Res == "ok" {
				r.Res = h.rvOut
			}
		default:
			return fmt.Errorf("vw:do: bad op %q", op)
		}
		h.log = append(h.log, r)
	}
	h.stash = make([]*os.File, probeFds)
	h.noted = make([]string, probeFds)
	for i := 0; i < probeFds; i++ {
		p := fm.Port(i)
		switch {
		case p == nil:
			h.noted[i] = "none"
		case p.File == nil:
			h.noted[i] = "nofile"
		default:
			h.noted[i] = "file"
			h.stash[i] = p.File
		}
	}
	return nil
}

func isClosed(f *os.File) bool {
	_, err := f.Stat()
	return errors.Is(err, os.ErrClosed)
}

func countFds() int {
	ents, err := os.ReadDir("/proc/self/fd")
	if err != nil {
		return -1
	}
	return len(ents)
}

// Setup puts the two files into their initial condition: present[i] => contents "ABC", else absent.
func (h *H) Setup(present []bool) error {
	for i, p := range h.paths {
		os.Remove(p)
		if i < len(present) && present[i] {
			if err := os.WriteFile(p, []byte("ABC"), 0o644); err != nil {
				return err
			}
		}
	}
	return nil
}

// Run evaluates one form with caller ports (dummy input, capture, capture) and observes.
func (h *H) Run(code string) (Obs, Extra) {
	h.log, h.stash, h.noted, h.ran = nil, nil, nil, false
	var x Extra
	fd0 := countFds()
	p1, collect1, err := eval.CapturePort()
	if err != nil {
		x.Panic = "infra: " + err.Error()
		return Obs{}, x
	}
	p2, collect2, err := eval.CapturePort()
	if err != nil {
		collect1()
		x.Panic = "infra: " + err.Error()
		return Obs{}, x
	}
	func() {
		defer func() {
			if p := recover(); p != nil {
				x.Panic = fmt.Sprintf("%v | %s", p, strings.Join(strings.Fields(string(debug.Stack())), " "))
			}
		}()
		x.Err = h.ev.Eval(parse.Source{Name: "[c42]", Code: code}, eval.EvalCfg{Ports: []*eval.Port{nil, p1, p2}})
	}()
	o := Obs{Log: h.log, Closed: []string{}}
	if o.Log == nil {
		o.Log = []OpRes{}
	}
	if h.ran && h.noted != nil {
		for i, n := range h.noted {
			if n == "file" {
				if isClosed(h.stash[i]) {
					n = "closed"
				} else {
					n = "open"
				}
			}
			o.Closed = append(o.Closed, n)
		}
	}
	v1, b1 := collect1()
	v2, b2 := collect2()
	x.FdDelta = countFds() - fd0
	o.Caps = []CapObs{{elv.Bytes(string(b1)), strs(v1)}, {elv.Bytes(string(b2)), strs(v2)}}
	for _, p := range h.paths {
		b, err := os.ReadFile(p)
		if err != nil {
			o.Files = append(o.Files, FileObs{false, []int{}})
		} else {
			o.Files = append(o.Files, FileObs{true, elv.Bytes(string(b))})
		}
	}
	x.Class = elv.ErrClass(x.Err)
	if x.Class == "exception" {
		var ifd eval.InvalidFD
		var bv errs.BadValue
		switch {
		case errors.As(elv.Reason(x.Err), &ifd):
			x.Class = "invalidfd"
		case errors.As(elv.Reason(x.Err), &bv):
			x.Class = "badvalue"
		default:
			x.Class = "other"
		}
	}
	if x.Err != nil {
		if h.ran {
			o.Exc = "body"
		} else {
			o.Exc = "redir"
		}
	}
	return o, x
}

func strs(vs []any) []string {
	out := []string{}
	for _, v := range vs {
		if s, ok := v.(string); ok {
			out = append(out, s)
		} else {
			out = append(out, fmt.Sprintf("%T", v))
		}
	}
	return out
}
