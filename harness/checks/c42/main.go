// C42 — redirections route bytes and values exactly as specified.
// M: MCPorts (spec/Ports): the port table of one form as a state machine (redirections one by one in
//
//	every order, then free body operations); invariants of the ownership protocol, and the theorem
//	that the code-shaped early-close variant is invisible unless a shared description is displaced.
//
// G: every redirection sequence of the model, with the outcomes the specification accepts (computed by
//
//	TLC), is rendered as ONE Elvish form `vw:do <ops> <redirections>` and evaluated on the real
//	interpreter with scratch files; logged results, file contents, captured output and which files
//	were closed after the form are compared with the prescribed outcome.
//
// V: random forms (1..4 redirections, odd fds and spellings, real builtins as heads, random bodies)
//
//	recorded from the real interpreter and judged by the TLC case walker JudgePorts.
package main

import (
	"encoding/json"
	"fmt"
	"math/rand"
	"os"
	"reflect"
	"runtime"
	"runtime/debug"
	"strconv"
	"strings"
	"time"

	"verif.local/harness/lib"
)

func main() { lib.Main("C42", run) }

const (
	keyNeg    = "redir:negative-fd-panics"
	keyShared = "redir:reredirect-closes-shared-file"
	keyEofVal = "redir:value-to-input-port-panics"
	keyPipeIn = "redir:stdin-redirected-in-pipeline-panics"
)

// ---- abstract cases (same field names as the TLA+ records)

type Redir struct {
	T    string `json:"t"`
	Dst  int    `json:"dst"`
	Mode string `json:"mode"`
	Path int    `json:"path"`
	Src  int    `json:"src"`
}

type Op struct {
	T  string `json:"t"`
	Fd int    `json:"fd"`
	N  int    `json:"n"`
}

type ExpFile struct {
	Ex   bool  `json:"ex"`
	Data []int `json:"data"`
}

type ExpCap struct {
	B []int `json:"b"`
	V []int `json:"v"`
}

// Outcome is Ports!Compact(Observe(..)).
type Outcome struct {
	Exc    string    `json:"exc"`
	R      []string  `json:"r"`
	A      []string  `json:"a"`
	D      [][]int   `json:"d"`
	Files  []ExpFile `json:"files"`
	Caps   []ExpCap  `json:"caps"`
	Closed []string  `json:"closed"`
}

type Beh struct {
	Present []bool    `json:"present"`
	Piped   bool      `json:"piped"`
	Redirs  []Redir   `json:"redirs"`
	Probe   int       `json:"probe"`
	Acc     []Outcome `json:"acc"`
	Dev     []Outcome `json:"dev"`
}

// ---- concretisation: abstract redirection -> Elvish text (spelling chosen by rng among equivalents)

var fdNames = []string{"stdin", "stdout", "stderr"}

func fdText(rng *rand.Rand, fd int) string {
	if fd >= 0 && fd <= 2 && rng.Intn(3) == 0 {
		return fdNames[fd]
	}
	return strconv.Itoa(fd)
}

var modeOp = map[string]string{"r": "<", "w": ">", "a": ">>", "rw": "<>"}

func defaultDst(mode string) int {
	if mode == "r" {
		return 0
	}
	return 1
}

func (r Redir) render(rng *rand.Rand, paths []string) string {
	mode := r.Mode
	if r.T != "file" {
		mode = []string{"r", "w", "a", "rw"}[rng.Intn(4)] // the operator of a duplication only decides the default destination
	}
	dst := fdText(rng, r.Dst)
	if r.Dst == defaultDst(mode) && rng.Intn(2) == 0 {
		dst = ""
	}
	switch r.T {
	case "file":
		sp := ""
		if rng.Intn(2) == 0 {
			sp = " "
		}
		return dst + modeOp[mode] + sp + paths[r.Path-1]
	case "dup":
		return dst + modeOp[mode] + "&" + fdText(rng, r.Src)
	default:
		return dst + modeOp[mode] + "&-"
	}
}

func (o Op) render() string {
	switch o.T {
	case "b", "v":
		return fmt.Sprintf("%s:%d:%d", o.T, o.Fd, o.N)
	default:
		return fmt.Sprintf("%s:%d", o.T, o.Fd)
	}
}

func renderForm(rng *rand.Rand, paths []string, piped bool, head string, ops []Op, skip []bool, redirs []Redir) string {
	ws := []string{head}
	if piped {
		ws = []string{"vw:up", "|", head}
	}
	for i, o := range ops {
		if skip != nil && skip[i] {
			continue
		}
		ws = append(ws, o.render())
	}
	for _, r := range redirs {
		ws = append(ws, r.render(rng, paths))
	}
	return strings.Join(ws, " ")
}

// ---- comparison of the projected real behaviour with one prescribed outcome

func ints(a []int) []int {
	if a == nil {
		return []int{}
	}
	return a
}

func capVals(vs []string) ([]int, bool) {
	out := []int{}
	for _, s := range vs {
		n, err := strconv.Atoi(s)
		if err != nil {
			return nil, false
		}
		out = append(out, n)
	}
	return out, true
}

// matches reports whether got equals the outcome; eofPanic is set when the only difference is a
// fault at an operation whose result the specification leaves open between raise and drop.
func matches(got Obs, want Outcome, skip []bool) (ok bool, eofPanic bool, why string) {
	if got.Exc != want.Exc {
		return false, false, fmt.Sprintf("exception %q, prescribed %q", got.Exc, want.Exc)
	}
	k := 0
	for i := range want.R {
		if skip != nil && i < len(skip) && skip[i] {
			continue
		}
		if k >= len(got.Log) {
			return false, false, fmt.Sprintf("body logged %d results, prescribed more", len(got.Log))
		}
		g := got.Log[k]
		k++
		switch {
		case g.Res == want.R[i] || (want.A[i] != "" && g.Res == want.A[i]):
		case strings.HasPrefix(g.Res, "panic") && want.A[i] != "":
			eofPanic = true
		default:
			return false, eofPanic, fmt.Sprintf("operation %d: %s, prescribed %s", i+1, g.Res, want.R[i])
		}
		if !reflect.DeepEqual(ints(g.Data), ints(want.D[i])) {
			return false, eofPanic, fmt.Sprintf("operation %d read %v, prescribed %v", i+1, g.Data, want.D[i])
		}
	}
	if k != len(got.Log) {
		return false, eofPanic, fmt.Sprintf("body logged %d results, prescribed %d", len(got.Log), k)
	}
	for i, f := range want.Files {
		if got.Files[i].Ex != f.Ex || !reflect.DeepEqual(ints(got.Files[i].Data), ints(f.Data)) {
			return false, eofPanic, fmt.Sprintf("file f%d: exists=%v contents=%v, prescribed exists=%v contents=%v", i+1, got.Files[i].Ex, got.Files[i].Data, f.Ex, f.Data)
		}
	}
	for i, cp := range want.Caps {
		gv, okv := capVals(got.Caps[i].V)
		if !okv || !reflect.DeepEqual(ints(got.Caps[i].B), ints(cp.B)) || !reflect.DeepEqual(gv, ints(cp.V)) {
			return false, eofPanic, fmt.Sprintf("caller port %d received bytes %v values %v, prescribed %v %v", i+1, got.Caps[i].B, got.Caps[i].V, cp.B, cp.V)
		}
	}
	if len(got.Closed) != len(want.Closed) {
		return false, eofPanic, fmt.Sprintf("closed-after-form %v, prescribed %v", got.Closed, want.Closed)
	}
	for i := range want.Closed {
		if got.Closed[i] != want.Closed[i] {
			return false, eofPanic, fmt.Sprintf("after the form port %d's file is %s, prescribed %s", i, got.Closed[i], want.Closed[i])
		}
	}
	return true, eofPanic, ""
}

// faultKey classifies a fault of the interpreter by the structure of the form.
func faultKey(piped bool, rs []Redir, panicText string) string {
	if hasNegative(rs) && strings.Contains(panicText, "index out of range [-") {
		return keyNeg
	}
	if piped && (strings.Contains(panicText, "nil pointer dereference") || strings.Contains(panicText, "close of closed channel")) {
		for _, r := range rs {
			if r.Dst == 0 {
				return keyPipeIn
			}
		}
	}
	return ""
}

func hasNegative(rs []Redir) bool {
	for _, r := range rs {
		if r.Dst < 0 || (r.T == "dup" && r.Src < -1) {
			return true
		}
	}
	return false
}

func redirKey(rs []Redir) string {
	var ws []string
	for _, r := range rs {
		switch r.T {
		case "file":
			ws = append(ws, fmt.Sprintf("%d%sf%d", r.Dst, modeOp[r.Mode], r.Path))
		case "dup":
			ws = append(ws, fmt.Sprintf("%d>&%d", r.Dst, r.Src))
		case "close":
			ws = append(ws, fmt.Sprintf("%d>&-", r.Dst))
		default:
			ws = append(ws, fmt.Sprintf("%d:%s", r.Dst, r.T))
		}
	}
	return strings.Join(ws, " ")
}

type replayCase struct {
	Kind string `json:"kind"` // "G" | "V"
	Code string `json:"code"`
	Beh  *Beh   `json:"beh,omitempty"`
	V    *VCase `json:"v,omitempty"`
}

// replayBeh evaluates one behaviour on the real interpreter and compares.
func replayBeh(c *lib.Ctx, h *H, probes [][]Op, b Beh, rng *rand.Rand, checkFds bool) {
	ops := probes[b.Probe-1]
	skip := make([]bool, len(ops))
	if len(b.Acc) > 0 && b.Acc[0].Exc == "" {
		for i, r := range b.Acc[0].R {
			skip[i] = r == "skip"
		}
	}
	if err := h.Setup(b.Present); err != nil {
		panic(fmt.Sprintf("setup: %v", err))
	}
	code := renderForm(rng, h.paths, b.Piped, "vw:do", ops, skip, b.Redirs)
	got, x := h.Run(code)
	c.AddEvals(1)
	rc := replayCase{Kind: "G", Code: strings.ReplaceAll(code, h.dir, "DIR"), Beh: &b}
	key := fmt.Sprintf("G:%v:%v:%s:probe%d", b.Present, b.Piped, redirKey(b.Redirs), b.Probe)
	if x.Panic != "" {
		if strings.HasPrefix(x.Panic, "infra:") {
			panic(x.Panic)
		}
		if k := faultKey(b.Piped, b.Redirs, x.Panic); k != "" {
			c.Reject(k, fmt.Sprintf("%s: fault: %.100s", rc.Code, x.Panic), rc)
		} else {
			c.Reject(key+":fault", fmt.Sprintf("%s: fault: %.300s", rc.Code, x.Panic), rc)
		}
		return
	}
	if x.Class == "parse" || x.Class == "compile" {
		panic(fmt.Sprintf("generator produced a form that does not compile: %q: %v", code, x.Err))
	}
	if checkFds && x.FdDelta > 0 { // a negative difference is an earlier faulting form's file being finalised
		c.Reject(key+":fd-delta", fmt.Sprintf("%s: %+d file descriptors after the form", rc.Code, x.FdDelta), rc)
		return
	}
	why := ""
	for _, want := range b.Acc {
		ok, eofp, w := matches(got, want, skip)
		if ok {
			if eofp {
				c.Reject(keyEofVal, fmt.Sprintf("%s: value output to an input-only channel faults (send on closed channel)", rc.Code), rc)
			}
			return
		}
		if why == "" {
			why = w
		}
	}
	for _, dev := range b.Dev {
		if ok, _, _ := matches(got, dev, skip); ok {
			c.Reject(keyShared, fmt.Sprintf("%s: %s (the file was closed when its port was redirected again although another port still refers to it)", rc.Code, why), rc)
			return
		}
	}
	c.Reject(key, fmt.Sprintf("%s: %s", rc.Code, why), rc)
}

func mcCfg(g genRun, maxO int, emit bool, invs ...string) []byte {
	tf := map[bool]string{true: "TRUE", false: "FALSE"}
	s := fmt.Sprintf("CONSTANTS MaxR = %d MaxO = %d NegFds = %d DstHi = %d NPresent = %d Piped = %s Emitting = %s Mini = %s FdA = %d FdB = %d\nSPECIFICATION Spec\n",
		g.MaxR, maxO, g.Neg, g.Hi, g.NPresent, tf[g.Piped], tf[emit], tf[g.Mini], g.FdA, g.FdB)
	for _, i := range invs {
		s += "INVARIANT " + i + "\n"
	}
	return []byte(s)
}

var designInvs = []string{"TypeOK", "NoLeakInCode", "ClosedAtEnd", "SameControl", "EarlyAgrees", "RaiseStops"}

type genRun struct {
	Name                    string
	MaxR, Neg, Hi, NPresent int
	Piped                   bool
	Mini                    bool // small alphabet over the two fds FdA, FdB
	FdA, FdB                int
}

func run(c *lib.Ctx) error {
	dir := c.SpecDir("Ports")
	scratch, err := os.MkdirTemp("", "c42-")
	if err != nil {
		return lib.Infra("%v", err)
	}
	defer os.RemoveAll(scratch)
	h := NewH(scratch)
	if strings.HasSuffix(c.Replay, ".elv") {
		return probe(c, h)
	}
	if c.Replay != "" {
		return replay(c, h, dir)
	}
	c.Set("rule", "G: one behaviour per (initial files, redirection sequence, probe schedule), distinct by that triple; V: one case per random form, distinct by (files, heads, redirections, body); non-trivial = at least one redirection")

	if os.Getenv("C42_PHASE") == "V" { // development aid: only the V phase
		return validate(c, h, dir)
	}
	// ---- all TLC runs first (up to 4 processes side by side, 8 cores), then the real code sequentially
	mos := []genRun{{Name: "MCPorts(body)", MaxR: 1, Neg: 1, Hi: 3, NPresent: c.Pick(1, 3)}, {Name: "MCPorts(body,piped)", MaxR: 1, Hi: c.Pick(2, 3), NPresent: 1, Piped: true}}
	gens := []genRun{{Name: "MCPorts(G,depth2)", MaxR: 2, Neg: 2, Hi: 4, NPresent: c.Pick(1, 3)},
		{Name: "MCPorts(G,depth2,piped)", MaxR: 2, Neg: c.Pick(0, 1), Hi: c.Pick(2, 3), NPresent: 1, Piped: true},
		// three redirections over two fds: an owned file / the input pipe is duplicated and the original
		// slot redirected from the duplicate, redirected again or closed, in every order
		{Name: "MCPorts(G,depth3,fds1-2)", MaxR: 3, NPresent: 1, Mini: true, FdA: 1, FdB: 2},
		{Name: "MCPorts(G,depth3,piped,fds0-3)", MaxR: 3, NPresent: 1, Piped: true, Mini: true, FdA: 0, FdB: 3}}
	if c.Thorough() {
		gens = append(gens, genRun{Name: "MCPorts(G,depth3)", MaxR: 3, Hi: 2, NPresent: 1})
	}
	c.Set("bounds", map[string]any{"G": gens, "M_body": mos})
	type tlcOut struct {
		r   *lib.TLCResult
		err error
	}
	outs := make([]tlcOut, len(mos)+len(gens))
	lib.Parallel(len(outs), 4, func(i int) {
		var g genRun
		var cfg []byte
		if i < len(mos) {
			// M: design properties, with free body operations in every order
			g = mos[i]
			cfg = mcCfg(g, 2, false, append(designInvs, "EarlyAgreesProbed")...)
		} else {
			// M + G: every redirection sequence, emitted with prescribed outcomes
			g = gens[i-len(mos)]
			cfg = mcCfg(g, 0, true, append(designInvs, "Emit")...)
		}
		r, err := c.TLC(g.Name, lib.TLCRun{Dir: dir, Module: "MCPorts", Workers: 2, Timeout: 40 * time.Minute, HeapGB: 6,
			Files: map[string][]byte{"MCPorts.cfg": cfg}})
		outs[i] = tlcOut{r, err}
	})
	for i, o := range outs {
		if o.err != nil {
			return o.err
		}
		if o.r.ErrKind != "" {
			return lib.Infra("the port model violates its own property %s %s:\n%s", o.r.ErrKind, o.r.ErrName, o.r.ErrTrace)
		}
		if i < len(mos) {
			c.Logf("%s (1 redirection, 2 free body operations): %d states", mos[i].Name, o.r.Distinct)
		}
	}
	total := 0
	for gi, g := range gens {
		r := outs[len(mos)+gi].r
		var probes [][]Op
		seen := map[string]bool{}
		var behs []Beh
		for _, s := range r.PrintedStrings() {
			if strings.HasPrefix(s, `{"probes"`) {
				var p struct {
					Probes [][]Op `json:"probes"`
				}
				if err := json.Unmarshal([]byte(s), &p); err != nil {
					return lib.Infra("bad probe schedules from TLC: %v", err)
				}
				probes = p.Probes
				continue
			}
			var b Beh
			if err := json.Unmarshal([]byte(s), &b); err != nil {
				return lib.Infra("bad behaviour from TLC: %v: %.200s", err, s)
			}
			k := fmt.Sprintf("%v|%s|%d", b.Present, redirKey(b.Redirs), b.Probe)
			if !seen[k] {
				seen[k] = true
				behs = append(behs, b)
			}
		}
		if probes == nil || int64(len(behs)) != r.Distinct*int64(len(probes)) {
			return lib.Infra("%s: TLC found %d states, received %d behaviours for %d probe schedules", g.Name, r.Distinct, len(behs), len(probes))
		}
		c.Logf("%s: %d states, %d behaviours", g.Name, r.Distinct, len(behs))
		t0 := time.Now()
		for i, b := range behs {
			if i%256 == 0 {
				settleGC()
			}
			rng := rand.New(rand.NewSource(c.Seed*1_000_003 + int64(i)))
			replayBeh(c, h, probes, b, rng, true)
			if len(b.Redirs) > 0 {
				c.Distinct(fmt.Sprintf("G|%v|%v|%s|%d", b.Present, b.Piped, redirKey(b.Redirs), b.Probe))
			}
			if gi == 0 && (i == 40 || i == 400) {
				c.Sample(map[string]any{"redirs": b.Redirs, "probe": b.Probe, "accepted": b.Acc})
			}
		}
		debug.SetGCPercent(100)
		c.AddTraces(len(behs))
		total += len(behs)
		c.Logf("%s: replayed in %.1fs", g.Name, time.Since(t0).Seconds())
	}
	c.Set("behaviours_replayed", total)
	c.Set("exhaustive", true)

	// ---- V: random forms judged by TLC
	if err := validate(c, h, dir); err != nil {
		return err
	}
	c.Assume("TLC trusted; the harness command vw:do reaches port n through fm.Port(n) and Evaler.Call with that port as port 0/1 of a callee using the ordinary accessors (InputFile, InputChan, ByteOutput, ValueOutput); file contents are byte tokens; the caller's ports are the dummy input port and two capture ports; exception classes compared as none / raised-before-the-body / raised-by-the-body; source -1, value output to an input-only channel, value-channel polls of non-input ports and destinations above 64 are Unspecified")
	return nil
}

// settleGC finalises files leaked by earlier faulting forms outside the measured windows; the
// collector is otherwise off while forms are evaluated so that a leaked descriptor stays visible.
func settleGC() {
	debug.SetGCPercent(-1)
	for i := 0; i < 2; i++ {
		runtime.GC()
		time.Sleep(time.Millisecond)
	}
}

// probe: development aid — evaluates each line of an .elv file as one form (DIR = scratch dir).
func probe(c *lib.Ctx, h *H) error {
	b, err := os.ReadFile(c.Replay)
	if err != nil {
		return lib.Infra("%v", err)
	}
	for _, line := range strings.Split(string(b), "\n") {
		if strings.TrimSpace(line) == "" {
			continue
		}
		h.Setup([]bool{true, false})
		code := strings.ReplaceAll(line, "DIR", h.dir)
		o, x := h.Run(code)
		j, _ := json.Marshal(o)
		fmt.Printf("%s\n  %s\n  class=%s fd=%+d panic=%.60q err=%v\n", line, j, x.Class, x.FdDelta, x.Panic, x.Err)
	}
	return nil
}

func replay(c *lib.Ctx, h *H, dir string) error {
	b, err := os.ReadFile(c.Replay)
	if err != nil {
		return lib.Infra("%v", err)
	}
	var f struct {
		Case replayCase `json:"case"`
	}
	if err := json.Unmarshal(b, &f); err != nil {
		return lib.Infra("%v", err)
	}
	switch {
	case f.Case.Beh != nil:
		// the probe schedules come from the model
		r, err := c.TLC("MCPorts(probes)", lib.TLCRun{Dir: dir, Module: "MCPorts", Timeout: 5 * time.Minute,
			Files: map[string][]byte{"MCPorts.cfg": mcCfg(genRun{NPresent: 1}, 0, true, "Emit")}})
		if err != nil {
			return err
		}
		var probes [][]Op
		for _, s := range r.PrintedStrings() {
			if strings.HasPrefix(s, `{"probes"`) {
				var p struct {
					Probes [][]Op `json:"probes"`
				}
				json.Unmarshal([]byte(s), &p)
				probes = p.Probes
			}
		}
		if probes == nil {
			return lib.Infra("no probe schedules from TLC")
		}
		replayBeh(c, h, probes, *f.Case.Beh, rand.New(rand.NewSource(c.Seed)), true)
	case f.Case.V != nil:
		return judgeV(c, h, dir, []VCase{rerun(h, *f.Case.V)})
	default:
		return lib.Infra("replay file holds no case")
	}
	return nil
}
