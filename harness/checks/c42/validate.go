package main

// V: random forms on the real interpreter, recorded and judged by spec/Ports/JudgePorts.tla.

import (
	"fmt"
	"math/rand"
	"runtime/debug"
	"strconv"
	"strings"
	"time"

	"verif.local/harness/lib"
)

type GotObs struct {
	Exc    string    `json:"exc"`
	R      []string  `json:"r"`
	D      [][]int   `json:"d"`
	Files  []ExpFile `json:"files"`
	Caps   []ExpCap  `json:"caps"`
	Closed []string  `json:"closed"`
}

type VCase struct {
	Present []bool   `json:"present"`
	Piped   bool     `json:"piped"`
	Head    string   `json:"head"`
	Redirs  []Redir  `json:"redirs"`
	Ops     []Op     `json:"ops"`
	Got     GotObs   `json:"got"`
	Panic   bool     `json:"panic"`
	Fd      int      `json:"fd"`
	Code    string   `json:"code"`   // the concrete form (scratch dir written as DIR)
	Spell   []string `json:"spell"`  // concrete spelling of each redirection
	PanicS  string   `json:"panics"` // text of the fault, if any
	Class   string   `json:"class"`  // exception class seen (information only)
}

var fdPool = []int{-3, -2, -1, -1, 0, 0, 0, 1, 1, 1, 1, 2, 2, 2, 3, 3, 4, 5, 6, 7, 9, 12, 40, 64}
var badSpell = []string{"x", "1.5", "stdfoo", "1a", "-", "''", "[]", "0.0"}

func randRedir(rng *rand.Rand) Redir {
	r := Redir{Dst: fdPool[rng.Intn(len(fdPool))]}
	switch n := rng.Intn(20); {
	case n < 8:
		r.T, r.Mode, r.Path = "file", []string{"r", "w", "a", "rw"}[rng.Intn(4)], 1+rng.Intn(2)
	case n < 15:
		r.T, r.Src = "dup", fdPool[rng.Intn(len(fdPool))]
	case n < 18:
		r.T = "close"
	case n < 19:
		r.T, r.Dst = "baddst", 0
	default:
		r.T = "badsrc"
	}
	return r
}

func spellRedir(rng *rand.Rand, r Redir, paths []string) string {
	switch r.T {
	case "baddst":
		bad := badSpell[rng.Intn(len(badSpell))]
		if bad == "-" { // `->` would parse differently
			bad = "x"
		}
		return bad + ">&1"
	case "badsrc":
		bad := badSpell[rng.Intn(len(badSpell))]
		if bad == "-" {
			bad = "stdfoo"
		}
		return strconv.Itoa(r.Dst) + ">&" + bad
	}
	return r.render(rng, paths)
}

func randCase(rng *rand.Rand, h *H) (VCase, string) {
	vc := VCase{Present: []bool{rng.Intn(3) > 0, rng.Intn(3) == 0}}
	n := 1 + rng.Intn(4)
	var ws []string
	for i := 0; i < n; i++ {
		r := randRedir(rng)
		vc.Redirs = append(vc.Redirs, r)
		sp := spellRedir(rng, r, h.paths)
		ws = append(ws, sp)
		vc.Spell = append(vc.Spell, strings.ReplaceAll(sp, h.dir, "DIR"))
	}
	switch rng.Intn(6) {
	case 0:
		vc.Head = "print"
		vc.Ops = []Op{{"b", 1, 97 + rng.Intn(26)}}
		ws = append([]string{"print", string(rune(vc.Ops[0].N))}, ws...)
	case 1:
		vc.Head = "put"
		vc.Ops = []Op{{"v", 1, 10 + rng.Intn(80)}}
		ws = append([]string{"put", strconv.Itoa(vc.Ops[0].N)}, ws...)
	default:
		vc.Head = "vw:do"
		m := 1 + rng.Intn(8)
		hd := []string{"vw:do"}
		for i := 0; i < m; i++ {
			o := Op{T: []string{"b", "b", "v", "r"}[rng.Intn(4)], Fd: rng.Intn(9) - 1}
			switch o.T {
			case "b":
				o.N = 97 + rng.Intn(26)
			case "v":
				o.N = 10 + rng.Intn(80)
			}
			if rng.Intn(6) == 0 && len(vc.Redirs) > 0 { // aim at a port the form mentions
				o.Fd = vc.Redirs[rng.Intn(len(vc.Redirs))].Dst
			}
			vc.Ops = append(vc.Ops, o)
			hd = append(hd, o.render())
		}
		// redirections may stand anywhere after the head
		if rng.Intn(3) == 0 {
			k := 1 + rng.Intn(len(hd))
			ws = append(append(append([]string{}, hd[:k]...), ws...), hd[k:]...)
			break
		}
		ws = append(hd, ws...)
	}
	if rng.Intn(4) == 0 {
		vc.Piped = true
		ws = append([]string{"vw:up", "|"}, ws...)
	}
	return vc, strings.Join(ws, " ")
}

func project(o Obs, x Extra) (GotObs, bool) {
	g := GotObs{Exc: o.Exc, R: []string{}, D: [][]int{}, Closed: o.Closed}
	for _, l := range o.Log {
		res := l.Res
		if strings.HasPrefix(res, "panic") {
			res = "panic"
		}
		g.R = append(g.R, res)
		g.D = append(g.D, ints(l.Data))
	}
	for _, f := range o.Files {
		g.Files = append(g.Files, ExpFile{f.Ex, ints(f.Data)})
	}
	for _, cp := range o.Caps {
		vs, ok := capVals(cp.V)
		if !ok {
			vs = []int{-1}
		}
		g.Caps = append(g.Caps, ExpCap{ints(cp.B), vs})
	}
	if g.Closed == nil {
		g.Closed = []string{}
	}
	return g, x.Panic != ""
}

// rerun evaluates the recorded concrete form again (replay).
func rerun(h *H, vc VCase) VCase {
	h.Setup(vc.Present)
	o, x := h.Run(strings.ReplaceAll(vc.Code, "DIR", h.dir))
	vc.Got, vc.Panic = project(o, x)
	vc.Fd, vc.PanicS, vc.Class = x.FdDelta, x.Panic, x.Class
	return vc
}

func validate(c *lib.Ctx, h *H, dir string) error {
	n := c.Pick(1000, 20000)
	rng := rand.New(rand.NewSource(c.Seed*7919 + 17))
	cases := make([]VCase, 0, n)
	// directed forms first: the confirmed defects and the documented examples
	directed := []struct {
		present []bool
		head    string
		ops     []Op
		redirs  []Redir
		code    string
	}{
		{[]bool{true, false}, "print", []Op{{"b", 1, 97}}, []Redir{{T: "dup", Dst: -1, Src: 2}}, "print a -1>&2"},
		{[]bool{true, false}, "print", []Op{{"b", 1, 97}}, []Redir{{T: "dup", Dst: 1, Src: -2}}, "print a >&-2"},
		{[]bool{true, false}, "put", []Op{{"v", 1, 55}}, []Redir{{T: "dup", Dst: 1, Src: 0}}, "put 55 >&0"},
		{[]bool{true, false}, "put", []Op{{"v", 1, 55}}, []Redir{{T: "close", Dst: 1}}, "put 55 >&-"},
		{[]bool{true, false}, "put", []Op{{"v", 1, 55}}, []Redir{{T: "file", Dst: 1, Mode: "w", Path: 2}}, "put 55 > DIR/f2"},
		{[]bool{true, false}, "print", []Op{{"b", 1, 97}}, []Redir{{T: "file", Dst: 1, Mode: "w", Path: 1}, {T: "dup", Dst: 1, Src: 1}}, "print a > DIR/f1 1>&1"},
		{[]bool{true, false}, "vw:do", []Op{{"b", 1, 97}, {"b", 2, 98}}, []Redir{{T: "file", Dst: 1, Mode: "w", Path: 1}, {T: "dup", Dst: 2, Src: 1}, {T: "file", Dst: 1, Mode: "w", Path: 2}}, "vw:do b:1:97 b:2:98 > DIR/f1 2>&1 > DIR/f2"},
		{[]bool{true, false}, "vw:do", []Op{{"b", 1, 97}, {"b", 2, 98}}, []Redir{{T: "dup", Dst: 2, Src: 1}, {T: "file", Dst: 1, Mode: "w", Path: 2}}, "vw:do b:1:97 b:2:98 2>&1 > DIR/f2"},
		{[]bool{true, false}, "vw:do", []Op{{"b", 1, 97}, {"b", 2, 98}}, []Redir{{T: "file", Dst: 1, Mode: "w", Path: 2}, {T: "dup", Dst: 2, Src: 1}}, "vw:do b:1:97 b:2:98 > DIR/f2 2>&1"},
		{[]bool{true, false}, "print", []Op{{"b", 1, 88}}, []Redir{{T: "file", Dst: 1, Mode: "rw", Path: 1}}, "print X <> DIR/f1"},
		{[]bool{true, false}, "print", []Op{{"b", 1, 88}}, []Redir{{T: "dup", Dst: 1, Src: 7}}, "print X >&7"},
		{[]bool{true, false}, "vw:do", []Op{{"r", 0, 0}}, []Redir{{T: "file", Dst: 0, Mode: "r", Path: 1}}, "vw:up | vw:do r:0 < DIR/f1"},
		{[]bool{true, false}, "vw:do", []Op{{"r", 0, 0}}, []Redir{{T: "close", Dst: 0}}, "vw:up | vw:do r:0 0>&-"},
		{[]bool{true, false}, "vw:do", []Op{{"r", 3, 0}}, []Redir{{T: "dup", Dst: 3, Src: 0}}, "vw:up | vw:do r:3 3<&0"},
	}
	for _, d := range directed {
		vc := VCase{Present: d.present, Piped: strings.HasPrefix(d.code, "vw:up |"), Head: d.head, Ops: d.ops, Redirs: d.redirs, Code: d.code, Spell: []string{}}
		cases = append(cases, rerun(h, vc))
	}
	for len(cases) < n {
		if len(cases)%256 == 0 {
			settleGC()
		}
		vc, code := randCase(rng, h)
		vc.Code = strings.ReplaceAll(code, h.dir, "DIR")
		vc = rerun(h, vc)
		if vc.Class == "parse" || vc.Class == "compile" {
			return lib.Infra("generator produced a form that does not compile: %q", vc.Code)
		}
		cases = append(cases, vc)
	}
	debug.SetGCPercent(100)
	c.AddEvals(len(cases))
	for i, vc := range cases {
		if vc.Fd < 0 {
			vc.Fd = 0 // an earlier faulting form's file being finalised
			cases[i] = vc
		}
		c.Distinct(fmt.Sprintf("V|%v|%v|%s|%s|%v", vc.Present, vc.Piped, vc.Head, redirKey(vc.Redirs), vc.Ops))
		if i == 6 || i == len(directed)+3 {
			c.Sample(vc)
		}
	}
	c.Set("random_forms", len(cases))
	return judgeV(c, h, dir, cases)
}

func judgeV(c *lib.Ctx, h *H, dir string, cases []VCase) error {
	bad, err := lib.Judge(c, "JudgePorts", dir, "JudgePorts", cases, 4, 40*time.Minute)
	if err != nil {
		return err
	}
	c.AddTraces(len(cases))
	for _, b := range bad {
		vc := cases[b.Index]
		why := ""
		if len(b.Info) > 0 {
			why, _ = b.Info[0].(string)
		}
		rc := replayCase{Kind: "V", Code: vc.Code, V: &vc}
		what := fmt.Sprintf("%s (files %v): real %+v panic=%v fd%+d; specification prescribes %v", vc.Code, vc.Present, vc.Got, vc.Panic, vc.Fd, b.Info[1:])
		switch {
		case vc.Panic && faultKey(vc.Piped, vc.Redirs, vc.PanicS) != "":
			c.Reject(faultKey(vc.Piped, vc.Redirs, vc.PanicS), what, rc)
		case why == "eofpanic":
			c.Reject(keyEofVal, what, rc)
		case why == "shared":
			c.Reject(keyShared, what, rc)
		default:
			c.Reject(fmt.Sprintf("V:%v:%v:%s:%s", vc.Present, vc.Piped, vc.Head, redirKey(vc.Redirs)), what, rc)
		}
	}
	return nil
}
