package main

import (
	"bufio"
	"encoding/json"
	"fmt"
	"math/rand"
	"os"
	"os/exec"
	"path/filepath"
	"runtime"
	"strconv"
	"strings"
	"syscall"
	"time"

	"src.elv.sh/pkg/store"
	"verif.local/harness/lib"
	"verif.local/harness/storex"
)

const childEnv = "VERIF_C25_CHILD"

const syscallSet = "pwrite64,write,fdatasync,fsync,ftruncate"

// Result of one acknowledged operation.
type OpResult struct {
	R    storex.Res        `json:"r"`
	Dirs []storex.DirScore `json:"dirs"`
}

// Plan identifies an experiment for replay.
type Plan struct {
	Seed   int64  `json:"seed"`
	Ops    int    `json:"ops"`
	Sys    string `json:"sys"` // system call whose First-th (then Second-th) invocation is killed
	First  int    `json:"first"`
	Second int    `json:"second"`
	Random bool   `json:"random"`
}

// Event is one line for TraceStoreCrash (uniform fields).
type Event struct {
	K         string            `json:"k"` // Reset | Crashed | Op
	Tag       string            `json:"tag"`
	Plan      Plan              `json:"plan"`
	O         storex.Op         `json:"o"`
	R         storex.Res        `json:"r"`
	Dirs      []storex.DirScore `json:"dirs"`
	Attempted []storex.Op       `json:"attempted"`
	Results   []OpResult        `json:"results"`
	Acked     int               `json:"acked"`
	Opened    bool              `json:"opened"`
	Killed    bool              `json:"killed"`
	Cmds      []storex.Entry    `json:"cmds"`
	Next      int               `json:"next"`
}

func blank(k string) Event {
	return Event{K: k, O: storex.Op{T: []int{}, Bl: []int{}}, R: storex.Res{Ok: true, T: []int{}, List: []storex.Entry{}},
		Dirs: []storex.DirScore{}, Attempted: []storex.Op{}, Results: []OpResult{}, Cmds: []storex.Entry{}}
}

// genHistory: the seeded history both the parent and the child compute. Mostly writing operations;
// a few long texts so that transactions span several pages and the file grows.
func genHistory(seed int64, n int) []storex.Op {
	r := rand.New(rand.NewSource(seed))
	texts := [][]int{{1}, {1, 2}, {2}, {1, 1}, {3}, {5, 1}, {}, {4}}
	ops := make([]storex.Op, 0, n)
	adds := 0
	for len(ops) < n {
		o := storex.Op{T: []int{}, Bl: []int{}}
		switch x := r.Intn(100); {
		case x < 45:
			o.Op, o.T = "AddCmd", texts[r.Intn(len(texts))]
			if r.Intn(8) == 0 {
				long := make([]int, 1200+r.Intn(2500))
				for i := range long {
					long[i] = 1 + i%2
				}
				o.T = long
			}
			adds++
		case x < 57:
			o.Op, o.A = "DelCmd", 1+r.Intn(adds+2)
		case x < 77:
			o.Op, o.D, o.F = "AddDir", 1+r.Intn(4), []int{1, 2, 2, 4}[r.Intn(4)]
		case x < 83:
			o.Op, o.D = "DelDir", 1+r.Intn(4)
		case x < 88:
			o.Op, o.A = "Cmd", 1+r.Intn(adds+2)
		case x < 93:
			o.Op = "NextCmdSeq"
		case x < 97:
			o.Op, o.A, o.T = "PrevCmd", adds+2, []int{1}
		default:
			o.Op = "Dirs"
		}
		ops = append(ops, o)
	}
	return ops
}

// ---- child mode: VERIF_C25_CHILD = db|seed|n|from ; protocol lines on fd 3

func child() {
	runtime.LockOSThread() // every store system call comes from this thread
	parts := strings.Split(os.Getenv(childEnv), "|")
	if len(parts) != 4 {
		os.Exit(9)
	}
	db := parts[0]
	seed, _ := strconv.ParseInt(parts[1], 10, 64)
	n, _ := strconv.Atoi(parts[2])
	from, _ := strconv.Atoi(parts[3])
	say := func(s string) { syscall.Write(3, []byte(s+"\n")) }
	ops := genHistory(seed, n)
	st, err := store.NewStore(db)
	if err != nil {
		say("OPENFAIL " + strings.ReplaceAll(err.Error(), "\n", " "))
		os.Exit(3)
	}
	say("OPEN")
	for k := from; k < len(ops); k++ {
		say(fmt.Sprintf("BEGIN %d", k))
		ev, err := storex.Exec(st, ops[k])
		if err != nil {
			say(fmt.Sprintf("ERR %d %s", k, strings.ReplaceAll(err.Error(), "\n", " ")))
			os.Exit(4)
		}
		b, _ := json.Marshal(OpResult{ev.R, ev.Dirs})
		say(fmt.Sprintf("ACK %d %s", k, b))
	}
	st.Close()
	say("DONE")
	os.Exit(0)
}

// ---- parent side

type childRun struct {
	opened   bool
	openFail string
	begun    int // number of operations begun (BEGIN lines), counted from `from`
	results  []OpResult
	opErr    string
	done     bool
	killed   bool
	lines    int
}

type killMode struct {
	injectAt  int    // >0: strace injects SIGKILL at the entry of the j-th invocation of injectSys
	injectSys string // (strace counts invocations per system call and per thread)
	countTo   string // != "": strace writes its log there (counting run)
	afterLine int    // >=0 with random: kill after this many protocol lines + a random pause
	random    bool
	pauseUs   int
}

func runChild(db string, seed int64, n, from int, km killMode) (*childRun, error) {
	env := append(os.Environ(), fmt.Sprintf("%s=%s|%d|%d|%d", childEnv, db, seed, n, from))
	var cmd *exec.Cmd
	switch {
	case km.injectAt > 0:
		cmd = exec.Command("timeout", "-s", "KILL", "300", "strace", "-f", "-o", "/dev/null", "-e", "trace="+syscallSet,
			"-e", fmt.Sprintf("inject=%s:signal=SIGKILL:when=%d", km.injectSys, km.injectAt), os.Args[0])
	case km.countTo != "":
		cmd = exec.Command("timeout", "-s", "KILL", "300", "strace", "-f", "-o", km.countTo, "-e", "trace="+syscallSet, os.Args[0])
	default:
		cmd = exec.Command(os.Args[0])
	}
	cmd.Env = env
	pr, pw, err := os.Pipe()
	if err != nil {
		return nil, err
	}
	cmd.ExtraFiles = []*os.File{pw}
	cmd.Stdout, cmd.Stderr = nil, nil
	if err := cmd.Start(); err != nil {
		pr.Close()
		pw.Close()
		return nil, err
	}
	pw.Close()
	res := &childRun{}
	sc := bufio.NewScanner(pr)
	sc.Buffer(make([]byte, 1<<20), 1<<26)
	for sc.Scan() {
		l := sc.Text()
		res.lines++
		switch {
		case l == "OPEN":
			res.opened = true
		case strings.HasPrefix(l, "OPENFAIL"):
			res.openFail = l
		case strings.HasPrefix(l, "BEGIN "):
			res.begun++
		case strings.HasPrefix(l, "ACK "):
			f := strings.SplitN(l, " ", 3)
			var r OpResult
			if len(f) == 3 && json.Unmarshal([]byte(f[2]), &r) == nil {
				res.results = append(res.results, r)
			} else {
				pr.Close()
				cmd.Process.Kill()
				cmd.Wait()
				return nil, fmt.Errorf("malformed protocol line %q", l)
			}
		case strings.HasPrefix(l, "ERR "):
			res.opErr = l
		case l == "DONE":
			res.done = true
		}
		if km.random && res.lines == km.afterLine {
			time.Sleep(time.Duration(km.pauseUs) * time.Microsecond)
			cmd.Process.Kill()
		}
	}
	if km.random && res.lines < km.afterLine {
		// fewer lines than planned: the child ended by itself
	}
	pr.Close()
	err = cmd.Wait()
	res.killed = !res.done
	if res.done && err != nil && km.injectAt == 0 && !km.random {
		return nil, fmt.Errorf("child finished its history but exited with %v", err)
	}
	return res, nil
}

func straceWorks(scratch string) error {
	cmd := exec.Command("timeout", "-s", "KILL", "60", "strace", "-f", "-o", "/dev/null", "-e", "trace=write", "-e", "inject=write:signal=SIGKILL:when=1", "/bin/echo", "x")
	err := cmd.Run()
	if err == nil {
		return fmt.Errorf("echo survived the injected SIGKILL")
	}
	return nil
}

// countSyscalls runs the whole history once under strace (no kill) and counts the child's
// write/sync system calls, per system call.
func countSyscalls(scratch string, seed int64, n int) (map[string]int, error) {
	db := filepath.Join(scratch, fmt.Sprintf("count-%d.db", seed))
	log := filepath.Join(scratch, fmt.Sprintf("count-%d.strace", seed))
	defer os.Remove(db)
	defer os.Remove(log)
	r, err := runChild(db, seed, n, 0, killMode{countTo: log})
	if err != nil {
		return nil, err
	}
	if !r.done {
		return nil, fmt.Errorf("counting run did not finish (opened=%v begun=%d %s %s)", r.opened, r.begun, r.openFail, r.opErr)
	}
	b, err := os.ReadFile(log)
	if err != nil {
		return nil, err
	}
	w := map[string]int{}
	for _, l := range strings.Split(string(b), "\n") {
		for _, s := range strings.Split(syscallSet, ",") {
			if strings.Contains(l, " "+s+"(") || strings.HasPrefix(l, s+"(") {
				w[s]++
				break
			}
		}
	}
	if len(w) == 0 {
		return nil, fmt.Errorf("strace log shows no write/sync system calls")
	}
	return w, nil
}

type crashPlan struct {
	sys           string
	first, second int
	random        bool
}

// experiment: fresh database; child 1 runs the history and is killed; reopen, read back, continue;
// child 2 continues the history and is killed; reopen, read back, continue.
func experiment(c *lib.Ctx, scratch, tag string, seed int64, n int, plan crashPlan) ([]Event, error) {
	db := filepath.Join(scratch, tag+".db")
	defer os.Remove(db)
	ops := genHistory(seed, n)
	rng := rand.New(rand.NewSource(seed ^ int64(plan.first)<<20 ^ boolInt(plan.random)<<40))
	first := blank("Reset")
	first.Tag = tag
	first.Plan = Plan{Seed: seed, Ops: n, Sys: plan.sys, First: plan.first, Second: plan.second, Random: plan.random}
	evs := []Event{first}
	from := 0
	for seg := 0; seg < 2 && from < len(ops); seg++ {
		km := killMode{}
		if plan.random {
			km = killMode{random: true, afterLine: 1 + rng.Intn(2*(len(ops)-from)+2), pauseUs: rng.Intn(1500)}
		} else if seg == 0 {
			km.injectAt, km.injectSys = plan.first, plan.sys
		} else {
			km.injectAt, km.injectSys = plan.second, plan.sys
		}
		r, err := runChild(db, seed, n, from, km)
		if err != nil {
			return nil, lib.Infra("child run: %v", err)
		}
		c.AddEvals(1)
		if r.opErr != "" {
			c.Reject("crash:op-error", fmt.Sprintf("experiment %s: an operation failed in the child: %s", tag, r.opErr), evs)
			return evs, nil
		}
		e := blank("Crashed")
		e.Tag = tag
		e.Attempted = append(e.Attempted, ops[from:from+r.begun]...)
		e.Results = append(e.Results, r.results...)
		for i := range e.Results {
			if e.Results[i].Dirs == nil {
				e.Results[i].Dirs = []storex.DirScore{}
			}
			if e.Results[i].R.T == nil {
				e.Results[i].R.T = []int{}
			}
			if e.Results[i].R.List == nil {
				e.Results[i].R.List = []storex.Entry{}
			}
		}
		e.Acked = len(r.results)
		e.Killed = r.killed
		if r.killed {
			c.Inc("children_killed", 1)
		} else {
			c.Inc("children_not_killed", 1)
		}
		// reopen as the next process would
		st, err := store.NewStore(db)
		if err != nil || r.openFail != "" {
			e.Opened = false
			evs = append(evs, e)
			c.Logf("experiment %s: database does not open after the crash: %v %s", tag, err, r.openFail)
			if st != nil {
				st.Close()
			}
			return evs, nil
		}
		e.Opened = true
		var rerr error
		read := func(o storex.Op) storex.Event {
			ev, err := storex.Exec(st, o)
			if err != nil && rerr == nil {
				rerr = fmt.Errorf("%s after reopening: %v", o.Op, err)
			}
			return ev
		}
		e.Cmds = read(storex.Op{Op: "CmdsWithSeq", A: 0, B: -1}).R.List
		e.Next = read(storex.Op{Op: "NextCmdSeq"}).R.N
		e.Dirs = read(storex.Op{Op: "Dirs"}).Dirs
		if rerr != nil {
			st.Close()
			e.Opened = false
			evs = append(evs, e)
			c.Logf("experiment %s: %v", tag, rerr)
			return evs, nil
		}
		evs = append(evs, e)
		if r.killed {
			c.Distinct([]any{e.Attempted, e.Acked, e.Cmds, e.Next, e.Dirs})
		}
		// continue in the parent: a few operations, always including an AddCmd
		cont := []storex.Op{{Op: "AddCmd", T: []int{2, 2}}, {Op: "NextCmdSeq"}}
		if rng.Intn(2) == 0 {
			cont = append(cont, storex.Op{Op: "AddDir", D: 1 + rng.Intn(4), F: 2}, storex.Op{Op: "Dirs"})
		}
		for _, o := range cont {
			ev, err := storex.Exec(st, o)
			if err != nil {
				st.Close()
				c.Reject("crash:op-error", fmt.Sprintf("experiment %s: %s after reopening failed: %v", tag, o.Op, err), evs)
				return evs, nil
			}
			oe := blank("Op")
			oe.Tag = tag
			oe.O, oe.R, oe.Dirs = ev.O, ev.R, ev.Dirs
			evs = append(evs, oe)
		}
		if err := st.Close(); err != nil {
			return nil, lib.Infra("close after reopen: %v", err)
		}
		from += r.begun
	}
	return evs, nil
}

func boolInt(b bool) int64 {
	if b {
		return 1
	}
	return 0
}
