// C25 — history survives a crash at any point.
// M: MCStoreCrash: every history of <= 4 operations, a crash possible in every state, <= 2 crashes with
//    Reopen/Continue; PrefixOK and SeqAboveAcked hold with the atomic Commit and TLC finds the torn
//    state when Commit is split (Atomic = FALSE, vacuity guard).
// V (real processes): this binary re-executes itself as a child that runs a seeded history against a
//    real database file with store.NewStore (fsync on) and reports BEGIN k / ACK k result on a pipe.
//    Crash points: (1) enumerated — one run under strace counts the child's write/sync system calls W,
//    then for j = 1..W the child is re-run with strace injecting SIGKILL at the j-th such call;
//    (2) SIGKILL at random times. After each kill the parent reopens the file with store.NewStore,
//    reads the whole state, continues with a few operations, lets a second child continue the history
//    and be killed again; the recorded experiment is judged by the TLC walker TraceStoreCrash.
package main

import (
	"encoding/json"
	"fmt"
	"os"
	"sort"
	"sync"
	"time"

	"verif.local/harness/histx"
	"verif.local/harness/lib"
)

func main() {
	if os.Getenv(childEnv) != "" {
		child()
		return
	}
	lib.Main("C25", run)
}

func run(c *lib.Ctx) error {
	dir, root, err := histx.SpecDir(c, "StoreCrash", "HistStore/HistStore.tla")
	if err != nil {
		return lib.Infra("%v", err)
	}
	defer os.RemoveAll(root)
	// the database lives on a real disk directory (not tmpfs): fsync/fdatasync are real there
	scratch, err := os.MkdirTemp("", "vcrash-")
	if err != nil {
		return lib.Infra("%v", err)
	}
	defer os.RemoveAll(scratch)
	if c.Replay != "" {
		return replay(c, dir, scratch)
	}
	c.Set("rule", "one case per crash experiment segment (history, crash point): distinct by (operations attempted, number acknowledged, prefix length recovered, state read back); runs in which the child was not killed are not counted")

	var wg sync.WaitGroup
	var mu sync.Mutex
	var firstErr error
	fail := func(err error) {
		mu.Lock()
		if firstErr == nil {
			firstErr = err
		}
		mu.Unlock()
	}
	// ---- M
	wg.Add(1)
	go func() {
		defer wg.Done()
		mk := func(ops, crashes int, atomic string) []byte {
			return []byte(fmt.Sprintf("CONSTANTS MaxOps = %d MaxCrashes = %d Atomic = %s\nSPECIFICATION Spec\nINVARIANT PrefixOK\nINVARIANT SeqAboveAcked\nINVARIANT StoreOK\nPROPERTY NextNeverDecreases\n", ops, crashes, atomic))
		}
		ops := c.Pick(3, 4)
		r, err := c.TLC(fmt.Sprintf("MCStoreCrash(ops<=%d crashes<=2 atomic)", ops), lib.TLCRun{Dir: dir, Module: "MCStoreCrash", Workers: 2, Timeout: 12 * time.Minute, HeapGB: 6,
			Files: map[string][]byte{"MCStoreCrash.cfg": mk(ops, 2, "TRUE")}})
		if err != nil {
			fail(err)
			return
		}
		if r.ErrKind != "" {
			fail(lib.Infra("the crash model violates its own property %s %s:\n%s", r.ErrKind, r.ErrName, r.ErrTrace))
			return
		}
		c.Logf("M atomic: %d distinct states, %d transitions", r.Distinct, r.Generated)
		r, err = c.TLC("MCStoreCrash(split commit: must fail)", lib.TLCRun{Dir: dir, Module: "MCStoreCrash", Workers: 1, Timeout: 5 * time.Minute,
			Files: map[string][]byte{"MCStoreCrash.cfg": mk(2, 1, "FALSE")}})
		if err != nil {
			fail(err)
			return
		}
		if r.ErrKind != "invariant" || r.ErrName != "PrefixOK" {
			fail(lib.Infra("vacuity guard: with a two-step commit TLC must violate PrefixOK, got %q %q", r.ErrKind, r.ErrName))
		}
	}()

	// ---- V
	if err := straceWorks(scratch); err != nil {
		return lib.Infra("strace with signal injection is not usable here: %v", err)
	}
	nEnum, nOps, nRandom := c.Pick(3, 40), c.Pick(8, 12), c.Pick(30, 1500)
	maxPoints := c.Pick(70, 400)
	var groups [][]Event
	var gmu sync.Mutex
	t0 := time.Now()
	// (1) enumerated crash points
	type job struct {
		seed int64
		j    int
	}
	var jobs []job
	totalW := 0
	for h := 0; h < nEnum; h++ {
		seed := c.Seed*10007 + int64(h)
		w, err := countSyscalls(scratch, seed, nOps)
		if err != nil {
			wg.Wait()
			return lib.Infra("counting run: %v", err)
		}
		totalW += w
		c.Logf("history seed %d: %d operations, %d write/sync system calls", seed, nOps, w)
		for j := 1; j <= w && j <= maxPoints; j++ {
			jobs = append(jobs, job{seed, j})
		}
	}
	c.Set("enumerated_syscalls_total", totalW)
	lib.Parallel(len(jobs), 6, func(i int) {
		jb := jobs[i]
		g, err := experiment(c, scratch, fmt.Sprintf("e%d", i), jb.seed, nOps, crashPlan{first: jb.j, second: 1 + int(jb.seed+int64(jb.j)*31)%23})
		if err != nil {
			fail(err)
			return
		}
		gmu.Lock()
		groups = append(groups, g)
		gmu.Unlock()
	})
	// (2) random-time kills
	lib.Parallel(nRandom, 6, func(i int) {
		seed := c.Seed*20011 + int64(i)
		g, err := experiment(c, scratch, fmt.Sprintf("r%d", i), seed, nOps+4, crashPlan{random: true})
		if err != nil {
			fail(err)
			return
		}
		gmu.Lock()
		groups = append(groups, g)
		gmu.Unlock()
	})
	if firstErr != nil {
		wg.Wait()
		return firstErr
	}
	c.Logf("%d crash experiments (%d enumerated, %d random-time) in %.1fs", len(groups), len(jobs), nRandom, time.Since(t0).Seconds())
	sort.Slice(groups, func(a, b int) bool { return groups[a][0].Tag < groups[b][0].Tag })
	if len(groups) > 0 {
		c.Sample(groups[0])
	}
	if err := judge(c, dir, "TraceStoreCrash(V)", groups); err != nil {
		wg.Wait()
		return err
	}
	c.AddTraces(len(groups))
	wg.Wait()
	if firstErr != nil {
		return firstErr
	}
	c.Assume("TLC trusted; SIGKILL keeps the page cache: this decides transaction atomicity and recovery of the database file as left by completed system calls, not power-loss durability (which the property does not state); crash points are the entries of the child's pwrite64/write/fdatasync/fsync/ftruncate system calls (strace injection, kill before the call executes) plus kills at random times; the child runs the store calls on one locked OS thread; directory scores are compared in milli-units within the drift bound of HistStore.tla")
	return nil
}

func judge(c *lib.Ctx, dir, name string, groups [][]Event) error {
	bad, err := lib.JudgeGroups(c, name, dir, "TraceStoreCrash", groups, 4, 10*time.Minute)
	if err != nil {
		return err
	}
	var flat []Event
	var starts []int
	for _, g := range groups {
		starts = append(starts, len(flat))
		flat = append(flat, g...)
	}
	for _, b := range bad {
		gi := 0
		for i, s := range starts {
			if s <= b.Index {
				gi = i
			}
		}
		why := "rejected"
		if len(b.Info) > 0 {
			why = fmt.Sprint(b.Info[0])
		}
		if why == "continued-result" && len(b.Info) > 1 {
			why += ":" + fmt.Sprint(b.Info[1])
		}
		ev := flat[b.Index]
		c.Reject("crash:"+why, fmt.Sprintf("experiment %s event %d (%s): acked=%d attempted=%d opened=%v next=%d; specification says %v", groups[gi][0].Tag, b.Index-starts[gi], ev.K, ev.Acked, len(ev.Attempted), ev.Opened, ev.Next, b.Info), groups[gi])
	}
	return nil
}

func replay(c *lib.Ctx, dir, scratch string) error {
	b, err := os.ReadFile(c.Replay)
	if err != nil {
		return lib.Infra("%v", err)
	}
	var f struct {
		Case []Event `json:"case"`
	}
	if err := json.Unmarshal(b, &f); err != nil || len(f.Case) == 0 {
		return lib.Infra("bad replay file: %v", err)
	}
	// re-run the experiment with the same history and crash plan (enumerated points are
	// deterministic; a random-time kill is re-drawn), then judge; the stored recording is judged too.
	groups := [][]Event{f.Case}
	if p := f.Case[0].Plan; p.Seed != 0 {
		g, err := experiment(c, scratch, "replay", p.Seed, p.Ops, crashPlan{first: p.First, second: p.Second, random: p.Random})
		if err != nil {
			return err
		}
		groups = append(groups, g)
	}
	return judge(c, dir, "TraceStoreCrash(replay)", groups)
}
