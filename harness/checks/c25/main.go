// C25 — history survives a crash at any point.
//
// M: MCStoreCrash: every history of <= 4 operations, a crash possible in every state, <= 2 crashes with
// Reopen/Continue; PrefixOK and SeqAboveAcked hold with the atomic Commit and TLC finds the torn
// state when Commit is split (Atomic = FALSE, vacuity guard).
//
// V (real processes): this binary re-executes itself as a child that runs a seeded history against a
// real database file with store.NewStore (fsync on) and reports BEGIN k / ACK k result on a pipe.
// Crash points: (1) enumerated: one run under strace counts the child's write/sync system calls W,
// then for j = 1..W the child is re-run with strace injecting SIGKILL at the j-th such call;
// (2) SIGKILL at random times. After each kill the parent reopens the file with store.NewStore,
// reads the whole state, continues with a few operations, lets a second child continue the history
// and be killed again; the recorded experiment is judged by the TLC walker TraceStoreCrash.
package main

import (
	"encoding/json"
	"fmt"
	"os"
	"sort"
	"sync"
	"time"

	"verif.local/harness/histx"
	"verif.local/harness/lib"
)

func main() {
	if os.Getenv(childEnv) != "" {
		child()
		return
	}
	lib.Main("C25", run)
}

func run(c *lib.Ctx) error {
	dir, root, err := histx.SpecDir(c, "StoreCrash", "HistStore/HistStore.tla")
	if err != nil {
		return lib.Infra("%v", err)
	}
	defer os.RemoveAll(root)
	// the database lives on a real disk directory (not tmpfs): fsync/fdatasync are real there
	scratch, err := os.MkdirTemp("", "vcrash-")
	if err != nil {
		return lib.Infra("%v", err)
	}
	defer os.RemoveAll(scratch)
	if c.Replay != "" {
		return replay(c, dir, scratch)
	}
	c.Set("rule", "one case per crash experiment segment (history, crash point): distinct by (operations attempted, number acknowledged, prefix length recovered, state read back); runs in which the child was not killed are not counted")

	var wg sync.WaitGroup
	var mu sync.Mutex
	var firstErr error
	fail := func(err error) {
		mu.Lock()
		if firstErr == nil {
			firstErr = err
		}
		mu.Unlock()
	}
	// ---- M
	wg.Add(1)
	go func() {
		defer wg.Done()
		mk := func(ops, crashes int, atomic string) []byte {
			return []byte(fmt.Sprintf("CONSTANTS MaxOps = %d MaxCrashes = %d Atomic = %s\nSPECIFICATION Spec\nINVARIANT PrefixOK\nINVARIANT SeqAboveAcked\nINVARIANT StoreOK\nPROPERTY NextNeverDecreases\n", ops, crashes, atomic))
		}
		ops := c.Pick(3, 4)
		r, err := c.TLC(fmt.Sprintf("MCStoreCrash(ops<=%d crashes<=2 atomic)", ops), lib.TLCRun{Dir: dir, Module: "MCStoreCrash", Workers: 2, Timeout: 12 * time.Minute, HeapGB: 6,
			Files: map[string][]byte{"MCStoreCrash.cfg": mk(ops, 2, "TRUE")}})
		if err != nil {
			fail(err)
			return
		}
		if r.ErrKind != "" {
			fail(lib.Infra("the crash model violates its own property %s %s:\n%s", r.ErrKind, r.ErrName, r.ErrTrace))
			return
		}
		c.Logf("M atomic: %d distinct states, %d transitions", r.Distinct, r.Generated)
		r, err = c.TLC("MCStoreCrash(split commit: must fail)", lib.TLCRun{Dir: dir, Module: "MCStoreCrash", Workers: 1, Timeout: 5 * time.Minute,
			Files: map[string][]byte{"MCStoreCrash.cfg": mk(2, 1, "FALSE")}})
		if err != nil {
			fail(err)
			return
		}
		if r.ErrKind != "invariant" || r.ErrName != "PrefixOK" {
			fail(lib.Infra("vacuity guard: with a two-step commit TLC must violate PrefixOK, got %q %q", r.ErrKind, r.ErrName))
		}
	}()

	// ---- V
	if err := straceWorks(scratch); err != nil {
		return lib.Infra("strace with signal injection is not usable here: %v", err)
	}
	nEnum, nOps, nRandom := c.Pick(2, 24), c.Pick(8, 12), c.Pick(24, 800)
	maxPoints := c.Pick(40, 400)
	var groups [][]Event
	var gmu sync.Mutex
	t0 := time.Now()
	// (1) enumerated crash points
	type job struct {
		seed int64
		sys  string
		j    int
	}
	var jobs []job
	totalW := 0
	for h := 0; h < nEnum; h++ {
		seed := c.Seed*10007 + int64(h)
		w, err := countSyscalls(scratch, seed, nOps)
		if err != nil {
			wg.Wait()
			return lib.Infra("counting run: %v", err)
		}
		names := make([]string, 0, len(w))
		for s := range w {
			names = append(names, s)
		}
		sort.Strings(names)
		for _, s := range names {
			totalW += w[s]
			for j := 1; j <= w[s] && j <= maxPoints; j++ {
				jobs = append(jobs, job{seed, s, j})
			}
		}
		c.Logf("history seed %d: %d operations, system calls %v", seed, nOps, w)
	}
	c.Set("enumerated_syscalls_total", totalW)
	lib.Parallel(len(jobs), 4, func(i int) {
		jb := jobs[i]
		g, err := experiment(c, scratch, fmt.Sprintf("e%d", i), jb.seed, nOps, crashPlan{sys: jb.sys, first: jb.j, second: 1 + int(jb.seed+int64(jb.j)*31)%11})
		if err != nil {
			fail(err)
			return
		}
		gmu.Lock()
		groups = append(groups, g)
		gmu.Unlock()
	})
	// (2) random-time kills
	lib.Parallel(nRandom, 4, func(i int) {
		seed := c.Seed*20011 + int64(i)
		g, err := experiment(c, scratch, fmt.Sprintf("r%d", i), seed, nOps+4, crashPlan{random: true})
		if err != nil {
			fail(err)
			return
		}
		gmu.Lock()
		groups = append(groups, g)
		gmu.Unlock()
	})
	if firstErr != nil {
		wg.Wait()
		return firstErr
	}
	c.Logf("%d crash experiments (%d enumerated, %d random-time) in %.1fs", len(groups), len(jobs), nRandom, time.Since(t0).Seconds())
	sort.Slice(groups, func(a, b int) bool { return groups[a][0].Tag < groups[b][0].Tag })
	if len(groups) > 0 {
		c.Sample(groups[0])
	}
	if os.Getenv("VERIF_SELFTEST_CORRUPT") != "" { // development-time vacuity guard: the judge must reject a falsified recording
		for i := range groups[0] {
			if e := &groups[0][i]; e.K == "Crashed" {
				e.Next++
				break
			}
		}
	}
	if err := judge(c, dir, "TraceStoreCrash(V)", groups); err != nil {
		wg.Wait()
		return err
	}
	c.AddTraces(len(groups))
	wg.Wait()
	if firstErr != nil {
		return firstErr
	}
	c.Assume("TLC trusted; SIGKILL keeps the page cache: this decides transaction atomicity and recovery of the database file as left by completed system calls, not power-loss durability (which the property does not state); crash points are the entries of the child's pwrite64/write/fdatasync/fsync/ftruncate system calls (strace injection, kill before the call executes) plus kills at random times; the child runs the store calls on one locked OS thread; directory scores are compared in milli-units within the drift bound of HistStore.tla")
	return nil
}

// judge hands the experiments to the TLC walker TraceStoreCrash (groups kept whole, several per TLC
// process), reports rejected ones and counts which recovery class each crash fell into (tag P).
func judge(c *lib.Ctx, dir, name string, groups [][]Event) error {
	const par, target = 3, 400
	type chunk struct {
		items []Event
		gidx  []int // group index of every item
		off   []int // offset of every item within its group
	}
	var chunks []*chunk
	cur := &chunk{}
	for gi, g := range groups {
		if len(cur.items) > 0 && len(cur.items)+len(g) > max(target, (totalLen(groups)+par-1)/par) {
			chunks = append(chunks, cur)
			cur = &chunk{}
		}
		for k, e := range g {
			cur.items = append(cur.items, e)
			cur.gidx = append(cur.gidx, gi)
			cur.off = append(cur.off, k)
		}
	}
	if len(cur.items) > 0 {
		chunks = append(chunks, cur)
	}
	var mu sync.Mutex
	var firstErr error
	lib.Parallel(len(chunks), par, func(i int) {
		ch := chunks[i]
		r, err := c.TLC(name, lib.TLCRun{Dir: dir, Module: "TraceStoreCrash", Workers: 1, Timeout: 12 * time.Minute, HeapGB: 3,
			Files: map[string][]byte{"cases.ndjson": lib.NDJSON(ch.items)}})
		mu.Lock()
		defer mu.Unlock()
		if err != nil {
			if firstErr == nil {
				firstErr = err
			}
			return
		}
		if r.ErrKind != "" || r.Distinct != int64(len(ch.items))+1 {
			if firstErr == nil {
				firstErr = lib.Infra("walker TraceStoreCrash: %s %s; walked %d states for %d events\n%s", r.ErrKind, r.Err, r.Distinct, len(ch.items), r.ErrTrace)
			}
			return
		}
		for _, t := range r.Tagged("P") { // <<"P", k, acked, p, attempted>>
			if len(t) == 4 {
				k, _ := t[0].(int64)
				acked, _ := t[1].(int64)
				p, _ := t[2].(int64)
				att, _ := t[3].(int64)
				ev := ch.items[k-1]
				switch {
				case !ev.Killed:
					c.Inc("class_not_killed", 1)
				case att == acked:
					c.Inc("class_killed_between_operations", 1)
				case p == acked:
					c.Inc("class_inflight_operation_lost", 1)
				default:
					c.Inc("class_inflight_operation_committed_unacknowledged", 1)
				}
			}
		}
		for _, t := range r.Tagged("BAD") {
			if len(t) < 2 {
				continue
			}
			k, _ := t[0].(int64)
			gi, off := ch.gidx[k-1], ch.off[k-1]
			why := fmt.Sprint(t[1])
			if why == "continued-result" && len(t) > 2 {
				why += ":" + fmt.Sprint(t[2])
			}
			ev := ch.items[k-1]
			c.Reject("crash:"+why, fmt.Sprintf("experiment %s event %d (%s): acked=%d attempted=%d opened=%v next=%d; specification says %v", groups[gi][0].Tag, off, ev.K, ev.Acked, len(ev.Attempted), ev.Opened, ev.Next, t[1:]), groups[gi])
		}
	})
	return firstErr
}

func totalLen(groups [][]Event) int {
	n := 0
	for _, g := range groups {
		n += len(g)
	}
	return n
}

func replay(c *lib.Ctx, dir, scratch string) error {
	b, err := os.ReadFile(c.Replay)
	if err != nil {
		return lib.Infra("%v", err)
	}
	var f struct {
		Case []Event `json:"case"`
	}
	if err := json.Unmarshal(b, &f); err != nil || len(f.Case) == 0 {
		return lib.Infra("bad replay file: %v", err)
	}
	// re-run the experiment with the same history and crash plan (enumerated points are
	// deterministic; a random-time kill is re-drawn), then judge; the stored recording is judged too.
	groups := [][]Event{f.Case}
	if p := f.Case[0].Plan; p.Seed != 0 {
		g, err := experiment(c, scratch, "replay", p.Seed, p.Ops, crashPlan{sys: p.Sys, first: p.First, second: p.Second, random: p.Random})
		if err != nil {
			return err
		}
		groups = append(groups, g)
	}
	return judge(c, dir, "TraceStoreCrash(replay)", groups)
}
