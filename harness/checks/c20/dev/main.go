package main

import (
	"encoding/json"
	"fmt"
	"os"
	"time"

	"verif.local/harness/checks/c20/drv"
)

func main() {
	var cfg drv.Cfg
	var sched []drv.Step
	json.Unmarshal([]byte(os.Args[1]), &cfg)
	if len(os.Args) > 2 {
		json.Unmarshal([]byte(os.Args[2]), &sched)
	}
	fmt.Println(drv.Program(cfg))
	r, evs, err := drv.RunOne(cfg, sched, 20*time.Second)
	fmt.Println("err", err, "diverged", r.Diverged)
	for _, e := range evs {
		fmt.Printf("%s i=%d v=%d res=%s conc=%d out=%v errs=%v nbrk=%d other=%v\n", e.Ev, e.I, e.V, e.Res, e.Conc, e.Out, e.Errs, e.Nbrk, e.Other)
	}
}
