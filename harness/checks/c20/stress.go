package main

// STRESS phase of C20: races whose window has no gate (e.g. the worker slot released before the break /
// failure is recorded) cannot be forced by a schedule; they are looked for by volume: many evaluators side
// by side, GOMAXPROCS far above the CPU count (so that the kernel preempts threads inside tiny windows),
// each evaluator running `each` and `peach &num-workers=1` on the same callbacks and inputs, with a callback
// that breaks or fails early while several inputs are pending. The hooks are idle. Every pair of runs is
// reduced to a compact summary; identical summaries are counted; TLC (StressPeach.tla, a case walker over
// EachRef.tla) judges every distinct summary. Detection of such a race is PROBABILISTIC.

import (
	"fmt"
	"math/rand"
	"os"
	"runtime"
	"strconv"
	"sync"
	"time"

	"src.elv.sh/pkg/eval"
	"src.elv.sh/pkg/eval/vals"
	"src.elv.sh/pkg/parse"
	"verif.local/harness/checks/c20/drv"
	"verif.local/harness/elv"
	"verif.local/harness/lib"
)

type side struct {
	Starts []int    `json:"starts"`
	Out    []int    `json:"out"`
	Fails  []int    `json:"fails"`
	Nbrk   int      `json:"nbrk"`
	Other  []string `json:"other"`
}

type stressCase struct {
	N     int      `json:"n"`
	Res   []string `json:"res"`
	Nout  []int    `json:"nout"`
	Count int      `json:"count"`
	Each  side     `json:"each"`
	Peach side     `json:"peach"`
	// concretisation of the first run that showed this summary (not judged)
	Procs  int  `json:"procs"`
	Evals  int  `json:"evaluators"`
	Closed bool `json:"closure_callback"`
	Spin   int  `json:"spin"`
}

type stressState struct {
	mu     sync.Mutex
	res    []string
	nout   []int
	spin   int
	starts []int
}

func (st *stressState) callback(fm *eval.Frame, x any) error {
	i, _ := x.(int)
	st.mu.Lock()
	st.starts = append(st.starts, i)
	st.mu.Unlock()
	if i < 1 || i > len(st.res) {
		return fmt.Errorf("stress callback called with %v", x)
	}
	for j := 1; j <= st.nout[i-1]; j++ {
		if err := fm.ValueOutput().Put(i*1000 + j); err != nil {
			return err
		}
	}
	switch st.spin {
	case 1:
		runtime.Gosched()
	case 2:
		for k := 0; k < 300; k++ {
			_ = k * k
		}
	case 3:
		time.Sleep(time.Microsecond)
	}
	switch st.res[i-1] {
	case "break":
		return eval.Break
	case "fail":
		return eval.FailError{Content: "f" + strconv.Itoa(i)}
	}
	return nil
}

func (st *stressState) runSide(ev *eval.Evaler, fn eval.Callable, cb any, list vals.List, opts map[string]any, ch chan any) (side, error) {
	st.mu.Lock()
	st.starts = st.starts[:0]
	st.mu.Unlock()
	port := &eval.Port{File: eval.DevNull, Chan: ch}
	err := ev.Call(fn, eval.CallCfg{Args: []any{cb, list}, Opts: opts, From: "[c20 stress]"},
		eval.EvalCfg{Ports: []*eval.Port{eval.DummyInputPort, port, eval.DummyOutputPort}})
	s := side{Starts: []int{}, Out: []int{}}
	for len(ch) > 0 {
		v := <-ch
		n, _ := v.(int)
		s.Out = append(s.Out, n)
	}
	st.mu.Lock()
	s.Starts = append(s.Starts, st.starts...)
	st.mu.Unlock()
	var nintr int
	s.Fails, s.Nbrk, nintr, s.Other = drv.Project(err)
	if nintr > 0 {
		s.Other = append(s.Other, "interrupted")
	}
	return s, nil
}

func appendSide(b []byte, s side) []byte {
	for _, x := range s.Starts {
		b = strconv.AppendInt(b, int64(x), 10)
		b = append(b, ',')
	}
	b = append(b, '|')
	for _, x := range s.Out {
		b = strconv.AppendInt(b, int64(x), 10)
		b = append(b, ',')
	}
	b = append(b, '|')
	for _, x := range s.Fails {
		b = strconv.AppendInt(b, int64(x), 10)
		b = append(b, ',')
	}
	b = append(b, '|')
	b = strconv.AppendInt(b, int64(s.Nbrk), 10)
	for _, x := range s.Other {
		b = append(b, '|')
		b = append(b, x...)
	}
	return b
}

// stress runs the side-by-side pairs for d and returns the distinct summaries with their counts.
func stress(c *lib.Ctx, d time.Duration) ([]stressCase, int, error) {
	old := runtime.GOMAXPROCS(0)
	procs := 4 * runtime.NumCPU()
	nev := 2 * procs
	if s := os.Getenv("VERIF_C20_STRESS_PROCS"); s != "" {
		if n, err := strconv.Atoi(s); err == nil && n > 0 {
			procs, nev = n, 2*n
		}
	}
	runtime.GOMAXPROCS(procs)
	defer runtime.GOMAXPROCS(old)

	var mu sync.Mutex
	all := map[string]*stressCase{}
	total := 0
	var firstErr error
	deadline := time.Now().Add(d)
	var wg sync.WaitGroup
	for e := 0; e < nev; e++ {
		wg.Add(1)
		go func(e int) {
			defer wg.Done()
			rng := rand.New(rand.NewSource(c.Seed*7919 + int64(e)))
			ev := elv.New()
			st := &stressState{}
			ev.ExtendBuiltin(eval.BuildNs().AddGoFn("vs-cb", st.callback))
			get := func(name string) eval.Callable {
				v, _ := ev.Builtin().Index(name)
				f, _ := v.(eval.Callable)
				return f
			}
			peachFn, eachFn := get("peach~"), get("each~")
			var cb any = get("vs-cb~")
			closed := e%2 == 1
			if closed { // an Elvish closure around the Go callback
				port, collect, err := eval.CapturePort()
				if err == nil {
					err = ev.Eval(parse.Source{Name: "[c20 stress]", Code: "put {|x| vs-cb $x }"}, eval.EvalCfg{Ports: []*eval.Port{nil, port, nil}})
					vs, _ := collect()
					if err == nil && len(vs) == 1 {
						cb = vs[0]
					}
				}
			}
			if peachFn == nil || eachFn == nil || cb == nil {
				mu.Lock()
				firstErr = lib.Infra("stress: builtins not found")
				mu.Unlock()
				return
			}
			lists := map[int]vals.List{}
			for n := 2; n <= 8; n++ {
				var xs []any
				for i := 1; i <= n; i++ {
					xs = append(xs, i)
				}
				lists[n] = vals.MakeList(xs...)
			}
			ch := make(chan any, 64)
			opts := map[string]any{"num-workers": 1}
			local := map[string]*stressCase{}
			n := 0
			var key []byte
			for time.Now().Before(deadline) {
				for rep := 0; rep < 64; rep++ {
					k := 3 + rng.Intn(6)
					st.res = make([]string, k)
					st.nout = make([]int, k)
					for i := range st.res {
						st.res[i] = "ok"
						st.nout[i] = 1
					}
					pos := 0 // the callback that breaks/fails: the first input, sometimes the second
					if rng.Intn(4) == 0 {
						pos = 1
					}
					st.res[pos] = []string{"break", "fail"}[rng.Intn(2)]
					if rng.Intn(8) == 0 {
						st.nout[pos] = 0
					}
					st.spin = rng.Intn(4)
					es, err := st.runSide(ev, eachFn, cb, lists[k], eval.NoOpts, ch)
					if err != nil {
						return
					}
					ps, _ := st.runSide(ev, peachFn, cb, lists[k], opts, ch)
					n++
					key = key[:0]
					key = strconv.AppendInt(key, int64(k), 10)
					key = append(key, st.res[pos][0], byte('0'+pos), byte('0'+st.nout[pos]), '#')
					key = appendSide(key, es)
					key = append(key, '#')
					key = appendSide(key, ps)
					if sc := local[string(key)]; sc != nil {
						sc.Count++
						continue
					}
					local[string(key)] = &stressCase{N: k, Res: st.res, Nout: st.nout, Count: 1, Each: es, Peach: ps,
						Procs: procs, Evals: nev, Closed: closed, Spin: st.spin}
				}
			}
			mu.Lock()
			total += n
			for k, sc := range local {
				if a := all[k]; a != nil {
					a.Count += sc.Count
				} else {
					all[k] = sc
				}
			}
			mu.Unlock()
		}(e)
	}
	wg.Wait()
	if firstErr != nil {
		return nil, 0, firstErr
	}
	var out []stressCase
	for _, sc := range all {
		if sc.Each.Other == nil {
			sc.Each.Other = []string{}
		}
		if sc.Peach.Other == nil {
			sc.Peach.Other = []string{}
		}
		out = append(out, *sc)
	}
	return out, total, nil
}

// stressPhase runs the stress and lets TLC judge the summaries.
func stressPhase(c *lib.Ctx, dir string, factor int) error {
	secs := c.Pick(18, 240) * factor
	if s := os.Getenv("VERIF_C20_STRESS_S"); s != "" {
		if n, err := strconv.Atoi(s); err == nil {
			secs = n
		}
	}
	t0 := time.Now()
	cases, total, err := stress(c, time.Duration(secs)*time.Second)
	if err != nil {
		return err
	}
	c.AddEvals(2 * total)
	c.Set("stress_side_by_side_runs", total)
	c.Set("stress_distinct_summaries", len(cases))
	c.Set("stress_seconds", secs)
	c.Logf("stress: %d side-by-side runs of each / peach &num-workers=1 in %.0f s, %d distinct summaries", total, time.Since(t0).Seconds(), len(cases))
	if len(cases) == 0 {
		return lib.Infra("stress produced no run")
	}
	bad, err := lib.Judge(c, "StressPeach", dir, "StressPeach", cases, 1, 10*time.Minute)
	if err != nil {
		return err
	}
	c.AddTraces(len(cases))
	nbad := 0
	for _, b := range bad {
		sc := cases[b.Index]
		nbad += sc.Count
		key := "peach:stress-differs-from-each"
		if len(b.Info) > 0 {
			if w, ok := b.Info[0].([]any); ok && len(w) == 3 {
				if w[0] == "each-differs" {
					key = "each:differs-from-reference"
				} else if w[2] == true {
					key = "peach:bound1-starts-after-break"
				}
			}
		}
		c.Reject(key, fmt.Sprintf("stress: with callbacks %v (outputs %v) each entered callbacks %v, output %v, failures %v; peach &num-workers=1 entered %v, output %v, failures %v, other %v — seen in %d of %d side-by-side runs (GOMAXPROCS %d, %d evaluators)",
			sc.Res, sc.Nout, sc.Each.Starts, sc.Each.Out, sc.Each.Fails, sc.Peach.Starts, sc.Peach.Out, sc.Peach.Fails, sc.Peach.Other, sc.Count, total, sc.Procs, sc.Evals),
			map[string]any{"stress": sc})
	}
	c.Set("stress_runs_differing", nbad)
	return nil
}
