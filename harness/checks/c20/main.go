// C20 — peach and run-parallel run each task once; one-worker peach equals each.
//
//	M: MCEach (the sequential reference), MCPeach in the repaired configuration (Recheck = Honour = {TRUE}:
//	   no error expected) and in the AS-IS configuration (Recheck = Honour = {FALSE}: TLC is expected to find
//	   Peach1RefinesEach counterexamples, which are CANDIDATES).
//	G: every candidate is turned into a schedule of gate-able events and replayed on the real peach with
//	   gated harness callbacks and the verif hooks; in addition TLC simulates behaviours of the permissive
//	   model whose gate order is forced on the real code. The recorded trace of every replay is judged by
//	   TracePeach (TLC): only a rejected REAL trace is a verdict.
//	V: free-running random runs (sizes 0..500, bounds 1..8/+inf, delays, outputs, breaks, failures,
//	   GOMAXPROCS sweep; list and pipe inputs; Go and closure callbacks), run-parallel, and the
//	   side-by-side pair each / peach &num-workers=1 on the same callbacks: TracePeach / TraceEach validate.
package main

import (
	"bytes"
	"encoding/json"
	"fmt"
	"math/rand"
	"os"
	"runtime"
	"sort"
	"strings"
	"sync"
	"time"

	"verif.local/harness/checks/c20/drv"
	"verif.local/harness/lib"
)

func main() { lib.Main("C20", run) }

const invs = "AtMostOnce ExactlyOnceIfClean BoundRespected SemNonNegative OutputIsUnion ReturnAfterAllFinished AllErrorsReported RunParallelAll"

func mcCfg(maxN, maxOut int, bounds, modes, res, sw string, live bool) []byte {
	s := fmt.Sprintf("CONSTANTS MaxN = %d MaxOut = %d Bounds = %s Modes = %s Res = %s\n Recheck = %s Honour = %s MayCancel = FALSE\nSPECIFICATION Spec\nINVARIANT %s\nPROPERTY Peach1RefinesEach",
		maxN, maxOut, bounds, modes, res, sw, sw, invs)
	if live {
		s += " Terminates"
	}
	return []byte(s + "\n")
}

type replayCase struct {
	Cfg    drv.Cfg     `json:"cfg"`
	Sched  []drv.Step  `json:"sched,omitempty"`
	Events []drv.Event `json:"events"`
	Module string      `json:"module"`
}

type candidate struct {
	cfg   drv.Cfg
	sched []drv.Step
	prop  string
}

func run(c *lib.Ctx) error {
	dir := c.SpecDir("Peach")
	if c.Replay != "" {
		return replay(c, dir)
	}
	defer runtime.GOMAXPROCS(runtime.GOMAXPROCS(0))
	if os.Getenv("VERIF_C20_ONLY") == "stress" { // development switch: measure the stress phase alone
		return stressPhase(c, dir, 1)
	}
	c.Set("rule", "a case is one evaluation of the real peach/each/run-parallel with harness callbacks; distinct by (mode, n, bound, scripts, recorded event sequence); runs with fewer than 2 inputs are not counted")

	// ---------------------------------------------------------------- M and the TLC side of G run in the
	// background (they are separate processes) while the real code is driven in this process
	maxN := 4
	all := `{"ok", "break", "fail"}`
	var bg sync.WaitGroup
	var bgMu sync.Mutex
	var bgErr error
	fail := func(err error) {
		bgMu.Lock()
		if bgErr == nil {
			bgErr = err
		}
		bgMu.Unlock()
	}
	background := func(f func() error) {
		bg.Add(1)
		go func() {
			defer bg.Done()
			if err := f(); err != nil {
				fail(err)
			}
		}()
	}
	background(func() error {
		r, err := c.TLC("MCEach", lib.TLCRun{Dir: dir, Module: "MCEach", Workers: 2, Timeout: 10 * time.Minute,
			Files: map[string][]byte{"MCEach.cfg": []byte(fmt.Sprintf("CONSTANTS MaxN = %d MaxOut = 2\nSPECIFICATION Spec\nINVARIANT OutputInOrder NoStartAfterBroken StopsAtFirstNonOk ExcIsFirstFail RefAgrees\n", c.Pick(3, 4)))}})
		if err != nil {
			return err
		}
		if r.ErrKind != "" {
			return lib.Infra("the reference Each.tla violates its own property %s:\n%s", r.ErrName, r.ErrTrace)
		}
		return nil
	})
	repaired := func(n int, live bool) func() error {
		return func() error {
			r, err := c.TLC(fmt.Sprintf("MCPeach repaired n<=%d liveness=%v", n, live), lib.TLCRun{Dir: dir, Module: "MCPeach", Workers: 4, Timeout: 14 * time.Minute, HeapGB: 12,
				Files: map[string][]byte{"MCPeach.cfg": mcCfg(n, 1, "{0, 1, 2}", `{"peach", "runpar"}`, all, "{TRUE}", live)}})
			if err != nil {
				return err
			}
			if r.ErrKind != "" {
				return lib.Infra("the REPAIRED peach model violates %s %s — the model must be re-examined:\n%s", r.ErrKind, r.ErrName, r.ErrTrace)
			}
			c.Logf("repaired model n<=%d: %d distinct states, no error", n, r.Distinct)
			c.Set(fmt.Sprintf("model_repaired_states_n%d", n), r.Distinct)
			return nil
		}
	}
	// safety + termination for n <= 3 (124 k states); thorough adds safety for n <= 4 (2.8 M states)
	background(repaired(3, true))
	if c.Thorough() {
		background(repaired(maxN, false))
	}
	// as-is configuration: its counterexamples are candidates
	asis := []string{`{"ok", "break"}`, `{"ok", "fail"}`}
	if c.Quick() {
		asis = asis[:1]
	}
	cands := make([]*candidate, len(asis))
	for k, res := range asis {
		k, res := k, res
		background(func() error {
			r, err := c.TLC("MCPeach as-is "+res, lib.TLCRun{Dir: dir, Module: "MCPeach", Workers: 1, Timeout: 10 * time.Minute,
				Files: map[string][]byte{"MCPeach.cfg": mcCfg(2, 1, "{1}", `{"peach"}`, res, "{FALSE}", false)}})
			if err != nil {
				return err
			}
			if r.ErrKind == "" {
				c.Logf("as-is model with %s: no counterexample", res)
				return nil
			}
			cfg, sched, _, err := drv.ScheduleOf(r)
			if err != nil {
				return lib.Infra("cannot turn the counterexample into a schedule: %v\n%s", err, r.ErrTrace)
			}
			c.Logf("as-is model violates %s: candidate n=%d bound=%d res=%v, %d gate events", r.ErrName, cfg.N, cfg.Bound, cfg.Res, len(sched))
			cands[k] = &candidate{cfg, sched, r.ErrName}
			return nil
		})
	}
	// the ordering probe: a behaviour of the repaired bound-2 model in which the feeder's re-test sees the
	// break of callback 1 although worker 1 has not released its slot yet (reachability query ProbeTrap)
	var probe *simCase
	background(func() error {
		r, err := c.TLC("SimPeach ordering probe", lib.TLCRun{Dir: dir, Module: "SimPeach", Workers: 1, Timeout: 10 * time.Minute,
			Files: map[string][]byte{"SimPeach.cfg": []byte("CONSTANTS MaxN = 2 MaxOut = 0 Bounds = {2} Modes = {\"peach\"} Res = {\"ok\", \"break\"}\n Recheck = {TRUE} Honour = {TRUE} MayCancel = FALSE\nSPECIFICATION SimSpec\nINVARIANT ProbeTrap\n")}})
		if err != nil {
			return err
		}
		if r.ErrKind != "invariant" {
			return lib.Infra("the ordering probe is not reachable in the repaired model (%s)", r.ErrKind)
		}
		sts := r.TraceStates()
		last := sts[len(sts)-1]
		sc := simCase{cfg: drv.Cfg{Mode: "peach", N: 2, Bound: 2, Res: []string{"break", "ok"}, Nout: []int{0, 0}}}
		seq, _ := last["sched"].([]any)
		for _, x := range seq {
			m, _ := x.(map[string]any)
			ev, _ := m["ev"].(string)
			i, _ := m["i"].(int64)
			sc.sched = append(sc.sched, drv.Step{Ev: ev, I: int(i)})
		}
		if len(sc.sched) < 8 {
			return lib.Infra("ordering probe: schedule not parsed: %v", last["sched"])
		}
		probe = &sc
		return nil
	})
	var sims []simCase
	background(func() error {
		var err error
		sims, err = simulate(c, dir, c.Pick(40, 600))
		return err
	})

	var items []item
	add := func(what, module string, cfg drv.Cfg, sched []drv.Step, evs []drv.Event) {
		items = append(items, item{what, replayCase{cfg, sched, evs, module}})
	}

	// ---------------------------------------------------------------- V: free-running runs
	selftest, err := drv.Cfg{Mode: "peach", N: 6, Bound: 2, Res: []string{"ok", "ok", "ok", "fail", "ok", "ok"}, Nout: []int{1, 0, 2, 1, 0, 1}, Procs: 4, Delay: []int{50, 0, -1, 200, 0, 0}}, error(nil)
	_, good, err := drv.RunOne(selftest, nil, 2*time.Minute)
	if err != nil {
		return lib.Infra("%v", err)
	}
	c.AddEvals(1)
	add("selftest run", "TracePeach", selftest, nil, good) // uncorrupted: must be accepted like any other
	background(func() error { return vacuity(c, dir, good) })

	nruns := c.Pick(70, 1500)
	rng := rand.New(rand.NewSource(c.Seed))
	one := func(what, module string, cfg drv.Cfg) error {
		_, evs, err := drv.RunOne(cfg, nil, 3*time.Minute)
		if err != nil {
			return lib.Infra("%v", err)
		}
		c.AddEvals(1)
		add(what, module, cfg, nil, evs)
		return nil
	}
	for i := 0; i < nruns; i++ {
		switch k := rng.Intn(10); {
		case k < 5:
			err = one("free run", "TracePeach", drv.RandCfg(rng, "peach", 500))
		case k < 6:
			err = one("free run", "TracePeach", drv.RandCfg(rng, "runpar", 500))
		default:
			// side by side: the same callbacks and inputs through each and through peach &num-workers=1
			cfg := drv.RandCfg(rng, "each", 120)
			err = one("each (side by side)", "TraceEach", cfg)
			p := cfg
			p.Mode, p.Bound = "peach", 1
			for k := 1 + rng.Intn(3); k > 0 && err == nil; k-- {
				p.Procs = []int{1, 2, 4, 8, 16}[rng.Intn(5)]
				err = one("peach &num-workers=1 (side by side)", "TracePeach", p)
			}
		}
		if err != nil {
			return err
		}
	}
	c.Logf("V: %d free-running evaluations recorded", len(items))

	// ---------------------------------------------------------------- G: forced schedules on the real code
	bg.Wait()
	if bgErr != nil {
		return bgErr
	}
	ncand, followed := 0, 0
	for _, cd := range cands {
		if cd == nil {
			continue
		}
		ncand++
		for _, form := range []int{0, 3} {
			cfg := cd.cfg
			cfg.Form = form
			cfg.Procs = 4
			rn, evs, err := drv.RunOne(cfg, cd.sched, 2*time.Minute)
			if err != nil {
				return lib.Infra("candidate replay: %v", err)
			}
			c.AddEvals(1)
			c.Logf("candidate replay `%s`: %d events, left the schedule: %q", drv.Program(cfg), len(evs), rn.Diverged)
			if rn.Diverged == "" {
				followed++
			}
			add("candidate "+cd.prop, "TracePeach", cfg, cd.sched, evs)
			if form == 0 {
				c.Sample(map[string]any{"candidate_schedule": cd.sched, "program": drv.Program(cfg)})
			}
		}
	}
	c.Set("model_asis_candidates", ncand)
	c.Set("candidate_replays_followed_to_the_end_by_the_real_code", followed)
	div := 0
	for k, s := range sims {
		cfg := s.cfg
		cfg.Form = k % 4
		cfg.Procs = []int{2, 4, 8}[k%3]
		rn, evs, err := drv.RunOne(cfg, s.sched, 2*time.Minute)
		if err != nil {
			return lib.Infra("schedule replay: %v", err)
		}
		c.AddEvals(1)
		if rn.Diverged != "" {
			div++
		}
		add("forced schedule", "TracePeach", cfg, s.sched, evs)
	}
	c.Set("forced_schedules", len(sims))
	c.Set("forced_schedules_left_by_the_real_code", div)
	c.Logf("G: %d simulated schedules forced (%d left by the real code and finished free-running)", len(sims), div)
	// the ordering probe on the real code (worker 1 parked at its release hook while the feeder re-tests):
	// leaving the schedule there is a CANDIDATE (the slot is given up before the break is recorded), never a
	// verdict -- with bound 2 the statement does not forbid the extra callback. It only steers the stress phase.
	stressFactor := 1
	if probe != nil {
		cfg := probe.cfg
		cfg.Settle, cfg.Procs = true, 4
		rn, evs, err := drv.RunOne(cfg, probe.sched, 2*time.Minute)
		if err != nil {
			return lib.Infra("ordering probe: %v", err)
		}
		c.AddEvals(1)
		add("ordering probe", "TracePeach", cfg, probe.sched, evs)
		if rn.Diverged == "" {
			c.Set("ordering_probe", "followed: the break is recorded before the worker reaches its release hook")
		} else {
			c.Set("ordering_probe", "CANDIDATE, the real code left the probe: "+rn.Diverged)
			c.Logf("ordering probe: the real code left the schedule (%s): candidate for a race between the release of the slot and the record of the break; stress phase x4", rn.Diverged)
			stressFactor = 4
		}
	}

	// ---------------------------------------------------------------- STRESS: races without a gate (stress.go)
	if err := stressPhase(c, dir, stressFactor); err != nil {
		return err
	}
	runtime.GOMAXPROCS(runtime.NumCPU())
	for i, it := range items {
		if it.rc.Cfg.N >= 2 {
			c.Distinct(map[string]any{"cfg": []any{it.rc.Cfg.Mode, it.rc.Cfg.N, it.rc.Cfg.Bound, it.rc.Cfg.Res, it.rc.Cfg.Nout}, "evs": it.rc.Events})
		}
		if i%17 == 3 && len(it.rc.Events) < 40 {
			c.Sample(map[string]any{"program": drv.Program(it.rc.Cfg), "events": it.rc.Events})
		}
	}

	// ---------------------------------------------------------------- judge every recorded trace with TLC
	// Runs are concatenated (Reset starts a run) into few TLC processes. A rejected concatenation names
	// the run (position l of the violating state), that run is reported and the remainder is judged again.
	// Runs that show the pattern of the known finding (classification only) are judged in their own
	// sequence, candidates first; after `cap` rejections there the rest is counted as not judged.
	sort.SliceStable(items, func(a, b int) bool { // candidates first
		return strings.HasPrefix(items[a].what, "candidate") && !strings.HasPrefix(items[b].what, "candidate")
	})
	if err := judgeAll(c, dir, items, c.Pick(2, 12)); err != nil {
		return err
	}
	c.Set("runs_recorded", len(items))
	c.Assume("TLC trusted; events are ordered by one mutex-protected tracer; the effect of the release hook is placed at the hook (earliest possible), which can only make the specification more permissive about Acquire; schedules are forced at the granularity of gates (hooks and callback steps) — a forced run that leaves its schedule continues free and is still judged; timing never enters a verdict (watchdogs give exit 2)")
	return nil
}

type item struct {
	what string
	rc   replayCase
}

// judgeAll hands every recorded run to TLC (drv.JudgeAll). Runs that show the pattern of the known finding
// (classification only, never a verdict) are judged in their own sequence.
func judgeAll(c *lib.Ctx, dir string, items []item, capKnown int) error {
	var its []drv.Item
	npat := 0
	for _, it := range items {
		known := it.rc.Module == "TracePeach" && it.rc.Cfg.Mode == "peach" && it.rc.Cfg.Bound == 1 && startsAfterNonOk(it.rc.Events)
		if known {
			npat++
		}
		its = append(its, drv.Item{What: it.what, Module: it.rc.Module, Events: it.rc.Events, Case: it.rc, Known: known})
	}
	c.Set("runs_showing_the_known_pattern", npat)
	skipped, err := drv.JudgeAll(c, dir, nil, its, capKnown, 4000, 4, "", func(it drv.Item, v *lib.TraceVerdict) {
		reject(c, it.What, it.Case.(replayCase), v)
	})
	c.Set("runs_not_judged_after_the_known_pattern_was_rejected_cap_times", skipped)
	return err
}

func hasNonOk(c drv.Cfg) bool {
	for _, r := range c.Res {
		if r != "ok" {
			return true
		}
	}
	return false
}

// reject reports a recorded real trace that TLC does not accept. The key is structural: the violated
// property, refined for the refinement property by what the trace shows.
func reject(c *lib.Ctx, what string, rc replayCase, v *lib.TraceVerdict) {
	key := "peach:trace-rejected"
	if v.InvName != "" {
		key = "peach:" + v.InvName
	}
	if v.InvName == "Peach1RefinesEachT" && startsAfterNonOk(rc.Events) {
		key = "peach:bound1-starts-after-break"
	}
	at := "(end)"
	k := v.HighWater
	if v.InvName != "" && k > 0 {
		k-- // the event whose step reached the violating state
	}
	if k < len(rc.Events) {
		b, _ := json.Marshal(rc.Events[k])
		at = string(b)
	}
	c.Reject(key, fmt.Sprintf("%s: `%s`: the recorded events of the real code are not a behaviour of %s: matched %d of %d events, violated %q, at event %s",
		what, drv.Program(rc.Cfg), rc.Module, v.HighWater, len(rc.Events), v.InvName, at), rc)
}

// startsAfterNonOk classifies (it does not judge): does a callback start after another one finished with break/fail?
func startsAfterNonOk(evs []drv.Event) bool {
	broke := false
	for _, e := range evs {
		switch e.Ev {
		case "Reset":
			broke = false
		case "CbEnd":
			if e.Res != "ok" {
				broke = true
			}
		case "CbStart":
			if broke {
				return true
			}
		}
	}
	return false
}

type simCase struct {
	cfg   drv.Cfg
	sched []drv.Step
}

// simulate lets TLC generate behaviours of the permissive model (both shapes of the code allowed) and
// returns their gate-event schedules: SimPeach records the labels in a history variable and prints
// the finished behaviour.
func simulate(c *lib.Ctx, dir string, n int) ([]simCase, error) {
	r, err := c.TLC("SimPeach", lib.TLCRun{Dir: dir, Module: "SimPeach", Workers: 1, Timeout: 10 * time.Minute,
		Simulate: fmt.Sprintf("num=%d", n), Depth: 80,
		Files: map[string][]byte{"SimPeach.cfg": []byte(fmt.Sprintf("CONSTANTS MaxN = %d MaxOut = 1 Bounds = {0, 1, 2, 3} Modes = {\"peach\", \"runpar\"} Res = {\"ok\", \"break\", \"fail\"}\n Recheck = {TRUE, FALSE} Honour = {TRUE, FALSE} MayCancel = FALSE\nSPECIFICATION SimSpec\nINVARIANT Emit\n", c.Pick(4, 5)))}})
	if err != nil {
		return nil, err
	}
	if r.ErrKind != "" {
		return nil, lib.Infra("SimPeach: %s %s", r.ErrKind, r.Err)
	}
	seen := map[string]bool{}
	var out []simCase
	for _, line := range r.PrintedStrings() {
		if seen[line] {
			continue
		}
		seen[line] = true
		var rec struct {
			Cfg struct {
				Mode  string   `json:"mode"`
				N     int      `json:"n"`
				Bound int      `json:"bound"`
				Res   []string `json:"res"`
				Nout  []int    `json:"nout"`
			} `json:"cfg"`
			Sched []drv.Step `json:"sched"`
		}
		if err := json.Unmarshal([]byte(line), &rec); err != nil {
			return nil, lib.Infra("SimPeach printed %q: %v", line, err)
		}
		cfg := drv.Cfg{Mode: rec.Cfg.Mode, N: rec.Cfg.N, Bound: rec.Cfg.Bound, Res: rec.Cfg.Res, Nout: rec.Cfg.Nout}
		if cfg.Res == nil {
			cfg.Res = []string{}
		}
		if cfg.Nout == nil {
			cfg.Nout = []int{}
		}
		if len(cfg.Res) != cfg.N || len(cfg.Nout) != cfg.N {
			return nil, lib.Infra("SimPeach printed an inconsistent configuration: %s", line)
		}
		for k, st := range rec.Sched { // the replay ends when peach returns
			if st.Ev == "Returned" {
				rec.Sched = rec.Sched[:k+1]
				break
			}
		}
		key, _ := json.Marshal([]any{cfg, rec.Sched})
		if seen[string(key)] {
			continue
		}
		seen[string(key)] = true
		out = append(out, simCase{cfg, rec.Sched})
	}
	if len(out) == 0 {
		return nil, lib.Infra("SimPeach produced no behaviour")
	}
	return out, nil
}

// vacuity: the trace specifications must reject corrupted real traces.
func vacuity(c *lib.Ctx, dir string, good []drv.Event) error {
	corrupt := func(name string, f func(evs []drv.Event) []drv.Event) error {
		evs := f(append([]drv.Event{}, good...))
		v, err := lib.ValidateTrace(c, "TracePeach(selftest-"+name+")", dir, "TracePeach", evs, 5*time.Minute)
		if err != nil {
			return err
		}
		if v.Accepted {
			return lib.Infra("vacuity guard: TracePeach accepted a trace corrupted by %q", name)
		}
		return nil
	}
	var errs []error
	var mu sync.Mutex
	tests := []struct {
		name string
		f    func(evs []drv.Event) []drv.Event
	}{
		{"dropped output value", func(evs []drv.Event) []drv.Event {
			last := &evs[len(evs)-1]
			last.Out = append([]int{}, last.Out[1:]...)
			return evs
		}},
		{"dropped failure", func(evs []drv.Event) []drv.Event {
			evs[len(evs)-1].Errs = []int{}
			return evs
		}},
		{"callback started twice", func(evs []drv.Event) []drv.Event {
			for i, e := range evs {
				if e.Ev == "CbStart" {
					return append(evs[:i+1:i+1], evs[i:]...)
				}
			}
			return evs
		}},
		{"release moved after the next acquire", func(evs []drv.Event) []drv.Event {
			// delete every Release: the third Acquire cannot return with bound 2
			var out []drv.Event
			for _, e := range evs {
				if e.Ev != "Release" {
					out = append(out, e)
				}
			}
			return out
		}},
	}
	if c.Quick() { // one corruption per quick run (rotating with the seed), all of them in the thorough tier
		k := int(c.Seed) % len(tests)
		if k < 0 {
			k = -k
		}
		tests = tests[k : k+1]
	}
	lib.Parallel(len(tests), 4, func(i int) {
		if err := corrupt(tests[i].name, tests[i].f); err != nil {
			mu.Lock()
			errs = append(errs, err)
			mu.Unlock()
		}
	})
	if len(errs) > 0 {
		return errs[0]
	}
	c.Set("vacuity_corruptions_rejected", len(tests))
	return nil
}

func replay(c *lib.Ctx, dir string) error {
	b, err := os.ReadFile(c.Replay)
	if err != nil {
		return lib.Infra("%v", err)
	}
	var f struct {
		Case replayCase `json:"case"`
	}
	if err := json.Unmarshal(b, &f); err != nil {
		return lib.Infra("%v", err)
	}
	if bytes.Contains(b, []byte(`"stress"`)) && len(f.Case.Events) == 0 {
		return stressPhase(c, dir, 1) // a stress finding is probabilistic: the phase is run again
	}
	rc := f.Case
	if rc.Module == "" {
		rc.Module = "TracePeach"
	}
	// the stored trace
	v, err := lib.ValidateTrace(c, rc.Module+"(stored)", dir, rc.Module, rc.Events, 10*time.Minute)
	if err != nil {
		return err
	}
	if !v.Accepted {
		c.Logf("the stored trace is rejected (%s)", v.InvName)
	}
	// and the same configuration (and schedule) once more on the current tree
	tries := 1
	if rc.Sched == nil {
		tries = 20
	}
	for k := 0; k < tries; k++ {
		_, evs, err := drv.RunOne(rc.Cfg, rc.Sched, 3*time.Minute)
		if err != nil {
			return lib.Infra("%v", err)
		}
		c.AddEvals(1)
		v, err := lib.ValidateTrace(c, rc.Module+"(replay)", dir, rc.Module, evs, 10*time.Minute)
		if err != nil {
			return err
		}
		c.AddTraces(1)
		if !v.Accepted {
			rc.Events = evs
			reject(c, "replay", rc, v)
			return nil
		}
	}
	return nil
}
