// C20 — peach and run-parallel run each task once; one-worker peach equals each.
//
//	M: MCEach (the sequential reference), MCPeach in the repaired configuration (Recheck = Honour = {TRUE}:
//	   no error expected) and in the AS-IS configuration (Recheck = Honour = {FALSE}: TLC is expected to find
//	   Peach1RefinesEach counterexamples, which are CANDIDATES).
//	G: every candidate is turned into a schedule of gate-able events and replayed on the real peach with
//	   gated harness callbacks and the verif hooks; in addition TLC simulates behaviours of the permissive
//	   model whose gate order is forced on the real code. The recorded trace of every replay is judged by
//	   TracePeach (TLC): only a rejected REAL trace is a verdict.
//	V: free-running random runs (sizes 0..500, bounds 1..8/+inf, delays, outputs, breaks, failures,
//	   GOMAXPROCS sweep; list and pipe inputs; Go and closure callbacks), run-parallel, and the
//	   side-by-side pair each / peach &num-workers=1 on the same callbacks: TracePeach / TraceEach validate.
package main

import (
	"encoding/json"
	"fmt"
	"math/rand"
	"os"
	"regexp"
	"runtime"
	"strings"
	"sync"
	"time"

	"verif.local/harness/checks/c20/drv"
	"verif.local/harness/lib"
)

func main() { lib.Main("C20", run) }

const invs = "AtMostOnce ExactlyOnceIfClean BoundRespected SemNonNegative OutputIsUnion ReturnAfterAllFinished AllErrorsReported RunParallelAll"

func mcCfg(maxN, maxOut int, bounds, modes, res, sw string, live bool) []byte {
	s := fmt.Sprintf("CONSTANTS MaxN = %d MaxOut = %d Bounds = %s Modes = %s Res = %s\n Recheck = %s Honour = %s MayCancel = FALSE\nSPECIFICATION Spec\nINVARIANT %s\nPROPERTY Peach1RefinesEach",
		maxN, maxOut, bounds, modes, res, sw, sw, invs)
	if live {
		s += " Terminates"
	}
	return []byte(s + "\n")
}

type replayCase struct {
	Cfg    drv.Cfg     `json:"cfg"`
	Sched  []drv.Step  `json:"sched,omitempty"`
	Events []drv.Event `json:"events"`
	Module string      `json:"module"`
}

func run(c *lib.Ctx) error {
	dir := c.SpecDir("Peach")
	if c.Replay != "" {
		return replay(c, dir)
	}
	defer runtime.GOMAXPROCS(runtime.GOMAXPROCS(0))
	c.Set("rule", "a case is one evaluation of the real peach/each/run-parallel with harness callbacks; distinct by (mode, n, bound, scripts, recorded event sequence); runs with fewer than 2 inputs are not counted")

	// ---------------------------------------------------------------- M
	maxN := c.Pick(2, 4)
	r, err := c.TLC("MCEach", lib.TLCRun{Dir: dir, Module: "MCEach", Workers: 4, Timeout: 10 * time.Minute,
		Files: map[string][]byte{"MCEach.cfg": []byte(fmt.Sprintf("CONSTANTS MaxN = %d MaxOut = 2\nSPECIFICATION Spec\nINVARIANT OutputInOrder NoStartAfterBroken StopsAtFirstNonOk ExcIsFirstFail\n", c.Pick(3, 4)))}})
	if err != nil {
		return err
	}
	if r.ErrKind != "" {
		return lib.Infra("the reference Each.tla violates its own property %s:\n%s", r.ErrName, r.ErrTrace)
	}
	all := `{"ok", "break", "fail"}`
	r, err = c.TLC(fmt.Sprintf("MCPeach repaired n<=%d", maxN), lib.TLCRun{Dir: dir, Module: "MCPeach", Workers: 8, Timeout: 14 * time.Minute, HeapGB: 12,
		Files: map[string][]byte{"MCPeach.cfg": mcCfg(maxN, 1, "{0, 1, 2}", `{"peach", "runpar"}`, all, "{TRUE}", true)}})
	if err != nil {
		return err
	}
	if r.ErrKind != "" {
		return lib.Infra("the REPAIRED peach model violates %s %s — the model must be re-examined:\n%s", r.ErrKind, r.ErrName, r.ErrTrace)
	}
	c.Logf("repaired model: %d distinct states, no error", r.Distinct)
	c.Set("model_repaired_states", r.Distinct)

	// as-is configuration: candidates
	type candidate struct {
		cfg   drv.Cfg
		sched []drv.Step
		prop  string
	}
	var cands []candidate
	for _, res := range []string{`{"ok", "break"}`, `{"ok", "fail"}`} {
		r, err = c.TLC("MCPeach as-is "+res, lib.TLCRun{Dir: dir, Module: "MCPeach", Workers: 1, Timeout: 10 * time.Minute,
			Files: map[string][]byte{"MCPeach.cfg": mcCfg(2, 1, "{1}", `{"peach"}`, res, "{FALSE}", false)}})
		if err != nil {
			return err
		}
		if r.ErrKind == "" {
			c.Logf("as-is model with %s: no counterexample", res)
			continue
		}
		cfg, sched, err := scheduleOf(r)
		if err != nil {
			return lib.Infra("cannot turn the counterexample into a schedule: %v\n%s", err, r.ErrTrace)
		}
		c.Logf("as-is model violates %s: candidate n=%d bound=%d res=%v, %d gate events", r.ErrName, cfg.N, cfg.Bound, cfg.Res, len(sched))
		cands = append(cands, candidate{cfg, sched, r.ErrName})
	}
	c.Set("model_asis_candidates", len(cands))

	// ---------------------------------------------------------------- G: candidates on the real code
	type job struct {
		what   string
		module string
		cfg    drv.Cfg
		sched  []drv.Step
		evs    []drv.Event
	}
	var jobs []job
	reproduced := 0
	for _, cd := range cands {
		for _, form := range []int{0, 3} {
			cfg := cd.cfg
			cfg.Form = form
			cfg.Procs = 4
			rn, evs, err := drv.RunOne(cfg, cd.sched, 2*time.Minute)
			if err != nil {
				return lib.Infra("candidate replay: %v", err)
			}
			c.AddEvals(1)
			c.Logf("candidate replay (form %d): %d events, diverged=%q", form, len(evs), rn.Diverged)
			if rn.Diverged == "" {
				reproduced++
			}
			jobs = append(jobs, job{"candidate " + cd.prop, "TracePeach", cfg, cd.sched, evs})
			if len(jobs) == 1 {
				c.Sample(map[string]any{"candidate_schedule": cd.sched, "program": drv.Program(cfg)})
			}
		}
	}
	c.Set("candidates_followed_to_the_end_by_the_real_code", reproduced)

	// ---------------------------------------------------------------- G: simulated behaviours, gate order forced
	nsim := c.Pick(40, 600)
	sims, err := simulate(c, dir, nsim)
	if err != nil {
		return err
	}
	div := 0
	for k, s := range sims {
		cfg := s.cfg
		cfg.Form = k % 4
		cfg.Procs = []int{2, 4, 8}[k%3]
		rn, evs, err := drv.RunOne(cfg, s.sched, 2*time.Minute)
		if err != nil {
			return lib.Infra("schedule replay: %v", err)
		}
		c.AddEvals(1)
		if rn.Diverged != "" {
			div++
		}
		jobs = append(jobs, job{"forced schedule", "TracePeach", cfg, s.sched, evs})
	}
	c.Set("forced_schedules", len(sims))
	c.Set("forced_schedules_left_by_the_real_code", div)
	c.Logf("G: %d simulated schedules forced (%d left by the real code and finished free-running)", len(sims), div)

	// ---------------------------------------------------------------- V: free-running runs
	nruns := c.Pick(70, 1500)
	rng := rand.New(rand.NewSource(c.Seed))
	maxSize := 500
	for i := 0; i < nruns; i++ {
		switch k := rng.Intn(10); {
		case k < 5:
			cfg := drv.RandCfg(rng, "peach", maxSize)
			_, evs, err := drv.RunOne(cfg, nil, 3*time.Minute)
			if err != nil {
				return lib.Infra("%v", err)
			}
			jobs = append(jobs, job{"free run", "TracePeach", cfg, nil, evs})
		case k < 6:
			cfg := drv.RandCfg(rng, "runpar", maxSize)
			_, evs, err := drv.RunOne(cfg, nil, 3*time.Minute)
			if err != nil {
				return lib.Infra("%v", err)
			}
			jobs = append(jobs, job{"free run", "TracePeach", cfg, nil, evs})
		default:
			// side by side: the same callbacks and inputs through each and through peach &num-workers=1
			cfg := drv.RandCfg(rng, "each", 120)
			_, evs, err := drv.RunOne(cfg, nil, 3*time.Minute)
			if err != nil {
				return lib.Infra("%v", err)
			}
			jobs = append(jobs, job{"each (side by side)", "TraceEach", cfg, nil, evs})
			c.AddEvals(1)
			p := cfg
			p.Mode, p.Bound = "peach", 1
			reps := 1 + rng.Intn(3)
			for k := 0; k < reps; k++ {
				p.Procs = []int{1, 2, 4, 8, 16}[rng.Intn(5)]
				_, evs, err = drv.RunOne(p, nil, 3*time.Minute)
				if err != nil {
					return lib.Infra("%v", err)
				}
				if k < reps-1 {
					c.AddEvals(1)
				}
				jobs = append(jobs, job{"peach &num-workers=1 (side by side)", "TracePeach", p, nil, evs})
			}
		}
		c.AddEvals(1)
	}
	runtime.GOMAXPROCS(runtime.NumCPU())
	for i, j := range jobs {
		if j.cfg.N >= 2 {
			c.Distinct(map[string]any{"cfg": []any{j.cfg.Mode, j.cfg.N, j.cfg.Bound, j.cfg.Res, j.cfg.Nout}, "evs": j.evs})
		}
		if i%17 == 3 && len(j.evs) < 40 {
			c.Sample(map[string]any{"program": drv.Program(j.cfg), "events": j.evs})
		}
	}

	// ---------------------------------------------------------------- vacuity guard
	if err := vacuity(c, dir); err != nil {
		return err
	}

	// ---------------------------------------------------------------- judge every recorded trace with TLC
	// batches of runs per TLC process; runs at risk of the known finding are judged alone so that a
	// rejection does not hide the rest of a batch
	type batch struct {
		module string
		jobs   []int
		n      int
	}
	var batches []batch
	open := map[string]*batch{}
	for i, j := range jobs {
		risky := j.module == "TracePeach" && j.cfg.Mode == "peach" && j.cfg.Bound == 1 && hasNonOk(j.cfg)
		if risky || j.sched != nil && strings.HasPrefix(j.what, "candidate") {
			batches = append(batches, batch{j.module, []int{i}, len(j.evs)})
			continue
		}
		b := open[j.module]
		if b == nil {
			b = &batch{module: j.module}
			open[j.module] = b
		}
		b.jobs = append(b.jobs, i)
		b.n += len(j.evs)
		if b.n > 6000 || len(b.jobs) >= 25 {
			batches = append(batches, *b)
			delete(open, j.module)
		}
	}
	for _, b := range open {
		batches = append(batches, *b)
	}
	var mu sync.Mutex
	var firstErr error
	judgeOne := func(i int) {
		j := jobs[i]
		v, err := lib.ValidateTrace(c, j.module, dir, j.module, j.evs, 10*time.Minute)
		mu.Lock()
		defer mu.Unlock()
		if err != nil {
			if firstErr == nil {
				firstErr = err
			}
			return
		}
		c.AddTraces(1)
		if !v.Accepted {
			reject(c, j.what, replayCase{j.cfg, j.sched, j.evs, j.module}, v)
		}
	}
	lib.Parallel(len(batches), 6, func(bi int) {
		b := batches[bi]
		if len(b.jobs) == 1 {
			judgeOne(b.jobs[0])
			return
		}
		var evs []drv.Event
		for _, i := range b.jobs {
			evs = append(evs, jobs[i].evs...)
		}
		v, err := lib.ValidateTrace(c, b.module, dir, b.module, evs, 14*time.Minute)
		if err != nil {
			mu.Lock()
			if firstErr == nil {
				firstErr = err
			}
			mu.Unlock()
			return
		}
		if v.Accepted {
			mu.Lock()
			c.AddTraces(len(b.jobs))
			mu.Unlock()
			return
		}
		for _, i := range b.jobs { // rejected batch: every run alone
			judgeOne(i)
		}
	})
	if firstErr != nil {
		return firstErr
	}
	c.Set("runs_judged", len(jobs))
	c.Assume("TLC trusted; events are ordered by one mutex-protected tracer; the effect of the release hook is placed at the hook (earliest possible), which can only make the specification more permissive about Acquire; schedules are forced at the granularity of gates (hooks and callback steps) — a forced run that leaves its schedule continues free and is still judged; timing never enters a verdict (watchdogs give exit 2)")
	return nil
}

func hasNonOk(c drv.Cfg) bool {
	for _, r := range c.Res {
		if r != "ok" {
			return true
		}
	}
	return false
}

// reject reports a recorded real trace that TLC does not accept. The key is structural: the violated
// property, refined for the refinement property by what the trace shows.
func reject(c *lib.Ctx, what string, rc replayCase, v *lib.TraceVerdict) {
	key := "peach:trace-rejected"
	if v.InvName != "" {
		key = "peach:" + v.InvName
	}
	if v.InvName == "Peach1RefinesEachT" && startsAfterNonOk(rc.Events) {
		key = "peach:bound1-starts-after-break"
	}
	next := "(end)"
	if v.HighWater < len(rc.Events) {
		b, _ := json.Marshal(rc.Events[v.HighWater])
		next = string(b)
	}
	c.Reject(key, fmt.Sprintf("%s: `%s`: the recorded events of the real code are not a behaviour of %s: matched %d of %d events, violated %q, next event %s",
		what, drv.Program(rc.Cfg), rc.Module, v.HighWater, len(rc.Events), v.InvName, next), rc)
}

// startsAfterNonOk classifies (it does not judge): does a callback start after another one finished with break/fail?
func startsAfterNonOk(evs []drv.Event) bool {
	broke := false
	for _, e := range evs {
		switch e.Ev {
		case "Reset":
			broke = false
		case "CbEnd":
			if e.Res != "ok" {
				broke = true
			}
		case "CbStart":
			if broke {
				return true
			}
		}
	}
	return false
}

var reAction = regexp.MustCompile(`<(\w+) line`)

func asInt(v any) int {
	if n, ok := v.(int64); ok {
		return int(n)
	}
	return -1
}

func seqOf(v any) []any {
	switch v := v.(type) {
	case []any:
		return v
	case lib.TLAFun:
		out := make([]any, len(v))
		for _, p := range v {
			if k := asInt(p.K); k >= 1 && k <= len(v) {
				out[k-1] = p.V
			}
		}
		return out
	}
	return nil
}

// scheduleOf projects a TLC counterexample of MCPeach to its configuration and its gate-able events.
func scheduleOf(r *lib.TLCResult) (drv.Cfg, []drv.Step, error) {
	sts := r.TraceStates()
	if len(sts) < 2 {
		return drv.Cfg{}, nil, fmt.Errorf("no states")
	}
	return scheduleOfStates(sts)
}

func cfgOf(st map[string]any) (drv.Cfg, error) {
	var cfg drv.Cfg
	m, ok := st["cfg"].(map[string]any)
	if !ok {
		return cfg, fmt.Errorf("cfg not parsed: %v", st["cfg"])
	}
	cfg.Mode, _ = m["mode"].(string)
	cfg.N = asInt(m["n"])
	cfg.Bound = asInt(m["bound"])
	for _, x := range seqOf(m["res"]) {
		s, _ := x.(string)
		cfg.Res = append(cfg.Res, s)
	}
	for _, x := range seqOf(m["nout"]) {
		cfg.Nout = append(cfg.Nout, asInt(x))
	}
	if len(cfg.Res) != cfg.N || len(cfg.Nout) != cfg.N {
		return cfg, fmt.Errorf("cfg inconsistent: %v", m)
	}
	return cfg, nil
}

func scheduleOfStates(sts []map[string]any) (drv.Cfg, []drv.Step, error) {
	cfg, err := cfgOf(sts[0])
	if err != nil {
		return cfg, nil, err
	}
	changed := func(a, b map[string]any, name string) int {
		x, y := seqOf(a[name]), seqOf(b[name])
		for k := range x {
			if k < len(y) && fmt.Sprint(x[k]) != fmt.Sprint(y[k]) {
				return k + 1
			}
		}
		return -1
	}
	var sched []drv.Step
	for k := 1; k < len(sts); k++ {
		h, _ := sts[k]["_header"].(string)
		m := reAction.FindStringSubmatch(h)
		if m == nil {
			return cfg, nil, fmt.Errorf("no action name in %q", h)
		}
		switch m[1] {
		case "FAcqEnter":
			sched = append(sched, drv.Step{Ev: "AcqEnter"})
		case "FAcqRet":
			sched = append(sched, drv.Step{Ev: "AcqRet"})
		case "FSpawn":
			if cfg.Mode != "runpar" {
				sched = append(sched, drv.Step{Ev: "Spawn"})
			}
		case "FReturn":
			sched = append(sched, drv.Step{Ev: "Returned"})
		case "WStart":
			sched = append(sched, drv.Step{Ev: "CbStart", I: changed(sts[k-1], sts[k], "wpc")})
		case "WPut":
			sched = append(sched, drv.Step{Ev: "Put", I: changed(sts[k-1], sts[k], "pos")})
		case "WEnd":
			sched = append(sched, drv.Step{Ev: "CbEnd", I: changed(sts[k-1], sts[k], "wpc")})
		case "WRelease":
			sched = append(sched, drv.Step{Ev: "Release", I: changed(sts[k-1], sts[k], "wpc")})
		case "Cancel":
			sched = append(sched, drv.Step{Ev: "CancelStart"})
		}
	}
	for _, s := range sched {
		if s.I < 0 {
			return cfg, nil, fmt.Errorf("could not attribute a worker step: %v", sched)
		}
	}
	return cfg, sched, nil
}

type simCase struct {
	cfg   drv.Cfg
	sched []drv.Step
}

// simulate lets TLC generate behaviours of the permissive model (both shapes of the code allowed) and
// returns their gate-event schedules: SimPeach records the labels in a history variable and prints
// the finished behaviour.
func simulate(c *lib.Ctx, dir string, n int) ([]simCase, error) {
	r, err := c.TLC("SimPeach", lib.TLCRun{Dir: dir, Module: "SimPeach", Workers: 1, Timeout: 10 * time.Minute,
		Simulate: fmt.Sprintf("num=%d", n), Depth: 80,
		Files: map[string][]byte{"SimPeach.cfg": []byte(fmt.Sprintf("CONSTANTS MaxN = %d MaxOut = 1 Bounds = {0, 1, 2, 3} Modes = {\"peach\", \"runpar\"} Res = {\"ok\", \"break\", \"fail\"}\n Recheck = {TRUE, FALSE} Honour = {TRUE, FALSE} MayCancel = FALSE\nSPECIFICATION SimSpec\nINVARIANT Emit\n", c.Pick(4, 5)))}})
	if err != nil {
		return nil, err
	}
	if r.ErrKind != "" {
		return nil, lib.Infra("SimPeach: %s %s", r.ErrKind, r.Err)
	}
	seen := map[string]bool{}
	var out []simCase
	for _, line := range r.PrintedStrings() {
		if seen[line] {
			continue
		}
		seen[line] = true
		var rec struct {
			Cfg struct {
				Mode  string   `json:"mode"`
				N     int      `json:"n"`
				Bound int      `json:"bound"`
				Res   []string `json:"res"`
				Nout  []int    `json:"nout"`
			} `json:"cfg"`
			Sched []drv.Step `json:"sched"`
		}
		if err := json.Unmarshal([]byte(line), &rec); err != nil {
			return nil, lib.Infra("SimPeach printed %q: %v", line, err)
		}
		cfg := drv.Cfg{Mode: rec.Cfg.Mode, N: rec.Cfg.N, Bound: rec.Cfg.Bound, Res: rec.Cfg.Res, Nout: rec.Cfg.Nout}
		if cfg.Res == nil {
			cfg.Res = []string{}
		}
		if cfg.Nout == nil {
			cfg.Nout = []int{}
		}
		if len(cfg.Res) != cfg.N || len(cfg.Nout) != cfg.N {
			return nil, lib.Infra("SimPeach printed an inconsistent configuration: %s", line)
		}
		for k, st := range rec.Sched { // the replay ends when peach returns
			if st.Ev == "Returned" {
				rec.Sched = rec.Sched[:k+1]
				break
			}
		}
		key, _ := json.Marshal([]any{cfg, rec.Sched})
		if seen[string(key)] {
			continue
		}
		seen[string(key)] = true
		out = append(out, simCase{cfg, rec.Sched})
	}
	if len(out) == 0 {
		return nil, lib.Infra("SimPeach produced no behaviour")
	}
	return out, nil
}

// vacuity: the trace specifications must reject corrupted real traces.
func vacuity(c *lib.Ctx, dir string) error {
	cfg := drv.Cfg{Mode: "peach", N: 6, Bound: 2, Res: []string{"ok", "ok", "ok", "fail", "ok", "ok"}, Nout: []int{1, 0, 2, 1, 0, 1}, Procs: 4, Delay: []int{50, 0, -1, 200, 0, 0}}
	_, good, err := drv.RunOne(cfg, nil, 2*time.Minute)
	if err != nil {
		return lib.Infra("%v", err)
	}
	c.AddEvals(1)
	v, err := lib.ValidateTrace(c, "TracePeach(selftest-good)", dir, "TracePeach", good, 5*time.Minute)
	if err != nil {
		return err
	}
	if !v.Accepted {
		reject(c, "selftest run", replayCase{cfg, nil, good, "TracePeach"}, v)
		return nil
	}
	c.AddTraces(1)
	corrupt := func(name string, f func(evs []drv.Event) []drv.Event) error {
		evs := f(append([]drv.Event{}, good...))
		v, err := lib.ValidateTrace(c, "TracePeach(selftest-"+name+")", dir, "TracePeach", evs, 5*time.Minute)
		if err != nil {
			return err
		}
		if v.Accepted {
			return lib.Infra("vacuity guard: TracePeach accepted a trace corrupted by %q", name)
		}
		return nil
	}
	var errs []error
	var mu sync.Mutex
	tests := []struct {
		name string
		f    func(evs []drv.Event) []drv.Event
	}{
		{"dropped output value", func(evs []drv.Event) []drv.Event {
			last := &evs[len(evs)-1]
			last.Out = append([]int{}, last.Out[1:]...)
			return evs
		}},
		{"dropped failure", func(evs []drv.Event) []drv.Event {
			evs[len(evs)-1].Errs = []int{}
			return evs
		}},
		{"callback started twice", func(evs []drv.Event) []drv.Event {
			for i, e := range evs {
				if e.Ev == "CbStart" {
					return append(evs[:i+1:i+1], evs[i:]...)
				}
			}
			return evs
		}},
		{"release moved after the next acquire", func(evs []drv.Event) []drv.Event {
			// delete every Release: the third Acquire cannot return with bound 2
			var out []drv.Event
			for _, e := range evs {
				if e.Ev != "Release" {
					out = append(out, e)
				}
			}
			return out
		}},
	}
	lib.Parallel(len(tests), 4, func(i int) {
		if err := corrupt(tests[i].name, tests[i].f); err != nil {
			mu.Lock()
			errs = append(errs, err)
			mu.Unlock()
		}
	})
	if len(errs) > 0 {
		return errs[0]
	}
	c.Set("vacuity_corruptions_rejected", len(tests))
	return nil
}

func replay(c *lib.Ctx, dir string) error {
	b, err := os.ReadFile(c.Replay)
	if err != nil {
		return lib.Infra("%v", err)
	}
	var f struct {
		Case replayCase `json:"case"`
	}
	if err := json.Unmarshal(b, &f); err != nil {
		return lib.Infra("%v", err)
	}
	rc := f.Case
	if rc.Module == "" {
		rc.Module = "TracePeach"
	}
	// the stored trace
	v, err := lib.ValidateTrace(c, rc.Module+"(stored)", dir, rc.Module, rc.Events, 10*time.Minute)
	if err != nil {
		return err
	}
	if !v.Accepted {
		c.Logf("the stored trace is rejected (%s)", v.InvName)
	}
	// and the same configuration (and schedule) once more on the current tree
	tries := 1
	if rc.Sched == nil {
		tries = 20
	}
	for k := 0; k < tries; k++ {
		_, evs, err := drv.RunOne(rc.Cfg, rc.Sched, 3*time.Minute)
		if err != nil {
			return lib.Infra("%v", err)
		}
		c.AddEvals(1)
		v, err := lib.ValidateTrace(c, rc.Module+"(replay)", dir, rc.Module, evs, 10*time.Minute)
		if err != nil {
			return err
		}
		c.AddTraces(1)
		if !v.Accepted {
			rc.Events = evs
			reject(c, "replay", rc, v)
			return nil
		}
	}
	return nil
}
