// Package drv drives the real peach / each / run-parallel (and, for C19, arbitrary programs) with harness
// callbacks, records the events of one evaluation through a single tracer, and can force the order of
// the gate-able events (hooks and callback steps) according to a schedule produced by TLC.
// It contains no oracle: it runs the real code and projects what happened.
package drv

import (
	"context"
	"errors"
	"fmt"
	"math/rand"
	"reflect"
	"runtime"
	"sort"
	"strconv"
	"strings"
	"sync"
	"sync/atomic"
	"time"

	"src.elv.sh/pkg/eval"
	"src.elv.sh/pkg/parse"
	"verif.local/harness/elv"
)

// Event is one line of a recorded trace. Every event carries every field (TLC accesses fields strictly).
type Event struct {
	Ev    string   `json:"ev"`
	I     int      `json:"i"`
	V     int      `json:"v"`
	Res   string   `json:"res"`
	Conc  int      `json:"conc"`
	Mode  string   `json:"mode"`
	N     int      `json:"n"`
	Bound int      `json:"bound"`
	Ress  []string `json:"ress"`
	Nouts []int    `json:"nouts"`
	Out   []int    `json:"out"`
	Errs  []int    `json:"errs"`
	Nbrk  int      `json:"nbrk"`
	Nintr int      `json:"nintr"`
	Other []string `json:"other"`
	// C19
	G   int    `json:"g"`   // goroutine tag (0 = the goroutine that called Eval)
	Bg  bool   `json:"bg"`  // the frame's context is not the interrupt context (background job)
	Exc string `json:"exc"` // EvalReturn: ok | intr | other
	K   int    `json:"k"`   // Mark(k), Settled(k)
}

func (e *Event) norm() {
	if e.Ress == nil {
		e.Ress = []string{}
	}
	if e.Nouts == nil {
		e.Nouts = []int{}
	}
	if e.Out == nil {
		e.Out = []int{}
	}
	if e.Errs == nil {
		e.Errs = []int{}
	}
	if e.Other == nil {
		e.Other = []string{}
	}
}

// Cfg describes one run: the abstract configuration (what the specification sees) and its concretisation.
type Cfg struct {
	Mode  string   `json:"mode"` // "peach" | "each" | "runpar"
	N     int      `json:"n"`
	Bound int      `json:"bound"` // 0 = +inf
	Res   []string `json:"res"`   // per callback: ok | break | fail | continue (projected to ok)
	Nout  []int    `json:"nout"`
	// concretisation (does not enter the verdict)
	Form   int   `json:"form"`   // bit 0: inputs through a pipe instead of a list argument; bit 1: callback wrapped in an Elvish closure; bit 2: +inf spelled out
	Delay  []int `json:"delay"`  // per callback, microseconds slept inside the call (-1 = Gosched, 0 = none)
	Procs  int   `json:"procs"`  // GOMAXPROCS
	Cont   []int `json:"cont"`   // callbacks whose "ok" is delivered as `continue`
	Cancel int   `json:"cancel"` // C19 replays: unused here
	Settle bool  `json:"settle"` // forced runs: after CbEnd(i) wait until worker i is parked at its release hook
}

// Step is one gate-able event of a schedule.
type Step struct {
	Ev string `json:"ev"`
	I  int    `json:"i"`
}

func (s Step) role() string {
	switch s.Ev {
	case "AcqEnter", "AcqRet", "Spawn", "Returned", "PEnter", "PStart":
		return "F" // the feeder is the goroutine that runs the peach pipeline: goroutine 0 in the replays
	case "CancelStart":
		return "C"
	}
	return "W" + strconv.Itoa(s.I)
}

// StallLimit: a forced schedule is given up (never a verdict) when its next step does not arrive this long.
var StallLimit = 15 * time.Second

type arrival struct {
	step    Step
	release chan struct{}
	logged  chan struct{} // closed by the goroutine once the event is in the trace
}

// Run is the state of one evaluation of the real code.
type Run struct {
	Cfg  Cfg
	ev   *eval.Evaler
	mu   sync.Mutex // the tracer
	evs  []Event
	conc int
	gids map[int64]int // goroutine id -> callback index (set at CbStart)

	// schedule forcing (nil arrivals = free running)
	forced   atomic.Bool
	arrivals chan arrival
	quit     chan struct{}
	Cancel   context.CancelFunc // C19 replays

	Diverged string // why the forced schedule was abandoned ("" = followed to its end)

	// C19 (intr.go)
	intr    *IntrJob
	ctx     context.Context
	tags    map[int64]int // goroutine id -> tag
	sink    func(Event)   // called under the tracer lock for every event
	peachFm *eval.Frame
}

var current atomic.Pointer[Run]

func init() {
	eval.VerifTrace = func(ev *eval.Evaler, fm *eval.Frame, point string) {
		r := current.Load()
		if r == nil || r.ev != ev {
			return
		}
		switch point {
		case "pipeline.enter", "pipeline.start":
			if r.intr != nil {
				r.pipelineHook(fm, point)
			}
		case "peach.acquire-enter":
			r.instance(fm)
			r.at(Step{"AcqEnter", 0}, nil)
		case "peach.acquire-return":
			r.at(Step{"AcqRet", 0}, nil)
		case "peach.spawn":
			r.instance(fm)
			r.at(Step{"Spawn", 0}, nil)
		case "peach.release":
			r.mu.Lock()
			i, ok := r.gids[goid()]
			late := fm != r.peachFm
			r.mu.Unlock()
			if late {
				// a worker of an EARLIER peach call that had not yet released when that call returned
				r.log(Event{Ev: "LateRelease"})
				return
			}
			if !ok {
				i = -1
			}
			r.at(Step{"Release", i}, nil)
		}
	}
}

// instance notes which peach call (identified by its frame) the feeder hooks belong to.
func (r *Run) instance(fm *eval.Frame) {
	r.mu.Lock()
	r.peachFm = fm
	r.mu.Unlock()
}

func goid() int64 {
	var buf [64]byte
	n := runtime.Stack(buf[:], false)
	f := strings.Fields(string(buf[:n]))
	if len(f) >= 2 {
		id, _ := strconv.ParseInt(f[1], 10, 64)
		return id
	}
	return -1
}

// at is called by the real code's goroutine when it reaches a gate-able point: it waits for the
// scheduler (forced mode) and then logs the event under the tracer lock. fill may complete the event.
func (r *Run) at(s Step, fill func(e *Event)) { r.at2(s, nil, fill) }

// at2 additionally runs pre after the gate and outside the tracer lock (the effect of the step).
func (r *Run) at2(s Step, pre func(), fill func(e *Event)) {
	var logged chan struct{}
	if r.forced.Load() {
		a := arrival{s, make(chan struct{}), make(chan struct{})}
		logged = a.logged
		select {
		case r.arrivals <- a:
			select {
			case <-a.release:
			case <-r.quit:
			}
		case <-r.quit:
		}
	}
	if pre != nil {
		pre()
	}
	r.mu.Lock()
	e := Event{Ev: s.Ev, I: s.I}
	if fill != nil {
		fill(&e)
	}
	e.norm()
	r.evs = append(r.evs, e)
	if r.sink != nil {
		r.sink(e)
	}
	r.mu.Unlock()
	if logged != nil {
		close(logged)
	}
}

func (r *Run) log(e Event) {
	e.norm()
	r.mu.Lock()
	r.evs = append(r.evs, e)
	if r.sink != nil {
		r.sink(e)
	}
	r.mu.Unlock()
}

func toInt(x any) int {
	switch x := x.(type) {
	case int:
		return x
	case string:
		n, _ := strconv.Atoi(x)
		return n
	}
	return -1
}

// callback is the harness callable handed to the real peach / each / run-parallel.
func (r *Run) callback(fm *eval.Frame, x any) error {
	i := toInt(x)
	if i < 1 || i > r.Cfg.N {
		return fmt.Errorf("harness callback called with %v", x)
	}
	r.at(Step{"CbStart", i}, func(e *Event) {
		r.conc++
		e.Conc = r.conc
		r.gids[goid()] = i
	})
	d := 0
	if i-1 < len(r.Cfg.Delay) {
		d = r.Cfg.Delay[i-1]
	}
	pause := func() {
		switch {
		case d < 0:
			runtime.Gosched()
		case d > 0:
			time.Sleep(time.Duration(d) * time.Microsecond)
		}
	}
	pause()
	for j := 1; j <= r.Cfg.Nout[i-1]; j++ {
		v := i*1000 + j
		var perr error
		// the put happens after the gate and before the event is logged, outside the tracer lock:
		// for sequential runs the logged order is the order on the channel
		r.at2(Step{"Put", i}, func() { perr = fm.ValueOutput().Put(v) }, func(e *Event) {
			e.V = v
			if perr != nil {
				e.V = -1
			}
		})
		pause()
	}
	res := r.Cfg.Res[i-1]
	r.at(Step{"CbEnd", i}, func(e *Event) {
		r.conc--
		e.Res = res
	})
	switch res {
	case "break":
		return eval.Break
	case "fail":
		return eval.FailError{Content: "f" + strconv.Itoa(i)}
	}
	for _, c := range r.Cfg.Cont {
		if c == i {
			return eval.Continue
		}
	}
	return nil
}

// Program renders the Elvish program of a configuration.
func Program(c Cfg) string {
	cb := "$vc-cb~"
	if c.Form&2 != 0 {
		cb = "{|x| vc-cb $x }"
	}
	var items []string
	for i := 1; i <= c.N; i++ {
		items = append(items, strconv.Itoa(i))
	}
	switch c.Mode {
	case "runpar":
		var sb strings.Builder
		sb.WriteString("run-parallel")
		for i := 1; i <= c.N; i++ {
			fmt.Fprintf(&sb, " { vc-cb %d }", i)
		}
		return sb.String()
	case "each":
		if c.Form&1 != 0 {
			return fmt.Sprintf("range 1 %d | each %s", c.N+1, cb)
		}
		return fmt.Sprintf("each %s [%s]", cb, strings.Join(items, " "))
	}
	opt := ""
	if c.Bound > 0 {
		opt = fmt.Sprintf(" &num-workers=%d", c.Bound)
	} else if c.Form&4 != 0 {
		opt = " &num-workers=+inf"
	}
	if c.Form&1 != 0 {
		return fmt.Sprintf("range 1 %d | peach%s %s", c.N+1, opt, cb)
	}
	return fmt.Sprintf("peach%s %s [%s]", opt, cb, strings.Join(items, " "))
}

// Project turns the error of Eval into what the specification talks about: the inputs whose `fail` is
// carried by the exception, the number of break flows, of interrupted errors, and anything else.
func Project(err error) (fails []int, nbrk, nintr int, other []string) {
	fails = []int{}
	other = []string{}
	var walk func(e error)
	walk = func(e error) {
		if e == nil {
			return
		}
		if exc, ok := e.(eval.Exception); ok {
			if exc.Reason() == nil {
				return
			}
			walk(exc.Reason())
			return
		}
		switch e := e.(type) {
		case eval.PipelineError:
			for _, x := range e.Errors {
				walk(x)
			}
			return
		case eval.FailError:
			if s, ok := e.Content.(string); ok && strings.HasPrefix(s, "f") {
				if n, err := strconv.Atoi(s[1:]); err == nil {
					fails = append(fails, n)
					return
				}
			}
			other = append(other, "fail:"+e.Error())
			return
		case eval.Flow:
			if e == eval.Break {
				nbrk++
			} else {
				other = append(other, "flow:"+e.Error())
			}
			return
		}
		if errors.Is(e, eval.ErrInterrupted) {
			nintr++
			return
		}
		rv := reflect.ValueOf(e)
		if rv.Kind() == reflect.Slice && rv.Type().Elem().Kind() == reflect.Interface {
			for k := 0; k < rv.Len(); k++ {
				if x, ok := rv.Index(k).Interface().(error); ok {
					walk(x)
				}
			}
			return
		}
		other = append(other, fmt.Sprintf("%T:%v", e, e))
	}
	walk(err)
	sort.Ints(fails)
	return
}

// RunOne evaluates the program of c on a fresh Evaler and returns the recorded events
// (Reset ... Returned). sched (may be nil) forces the order of the gate-able events; when the real code
// departs from it the run continues free and Diverged says why.
func RunOne(c Cfg, sched []Step, limit time.Duration) (*Run, []Event, error) {
	if c.Procs > 0 {
		runtime.GOMAXPROCS(c.Procs)
	}
	r := &Run{Cfg: c, gids: map[int64]int{}, quit: make(chan struct{})}
	defer close(r.quit)
	r.ev = elv.New()
	r.ev.ExtendBuiltin(eval.BuildNs().AddGoFn("vc-cb", r.callback))
	mode := c.Mode
	ress := make([]string, len(c.Res))
	copy(ress, c.Res)
	r.log(Event{Ev: "Reset", Mode: mode, N: c.N, Bound: c.Bound, Ress: ress, Nouts: append([]int{}, c.Nout...)})
	if sched != nil {
		r.arrivals = make(chan arrival)
		r.forced.Store(true)
	}
	current.Store(r)
	defer current.Store(nil)

	port, collect, err := eval.CapturePort()
	if err != nil {
		return r, nil, err
	}
	ctx, cancel := context.WithCancel(context.Background())
	defer cancel()
	r.Cancel = cancel
	done := make(chan error, 1)
	go func() {
		done <- r.ev.Eval(parse.Source{Name: "[c20]", Code: Program(c)},
			eval.EvalCfg{Ports: []*eval.Port{nil, port, nil}, Interrupts: ctx})
	}()
	var evalErr error
	timer := time.NewTimer(limit)
	defer timer.Stop()
	if sched == nil {
		select {
		case evalErr = <-done:
		case <-timer.C:
			return r, nil, fmt.Errorf("evaluation of %q did not return within %s\n%s", Program(c), limit, dump())
		}
	} else {
		evalErr, err = r.follow(sched, done, timer.C)
		if err != nil {
			return r, nil, err
		}
	}
	if cls := elv.ErrClass(evalErr); cls == "parse" || cls == "compile" {
		return r, nil, fmt.Errorf("generated program %q does not %s: %v", Program(c), cls, evalErr)
	}
	vs, _ := collect()
	out := []int{}
	for _, v := range vs {
		out = append(out, toInt(v))
	}
	fails, nbrk, nintr, other := Project(evalErr)
	r.log(Event{Ev: "Returned", Out: out, Errs: fails, Nbrk: nbrk, Nintr: nintr, Other: other})
	r.mu.Lock()
	evs := append([]Event{}, r.evs...)
	r.mu.Unlock()
	return r, evs, nil
}

// follow releases the gates in the order of the schedule. An arrival that is not the next step of its
// goroutine in the schedule (or the evaluation returning early) means the real code left the schedule:
// from then on everything runs free. Waiting is unbounded except for the watchdog (=> infrastructure).
func (r *Run) follow(sched []Step, done <-chan error, watchdog <-chan time.Time) (error, error) {
	waiting := map[Step]arrival{}
	var evalErr error
	returned := false
	free := func(why string) {
		if r.Diverged == "" {
			r.Diverged = why
		}
		r.forced.Store(false)
		for s, a := range waiting {
			close(a.release)
			delete(waiting, s)
		}
	}
	nextOf := func(role string, from int) (Step, bool) {
		for k := from; k < len(sched); k++ {
			if sched[k].role() == role {
				return sched[k], true
			}
		}
		return Step{}, false
	}
	drain := func() (error, error) {
		// free running: release every later arrival until Eval returns
		for !returned {
			select {
			case a := <-r.arrivals:
				close(a.release)
			case evalErr = <-done:
				returned = true
			case <-watchdog:
				return nil, fmt.Errorf("replay did not finish (free-running phase)\n%s", dump())
			}
		}
		return evalErr, nil
	}
	for k := 0; k < len(sched); k++ {
		want := sched[k]
		if want.Ev == "CancelStart" {
			r.log(Event{Ev: "CancelStart"})
			r.Cancel()
			r.log(Event{Ev: "CancelEnd"})
			continue
		}
		if want.Ev == "Returned" {
			for !returned {
				select {
				case a := <-r.arrivals:
					waiting[a.step] = a
					free(fmt.Sprintf("step %d: schedule expects the return of peach, %s(%d) arrived", k, a.step.Ev, a.step.I))
					return drain()
				case evalErr = <-done:
					returned = true
				case <-watchdog:
					return nil, fmt.Errorf("replay stuck at step %d (Returned)\n%s", k, dump())
				}
			}
			continue
		}
		for waiting[want].release == nil {
			stall := time.NewTimer(StallLimit)
			select {
			case <-stall.C:
				// nothing arrived for a long while: the real code cannot (or is too slow to) take this
				// step now. Not a verdict: the schedule is given up, the run continues free and is judged.
				free(fmt.Sprintf("step %d: stalled waiting for %s(%d)", k, want.Ev, want.I))
				return drain()
			case a := <-r.arrivals:
				stall.Stop()
				waiting[a.step] = a
				if exp, ok := nextOf(a.step.role(), k); !ok || exp != a.step {
					free(fmt.Sprintf("step %d: %s(%d) arrived, the schedule has %v next for that goroutine", k, a.step.Ev, a.step.I, exp))
					return drain()
				}
			case evalErr = <-done:
				stall.Stop()
				returned = true
				free(fmt.Sprintf("step %d: the evaluation returned, the schedule expects %s(%d)", k, want.Ev, want.I))
				return evalErr, nil
			case <-watchdog:
				stall.Stop()
				return nil, fmt.Errorf("replay stuck at step %d waiting for %s(%d)\n%s", k, want.Ev, want.I, dump())
			}
		}
		a := waiting[want]
		delete(waiting, want)
		close(a.release)
		<-a.logged // the goroutine logs at once after its release: the trace has the forced order
		if r.Cfg.Settle && want.Ev == "CbEnd" && r.Cfg.Bound > 0 {
			// let the worker run up to its next gate (the release hook) and keep it parked there: whatever
			// the code does between the return of the callback and the hook has then certainly happened
			rel := Step{"Release", want.I}
			for waiting[rel].release == nil {
				stall := time.NewTimer(StallLimit)
				select {
				case <-stall.C:
					free(fmt.Sprintf("step %d: stalled waiting for worker %d to reach its release hook", k, want.I))
					return drain()
				case b := <-r.arrivals:
					stall.Stop()
					waiting[b.step] = b
					if b.step == rel {
						break
					}
					if exp, ok := nextOf(b.step.role(), k+1); !ok || exp != b.step {
						free(fmt.Sprintf("step %d: %s(%d) arrived, the schedule has %v next for that goroutine", k, b.step.Ev, b.step.I, exp))
						return drain()
					}
				case evalErr = <-done:
					stall.Stop()
					returned = true
					free(fmt.Sprintf("step %d: the evaluation returned before worker %d reached its release hook", k, want.I))
					return evalErr, nil
				case <-watchdog:
					stall.Stop()
					return nil, fmt.Errorf("replay stuck at step %d (settling worker %d)\n%s", k, want.I, dump())
				}
			}
		}
	}
	free("")
	return drain()
}

func dump() string {
	buf := make([]byte, 1<<20)
	n := runtime.Stack(buf, true)
	s := string(buf[:n])
	if len(s) > 6000 {
		s = s[:6000]
	}
	return s
}

// RandCfg draws a configuration for the free-running V runs.
func RandCfg(rng *rand.Rand, mode string, maxN int) Cfg {
	c := Cfg{Mode: mode}
	switch k := rng.Intn(10); {
	case k < 1:
		c.N = rng.Intn(3)
	case k < 6:
		c.N = 1 + rng.Intn(12)
	case k < 9:
		c.N = 10 + rng.Intn(60)
	default:
		c.N = 60 + rng.Intn(maxN-59)
	}
	if c.N > maxN {
		c.N = maxN
	}
	if mode == "runpar" && c.N > 40 {
		c.N = 1 + rng.Intn(40)
	}
	if mode == "peach" {
		if rng.Intn(4) != 0 {
			c.Bound = 1 + rng.Intn(8)
		}
	}
	if mode == "each" {
		c.Bound = 1
	}
	c.Form = rng.Intn(8)
	c.Procs = []int{1, 2, 4, 8, 16}[rng.Intn(5)]
	c.Res = make([]string, c.N)
	c.Nout = make([]int, c.N)
	c.Delay = make([]int, c.N)
	nonok := 0
	switch rng.Intn(3) {
	case 1:
		nonok = 1
	case 2:
		nonok = 1 + rng.Intn(3)
	}
	for i := range c.Res {
		c.Res[i] = "ok"
		c.Nout[i] = []int{0, 1, 1, 2, 3}[rng.Intn(5)]
		switch rng.Intn(6) {
		case 0:
			c.Delay[i] = -1
		case 1:
			c.Delay[i] = 1 + rng.Intn(300)
		}
		if mode != "runpar" && rng.Intn(10) == 0 {
			c.Cont = append(c.Cont, i+1)
		}
	}
	for k := 0; k < nonok && c.N > 0; k++ {
		i := rng.Intn(c.N)
		c.Res[i] = []string{"break", "fail"}[rng.Intn(2)]
	}
	return c
}
