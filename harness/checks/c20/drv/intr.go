package drv

import (
	"context"
	"fmt"
	"reflect"
	"regexp"
	"runtime"
	"strings"
	"time"

	"src.elv.sh/pkg/eval"
	"src.elv.sh/pkg/parse"
	"verif.local/harness/elv"
)

// IntrJob is one evaluation for C19: a program using the vi-* harness commands, interrupted
// asynchronously after CancelUS microseconds (< 0: never) or according to a forced schedule.
type IntrJob struct {
	ID       int            `json:"id"`
	Program  string         `json:"program"`
	CancelUS int            `json:"cancel_us"`
	Sched    []Step         `json:"sched,omitempty"`
	Res      map[int]string `json:"res,omitempty"` // forced runs: how gated callback i ends ("ok" | "intr")
	Procs    int            `json:"procs"`
	What     string         `json:"what"`
	DeclN    int            `json:"decl_n"` // forced runs: the configuration of the single peach, logged after Begin
	DeclB    int            `json:"decl_b"`
}

// tag returns the small integer standing for the calling goroutine (tracer lock must be held).
func (r *Run) tag() int {
	id := goid()
	t, ok := r.tags[id]
	if !ok {
		t = len(r.tags)
		r.tags[id] = t
	}
	return t
}

func (r *Run) pipelineHook(fm *eval.Frame, point string) {
	ev := "PEnter"
	if point == "pipeline.start" {
		ev = "PStart"
	}
	bg := isBackground(fm, r.ctx)
	r.mu.Lock()
	g := r.tag()
	r.mu.Unlock()
	if g == 0 && r.forced.Load() {
		// forced schedules also order the pipeline hooks of the goroutine that called Eval
		r.at(Step{ev, 0}, func(e *Event) { e.Bg = bg })
		return
	}
	r.mu.Lock()
	e := Event{Ev: ev, G: g, Bg: bg}
	e.norm()
	r.evs = append(r.evs, e)
	if r.sink != nil {
		r.sink(e)
	}
	r.mu.Unlock()
}

// isBackground: the frame belongs to a background job (`cmd &`). The evaluator's own flag is read (an
// unexported bool, read-only through reflection) so that a frame whose context was detached by mistake
// is NOT excused; if the field is gone the context is compared instead.
func isBackground(fm *eval.Frame, intr context.Context) bool {
	if fm == nil {
		return false
	}
	if f := reflect.ValueOf(fm).Elem().FieldByName("background"); f.IsValid() && f.Kind() == reflect.Bool {
		return f.Bool()
	}
	return fm.Context() != intr
}

// ---- harness commands available to C19 programs
func (r *Run) viMark(k int) {
	r.mu.Lock()
	e := Event{Ev: "Mark", K: k, G: r.tag()}
	e.norm()
	r.evs = append(r.evs, e)
	if r.sink != nil {
		r.sink(e)
	}
	r.mu.Unlock()
}

func (r *Run) viCancel() {
	r.log(Event{Ev: "CancelStart"})
	r.Cancel()
	r.log(Event{Ev: "CancelEnd"})
}

// vi-peach n b: declares the configuration of the peach that follows (the hooks do not carry it)
func (r *Run) viPeach(n, b int) {
	ress := make([]string, n)
	nouts := make([]int, n)
	for i := range ress {
		ress[i] = "ok"
	}
	r.mu.Lock()
	r.gids = map[int64]int{}
	r.conc = 0
	r.mu.Unlock()
	r.log(Event{Ev: "PeachDecl", Mode: "peach", N: n, Bound: b, Ress: ress, Nouts: nouts})
}

// vi-cb x [ms]: a callback body in Go: an interruptible wait (free running) or a gate (forced schedule)
func (r *Run) viCb(fm *eval.Frame, x any, rest ...int) error {
	i := toInt(x)
	ms := 20
	if len(rest) > 0 {
		ms = rest[0]
	}
	r.at(Step{"CbStart", i}, func(e *Event) {
		r.conc++
		e.Conc = r.conc
		e.G = r.tag()
		r.gids[goid()] = i
	})
	res := "ok"
	if r.arrivals != nil {
		if x, ok := r.intr.Res[i]; ok {
			res = x
		}
	} else {
		select {
		case <-fm.Context().Done():
			res = "intr"
		case <-time.After(time.Duration(ms) * time.Millisecond):
		}
	}
	r.at(Step{"CbEnd", i}, func(e *Event) {
		r.conc--
		e.Res = res
	})
	if res == "intr" {
		return eval.ErrInterrupted
	}
	return nil
}

// vi-wrap x { body }: the callback body is Elvish code; the harness brackets it with CbStart / CbEnd
func (r *Run) viWrap(fm *eval.Frame, x any, f eval.Callable) error {
	i := toInt(x)
	r.at(Step{"CbStart", i}, func(e *Event) {
		r.conc++
		e.Conc = r.conc
		e.G = r.tag()
		r.gids[goid()] = i
	})
	err := f.Call(fm.Fork(), eval.NoArgs, eval.NoOpts)
	res := "ok"
	if err != nil {
		if _, _, nintr, _ := Project(err); nintr > 0 {
			res = "intr"
		} else {
			res = "fail"
		}
	}
	r.at(Step{"CbEnd", i}, func(e *Event) {
		r.conc--
		e.Res = res
	})
	return err
}

var reEval = regexp.MustCompile(`src\.elv\.sh/pkg/eval[./(]`)

// RunIntr evaluates one C19 job on a fresh Evaler. Every event goes to sink at once (the process may
// die). The returned error is an infrastructure problem.
func RunIntr(job IntrJob, sink func(Event), limit time.Duration) (*Run, error) {
	if job.Procs > 0 {
		runtime.GOMAXPROCS(job.Procs)
	}
	r := &Run{gids: map[int64]int{}, tags: map[int64]int{}, quit: make(chan struct{}), intr: &job, sink: sink}
	defer close(r.quit)
	r.Cfg = Cfg{Mode: "peach", N: 1 << 30}
	r.ev = elv.New()
	r.ev.ExtendBuiltin(eval.BuildNs().
		AddGoFn("vi-mark", r.viMark).AddGoFn("vi-cancel", r.viCancel).AddGoFn("vi-peach", r.viPeach).
		AddGoFn("vi-cb", r.viCb).AddGoFn("vi-wrap", r.viWrap))
	if job.Sched != nil {
		r.arrivals = make(chan arrival)
		r.forced.Store(true)
	}
	runtime.GC()
	base := runtime.NumGoroutine()
	ctx, cancel := context.WithCancel(context.Background())
	defer cancel()
	r.ctx = ctx
	r.Cancel = cancel
	port, collect, err := eval.CapturePort()
	if err != nil {
		return r, err
	}
	started := make(chan struct{})
	done := make(chan error, 1)
	current.Store(r)
	defer current.Store(nil)
	go func() {
		r.mu.Lock()
		r.tags[goid()] = 0
		r.mu.Unlock()
		r.log(Event{Ev: "Begin"})
		if job.DeclN > 0 {
			r.viPeach(job.DeclN, job.DeclB)
		}
		close(started)
		done <- r.ev.Eval(parse.Source{Name: "[c19]", Code: job.Program},
			eval.EvalCfg{Ports: []*eval.Port{nil, port, nil}, Interrupts: ctx})
	}()
	<-started
	// the asynchronous interrupt
	stopCancel := make(chan struct{})
	cancelDone := make(chan struct{})
	go func() {
		defer close(cancelDone)
		if job.CancelUS < 0 || job.Sched != nil {
			return
		}
		t := time.NewTimer(time.Duration(job.CancelUS) * time.Microsecond)
		defer t.Stop()
		select {
		case <-t.C:
			r.viCancel()
		case <-stopCancel:
		}
	}()
	timer := time.NewTimer(limit)
	defer timer.Stop()
	var evalErr error
	if job.Sched == nil {
		select {
		case evalErr = <-done:
		case <-timer.C:
			return r, fmt.Errorf("evaluation of %q did not return within %s\n%s", job.Program, limit, dump())
		}
	} else {
		evalErr, err = r.follow(job.Sched, done, timer.C)
		if err != nil {
			return r, err
		}
	}
	close(stopCancel)
	<-cancelDone
	collect()
	exc := "ok"
	if evalErr != nil {
		exc = "other"
		if elv.ErrClass(evalErr) != "exception" {
			return r, fmt.Errorf("program %q does not compile: %v", job.Program, evalErr)
		}
		if _, _, nintr, _ := Project(evalErr); nintr > 0 {
			exc = "intr"
		}
	}
	e := Event{Ev: "EvalReturn", Exc: exc}
	if exc == "other" {
		e.Other = []string{evalErr.Error()}
	}
	r.log(e)
	// every goroutine the evaluation started has completed: the count returns to the baseline
	r.forced.Store(false)
	deadline := time.Now().Add(45 * time.Second)
	pause := 50 * time.Microsecond
	for runtime.NumGoroutine() > base && time.Now().Before(deadline) {
		time.Sleep(pause)
		if pause < 20*time.Millisecond {
			pause *= 2
		}
	}
	left := runtime.NumGoroutine() - base
	if left <= 0 {
		r.log(Event{Ev: "Settled", K: 0})
		return r, nil
	}
	// goroutines are left: only goroutines inside the evaluator count, anything else is the harness
	buf := make([]byte, 4<<20)
	n := runtime.Stack(buf, true)
	var inEval []string
	for _, g := range strings.Split(string(buf[:n]), "\n\n") {
		if reEval.MatchString(g) && !strings.Contains(g, "drv.RunIntr") && !strings.Contains(g, "drv.(*Run).follow") {
			lines := strings.Split(g, "\n")
			top := ""
			if len(lines) > 1 {
				top = strings.TrimSpace(lines[1])
			}
			inEval = append(inEval, top)
		}
	}
	if len(inEval) == 0 {
		return r, fmt.Errorf("goroutine count did not return to the baseline (%d left) but none is inside the evaluator:\n%s", left, string(buf[:min(n, 4000)]))
	}
	r.log(Event{Ev: "Settled", K: len(inEval), Other: inEval})
	return r, nil
}
