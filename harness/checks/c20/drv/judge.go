package drv

import (
	"fmt"
	"regexp"
	"sync"
	"time"

	"verif.local/harness/lib"
)

// ValidateTrace is lib.ValidateTrace with extra files in TLC's scratch directory (the Interrupt family
// extends modules of the Peach family).
func ValidateTrace(c *lib.Ctx, name, dir, module string, events []Event, extra map[string][]byte, timeout time.Duration) (*lib.TraceVerdict, error) {
	return ValidateTraceCfg(c, name, dir, module, "", events, extra, timeout)
}

// ValidateTraceCfg: the same with a named configuration file (default Module.cfg).
func ValidateTraceCfg(c *lib.Ctx, name, dir, module, cfg string, events []Event, extra map[string][]byte, timeout time.Duration) (*lib.TraceVerdict, error) {
	files := map[string][]byte{"trace.ndjson": lib.NDJSON(events)}
	for k, v := range extra {
		files[k] = v
	}
	r, err := lib.RunTLC(lib.TLCRun{Dir: dir, Module: module, Cfg: cfg, Workers: 1, DFS: true, Timeout: timeout, HeapGB: 6, Files: files})
	v := &lib.TraceVerdict{Len: len(events), Result: r}
	if err != nil {
		return v, lib.InfraError{Err: err}
	}
	c.AddTLC(name, r)
	for _, t := range r.Tagged("HW") {
		if n, ok := t[0].(int64); ok {
			v.HighWater = int(n) - 1
		}
	}
	switch r.ErrKind {
	case "":
		v.Accepted = v.HighWater == len(events)
		if !v.Accepted {
			return v, lib.Infra("trace spec %s: no error but high-water %d of %d", module, v.HighWater, len(events))
		}
	case "postcondition":
	case "invariant", "action-property":
		v.InvName = r.ErrName
	default:
		return v, lib.Infra("trace spec %s: unexpected TLC outcome %s: %s", module, r.ErrKind, r.Err)
	}
	return v, nil
}

var reL = regexp.MustCompile(`(?m)^/\\ l = (\d+)`)

// Position returns the number of events matched when TLC stopped: the high-water mark, or (a violated
// property) the trace position of the violating state.
func Position(v *lib.TraceVerdict) int {
	if v.InvName != "" && v.Result != nil {
		ms := reL.FindAllStringSubmatch(v.Result.ErrTrace, -1)
		if len(ms) > 0 {
			var l int
			fmt.Sscan(ms[len(ms)-1][1], &l)
			return l - 1
		}
	}
	return v.HighWater
}

// Item is one recorded run to be judged by a trace specification.
type Item struct {
	What   string
	Module string
	Events []Event
	Case   any  // stored as the replay case on rejection
	Known  bool // classification only: the run shows the pattern of a known finding (judged in its own sequence)
}

// JudgeAll concatenates the runs (each starts with its own reset event) into few TLC processes per
// module. A rejected concatenation names the run (position of the violating state / high-water mark);
// reject is called for it with HighWater made relative to the run, and the remainder is judged again.
// Runs marked Known are judged in their own sequence; after capKnown rejections there the rest is
// skipped (returned count).
//
// nameCfg (may be ""): the module's own configuration decides acceptance EXISTENTIALLY (its invariants
// prune, see TraceInterrupt.tla); a rejected run is then judged once more, alone, with nameCfg in which
// the same invariants are INVARIANTs, only to name what is violated.
func JudgeAll(c *lib.Ctx, dir string, extra map[string][]byte, items []Item, capKnown, maxEvents, par int, nameCfg string,
	reject func(it Item, v *lib.TraceVerdict)) (int, error) {
	type seq struct {
		module string
		idx    []int
		cap    int
	}
	var seqs []seq
	open := map[string]*seq{}
	size := map[string]int{}
	known := map[string]*seq{}
	var knownOrder []string
	for i, it := range items {
		if it.Known {
			if known[it.Module] == nil {
				known[it.Module] = &seq{module: it.Module, cap: capKnown}
				knownOrder = append(knownOrder, it.Module)
			}
			known[it.Module].idx = append(known[it.Module].idx, i)
			continue
		}
		m := it.Module
		if open[m] == nil {
			open[m] = &seq{module: m, cap: 1 << 30}
		}
		open[m].idx = append(open[m].idx, i)
		size[m] += len(it.Events)
		if size[m] > maxEvents {
			seqs = append(seqs, *open[m])
			open[m], size[m] = nil, 0
		}
	}
	for _, s := range open {
		if s != nil {
			seqs = append(seqs, *s)
		}
	}
	for _, m := range knownOrder {
		seqs = append(seqs, *known[m])
	}
	var mu sync.Mutex
	var firstErr error
	skipped := 0
	lib.Parallel(len(seqs), par, func(si int) {
		s := seqs[si]
		idx := s.idx
		rejections := 0
		for len(idx) > 0 {
			if rejections >= s.cap {
				mu.Lock()
				skipped += len(idx)
				mu.Unlock()
				return
			}
			var evs []Event
			var ends []int
			for _, i := range idx {
				evs = append(evs, items[i].Events...)
				ends = append(ends, len(evs))
				if s.cap < 1<<30 && len(evs) > maxEvents { // a sequence that may be cut short: keep it small
					break
				}
			}
			part := idx[:len(ends)]
			v, err := ValidateTrace(c, s.module, dir, s.module, evs, extra, 14*time.Minute)
			mu.Lock()
			if err != nil {
				if firstErr == nil {
					firstErr = err
				}
				mu.Unlock()
				return
			}
			if v.Accepted {
				c.AddTraces(len(part))
				mu.Unlock()
				idx = idx[len(part):]
				continue
			}
			pos := Position(v)
			off := pos // index of the first unmatched event, or of the event whose step violated a property
			if v.InvName != "" && off > 0 {
				off--
			}
			k := 0
			for k < len(ends)-1 && off >= ends[k] {
				k++
			}
			start := 0
			if k > 0 {
				start = ends[k-1]
			}
			c.AddTraces(k + 1)
			v.HighWater = pos - start
			mu.Unlock()
			if nameCfg != "" {
				nv, err := ValidateTraceCfg(c, s.module+"(naming)", dir, s.module, nameCfg, items[part[k]].Events, extra, 14*time.Minute)
				mu.Lock()
				if err != nil {
					if firstErr == nil {
						firstErr = err
					}
					mu.Unlock()
					return
				}
				mu.Unlock()
				if nv.Accepted {
					// no invariant is violated on the paths TLC walked and the whole run is explained: it was
					// rejected only in the concatenation => the trouble is at the seam, report the structure
					nv = v
				} else {
					nv.HighWater = Position(nv)
				}
				v = nv
			}
			mu.Lock()
			reject(items[part[k]], v)
			mu.Unlock()
			rejections++
			idx = idx[k+1:]
			if c.Violations() > 20 {
				return // more than the framework stores: stop judging, the verdict is exit 1 anyway
			}
		}
	})
	return skipped, firstErr
}

func asInt(v any) int {
	if n, ok := v.(int64); ok {
		return int(n)
	}
	return -1
}

func seqOf(v any) []any {
	switch v := v.(type) {
	case []any:
		return v
	case lib.TLAFun:
		out := make([]any, len(v))
		for _, p := range v {
			if k := asInt(p.K); k >= 1 && k <= len(v) {
				out[k-1] = p.V
			}
		}
		return out
	}
	return nil
}

// mainPc is the pipeline pc of goroutine 0 in a state of Interrupt.tla ("" if the state has no gst).
func mainPc(st map[string]any) string {
	switch g := st["gst"].(type) {
	case lib.TLAFun:
		for _, p := range g {
			if asInt(p.K) == 0 {
				if m, ok := p.V.(map[string]any); ok {
					s, _ := m["pc"].(string)
					return s
				}
			}
		}
	case []any: // domain 1..n only: goroutine 0 absent
	}
	return ""
}

func cfgOf(st map[string]any) (Cfg, error) {
	var cfg Cfg
	m, ok := st["cfg"].(map[string]any)
	if !ok {
		return cfg, fmt.Errorf("cfg not parsed: %v", st["cfg"])
	}
	cfg.Mode, _ = m["mode"].(string)
	cfg.N = asInt(m["n"])
	cfg.Bound = asInt(m["bound"])
	for _, x := range seqOf(m["res"]) {
		s, _ := x.(string)
		cfg.Res = append(cfg.Res, s)
	}
	for _, x := range seqOf(m["nout"]) {
		cfg.Nout = append(cfg.Nout, asInt(x))
	}
	if len(cfg.Res) != cfg.N || len(cfg.Nout) != cfg.N {
		return cfg, fmt.Errorf("cfg inconsistent: %v", m)
	}
	return cfg, nil
}

// ScheduleOf projects a TLC counterexample over the variables of Peach.tla to its configuration, its
// gate-able events and how each callback ended. The step is identified by what changed (TLC labels the
// steps under \E only with "Next").
func ScheduleOf(r *lib.TLCResult) (Cfg, []Step, map[int]string, error) {
	sts := r.TraceStates()
	if len(sts) < 2 {
		return Cfg{}, nil, nil, fmt.Errorf("no states")
	}
	cfg, err := cfgOf(sts[0])
	if err != nil {
		return cfg, nil, nil, err
	}
	changed := func(a, b map[string]any, name string) int {
		x, y := seqOf(a[name]), seqOf(b[name])
		for k := range x {
			if k < len(y) && fmt.Sprint(x[k]) != fmt.Sprint(y[k]) {
				return k + 1
			}
		}
		return -1
	}
	var sched []Step
	ends := map[int]string{}
	str := func(st map[string]any, name string) string { x, _ := st[name].(string); return x }
	for k := 1; k < len(sts); k++ {
		p, q := sts[k-1], sts[k]
		switch {
		case str(p, "fpc") == "acqenter" && str(q, "fpc") == "acquire":
			sched = append(sched, Step{Ev: "AcqEnter"})
		case str(p, "fpc") == "acqret" && str(q, "fpc") == "decide":
			sched = append(sched, Step{Ev: "AcqRet"})
		case str(p, "fpc") != "returned" && str(q, "fpc") == "returned":
			sched = append(sched, Step{Ev: "Returned"})
		case p["cancelled"] == false && q["cancelled"] == true:
			sched = append(sched, Step{Ev: "CancelStart"})
		case mainPc(p) == "out" && mainPc(q) == "entered":
			sched = append(sched, Step{Ev: "PEnter"})
		case mainPc(p) == "passed" && mainPc(q) == "out":
			sched = append(sched, Step{Ev: "PStart"})
		case changed(p, q, "pos") > 0:
			sched = append(sched, Step{Ev: "Put", I: changed(p, q, "pos")})
		case changed(p, q, "wpc") > 0:
			i := changed(p, q, "wpc")
			from, _ := seqOf(p["wpc"])[i-1].(string)
			to, _ := seqOf(q["wpc"])[i-1].(string)
			switch {
			case from == "none" && to == "spawned":
				if cfg.Mode != "runpar" {
					sched = append(sched, Step{Ev: "Spawn"})
				}
			case from == "spawned" && to == "run":
				sched = append(sched, Step{Ev: "CbStart", I: i})
			case from == "run":
				sched = append(sched, Step{Ev: "CbEnd", I: i})
				if e := seqOf(q["ended"]); i-1 < len(e) {
					ends[i], _ = e[i-1].(string)
				}
			case to == "released":
				sched = append(sched, Step{Ev: "Release", I: i})
			}
		}
	}
	for _, s := range sched {
		if s.I < 0 {
			return cfg, nil, nil, fmt.Errorf("could not attribute a worker step: %v", sched)
		}
	}
	return cfg, sched, ends, nil
}
