// C18 — pipelines deliver data exactly once, in order, and never deadlock.
// M: MCPipeline (every tuple of stage archetypes, all interleavings; safety, deadlock freedom, termination).
// V: free-running random REAL pipelines (harness stage commands + builtins, real pipeline syntax) recorded
//
//	by one tracer and validated against TracePipeline (TLC places the channel transfers, IterateInputs'
//	reader goroutines and the exit sub-steps and evaluates the invariants in every inferred state).
//
// G: behaviours of the model replayed through gated stage commands (gated.go).
package main

import (
	"context"
	"crypto/md5"
	"encoding/hex"
	"encoding/json"
	"fmt"
	"math/rand"
	"os"
	"os/exec"
	"path/filepath"
	"runtime"
	"strconv"
	"strings"
	"sync"
	"time"

	"verif.local/harness/lib"
)

func main() { lib.Main("C18", run) }

const invariants = "ExactlyOnceInOrder Conservation SendStopHasError GoneBeforeClose ReaderGoneOnlyIfReaderExited ReaderGoneSilent"

func mcCfg(n, cp, pcap, arch int, cross, live bool) []byte {
	s := fmt.Sprintf("CONSTANTS Cap = %d PCap = %d MCN = %d ArchLevel = %d IncludeCross = %v\nCONSTANT ScriptOf <- Ident\nSPECIFICATION Spec\nINVARIANT %s NoDeadlock\nCHECK_DEADLOCK %s\n",
		cp, pcap, n, arch, map[bool]string{true: "TRUE", false: "FALSE"}[cross], invariants, map[bool]string{true: "FALSE", false: "TRUE"}[cross])
	if live {
		s += "PROPERTY Termination\n"
	}
	return []byte(s)
}

func traceCfg(cp int) []byte {
	return []byte(fmt.Sprintf("CONSTANTS Cap = %d PCap = 1000000\nCONSTANT ScriptOf <- TrScriptOf\nSPECIFICATION TSpec\nCONSTRAINT HW\nINVARIANT %s\nPOSTCONDITION Accepted\n", cp, invariants))
}

// validate is lib.ValidateTrace with the measured channel capacity written into the cfg.
func validate(c *lib.Ctx, name string, evs []event, cp int, timeout time.Duration) (*lib.TraceVerdict, error) {
	r, err := lib.RunTLC(lib.TLCRun{Dir: c.SpecDir("Pipeline"), Module: "TracePipeline", Workers: 1, DFS: true, Timeout: timeout, HeapGB: 6,
		Files: map[string][]byte{"trace.ndjson": lib.NDJSON(evs), "TracePipeline.cfg": traceCfg(cp)}})
	v := &lib.TraceVerdict{Len: len(evs), Result: r}
	if err != nil {
		return v, lib.InfraError{Err: err}
	}
	c.AddTLC(name, r)
	for _, t := range r.Tagged("HW") {
		if n, ok := t[0].(int64); ok {
			v.HighWater = int(n) - 1
		}
	}
	switch r.ErrKind {
	case "":
		v.Accepted = v.HighWater == len(evs)
		if !v.Accepted {
			return v, lib.Infra("TracePipeline: no error but high-water %d of %d", v.HighWater, len(evs))
		}
	case "postcondition":
	case "invariant", "action-property":
		v.InvName = r.ErrName
	default:
		return v, lib.Infra("TracePipeline: unexpected TLC outcome %s: %s", r.ErrKind, r.Err)
	}
	return v, nil
}

type replayCase struct {
	Kind   string    `json:"kind"` // "trace" | "hang"
	Pipe   *pipeRun  `json:"pipeline"`
	Code   string    `json:"code"`
	Cap    int       `json:"cap"`
	Events []event   `json:"events"`
	Hang   *hangInfo `json:"hang,omitempty"`
}

func rejectTrace(c *lib.Ctx, what string, pr *pipeRun, evs []event, cp int, v *lib.TraceVerdict) {
	key := "pipeline:trace-rejected"
	if v.InvName != "" {
		key = "pipeline:" + v.InvName
	}
	next := "(end)"
	if v.HighWater < len(evs) {
		b, _ := json.Marshal(evs[v.HighWater])
		next = string(b)
		if evs[v.HighWater].Ev == "PipelineEnd" {
			key = "pipeline:end-structure"
		}
	}
	code := ""
	if pr != nil {
		code = pr.code()
	}
	c.Reject(key, fmt.Sprintf("%s: the recorded events of the real pipeline %q are not a behaviour of Pipeline.tla: matched %d of %d events, invariant %q, first unmatched event %s",
		what, code, v.HighWater, len(evs), v.InvName, next), replayCase{Kind: "trace", Pipe: pr, Code: code, Cap: cp, Events: evs})
}

func run(c *lib.Ctx) error {
	dir := c.SpecDir("Pipeline")
	if n, err := strconv.Atoi(os.Getenv("C18_RACE_CHILD")); err == nil {
		return raceChild(c, n)
	}
	if c.Replay != "" {
		return replay(c)
	}
	c.Set("rule", "a V case is one real pipeline run; distinct by its scripts; pipelines with fewer than 4 channel/pipe operations are not counted. A G case is one model behaviour replayed through gated stages; distinct by its step sequence")
	tlcTimeout := 25 * time.Minute

	// ---- M
	type mrun struct {
		n, cp, arch int
		cross, live bool
	}
	var mruns []mrun
	if c.Quick() {
		mruns = []mrun{{2, 1, 2, false, true}, {3, 1, 1, false, false}}
	} else {
		mruns = []mrun{{2, 1, 2, false, true}, {2, 2, 2, false, true}, {2, 1, 2, true, false}, {3, 1, 1, false, true}, {3, 2, 1, false, false}, {3, 1, 2, false, false}}
	}
	var mu sync.Mutex
	var firstErr error
	setErr := func(err error) {
		mu.Lock()
		if firstErr == nil {
			firstErr = err
		}
		mu.Unlock()
	}
	if os.Getenv("C18_SKIP_M") != "" { // development only
		mruns = nil
	}
	var wgM sync.WaitGroup
	wgM.Add(1)
	go func() {
		defer wgM.Done()
		for _, m := range mruns {
			name := fmt.Sprintf("MCPipeline N=%d Cap=%d arch=%d cross=%v live=%v", m.n, m.cp, m.arch, m.cross, m.live)
			r, err := c.TLC(name, lib.TLCRun{Dir: dir, Module: "MCPipeline", Workers: c.Pick(2, 4), Timeout: tlcTimeout, HeapGB: 8,
				Files: map[string][]byte{"MCPipeline.cfg": mcCfg(m.n, m.cp, 1, m.arch, m.cross, m.live)}})
			if err != nil {
				setErr(err)
				return
			}
			if r.ErrKind != "" {
				setErr(lib.Infra("the pipeline MODEL violates %s %s in %s — model and code must be re-examined before any verdict:\n%s", r.ErrKind, r.ErrName, name, r.ErrTrace))
				return
			}
			c.Logf("model %s: %d distinct states, %.0fs", name, r.Distinct, r.Wall.Seconds())
		}
	}()

	// ---- V
	ev := newEvaler()
	wd := watchdog{idle: 20 * time.Second, giveUp: 3 * time.Minute}
	// the capacity of the real channel is measured, not assumed
	probe := &pipeRun{ID: 1, Scripts: [][]op{{{K: "putv", V: 1}, {K: "ok"}}, {{K: "getv"}, {K: "ok"}}}, Logged: []bool{true, true}, Words: []string{"", ""}, LineLen: 100, Yield: []int64{1, 2}}
	pres := runPipeline(ev, probe, wd)
	if pres.infra != nil || pres.hang != nil || len(probe.caps) != 1 {
		return lib.Infra("probe pipeline failed: %v %v", pres.infra, pres.hang)
	}
	cp := probe.caps[0]
	c.Set("measured_channel_capacity", cp)

	// vacuity guard: a good trace is accepted, corrupted ones are rejected
	if os.Getenv("C18_SKIP_SELFTEST") == "" { // (development only)
		if err := selftest(c, ev, wd, cp); err != nil {
			return err
		}
	}

	rng := rand.New(rand.NewSource(c.Seed))
	npipes := c.Pick(40, 400)
	if n, err := strconv.Atoi(os.Getenv("C18_N")); err == nil { // development only
		npipes = n
	}
	g := genCfg{maxStages: 6, pBig: 0.35, pBuiltin: 0.15}
	type item struct {
		pr  *pipeRun
		evs []event
	}
	var items []item
	for i := 0; i < npipes && c.Violations() < 3; i++ {
		pr := genPipeline(rng, 100+i, g)
		if i%5 == 1 {
			pr = genChain(rng, 100+i) // the reader-gone chain, see gen.go
			c.Inc("v_readergone_chains", 1)
		}
		if i%5 == 3 {
			pr = genLong(rng, 100+i) // single lines of >= 64 KiB into IterateInputs and line readers, see gen.go
			c.Inc("v_long_line_pipelines", 1)
		}
		res := runPipeline(ev, pr, wd)
		c.AddEvals(1)
		if res.infra != nil {
			return lib.Infra("%v", res.infra)
		}
		if res.hang != nil {
			if err := handleHang(c, ev, pr, res, wd, cp); err != nil {
				return err
			}
			ev = newEvaler() // the hung evaluation keeps its goroutines
			continue
		}
		for _, k := range pr.caps {
			if k != cp {
				return lib.Infra("channel capacity %d differs from the probed %d", k, cp)
			}
		}
		if nOps(pr) >= 4+len(pr.Scripts) {
			c.Distinct(pr.Scripts)
		}
		if i < 2 {
			c.Sample(map[string]any{"code": pr.code(), "scripts": pr.Scripts, "events": len(res.evs)})
		}
		c.Inc("v_events", int64(len(res.evs)))
		items = append(items, item{pr, res.evs})
	}
	runtime.GOMAXPROCS(runtime.NumCPU())
	// batches of a few pipelines per TLC process
	type batch struct {
		items []item
		evs   []event
	}
	var batches []batch
	cur := batch{}
	for _, it := range items {
		cur.items = append(cur.items, it)
		cur.evs = append(cur.evs, it.evs...)
		if len(cur.evs) >= 2500 || len(cur.items) >= 12 {
			batches = append(batches, cur)
			cur = batch{}
		}
	}
	if len(cur.items) > 0 {
		batches = append(batches, cur)
	}
	lib.Parallel(len(batches), c.Pick(2, 4), func(i int) {
		b := batches[i]
		v, err := validate(c, "TracePipeline", b.evs, cp, tlcTimeout)
		if err != nil {
			setErr(err)
			return
		}
		c.AddTraces(len(b.items))
		if v.Accepted {
			return
		}
		pos := 0
		for _, it := range b.items {
			if v.HighWater < pos+len(it.evs) {
				one, err := validate(c, "TracePipeline(single)", it.evs, cp, tlcTimeout)
				if err != nil {
					setErr(err)
				} else if !one.Accepted {
					rejectTrace(c, "free-running pipeline", it.pr, it.evs, cp, one)
				} else {
					setErr(lib.Infra("batch rejected at event %d but the pipeline alone is accepted", v.HighWater))
				}
				break
			}
			pos += len(it.evs)
		}
	})
	if firstErr == nil && os.Getenv("C18_SKIP_G") == "" {
		if err := runG(c, cp, wd); err != nil {
			setErr(err)
		}
	}
	if firstErr == nil && c.Thorough() && os.Getenv("C18_SKIP_RACE") == "" {
		if err := raceObserver(c); err != nil {
			setErr(err)
		}
	}
	wgM.Wait()
	if firstErr != nil {
		return firstErr
	}
	c.Assume("TLC trusted; events are ordered by one mutex-protected tracer; the effect of every channel/pipe operation is placed by TLC between its Start (reads: the end of the stage's previous operation) and its End; exit sub-steps are not observable from outside pipelineOp.exec and are placed by TLC; the Go select arm and the goroutine schedule are not forced in V; the capacity of the value channel is measured from the real port, the OS pipe's capacity is left unbounded in the trace specification")
	return nil
}

// selftest: the trace specification accepts a real trace and rejects corruptions of it.
func selftest(c *lib.Ctx, ev interface{}, wd watchdog, cp int) error {
	e := newEvaler()
	pr := &pipeRun{ID: 2, LineLen: 3500, Procs: 4, Yield: []int64{11, 12, 13},
		Logged: []bool{true, true, true}, Words: []string{"", "", ""}}
	var s1, s2 []op
	for i := 0; i < cp+4; i++ {
		s1 = append(s1, op{K: "putv", V: 1000 + i})
	}
	s1 = append(s1, op{K: "putb", V: 1000}, op{K: "throw"})
	for i := 0; i < 3; i++ {
		s2 = append(s2, op{K: "getv"}, op{K: "putv", V: 2000 + i})
	}
	s2 = append(s2, op{K: "ok"})
	pr.Scripts = [][]op{s1, s2, {{K: "drain"}, {K: "throw"}}}
	res := runPipeline(e, pr, wd)
	if res.infra != nil || res.hang != nil {
		return lib.Infra("selftest pipeline failed: %v %v", res.infra, res.hang)
	}
	good := res.evs
	v, err := validate(c, "TracePipeline(selftest-good)", good, cp, 20*time.Minute)
	if err != nil {
		return err
	}
	if !v.Accepted {
		rejectTrace(c, "selftest", pr, good, cp, v)
		return nil
	}
	corrupt := func(name string, f func(evs []event) bool) error {
		evs := make([]event, len(good))
		copy(evs, good)
		if !f(evs) {
			return lib.Infra("vacuity guard %s: nothing to corrupt", name)
		}
		v, err := validate(c, "TracePipeline(selftest-"+name+")", evs, cp, 20*time.Minute)
		if err != nil {
			return err
		}
		if v.Accepted {
			return lib.Infra("vacuity guard: TracePipeline accepted a trace with %s", name)
		}
		return nil
	}
	// a received value replaced by another one
	if err := corrupt("wrong-value", func(evs []event) bool {
		for i := range evs {
			if evs[i].Ev == "End" && evs[i].K == "getv" && evs[i].R == "ok" {
				evs[i].V++
				return true
			}
		}
		return false
	}); err != nil {
		return err
	}
	// the reader-gone exception of stage 1 reported / the thrown one dropped
	return corrupt("wrong-exceptions", func(evs []event) bool {
		last := &evs[len(evs)-1]
		if last.Ev != "PipelineEnd" || last.Res == nil || len(*last.Res) == 0 {
			return false
		}
		r := (*last.Res)[1:]
		last.Res = &r
		return true
	})
}

// handleHang: a settled hang is re-run; if it reproduces and the recorded prefix is a behaviour of the
// specification, the real code stopped in a state in which the specification can always continue.
func handleHang(c *lib.Ctx, ev interface{}, pr *pipeRun, res runResult, wd watchdog, cp int) error {
	if !res.hang.Settled {
		return lib.Infra("watchdog: pipeline %q made no progress but its goroutines are not all parked: %v", pr.code(), res.hang.Signature)
	}
	again := &pipeRun{ID: pr.ID + 100000, Scripts: pr.Scripts, Logged: pr.Logged, Words: pr.Words, LineLen: pr.LineLen, Procs: pr.Procs, Yield: pr.Yield}
	res2 := runPipeline(newEvaler(), again, wd)
	if res2.infra != nil {
		return lib.Infra("%v", res2.infra)
	}
	if res2.hang == nil || !res2.hang.Settled || fmt.Sprint(unfinished(res.evs, len(pr.Scripts))) != fmt.Sprint(unfinished(res2.evs, len(pr.Scripts))) {
		return lib.Infra("watchdog: pipeline %q hung with every goroutine parked (%v) but the hang did not reproduce", pr.code(), res.hang.Signature)
	}
	v, err := validate(c, "TracePipeline(hang-prefix)", res.evs, cp, 20*time.Minute)
	if err != nil {
		return err
	}
	if !v.Accepted {
		rejectTrace(c, "prefix of a hung pipeline", pr, res.evs, cp, v)
		return nil
	}
	c.Reject("pipeline:hang", fmt.Sprintf("the real pipeline %q stops with every goroutine of the evaluation parked (%v), reproducibly, after a prefix that Pipeline.tla accepts: NoDeadlock / Termination violated",
		pr.code(), res.hang.Signature), replayCase{Kind: "hang", Pipe: pr, Code: pr.code(), Cap: cp, Events: res.evs, Hang: res.hang})
	return nil
}

// runG: TLC enumerates the behaviours of GPipeline (exhaustively: the history is part of the state), each
// is replayed on a real gated pipeline.
func runG(c *lib.Ctx, cp int, wd watchdog) error {
	type gcfg struct{ n, level, mcap, sim int } // sim > 0: that many random behaviours (-simulate) instead of all
	cfgs := []gcfg{{2, 1, 1, 0}, {3, 3, 1, 0}}
	if c.Thorough() {
		cfgs = []gcfg{{2, 2, 1, 0}, {2, 1, 2, 0}, {3, 3, 1, 0}, {3, 3, 2, 0}, {3, 1, 1, 2500}}
	}
	ev := newEvaler()
	id := 500000
	for _, gcf := range cfgs {
		if cp%gcf.mcap != 0 {
			return lib.Infra("real channel capacity %d is not a multiple of the model capacity %d", cp, gcf.mcap)
		}
		name := fmt.Sprintf("GPipeline N=%d level=%d Cap=%d", gcf.n, gcf.level, gcf.mcap)
		sim := ""
		if gcf.sim > 0 {
			sim = fmt.Sprintf("num=%d", gcf.sim)
			name += " simulate " + sim
		}
		r, err := c.TLC(name, lib.TLCRun{Dir: c.SpecDir("Pipeline"), Module: "GPipeline", Workers: 1, Timeout: 25 * time.Minute, HeapGB: 8, Simulate: sim, Depth: 100,
			Files: map[string][]byte{"GPipeline.cfg": []byte(fmt.Sprintf("CONSTANTS Cap = %d PCap = 1 GN = %d GLevel = %d\nCONSTANT ScriptOf <- Ident\nSPECIFICATION GSpec\nINVARIANT ExactlyOnceInOrder ReaderGoneSilent Emit\n", gcf.mcap, gcf.n, gcf.level))}})
		if err != nil {
			return err
		}
		if r.ErrKind != "" {
			return lib.Infra("GPipeline violates %s %s:\n%s", r.ErrKind, r.ErrName, r.ErrTrace)
		}
		seen := map[string]bool{}
		var cases []*gcase
		for _, line := range r.PrintedStrings() {
			if seen[line] {
				continue
			}
			seen[line] = true
			gc := &gcase{}
			if err := json.Unmarshal([]byte(line), gc); err != nil {
				return lib.Infra("cannot parse an emitted behaviour: %v", err)
			}
			for i := range gc.Steps {
				gc.Steps[i].Pc-- // TLA+ sequences are 1-based
			}
			cases = append(cases, gc)
		}
		if len(cases) == 0 {
			return lib.Infra("%s emitted no behaviour", name)
		}
		c.Logf("%s: %d behaviours (%d states)", name, len(cases), r.Distinct)
		diverged, early, blockedSteps := 0, 0, 0
		for _, gc := range cases {
			if c.Violations() >= 3 {
				break // enough evidence; every further hang costs two watchdog periods
			}
			id++
			v := replayBehaviour(ev, id, gc, gcf.mcap, cp, wd)
			c.AddEvals(1)
			if v.infra != nil {
				return lib.Infra("%v", v.infra)
			}
			if v.hang != nil {
				ev = newEvaler()
				if !v.hang.Settled {
					return lib.Infra("gated replay: no completion at step %d but the goroutines are not all parked: %v", v.steps+1, v.hang.Signature)
				}
				// re-run; a re-run that leaves the schedule earlier at a select race (det = FALSE) says nothing: try again
				var v2 gverdict
				for try := 0; try < 8; try++ {
					id++
					v2 = replayBehaviour(ev, id, gc, gcf.mcap, cp, wd)
					ev = newEvaler()
					if !(v2.diverged && v2.steps < v.steps) {
						break
					}
				}
				if v2.hang == nil || !v2.hang.Settled || v2.steps != v.steps {
					b, _ := json.Marshal(gc)
					return lib.Infra("gated replay: hang at step %d (%v) did not reproduce: second run hang=%v steps=%d mismatch=%q diverged=%v infra=%v\nbehaviour: %s", v.steps+1, v.hang.Signature, v2.hang != nil, v2.steps, v2.mismatch, v2.diverged, v2.infra, b)
				}
				c.Reject("gated:hang", fmt.Sprintf("step %d of a behaviour of GPipeline never completes in the real pipeline (all goroutines parked: %v), reproducibly: NoDeadlock violated", v.steps+1, v.hang.Signature),
					map[string]any{"kind": "gated", "behaviour": gc, "cap": gcf.mcap, "step": v.steps + 1})
				continue
			}
			c.AddTraces(1)
			if v.abandoned {
				ev = newEvaler()
				c.Inc("g_abandoned_after_divergence", 1)
			}
			if v.diverged {
				diverged++
				continue
			}
			if v.mismatch != "" {
				key := "gated:mismatch"
				if strings.HasPrefix(v.mismatch, "exception structure") {
					key = "gated:end-structure"
				}
				c.Reject(key, "gated replay of a TLC behaviour: "+v.mismatch, map[string]any{"kind": "gated", "behaviour": gc, "cap": gcf.mcap})
				continue
			}
			for _, st := range gc.Steps {
				if st.Early {
					early++
				}
			}
			if len(gc.Steps) > len(gc.Scripts) {
				c.Distinct(gc.Steps)
			}
			_ = blockedSteps
		}
		c.Inc("g_behaviours", int64(len(cases)))
		c.Inc("g_diverged_at_select_race", int64(diverged))
		c.Inc("g_steps_entered_while_blocked", int64(early))
		c.Set("g_exhaustive "+name, gcf.sim == 0)
	}
	return nil
}

// raceObserver (thorough): the same free-running pipelines under a -race build of this executor. A report
// of the race detector is no verdict about C18 (it is evidence for C39): it is exit 2 with the report.
func raceObserver(c *lib.Ctx) error {
	tmp, err := os.MkdirTemp("", "c18race-")
	if err != nil {
		return lib.Infra("%v", err)
	}
	defer os.RemoveAll(tmp)
	sum := md5.Sum([]byte(c.Repo + "\n"))
	modfile := filepath.Join(c.Root, ".build", hex.EncodeToString(sum[:])[:8], "go.mod")
	bin := filepath.Join(tmp, "c18race")
	ctx, cancel := context.WithTimeout(context.Background(), 12*time.Minute)
	defer cancel()
	build := exec.CommandContext(ctx, "go", "build", "-race", "-tags", "verif", "-modfile="+modfile, "-o", bin, "./checks/c18")
	build.Dir = filepath.Join(c.Root, "harness")
	if out, err := build.CombinedOutput(); err != nil {
		return lib.Infra("race build failed: %v\n%s", err, out)
	}
	n := 150
	child := exec.CommandContext(ctx, bin, "quick")
	child.Env = append(os.Environ(), "C18_RACE_CHILD="+strconv.Itoa(n), "VERIF_ROOT="+tmp, "GORACE=halt_on_error=0")
	out, err := child.CombinedOutput()
	if strings.Contains(string(out), "WARNING: DATA RACE") {
		i := strings.Index(string(out), "WARNING: DATA RACE")
		rep := string(out)[i:]
		if len(rep) > 6000 {
			rep = rep[:6000]
		}
		return lib.Infra("the race detector reported a data race while %d free-running pipelines ran (no verdict for C18):\n%s", n, rep)
	}
	if err != nil {
		return lib.Infra("race child failed: %v\n%s", err, tail(string(out), 2000))
	}
	c.Set("pipelines_under_race_detector", n)
	return nil
}

func tail(s string, n int) string {
	if len(s) > n {
		return s[len(s)-n:]
	}
	return s
}

func raceChild(c *lib.Ctx, n int) error {
	ev := newEvaler()
	wd := watchdog{idle: 60 * time.Second, giveUp: 5 * time.Minute}
	rng := rand.New(rand.NewSource(c.Seed + 77))
	for i := 0; i < n; i++ {
		pr := genPipeline(rng, 100+i, genCfg{maxStages: 6, pBig: 0.35, pBuiltin: 0.15})
		res := runPipeline(ev, pr, wd)
		if res.infra != nil || res.hang != nil {
			return lib.Infra("race child: pipeline %q: %v %v", pr.code(), res.infra, res.hang)
		}
	}
	return nil
}

// unfinished lists the harness stages whose command has not returned in the recorded events.
func unfinished(evs []event, n int) []int {
	ended := make([]bool, n+1)
	for _, e := range evs {
		if e.Ev == "End" && (e.K == "exit" || e.R == "gone") {
			ended[e.S] = true
		}
		if e.Ev == "Reset" {
			for s, l := range e.Logged {
				if !l {
					ended[s+1] = true
				}
			}
		}
	}
	var out []int
	for s := 1; s <= n; s++ {
		if !ended[s] {
			out = append(out, s)
		}
	}
	return out
}

func replay(c *lib.Ctx) error {
	b, err := os.ReadFile(c.Replay)
	if err != nil {
		return lib.Infra("%v", err)
	}
	var f struct {
		Case replayCase `json:"case"`
	}
	if err := json.Unmarshal(b, &f); err != nil {
		return lib.Infra("%v", err)
	}
	var gk struct {
		Case struct {
			Kind      string `json:"kind"`
			Behaviour *gcase `json:"behaviour"`
			Cap       int    `json:"cap"`
		} `json:"case"`
	}
	if json.Unmarshal(b, &gk) == nil && gk.Case.Kind == "gated" {
		wd := watchdog{idle: 20 * time.Second, giveUp: 3 * time.Minute}
		ev := newEvaler()
		probe := &pipeRun{ID: 1, Scripts: [][]op{{{K: "putv", V: 1}, {K: "ok"}}, {{K: "getv"}, {K: "ok"}}}, Logged: []bool{true, true}, Words: []string{"", ""}, LineLen: 100, Yield: []int64{1, 2}}
		if pres := runPipeline(ev, probe, wd); pres.infra != nil || pres.hang != nil || len(probe.caps) != 1 {
			return lib.Infra("probe pipeline failed")
		}
		v := replayBehaviour(ev, 9, gk.Case.Behaviour, gk.Case.Cap, probe.caps[0], wd)
		switch {
		case v.infra != nil:
			return lib.Infra("%v", v.infra)
		case v.hang != nil && v.hang.Settled:
			c.Reject("gated:hang", fmt.Sprintf("step %d never completes", v.steps+1), gk.Case)
		case v.hang != nil:
			return lib.Infra("no completion at step %d, goroutines not parked", v.steps+1)
		case v.mismatch != "":
			c.Reject("gated:mismatch", v.mismatch, gk.Case)
		}
		return nil
	}
	rc := f.Case
	wd := watchdog{idle: 20 * time.Second, giveUp: 3 * time.Minute}
	switch rc.Kind {
	case "hang":
		rc.Pipe.ID = 7
		res := runPipeline(newEvaler(), rc.Pipe, wd)
		if res.infra != nil {
			return lib.Infra("%v", res.infra)
		}
		if res.hang != nil {
			return handleHang(c, nil, rc.Pipe, res, wd, rc.Cap)
		}
		v, err := validate(c, "TracePipeline(replay)", res.evs, rc.Cap, 20*time.Minute)
		if err != nil {
			return err
		}
		if !v.Accepted {
			rejectTrace(c, "re-run pipeline", rc.Pipe, res.evs, rc.Cap, v)
		}
	default:
		v, err := validate(c, "TracePipeline(replay)", rc.Events, rc.Cap, 20*time.Minute)
		if err != nil {
			return err
		}
		if !v.Accepted {
			rejectTrace(c, "stored trace", rc.Pipe, rc.Events, rc.Cap, v)
		}
	}
	return nil
}
