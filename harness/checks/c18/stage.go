package main

// The binding to the real code: harness stage commands registered on a real Evaler, composed with real
// Elvish pipeline syntax, one global tracer, and the projection of what the evaluation returned.
//
//   concretise: script operation -> call of the real API (fm.ValueOutput().Put, fm.ByteOutput().WriteString,
//               <-fm.InputChan(), reading fm.InputFile(), fm.IterateInputs); value label -> Go int;
//               line label -> "%07d" + padding + "\n" (<= 4096 bytes, so one write is atomic on a pipe)
//   project   : received value/line -> label; error of Put/WriteString -> "ok" | "gone";
//               error returned by Eval -> list of (stage, kind) + number of entries of a PipelineError;
//               captured output -> labels

import (
	"bufio"
	"errors"
	"fmt"
	"io"
	"math/rand"
	"reflect"
	"runtime"
	"strconv"
	"strings"
	"sync"
	"sync/atomic"
	"time"
	"unsafe"

	"src.elv.sh/pkg/eval"
	"src.elv.sh/pkg/eval/errs"
	"src.elv.sh/pkg/parse"
	"verif.local/harness/elv"
)

type op struct {
	K string `json:"k"` // putv putb getv getb drain fwd ok throw
	V int    `json:"v"`
	N int    `json:"n"`
	M string `json:"m"` // fwd: all | take | drop
}

type resItem struct {
	S int    `json:"s"`
	E string `json:"e"`
}

type event struct {
	Ev      string     `json:"ev"`
	S       int        `json:"s"`
	K       string     `json:"k"`
	V       int        `json:"v"`
	R       string     `json:"r"`
	G       string     `json:"g"` // readerGone flag observed after a failed write: t | f | u
	Scripts [][]op     `json:"scripts,omitempty"`
	Logged  []bool     `json:"logged,omitempty"`
	Res     *[]resItem `json:"res,omitempty"`
	Nexc    int        `json:"nexc"`
	OutV    *[]int     `json:"outv,omitempty"`
	OutB    *[]int     `json:"outb,omitempty"`
}

type tracer struct {
	mu  sync.Mutex
	evs []event
	n   atomic.Int64
}

func (t *tracer) log(e event) {
	t.mu.Lock()
	t.evs = append(t.evs, e)
	t.mu.Unlock()
	t.n.Add(1)
}

func (t *tracer) snapshot() []event {
	t.mu.Lock()
	defer t.mu.Unlock()
	return append([]event{}, t.evs...)
}

// pipeRun is one pipeline: the scripts of its stages, how each stage is realised, and its trace.
type pipeRun struct {
	ID      int      `json:"id"`
	Scripts [][]op   `json:"scripts"`
	Logged  []bool   `json:"logged"`
	Words   []string `json:"words"` // Elvish text of the builtin stages ("" for harness stages)
	LineLen int      `json:"linelen"`
	Procs   int      `json:"procs"`
	Yield   []int64  `json:"yield"`
	tr      *tracer
	caps    []int // measured cap(fm.Port(1).Chan) per harness stage with a piped output
	capMu   sync.Mutex
}

var registry sync.Map // id -> *pipeRun

type stageErr struct{ s int }

func (e stageErr) Error() string { return "vp-throw-" + strconv.Itoa(e.s) }

// A line's content is "%07d:%07d:" (label, declared content length) padded with 'x' to the declared length, so
// that the projection checks the IDENTITY of the content (label, length, every byte) without logging the bytes.
func lineContent(v, n int) string {
	if n < 16 {
		n = 16
	}
	return fmt.Sprintf("%07d:%07d:", v, n) + strings.Repeat("x", n-16)
}

// mkLine: a line of n bytes in total, ending in "\n".
func mkLine(v, n int) string { return lineContent(v, n-1) + "\n" }

// opLine concretises a putb operation: N = content length (0: the pipeline's default), M = line ending
// ("" = "\n", "rn" = "\r\n", "none" = unterminated: only as a stage's last write, "empty" = the empty line, label 0).
func opLine(o op, def int) string {
	if o.M == "empty" {
		return "\n"
	}
	n := o.N
	if n == 0 {
		n = def - 1
	}
	switch o.M {
	case "rn":
		return lineContent(o.V, n) + "\r\n"
	case "none":
		return lineContent(o.V, n)
	}
	return lineContent(o.V, n) + "\n"
}

// lineLabel projects a received line (with or without its ending) to its label; -1 if the content is not
// exactly what some putb wrote (truncated, merged, torn); the empty line is label 0.
func lineLabel(s string) int {
	s = strings.TrimSuffix(s, "\n")
	s = strings.TrimSuffix(s, "\r")
	if s == "" {
		return 0
	}
	if len(s) < 16 || s[7] != ':' || s[15] != ':' {
		return -1
	}
	v, err1 := strconv.Atoi(s[:7])
	n, err2 := strconv.Atoi(s[8:15])
	if err1 != nil || err2 != nil || n != len(s) || strings.Trim(s[16:], "x") != "" {
		return -1
	}
	return v
}

func valueLabel(v any) int {
	switch v := v.(type) {
	case int:
		return v
	case string:
		if n, err := strconv.Atoi(v); err == nil {
			return n
		}
		if n := lineLabel(v); n >= 0 {
			return n // a line forwarded as a string value by a builtin filter
		}
	}
	return -2
}

// readerGoneFlag projects the unexported Port.readerGone (*atomic.Bool) of an output port: "t" | "f", or
// "u" when the field does not exist in this shape (then the specification does not constrain it).
func readerGoneFlag(p *eval.Port) string {
	if p == nil {
		return "u"
	}
	v := reflect.ValueOf(p).Elem().FieldByName("readerGone")
	if !v.IsValid() || v.Kind() != reflect.Pointer || v.IsNil() || v.Type().Elem() != reflect.TypeOf(atomic.Bool{}) {
		return "u"
	}
	if (*atomic.Bool)(unsafe.Pointer(v.Pointer())).Load() {
		return "t"
	}
	return "f"
}

func outcome(err error) string {
	if err == nil {
		return "ok"
	}
	if _, ok := err.(errs.ReaderGone); ok {
		return "gone"
	}
	return "err:" + err.Error()
}

// stageCmd is the Elvish command  vp:stage <pipeline id> <stage>  : it interprets the stage's script on
// the frame of the real pipeline stage and logs every operation.
func stageCmd(fm *eval.Frame, id, s int) error {
	x, ok := registry.Load(id)
	if !ok {
		return fmt.Errorf("vp:stage: unknown pipeline %d", id)
	}
	pr := x.(*pipeRun)
	sc := pr.Scripts[s-1]
	tr := pr.tr
	rng := rand.New(rand.NewSource(pr.Yield[s-1]))
	if s < len(pr.Scripts) {
		pr.capMu.Lock()
		pr.caps = append(pr.caps, cap(fm.Port(1).Chan))
		pr.capMu.Unlock()
	}
	yield := func() {
		switch rng.Intn(8) {
		case 0, 1:
			runtime.Gosched()
		case 2:
			time.Sleep(time.Duration(rng.Intn(150)) * time.Microsecond)
		}
	}
	var br *bufio.Reader
	pc := 0
	for {
		o := sc[pc]
		yield()
		switch o.K {
		case "putv":
			tr.log(event{Ev: "Start", S: s, K: "putv", V: o.V})
			err := fm.ValueOutput().Put(o.V)
			r := outcome(err)
			tr.log(event{Ev: "End", S: s, K: "putv", V: o.V, R: r})
			if err != nil {
				return err
			}
			pc++
		case "putb":
			line := opLine(o, pr.LineLen)
			tr.log(event{Ev: "Start", S: s, K: "putb", V: o.V})
			_, err := fm.ByteOutput().WriteString(line)
			r := outcome(err)
			g := "u"
			if r == "gone" {
				g = readerGoneFlag(fm.Port(1))
			}
			tr.log(event{Ev: "End", S: s, K: "putb", V: o.V, R: r, G: g})
			if err != nil {
				return err
			}
			pc++
		case "getv":
			v, ok := <-fm.InputChan()
			if ok {
				tr.log(event{Ev: "End", S: s, K: "getv", V: valueLabel(v), R: "ok"})
				pc++
			} else {
				tr.log(event{Ev: "End", S: s, K: "getv", V: 0, R: "closed"})
				pc = len(sc) - 1
			}
		case "getb":
			if br == nil {
				br = bufio.NewReaderSize(fm.InputFile(), 4096)
			}
			line, err := br.ReadString('\n')
			if line != "" {
				tr.log(event{Ev: "End", S: s, K: "getb", V: lineLabel(line), R: "ok"})
				pc++
			} else if err == io.EOF {
				tr.log(event{Ev: "End", S: s, K: "getb", V: 0, R: "closed"})
				pc = len(sc) - 1
			} else {
				tr.log(event{Ev: "End", S: s, K: "getb", V: 0, R: "err:" + fmt.Sprint(err)})
				return err
			}
		case "drain":
			fm.IterateInputs(func(v any) {
				if str, ok := v.(string); ok {
					tr.log(event{Ev: "End", S: s, K: "item", V: lineLabel(str), R: "b"})
				} else {
					tr.log(event{Ev: "End", S: s, K: "item", V: valueLabel(v), R: "v"})
				}
				yield()
			})
			tr.log(event{Ev: "End", S: s, K: "drainend", V: 0, R: "ok"})
			pc++
		case "ok":
			tr.log(event{Ev: "End", S: s, K: "exit", V: 0, R: "none"})
			return nil
		case "throw":
			tr.log(event{Ev: "End", S: s, K: "exit", V: 0, R: "thrown"})
			return stageErr{s}
		default:
			return fmt.Errorf("vp:stage: operation %q is not executable by a harness stage", o.K)
		}
	}
}

func newEvaler() *eval.Evaler {
	ev := elv.New()
	ns := eval.BuildNsNamed("vp").AddGoFns(map[string]any{"stage": stageCmd, "gstage": gstageCmd}).Ns()
	ev.ExtendGlobal(eval.BuildNs().AddNs("vp", ns))
	return ev
}

// code renders the pipeline in real Elvish syntax.
func (pr *pipeRun) code() string {
	var parts []string
	for i := range pr.Scripts {
		if pr.Logged[i] {
			parts = append(parts, fmt.Sprintf("vp:stage %d %d", pr.ID, i+1))
		} else {
			parts = append(parts, pr.Words[i])
		}
	}
	return strings.Join(parts, " | ")
}

func errKind(e error) (string, int) {
	switch e := e.(type) {
	case stageErr:
		return "thrown", e.s
	case errs.ReaderGone:
		return "readergone", 0
	}
	return "other:" + e.Error(), 0
}

// projectErr projects the error returned by Eval: the non-OK exceptions as (stage, kind), in order, and
// the number of entries of the PipelineError (0 when the error is a single exception or nil).
func projectErr(err error) ([]resItem, int, error) {
	res := []resItem{}
	if err == nil {
		return res, 0, nil
	}
	var exc eval.Exception
	if !errors.As(err, &exc) {
		return nil, 0, fmt.Errorf("Eval returned a non-exception error: %v", err)
	}
	if pe, ok := exc.Reason().(eval.PipelineError); ok {
		for i, e := range pe.Errors {
			if e.Reason() == nil {
				continue
			}
			k, id := errKind(e.Reason())
			s := i + 1
			if k == "thrown" && id != s {
				s = 1000 + id // an exception reported under another stage's index
			}
			res = append(res, resItem{s, k})
		}
		return res, len(pe.Errors), nil
	}
	k, id := errKind(exc.Reason())
	return append(res, resItem{id, k}), 0, nil
}

type runResult struct {
	evs   []event
	hang  *hangInfo
	infra error
}

// runPipeline evaluates the pipeline on a real Evaler and returns the recorded events.
func runPipeline(ev *eval.Evaler, pr *pipeRun, wd watchdog) runResult {
	pr.tr = &tracer{}
	registry.Store(pr.ID, pr)
	defer registry.Delete(pr.ID)
	if pr.Procs > 0 {
		runtime.GOMAXPROCS(pr.Procs)
	}
	pr.tr.log(event{Ev: "Reset", Scripts: pr.Scripts, Logged: pr.Logged})
	port, collect, err := eval.CapturePort()
	if err != nil {
		return runResult{infra: err}
	}
	done := make(chan evalRes, 1)
	go func() {
		var r evalRes
		defer func() {
			if p := recover(); p != nil {
				r.pan = fmt.Sprint(p)
			}
			done <- r
		}()
		r.err = ev.Eval(parse.Source{Name: "[c18]", Code: pr.code()}, eval.EvalCfg{Ports: []*eval.Port{nil, port, nil}})
	}()
	r, hang := wd.await(pr, done)
	if hang != nil {
		return runResult{evs: pr.tr.snapshot(), hang: hang}
	}
	if r.pan != "" {
		return runResult{infra: fmt.Errorf("evaluation of %q panicked: %s", pr.code(), r.pan)}
	}
	if elv.ErrClass(r.err) == "parse" || elv.ErrClass(r.err) == "compile" {
		return runResult{infra: fmt.Errorf("generated pipeline %q does not compile: %v", pr.code(), r.err)}
	}
	vs, bs := collect()
	outv := []int{}
	for _, v := range vs {
		outv = append(outv, valueLabel(v))
	}
	outb := []int{}
	if len(bs) > 0 {
		for _, ln := range strings.SplitAfter(string(bs), "\n") {
			if ln != "" {
				outb = append(outb, lineLabel(ln))
			}
		}
	}
	res, nexc, perr := projectErr(r.err)
	if perr != nil {
		return runResult{infra: perr}
	}
	pr.tr.log(event{Ev: "PipelineEnd", Res: &res, Nexc: nexc, OutV: &outv, OutB: &outb})
	return runResult{evs: pr.tr.snapshot()}
}
