package main

// Watchdog. Timing never decides a verdict: an evaluation that makes no trace progress for `idle` is only
// reported as hung when two goroutine dumps taken a second apart both show EVERY goroutine of the evaluator
// parked in a channel / pipe / WaitGroup operation (no goroutine runnable or running) and the trace did not
// move in between; the caller then re-runs the same pipeline and requires the same picture again before
// it turns the hang into a NoDeadlock rejection. Anything else is an infrastructure problem (exit 2).

import (
	"regexp"
	"runtime"
	"sort"
	"strings"
	"time"
)

type evalRes struct {
	err error
	pan string
}

type watchdog struct {
	idle   time.Duration // no trace progress for this long -> look at the goroutines
	giveUp time.Duration // no settled picture after this long -> infrastructure problem
}

type hangInfo struct {
	Settled   bool     `json:"settled"`
	Signature []string `json:"signature"` // sorted "state@function" of the evaluator's goroutines
	Dump      string   `json:"dump"`
}

var reGoroutine = regexp.MustCompile(`^goroutine \d+ \[([^\],]+)`)

var parkedStates = map[string]bool{
	"chan receive": true, "chan send": true, "select": true, "IO wait": true, "semacquire": true,
	"sync.WaitGroup.Wait": true, "sync.Cond.Wait": true, "chan receive (nil chan)": true,
	"chan send (nil chan)": true, "select (no cases)": true,
}

// evalGoroutines returns "state@top function" for every goroutine that runs evaluator code, and whether
// all of them are parked.
func evalGoroutines() (sig []string, allParked bool, dump string) {
	buf := make([]byte, 1<<20)
	for {
		n := runtime.Stack(buf, true)
		if n < len(buf) {
			buf = buf[:n]
			break
		}
		buf = make([]byte, 2*len(buf))
	}
	dump = string(buf)
	allParked = true
	for _, g := range strings.Split(dump, "\n\n") {
		if !strings.Contains(g, "src.elv.sh/pkg/eval") {
			continue
		}
		if strings.Contains(g, "eval.getBlackholeChan") || strings.Contains(g, "main.evalGoroutines") {
			continue
		}
		lines := strings.Split(g, "\n")
		m := reGoroutine.FindStringSubmatch(lines[0])
		if m == nil {
			continue
		}
		state := m[1]
		fn := ""
		for _, l := range lines[1:] {
			if strings.HasPrefix(l, "\t") || l == "" {
				continue
			}
			if strings.HasPrefix(l, "src.elv.sh/pkg/eval") || strings.HasPrefix(l, "main.") {
				fn = l
				if i := strings.LastIndex(fn, "("); i > 0 {
					fn = fn[:i]
				}
				break
			}
		}
		sig = append(sig, state+"@"+fn)
		if !parkedStates[state] {
			allParked = false
		}
	}
	sort.Strings(sig)
	return sig, allParked && len(sig) > 0, dump
}

func sameSig(a, b []string) bool {
	if len(a) != len(b) {
		return false
	}
	for i := range a {
		if a[i] != b[i] {
			return false
		}
	}
	return true
}

// await waits for the evaluation; it returns a hangInfo instead when the evaluation stopped making progress.
func (w watchdog) await(pr *pipeRun, done chan evalRes) (evalRes, *hangInfo) {
	return awaitOn(w, done, pr.tr.n.Load)
}

// awaitOn waits for a value on ch; progress() is a counter that moves while the evaluation is alive.
func awaitOn[T any](w watchdog, ch <-chan T, progress func() int64) (T, *hangInfo) {
	var zero T
	last := progress()
	lastChange := time.Now()
	tick := time.NewTicker(200 * time.Millisecond)
	defer tick.Stop()
	for {
		select {
		case r := <-ch:
			return r, nil
		case <-tick.C:
		}
		if n := progress(); n != last {
			last, lastChange = n, time.Now()
			continue
		}
		if time.Since(lastChange) < w.idle {
			continue
		}
		sig1, parked1, _ := evalGoroutines()
		if parked1 {
			select {
			case r := <-ch:
				return r, nil
			case <-time.After(time.Second):
			}
			sig2, parked2, dump := evalGoroutines()
			if parked2 && sameSig(sig1, sig2) && progress() == last {
				return zero, &hangInfo{Settled: true, Signature: sig2, Dump: dump}
			}
		}
		if time.Since(lastChange) > w.giveUp {
			sig, _, dump := evalGoroutines()
			return zero, &hangInfo{Settled: false, Signature: sig, Dump: dump}
		}
	}
}
