package main

// G: behaviours enumerated by TLC from GPipeline.tla are replayed on the real evaluator. Stages are the
// harness command  vp:gstage <id> <stage>  composed with real pipeline syntax; the command blocks on a gate
// before each channel / pipe operation and reports its completion. The executor opens the gates in the
// order of the TLC behaviour and compares every completion with the outcome the specification prescribes.
//
//   concretise: one model value  = a burst of cap(channel)/Cap real values  (v*100+j), so the model's full
//               channel is the real full channel; one model line = a burst of (pipe size / 4096) lines of
//               exactly 4096 bytes, so the model's full pipe is the real full pipe;
//               a step marked `early` is entered before the step that enables it (it really blocks);
//               after a stage's form returned the executor waits until it OBSERVES (poll: POLLERR on the
//               upstream write end) that the stage's exit reached the close of its input pipe, which in the
//               code's order is after sendError/sendStop/readerGone;
//   project   : results of Put/WriteString -> ok|gone, received values/lines -> labels, closed/EOF,
//               error of Eval and captured output as in stage.go.

import (
	"bufio"
	"fmt"
	"io"
	"os"
	"strings"
	"sync"
	"syscall"
	"time"

	"golang.org/x/sys/unix"
	"src.elv.sh/pkg/eval"
	"src.elv.sh/pkg/parse"
)

type gstep struct {
	S     int    `json:"s"`
	Pc    int    `json:"pc"`
	K     string `json:"k"`
	V     int    `json:"v"`
	R     string `json:"r"`
	Rg    string `json:"rg"`
	Det   bool   `json:"det"`
	Early bool   `json:"early"`
}

type gcase struct {
	Scripts [][]op    `json:"scripts"`
	Steps   []gstep   `json:"steps"`
	Res     []resItem `json:"res"`
	OutV    []int     `json:"outv"`
	OutB    []int     `json:"outb"`
}

type gdone struct {
	s, pc int
	k, r  string
	rg    string
	vals  []int
	n     int // operations of the burst that completed
}

type grun struct {
	id       int
	scripts  [][]op
	burst    int
	gate     [][]chan struct{}
	opened   [][]bool
	done     chan gdone
	started  chan int
	mu       sync.Mutex
	out      []*os.File // write end of each stage's output pipe (nil for the last stage)
	pages    []int      // capacity of that pipe in 4096-byte lines
	progress *tracer
}

var gregistry sync.Map

const lastStagePages = 16

func pipePages(f *os.File) int {
	rc, err := f.SyscallConn()
	if err != nil {
		return 0
	}
	sz := 0
	rc.Control(func(fd uintptr) {
		n, err := unix.FcntlInt(fd, unix.F_GETPIPE_SZ, 0)
		if err == nil {
			sz = n
		}
	})
	return sz / 4096
}

// readEndClosed observes, without touching the data, whether the read end of the pipe behind f is closed.
func readEndClosed(f *os.File) (closed bool, fileGone bool) {
	rc, err := f.SyscallConn()
	if err != nil {
		return false, true
	}
	cerr := rc.Control(func(fd uintptr) {
		fds := []unix.PollFd{{Fd: int32(fd), Events: unix.POLLOUT}}
		for {
			_, err := unix.Poll(fds, 0)
			if err == syscall.EINTR {
				continue
			}
			break
		}
		closed = fds[0].Revents&unix.POLLERR != 0
	})
	if cerr != nil {
		return false, true
	}
	return closed, false
}

func (g *grun) report(d gdone) { g.done <- d }

func gstageCmd(fm *eval.Frame, id, s int) error {
	x, ok := gregistry.Load(id)
	if !ok {
		return fmt.Errorf("vp:gstage: unknown run %d", id)
	}
	g := x.(*grun)
	sc := g.scripts[s-1]
	n := len(g.scripts)
	g.mu.Lock()
	if s < n {
		g.out[s-1] = fm.Port(1).File
		g.pages[s-1] = pipePages(fm.Port(1).File)
	} else {
		g.pages[s-1] = lastStagePages
	}
	g.mu.Unlock()
	g.started <- s
	var br *bufio.Reader
	pc := 0
	for {
		o := sc[pc]
		<-g.gate[s-1][pc]
		switch o.K {
		case "putv":
			j := 0
			var err error
			for ; j < g.burst; j++ {
				if err = fm.ValueOutput().Put(o.V*100 + j); err != nil {
					break
				}
			}
			g.report(gdone{s: s, pc: pc, k: "putv", r: outcome(err), n: j})
			if err != nil {
				return err
			}
			pc++
		case "putb":
			g.mu.Lock()
			p := g.pages[s-1]
			g.mu.Unlock()
			j := 0
			var err error
			for ; j < p; j++ {
				if _, err = fm.ByteOutput().WriteString(mkLine(o.V*100+j, 4096)); err != nil {
					break
				}
			}
			rg := "u"
			if outcome(err) == "gone" {
				rg = readerGoneFlag(fm.Port(1))
			}
			g.report(gdone{s: s, pc: pc, k: "putb", r: outcome(err), n: j, rg: rg})
			if err != nil {
				return err
			}
			pc++
		case "getv":
			var vals []int
			closed := false
			for j := 0; j < g.burst; j++ {
				v, ok := <-fm.InputChan()
				if !ok {
					closed = true
					break
				}
				vals = append(vals, valueLabel(v))
			}
			if closed {
				g.report(gdone{s: s, pc: pc, k: "getv", r: "closed", vals: vals, n: len(vals)})
				pc = len(sc) - 1
			} else {
				g.report(gdone{s: s, pc: pc, k: "getv", r: "ok", vals: vals, n: len(vals)})
				pc++
			}
		case "getb":
			if br == nil {
				br = bufio.NewReaderSize(fm.InputFile(), 4096)
			}
			p := lastStagePages
			if s > 1 {
				g.mu.Lock()
				p = g.pages[s-2]
				g.mu.Unlock()
			}
			var vals []int
			r := "ok"
			for j := 0; j < p; j++ {
				line, err := br.ReadString('\n')
				if line != "" {
					vals = append(vals, lineLabel(line))
					continue
				}
				if err == io.EOF {
					r = "closed"
				} else {
					r = "err:" + fmt.Sprint(err)
				}
				break
			}
			g.report(gdone{s: s, pc: pc, k: "getb", r: r, vals: vals, n: len(vals)})
			if r == "ok" {
				pc++
			} else if r == "closed" {
				pc = len(sc) - 1
			} else {
				return fmt.Errorf("read: %s", r)
			}
		case "ok":
			g.report(gdone{s: s, pc: pc, k: "exit", r: "none"})
			return nil
		case "throw":
			g.report(gdone{s: s, pc: pc, k: "exit", r: "thrown"})
			return stageErr{s}
		default:
			return fmt.Errorf("vp:gstage: operation %q cannot be gated", o.K)
		}
	}
}

func (g *grun) open(s, pc int) {
	if !g.opened[s-1][pc] {
		g.opened[s-1][pc] = true
		close(g.gate[s-1][pc])
	}
}

func (g *grun) openAll() {
	for s := range g.gate {
		for pc := range g.gate[s] {
			g.open(s+1, pc)
		}
	}
}

type gverdict struct {
	mismatch  string // non-empty: the real code did something the behaviour does not prescribe
	diverged  bool   // the Go runtime took the other arm of a ready select at a step marked det = FALSE
	hang      *hangInfo
	infra     error
	steps     int
	abandoned bool // after a mismatch/divergence the free-running remainder did not finish
}

// replayBehaviour drives one real pipeline through the schedule of one TLC behaviour.
func replayBehaviour(ev *eval.Evaler, id int, gc *gcase, modelCap, realCapacity int, wd watchdog) gverdict {
	n := len(gc.Scripts)
	g := &grun{id: id, scripts: gc.Scripts, burst: realCapacity / modelCap, done: make(chan gdone, 64), started: make(chan int, n),
		out: make([]*os.File, n), pages: make([]int, n), progress: &tracer{}}
	for _, sc := range gc.Scripts {
		gs := make([]chan struct{}, len(sc))
		for i := range gs {
			gs[i] = make(chan struct{})
		}
		g.gate = append(g.gate, gs)
		g.opened = append(g.opened, make([]bool, len(sc)))
	}
	gregistry.Store(id, g)
	defer gregistry.Delete(id)
	var words []string
	for s := 1; s <= n; s++ {
		words = append(words, fmt.Sprintf("vp:gstage %d %d", id, s))
	}
	port, collect, err := eval.CapturePort()
	if err != nil {
		return gverdict{infra: err}
	}
	evalDone := make(chan evalRes, 1)
	go func() {
		var r evalRes
		defer func() {
			if p := recover(); p != nil {
				r.pan = fmt.Sprint(p)
			}
			evalDone <- r
		}()
		r.err = ev.Eval(parse.Source{Name: "[c18g]", Code: strings.Join(words, " | ")}, eval.EvalCfg{Ports: []*eval.Port{nil, port, nil}})
	}()
	fail := func(v gverdict) gverdict { // let the real pipeline run to its end, ignore what it does
		g.openAll()
		go func() {
			for range g.done {
			}
		}()
		if v.hang != nil {
			select { // the evaluation is parked for good: its goroutines are abandoned
			case <-evalDone:
				collect()
			case <-time.After(2 * time.Second):
			}
			return v
		}
		// let it finish; if the remainder parks for good as well, abandon it (no verdict from a free run)
		t0 := time.Now()
		parkedSince := 0
		for {
			select {
			case <-evalDone:
				collect()
				return v
			case <-time.After(time.Second):
			}
			if _, parked, _ := evalGoroutines(); parked {
				parkedSince++
			} else {
				parkedSince = 0
			}
			if parkedSince >= 5 || time.Since(t0) > wd.giveUp {
				v.abandoned = true
				return v
			}
		}
	}
	// every stage must have recorded its ports before the first gate opens
	for i := 0; i < n; i++ {
		select {
		case <-g.started:
		case r := <-evalDone:
			return gverdict{infra: fmt.Errorf("gated pipeline ended before its stages started: %v %s", r.err, r.pan)}
		case <-time.After(wd.giveUp):
			return fail(gverdict{infra: fmt.Errorf("gated stages did not start")})
		}
	}
	for s := 0; s < n-1; s++ {
		if g.pages[s] <= 0 {
			return fail(gverdict{infra: fmt.Errorf("cannot read the capacity of the pipe of stage %d", s+1)})
		}
	}
	// release points of early steps: right after the previous step of the same stage (or at the start)
	prev := map[int]int{}
	releaseAfter := map[int][]int{}
	for i, st := range gc.Steps {
		if st.Early {
			p, ok := prev[st.S]
			if !ok {
				p = -1
			}
			releaseAfter[p] = append(releaseAfter[p], i)
		}
		prev[st.S] = i
	}
	for _, i := range releaseAfter[-1] {
		g.open(gc.Steps[i].S, gc.Steps[i].Pc)
	}
	stash := map[[2]int]gdone{}
	exited := make([]bool, n+1)
	for i, st := range gc.Steps {
		if !st.Early {
			g.open(st.S, st.Pc)
		}
		// await the completion of this step; the completion of an early step that directly follows may overtake it
		var d gdone
		for {
			if x, ok := stash[[2]int{st.S, st.Pc}]; ok {
				d = x
				delete(stash, [2]int{st.S, st.Pc})
				break
			}
			got, hang := awaitOn(wd, g.done, g.progress.n.Load)
			if hang != nil {
				return fail(gverdict{hang: hang, steps: i})
			}
			if got.s == st.S && got.pc == st.Pc {
				d = got
				break
			}
			if i+1 < len(gc.Steps) && gc.Steps[i+1].Early && got.s == gc.Steps[i+1].S && got.pc == gc.Steps[i+1].Pc {
				stash[[2]int{got.s, got.pc}] = got
				continue
			}
			return fail(gverdict{steps: i, mismatch: fmt.Sprintf("step %d: stage %d completed operation %d (%s %s) while the behaviour is at stage %d operation %d (%s): completed although the specification leaves it blocked",
				i+1, got.s, got.pc+1, got.k, got.r, st.S, st.Pc+1, st.K)})
		}
		// compare with the prescribed outcome
		g.mu.Lock()
		want := g.burst
		switch st.K {
		case "putb":
			want = g.pages[st.S-1]
		case "getb":
			if st.S > 1 {
				want = g.pages[st.S-2]
			}
		case "exit":
			want = 0
		}
		g.mu.Unlock()
		ok := d.k == st.K && d.r == st.R
		if ok && st.R == "ok" {
			ok = d.n == want
			if st.K == "getv" || st.K == "getb" {
				for j, v := range d.vals {
					if v != st.V*100+j {
						ok = false
					}
				}
			}
		}
		if ok && (st.R == "gone" || st.R == "closed") {
			ok = d.n == 0
		}
		if ok && st.Rg != "u" && d.rg != "u" && d.rg != "" {
			ok = st.Rg == d.rg // the port's readerGone flag after a failed write
		}
		if !ok {
			if !st.Det && d.k == st.K && (d.r == "ok" || d.r == "gone") {
				return fail(gverdict{diverged: true, steps: i})
			}
			return fail(gverdict{steps: i, mismatch: fmt.Sprintf("step %d: stage %d operation %d: the specification prescribes %s %d -> %s, the real code did %s -> %s after %d of %d burst operations, values %v, readerGone %q (prescribed %q)",
				i+1, st.S, st.Pc+1, st.K, st.V, st.R, d.k, d.r, d.n, want, d.vals, d.rg, st.Rg)})
		}
		for _, j := range releaseAfter[i] {
			g.open(gc.Steps[j].S, gc.Steps[j].Pc)
		}
		if st.K == "exit" || st.R == "gone" {
			exited[st.S] = true
			// wait until the stage's exit is observed to have closed its input pipe (after sendStop in the code's order)
			if st.S > 1 && !exited[st.S-1] {
				g.mu.Lock()
				f := g.out[st.S-2]
				g.mu.Unlock()
				t0 := time.Now()
				for {
					closed, gone := readEndClosed(f)
					if closed || gone {
						break
					}
					if time.Since(t0) > wd.giveUp {
						return fail(gverdict{infra: fmt.Errorf("step %d: the read end of stage %d's input pipe was not observed closed after its form returned", i+1, st.S), steps: i})
					}
					time.Sleep(200 * time.Microsecond)
				}
			}
		}
	}
	// all stages have returned: Eval must return with the prescribed exception and output
	var r evalRes
	select {
	case r = <-evalDone:
	case <-time.After(wd.giveUp):
		sig, parked, dump := evalGoroutines()
		return gverdict{hang: &hangInfo{Settled: parked, Signature: sig, Dump: dump}, steps: len(gc.Steps)}
	}
	if r.pan != "" {
		return gverdict{infra: fmt.Errorf("gated pipeline panicked: %s", r.pan)}
	}
	vs, bs := collect()
	res, _, perr := projectErr(r.err)
	if perr != nil {
		return gverdict{infra: perr}
	}
	same := len(res) == len(gc.Res)
	for i := range res {
		if same && (res[i].E != gc.Res[i].E || (res[i].S != gc.Res[i].S && !(res[i].S == 0 && len(res) == 1))) {
			same = false
		}
	}
	if !same {
		return gverdict{steps: len(gc.Steps), mismatch: fmt.Sprintf("exception structure: the specification prescribes %v, Eval returned %v", gc.Res, res)}
	}
	var outv []int
	for _, v := range vs {
		outv = append(outv, valueLabel(v))
	}
	var wantv []int
	for _, v := range gc.OutV {
		for j := 0; j < g.burst; j++ {
			wantv = append(wantv, v*100+j)
		}
	}
	var outb, wantb []int
	for _, ln := range strings.SplitAfter(string(bs), "\n") {
		if ln != "" {
			outb = append(outb, lineLabel(ln))
		}
	}
	for _, v := range gc.OutB {
		for j := 0; j < lastStagePages; j++ {
			wantb = append(wantb, v*100+j)
		}
	}
	if fmt.Sprint(outv) != fmt.Sprint(wantv) || fmt.Sprint(outb) != fmt.Sprint(wantb) {
		return gverdict{steps: len(gc.Steps), mismatch: fmt.Sprintf("pipeline output: the specification prescribes values %v lines %v, captured %v / %v", wantv, wantb, outv, outb)}
	}
	return gverdict{steps: len(gc.Steps)}
}
