package main

// Random pipelines of 2..6 stages: producers, filters, early-exiting consumers, throwers, drainers, mixed
// with builtin stages (range, put, all, take, drop, each) whose behaviour is a script of Pipeline.tla.
// By construction no generated pipeline lets a consumer wait explicitly on one band while its producer
// can block on the other (CrossBandFree: that is C17's cross-band finding, outside C18): an explicit
// getv/getb is only generated when the upstream stage cannot over-fill the OTHER band (<= 32 values,
// <= 1 line of < 4096 bytes, which fits any pipe).

import (
	"fmt"
	"math/rand"
	"strings"
)

const realCap = 32 // only used to size payloads so that buffers fill; the check measures the real capacity

type genCfg struct {
	maxStages int
	pBig      float64 // probability that a producing stage over-fills the buffer of the band
	pBuiltin  float64
}

func genPipeline(rng *rand.Rand, id int, g genCfg) *pipeRun {
	n := 2 + rng.Intn(g.maxStages-1)
	pr := &pipeRun{ID: id, LineLen: 3300 + rng.Intn(700), Procs: []int{1, 2, 4, 8, 16}[rng.Intn(5)]}
	bigLines := 65536/pr.LineLen + 2
	overV, overB := false, false // can the previous stage block on the value / byte band?
	upV, upB := 0, 0             // upper bounds of what the previous stage writes
	for s := 1; s <= n; s++ {
		pr.Yield = append(pr.Yield, rng.Int63())
		base := s * 1000
		var sc []op
		word := ""
		logged := true
		big := func() bool { return rng.Float64() < g.pBig }
		if rng.Float64() < g.pBuiltin && (s == 1 || upB == 0) { // a builtin filter forwards lines as string VALUES, which a downstream IterateInputs callback cannot tell from lines
			logged = false
			if s == 1 {
				cnt := 1 + rng.Intn(5)
				if big() {
					cnt = realCap + 1 + rng.Intn(10)
				}
				if rng.Intn(2) == 0 {
					word = fmt.Sprintf("range %d %d", base, base+cnt)
				} else {
					var ws []string
					for i := 0; i < cnt; i++ {
						ws = append(ws, fmt.Sprintf("(num %d)", base+i))
					}
					word = "put " + strings.Join(ws, " ")
				}
				for i := 0; i < cnt; i++ {
					sc = append(sc, op{K: "putv", V: base + i})
				}
				sc = append(sc, op{K: "ok"})
				overV, overB, upV, upB = cnt > realCap, false, cnt, 0
			} else {
				k := rng.Intn(4)
				m := rng.Intn(upV + upB + 2)
				switch k {
				case 0:
					word, sc = "all", []op{{K: "fwd", M: "all"}}
				case 1:
					word, sc = fmt.Sprintf("take %d", m), []op{{K: "fwd", M: "take", N: m}}
				case 2:
					word, sc = fmt.Sprintf("drop %d", m), []op{{K: "fwd", M: "drop", N: m}}
				default:
					word, sc = "each {|x| put $x }", []op{{K: "fwd", M: "all"}}
				}
				sc = append(sc, op{K: "ok"})
				overV, overB, upV, upB = true, false, upV+upB, 0
			}
			pr.Scripts = append(pr.Scripts, sc)
			pr.Logged = append(pr.Logged, logged)
			pr.Words = append(pr.Words, word)
			continue
		}
		// ---- harness stage: input plan
		var gets []op
		drain := false
		mayV, mayB := !overB, !overV // explicit reads allowed on a band only if the other band cannot block the producer
		switch c := rng.Intn(10); {
		case s == 1 && c < 8, c == 0:
			// reads nothing
		case c < 4 && mayV:
			k := 1 + rng.Intn(4)
			if rng.Intn(2) == 0 {
				k = upV + 1 + rng.Intn(2) // reads the band to its end
			}
			for i := 0; i < k; i++ {
				gets = append(gets, op{K: "getv"})
			}
		case c < 6 && mayB:
			k := 1 + rng.Intn(3)
			if rng.Intn(2) == 0 {
				k = upB + 1 + rng.Intn(2)
			}
			for i := 0; i < k; i++ {
				gets = append(gets, op{K: "getb"})
			}
		case c < 7 && mayV && mayB:
			for i := 0; i < 1+rng.Intn(5); i++ {
				gets = append(gets, op{K: []string{"getv", "getb"}[rng.Intn(2)]})
			}
		case c < 9:
			drain = true
		}
		// ---- output plan
		var puts []op
		nv, nb := 0, 0
		switch c := rng.Intn(10); {
		case c < 1 || (s == n && c < 3):
		case c < 5:
			nv = 1 + rng.Intn(5)
			if big() {
				nv = realCap + 1 + rng.Intn(10)
			}
		case c < 7:
			nb = 1
			if big() {
				nb = bigLines + rng.Intn(3)
			}
		default:
			nv, nb = 1+rng.Intn(4), rng.Intn(2)
			if big() {
				nv, nb = realCap+1+rng.Intn(6), bigLines+rng.Intn(2)
			}
		}
		iv, ib := 0, 0
		for iv < nv || ib < nb {
			if ib >= nb || (iv < nv && rng.Intn(nv+nb) < nv) {
				puts = append(puts, op{K: "putv", V: base + iv})
				iv++
			} else {
				puts = append(puts, op{K: "putb", V: base + ib})
				ib++
			}
		}
		// ---- arrangement
		switch {
		case drain && rng.Intn(4) == 0:
			sc = append(append(sc, puts...), op{K: "drain"})
		case drain:
			sc = append(append(sc, op{K: "drain"}), puts...)
		default:
			switch rng.Intn(3) {
			case 0: // filter: alternate
				for len(gets) > 0 || len(puts) > 0 {
					if len(gets) > 0 {
						sc, gets = append(sc, gets[0]), gets[1:]
					}
					if len(puts) > 0 {
						sc, puts = append(sc, puts[0]), puts[1:]
					}
				}
			case 1:
				sc = append(append(sc, gets...), puts...)
			default:
				sc = append(append(sc, puts...), gets...)
			}
		}
		if rng.Intn(7) == 0 {
			sc = append(sc, op{K: "throw"})
		} else {
			sc = append(sc, op{K: "ok"})
		}
		pr.Scripts = append(pr.Scripts, sc)
		pr.Logged = append(pr.Logged, true)
		pr.Words = append(pr.Words, "")
		overV, overB, upV, upB = nv > realCap, nb > 1, nv, nb
	}
	return pr
}

// genChain: the reader-gone chain. A producer with far more values than the buffers hold | 1..3 middle stages
// that are themselves stopped by reader-gone WITHOUT draining their input (a forwarding filter that returns at
// its first failed Put, or a stage that only produces) | an early-exiting consumer. Every stopped stage has
// to pass the signal on to its own upstream, or the producer blocks forever on the full channel.
func genChain(rng *rand.Rand, id int) *pipeRun {
	mid := 1 + rng.Intn(3)
	n := mid + 2
	pr := &pipeRun{ID: id, LineLen: 3300 + rng.Intn(700), Procs: []int{1, 2, 4, 8, 16}[rng.Intn(5)]}
	for s := 1; s <= n; s++ {
		pr.Yield = append(pr.Yield, rng.Int63())
		base := s * 1000
		var sc []op
		switch {
		case s == 1:
			for i := 0; i < 2*realCap+12+rng.Intn(8); i++ {
				sc = append(sc, op{K: "putv", V: base + i})
			}
		case s == n:
			for i := 0; i < rng.Intn(3); i++ {
				sc = append(sc, op{K: "getv"})
			}
		case rng.Intn(3) == 0: // produces without reading its input
			for i := 0; i < realCap+3+rng.Intn(6); i++ {
				sc = append(sc, op{K: "putv", V: base + i})
			}
		default: // forwarding filter: reads a few, writes more than the buffer holds
			k := 2 + rng.Intn(6)
			for i := 0; i < realCap+3+rng.Intn(6); i++ {
				if i < k {
					sc = append(sc, op{K: "getv"})
				}
				sc = append(sc, op{K: "putv", V: base + i})
			}
		}
		if s == n && rng.Intn(4) == 0 {
			sc = append(sc, op{K: "throw"})
		} else {
			sc = append(sc, op{K: "ok"})
		}
		pr.Scripts = append(pr.Scripts, sc)
		pr.Logged = append(pr.Logged, true)
		pr.Words = append(pr.Words, "")
	}
	return pr
}

// genLong: byte payloads with SINGLE LINES far beyond a pipe buffer / bufio buffer (70 000 and 200 000 bytes)
// between short lines, with \r\n endings, an empty line and a final unterminated line, flowing into
// IterateInputs (harness drain; builtin each / all / take / drop as last stage) and into the harness' own
// line reader. The producer keeps more than a pipe buffer to write after the first long line.
func genLong(rng *rand.Rand, id int) *pipeRun {
	pr := &pipeRun{ID: id, LineLen: 3300 + rng.Intn(700), Procs: []int{1, 2, 4, 8, 16}[rng.Intn(5)]}
	var p []op
	lbl := 1000
	add := func(n int, m string) {
		lbl++
		if m == "empty" {
			p = append(p, op{K: "putb", V: 0, M: m})
			return
		}
		p = append(p, op{K: "putb", V: lbl, N: n, M: m})
	}
	add(16+rng.Intn(40), "")
	if rng.Intn(2) == 0 {
		add(16+rng.Intn(40), "rn")
	}
	add(65536+rng.Intn(9000), []string{"", "rn"}[rng.Intn(2)]) // >= 64 KiB in one line
	add(16+rng.Intn(3000), "")
	if rng.Intn(2) == 0 {
		add(0, "empty")
	}
	tail := rng.Intn(3) > 0 // FALSE: after the long line less than a pipe buffer follows (nothing can block: a lost line shows as loss)
	if tail {
		add(200000+rng.Intn(5000), "")
	}
	add(16+rng.Intn(100), "rn")
	if tail && rng.Intn(2) == 0 {
		add(65535, "") // content + newline = exactly 64 KiB
	}
	if rng.Intn(2) == 0 {
		add(16+rng.Intn(100), "none") // final line without a line ending
	}
	nlines := len(p)
	p = append(p, op{K: "ok"})
	pr.Scripts = [][]op{p}
	pr.Logged = []bool{true}
	pr.Words = []string{""}
	pr.Yield = []int64{rng.Int63()}
	addStage := func(sc []op, word string) {
		pr.Scripts = append(pr.Scripts, sc)
		pr.Logged = append(pr.Logged, word == "")
		pr.Words = append(pr.Words, word)
		pr.Yield = append(pr.Yield, rng.Int63())
	}
	exit := op{K: "ok"}
	switch rng.Intn(6) {
	case 0: // builtin consumers as last stage: IterateInputs + forward to the captured output
		m := rng.Intn(nlines + 1)
		switch rng.Intn(4) {
		case 0:
			addStage([]op{{K: "fwd", M: "all"}, exit}, "all")
		case 1:
			addStage([]op{{K: "fwd", M: "all"}, exit}, "each {|x| put $x }")
		case 2:
			addStage([]op{{K: "fwd", M: "take", N: m}, exit}, fmt.Sprintf("take %d", m))
		default:
			addStage([]op{{K: "fwd", M: "drop", N: m}, exit}, fmt.Sprintf("drop %d", m))
		}
	case 1: // the harness' own line reader, to the end
		var sc []op
		for i := 0; i < nlines+1; i++ {
			sc = append(sc, op{K: "getb"})
		}
		addStage(append(sc, exit), "")
	case 2: // the harness' own line reader, leaving early (the writer gets EPIPE inside or after a long line)
		var sc []op
		for i := 0; i < 1+rng.Intn(nlines-1); i++ {
			sc = append(sc, op{K: "getb"})
		}
		addStage(append(sc, exit), "")
	case 3: // IterateInputs, then a builtin behind it
		addStage([]op{{K: "drain"}, {K: "putv", V: 2000}, {K: "putv", V: 2001}, exit}, "")
		addStage([]op{{K: "fwd", M: "all"}, exit}, "all")
	default: // IterateInputs in a harness stage
		addStage([]op{{K: "drain"}, exit}, "")
	}
	return pr
}

func nOps(pr *pipeRun) int {
	n := 0
	for _, sc := range pr.Scripts {
		n += len(sc)
	}
	return n
}
