package main

import (
	"fmt"
	"strings"
	"time"

	"src.elv.sh/pkg/parse"
	"verif.local/harness/checks/c01/syn"
)

// Trace lines (see spec/ParseTree/TraceParseTree.tla). The walk uses only the public API:
// parse.Parse, parse.Children, Node.Range, parse.SourceText, parse.Parent, parse.UnpackErrors.

type evBegin struct {
	Ev    string `json:"ev"`
	I     int    `json:"i"`
	N     int    `json:"n"`
	Bytes bool   `json:"bytes"`
	Src   []int  `json:"src"`
}

type evNode struct {
	Ev      string `json:"ev"` // "enter" | "leaf"
	tokText string
	ID      int    `json:"id"`
	Par     int    `json:"par"`
	From    int    `json:"from"`
	To      int    `json:"to"`
	NC      int    `json:"nc"`
	Text    []int  `json:"text"` // bytes of SourceText(node) (sources up to shipBytesUpTo bytes)
	TL      int    `json:"-"`    // len(SourceText)
	Kind    string `json:"-"`    // Go type; coverage and finding keys only: not shipped to TLC
}

// evNodeLong is the node line of a long source: the byte comparison is evaluated here.
type evNodeLong struct {
	Ev   string `json:"ev"`
	ID   int    `json:"id"`
	Par  int    `json:"par"`
	From int    `json:"from"`
	To   int    `json:"to"`
	NC   int    `json:"nc"`
	Tok  bool   `json:"tok"` // primitive: SourceText(node) == src[from:to]
	TL   int    `json:"tl"`  // len(SourceText(node))
}

// line is what is shipped for a node.
func (e evNode) line(ship bool, src string) any {
	if ship {
		return e
	}
	tok := 0 <= e.From && e.From <= e.To && e.To <= len(src) && e.tokText == src[e.From:e.To]
	return evNodeLong{e.Ev, e.ID, e.Par, e.From, e.To, e.NC, tok, e.TL}
}

type evErr struct {
	Ev      string `json:"ev"`
	From    int    `json:"from"`
	To      int    `json:"to"`
	Partial bool   `json:"partial"`
}

type evTail struct {
	Ev string `json:"ev"`
	K  int    `json:"k"`
}

type evPlain struct {
	Ev   string `json:"ev"`
	What string `json:"what,omitempty"`
}

const shipBytesUpTo = 48 // sources up to this length travel as bytes and TLC compares the texts

func toInts(s string) []int {
	out := make([]int, len(s))
	for i := 0; i < len(s); i++ {
		out[i] = int(s[i])
	}
	return out
}

type walked struct {
	events  []any // without the begin line's index (filled by the batcher)
	crashed string
	hung    bool   // the watchdog expired
	skipped bool   // not parsed: inputs are no longer fed after the first non-terminations
	state   string // goroutine state at expiry
	nodes   int
	tail    bool
	nerrs   int
}

// parseAndWalk parses src with the real parser under recover and a watchdog and records the
// pre-order walk of the returned tree. On expiry of the watchdog w.hung is set (the goroutine
// keeps spinning: the caller must stop feeding inputs after a few of those).
func parseAndWalk(src string, watchdog time.Duration) walked {
	var w walked
	r := syn.Watch(watchdog, "walkTree", func() { w = walkTree(src) })
	switch {
	case !r.Finished:
		return walked{hung: true, crashed: fmt.Sprintf("non-termination: parse.Parse did not return within %s (goroutine state: %s)", watchdog, r.State), state: r.State}
	case r.Panic != "":
		return walked{crashed: r.Panic}
	}
	return w
}

func walkTree(src string) walked {
	var w walked
	ship := len(src) <= shipBytesUpTo
	tree, err := parse.Parse(parse.Source{Name: "[c01]", Code: src}, parse.Config{})
	ids := map[parse.Node]int{}
	var rec func(n parse.Node)
	rec = func(n parse.Node) {
		id := len(ids) + 1
		ids[n] = id
		par := 0
		if p := parse.Parent(n); p != nil {
			if v, ok := ids[p]; ok {
				par = v
			} else {
				par = -1 // a node that was not visited (yet)
			}
		}
		r := n.Range()
		text := parse.SourceText(n)
		ch := parse.Children(n)
		e := evNode{Ev: "enter", ID: id, Par: par, From: r.From, To: r.To, NC: len(ch), Text: []int{},
			TL: len(text), Kind: strings.TrimPrefix(fmt.Sprintf("%T", n), "*parse.")}
		if ship {
			e.Text = toInts(text)
		} else {
			e.tokText = text
		}
		w.nodes++
		if len(ch) == 0 {
			e.Ev = "leaf"
			w.events = append(w.events, e)
			return
		}
		w.events = append(w.events, e)
		for _, c := range ch {
			rec(c)
		}
		w.events = append(w.events, evPlain{Ev: "exit"})
	}
	rec(tree.Root)
	for _, pe := range parse.UnpackErrors(err) {
		w.events = append(w.events, evErr{"err", pe.Context.From, pe.Context.To, pe.Partial})
		w.nerrs++
	}
	if err != nil && w.nerrs == 0 {
		// an error that is not a parse error: nothing the automaton knows
		w.events = append(w.events, evPlain{Ev: "crash", What: "non-parse error: " + err.Error()})
	}
	if to := tree.Root.Range().To; to != len(src) {
		w.events = append(w.events, evTail{"tail", to})
		w.tail = true
	}
	w.events = append(w.events, evPlain{Ev: "end"})
	return w
}
