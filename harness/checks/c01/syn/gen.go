package syn

import (
	"encoding/json"
	"fmt"
	"sort"
	"strings"
	"time"

	"src.elv.sh/pkg/parse"
	"verif.local/harness/lib"
)

// gate limits the number of TLC processes a check runs at the same time.
var gate = make(chan struct{}, 4)

// TLC is c.TLC behind the gate (at most 4 TLC processes of this check at once).
func TLC(c *lib.Ctx, name string, run lib.TLCRun) (*lib.TLCResult, error) {
	gate <- struct{}{}
	defer func() { <-gate }()
	return c.TLC(name, run)
}

// Expand lets TLC expand the derivation state machine of ElvSyntax.tla and returns the distinct
// completed token sequences, sorted. sim = 0: exhaustive over all leftmost derivations of at
// most s expansions with nesting fuel d; sim > 0: that many seeded random walks.
func Expand(c *lib.Ctx, name string, d, s, sim int, timeout time.Duration) ([][]string, error) {
	cfg := fmt.Sprintf("CONSTANTS D = %d S = %d\nINIT Init\nNEXT Next\nINVARIANT Emit\n", d, s)
	run := lib.TLCRun{Dir: c.SpecDir("ParseTree"), Module: "MCElvSyntax", Workers: 2, Timeout: timeout,
		Files: map[string][]byte{"MCElvSyntax.cfg": []byte(cfg)}}
	if sim > 0 {
		run.Workers = 1
		run.Simulate = fmt.Sprintf("num=%d", sim)
		run.Depth = s + 2
	}
	r, err := TLC(c, name, run)
	if err != nil {
		return nil, err
	}
	if r.ErrKind != "" {
		return nil, lib.Infra("ElvSyntax generator: TLC reported %s: %s", r.ErrKind, r.Err)
	}
	seen := map[string]bool{}
	var keys []string
	for _, p := range r.PrintedStrings() {
		if !seen[p] {
			seen[p] = true
			keys = append(keys, p)
		}
	}
	sort.Strings(keys)
	out := make([][]string, 0, len(keys))
	for _, k := range keys {
		var toks []string
		if err := json.Unmarshal([]byte(k), &toks); err != nil {
			return nil, lib.Infra("ElvSyntax generator printed %q: %v", k, err)
		}
		if toks == nil {
			toks = []string{}
		}
		out = append(out, toks)
	}
	if len(out) == 0 {
		return nil, lib.Infra("ElvSyntax generator produced no program (d=%d s=%d sim=%d)", d, s, sim)
	}
	return out, nil
}

// ParseErr describes one parse error of the real parser.
type ParseErr struct {
	From    int  `json:"from"`
	To      int  `json:"to"`
	Partial bool `json:"partial"`
}

// Errors parses code with the real parser and projects its errors.
func Errors(code string) []ParseErr {
	_, err := parse.Parse(parse.Source{Name: "[verif]", Code: code}, parse.Config{})
	out := []ParseErr{}
	for _, e := range parse.UnpackErrors(err) {
		out = append(out, ParseErr{e.Context.From, e.Context.To, e.Partial})
	}
	return out
}

// Hang reports that parsing a text did not return within the watchdog limit (twice).
type Hang struct {
	Code, State string
	Limit       time.Duration
}

func (h Hang) Error() string {
	return fmt.Sprintf("parse.Parse(%q) did not return within %s, twice (goroutine state: %s)", h.Code, h.Limit, h.State)
}

// ParseLimit is the per-text watchdog of in-process parses (texts parse in microseconds).
const ParseLimit = 20 * time.Second

// ErrorsWatched is Errors under the watchdog; an expiry is confirmed by a second run with a fresh
// limit before Hang is returned.
func ErrorsWatched(code string) ([]ParseErr, error) {
	var out []ParseErr
	for try := 0; ; try++ {
		r := Watch(ParseLimit, "ErrorsWatched", func() { out = Errors(code) })
		if r.Finished && r.Panic == "" {
			return out, nil
		}
		if r.Finished {
			return nil, lib.Infra("parse.Parse(%q) panicked: %s", code, r.Panic)
		}
		if try == 1 {
			return nil, Hang{code, r.State, ParseLimit}
		}
	}
}

// CheckValid returns an infrastructure error if a generated "valid" program has parse errors:
// that is a defect of the generator (grammar or class representatives), never a verdict.
func CheckValid(tokens []string, text string) error {
	errs, err := ErrorsWatched(text)
	if err != nil {
		return err // Hang (a verdict for the caller to report) or a panic
	}
	if len(errs) > 0 {
		return lib.Infra("generator defect: program %q (tokens %s) is not valid: %+v", text, strings.Join(tokens, " "), errs)
	}
	return nil
}
