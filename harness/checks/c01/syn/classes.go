// Package syn drives the generative grammar spec/ParseTree/ElvSyntax.tla (TLC expands it) and
// concretises its token sequences into Elvish source texts. Shared by the C01 and C02 executors.
package syn

import (
	"math/rand"
	"strings"
	"unicode/utf8"
)

// Classes lists the representatives of every class token of ElvSyntax.tla. Every representative
// must be valid wherever the grammar places the class (the executors check validity of every
// concretised program by parsing it completely).
//
// %CMD: a command word can end up in argument position (`a &k=` followed by a newline continues
// the form: the newline after `=` is skipped), so its representatives must be valid there too
// (no lone `<`, no `^`).
var Classes = map[string][]string{
	"%SP":     {" ", "  ", "\t", " ^\n", " ^\r\n "},
	"%WS":     {" ", "\n", " \n ", " # c\n", "\t", "\r\n"},
	"%PSEP":   {"\n", ";", " ; ", "\r\n", " # c\n", "\n\n", "; ", "#c\n"},
	"%PIPE":   {"|", " | ", "|\n", " |\n  ", "| # c\n"},
	"%BG":     {" &", "&", " & "},
	"%CMD":    {"echo", "put", "e:ls", "+", "nop", "x:f~", "<x", "a>b", "*", "a*b"},
	"%KEY":    {"k", "key-1", "'a b'", "$k", "k2"},
	"%RSIGN":  {">", "<", ">>", "<>"},
	"%FD":     {"2", "1", "0", "10", "$f"},
	"%FDN":    {"1", "2", "-", "$fd", "0"},
	"%TILDE":  {"~", "~/a", "~u"},
	"%IDX":    {"0", "-1", "1..2", "..=3", "", " 0 ", "a b", "k", "1.."},
	"%BW":     {"a", "foo", "é", "你好", "x1", "a/b.c", "a=b", "-o", "1.5", "\\", "@", "%", "a,b"},
	"%BWB":    {"a", "b1", "é"},
	"%SQ":     {"'a'", "''", "'a''b'", "'a b\nc'", "'é #|&'"},
	"%DQ":     {`"a"`, `""`, `"\n\t"`, `"\x41é\U0001F600"`, `"a\"b"`, `"\^A\c?\101"`, `"é 你"`, `"a\\"`, `"\U000d8123"`},
	"%VAR":    {"$x", "$@x", "$x:y", "$'a b'", `$"a"`, "$é", "$x~", "$-", "$_"},
	"%WILD":   {"*", "**", "?"},
	"%EMAP":   {"[&]", "[& ]", "[ &]", "[\n&\n]"},
	"%PARAMS": {"a", "a b", "@a", "a &k=v", "", " a ", "a\nb", "&k=v"},
	"%BSEP":   {",", ", ", ",\t", ",\n", ",\n "},
	"%BWS":    {" ", "\n", "  ", "\t"},
}

// Concretise renders a token sequence; class tokens get a representative chosen with r
// (the first representative when r is nil).
func Concretise(tokens []string, r *rand.Rand) string {
	var sb strings.Builder
	for _, t := range tokens {
		if reps, ok := Classes[t]; ok {
			if r == nil {
				sb.WriteString(reps[0])
			} else {
				sb.WriteString(reps[r.Intn(len(reps))])
			}
			continue
		}
		sb.WriteString(t)
	}
	return sb.String()
}

// Prefixes returns every proper prefix of s that ends at a rune boundary (including "").
func Prefixes(s string) []string {
	var out []string
	for i := range s { // i runs over the starts of runes
		out = append(out, s[:i])
	}
	return out
}

// Boundaries returns every rune boundary of s, including 0 and len(s).
func Boundaries(s string) []int {
	var out []int
	for i := range s {
		out = append(out, i)
	}
	return append(out, len(s))
}

// ValidUTF8 reports whether every class representative is valid UTF-8 (they must be: prefixes
// are cut at rune boundaries).
func ValidUTF8() bool {
	for _, reps := range Classes {
		for _, r := range reps {
			if !utf8.ValidString(r) {
				return false
			}
		}
	}
	return true
}
