package syn

import (
	"fmt"
	"runtime"
	"runtime/debug"
	"strings"
	"time"
)

// Watched is the outcome of running a piece of real code under recover and a watchdog.
type Watched struct {
	Finished bool   // f returned (or panicked) within the limit
	Panic    string // non-empty if f panicked
	State    string // when not finished: scheduler state of the goroutine ("running", "runnable", "chan receive", ...)
}

// Watch runs f on its own goroutine. tag must be the name of a function that is on f's stack
// (used to find the goroutine in the dump when the limit expires). A goroutine that does not
// return cannot be stopped: it keeps spinning until the process exits, so callers must stop
// feeding inputs after the first few expiries.
func Watch(limit time.Duration, tag string, f func()) Watched {
	done := make(chan string, 1)
	go func() {
		var pan string
		defer func() {
			if p := recover(); p != nil {
				pan = fmt.Sprintf("panic: %v\n%s", p, firstLines(string(debug.Stack()), 14))
			}
			done <- pan
		}()
		f()
	}()
	t := time.NewTimer(limit)
	defer t.Stop()
	select {
	case pan := <-done:
		return Watched{Finished: true, Panic: pan}
	case <-t.C:
		return Watched{State: goroutineState(tag)}
	}
}

func firstLines(s string, n int) string {
	l := strings.SplitN(s, "\n", n+1)
	if len(l) > n {
		l = l[:n]
	}
	return strings.Join(l, "\n")
}

// goroutineState finds, in a dump of all goroutines, the newest one whose stack mentions tag and
// returns its state.
func goroutineState(tag string) string {
	buf := make([]byte, 1<<22)
	buf = buf[:runtime.Stack(buf, true)]
	state := "unknown"
	for _, g := range strings.Split(string(buf), "\n\n") {
		if !strings.Contains(g, tag) || !strings.Contains(g, "syn.Watch.func1") || strings.Contains(g, "goroutineState") {
			continue
		}
		head := strings.SplitN(g, "\n", 2)[0] // goroutine 12 [running]:
		if i, j := strings.Index(head, "["), strings.LastIndex(head, "]"); i >= 0 && j > i {
			state = head[i+1 : j]
		}
	}
	return state
}

// Spinning tells whether a goroutine state means "still computing" (as opposed to blocked).
func Spinning(state string) bool {
	return strings.HasPrefix(state, "running") || strings.HasPrefix(state, "runnable")
}
