// C37 — error positions point at the right lines and columns.
//
// M: MCDiagPos: the code-shaped Impl (getContextDetails) equals the declarative Ref outside the
//
//	Unspecified case, and Ref is self-consistent ((sl,sc) is the offset `from`, (el,ec) the last
//	byte of the body, head/body/tail are whole lines), for all sources <= N tokens x all byte ranges.
//
// G: every enumerated case with Ref's prescribed outcome is replayed through diag.NewContext and
//
//	through (*diag.Error[T]).Error() / Context.Show (range description).
//
// V: (a) random multi-line sources x random byte ranges through diag.NewContext;
//
//	(b) the diag.Context values inside REAL parse errors, compilation errors and exception stack
//	traces of generated programs (Evaler.Eval / Evaler.Check), projected and judged by the TLC
//	case walker JudgeDiagPos.
package main

import (
	"encoding/json"
	"errors"
	"fmt"
	"os"
	"strconv"
	"strings"
	"time"

	"src.elv.sh/pkg/diag"
	"src.elv.sh/pkg/eval"
	"src.elv.sh/pkg/parse"
	"verif.local/harness/elv"
	"verif.local/harness/lib"
)

// ---- abstract forms (shared with the TLA+ modules)

type refExp struct {
	Sl int `json:"sl"`
	Sc int `json:"sc"`
	El int `json:"el"`
	Ec int `json:"ec"`
	Hf int `json:"hf"`
	Bt int `json:"bt"`
	Tt int `json:"tt"`
}

type altEnd struct {
	El int `json:"el"`
	Ec int `json:"ec"`
}

// genCase is one case printed by MCDiagPos (spec -> code).
type genCase struct {
	Src     []string `json:"src"`
	From    int      `json:"from"`
	To      int      `json:"to"`
	Exp     refExp   `json:"exp"`
	Unspec  bool     `json:"unspec"`
	Alt     altEnd   `json:"alt"`
	Desc    []int    `json:"desc"`
	AltDesc []int    `json:"altdesc"`
	Rep     int      `json:"rep"` // which representative characters were used (set by the executor)
}

// obsCase is one observed diag.Context, projected (code -> spec).
type obsCase struct {
	NL     []bool `json:"nl"`
	From   int    `json:"from"`
	To     int    `json:"to"`
	Sl     int    `json:"sl"`
	Sc     int    `json:"sc"`
	El     int    `json:"el"`
	Ec     int    `json:"ec"`
	Hl     int    `json:"hl"`
	Bl     int    `json:"bl"`
	Tl     int    `json:"tl"`
	Slices bool   `json:"slices"`
	Desc   []int  `json:"desc"`
	// not read by the judge:
	Via    string `json:"-"`
	Source string `json:"-"`
}

// stored is the replay form of an observed case (the judge does not need the text itself).
type stored struct {
	obsCase
	Via    string `json:"via"`
	Source string `json:"source"`
}

type verifTag struct{}

func (verifTag) ErrorTag() string { return "verif error" }

const srcName = "src" // no digits, ':' or '-' so that the range description can be cut out

func main() { lib.Main("C37", run) }

// ---- concretisation: token -> characters. Several representatives per class.
var reps = [][2]string{{"a", "é"}, {" ", "ñ"}, {"#", "Ω"}, {"\t", "é"}, {"\r", "ü"}}

func concretise(src []string, rep int) string {
	var sb strings.Builder
	r := reps[rep%len(reps)]
	for _, t := range src {
		switch t {
		case "x":
			sb.WriteString(r[0])
		case "e":
			sb.WriteString(r[1])
		default:
			sb.WriteString("\n")
		}
	}
	return sb.String()
}

// ---- projection: the integers of a range description "name:L:C", "name:L:C-E", "name:L:C-L2:C2"
func descNums(s string) ([]int, bool) {
	if !strings.HasPrefix(s, srcName+":") {
		return nil, false
	}
	s = s[len(srcName)+1:]
	end := 0
	for end < len(s) && (s[end] == ':' || s[end] == '-' || (s[end] >= '0' && s[end] <= '9')) {
		end++
	}
	s = strings.TrimRight(s[:end], ":")
	var out []int
	for _, f := range strings.FieldsFunc(s, func(r rune) bool { return r == ':' || r == '-' }) {
		n, err := strconv.Atoi(f)
		if err != nil {
			return nil, false
		}
		out = append(out, n)
	}
	return out, len(out) > 0
}

func nlOf(s string) []bool {
	out := make([]bool, len(s))
	for i := 0; i < len(s); i++ {
		out[i] = s[i] == '\n'
	}
	return out
}

// project turns an observed Context (for a source the executor knows) into the abstract case.
func project(source string, ctx *diag.Context, desc []int, via string) obsCase {
	o := obsCase{NL: nlOf(source), From: ctx.From, To: ctx.To, Sl: ctx.StartLine, Sc: ctx.StartCol,
		El: ctx.EndLine, Ec: ctx.EndCol, Hl: len(ctx.Head), Bl: len(ctx.Body), Tl: len(ctx.Tail), Desc: desc, Via: via, Source: source}
	if o.Desc == nil {
		o.Desc = []int{}
	}
	f, t := ctx.From, ctx.To
	o.Slices = f >= 0 && f <= t && t <= len(source) &&
		o.Hl <= f && source[f-o.Hl:f] == ctx.Head &&
		f+o.Bl <= len(source) && source[f:f+o.Bl] == ctx.Body &&
		t+o.Tl <= len(source) && source[t:t+o.Tl] == ctx.Tail
	return o
}

func eqInts(a, b []int) bool {
	if len(a) != len(b) {
		return false
	}
	for i := range a {
		if a[i] != b[i] {
			return false
		}
	}
	return true
}

// ---- G: replay one generated case into the real code
func replayGen(c *lib.Ctx, gc genCase) {
	s := concretise(gc.Src, gc.Rep)
	key := fmt.Sprintf("ctx:%s:%d-%d", strings.Join(gc.Src, ""), gc.From, gc.To)
	c.AddEvals(1)
	var ctx *diag.Context
	var pan any
	func() {
		defer func() { pan = recover() }()
		ctx = diag.NewContext(srcName, s, diag.Ranging{From: gc.From, To: gc.To})
	}()
	if pan != nil {
		c.Reject(key, fmt.Sprintf("diag.NewContext(%q, [%d,%d]) panicked: %v", s, gc.From, gc.To, pan), gc)
		return
	}
	e := gc.Exp
	var bad []string
	if ctx.From != gc.From || ctx.To != gc.To || ctx.Name != srcName {
		bad = append(bad, "range/name")
	}
	if ctx.StartLine != e.Sl || ctx.StartCol != e.Sc {
		bad = append(bad, fmt.Sprintf("start %d:%d, reference %d:%d", ctx.StartLine, ctx.StartCol, e.Sl, e.Sc))
	}
	endRef := ctx.EndLine == e.El && ctx.EndCol == e.Ec
	endAlt := gc.Unspec && ctx.EndLine == gc.Alt.El && ctx.EndCol == gc.Alt.Ec
	if !endRef && !endAlt {
		bad = append(bad, fmt.Sprintf("end %d:%d, reference %d:%d", ctx.EndLine, ctx.EndCol, e.El, e.Ec))
	}
	if ctx.Head != s[e.Hf:gc.From] {
		bad = append(bad, fmt.Sprintf("head %q, reference %q", ctx.Head, s[e.Hf:gc.From]))
	}
	if ctx.Body != s[gc.From:e.Bt] {
		bad = append(bad, fmt.Sprintf("body %q, reference %q", ctx.Body, s[gc.From:e.Bt]))
	}
	if ctx.Tail != s[e.Bt:e.Tt] {
		bad = append(bad, fmt.Sprintf("tail %q, reference %q", ctx.Tail, s[e.Bt:e.Tt]))
	}
	// range description through the two public renderings
	want := gc.Desc
	if endAlt && !endRef {
		want = gc.AltDesc
	}
	c.AddEvals(2)
	msg := (&diag.Error[verifTag]{Message: "m", Context: *ctx}).Error()
	got1, ok1 := descNums(strings.TrimPrefix(msg, "verif error: "))
	got2, ok2 := descNums(ctx.Show(""))
	if !ok1 || !eqInts(got1, want) {
		bad = append(bad, fmt.Sprintf("Error() = %q, reference numbers %v", msg, want))
	}
	if !ok2 || !eqInts(got2, want) {
		bad = append(bad, fmt.Sprintf("Show() = %q, reference numbers %v", ctx.Show(""), want))
	}
	if len(bad) > 0 {
		c.Reject(key, fmt.Sprintf("diag.NewContext(%q, [%d,%d]): %s", s, gc.From, gc.To, strings.Join(bad, "; ")), gc)
	}
}

func run(c *lib.Ctx) error {
	dir := c.SpecDir("DiagPos")
	if c.Replay != "" {
		return replay(c, dir)
	}
	// the markers only decorate Show(); neutralise them so that Show() is plain text
	diag.ContextBodyStartMarker, diag.ContextBodyEndMarker = "", ""
	N := c.Pick(5, 6)
	c.Set("rule", "a case is (source as newline/non-newline bytes, byte range); distinct by (newline pattern, from, to); every case is non-trivial (it has a prescribed start, end and head/body/tail split)")
	c.Set("bounds", map[string]any{"N_tokens": N, "alphabet": "x (1 byte), e (2 bytes), n (newline); ranges over all byte offsets"})

	// ---- M + G
	cfg := fmt.Sprintf("CONSTANT N = %d\nINIT Init\nNEXT Next\nINVARIANT Theorem\nINVARIANT RefConsistent\nINVARIANT Emit\n", N)
	r, err := c.TLC("MCDiagPos", lib.TLCRun{Dir: dir, Module: "MCDiagPos", Workers: 4, Timeout: 12 * time.Minute,
		Files: map[string][]byte{"MCDiagPos.cfg": []byte(cfg)}})
	if err != nil {
		return err
	}
	if r.ErrKind != "" {
		return lib.Infra("design theorem of DiagPos fails in the model itself: %s\n%s", r.Err, r.ErrTrace)
	}
	seen := map[string]bool{}
	nGen, nUnspec := 0, 0
	for _, s := range r.PrintedStrings() {
		var gc genCase
		if err := json.Unmarshal([]byte(s), &gc); err != nil {
			return lib.Infra("bad case from TLC: %v: %s", err, s)
		}
		k := fmt.Sprintf("%s|%d|%d", strings.Join(gc.Src, ""), gc.From, gc.To)
		if seen[k] {
			continue
		}
		seen[k] = true
		nGen++
		if gc.Unspec {
			nUnspec++
		}
		c.Distinct(fmt.Sprintf("%v|%d|%d", nlOf(concretise(gc.Src, 0)), gc.From, gc.To))
		for rep := 0; rep < 2; rep++ { // first representative always, a seed-chosen second one
			gc.Rep = rep
			if rep == 1 {
				gc.Rep = 1 + c.Rand.Intn(len(reps)-1)
			}
			replayGen(c, gc)
		}
		c.AddTraces(1)
		if nGen <= 2 {
			c.Sample(gc)
		}
	}
	srcs := map[string]bool{}
	for k := range seen {
		srcs[k[:strings.IndexByte(k, '|')]] = true
	}
	// TLC's distinct states = one state per source (ph = 0) + one per case (ph = 1)
	if int64(nGen+len(srcs)) != r.Distinct {
		return lib.Infra("TLC reported %d states, received %d cases over %d sources", r.Distinct, nGen, len(srcs))
	}
	c.Logf("generated cases: %d (%d with Unspecified end)", nGen, nUnspec)
	c.Set("generated_cases", nGen)
	c.Set("unspecified_end_cases", nUnspec)
	c.Set("exhaustive", true)

	// ---- V
	var obs []obsCase
	obs = append(obs, randomContexts(c)...)
	nRandom := len(obs)
	real, stats := realErrors(c)
	obs = append(obs, real...)
	c.Set("observed_random_contexts", nRandom)
	c.Set("observed_real_error_contexts", stats)
	c.Logf("observed contexts: %d random, %d from real errors %v", nRandom, len(real), stats)
	if err := judge(c, dir, obs); err != nil {
		return err
	}
	c.Assume("TLC is trusted; Ref is the reading of the property statement; for a multi-line body ending in an empty line (range ending NL NL) the end position is Unspecified (last newline byte, or column 0 of the empty line)")
	c.Assume("the range [From, To] carried by a real error is taken as given (C37 is about line/column/context for a range, not about which range an error has); contexts whose source the executor does not know (eval'd code) are skipped")
	return nil
}

func judge(c *lib.Ctx, dir string, obs []obsCase) error {
	bad, err := lib.Judge(c, "JudgeDiagPos", dir, "JudgeDiagPos", obs, 6, 10*time.Minute)
	if err != nil {
		return err
	}
	c.AddTraces(len(obs))
	for _, o := range obs {
		c.Distinct(fmt.Sprintf("%v|%d|%d", o.NL, o.From, o.To))
	}
	if len(obs) > 0 {
		c.Sample(obs[len(obs)-1])
	}
	for _, b := range bad {
		o := obs[b.Index]
		why := "?"
		if len(b.Info) > 0 {
			why = fmt.Sprint(b.Info[0])
		}
		c.Reject(fmt.Sprintf("%s:%s", o.Via, why),
			fmt.Sprintf("context for range [%d,%d] of %q (%s): start %d:%d end %d:%d head/body/tail lengths %d/%d/%d slices=%v desc=%v; the specification rejects: %s",
				o.From, o.To, o.Source, o.Via, o.Sl, o.Sc, o.El, o.Ec, o.Hl, o.Bl, o.Tl, o.Slices, o.Desc, why), stored{o, o.Via, o.Source})
	}
	return nil
}

// ---- V (a): random multi-line sources, random byte ranges (also inside multi-byte characters)
func randomContexts(c *lib.Ctx) []obsCase {
	n := c.Pick(3000, 40000)
	alphabet := []string{"a", "b", " ", "é", "你", "😀", "\n", "\n", "\n", "\r", "\t"}
	var out []obsCase
	for i := 0; i < n; i++ {
		var sb strings.Builder
		m := c.Rand.Intn(40)
		if c.Rand.Intn(10) == 0 {
			m = c.Rand.Intn(160)
		}
		pnl := c.Rand.Intn(4) // newline density class
		for j := 0; j < m; j++ {
			if pnl == 3 && c.Rand.Intn(2) == 0 {
				sb.WriteString("\n")
				continue
			}
			sb.WriteString(alphabet[c.Rand.Intn(len(alphabet))])
		}
		for c.Rand.Intn(3) == 0 {
			sb.WriteString("\n")
		}
		s := sb.String()
		from := c.Rand.Intn(len(s) + 1)
		to := from
		switch c.Rand.Intn(5) {
		case 0: // empty range
		case 1: // end right after a newline, if there is one at or after from
			if j := strings.IndexByte(s[from:], '\n'); j >= 0 {
				to = from + j + 1
				if c.Rand.Intn(2) == 0 { // ... after the last newline of a run
					for to < len(s) && s[to] == '\n' {
						to++
					}
				}
			}
		default:
			to = from + c.Rand.Intn(len(s)-from+1)
		}
		c.AddEvals(1)
		var ctx *diag.Context
		var pan any
		func() {
			defer func() { pan = recover() }()
			ctx = diag.NewContext(srcName, s, diag.Ranging{From: from, To: to})
		}()
		if pan != nil {
			c.Reject("random:panic", fmt.Sprintf("diag.NewContext(%q, [%d,%d]) panicked: %v", s, from, to, pan), map[string]any{"source": s, "from": from, "to": to})
			continue
		}
		desc, _ := descNums(ctx.Show(""))
		out = append(out, project(s, ctx, desc, "random"))
	}
	return out
}

// ---- V (b): real errors
type realStats map[string]int

func collect(source string, err error, via string, st realStats, out *[]obsCase) {
	if err == nil {
		return
	}
	add := func(ctx *diag.Context, descFrom string, kind string) {
		if ctx.Name != srcName {
			st["skipped-other-source"]++
			return
		}
		desc, _ := descNums(descFrom)
		o := project(source, ctx, desc, kind)
		*out = append(*out, o)
		st[kind]++
		if o.Sl != o.El {
			st[kind+"-multiline"]++
		}
	}
	for _, e := range parse.UnpackErrors(err) {
		add(&e.Context, strings.TrimPrefix(e.Error(), "parse error: "), "parse")
	}
	for _, e := range eval.UnpackCompilationErrors(err) {
		add(&e.Context, strings.TrimPrefix(e.Error(), "compilation error: "), "compile")
	}
	var exc eval.Exception
	if errors.As(err, &exc) {
		for tb := exc.StackTrace(); tb != nil; tb = tb.Next {
			add(tb.Head, tb.Head.Show(""), "exception")
		}
	}
	_ = via
}

var (
	fillerLines = []string{"", "", "nop é", "# 你好 comment", "nop a; nop 你", "  nop", "nop '多\n行'", "\t", "nop [\n é\n]", "var v"}
	heads       = []string{"", "", "nop é; ", "  ", "\t", "nop 你😀 ;", "nop a|"}
	tails       = []string{"", "", "; nop é", " # c 你", " ", ";"}
	parseForms  = []string{"put $", "put (", ")", "put $!", "put 'abc", "put \"a\nb", "put a >", "put [", "put {", "nop ]", "put a[", "put $é[", "nop &", "put a?(", "put (\n\n"}
	compForms   = []string{"put $undefé", "try {\n}", "try {\n\n nop é\n }", "if", "set @a @b = 1 2", "fn", "for x", "put $u1 $u2", "var a:b", "del a[\n0\n]", "use", "while", "and $u\n", "nop {|a a| }", "set é = 1", "tmp x = 1", "pragma é = a"}
	excForms    = []string{"fail x", "fail [\né\n\n]", "put [1 2][\n3\n]", "+ 1 a", "ff 'é\n'", "ff 多", "{ \n fail x \n }", "nop | fail é | nop", "e:nonexistent-cmd-é", "gg\n", "put (fail '\n\n')", "break", "var q = (ff [\n\n])", "nop 1 2 &k=v", "put [a][\n\n1\n\n]", "{|a|\n}", "kk 1\\\n 2"}
)

const prelude = "fn ff {|a| fail $a }\nfn gg {\n  ff [\n é ]\n}\nfn kk {|a b|\n put {\n ff $a\n}[\nx\n] }\n"

func buildProgram(c *lib.Ctx, forms []string, withPrelude bool) string {
	var sb strings.Builder
	if withPrelude {
		sb.WriteString(prelude)
	}
	for n := c.Rand.Intn(4); n > 0; n-- {
		sb.WriteString(fillerLines[c.Rand.Intn(len(fillerLines))])
		sb.WriteString("\n")
	}
	sb.WriteString(heads[c.Rand.Intn(len(heads))])
	sb.WriteString(forms[c.Rand.Intn(len(forms))])
	sb.WriteString(tails[c.Rand.Intn(len(tails))])
	switch c.Rand.Intn(4) {
	case 0:
	case 1:
		sb.WriteString("\n")
	case 2:
		sb.WriteString("\n\n")
	default:
		sb.WriteString("\n")
		for n := c.Rand.Intn(3); n > 0; n-- {
			sb.WriteString(fillerLines[c.Rand.Intn(len(fillerLines))])
			sb.WriteString("\n")
		}
	}
	return sb.String()
}

func realErrors(c *lib.Ctx) ([]obsCase, realStats) {
	st := realStats{}
	var out []obsCase
	ev := elv.New()
	nEach := c.Pick(400, 4000)
	// parse errors and compilation errors: Evaler.Check never runs the code
	for i := 0; i < 2*nEach; i++ {
		forms := parseForms
		if i%2 == 1 {
			forms = compForms
		}
		code := buildProgram(c, forms, false)
		c.AddEvals(1)
		perr, _, cerr := ev.Check(parse.Source{Name: srcName, Code: code}, nil)
		collect(code, perr, "check", st, &out)
		collect(code, cerr, "check", st, &out)
	}
	// token soup: only parsed and compiled, never run
	soup := []string{"a", "é", " ", "\n", "\n", "(", ")", "[", "]", "{", "}", "$", "$x", "'", "\"", "|", ";", "&", ">", "<", "#", "你", "😀", "=", "~", "*", "?", "\\", ","}
	for i := 0; i < nEach; i++ {
		var sb strings.Builder
		for n := 1 + c.Rand.Intn(14); n > 0; n-- {
			sb.WriteString(soup[c.Rand.Intn(len(soup))])
		}
		code := sb.String()
		c.AddEvals(1)
		perr, _, cerr := ev.Check(parse.Source{Name: srcName, Code: code}, nil)
		collect(code, perr, "soup", st, &out)
		collect(code, cerr, "soup", st, &out)
	}
	// exceptions: the programs are built from harmless builtins (nop, put, fail, +) only
	for i := 0; i < nEach; i++ {
		code := buildProgram(c, excForms, true)
		c.AddEvals(1)
		var err error
		var pan any
		func() {
			defer func() { pan = recover() }()
			err = ev.Eval(parse.Source{Name: srcName, Code: code}, eval.EvalCfg{})
		}()
		if pan != nil {
			continue // crashes are C17's business
		}
		collect(code, err, "eval", st, &out)
	}
	return out, st
}

// ---- replay of a stored case
func replay(c *lib.Ctx, dir string) error {
	diag.ContextBodyStartMarker, diag.ContextBodyEndMarker = "", ""
	b, err := os.ReadFile(c.Replay)
	if err != nil {
		return lib.Infra("%v", err)
	}
	var f struct {
		Case json.RawMessage `json:"case"`
	}
	if err := json.Unmarshal(b, &f); err != nil {
		return lib.Infra("%v", err)
	}
	var gc genCase
	if json.Unmarshal(f.Case, &gc) == nil && gc.Src != nil {
		replayGen(c, gc)
		return nil
	}
	var so stored
	err = json.Unmarshal(f.Case, &so)
	o := so.obsCase
	o.Via, o.Source = so.Via, so.Source
	if err != nil || o.NL == nil {
		// a panic case: {"source","from","to"}
		var p struct {
			Source   string `json:"source"`
			From, To int
		}
		if json.Unmarshal(f.Case, &p) != nil {
			return lib.Infra("unrecognised replay file")
		}
		ctx := diag.NewContext(srcName, p.Source, diag.Ranging{From: p.From, To: p.To})
		o = project(p.Source, ctx, nil, "random")
	} else {
		// re-observe: run the real code again on the stored source and range
		ctx := diag.NewContext(srcName, o.Source, diag.Ranging{From: o.From, To: o.To})
		desc, _ := descNums(ctx.Show(""))
		o = project(o.Source, ctx, desc, o.Via)
	}
	return judge(c, dir, []obsCase{o})
}
