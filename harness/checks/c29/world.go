package main

import (
	"fmt"
	"math/rand"
	"sync/atomic"
	"time"

	"src.elv.sh/pkg/cli/histutil"
	"src.elv.sh/pkg/store/storedefs"
	"verif.local/harness/lib"
	"verif.local/harness/storex"
)

// hung is set when a watchdog fired; the run then ends with an infrastructure error (exit 2 unless
// real violations were recorded as well).
var hung atomic.Bool

func newRand(seed int64) *rand.Rand { return rand.New(rand.NewSource(seed)) }

// Get is the abstract form of Cursor.Get: ok=false is ErrEndOfHistory.
type Get struct {
	Ok bool  `json:"ok"`
	N  int   `json:"n"`
	T  []int `json:"t"`
}

// Event is one call on the real world (also the form of a step of a model behaviour, where n/get
// are prescribed). Uniform fields for the TLC walker.
type Event struct {
	A   string `json:"a"`
	T   []int  `json:"t"`
	S   int    `json:"s"`
	P   []int  `json:"p"`
	D   bool   `json:"d"`
	N   int    `json:"n"`
	Get Get    `json:"get"`
}

// Step is an Event of a model behaviour plus chk (Get is prescribed after this step).
type Step struct {
	A   string `json:"a"`
	T   []int  `json:"t"`
	S   int    `json:"s"`
	P   []int  `json:"p"`
	D   bool   `json:"d"`
	N   int    `json:"n"`
	Chk bool   `json:"chk"`
	Get Get    `json:"get"`
}

func (s Step) Event() Event { return Event{A: s.A, T: s.T, S: s.S, P: s.P, D: s.D} }

func resetEvent() Event {
	return Event{A: "Reset", T: []int{}, P: []int{}, Get: Get{T: []int{}}}
}

// histDB is what the hybrid store needs plus deletion (done behind its back, as another process would).
type histDB interface {
	histutil.DB
	DelCmd(seq int) error
}

// world is the real counterpart of the model state: a database, this session's hybrid store,
// another session's hybrid store over the same database, and the current cursor.
type world struct {
	db    histDB
	hs    histutil.Store
	other histutil.Store
	cur   histutil.Cursor
}

// project maps what the real cursor returns to the abstract Get.
func project(cmd storedefs.Cmd, err error) (Get, error) {
	if err == histutil.ErrEndOfHistory {
		return Get{T: []int{}}, nil
	}
	if err != nil {
		return Get{T: []int{}}, fmt.Errorf("cursor Get returned error %v", err)
	}
	t, ok := storex.Untext(cmd.Text)
	if !ok {
		return Get{T: []int{}}, fmt.Errorf("cursor returned a text that was never stored: %q", cmd.Text)
	}
	return Get{Ok: true, N: cmd.Seq, T: t}, nil
}

// errHang: a cursor move did not return (watchdog; machinery-level abort, never a verdict by itself).
var errHang = fmt.Errorf("cursor move did not return within 20s")

// guarded runs a cursor move under a watchdog so that a non-terminating move ends the run
// instead of blocking it.
func guarded(f func()) (err error) {
	done := make(chan any, 1)
	go func() {
		defer func() { done <- recover() }()
		f()
	}()
	select {
	case p := <-done:
		if p != nil {
			return fmt.Errorf("panic in the real code: %v", p)
		}
		return nil
	case <-time.After(20 * time.Second):
		return errHang
	}
}

// do performs one action on the real code and records the sequence number returned (adds) and
// the cursor's Get afterwards (read twice: Get must not move the cursor).
func (w *world) do(e Event) (out Event, err error) {
	defer func() {
		if p := recover(); p != nil {
			err = fmt.Errorf("panic in the real code: %v", p)
		}
	}()
	return w.do1(e)
}

func (w *world) do1(e Event) (Event, error) {
	out := e
	if out.T == nil {
		out.T = []int{}
	}
	if out.P == nil {
		out.P = []int{}
	}
	out.N, out.Get = 0, Get{T: []int{}}
	var err error
	switch e.A {
	case "PreAdd":
		out.N, err = w.db.AddCmd(storex.Text(e.T))
	case "Start":
		w.hs, err = histutil.NewHybridStore(w.db)
	case "AddHere":
		out.N, err = w.hs.AddCmd(storedefs.Cmd{Text: storex.Text(e.T), Seq: -1})
	case "AddElsewhere":
		if w.other == nil {
			if w.other, err = histutil.NewHybridStore(w.db); err != nil {
				break
			}
		}
		out.N, err = w.other.AddCmd(storedefs.Cmd{Text: storex.Text(e.T), Seq: -1})
	case "DelInDb":
		err = w.db.DelCmd(e.S)
	case "NewCursor":
		w.cur = w.hs.Cursor(storex.Text(e.P))
		if e.D {
			w.cur = histutil.NewDedupCursor(w.cur)
		}
	case "Prev":
		err = guarded(w.cur.Prev)
	case "Next":
		err = guarded(w.cur.Next)
	default:
		return out, fmt.Errorf("unknown action %q", e.A)
	}
	if err != nil {
		return out, err
	}
	if w.cur != nil {
		g1, err := project(w.cur.Get())
		if err != nil {
			return out, err
		}
		g2, err := project(w.cur.Get())
		if err != nil {
			return out, err
		}
		if g1.Ok != g2.Ok || g1.N != g2.N || fmt.Sprint(g1.T) != fmt.Sprint(g2.T) {
			return out, fmt.Errorf("two consecutive Get calls differ: %+v then %+v", g1, g2)
		}
		out.Get = g1
	}
	return out, nil
}

var (
	vTexts    = [][]int{{1}, {1}, {1, 2}, {1, 2}, {2}, {1, 1}, {1, 2, 1}, {3}, {3, 1}, {2, 2, 2}, {4}, {5, 1}, {1, 5}, {}}
	vPrefixes = [][]int{{}, {}, {1}, {1}, {1, 2}, {2}, {3}, {5}, {1, 2, 1, 1}, {1, 5}}
)

// randomHistory drives the real hybrid store with a random history and random walks and records it.
// Deletions only hit commands not added by this session (see HistWalk.tla, Unspecified).
func randomHistory(c *lib.Ctx, r *rand.Rand, db histDB, steps int) []Event {
	evs := []Event{resetEvent()}
	w := &world{db: db}
	mine := map[int]bool{}
	next := 0
	fail := false
	emit := func(e Event) {
		if fail {
			return
		}
		ev, err := w.do(e)
		c.AddEvals(1)
		if err == errHang {
			fail = true
			hung.Store(true)
			return
		}
		if err != nil {
			fail = true
			c.Reject("walk-error:"+e.A, fmt.Sprintf("%s failed: %v", e.A, err), append(append([]Event{}, evs...), e))
			return
		}
		evs = append(evs, ev)
		if ev.N > next {
			next = ev.N
		}
		if e.A == "AddHere" {
			mine[ev.N] = true
		}
		if w.cur != nil {
			c.Distinct([]any{ev.A, ev.T, ev.P, ev.D, ev.Get})
		}
	}
	text := func() []int {
		pool := vTexts
		if r.Intn(3) == 0 {
			pool = vTexts[:5] // few texts => many duplicates
		}
		return pool[r.Intn(len(pool))]
	}
	del := func() {
		if next == 0 {
			return
		}
		s := 1 + r.Intn(next+1)
		if !mine[s] {
			emit(Event{A: "DelInDb", S: s})
		}
	}
	for i, n := 0, r.Intn(25); i < n; i++ {
		if r.Intn(8) == 0 {
			del()
		} else {
			emit(Event{A: "PreAdd", T: text()})
		}
	}
	emit(Event{A: "Start"})
	dirty := false // the world changed under the live cursor: its results are Unspecified until a new one is made
	for len(evs) < steps && !fail {
		x := r.Intn(100)
		switch {
		case w.cur == nil || x < 8 || (dirty && x < 75):
			// after a watchdog fired on a de-duplicating cursor only plain cursors are made (no pile-up of stuck moves)
			emit(Event{A: "NewCursor", P: vPrefixes[r.Intn(len(vPrefixes))], D: r.Intn(2) == 0 && !hung.Load()})
			dirty = false
		case x < 50:
			// runs of Prev / Next so that walks reach both ends and turn around
			a := "Prev"
			if r.Intn(5) < 2 {
				a = "Next"
			}
			for i, n := 0, 1+r.Intn(6); i < n; i++ {
				emit(Event{A: a})
			}
		case x < 64:
			emit(Event{A: "Next"})
		case x < 76:
			emit(Event{A: "Prev"})
		case x < 87:
			emit(Event{A: "AddHere", T: text()})
			dirty = true
		case x < 95:
			emit(Event{A: "AddElsewhere", T: text()})
		default:
			del()
			dirty = true
		}
	}
	return evs
}

// probes: directed histories run on every check run (deterministic reproduction of listed findings;
// also a fixed smoke test of the recording/judging path).
func probes(c *lib.Ctx, scratch string) ([][]Event, error) {
	scripts := [][]Event{
		// stored a b a, session adds a; dedup walk to the front and back
		{{A: "PreAdd", T: []int{1}}, {A: "PreAdd", T: []int{2}}, {A: "PreAdd", T: []int{1}}, {A: "Start"},
			{A: "AddElsewhere", T: []int{1, 2}}, {A: "AddHere", T: []int{1}}, {A: "NewCursor", D: true},
			{A: "Prev"}, {A: "Prev"}, {A: "Prev"}, {A: "Prev"}, {A: "Next"}, {A: "Next"}, {A: "Next"}, {A: "Next"}, {A: "Prev"}},
		// prefix filter across the shared/session hand-off, plain cursor
		{{A: "PreAdd", T: []int{1, 2}}, {A: "PreAdd", T: []int{2}}, {A: "Start"}, {A: "AddHere", T: []int{2}}, {A: "AddHere", T: []int{1}},
			{A: "AddElsewhere", T: []int{1}}, {A: "NewCursor", P: []int{1}},
			{A: "Next"}, {A: "Prev"}, {A: "Prev"}, {A: "Prev"}, {A: "Prev"}, {A: "Next"}, {A: "Next"}, {A: "Next"}, {A: "Next"}},
	}
	var hist [][]Event
	for i, sc := range scripts {
		st, err := storex.OpenNoSync(storex.DBPath(scratch, 2_000_000+i))
		if err != nil {
			return nil, lib.Infra("open store: %v", err)
		}
		out, err := rerun(st, sc)
		st.Close()
		c.AddEvals(len(sc))
		if err == errHang {
			hung.Store(true) // reported as a machinery problem at the end of the run; never a verdict
			continue
		}
		if err != nil {
			c.Reject("walk-error:probe", err.Error(), sc)
			continue
		}
		hist = append(hist, out)
	}
	return hist, nil
}
