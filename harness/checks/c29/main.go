// C29 — history navigation visits matching commands newest-first, then back.
// M: MCHistWalk: exhaustive small model of a session (stored commands, session additions, additions by
//
//	other sessions, deletions, cursors with/without de-duplication); the code-shaped cursor algorithm
//	must agree with the declarative walk over the session's view in every reachable state.
//
// G: every transition of that model (one path to its source state + the step, each step with the Get
//
//	result the specification prescribes) is replayed on histutil.NewHybridStore over a real
//	store.DBStore, with its cursor / NewDedupCursor; Get is compared after every step.
//
// V: long random histories and walks on the real hybrid store are recorded and judged event by
//
//	event by the stateful TLC walker TraceHistWalk.
package main

import (
	"encoding/json"
	"fmt"
	"os"
	"path/filepath"
	"reflect"
	"sync"
	"time"

	"src.elv.sh/pkg/daemon"
	"verif.local/harness/histx"
	"verif.local/harness/lib"
	"verif.local/harness/storex"
)

func main() { lib.Main("C29", run) }

// bounds of one model: texts T3 = {a, ab, b}, T2 = {a, ab}; prefixes P3 = {"", a, ab}, P2 = {"", ab}
type bounds struct {
	stored, session, foreign, del int
	texts, prefixes               string
}

func (b bounds) String() string {
	return fmt.Sprintf("stored<=%d session<=%d foreign<=%d deletes<=%d texts=%s prefixes=%s", b.stored, b.session, b.foreign, b.del, b.texts, b.prefixes)
}

func cfg(b bounds, emit bool) []byte {
	s := fmt.Sprintf("CONSTANTS MaxStored = %d MaxSession = %d MaxForeign = %d MaxDel = %d Texts <- %s PrefixPool <- %s\nSPECIFICATION Spec\nVIEW View\n"+
		"INVARIANT AlgIsWalk\nINVARIANT ViewProps\nINVARIANT ForeignInvisible\nINVARIANT SessionAboveUpper\nINVARIANT PosInRange\nINVARIANT EndsIdempotent\n",
		b.stored, b.session, b.foreign, b.del, b.texts, b.prefixes)
	if emit {
		s += "ACTION_CONSTRAINT EmitT\n"
	}
	return []byte(s)
}

func run(c *lib.Ctx) error {
	dir, root, err := histx.SpecDir(c, "HistWalk", "HistStore/HistStore.tla")
	if err != nil {
		return lib.Infra("%v", err)
	}
	defer os.RemoveAll(root)
	scratch, err := storex.ScratchDir()
	if err != nil {
		return lib.Infra("%v", err)
	}
	defer os.RemoveAll(scratch)
	if c.Replay != "" {
		return replay(c, dir, scratch)
	}
	c.Set("rule", "G: one behaviour per transition of the exhaustive model, distinct by its action sequence; V: one case per recorded call with a live cursor, distinct by (action, arguments, recorded Get); steps without a cursor are not counted")

	// ---- directed probes (known findings are reproduced deterministically here; none so far)
	probeHist, err := probes(c, scratch)
	if err != nil {
		return err
	}

	var wg sync.WaitGroup
	var mu sync.Mutex
	var firstErr error
	fail := func(err error) {
		mu.Lock()
		if firstErr == nil {
			firstErr = err
		}
		mu.Unlock()
	}
	// ---- V: random histories and walks on the real hybrid store over store.NewStore-compatible db
	nh, steps := c.Pick(100, 1500), c.Pick(150, 200)
	hist := make([][]Event, nh)
	lib.Parallel(nh, 4, func(h int) {
		rng := newRand(c.Seed*100003 + int64(h))
		if h%4 == 3 {
			// the database is the daemon client, as in the shell: hybrid store -> RPC -> daemon -> store
			dir := filepath.Join(scratch, fmt.Sprintf("daemon%d", h))
			os.MkdirAll(dir, 0o755)
			defer os.RemoveAll(dir)
			sock, stop, err := histx.StartDaemon(dir)
			if err != nil {
				fail(lib.Infra("start daemon: %v", err))
				return
			}
			defer stop()
			cl := daemon.NewClient(sock)
			defer cl.Close()
			hist[h] = randomHistory(c, rng, cl, steps)
			c.Inc("v_histories_over_daemon_client", 1)
			return
		}
		st, err := storex.OpenNoSync(storex.DBPath(scratch, 1_000_000+h))
		if err != nil {
			fail(lib.Infra("open store: %v", err))
			return
		}
		defer func() { st.Close(); os.Remove(storex.DBPath(scratch, 1_000_000+h)) }()
		hist[h] = randomHistory(c, rng, st, steps)
		c.Inc("v_histories_over_db_store", 1)
	})
	if firstErr != nil {
		return firstErr
	}
	if len(hist) > 0 && len(hist[0]) > 8 {
		c.Sample(hist[0][:8])
	}
	if os.Getenv("VERIF_SELFTEST_CORRUPT") != "" { // development-time vacuity guard: the judge must reject a falsified recording
		for i := range hist[0] {
			if e := &hist[0][len(hist[0])-1-i]; e.Get.Ok {
				e.Get.N++
				break
			}
		}
	}
	// at most 4 TLC workers / processes at a time (coordinator's rule for the shared machine)
	sem := make(chan struct{}, 4)
	var acqMu sync.Mutex // taking several tokens must be atomic, or holders of one token each deadlock
	acquire := func(n int) {
		acqMu.Lock()
		defer acqMu.Unlock()
		for i := 0; i < n; i++ {
			sem <- struct{}{}
		}
	}
	release := func(n int) {
		for i := 0; i < n; i++ {
			<-sem
		}
	}
	wg.Add(1)
	go func() {
		defer wg.Done()
		acquire(2)
		defer release(2)
		if err := judge(c, dir, "TraceHistWalk(V)", append(probeHist, hist...)); err != nil {
			fail(err)
			return
		}
		c.AddTraces(nh + len(probeHist))
	}()

	// ---- M + G
	gen := []bounds{{2, 1, 0, 0, "T3", "P3"}, {1, 1, 1, 1, "T2", "P2"}}
	var mOnly []bounds
	if c.Thorough() {
		gen = []bounds{{1, 1, 1, 1, "T3", "P3"}, {2, 1, 0, 1, "T3", "P3"}, {1, 2, 1, 1, "T2", "P2"}, {2, 1, 1, 1, "T2", "P2"}}
		mOnly = []bounds{{2, 2, 1, 1, "T3", "P3"}}
	}
	var bs []string
	for _, b := range append(append([]bounds{}, gen...), mOnly...) {
		bs = append(bs, b.String())
	}
	c.Set("bounds", map[string]any{"texts": "T3 = a, ab, b; T2 = a, ab", "prefixes": "P3 = \"\", a, ab; P2 = \"\", ab", "dedup": "both", "walk_length": "unbounded (position is state)", "models": bs})
	for _, b := range mOnly {
		wg.Add(1)
		go func(b bounds) {
			defer wg.Done()
			acquire(2)
			defer release(2)
			r, err := c.TLC("MCHistWalk(M "+b.String()+")", lib.TLCRun{Dir: dir, Module: "MCHistWalk", Workers: 2, Timeout: 13 * time.Minute, HeapGB: 8,
				Files: map[string][]byte{"MCHistWalk.cfg": cfg(b, false)}})
			if err != nil {
				fail(err)
				return
			}
			if r.ErrKind != "" {
				fail(lib.Infra("the walk model violates its own property %s %s (candidate: the cursor algorithm as modelled disagrees with the declarative walk):\n%s", r.ErrKind, r.ErrName, r.ErrTrace))
			}
			c.Logf("M %s: %d distinct states, %d transitions", b, r.Distinct, r.Generated)
		}(b)
	}
	nb := 0
	for gi, b := range gen {
		wg.Add(1)
		go func(gi int, b bounds) {
			defer wg.Done()
			acquire(2)
			r, err := c.TLC("MCHistWalk(G "+b.String()+")", lib.TLCRun{Dir: dir, Module: "MCHistWalk", Workers: 2, Timeout: 13 * time.Minute, HeapGB: 8,
				Files: map[string][]byte{"MCHistWalk.cfg": cfg(b, true)}})
			if err != nil {
				release(2)
				fail(err)
				return
			}
			if r.ErrKind != "" {
				release(2)
				fail(lib.Infra("the walk model violates its own property %s %s (candidate: the cursor algorithm as modelled disagrees with the declarative walk):\n%s", r.ErrKind, r.ErrName, r.ErrTrace))
				return
			}
			lines := r.PrintedStrings()
			defer release(2)
			c.Logf("G %s: %d distinct states, %d transitions, %d behaviours emitted", b, r.Distinct, r.Generated, len(lines))
			if int64(len(lines)) < r.Generated-1 {
				fail(lib.Infra("TLC generated %d transitions but emitted %d behaviours", r.Generated, len(lines)))
				return
			}
			const W = 2
			lib.Parallel(W, W, func(w int) {
				rs, err := storex.OpenReusable(storex.DBPath(scratch, gi*100+w))
				if err != nil {
					fail(lib.Infra("open store: %v", err))
					return
				}
				defer rs.Close()
				n := 0
				for i := w; i < len(lines); i += W {
					var beh []Step
					if err := json.Unmarshal([]byte(lines[i]), &beh); err != nil {
						fail(lib.Infra("bad behaviour from TLC: %v", err))
						return
					}
					if err := rs.Reset(); err != nil {
						fail(lib.Infra("reset store: %v", err))
						return
					}
					if hung.Load() && usesDedup(beh) {
						continue // a watchdog fired before: do not pile up stuck moves; the run ends with exit 2 or 1
					}
					replayBehaviour(c, rs.Store, beh)
					n++
					if i < 2 && gi == 0 {
						c.Sample(beh)
					}
				}
				mu.Lock()
				nb += n
				mu.Unlock()
			})
		}(gi, b)
	}

	wg.Wait()
	if firstErr != nil {
		return firstErr
	}
	if hung.Load() {
		return lib.Infra("a cursor move of the real code did not return within 20s (watchdog; remaining de-duplicating walks were skipped)")
	}
	c.AddTraces(nb)
	c.Set("exhaustive", true)
	c.Set("g_behaviours", nb)
	c.Assume("TLC trusted; texts are token sequences (a, b, NUL+0xff, ' c', e-acute) mapped 1:1 to strings, prefix relation preserved; the database under the hybrid store is the real bbolt-backed store opened with NoSync (durability is C25); deleting a command below the frozen bound or adding a command in this session while a cursor is live makes that cursor's later results Unspecified (not compared; additions by other sessions must stay invisible and are compared); deleting a command added by this session and failing databases are outside the model; a new cursor sees the session's view of the moment it is made")
	return nil
}

func judge(c *lib.Ctx, dir, name string, hist [][]Event) error {
	bad, err := lib.JudgeGroups(c, name, dir, "TraceHistWalk", hist, 2, 14*time.Minute)
	if err != nil {
		return err
	}
	var flat []Event
	starts := []int{}
	for _, h := range hist {
		starts = append(starts, len(flat))
		flat = append(flat, h...)
	}
	for _, b := range bad {
		hi := 0
		for i, s := range starts {
			if s <= b.Index {
				hi = i
			}
		}
		ev := flat[b.Index]
		if len(b.Info) > 0 && b.Info[0] == "out-of-model" {
			return lib.Infra("generator produced an event the model has no action for: %+v", ev)
		}
		c.Reject(keyOf(ev.A, curDedup(flat[starts[hi]:b.Index+1])), fmt.Sprintf("recorded %s: Get=%+v n=%d; specification prescribes %v", ev.A, ev.Get, ev.N, b.Info), flat[starts[hi]:b.Index+1])
	}
	return nil
}

func usesDedup(beh []Step) bool {
	for _, s := range beh {
		if s.A == "NewCursor" && s.D {
			return true
		}
	}
	return false
}

// curDedup tells whether the cursor live at the end of the event list de-duplicates.
func curDedup(evs []Event) bool {
	d := false
	for _, e := range evs {
		if e.A == "NewCursor" {
			d = e.D
		}
	}
	return d
}

func keyOf(action string, dedup bool) string {
	if dedup {
		return "walk:" + action + ":dedup"
	}
	return "walk:" + action + ":plain"
}

// replayBehaviour runs a model behaviour on the real hybrid store over a fresh real database,
// comparing the cursor's Get with the prescribed result after every step.
func replayBehaviour(c *lib.Ctx, db histDB, beh []Step) bool {
	ops := ""
	for _, s := range beh {
		ops += fmt.Sprintf("%s(%v,%d,%v,%v);", s.A, s.T, s.S, s.P, s.D)
	}
	c.Distinct(ops)
	w := &world{db: db}
	dedup := false
	for k, s := range beh {
		if s.A == "NewCursor" {
			dedup = s.D
		}
		ev, err := w.do(s.Event())
		c.AddEvals(1)
		if err == errHang {
			hung.Store(true)
			return false
		}
		if err != nil {
			c.Reject("walk-error:"+s.A, fmt.Sprintf("step %d %s failed: %v", k+1, s.A, err), beh[:k+1])
			return false
		}
		if s.A == "AddHere" && ev.N != s.N {
			c.Reject("walk:AddHere:seq", fmt.Sprintf("step %d: hybrid store AddCmd returned seq %d, specification prescribes %d", k+1, ev.N, s.N), beh[:k+1])
			return false
		}
		if s.Chk {
			want := s.Get
			if want.T == nil {
				want.T = []int{}
			}
			if !reflect.DeepEqual(ev.Get, want) {
				c.Reject(keyOf(s.A, dedup), fmt.Sprintf("step %d %s: real cursor Get = %+v, specification prescribes %+v", k+1, s.A, ev.Get, want), beh[:k+1])
				return false
			}
		}
	}
	return true
}

func replay(c *lib.Ctx, dir, scratch string) error {
	b, err := os.ReadFile(c.Replay)
	if err != nil {
		return lib.Infra("%v", err)
	}
	var f struct {
		Case json.RawMessage `json:"case"`
	}
	if err := json.Unmarshal(b, &f); err != nil {
		return lib.Infra("%v", err)
	}
	// both stored forms (model behaviour with prescribed results / recorded events) carry the actions:
	// re-execute them on a fresh store and let TLC judge the new recording.
	var evs []Event
	if err := json.Unmarshal(f.Case, &evs); err != nil {
		return lib.Infra("%v", err)
	}
	st, err := storex.OpenNoSync(storex.DBPath(scratch, 0))
	if err != nil {
		return lib.Infra("%v", err)
	}
	defer st.Close()
	out, err := rerun(st, evs)
	if err == errHang {
		return lib.Infra("%v", err)
	}
	if err != nil {
		c.Reject("walk-error:replay", err.Error(), evs)
		return nil
	}
	return judge(c, dir, "TraceHistWalk(replay)", [][]Event{out})
}

func rerun(db histDB, evs []Event) (out []Event, err error) {
	w := &world{db: db}
	out = []Event{resetEvent()}
	for _, e := range evs {
		if e.A == "Reset" {
			continue
		}
		ev, err := w.do(e)
		if err != nil {
			return out, err
		}
		out = append(out, ev)
	}
	return out, nil
}
