// C35 — Markdown rendering is total and agrees with CommonMark on the supported subset.
//
// Agreement.  MdHtml.tla gives, for every document TREE of the generative model MdDoc.tla, the HTML
// the CommonMark specification prescribes (HtmlOf), or the reason why the tree is Unspecified.
//
//	M: TLC checks the theorems of MdHtml (tags balanced and nested, inline-only content in <p>/<hN>,
//	   variants do not change the HTML) on every finished document of the exhaustive scopes.
//	G: TLC enumerates (breadth-first) and draws (-simulate) documents and emits text + prescribed HTML;
//	   this executor renders the text with the real md.RenderString(&md.HTMLCodec{}) and records it.
//	   The 652 CommonMark spec examples shipped in the repository are G cases too, with the reference
//	   implementation's HTML as the prescribed outcome (same skip list as the repository's test).
//	V: JudgeMdHtml.tla (case walker) decides agreement up to the stated normalisation (Loosify).
//
// Totality.  Every input above, byte-level mutations of them and seeded random bytes are rendered
// with every codec under recover and a per-input watchdog; a panic is md:panic:<class>, a
// non-termination confirmed on re-run is md:non-termination.
package main

import (
	"crypto/sha256"
	"encoding/hex"
	"encoding/json"
	"fmt"
	"html"
	"os"
	"sort"
	"strings"
	"sync"
	"time"

	"src.elv.sh/pkg/md"
	"verif.local/harness/lib"
)

func main() { lib.Main("C35", run) }

// ---------------------------------------------------------------- generation (TLC)

type scope struct {
	MaxBlocks, MaxKids, MaxItems, MaxDepth, MaxInl, MaxNodes, MaxAtoms int
	Atoms, Joins, Leaves, Indents, Quotes, Lists, Atx, Trails, Wheel, AtomWheel, Gaps string
	Invariants                                                           []string
}

func (s scope) cfg() []byte {
	var b strings.Builder
	fmt.Fprintf(&b, "CONSTANTS\n MaxBlocks = %d\n MaxKids = %d\n MaxItems = %d\n MaxDepth = %d\n MaxInl = %d\n MaxNodes = %d\n MaxAtoms = %d\n",
		s.MaxBlocks, s.MaxKids, s.MaxItems, s.MaxDepth, s.MaxInl, s.MaxNodes, s.MaxAtoms)
	fmt.Fprintf(&b, " AtomPool <- %s\n JoinSet <- %s\n LeafPool <- %s\n Indents = %s\n QuoteShapes <- %s\n ListShapes <- %s\n AtxShapes <- %s\n Trails = %s\n KindWheel <- %s\n AtomWheel <- %s\n Gaps = %s\n",
		s.Atoms, s.Joins, s.Leaves, s.Indents, s.Quotes, s.Lists, s.Atx, s.Trails, s.Wheel, s.AtomWheel, s.Gaps)
	b.WriteString("INIT Init\nNEXT Next\n")
	for _, inv := range s.Invariants {
		fmt.Fprintf(&b, "INVARIANT %s\n", inv)
	}
	return []byte(b.String())
}

func (s scope) describe() map[string]any {
	return map[string]any{"MaxBlocks": s.MaxBlocks, "MaxKids": s.MaxKids, "MaxItems": s.MaxItems, "MaxDepth": s.MaxDepth,
		"MaxInl": s.MaxInl, "MaxNodes": s.MaxNodes, "MaxAtoms": s.MaxAtoms, "atoms": s.Atoms, "joins": s.Joins,
		"leaves": s.Leaves, "indents": s.Indents, "gaps": s.Gaps, "quotes": s.Quotes, "lists": s.Lists, "atx": s.Atx}
}

var mInvariants = []string{"HtmlOK", "EmitH"} // TypeOK, PartialOK, FinishedOK of the shared model are checked by C36 on the same scopes

func tinyScope() scope { // <= 2 blocks, <= 2 nodes, <= 2 atoms over the tiny pools
	return scope{2, 1, 2, 1, 2, 2, 2, "TinyAtoms", "CoreJoins", "TinyLeaves", "{0}", "TinyQuotes", "TinyLists", "TinyAtx",
		"{TRUE}", "FlatWheel", "FlatAtomWheel", "{0}", mInvariants}
}
func blankStartScope() scope { // empty items / items starting with a blank line, 1 or 2 blank lines, indented paragraph after; top level, in quotes, in items
	return scope{2, 2, 2, 2, 1, 3, 1, "WordOnly", "SpOnly", "NoLeaves", "{0, 2, 3}", "TinyQuotes", "BlankLists", "TinyAtx",
		"{TRUE}", "BlankWheel", "WordWheel", "{0, 1}", mInvariants}
}
func linkTailScope() scope { // one paragraph of <= 2 atoms: link / image destinations over parentheses in every order, titles in three styles
	return scope{1, 1, 1, 1, 2, 1, 2, "TailAtoms", "SpOnly", "NoLeaves", "{0}", "TinyQuotes", "TinyLists", "TinyAtx",
		"{TRUE}", "ParaWheel", "TailWheel", "{0}", mInvariants}
}
func codeLineScope() scope { // one code block (fenced with either character, or indented) whose lines look like closing fences; top level, in a quote, in an item
	return scope{1, 1, 1, 1, 1, 2, 0, "WordOnly", "SpOnly", "CodeLeaves", "{0, 2, 3}", "CoreQuotes", "TinyLists", "TinyAtx",
		"{TRUE}", "LeafWheel", "WordWheel", "{0}", mInvariants}
}
func lineStartScope() scope { // one paragraph: a word and tokens that look like block starts, soft breaks as written
	return scope{1, 1, 1, 1, 2, 1, 2, "LineStartAtoms", "LineJoins", "NoLeaves", "{0}", "TinyQuotes", "TinyLists", "TinyAtx",
		"{TRUE}", "ParaWheel", "LineAtomWheel", "{0}", mInvariants}
}
func entityScope() scope { // one paragraph of <= 2 atoms over character references and escapes
	return scope{1, 1, 1, 1, 2, 1, 2, "EntityAtoms", "CoreJoins", "NoLeaves", "{0}", "TinyQuotes", "TinyLists", "TinyAtx",
		"{TRUE}", "ParaWheel", "EntityAtomWheel", "{0}", mInvariants}
}
func breakScope() scope { // one paragraph X <hard break> Y over every kind of neighbour
	return scope{1, 1, 1, 1, 3, 1, 3, "BreakAtoms", "CoreJoins", "NoLeaves", "{0}", "TinyQuotes", "TinyLists", "TinyAtx",
		"{TRUE}", "ParaWheel", "BreakAtomWheel", "{0}", mInvariants}
}
func looseScope(nodes int) scope { // lists with two blocks per item / two items: the lists that are loose in CommonMark
	return scope{1, 2, 2, 2, 1, nodes, 2, "LooseAtoms", "CoreJoins", "TinyLeaves", "{0}", "TinyQuotes", "LooseLists", "TinyAtx",
		"{TRUE}", "LooseWheel", "LooseAtomWheel", "{0}", mInvariants}
}
func coreFlatScope() scope {
	return scope{2, 1, 2, 1, 2, 2, 2, "CoreAtoms", "CoreJoins", "CoreLeaves", "{0}", "CoreQuotes", "CoreLists", "TinyAtx",
		"{TRUE}", "FlatWheel", "FlatAtomWheel", "{0}", mInvariants}
}
func simScope() scope {
	return scope{3, 2, 2, 2, 3, 6, 9, "FullAtoms", "AllJoins", "FullLeaves", "{0, 1, 3}", "FullQuotes", "FullLists", "FullAtx",
		"{TRUE, FALSE}", "FullWheel", "FullAtomWheel", "{0, 1}", []string{"HtmlOK", "EmitH"}}
}

type genDoc struct {
	Lines  []string `json:"lines"`
	Trail  bool     `json:"trail"`
	Sig    string   `json:"sig"`
	Unspec string   `json:"unspec"`
	HTML   string   `json:"html"`
}

func (d genDoc) text() string {
	s := strings.Join(d.Lines, "\n")
	if d.Trail {
		s += "\n"
	}
	return s
}

func parseDocs(r *lib.TLCResult) ([]genDoc, error) {
	seen := map[string]bool{}
	var out []genDoc
	for _, s := range r.PrintedStrings() {
		if seen[s] {
			continue
		}
		seen[s] = true
		var d genDoc
		if err := json.Unmarshal([]byte(s), &d); err != nil {
			return nil, lib.Infra("bad document from TLC: %v: %s", err, s)
		}
		if len(d.Lines) == 0 || (d.Unspec == "" && d.HTML == "") {
			return nil, lib.Infra("malformed document from TLC: %s", s)
		}
		out = append(out, d)
	}
	return out, nil
}

// ---------------------------------------------------------------- cases

type input struct {
	Src  string `json:"src"` // gen-exhaustive | gen-random | spec
	Name string `json:"name"`
	Text string `json:"text"`
	Want string `json:"want"`
	Sig  string `json:"sig,omitempty"`
	// spec examples are rendered with md.UnescapeHTML = html.UnescapeString like the repository's test
	FullEntities bool `json:"fullEntities"`
}

type caseRec struct {
	ID   int    `json:"id"`
	Got  string `json:"got"`
	Want string `json:"want"`
	Gb   []int  `json:"gb"` // bytes, only when the strings differ (the judge reads them only then)
	Wb   []int  `json:"wb"`
}

func toBytes(s string) []int {
	b := make([]int, len(s))
	for i := 0; i < len(s); i++ {
		b[i] = int(s[i])
	}
	return b
}

func hash8(s string) string {
	h := sha256.Sum256([]byte(s))
	return hex.EncodeToString(h[:4])
}

// agreement renders every input with the real HTMLCodec and lets the TLA+ judge compare.
func agreement(c *lib.Ctx, dir string, ins []input, stats map[string]int) error {
	var cases []caseRec
	var owners []input
	unescapeDefault := md.UnescapeHTML
	defer func() { md.UnescapeHTML = unescapeDefault }()
	for pass := 0; pass < 2; pass++ { // the entity decoder is a package variable: one pass per setting
		if pass == 1 {
			md.UnescapeHTML = html.UnescapeString
		}
		for _, in := range ins {
			if in.FullEntities != (pass == 1) {
				continue
			}
			got, pn := renderWith(in.Text, &md.HTMLCodec{}, "html")
			c.AddEvals(1)
			if pn != nil {
				c.Reject("md:panic:"+pn.class(), fmt.Sprintf("md.RenderString (html codec) panics: %s on input %q", pn.Msg, in.Text), in)
				continue
			}
			rec := caseRec{ID: len(cases), Got: got, Want: in.Want, Gb: []int{}, Wb: []int{}}
			if got != in.Want {
				rec.Gb, rec.Wb = toBytes(got), toBytes(in.Want)
			}
			cases = append(cases, rec)
			owners = append(owners, in)
			stats["judged_"+in.Src]++
			c.Distinct(in.Text)
		}
	}
	md.UnescapeHTML = unescapeDefault
	// vacuity guard: corrupted recordings must be rejected, their originals accepted
	nv := 0
	for i := 0; i < len(owners) && nv < 4; i += 1 + len(owners)/5 {
		r := cases[i]
		r.Got = strings.Replace(r.Got, ">", "> ", 1) + "x"
		r.Gb, r.Wb = toBytes(r.Got), toBytes(r.Want)
		cases = append(cases, r)
		owners = append(owners, input{Src: "vacuity", Name: "vacuity"})
		nv++
	}
	vacRejected := 0
	const batch = 20000
	for lo := 0; lo < len(cases); lo += batch {
		hi := lo + batch
		if hi > len(cases) {
			hi = len(cases)
		}
		bad, err := lib.Judge(c, "JudgeMdHtml", dir, "JudgeMdHtml", cases[lo:hi], 4, 40*time.Minute)
		if err != nil {
			return err
		}
		c.AddTraces(hi - lo)
		for _, b := range bad {
			in, rec := owners[lo+b.Index], cases[lo+b.Index]
			if in.Src == "vacuity" {
				vacRejected++
				continue
			}
			stats["rejected_"+in.Src]++
			c.Reject(keyOf(in), fmt.Sprintf("HTML differs from CommonMark for %q [%s]: rendered %q, prescribed %q", in.Text, in.Name, rec.Got, rec.Want), in)
		}
	}
	if vacRejected != nv || nv == 0 {
		return lib.Infra("vacuity guard: %d of %d corrupted recordings rejected", vacRejected, nv)
	}
	c.Set("vacuity_guard", fmt.Sprintf("%d corrupted recordings rejected", nv))
	return nil
}

// keyOf gives the structural key of a disagreement: the known-finding classes first.
func keyOf(in input) string {
	if in.Src == "spec" {
		return "spec-example:" + in.Name
	}
	if in.Src == "emph" {
		return in.Name // emph:<text>
	}
	if strings.Contains(in.Text, "&quote;") {
		return "entity:&quote;"
	}
	return "html:" + in.Sig
}

// ---------------------------------------------------------------- run

func run(c *lib.Ctx) error {
	dir := c.SpecDir("MdDoc")
	stats := map[string]int{}
	if c.Replay != "" {
		return replay(c, dir, stats)
	}
	c.Set("rule", "agreement: a case is one Markdown input with the prescribed HTML (tree of the model, or reference output of a spec example) and the HTML the real renderer returned; distinct by input text; every case is non-trivial (it has a prescribed rendering). Totality inputs are counted separately (totality_*)")

	type named struct {
		name string
		sc   scope
	}
	exhs := []named{{"tiny", tinyScope()}, {"line-starts", lineStartScope()}, {"blank-start", blankStartScope()}, {"link-tails", linkTailScope()}, {"code-lines", codeLineScope()}, {"entities", entityScope()}, {"hard-breaks", breakScope()}, {"loose-lists", looseScope(c.Pick(3, 4))}}
	if c.Thorough() {
		exhs = append(exhs, named{"core-flat", coreFlatScope()})
	}
	sim := simScope()
	if c.Thorough() {
		sim.MaxDepth, sim.MaxNodes, sim.MaxAtoms = 3, 7, 10
	}
	nSim := c.Pick(1, 6)
	perSim := c.Pick(300, 3500)
	bounds := map[string]any{"random": sim.describe(), "random_runs": nSim, "random_walks_per_run": perSim}
	for _, e := range exhs {
		bounds["exhaustive "+e.name] = e.sc.describe()
	}
	c.Set("bounds", bounds)

	guard := 40 * time.Minute
	exhDocs := make([][]genDoc, len(exhs))
	simDocs := make([][]genDoc, nSim)
	errs := make([]error, nSim+len(exhs))
	exhCount := map[string]any{}
	var emu sync.Mutex
	var wg sync.WaitGroup
	slots := make(chan struct{}, 4)
	runOne := func(slot int, name string, tr lib.TLCRun, keep func([]genDoc, *lib.TLCResult)) {
		defer wg.Done()
		slots <- struct{}{}
		defer func() { <-slots }()
		r, err := c.TLC(name, tr)
		if err != nil {
			errs[slot] = err
			return
		}
		if r.ErrKind != "" {
			errs[slot] = lib.Infra("the model (%s) violates %s %s:\n%s", name, r.ErrKind, r.ErrName, r.ErrTrace)
			return
		}
		docs, err := parseDocs(r)
		if err != nil {
			errs[slot] = err
			return
		}
		keep(docs, r)
	}
	for i := 0; i < nSim; i++ {
		wg.Add(1)
		i := i
		go runOne(i, "MCMdHtml random", lib.TLCRun{Dir: dir, Module: "MCMdHtml", Cfg: "gen.cfg", Workers: 1,
			Simulate: fmt.Sprintf("num=%d", perSim), Depth: 150, Seed: c.Seed*1000 + int64(i) + 1,
			Timeout: guard, HeapGB: 3, Files: map[string][]byte{"gen.cfg": sim.cfg()}}, func(d []genDoc, r *lib.TLCResult) { simDocs[i] = d })
	}
	for i, e := range exhs {
		wg.Add(1)
		i, e := i, e
		go runOne(nSim+i, "MCMdHtml exhaustive "+e.name, lib.TLCRun{Dir: dir, Module: "MCMdHtml", Cfg: "gen.cfg", Workers: 2,
			Timeout: guard, HeapGB: 6, Files: map[string][]byte{"gen.cfg": e.sc.cfg()}}, func(d []genDoc, r *lib.TLCResult) {
			exhDocs[i] = d
			emu.Lock()
			exhCount[e.name] = map[string]any{"documents": len(d), "states": r.Distinct}
			emu.Unlock()
		})
	}
	var emphIns []input
	var emphErr error
	wg.Add(1)
	go func() {
		defer wg.Done()
		slots <- struct{}{}
		defer func() { <-slots }()
		emphIns, emphErr = enumerateEmphasis(c, dir)
	}()
	wg.Wait()
	if emphErr != nil {
		return emphErr
	}
	for _, err := range errs {
		if err != nil {
			return err
		}
	}
	c.Set("exhaustive", true)
	c.Set("exhaustive_scopes", exhCount)

	var ins []input
	var allTexts []string
	seen := map[string]bool{}
	unspec := map[string]int{}
	add := func(src string, d genDoc) {
		t := d.text()
		if seen[t] {
			return
		}
		seen[t] = true
		allTexts = append(allTexts, t)
		if d.Unspec != "" {
			unspec[d.Unspec]++
			return
		}
		ins = append(ins, input{Src: src, Name: src + ":" + hash8(t), Text: t, Want: d.HTML, Sig: d.Sig})
	}
	for _, ds := range exhDocs {
		for _, d := range ds {
			add("gen-exhaustive", d)
		}
	}
	nExh := len(ins)
	for _, ds := range simDocs {
		for _, d := range ds {
			add("gen-random", d)
		}
	}
	if nExh == 0 || len(ins) == nExh {
		return lib.Infra("a generator produced no specified documents (exhaustive %d, random %d)", nExh, len(ins)-nExh)
	}
	c.Set("generated_specified", map[string]int{"exhaustive": nExh, "random": len(ins) - nExh})
	c.Set("generated_unspecified", unspec)
	c.Logf("generated: %d exhaustive + %d random specified documents; unspecified %v", nExh, len(ins)-nExh, unspec)
	for i := 0; i < 3; i++ {
		c.Sample(ins[(i*7919)%len(ins)])
	}

	// ---- the CommonMark spec examples with the reference output
	specIns, err := loadSpecCorpus(c.Repo)
	if err != nil {
		return err
	}
	skipped := map[string]int{}
	for _, ci := range specIns {
		allTexts = append(allTexts, ci.Text)
		if why := ci.skipReason(); why != "" {
			skipped[why]++
			continue
		}
		if strings.Contains(ci.HTML, "%C3%") || strings.Contains(ci.HTML, "%C2%") {
			skipped["percent-encoding of non-ASCII URL bytes (the repository's test substitutes its own URL escaper)"]++
			continue
		}
		ins = append(ins, input{Src: "spec", Name: ci.Name, Text: ci.Text, Want: ci.HTML, FullEntities: true})
	}
	c.Set("spec_examples", map[string]any{"total": len(specIns), "skipped": skipped})

	for _, in := range emphIns {
		allTexts = append(allTexts, in.Text)
	}
	ins = append(ins, emphIns...)
	if err := agreement(c, dir, ins, stats); err != nil {
		return err
	}
	if err := judgeEmphasisExamples(c, dir, specIns, stats); err != nil {
		return err
	}

	// ---- totality
	fuzzIns, err := loadFuzzCorpus(c.Repo)
	if err != nil {
		return err
	}
	for _, ci := range fuzzIns {
		allTexts = append(allTexts, ci.Text)
	}
	for _, s := range supplemental {
		allTexts = append(allTexts, s)
	}
	totality(c, allTexts, stats)

	for k, v := range stats {
		c.Set(k, v)
	}
	c.Assume("no independent CommonMark implementation is available offline: agreement is decided on the generated subset by MdHtml.tla, a TLA+ transcription of the CommonMark rendering rules calibrated against the reference outputs of the 652 spec examples shipped in the repository, plus those examples themselves")
	c.Assume("TLC is trusted; spec examples are rendered with md.UnescapeHTML = html.UnescapeString exactly like the repository's own test (full HTML5 entity table), generated documents with the default decoder")
	c.Assume("totality is sampled (corpora, generated documents, seeded mutations and random bytes), not proved; a hang is reported only when a re-run with a 10x limit does not finish either")
	return nil
}

func replay(c *lib.Ctx, dir string, stats map[string]int) error {
	b, err := os.ReadFile(c.Replay)
	if err != nil {
		return lib.Infra("%v", err)
	}
	var f struct {
		Case json.RawMessage `json:"case"`
	}
	if err := json.Unmarshal(b, &f); err != nil {
		return lib.Infra("%v", err)
	}
	var in input
	if err := json.Unmarshal(f.Case, &in); err == nil && in.Want != "" {
		return agreement(c, dir, []input{in, in, in, in, in}[:1], stats)
	}
	var t totInput
	if err := json.Unmarshal(f.Case, &t); err != nil {
		return lib.Infra("%v", err)
	}
	totalityOne(c, t)
	return nil
}

func sortedKeys(m map[string]int) []string {
	var ks []string
	for k := range m {
		ks = append(ks, k)
	}
	sort.Strings(ks)
	return ks
}
