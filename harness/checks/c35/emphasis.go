package main

// Flat inline texts for Emphasis.tla (CommonMark 6.2, the delimiter-run algorithm on inputs that are
// not well-nested trees): TLC enumerates every text over three small alphabets with the prescribed
// HTML (G); the emphasis examples of the shipped CommonMark spec are judged against the same module
// (V), which also calibrates the transcription against the reference outputs.

import (
	"encoding/json"
	"fmt"
	"regexp"
	"time"

	"src.elv.sh/pkg/md"
	"verif.local/harness/lib"
)

type emphCase struct {
	Text string `json:"text"`
	HTML string `json:"html"`
}

func emphasisCfg(l1, l2, l3 int) []byte {
	return []byte(fmt.Sprintf("CONSTANTS\n L1 = %d\n L2 = %d\n L3 = %d\nINIT Init\nNEXT Next\nINVARIANT EmphOK\nINVARIANT Emit\n", l1, l2, l3))
}

// enumerateEmphasis returns the texts with the HTML Emphasis.tla prescribes.
func enumerateEmphasis(c *lib.Ctx, dir string) ([]input, error) {
	l1, l2, l3 := c.Pick(10, 13), c.Pick(7, 9), c.Pick(5, 7)
	r, err := c.TLC("MCEmphasis", lib.TLCRun{Dir: dir, Module: "MCEmphasis", Cfg: "emph.cfg", Workers: 2,
		Timeout: 40 * time.Minute, HeapGB: 6, Files: map[string][]byte{"emph.cfg": emphasisCfg(l1, l2, l3)}})
	if err != nil {
		return nil, err
	}
	if r.ErrKind != "" {
		return nil, lib.Infra("Emphasis.tla violates its own theorems: %s %s\n%s", r.ErrKind, r.ErrName, r.ErrTrace)
	}
	seen := map[string]bool{}
	var out []input
	for _, s := range r.PrintedStrings() {
		var e emphCase
		if err := json.Unmarshal([]byte(s), &e); err != nil || e.Text == "" || e.HTML == "" {
			return nil, lib.Infra("bad emphasis case from TLC: %v: %s", err, s)
		}
		if seen[e.Text] {
			continue
		}
		seen[e.Text] = true
		out = append(out, input{Src: "emph", Name: "emph:" + e.Text, Text: e.Text + "\n", Want: e.HTML, Sig: e.Text})
	}
	if int64(len(out)) != r.Distinct {
		return nil, lib.Infra("MCEmphasis: TLC enumerated %d texts, received %d", r.Distinct, len(out))
	}
	c.Set("emphasis_texts", map[string]any{"count": len(out), "max_len_{*,a}": l1, "max_len_{*,_,a}": l2, "max_len_{*,_,a,space,!}": l3})
	return out, nil
}

type emphChar struct {
	S string `json:"s"`
	C string `json:"c"`
}
type emphSpecCase struct {
	Chars []emphChar `json:"chars"`
	Want  string     `json:"want"`
	Got   string     `json:"got"`
}

var (
	emphLine   = regexp.MustCompile(`^[A-Za-z0-9 *_!'(),.:;?$/=-]+\n$`)
	onePara    = regexp.MustCompile(`^<p>[^\n]*</p>\n$`)
	blockStart = regexp.MustCompile(`^(?:[-+*]( |$)|[0-9]+[.)]( |$)|#{1,6}( |$)|=+ *$|-+ *$| )`)
)

// judgeEmphasisExamples feeds the single-line ASCII examples of the spec's emphasis section through
// JudgeEmph: the transcription must reproduce the reference output, the real renderer must too.
func judgeEmphasisExamples(c *lib.Ctx, dir string, specs []corpusInput, stats map[string]int) error {
	var cases []emphSpecCase
	var owners []corpusInput
	for _, ci := range specs {
		if ci.Section != "Emphasis and strong emphasis" || !emphLine.MatchString(ci.Text) || !onePara.MatchString(ci.HTML) ||
			blockStart.MatchString(ci.Text) || ci.skipReason() != "" {
			continue
		}
		line := ci.Text[:len(ci.Text)-1]
		if line[len(line)-1] == ' ' {
			continue
		}
		ec := emphSpecCase{Want: ci.HTML}
		for i := 0; i < len(line); i++ {
			b := line[i]
			cl := "p"
			switch {
			case b == '*' || b == '_':
				cl = string(b)
			case b == ' ':
				cl = "s"
			case b >= '0' && b <= '9', b >= 'a' && b <= 'z', b >= 'A' && b <= 'Z':
				cl = "w"
			}
			ec.Chars = append(ec.Chars, emphChar{S: string(b), C: cl})
		}
		got, pn := renderWith(ci.Text, &md.HTMLCodec{}, "html")
		if pn != nil {
			continue // reported by the agreement pass
		}
		ec.Got = got
		cases = append(cases, ec)
		owners = append(owners, ci)
	}
	if len(cases) < 50 {
		return lib.Infra("only %d emphasis examples of the spec are usable for calibration", len(cases))
	}
	bad, err := lib.Judge(c, "JudgeEmph", dir, "JudgeEmph", cases, 1, 20*time.Minute)
	if err != nil {
		return err
	}
	c.AddTraces(len(cases))
	stats["emphasis_spec_examples_judged"] = len(cases)
	for _, b := range bad {
		ci := owners[b.Index]
		what, _ := b.Info[0].(string)
		if what == "ref" {
			return lib.Infra("Emphasis.tla disagrees with the reference output of %s (%q): transcription defect", ci.Name, ci.Text)
		}
		c.Reject("emph:"+ci.Text[:len(ci.Text)-1], fmt.Sprintf("emphasis of %q [%s]: rendered %q, CommonMark (Emphasis.tla = reference output) %q", ci.Text, ci.Name, cases[b.Index].Got, ci.HTML), ci)
	}
	return nil
}
