package main

// Totality half of C35: md.RenderString terminates without crashing on every input, with every codec.
// Each render runs under recover and a watchdog; a render that exceeds the limit is run again with
// ten times the limit before it is reported (timing alone never decides: a confirmed hang means the
// second, generous run did not finish either).

import (
	"fmt"
	"math/rand"
	"runtime/debug"
	"strings"
	"time"

	"src.elv.sh/pkg/md"
	"verif.local/harness/lib"
)

type panicInfo struct {
	Codec string
	Msg   string
	Stack string
}

func (p *panicInfo) class() string {
	m := p.Msg
	switch {
	case strings.Contains(m, "index out of range"):
		m = "index-out-of-range"
	case strings.Contains(m, "slice bounds out of range"):
		m = "slice-bounds"
	case strings.Contains(m, "nil pointer"):
		m = "nil-pointer"
	case strings.Contains(m, "unreachable"):
		m = "unreachable"
	default:
		if len(m) > 40 {
			m = m[:40]
		}
		m = strings.Map(func(r rune) rune {
			if r == ' ' || r == ':' {
				return '-'
			}
			return r
		}, m)
	}
	return p.Codec + ":" + m
}

func renderWith(text string, codec md.StringerCodec, name string) (out string, p *panicInfo) {
	defer func() {
		if r := recover(); r != nil {
			p = &panicInfo{Codec: name, Msg: fmt.Sprint(r), Stack: string(debug.Stack())}
		}
	}()
	return md.RenderString(text, codec), nil
}

var codecs = []struct {
	name string
	mk   func() md.StringerCodec
}{
	{"html", func() md.StringerCodec { return &md.HTMLCodec{} }},
	{"fmt", func() md.StringerCodec { return &md.FmtCodec{} }},
	{"fmt-w20", func() md.StringerCodec { return &md.FmtCodec{Width: 20} }},
	{"tty", func() md.StringerCodec { return &md.TTYCodec{Width: 40} }},
	{"trace", func() md.StringerCodec { return &md.TraceCodec{} }},
}

type totInput struct {
	Kind string `json:"kind"` // corpus | mutation | random
	Text string `json:"text"`
}

// renderAll renders t with every codec; returns the first panic, or "" / the codec that timed out.
func renderAll(text string, limit time.Duration) (pn *panicInfo, hung string) {
	for _, cd := range codecs {
		done := make(chan *panicInfo, 1)
		go func() {
			_, p := renderWith(text, cd.mk(), cd.name)
			done <- p
		}()
		select {
		case p := <-done:
			if p != nil {
				return p, ""
			}
		case <-time.After(limit):
			return nil, cd.name
		}
	}
	return nil, ""
}

func totalityOne(c *lib.Ctx, t totInput) (ok bool) {
	c.AddEvals(len(codecs))
	pn, hung := renderAll(t.Text, 5*time.Second)
	if hung != "" {
		pn, hung = renderAll(t.Text, 50*time.Second) // confirm on a generous re-run
	}
	switch {
	case pn != nil:
		c.Reject("md:panic:"+pn.class(), fmt.Sprintf("md.RenderString (%s codec) panics: %s on %s input %q", pn.Codec, pn.Msg, t.Kind, t.Text), t)
		return false
	case hung != "":
		c.Reject("md:non-termination", fmt.Sprintf("md.RenderString (%s codec) does not terminate within 50 s (confirmed on re-run) on %s input %q", hung, t.Kind, t.Text), t)
		return false
	}
	return true
}

const metaBytes = "*_`[]()<>!\\&#-+=~>\t\r\n\x00\xff\xc3 :;\"'/?.1{}|"

func mutate(rnd *rand.Rand, s string) string {
	b := []byte(s)
	n := 1 + rnd.Intn(3)
	for ; n > 0; n-- {
		switch rnd.Intn(6) {
		case 0: // truncate
			if len(b) > 0 {
				b = b[:rnd.Intn(len(b))]
			}
		case 1: // insert a metacharacter (incl. tab, CR, NUL, invalid UTF-8)
			i := rnd.Intn(len(b) + 1)
			b = append(b[:i], append([]byte{metaBytes[rnd.Intn(len(metaBytes))]}, b[i:]...)...)
		case 2: // delete a byte
			if len(b) > 0 {
				i := rnd.Intn(len(b))
				b = append(b[:i], b[i+1:]...)
			}
		case 3: // duplicate a slice
			if len(b) > 1 {
				i := rnd.Intn(len(b))
				j := i + rnd.Intn(len(b)-i)
				b = append(b[:j], append(append([]byte{}, b[i:j]...), b[j:]...)...)
			}
		case 4: // replace a byte
			if len(b) > 0 {
				b[rnd.Intn(len(b))] = metaBytes[rnd.Intn(len(metaBytes))]
			}
		case 5: // drop the line structure: newline <-> space
			if len(b) > 0 {
				i := rnd.Intn(len(b))
				if b[i] == '\n' {
					b[i] = ' '
				} else if b[i] == ' ' {
					b[i] = '\n'
				}
			}
		}
	}
	return string(b)
}

func randomBytes(rnd *rand.Rand) string {
	n := 1 + rnd.Intn(64)
	b := make([]byte, n)
	for i := range b {
		if rnd.Intn(4) == 0 {
			b[i] = byte(rnd.Intn(256))
		} else {
			b[i] = metaBytes[rnd.Intn(len(metaBytes))]
		}
	}
	return string(b)
}

// totality feeds the collected texts, mutations of them and random bytes through every codec.
func totality(c *lib.Ctx, texts []string, stats map[string]int) {
	rnd := rand.New(rand.NewSource(c.Seed))
	var ins []totInput
	for _, t := range texts {
		ins = append(ins, totInput{"corpus", t})
	}
	nMut := c.Pick(20000, 200000)
	for i := 0; i < nMut; i++ {
		ins = append(ins, totInput{"mutation", mutate(rnd, texts[rnd.Intn(len(texts))])})
	}
	nRand := c.Pick(5000, 50000)
	for i := 0; i < nRand; i++ {
		ins = append(ins, totInput{"random", randomBytes(rnd)})
	}
	bad := 0
	var mu = make(chan struct{}, 1)
	lib.Parallel(len(ins), 8, func(i int) {
		if !totalityOne(c, ins[i]) {
			mu <- struct{}{}
			bad++
			<-mu
		}
	})
	stats["totality_inputs_corpus_and_generated"] = len(texts)
	stats["totality_inputs_mutations"] = nMut
	stats["totality_inputs_random"] = nRand
	stats["totality_codecs"] = len(codecs)
	stats["totality_failures"] = bad
}
