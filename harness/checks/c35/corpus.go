package main

// The checked-in corpora of pkg/md, read at run time from the repository under test:
// the CommonMark spec examples (spec/spec.json) and the fuzz corpus (testdata/fuzz/*/*).
// For the spec examples the reference implementation's HTML is the prescribed outcome.

import (
	"encoding/json"
	"os"
	"path/filepath"
	"sort"
	"strconv"
	"strings"

	"verif.local/harness/lib"
)

type corpusInput struct {
	Name    string
	Text    string
	HTML    string // reference implementation's output (spec examples only)
	Section string
	Example int
	Widths  []int
}

// skipReason is the skip list of the repository's own HTML test (pkg/md/testutils_test.go):
// the documented omissions of pkg/md.
func (c corpusInput) skipReason() string {
	switch c.Section {
	case "Tabs", "Setext headings", "Link reference definitions":
		return "section not supported"
	}
	switch c.Example {
	case 59, 115, 141, 300:
		return "setext heading not supported"
	case 23, 33, 317,
		527, 528, 529, 530, 531, 532, 533, 534, 535, 536, 537, 538, 539, 540, 541, 542, 543, 544, 545, 549, 550, 553, 554, 555, 556, 557, 558, 559, 560, 561, 562, 563, 564, 565, 566, 567, 568, 569, 570, 571, 573, 576, 577,
		582, 583, 584, 585, 586, 587, 588, 589, 591, 592, 593:
		return "link reference definitions not supported"
	case 294, 296, 307, 318, 319, 320, 321, 323:
		return "tight list not supported"
	}
	return ""
}

func loadSpecCorpus(repo string) ([]corpusInput, error) {
	b, err := os.ReadFile(filepath.Join(repo, "pkg/md/spec/spec.json"))
	if err != nil {
		return nil, lib.Infra("spec corpus: %v", err)
	}
	var cases []struct {
		Markdown string `json:"markdown"`
		HTML     string `json:"html"`
		Example  int    `json:"example"`
		Section  string `json:"section"`
	}
	if err := json.Unmarshal(b, &cases); err != nil {
		return nil, lib.Infra("spec corpus: %v", err)
	}
	var out []corpusInput
	for _, c := range cases {
		out = append(out, corpusInput{Name: "spec:" + strconv.Itoa(c.Example), Text: c.Markdown, HTML: c.HTML, Section: c.Section, Example: c.Example})
	}
	return out, nil
}

// parseFuzzFile reads the "go test fuzz v1" encoding: one Go literal per line, string(...) or int(...).
func parseFuzzFile(b []byte) (text string, width int, hasWidth, ok bool) {
	lines := strings.Split(strings.TrimRight(string(b), "\n"), "\n")
	if len(lines) < 2 || !strings.HasPrefix(lines[0], "go test fuzz v1") {
		return
	}
	for _, l := range lines[1:] {
		switch {
		case strings.HasPrefix(l, "string(") && strings.HasSuffix(l, ")"):
			s, err := strconv.Unquote(l[len("string(") : len(l)-1])
			if err != nil {
				return
			}
			text, ok = s, true
		case strings.HasPrefix(l, "int(") && strings.HasSuffix(l, ")"):
			n, err := strconv.Atoi(l[len("int(") : len(l)-1])
			if err != nil {
				return "", 0, false, false
			}
			width, hasWidth = n, true
		}
	}
	return
}

func loadFuzzCorpus(repo string) ([]corpusInput, error) {
	root := filepath.Join(repo, "pkg/md/testdata/fuzz")
	files, err := filepath.Glob(filepath.Join(root, "*", "*"))
	if err != nil {
		return nil, lib.Infra("fuzz corpus: %v", err)
	}
	sort.Strings(files)
	var out []corpusInput
	for _, f := range files {
		b, err := os.ReadFile(f)
		if err != nil {
			return nil, lib.Infra("fuzz corpus: %v", err)
		}
		text, w, hasW, ok := parseFuzzFile(b)
		if !ok {
			return nil, lib.Infra("fuzz corpus: cannot parse %s", f)
		}
		in := corpusInput{Name: "fuzz:" + filepath.Base(filepath.Dir(f)) + "/" + filepath.Base(f)[:12], Text: text}
		if hasW && w > 0 && w <= 200 {
			in.Widths = []int{w}
		}
		out = append(out, in)
	}
	return out, nil
}

// The supplemental inputs of the repository's own formatter tests (fmt_test.go, testutils_test.go);
// inputs only, copied here because test files cannot be imported.
var supplemental = []string{
	"~~~ ~`\n~~~", "*&#32;x*", "*x&#32;*", "&#65;*!*", "*!*&#65;", "*&#32;*", `\![a](b)`,
	`[a](b ('"))`, `[a](b "\"''()")`, `[a](b '\'""()')`, `[a](b (\(''""))`, `[a](<&NewLine;>)`,
	"&#32;foo", "foo&#32;", "# title {#id}", "- ```\n  a\n\n  ```\n", "> <pre>\n\na\n", "- <pre>\n a\n",
	"> a\n>> b\n", ">> a\n>\n> b\n", "- \n  \na\n", "a\n- -\n", "a\n- 2.\n", `a*$*`, `[a](\&gt;)`,
	`[a](b (\&gt;))`, `[a](http://( "b")`, `[a](b (()))`, `[a](http://b?c&d)`, "![a\\\nb](c.png)\n",
	"![a <a></a>](b.png)", `<http://&gt;>`, `a<`, `a<!--`, "a  \n",
}

func loadSupplemental() []corpusInput {
	var out []corpusInput
	for i, s := range supplemental {
		out = append(out, corpusInput{Name: "suppl:" + strconv.Itoa(i), Text: s})
	}
	return out
}
