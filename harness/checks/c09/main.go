// C09 — eq is an equivalence; compare is a consistent total preorder.
//
//	M  MCOrder.tla: the documented relations (Values.tla: EqDoc, CmpDoc, CmpTotalDoc) satisfy the
//	   theorems of Order.tla on the reviewed pool (+ generated containers in the thorough tier).
//	G  GenPairs.tla: every ordered pair of the pool with the prescribed eq / compare / compare &total /
//	   < <= == outcome, replayed through vals.Equal, vals.Cmp, vals.CmpTotal and the builtins, on
//	   several differently constructed representatives of each value.
//	V  seeded random triples of related values -> relation matrices observed on the real code ->
//	   JudgeTriples.tla checks agreement with the documentation (numbers ranked by math/big) and
//	   the theorems on the OBSERVED relations.
//
// The Go code holds no oracle: it concretises terms, runs the real code, and compares with / records
// for TLC.  Rejected cases are classified for known-finding keys by a second TLC pass ("explain").
package main

import (
	"encoding/json"
	"fmt"
	"os"
	"sort"
	"strings"
	"time"

	"verif.local/harness/checks/c09/valpool"
	"verif.local/harness/lib"
)

const (
	keyCoincide = "cmp:mixed-exact-inexact:float-images-coincide"
	keyInfImage = "cmp:mixed-exact-inexact:big-integer-image-is-infinite"
)

func main() { lib.Main("C09", run) }

type pairExp struct {
	A         int  `json:"a"`
	B         int  `json:"b"`
	Eq        bool `json:"eq"`
	Cmp       int  `json:"cmp"`
	Tot       int  `json:"tot"`
	Num       bool `json:"num"`
	Lt        bool `json:"lt"`
	Le        bool `json:"le"`
	Ne        bool `json:"ne"`
	RelUnspec bool `json:"relunspec"`
}

// tcase is one case for JudgeTriples.tla.
type tcase struct {
	Vals []*valpool.Term `json:"vals"`
	Obs
	To     [][]int `json:"to"`
	Via    string  `json:"via"`
	Numrel bool    `json:"numrel"`
	conc   []any   // the real values observed (not recorded)
}

// rejected is a pair whose observed relations the specification rejects, waiting for classification.
type rejected struct {
	a, b   *valpool.Term
	va, vb any // the real values
	obs    Obs // 2-tuple observation (a, b)
	via    string
	what   string
	fields []string // which relations disagreed
	replay any
}

type session struct {
	c       *lib.Ctx
	b       *valpool.Builder
	dir     string
	to      [][]int // observed type-order table (1-based types of Values.tla -> 0-based here)
	rej     []rejected
	lawRej  []lawRejected
	nReject int
}

type lawRejected struct {
	tc    tcase
	laws  []string
	pairs [][2]int // agree-failures (0-based) of the same case
}

var typeNames = []string{"nil", "bool", "num", "str", "list", "map", "fn", "ns"}

func typeIdx(t string) int {
	for i, n := range typeNames {
		if n == t {
			return i
		}
	}
	return -1
}

func run(c *lib.Ctx) error {
	dir := c.SpecDir("Values")
	b, err := valpool.NewBuilder()
	if err != nil {
		return lib.Infra("builder: %v", err)
	}
	s := &session{c: c, b: b, dir: dir}
	if c.Replay != "" {
		return s.replay()
	}
	c.Set("rule", "a case is an ordered pair / a triple of value terms; distinct by the rendered terms; pairs (x, x) of one atom and triples of three unrelated atoms of different types are trivial and not counted")

	// ---- M (runs concurrently with G and V)
	mdone := make(chan error, 1)
	go func() { mdone <- s.model() }()

	// ---- G
	if err := s.generate(); err != nil {
		<-mdone
		return err
	}
	// ---- V
	if err := s.validate(); err != nil {
		<-mdone
		return err
	}
	// ---- classification of everything rejected
	if err := s.classify(); err != nil {
		<-mdone
		return err
	}
	if err := <-mdone; err != nil {
		return err
	}
	c.Assume("TLC is trusted; EqDoc/CmpDoc/CmpTotalDoc are the reading of the builtin documentation of eq, compare, < <= == and the language reference")
	c.Assume("the mathematical order of numbers is data for TLC: hand-written rank table for the pool (re-derived with math/big before every run), ranks computed with math/big per recorded case")
	c.Assume("the order between different types under compare &total is unspecified: only its consistency (strict total order of the 8 types, same sign for every pair of those types) is required; NaN operands of < <= == are unspecified")
	c.Assume("64-bit platform: Go int = int64")
	return nil
}

// ---------------------------------------------------------------------------------------------
// M

func (s *session) model() error {
	c := s.c
	if os.Getenv("VERIF_DEV_SKIP") == "M" { // development only (mutant trials): M does not depend on /repo
		return nil
	}
	type cfg struct {
		name             string
		gen, ntr, direct int
	}
	cfgs := []cfg{{"MCOrder(pool)", 0, 2, 0}}
	if c.Thorough() {
		cfgs = []cfg{{"MCOrder(pool,3 type orders,O(n^3) laws)", 0, 3, 1}, {"MCOrder(pool+generated)", 1, 2, 0}}
	}
	invs := []string{"WellFormed", "LEqRefl", "LEqSym", "LEqTrans", "LEqCmp0", "LCmpAnti", "LCmpTrans", "LTotTotal", "LTotAnti",
		"LTotTrans", "LTotAgrees", "LTotGrouped", "LTotRanked", "LTotGroupedR", "LNumTotal"}
	for _, g := range cfgs {
		text := fmt.Sprintf("CONSTANT GEN = %d\nCONSTANT NTR = %d\nCONSTANT DIRECT = %d\nINIT Init\nNEXT Next\nVIEW View\n", g.gen, g.ntr, g.direct)
		for _, i := range invs {
			text += "INVARIANT " + i + "\n"
		}
		r, err := c.TLC(g.name, lib.TLCRun{Dir: s.dir, Module: "MCOrder", Workers: c.Pick(3, 6), Timeout: time.Duration(c.Pick(10, 40)) * time.Minute,
			Files: map[string][]byte{"MCOrder.cfg": []byte(text)}})
		if err != nil {
			return err
		}
		if r.ErrKind != "" {
			return lib.Infra("the documented relations break a theorem in the model itself (%s %s): candidate inconsistency of the documentation, not a verdict\n%s", r.ErrKind, r.ErrName, r.ErrTrace)
		}
		for _, t := range r.Tagged("UNIVERSE") {
			c.Set("model_universe_"+fmt.Sprint(g.gen), t[0])
		}
	}
	return nil
}

// ---------------------------------------------------------------------------------------------
// G

type poolVal struct {
	term  *valpool.Term
	vals  []any    // constructions: GoVariants Go-built, then CodeVariants Elvish-built
	names []string // variables bound to them
}

func (s *session) build(t *valpool.Term, prefix string) (*poolVal, error) {
	pv := &poolVal{term: t}
	for v := 0; v < valpool.GoVariants; v++ {
		x, err := s.b.Go(t, v)
		if err != nil {
			return nil, err
		}
		pv.vals = append(pv.vals, x)
	}
	for v := 0; v < valpool.CodeVariants; v++ {
		code, err := s.b.Code(t, v)
		if err != nil {
			return nil, err
		}
		x, err := s.b.Eval(code)
		if err != nil {
			return nil, err
		}
		pv.vals = append(pv.vals, x)
	}
	for i, x := range pv.vals {
		n := fmt.Sprintf("%s-%d", prefix, i)
		s.b.Bind(n, x)
		pv.names = append(pv.names, n)
		if err := sameNumbers(t, x); err != nil {
			return nil, fmt.Errorf("construction %d of %s: %v", i, t.Name(), err)
		}
	}
	return pv, nil
}

// sameNumbers is a guard on the machinery, not a check of the property: a top-level number built by
// arithmetic must have the mathematical value of its atom (otherwise the construction is wrong and
// nothing can be concluded).  Representation and exactness are deliberately NOT compared here.
func sameNumbers(t *valpool.Term, x any) error {
	if t.T != "num" {
		return nil
	}
	_, want, _, err := t.Num.GoValue()
	if err != nil {
		return err
	}
	_, got, err := valpool.AtomOf(x)
	if err != nil {
		return fmt.Errorf("not a number: %T", x)
	}
	if want.NaN != got.NaN || (!want.NaN && want.Cmp(got) != 0) {
		return fmt.Errorf("value differs from atom %s", t.Num.ID)
	}
	return nil
}

func (s *session) generate() error {
	c := s.c
	r, err := c.TLC("GenPairs", lib.TLCRun{Dir: s.dir, Module: "GenPairs", Workers: 2, Timeout: 10 * time.Minute})
	if err != nil {
		return err
	}
	if r.ErrKind != "" {
		return lib.Infra("GenPairs: %s %s\n%s", r.ErrKind, r.ErrName, r.ErrTrace)
	}
	pool := map[int]*valpool.Term{}
	var exps []pairExp
	seen := map[[2]int]bool{}
	for _, line := range r.PrintedStrings() {
		if strings.HasPrefix(line, `{"pool"`) {
			var p struct {
				Pool int           `json:"pool"`
				Term *valpool.Term `json:"term"`
			}
			if err := json.Unmarshal([]byte(line), &p); err != nil {
				return lib.Infra("bad pool line: %v: %s", err, line)
			}
			pool[p.Pool] = p.Term
			continue
		}
		var e pairExp
		if err := json.Unmarshal([]byte(line), &e); err != nil {
			return lib.Infra("bad pair line: %v: %s", err, line)
		}
		if !seen[[2]int{e.A, e.B}] {
			seen[[2]int{e.A, e.B}] = true
			exps = append(exps, e)
		}
	}
	n := len(pool)
	if n == 0 || len(exps) != n*n || int64(len(exps))+1 != r.Distinct {
		return lib.Infra("GenPairs: %d pool values, %d pairs, TLC reports %d states", n, len(exps), r.Distinct)
	}
	sort.Slice(exps, func(i, j int) bool { return exps[i].A < exps[j].A || (exps[i].A == exps[j].A && exps[i].B < exps[j].B) })
	// audit of the hand-written rank table
	var atoms []*valpool.NumAtom
	for i := 1; i <= n; i++ {
		atoms = pool[i].NumLeaves(atoms)
	}
	if err := valpool.AuditTable(atoms); err != nil {
		return lib.Infra("table audit of Values.tla failed: %v", err)
	}
	// concretise
	pvs := make([]*poolVal, n+1)
	for i := 1; i <= n; i++ {
		pv, err := s.build(pool[i], fmt.Sprintf("p%d", i))
		if err != nil {
			return lib.Infra("concretising pool value %d: %v", i, err)
		}
		pvs[i] = pv
	}
	nv := valpool.GoVariants + valpool.CodeVariants
	// observed type order, from the first value of each type; judged by TLC
	if err := s.observeTypeOrder(pool, pvs); err != nil {
		return err
	}
	c.Set("pool_values", n)
	c.Set("constructions_per_value", nv)
	c.Set("exhaustive", true)

	goCombos, elvCombos := c.Pick(2, nv*nv), c.Pick(1, 4)
	var batch []batchItem
	for _, e := range exps {
		ta, tb := pool[e.A], pool[e.B]
		if e.A != e.B || len(ta.Elems)+len(ta.Pairs) > 0 {
			c.Distinct("pair|" + ta.Name() + "|" + tb.Name())
		}
		exp := s.expected(e)
		// Go API
		for k := 0; k < goCombos; k++ {
			va, vb := k/nv, k%nv
			if goCombos < nv*nv {
				va, vb = c.Rand.Intn(nv), c.Rand.Intn(nv)
			}
			o, pan := observeGo([]any{pvs[e.A].vals[va], pvs[e.B].vals[vb]})
			c.AddEvals(12)
			if pan != "" {
				c.Reject("panic:go:"+ta.T+"/"+tb.T, fmt.Sprintf("vals.Equal/Cmp/CmpTotal panicked on %s, %s: %s", ta.Name(), tb.Name(), pan), e)
				continue
			}
			s.compare(e, exp, o, "go", false, ta, tb, va, vb, pvs[e.A].vals[va], pvs[e.B].vals[vb])
		}
		// builtins: batched per row of the pair matrix (one evaluation per row and combo)
		for k := 0; k < elvCombos; k++ {
			va, vb := c.Rand.Intn(nv), c.Rand.Intn(nv)
			batch = append(batch, batchItem{e, exp, ta, tb, va, vb})
		}
		if e.B == n {
			if err := s.flushBatch(batch, pvs); err != nil {
				return err
			}
			batch = batch[:0]
		}
		c.AddTraces(1)
	}
	c.Sample(map[string]any{"pair": exps[len(exps)/2], "a": pool[exps[len(exps)/2].A], "b": pool[exps[len(exps)/2].B]})
	c.Logf("G: %d pool values x %d constructions, %d ordered pairs replayed", n, nv, len(exps))
	return nil
}

type batchItem struct {
	e      pairExp
	exp    expObs
	ta, tb *valpool.Term
	va, vb int
}

func (s *session) flushBatch(batch []batchItem, pvs []*poolVal) error {
	c := s.c
	var pairs [][2]string
	var nums [][2]bool
	for _, it := range batch {
		pairs = append(pairs, [2]string{pvs[it.e.A].names[it.va], pvs[it.e.B].names[it.vb]})
		nums = append(nums, [2]bool{it.ta.T == "num", it.tb.T == "num"})
	}
	obs, err := observeElvPairs(s.b, pairs, nums)
	c.AddEvals(len(batch))
	if err != nil {
		// find the culprit pair by pair
		for k, it := range batch {
			if _, err1 := observeElvPairs(s.b, pairs[k:k+1], nums[k:k+1]); err1 != nil {
				c.Reject("builtin:"+it.ta.T+"/"+it.tb.T, fmt.Sprintf("eq/compare/</<=/== on %s, %s: %v", it.ta.Name(), it.tb.Name(), err1), it.e)
				return nil
			}
		}
		return lib.Infra("batched builtin observation failed, single ones do not: %v", err)
	}
	for k, it := range batch {
		s.compare(it.e, it.exp, obs[k], "elvish", true, it.ta, it.tb, it.va, it.vb, pvs[it.e.A].vals[it.va], pvs[it.e.B].vals[it.vb])
	}
	return nil
}

// expected turns the prescription of the spec for (a, b) into the four entries of a 2-tuple
// observation; only entry [0][1] is prescribed here ((b, a), (a, a), (b, b) are pairs of their own).
type expObs struct {
	eq                    bool
	cmp, tot              int
	lt, le, ne, relUnspec bool
	num                   bool
}

func (s *session) expected(e pairExp) expObs {
	x := expObs{eq: e.Eq, cmp: e.Cmp, tot: e.Tot, lt: e.Lt, le: e.Le, ne: e.Ne, relUnspec: e.RelUnspec, num: e.Num}
	if x.tot >= 100 { // symbolic: sign of the session's type order
		x.tot = s.to[(x.tot-100)/10-1][(x.tot-100)%10-1]
	}
	return x
}

func (s *session) compare(e pairExp, exp expObs, o2 Obs, via string, numrel bool, ta, tb *valpool.Term, va, vb int, xa, xb any) {
	var bad, fields []string
	if o2.Eq[0][1] != exp.eq {
		bad, fields = append(bad, fmt.Sprintf("eq gives %v, prescribed %v", o2.Eq[0][1], exp.eq)), append(fields, "eq")
	}
	if o2.Cmp[0][1] != exp.cmp {
		bad, fields = append(bad, fmt.Sprintf("compare gives %d, prescribed %d", o2.Cmp[0][1], exp.cmp)), append(fields, "cmp")
	}
	if o2.Tot[0][1] != exp.tot {
		bad, fields = append(bad, fmt.Sprintf("compare &total gives %d, prescribed %d", o2.Tot[0][1], exp.tot)), append(fields, "tot")
	}
	if numrel && exp.num && !exp.relUnspec {
		if o2.Lt[0][1] != exp.lt {
			bad, fields = append(bad, fmt.Sprintf("< gives %v, prescribed %v", o2.Lt[0][1], exp.lt)), append(fields, "lt")
		}
		if o2.Le[0][1] != exp.le {
			bad, fields = append(bad, fmt.Sprintf("<= gives %v, prescribed %v", o2.Le[0][1], exp.le)), append(fields, "le")
		}
		if o2.Ne[0][1] != exp.ne {
			bad, fields = append(bad, fmt.Sprintf("== gives %v, prescribed %v", o2.Ne[0][1], exp.ne)), append(fields, "ne")
		}
	}
	if len(bad) == 0 {
		return
	}
	s.rej = append(s.rej, rejected{a: ta, b: tb, va: xa, vb: xb, obs: o2, via: via, fields: fields,
		what:   fmt.Sprintf("%s: (%s , %s) constructions %d,%d: %s", via, ta.Name(), tb.Name(), va, vb, strings.Join(bad, "; ")),
		replay: map[string]any{"kind": "pair", "a": ta, "b": tb, "va": va, "vb": vb, "via": via, "expected": e}})
}

func (s *session) observeTypeOrder(pool map[int]*valpool.Term, pvs []*poolVal) error {
	c := s.c
	first := map[string]int{}
	for i := 1; i < len(pvs); i++ {
		if _, ok := first[pool[i].T]; !ok && len(pool[i].Elems)+len(pool[i].Pairs) == 0 {
			first[pool[i].T] = i
		}
	}
	// containers: the empty list / map count as atoms of their type
	s.to = make([][]int, len(typeNames))
	for i, ti := range typeNames {
		s.to[i] = make([]int, len(typeNames))
		for j, tj := range typeNames {
			if i == j {
				continue
			}
			a, ok1 := first[ti]
			b, ok2 := first[tj]
			if !ok1 || !ok2 {
				return lib.Infra("pool has no value of type %s or %s", ti, tj)
			}
			o, pan := observeGo([]any{pvs[a].vals[0], pvs[b].vals[0]})
			if pan != "" {
				return lib.Infra("CmpTotal panicked while observing the type order: %s", pan)
			}
			s.to[i][j] = o.Tot[0][1]
		}
	}
	// the table is judged by TLC: TypeOrderOK (Values.tla) is part of every case of JudgeTriples
	// ("type-order"); the dedicated judge runs in the thorough tier and in replays
	c.Set("observed_type_order", s.to)
	if c.Quick() && c.Replay == "" {
		return nil
	}
	bad, err := lib.Judge(c, "JudgeTypeOrder", s.dir, "JudgeTypeOrder", []map[string]any{{"to": s.to}}, 1, 5*time.Minute)
	if err != nil {
		return err
	}
	if len(bad) > 0 {
		c.Reject("cmptotal:type-order-inconsistent", fmt.Sprintf("the signs compare &total gives between the types are not a strict total order: %v", s.to), map[string]any{"kind": "type-order", "to": s.to})
		// resolve symbolic expectations anyway (every mismatch will show up again pairwise)
	}
	return nil
}

// ---------------------------------------------------------------------------------------------
// V

func (s *session) validate() error {
	c := s.c
	g := &gen{r: c.Rand}
	n := c.Pick(1500, 60000)
	var cases []tcase
	for i := 0; i < n; i++ {
		ts := g.triple()
		var atoms []*valpool.NumAtom
		for _, t := range ts {
			atoms = t.NumLeaves(atoms)
		}
		if err := valpool.AssignRanks(atoms); err != nil {
			return lib.Infra("ranking: %v", err)
		}
		if ts[0].T == ts[1].T || ts[1].T == ts[2].T || ts[0].T == ts[2].T {
			c.Distinct("triple|" + ts[0].Name() + "|" + ts[1].Name() + "|" + ts[2].Name())
		}
		// Go API on Go-built values
		gv := i % valpool.GoVariants
		var vs []any
		for k, t := range ts {
			x, err := s.b.Go(t, (gv+k)%valpool.GoVariants)
			if err != nil {
				return lib.Infra("concretising %s: %v", t.Name(), err)
			}
			vs = append(vs, x)
		}
		o, pan := observeGo(vs)
		c.AddEvals(27)
		if pan != "" {
			c.Reject("panic:go:"+ts[0].T, "vals.Equal/Cmp/CmpTotal panicked: "+pan, map[string]any{"kind": "triple", "vals": ts})
			continue
		}
		cases = append(cases, tcase{Vals: ts, Obs: o, To: s.to, Via: "go", Numrel: false, conc: vs})
		// builtins on Elvish-built values (every 3rd triple in the quick tier: evaluation is slower)
		if c.Thorough() || i%3 == 0 {
			var names []string
			var nums []bool
			var xs []any
			for k, t := range ts {
				code, err := s.b.Code(t, (i+k)%valpool.CodeVariants)
				if err != nil {
					return lib.Infra("rendering %s: %v", t.Name(), err)
				}
				x, err := s.b.Eval(code)
				if err != nil {
					return lib.Infra("evaluating %s: %v", code, err)
				}
				if err := sameNumbers(t, x); err != nil {
					return lib.Infra("construction %q: %v", code, err)
				}
				nm := fmt.Sprintf("t%d", k)
				s.b.Bind(nm, x)
				names = append(names, nm)
				nums = append(nums, t.T == "num")
				xs = append(xs, x)
			}
			oe, err := observeElv(s.b, names, nums)
			c.AddEvals(1)
			if err != nil {
				c.Reject("builtin:"+ts[0].T, fmt.Sprintf("eq/compare/</<=/== failed: %v", err), map[string]any{"kind": "triple", "vals": ts})
			} else {
				cases = append(cases, tcase{Vals: ts, Obs: oe, To: s.to, Via: "elvish", Numrel: true, conc: xs})
			}
		}
	}
	c.Sample(cases[0])
	bad, err := lib.Judge(c, "JudgeTriples", s.dir, "JudgeTriples", cases, c.Pick(3, 6), time.Duration(c.Pick(10, 40))*time.Minute)
	if err != nil {
		return err
	}
	c.AddTraces(len(cases))
	c.Set("recorded_tuples_judged", len(cases))
	nbad := s.collect(cases, bad)
	c.Logf("V: %d recorded tuples judged, %d with rejections", len(cases), nbad)
	return nil
}

type pairFailure struct {
	what string
	i, j int
}

// groupBad groups the BAD lines (one per failure: what, i, j) of JudgeTriples by case.
func groupBad(bad []lib.BadCase) (idx []int, laws map[int][]string, pairs map[int][]pairFailure) {
	laws, pairs = map[int][]string{}, map[int][]pairFailure{}
	seen := map[int]bool{}
	for _, bc := range bad {
		if !seen[bc.Index] {
			seen[bc.Index] = true
			idx = append(idx, bc.Index)
		}
		if len(bc.Info) != 3 {
			continue
		}
		what, _ := bc.Info[0].(string)
		i, _ := bc.Info[1].(int64)
		j, _ := bc.Info[2].(int64)
		if strings.HasPrefix(what, "agree-") {
			pairs[bc.Index] = append(pairs[bc.Index], pairFailure{what, int(i) - 1, int(j) - 1})
		} else {
			laws[bc.Index] = append(laws[bc.Index], what)
		}
	}
	for k := range laws {
		sort.Strings(laws[k])
	}
	for k := range pairs {
		ps := pairs[k]
		sort.Slice(ps, func(a, b int) bool {
			if ps[a].i != ps[b].i {
				return ps[a].i < ps[b].i
			}
			if ps[a].j != ps[b].j {
				return ps[a].j < ps[b].j
			}
			return ps[a].what < ps[b].what
		})
	}
	return
}

// collect turns the judge's BAD lines into pending rejections.
func (s *session) collect(cases []tcase, bad []lib.BadCase) int {
	idx, laws, pairs := groupBad(bad)
	for _, k := range idx {
		tc := cases[k]
		for _, p := range pairs[k] {
			s.addPairReject(tc, p.i, p.j, p.what)
		}
		if len(laws[k]) > 0 {
			lr := lawRejected{tc: tc, laws: laws[k]}
			for _, p := range pairs[k] {
				lr.pairs = append(lr.pairs, [2]int{p.i, p.j})
			}
			s.lawRej = append(s.lawRej, lr)
		}
	}
	return len(idx)
}

func (s *session) addPairReject(tc tcase, i, j int, what string) {
	a, b := tc.Vals[i], tc.Vals[j]
	o2 := tc.Obs.sub(i, j)
	s.rej = append(s.rej, rejected{a: a, b: b, va: tc.conc[i], vb: tc.conc[j], obs: o2, via: tc.Via, fields: []string{strings.TrimPrefix(what, "agree-")},
		what:   fmt.Sprintf("%s: (%s , %s): %s: observed eq=%v compare=%d compare&total=%d", tc.Via, a.Name(), b.Name(), what, o2.Eq[0][1], o2.Cmp[0][1], o2.Tot[0][1]),
		replay: map[string]any{"kind": "tuple", "case": tc}})
}

// ---------------------------------------------------------------------------------------------
// replay

func (s *session) replay() error {
	c := s.c
	raw, err := os.ReadFile(c.Replay)
	if err != nil {
		return lib.Infra("%v", err)
	}
	var f struct {
		Case struct {
			Kind string          `json:"kind"`
			A    *valpool.Term   `json:"a"`
			B    *valpool.Term   `json:"b"`
			Via  string          `json:"via"`
			Case *tcase          `json:"case"`
			Vals []*valpool.Term `json:"vals"`
		} `json:"case"`
	}
	if err := json.Unmarshal(raw, &f); err != nil {
		return lib.Infra("%v", err)
	}
	var ts []*valpool.Term
	via := f.Case.Via
	switch f.Case.Kind {
	case "pair":
		ts = []*valpool.Term{f.Case.A, f.Case.B}
	case "tuple":
		ts = f.Case.Case.Vals
		via = f.Case.Case.Via
	case "triple":
		ts = f.Case.Vals
	default:
		return lib.Infra("replay file of kind %q cannot be re-run", f.Case.Kind)
	}
	// the type order of this session
	r, err := c.TLC("GenPairs", lib.TLCRun{Dir: s.dir, Module: "GenPairs", Workers: 2, Timeout: 10 * time.Minute})
	if err != nil {
		return err
	}
	pool := map[int]*valpool.Term{}
	for _, line := range r.PrintedStrings() {
		if strings.HasPrefix(line, `{"pool"`) {
			var p struct {
				Pool int           `json:"pool"`
				Term *valpool.Term `json:"term"`
			}
			if json.Unmarshal([]byte(line), &p) == nil {
				pool[p.Pool] = p.Term
			}
		}
	}
	pvs := make([]*poolVal, len(pool)+1)
	for i := 1; i <= len(pool); i++ {
		if len(pool[i].Elems)+len(pool[i].Pairs) == 0 {
			x, err := s.b.Go(pool[i], 0)
			if err != nil {
				return lib.Infra("%v", err)
			}
			pvs[i] = &poolVal{term: pool[i], vals: []any{x}}
		} else {
			pvs[i] = &poolVal{term: pool[i]}
		}
	}
	if err := s.observeTypeOrder(pool, pvs); err != nil {
		return err
	}
	var atoms []*valpool.NumAtom
	for _, t := range ts {
		atoms = t.NumLeaves(atoms)
	}
	if err := valpool.AssignRanks(atoms); err != nil {
		return lib.Infra("%v", err)
	}
	var cases []tcase
	for v := 0; v < valpool.GoVariants; v++ {
		var vs []any
		for _, t := range ts {
			x, err := s.b.Go(t, v)
			if err != nil {
				return lib.Infra("%v", err)
			}
			vs = append(vs, x)
		}
		if via != "elvish" {
			o, pan := observeGo(vs)
			if pan != "" {
				c.Reject("panic:go:"+ts[0].T, pan, f.Case)
				return nil
			}
			cases = append(cases, tcase{Vals: ts, Obs: o, To: s.to, Via: "go", conc: vs})
		}
		if via != "go" {
			var names []string
			var nums []bool
			for k, x := range vs {
				nm := fmt.Sprintf("t%d", k)
				s.b.Bind(nm, x)
				names = append(names, nm)
				nums = append(nums, ts[k].T == "num")
			}
			o, err := observeElv(s.b, names, nums)
			if err != nil {
				c.Reject("builtin:"+ts[0].T, err.Error(), f.Case)
				return nil
			}
			cases = append(cases, tcase{Vals: ts, Obs: o, To: s.to, Via: "elvish", Numrel: true, conc: vs})
		}
	}
	bad, err := lib.Judge(c, "JudgeTriples", s.dir, "JudgeTriples", cases, 1, 10*time.Minute)
	if err != nil {
		return err
	}
	s.collect(cases, bad)
	return s.classify()
}
