package main

import (
	"fmt"
	"strings"

	"src.elv.sh/pkg/eval/vals"
	"verif.local/harness/checks/c09/valpool"
	"verif.local/harness/elv"
)

// Obs holds what the real code answered for every ordered pair of a tuple of values.
// Cmp: -1, 0, 1, or 2 for "uncomparable" (exception).  Lt/Le/Ne only for pairs of numbers.
type Obs struct {
	Eq  [][]bool `json:"eq"`
	Cmp [][]int  `json:"cmp"`
	Tot [][]int  `json:"tot"`
	Lt  [][]bool `json:"lt"`
	Le  [][]bool `json:"le"`
	Ne  [][]bool `json:"ne"`
}

func newObs(n int) Obs {
	o := Obs{}
	for i := 0; i < n; i++ {
		o.Eq = append(o.Eq, make([]bool, n))
		o.Cmp = append(o.Cmp, make([]int, n))
		o.Tot = append(o.Tot, make([]int, n))
		o.Lt = append(o.Lt, make([]bool, n))
		o.Le = append(o.Le, make([]bool, n))
		o.Ne = append(o.Ne, make([]bool, n))
	}
	return o
}

// sub extracts the observations of the pair (i, j) as a 2-tuple observation.
func (o Obs) sub(i, j int) Obs {
	ix := []int{i, j}
	s := newObs(2)
	for a := 0; a < 2; a++ {
		for b := 0; b < 2; b++ {
			s.Eq[a][b] = o.Eq[ix[a]][ix[b]]
			s.Cmp[a][b] = o.Cmp[ix[a]][ix[b]]
			s.Tot[a][b] = o.Tot[ix[a]][ix[b]]
			s.Lt[a][b] = o.Lt[ix[a]][ix[b]]
			s.Le[a][b] = o.Le[ix[a]][ix[b]]
			s.Ne[a][b] = o.Ne[ix[a]][ix[b]]
		}
	}
	return s
}

func ordInt(o vals.Ordering) int {
	switch o {
	case vals.CmpLess:
		return -1
	case vals.CmpEqual:
		return 0
	case vals.CmpMore:
		return 1
	}
	return 2
}

func isNum(v any) bool {
	_, _, err := valpool.AtomOf(v)
	return err == nil
}

// observeGo asks vals.Equal, vals.Cmp, vals.CmpTotal.  The numeric relations are not part of the
// Go API of package vals (they live in the builtins), so Lt/Le/Ne stay false here and `via`
// "go" cases are judged on eq/cmp/tot only (numrel = false).
func observeGo(vs []any) (o Obs, panicked string) {
	defer func() {
		if r := recover(); r != nil {
			panicked = fmt.Sprint(r)
		}
	}()
	n := len(vs)
	o = newObs(n)
	for i := 0; i < n; i++ {
		for j := 0; j < n; j++ {
			o.Eq[i][j] = vals.Equal(vs[i], vs[j])
			o.Cmp[i][j] = ordInt(vals.Cmp(vs[i], vs[j]))
			o.Tot[i][j] = ordInt(vals.CmpTotal(vs[i], vs[j]))
		}
	}
	return o, ""
}

// observeElvPairs asks the builtins about a batch of ordered pairs in ONE evaluation; result k is a
// 2-tuple observation of which only entry [0][1] is filled.
func observeElvPairs(b *valpool.Builder, pairs [][2]string, nums [][2]bool) ([]Obs, error) {
	var names []string
	var ns []bool
	for k, p := range pairs {
		names = append(names, p[0], p[1])
		ns = append(ns, nums[k][0], nums[k][1])
	}
	var sb strings.Builder
	for k := range pairs {
		x, y := "$"+names[2*k], "$"+names[2*k+1]
		fmt.Fprintf(&sb, "put (eq %s %s) (try { compare %s %s } catch { put unc }) (compare &total %s %s)\n", x, y, x, y, x, y)
		if ns[2*k] && ns[2*k+1] {
			fmt.Fprintf(&sb, "put (< %s %s) (<= %s %s) (== %s %s)\n", x, y, x, y, x, y)
		}
	}
	out := elv.Run(b.Ev, sb.String())
	if out.Panic != "" {
		return nil, fmt.Errorf("panic: %s", out.Panic)
	}
	if out.Err != nil {
		return nil, fmt.Errorf("exception: %v", out.Err)
	}
	pos := 0
	res := make([]Obs, len(pairs))
	for k := range pairs {
		o := newObs(2)
		need := 3
		if ns[2*k] && ns[2*k+1] {
			need = 6
		}
		if pos+need > len(out.Values) {
			return nil, fmt.Errorf("too few outputs")
		}
		v := out.Values[pos : pos+need]
		pos += need
		var err error
		if o.Eq[0][1], err = asBool(v[0]); err != nil {
			return nil, err
		}
		if o.Cmp[0][1], err = asSign(v[1]); err != nil {
			return nil, err
		}
		if o.Tot[0][1], err = asSign(v[2]); err != nil {
			return nil, err
		}
		if need == 6 {
			for q, dst := range []*bool{&o.Lt[0][1], &o.Le[0][1], &o.Ne[0][1]} {
				if *dst, err = asBool(v[3+q]); err != nil {
					return nil, err
				}
			}
		}
		res[k] = o
	}
	if pos != len(out.Values) {
		return nil, fmt.Errorf("too many outputs")
	}
	return res, nil
}

func asSign(v any) (int, error) {
	switch v := v.(type) {
	case int:
		if v >= -1 && v <= 1 {
			return v, nil
		}
	case string:
		if v == "unc" {
			return 2, nil
		}
	}
	return 0, fmt.Errorf("compare output %v (%T)", v, v)
}

func asBool(v any) (bool, error) {
	if b, ok := v.(bool); ok {
		return b, nil
	}
	return false, fmt.Errorf("boolean output expected, got %v (%T)", v, v)
}

// observeElv asks the builtins eq, compare, compare &total and, for pairs of numbers, < <= ==.
// names are variables already bound in the builder's evaler; nums[i] tells whether value i is a number.
func observeElv(b *valpool.Builder, names []string, nums []bool) (Obs, error) {
	n := len(names)
	var sb strings.Builder
	for i := 0; i < n; i++ {
		for j := 0; j < n; j++ {
			x, y := "$"+names[i], "$"+names[j]
			fmt.Fprintf(&sb, "put (eq %s %s) (try { compare %s %s } catch { put unc }) (compare &total %s %s)\n", x, y, x, y, x, y)
			if nums[i] && nums[j] {
				fmt.Fprintf(&sb, "put (< %s %s) (<= %s %s) (== %s %s)\n", x, y, x, y, x, y)
			}
		}
	}
	out := elv.Run(b.Ev, sb.String())
	if out.Panic != "" {
		return Obs{}, fmt.Errorf("panic: %s", out.Panic)
	}
	if out.Err != nil {
		return Obs{}, fmt.Errorf("exception: %v", out.Err)
	}
	o := newObs(n)
	k := 0
	next := func() (any, error) {
		if k >= len(out.Values) {
			return nil, fmt.Errorf("too few outputs (%d)", len(out.Values))
		}
		k++
		return out.Values[k-1], nil
	}
	sign := func(v any) (int, error) {
		switch v := v.(type) {
		case int:
			if v >= -1 && v <= 1 {
				return v, nil
			}
		case string:
			if v == "unc" {
				return 2, nil
			}
		}
		return 0, fmt.Errorf("compare output %v (%T)", v, v)
	}
	boolean := func(v any) (bool, error) {
		if b, ok := v.(bool); ok {
			return b, nil
		}
		return false, fmt.Errorf("boolean output expected, got %v (%T)", v, v)
	}
	for i := 0; i < n; i++ {
		for j := 0; j < n; j++ {
			var err error
			var v any
			if v, err = next(); err != nil {
				return o, err
			}
			if o.Eq[i][j], err = boolean(v); err != nil {
				return o, err
			}
			if v, err = next(); err != nil {
				return o, err
			}
			if o.Cmp[i][j], err = sign(v); err != nil {
				return o, err
			}
			if v, err = next(); err != nil {
				return o, err
			}
			if o.Tot[i][j], err = sign(v); err != nil {
				return o, err
			}
			if nums[i] && nums[j] {
				for _, dst := range []*bool{&o.Lt[i][j], &o.Le[i][j], &o.Ne[i][j]} {
					if v, err = next(); err != nil {
						return o, err
					}
					if *dst, err = boolean(v); err != nil {
						return o, err
					}
				}
			}
		}
	}
	if k != len(out.Values) {
		return o, fmt.Errorf("too many outputs")
	}
	return o, nil
}
