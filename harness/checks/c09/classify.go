package main

import (
	"fmt"
	"math"
	"math/big"
	"reflect"
	"sort"
	"strings"
	"time"

	"src.elv.sh/pkg/eval/vals"
	"verif.local/harness/checks/c09/valpool"
	"verif.local/harness/lib"
)

// Classification of rejected cases into known-finding classes.  Verdicts are already made (the
// specification rejected what the real code did); this only computes the structural KEY.
//
// keyCoincide / keyInfImage ("explain", decided by TLC): compare, compare &total, <, <= and ==
// convert the exact operand of a mixed exact/inexact pair to a float first (documented for < <= ==,
// and compare is documented as consistent with <).  A rejected pair belongs to the class iff the
// real code's answers are exactly what the SPECIFICATION prescribes for the pair in which every
// exact number facing an inexact one at a corresponding position is replaced by its float image
// (documented conversion of inexact-num).  JudgeTriples.tla decides that on the rewritten pair; Go
// only rewrites.  keyInfImage when an integer outside int64 (image +-Inf) faces a finite float.
//
// keySlice (structural): the only disagreement is compare &total, and at some corresponding
// position the two real values are lists of different Go types (a list and a slice of a list):
// vals.CmpTotal orders by Go type first.
//
// keyZeroKey (structural; the C08 defect seen through eq): the two terms hold, at a corresponding
// position, maps one of which has the key 0.0 and the other the key -0.0.
const (
	keySlice   = "cmptotal:list-slice-vs-list"
	keyZeroKey = "eq:maps-with-keys:+0.0/-0.0"
)

type explainInfo struct {
	replaced bool
	infImage bool
}

func explainRewrite(a, b *valpool.Term, inf *explainInfo) (*valpool.Term, *valpool.Term) {
	a, b = a.Clone(), b.Clone()
	var walk func(x, y *valpool.Term)
	walk = func(x, y *valpool.Term) {
		switch {
		case x.T == "num" && y.T == "num":
			if x.Num.Ex == y.Num.Ex || x.Num.NaN || y.Num.NaN {
				return
			}
			ex, fl := x, y
			if !x.Num.Ex {
				ex, fl = y, x
			}
			v, _, _, err := ex.Num.GoValue()
			if err != nil {
				return
			}
			fv, _, _, _ := fl.Num.GoValue()
			img := valpool.FloatImage(v)
			if bi, ok := v.(*big.Int); ok && !bi.IsInt64() && !math.IsInf(fv.(float64), 0) {
				inf.infImage = true
			}
			na, _, _ := valpool.AtomOf(img)
			*ex.Num = na
			inf.replaced = true
		case x.T == "list" && y.T == "list":
			for i := 0; i < len(x.Elems) && i < len(y.Elems); i++ {
				walk(x.Elems[i], y.Elems[i])
			}
		}
	}
	walk(a, b)
	return a, b
}

// sliceMismatch: lists of different Go types at corresponding positions of the real values.
func sliceMismatch(x, y any) bool {
	lx, ok1 := x.(vals.List)
	ly, ok2 := y.(vals.List)
	if !ok1 || !ok2 {
		return false
	}
	if reflect.TypeOf(x) != reflect.TypeOf(y) {
		return true
	}
	ix, iy := lx.Iterator(), ly.Iterator()
	for ix.HasElem() && iy.HasElem() {
		if sliceMismatch(ix.Elem(), iy.Elem()) {
			return true
		}
		ix.Next()
		iy.Next()
	}
	return false
}

// zeroKeyMaps: maps at corresponding positions, one with key 0.0 and the other with key -0.0.
func zeroKeyMaps(a, b *valpool.Term) bool {
	switch {
	case a.T == "map" && b.T == "map":
		has := func(t *valpool.Term, id string) bool {
			for _, p := range t.Pairs {
				if p[0].T == "num" && p[0].Num.ID == id {
					return true
				}
			}
			return false
		}
		if (has(a, "f:0.0") && has(b, "f:-0.0")) || (has(a, "f:-0.0") && has(b, "f:0.0")) {
			return true
		}
		for _, p := range a.Pairs {
			for _, q := range b.Pairs {
				if p[0].Name() == q[0].Name() && zeroKeyMaps(p[1], q[1]) {
					return true
				}
			}
		}
	case a.T == "list" && b.T == "list":
		for i := 0; i < len(a.Elems) && i < len(b.Elems); i++ {
			if zeroKeyMaps(a.Elems[i], b.Elems[i]) {
				return true
			}
		}
	}
	return false
}

func (s *session) classify() error {
	c := s.c
	if len(s.rej) == 0 && len(s.lawRej) == 0 {
		return nil
	}
	keys := make([][]string, len(s.rej))      // known classes the rejection is attributed to
	remaining := make([][]string, len(s.rej)) // fields still to be attributed
	infos := make([]explainInfo, len(s.rej))
	var cases []tcase
	var caseOf []int
	// 1. structural: maps with the keys 0.0 / -0.0 (C08's defect seen through eq)
	// 2. explain: which of the disagreeing relations are exactly what the specification prescribes
	//    for the float images (decided by TLC on the rewritten pair)
	for i, r := range s.rej {
		rem := append([]string(nil), r.fields...)
		if zeroKeyMaps(r.a, r.b) {
			keys[i] = append(keys[i], keyZeroKey)
			rem = nil
		}
		remaining[i] = rem
		if len(rem) == 0 {
			continue
		}
		a2, b2 := explainRewrite(r.a, r.b, &infos[i])
		if !infos[i].replaced {
			continue
		}
		var atoms []*valpool.NumAtom
		atoms = a2.NumLeaves(atoms)
		atoms = b2.NumLeaves(atoms)
		if err := valpool.AssignRanks(atoms); err != nil {
			return lib.Infra("ranking: %v", err)
		}
		cases = append(cases, tcase{Vals: []*valpool.Term{a2, b2}, Obs: r.obs, To: s.to, Via: r.via, Numrel: r.via == "elvish"})
		caseOf = append(caseOf, i)
	}
	if len(cases) > 0 {
		bad, err := lib.Judge(c, "JudgeTriples(explain)", s.dir, "JudgeTriples", cases, c.Pick(2, 4), 10*time.Minute)
		if err != nil {
			return err
		}
		still := map[int]map[string]bool{}
		_, _, pairs := groupBad(bad)
		for k, ps := range pairs {
			i := caseOf[k]
			still[i] = map[string]bool{}
			for _, p := range ps {
				if p.i == 0 && p.j == 1 {
					still[i][strings.TrimPrefix(p.what, "agree-")] = true
				}
			}
		}
		for _, i := range caseOf {
			var rem []string
			explainedSome := false
			for _, f := range remaining[i] {
				// eq never converts: a wrong eq is not of this class
				if f == "eq" || still[i][f] {
					rem = append(rem, f)
				} else {
					explainedSome = true
				}
			}
			if explainedSome {
				if infos[i].infImage {
					keys[i] = append(keys[i], keyInfImage)
				} else {
					keys[i] = append(keys[i], keyCoincide)
				}
			}
			remaining[i] = rem
		}
	}
	counts := map[string]int{}
	other := 0
	for i, r := range s.rej {
		// 3. structural: only compare &total is left and the real values are a list and a list slice
		if len(remaining[i]) == 1 && remaining[i][0] == "tot" && sliceMismatch(r.va, r.vb) {
			keys[i] = append(keys[i], keySlice)
			remaining[i] = nil
		}
		if len(remaining[i]) > 0 {
			keys[i] = append(keys[i], fmt.Sprintf("%s:%s:%s~%s", r.via, strings.Join(remaining[i], "+"), r.a.Name(), r.b.Name()))
			counts["other"]++
			if other++; other <= 25 {
				c.Logf("rejected, not of a known class: %s", r.what)
			}
		}
		for _, k := range keys[i] {
			if strings.HasPrefix(k, "cmp:") || k == keySlice || k == keyZeroKey {
				counts[k]++
			}
			c.Reject(k, r.what, r.replay)
		}
	}
	// Law failures on observed matrices are consequences of the pairwise disagreements of the same
	// case: known iff every disagreement of that case is attributed to known classes only.
	isKnown := func(k string) bool {
		return k == keyCoincide || k == keyInfImage || k == keySlice || k == keyZeroKey
	}
	for _, lr := range s.lawRej {
		set := map[string]bool{}
		all := len(lr.pairs) > 0
		for _, p := range lr.pairs {
			found := false
			for i, r := range s.rej {
				if r.a == lr.tc.Vals[p[0]] && r.b == lr.tc.Vals[p[1]] && r.via == lr.tc.Via {
					found = true
					for _, k := range keys[i] {
						set[k] = true
						all = all && isKnown(k)
					}
				}
			}
			all = all && found
		}
		var ks []string
		for k := range set {
			ks = append(ks, k)
		}
		sort.Strings(ks)
		if !all || len(ks) == 0 {
			ks = []string{"law:" + strings.Join(lr.laws, "+") + ":" + lr.tc.Vals[0].T + "/" + lr.tc.Vals[1].T + "/" + lr.tc.Vals[2].T}
			c.Logf("law failure not attributable to a known class: %v on %s , %s , %s", lr.laws, lr.tc.Vals[0].Name(), lr.tc.Vals[1].Name(), lr.tc.Vals[2].Name())
		}
		var names []string
		for _, t := range lr.tc.Vals {
			names = append(names, t.Name())
		}
		for _, k := range ks {
			counts["law-failures:"+map[bool]string{true: "known", false: "other"}[all]]++
			c.Reject(k, fmt.Sprintf("%s: observed relations on (%s) break %s", lr.tc.Via, strings.Join(names, " , "), strings.Join(lr.laws, ", ")),
				map[string]any{"kind": "tuple", "case": lr.tc})
		}
	}
	c.Set("rejections_by_class", counts)
	return nil
}
