package main

import (
	"math"
	"math/big"
	"math/rand"

	"verif.local/harness/checks/c09/valpool"
)

// Random value terms for the V half.  The generator only builds terms; it knows nothing about the
// relations between them.  Numbers are drawn from families around the precision limits where the
// four representations meet; triples are made of a base value and "neighbours" of it (one leaf
// replaced by a nearby or differently represented number/string), so that equalities, ties and
// near-ties are frequent.

type gen struct {
	r *rand.Rand
}

func atom(v any) *valpool.Term {
	a, _, err := valpool.AtomOf(v)
	if err != nil {
		panic(err)
	}
	return valpool.Num(a)
}

func pow2(k uint) *big.Int { return new(big.Int).Lsh(big.NewInt(1), k) }

// canon returns the canonical Elvish representation of an exact rational.
func canon(r *big.Rat) any { v, _ := valpool.CanonExact(r); return v }

func (g *gen) sign() int64 {
	if g.r.Intn(4) == 0 {
		return -1
	}
	return 1
}

// number draws one number (Go value in canonical Elvish representation).
func (g *gen) number() any {
	r := g.r
	switch r.Intn(12) {
	case 0: // small integers and their floats
		n := int64(r.Intn(7) - 3)
		if r.Intn(2) == 0 {
			return float64(n)
		}
		return int(n)
	case 1: // zeros, infinities, NaN
		return []any{0, 0.0, math.Copysign(0, -1), math.Inf(1), math.Inf(-1), math.NaN(), math.SmallestNonzeroFloat64, math.MaxFloat64}[r.Intn(8)]
	case 2, 3: // around 2^53: ints, floats, half-integers
		base := new(big.Int).Mul(pow2(53), big.NewInt(g.sign()))
		base.Add(base, big.NewInt(int64(r.Intn(9)-4)))
		switch r.Intn(3) {
		case 0:
			return canon(new(big.Rat).SetInt(base))
		case 1:
			f, _ := new(big.Float).SetInt(base).Float64()
			return f
		default:
			q := new(big.Rat).SetInt(base)
			return canon(q.Add(q, big.NewRat(int64(r.Intn(3)-1), 2)))
		}
	case 4, 5: // around 2^63 and 2^64: int / bigint boundary
		k := uint(63 + r.Intn(2))
		base := new(big.Int).Mul(pow2(k), big.NewInt(g.sign()))
		base.Add(base, big.NewInt(int64(r.Intn(5)-2)))
		switch r.Intn(3) {
		case 0, 1:
			return canon(new(big.Rat).SetInt(base))
		default:
			f, _ := new(big.Float).SetInt(base).Float64()
			if r.Intn(2) == 0 {
				f = math.Nextafter(f, math.Inf(r.Intn(2)*2-1))
			}
			return f
		}
	case 6: // huge: beyond every finite double / large doubles
		switch r.Intn(4) {
		case 0:
			return canon(new(big.Rat).SetInt(new(big.Int).Exp(big.NewInt(10), big.NewInt(int64(300+r.Intn(120))), nil)))
		case 1:
			return math.Pow(10, float64(18+r.Intn(290)))
		case 2:
			return canon(new(big.Rat).SetInt(new(big.Int).Exp(big.NewInt(10), big.NewInt(int64(18+r.Intn(20))), nil)))
		default:
			return -math.Pow(10, float64(18+r.Intn(290)))
		}
	case 7: // tiny rationals vs floats
		k := int64(1 + r.Intn(400))
		d := new(big.Int).Exp(big.NewInt(10), big.NewInt(k), nil)
		q := new(big.Rat).SetFrac(big.NewInt(g.sign()), d)
		if r.Intn(2) == 0 {
			f, _ := q.Float64()
			return f
		}
		return canon(q)
	case 8: // a rational and the double nearest to it
		q := big.NewRat(int64(r.Intn(41)-20), int64(1+r.Intn(12)))
		switch r.Intn(3) {
		case 0:
			return canon(q)
		case 1:
			f, _ := q.Float64()
			return f
		default: // the exact value of that double, as a rational
			f, _ := q.Float64()
			return canon(new(big.Rat).SetFloat64(f))
		}
	case 9: // random double bit patterns (all exponent classes)
		f := math.Float64frombits(r.Uint64())
		if math.IsNaN(f) {
			return math.NaN()
		}
		if r.Intn(3) == 0 && !math.IsInf(f, 0) { // the same value, exactly
			return canon(new(big.Rat).SetFloat64(f))
		}
		return f
	case 10: // random 64-bit and 70-bit integers
		n := new(big.Int).Rand(r, pow2(uint(60+r.Intn(12))))
		n.Mul(n, big.NewInt(g.sign()))
		if r.Intn(3) == 0 {
			f, _ := new(big.Float).SetInt(n).Float64()
			return f
		}
		return canon(new(big.Rat).SetInt(n))
	default: // integers around the int range ends
		n := new(big.Int).Set([]*big.Int{big.NewInt(math.MaxInt64), big.NewInt(math.MinInt64)}[r.Intn(2)])
		n.Add(n, big.NewInt(int64(r.Intn(5)-2)))
		return canon(new(big.Rat).SetInt(n))
	}
}

// near returns a number related to v: same value in another representation, or a neighbour.
func (g *gen) near(v any) any {
	_, ex, err := valpool.AtomOf(v)
	if err != nil || ex.NaN || ex.Inf != 0 {
		return g.number()
	}
	r := g.r
	switch r.Intn(6) {
	case 0: // nearest double
		f, _ := ex.R.Float64()
		return f
	case 1: // exact value (identity for exact numbers)
		return canon(ex.R)
	case 2: // +-1
		return canon(new(big.Rat).Add(ex.R, big.NewRat(int64(r.Intn(2)*2-1), 1)))
	case 3: // next double up or down
		f, _ := ex.R.Float64()
		return math.Nextafter(f, math.Inf(r.Intn(2)*2-1))
	case 4: // +-1/2
		return canon(new(big.Rat).Add(ex.R, big.NewRat(int64(r.Intn(2)*2-1), 2)))
	default: // exact value of the nearest double
		f, _ := ex.R.Float64()
		if math.IsInf(f, 0) {
			return f
		}
		return canon(new(big.Rat).SetFloat64(f))
	}
}

var alphabet = []string{"a", "b", "ab", "\xff", "\xc3\xa9", "\xc3", "\x00", "z", "1", "10", "9", "\xef\xbf\xbf", "\xf0\x90\x80\x80", " "}

func (g *gen) str() string {
	n := g.r.Intn(4)
	s := ""
	for i := 0; i < n; i++ {
		s += alphabet[g.r.Intn(len(alphabet))]
	}
	return s
}

func (g *gen) nearStr(s string) string {
	switch g.r.Intn(4) {
	case 0:
		return s + alphabet[g.r.Intn(len(alphabet))]
	case 1:
		if len(s) > 0 {
			return s[:len(s)-1]
		}
		return s
	case 2:
		if len(s) > 0 {
			b := []byte(s)
			b[len(b)-1] ^= byte(1 << g.r.Intn(8))
			return string(b)
		}
		return "a"
	}
	return s
}

// value draws a random term of nesting depth <= d.
func (g *gen) value(d int) *valpool.Term {
	r := g.r
	k := r.Intn(20)
	if d <= 0 && k >= 12 && k < 18 {
		k = r.Intn(12)
	}
	switch {
	case k < 7:
		return atom(g.number())
	case k < 10:
		return valpool.Str(g.str())
	case k == 10:
		return valpool.Bool(r.Intn(2) == 0)
	case k == 11:
		return valpool.Nil()
	case k < 16: // list
		n := r.Intn(4)
		var es []*valpool.Term
		for i := 0; i < n; i++ {
			es = append(es, g.value(d-1))
		}
		return valpool.List(es...)
	case k < 18: // map with distinct string / small int keys
		n := r.Intn(3)
		var ps [][2]*valpool.Term
		used := map[string]bool{}
		for i := 0; i < n; i++ {
			var key *valpool.Term
			if r.Intn(3) == 0 {
				key = atom(r.Intn(3))
			} else {
				key = valpool.Str(alphabet[r.Intn(4)])
			}
			if used[key.Name()] {
				continue
			}
			used[key.Name()] = true
			ps = append(ps, [2]*valpool.Term{key, g.value(d - 1)})
		}
		return valpool.Map(ps...)
	case k == 18:
		return valpool.Fn(valpool.FnIDs[r.Intn(len(valpool.FnIDs))])
	default:
		return valpool.Ns(valpool.NsIDs[r.Intn(len(valpool.NsIDs))])
	}
}

// neighbour returns a copy of t with one position changed to something near it (or unchanged).
func (g *gen) neighbour(t *valpool.Term) *valpool.Term {
	c := t.Clone()
	g.mutate(c)
	return c
}

func (g *gen) mutate(t *valpool.Term) {
	r := g.r
	switch t.T {
	case "num":
		v, _, _, err := t.Num.GoValue()
		if err != nil {
			panic(err)
		}
		*t = *atom(g.near(v))
	case "str":
		*t = *valpool.Str(g.nearStr(t.String()))
	case "bool":
		t.B = r.Intn(2) == 0
	case "list":
		switch {
		case len(t.Elems) > 0 && r.Intn(4) != 0:
			g.mutate(t.Elems[r.Intn(len(t.Elems))])
		case r.Intn(2) == 0:
			t.Elems = append(t.Elems, g.value(0))
		case len(t.Elems) > 0:
			t.Elems = t.Elems[:len(t.Elems)-1]
		}
	case "map":
		if len(t.Pairs) > 0 {
			i := r.Intn(len(t.Pairs))
			if r.Intn(3) == 0 && len(t.Pairs) > 1 { // same entries, other construction order
				t.Pairs[0], t.Pairs[i] = t.Pairs[i], t.Pairs[0]
			} else {
				g.mutate(t.Pairs[i][1])
			}
		}
	case "fn":
		t.ID = valpool.FnIDs[r.Intn(len(valpool.FnIDs))]
	case "ns":
		t.ID = valpool.NsIDs[r.Intn(len(valpool.NsIDs))]
	}
}

// triple draws three related values.
func (g *gen) triple() []*valpool.Term {
	a := g.value(2)
	var b, c *valpool.Term
	switch g.r.Intn(5) {
	case 0: // unrelated
		b, c = g.value(2), g.value(2)
	case 1: // chain a ~ b ~ c
		b = g.neighbour(a)
		c = g.neighbour(b)
	default: // star around a
		b, c = g.neighbour(a), g.neighbour(a)
	}
	ts := []*valpool.Term{a, b, c}
	g.r.Shuffle(3, func(i, j int) { ts[i], ts[j] = ts[j], ts[i] })
	return ts
}
