// Package valpool is the Go side of spec/Values/Values.tla: value terms as they travel between TLC
// and the executors (JSON), the audit of the hand-written number table with math/big, the
// computation of per-case ranks for random numbers, and the concretisation of terms into real
// Elvish values (through the Go API and through Elvish code).  It contains no oracle: relations
// between values are decided by the TLA+ modules.  Used by checks c08 and c09.
package valpool

import (
	"encoding/json"
	"fmt"
	"math"
	"math/big"
	"sort"
	"strconv"
	"strings"
)

// NumAtom mirrors the number-atom record of Values.tla.
type NumAtom struct {
	ID  string `json:"id"`
	Cls string `json:"cls"`
	Ex  bool   `json:"ex"`
	NaN bool   `json:"nan"`
	Rk  int    `json:"rk"`
}

// Term mirrors a value term of Values.tla: {"t": tag, "v": payload}.
type Term struct {
	T     string
	Num   *NumAtom   // t = num
	B     bool       // t = bool
	Bytes []int      // t = str
	Elems []*Term    // t = list
	Pairs [][2]*Term // t = map (construction order)
	ID    string     // t = fn | ns
}

func (t *Term) MarshalJSON() ([]byte, error) {
	var v any
	switch t.T {
	case "nil":
		v = 0
	case "bool":
		v = t.B
	case "str":
		if t.Bytes == nil {
			v = []int{}
		} else {
			v = t.Bytes
		}
	case "num":
		v = t.Num
	case "list":
		if t.Elems == nil {
			v = []*Term{}
		} else {
			v = t.Elems
		}
	case "map":
		ps := make([][]*Term, 0, len(t.Pairs))
		for _, p := range t.Pairs {
			ps = append(ps, []*Term{p[0], p[1]})
		}
		v = ps
	case "fn", "ns":
		v = t.ID
	default:
		return nil, fmt.Errorf("bad term tag %q", t.T)
	}
	return json.Marshal(map[string]any{"t": t.T, "v": v})
}

func (t *Term) UnmarshalJSON(b []byte) error {
	var raw struct {
		T string          `json:"t"`
		V json.RawMessage `json:"v"`
	}
	if err := json.Unmarshal(b, &raw); err != nil {
		return err
	}
	t.T = raw.T
	switch raw.T {
	case "nil":
		return nil
	case "bool":
		return json.Unmarshal(raw.V, &t.B)
	case "str":
		return json.Unmarshal(raw.V, &t.Bytes)
	case "num":
		t.Num = &NumAtom{}
		return json.Unmarshal(raw.V, t.Num)
	case "list":
		return json.Unmarshal(raw.V, &t.Elems)
	case "map":
		var ps [][]*Term
		if err := json.Unmarshal(raw.V, &ps); err != nil {
			return err
		}
		for _, p := range ps {
			if len(p) != 2 {
				return fmt.Errorf("map pair of length %d", len(p))
			}
			t.Pairs = append(t.Pairs, [2]*Term{p[0], p[1]})
		}
		return nil
	case "fn", "ns":
		return json.Unmarshal(raw.V, &t.ID)
	}
	return fmt.Errorf("bad term tag %q", raw.T)
}

// Constructors.
func Nil() *Term          { return &Term{T: "nil"} }
func Bool(b bool) *Term   { return &Term{T: "bool", B: b} }
func Num(a NumAtom) *Term { return &Term{T: "num", Num: &a} }
func Fn(id string) *Term  { return &Term{T: "fn", ID: id} }
func Ns(id string) *Term  { return &Term{T: "ns", ID: id} }
func List(es ...*Term) *Term {
	return &Term{T: "list", Elems: es}
}
func Map(ps ...[2]*Term) *Term { return &Term{T: "map", Pairs: ps} }
func Str(s string) *Term {
	bs := make([]int, len(s))
	for i := 0; i < len(s); i++ {
		bs[i] = int(s[i])
	}
	return &Term{T: "str", Bytes: bs}
}

func (t *Term) String() string {
	b := make([]byte, len(t.Bytes))
	for i, x := range t.Bytes {
		b[i] = byte(x)
	}
	return string(b)
}

// Clone makes a deep copy.
func (t *Term) Clone() *Term {
	c := *t
	if t.Num != nil {
		n := *t.Num
		c.Num = &n
	}
	c.Bytes = append([]int(nil), t.Bytes...)
	c.Elems = nil
	for _, e := range t.Elems {
		c.Elems = append(c.Elems, e.Clone())
	}
	c.Pairs = nil
	for _, p := range t.Pairs {
		c.Pairs = append(c.Pairs, [2]*Term{p[0].Clone(), p[1].Clone()})
	}
	return &c
}

// Name renders a term compactly for keys and messages.
func (t *Term) Name() string {
	switch t.T {
	case "nil":
		return "nil"
	case "bool":
		return fmt.Sprint(t.B)
	case "str":
		return fmt.Sprintf("s:%q", t.String())
	case "num":
		return t.Num.ID
	case "list":
		var ss []string
		for _, e := range t.Elems {
			ss = append(ss, e.Name())
		}
		return "[" + strings.Join(ss, " ") + "]"
	case "map":
		var ss []string
		for _, p := range t.Pairs {
			ss = append(ss, "&"+p[0].Name()+"="+p[1].Name())
		}
		if len(ss) == 0 {
			return "[&]"
		}
		return "[" + strings.Join(ss, " ") + "]"
	}
	return t.T + ":" + t.ID
}

// NumLeaves appends pointers to every number leaf, in a fixed traversal order.
func (t *Term) NumLeaves(out []*NumAtom) []*NumAtom {
	switch t.T {
	case "num":
		out = append(out, t.Num)
	case "list":
		for _, e := range t.Elems {
			out = e.NumLeaves(out)
		}
	case "map":
		for _, p := range t.Pairs {
			out = p[0].NumLeaves(out)
			out = p[1].NumLeaves(out)
		}
	}
	return out
}

// ---------------------------------------------------------------------------------------------
// Exact values of number atoms (math/big): the trusted primitive behind the ranks.

// Exact is the mathematical value of a number atom: a rational, or -Inf/+Inf (Inf = -1/+1), or NaN.
type Exact struct {
	R   *big.Rat
	Inf int
	NaN bool
}

func (a Exact) Cmp(b Exact) int { // NaN must not be passed
	switch {
	case a.Inf != 0 || b.Inf != 0:
		return cmpInt(a.Inf, b.Inf)
	}
	return a.R.Cmp(b.R)
}

func cmpInt(a, b int) int {
	if a < b {
		return -1
	} else if a > b {
		return 1
	}
	return 0
}

// parseExactText parses "<int>", "<int>e<k>", "<a>/<b>" (each side as before) exactly.
func parseExactText(s string) (*big.Rat, error) {
	if i := strings.IndexByte(s, '/'); i >= 0 {
		n, err := parseExactText(s[:i])
		if err != nil {
			return nil, err
		}
		d, err := parseExactText(s[i+1:])
		if err != nil {
			return nil, err
		}
		if d.Sign() == 0 {
			return nil, fmt.Errorf("zero denominator in %q", s)
		}
		return new(big.Rat).Quo(n, d), nil
	}
	r, ok := new(big.Rat).SetString(s)
	if !ok {
		return nil, fmt.Errorf("cannot parse exact number %q", s)
	}
	return r, nil
}

// GoValue builds the Go representation of the atom exactly as Elvish represents it
// (int / *big.Int / *big.Rat / float64), together with its mathematical value and the text
// that `num` accepts for it.
func (a *NumAtom) GoValue() (val any, ex Exact, numText string, err error) {
	if len(a.ID) < 3 || a.ID[1] != ':' {
		return nil, ex, "", fmt.Errorf("bad atom id %q", a.ID)
	}
	text := a.ID[2:]
	switch a.ID[0] {
	case 'f':
		var f float64
		switch text {
		case "NaN":
			f = math.NaN()
		case "+Inf", "Inf":
			f = math.Inf(1)
		case "-Inf":
			f = math.Inf(-1)
		default:
			var perr error
			if f, perr = strconv.ParseFloat(text, 64); perr != nil {
				return nil, ex, "", fmt.Errorf("bad float atom %q: %v", a.ID, perr)
			}
		}
		return f, ExactOfFloat(f), FloatText(f), nil
	case 'i', 'z', 'r':
		r, err := parseExactText(text)
		if err != nil {
			return nil, ex, "", err
		}
		v, cls := CanonExact(r)
		want := map[byte]string{'i': "int", 'z': "bigint", 'r': "rat"}[a.ID[0]]
		if cls != want {
			return nil, ex, "", fmt.Errorf("atom %q is of class %s, its prefix says %s", a.ID, cls, want)
		}
		return v, Exact{R: r}, ExactText(r), nil
	}
	return nil, ex, "", fmt.Errorf("bad atom id %q", a.ID)
}

// CanonExact gives the canonical Elvish representation of an exact rational and its class.
func CanonExact(r *big.Rat) (any, string) {
	if r.IsInt() {
		n := new(big.Int).Set(r.Num())
		if n.IsInt64() {
			return int(n.Int64()), "int"
		}
		return n, "bigint"
	}
	return new(big.Rat).Set(r), "rat"
}

func ExactText(r *big.Rat) string {
	if r.IsInt() {
		return r.Num().String()
	}
	return r.Num().String() + "/" + r.Denom().String()
}

// FloatText is a text that `num` parses back to exactly f (always float syntax).
func FloatText(f float64) string {
	switch {
	case math.IsNaN(f):
		return "NaN"
	case math.IsInf(f, 1):
		return "+Inf"
	case math.IsInf(f, -1):
		return "-Inf"
	case f == 0 && math.Signbit(f):
		return "-0.0"
	}
	s := strconv.FormatFloat(f, 'g', -1, 64) // shortest text that round-trips
	if !strings.ContainsAny(s, ".eE") {
		s += ".0"
	}
	return s
}

func ExactOfFloat(f float64) Exact {
	switch {
	case math.IsNaN(f):
		return Exact{NaN: true}
	case math.IsInf(f, 1):
		return Exact{Inf: 1}
	case math.IsInf(f, -1):
		return Exact{Inf: -1}
	}
	return Exact{R: new(big.Rat).SetFloat64(f)}
}

// AtomOf describes a real Go number value as an atom (rank still 0).
func AtomOf(v any) (NumAtom, Exact, error) {
	switch v := v.(type) {
	case int:
		return NumAtom{ID: fmt.Sprintf("i:%d", v), Cls: "int", Ex: true}, Exact{R: new(big.Rat).SetInt64(int64(v))}, nil
	case *big.Int:
		return NumAtom{ID: "z:" + v.String(), Cls: "bigint", Ex: true}, Exact{R: new(big.Rat).SetInt(v)}, nil
	case *big.Rat:
		return NumAtom{ID: "r:" + ExactText(v), Cls: "rat", Ex: true}, Exact{R: new(big.Rat).Set(v)}, nil
	case float64:
		e := ExactOfFloat(v)
		return NumAtom{ID: "f:" + FloatText(v), Cls: "float", Ex: false, NaN: e.NaN}, e, nil
	}
	return NumAtom{}, Exact{}, fmt.Errorf("not a number: %T", v)
}

// AssignRanks gives the atoms ranks 10, 20, ... by mathematical value (equal values share a rank;
// NaN gets 0).  Atoms with the same ID are the same number.
func AssignRanks(atoms []*NumAtom) error {
	type ent struct {
		ex Exact
		as []*NumAtom
	}
	byID := map[string]*ent{}
	var ents []*ent
	for _, a := range atoms {
		if e, ok := byID[a.ID]; ok {
			e.as = append(e.as, a)
			continue
		}
		_, ex, _, err := a.GoValue()
		if err != nil {
			return err
		}
		e := &ent{ex: ex, as: []*NumAtom{a}}
		byID[a.ID] = e
		ents = append(ents, e)
	}
	var fin []*ent
	for _, e := range ents {
		if e.ex.NaN {
			for _, a := range e.as {
				a.Rk = 0
			}
			continue
		}
		fin = append(fin, e)
	}
	sort.SliceStable(fin, func(i, j int) bool { return fin[i].ex.Cmp(fin[j].ex) < 0 })
	rk := 0
	for i, e := range fin {
		if i == 0 || fin[i-1].ex.Cmp(e.ex) != 0 {
			rk += 10
		}
		for _, a := range e.as {
			a.Rk = rk
		}
	}
	return nil
}

// AuditTable re-derives the hand-written table of Values.tla with math/big: class, exactness, NaN
// flag, and that rk orders the atoms exactly as their mathematical values do.
func AuditTable(atoms []*NumAtom) error {
	type ent struct {
		a  *NumAtom
		ex Exact
	}
	var es []ent
	seen := map[string]bool{}
	for _, a := range atoms {
		v, ex, _, err := a.GoValue()
		if err != nil {
			return err
		}
		d, _, err := AtomOf(v)
		if err != nil {
			return err
		}
		if d.Cls != a.Cls || d.Ex != a.Ex || d.NaN != a.NaN {
			return fmt.Errorf("atom %s: table says cls=%s ex=%v nan=%v, value is cls=%s ex=%v nan=%v", a.ID, a.Cls, a.Ex, a.NaN, d.Cls, d.Ex, d.NaN)
		}
		if seen[a.ID] {
			continue
		}
		seen[a.ID] = true
		if !ex.NaN {
			es = append(es, ent{a, ex})
		}
	}
	for i := range es {
		for j := range es {
			if c, r := es[i].ex.Cmp(es[j].ex), cmpInt(es[i].a.Rk, es[j].a.Rk); c != r {
				return fmt.Errorf("rank table wrong: %s (rk %d) vs %s (rk %d): mathematical order %d", es[i].a.ID, es[i].a.Rk, es[j].a.ID, es[j].a.Rk, c)
			}
		}
	}
	return nil
}

// FloatImage is the documented conversion of an exact number to an inexact one (inexact-num):
// nearest double; integers outside the int64 range become +-Inf (documented with the example
// 10000000000000000000 -> +Inf).  Used only to CLASSIFY rejected cases for known-finding keys.
func FloatImage(v any) float64 {
	switch v := v.(type) {
	case int:
		return float64(v)
	case *big.Int:
		if v.IsInt64() {
			return float64(v.Int64())
		}
		return math.Inf(v.Sign())
	case *big.Rat:
		f, _ := v.Float64()
		return f
	case float64:
		return v
	}
	return math.NaN()
}
