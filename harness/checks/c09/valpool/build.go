package valpool

import (
	"fmt"
	"math"
	"math/big"
	"reflect"
	"strings"

	"src.elv.sh/pkg/eval"
	"src.elv.sh/pkg/eval/vals"
	"src.elv.sh/pkg/eval/vars"
	"src.elv.sh/pkg/parse"
	"verif.local/harness/elv"
)

// Builder turns value terms into real Elvish values.  Every term has several CONSTRUCTIONS
// ("variants"): differently built values that the documentation makes eq.  Go variants use the
// Go API (vals, vector, hashmap), code variants are Elvish expressions evaluated by the real
// interpreter.  Closures and namespaces are created once per Builder (identity).
type Builder struct {
	Ev  *eval.Evaler
	fns map[string]any
	nss map[string]any
}

const (
	GoVariants   = 4 // Go(t, 0..3)
	CodeVariants = 4 // Code(t, 0..3)
)

// FnIDs and NsIDs are the identities available in the universe.
var FnIDs = []string{"f1", "f2", "f3"}
var NsIDs = []string{"n1", "n2", "n3"}

func NewBuilder() (*Builder, error) {
	b := &Builder{Ev: elv.New(), fns: map[string]any{}, nss: map[string]any{}}
	for _, id := range FnIDs {
		// every closure is a distinct object, also when the source text is identical
		o := elv.Run(b.Ev, fmt.Sprintf("var %s = {|x| put $x }; var %s-alias = $%s; put $%s", id, id, id, id))
		if o.Err != nil || len(o.Values) != 1 {
			return nil, fmt.Errorf("creating closure %s: %v", id, o.Err)
		}
		b.fns[id] = o.Values[0]
	}
	for _, id := range NsIDs {
		o := elv.Run(b.Ev, fmt.Sprintf("var %s: = (ns [&x=1]); var %s-alias: = $%s:; put $%s:", id, id, id, id))
		if o.Err != nil || len(o.Values) != 1 {
			return nil, fmt.Errorf("creating namespace %s: %v", id, o.Err)
		}
		b.nss[id] = o.Values[0]
	}
	return b, nil
}

// Bind makes v available to Elvish code as $name.
func (b *Builder) Bind(name string, v any) {
	b.Ev.ExtendGlobal(eval.BuildNs().AddVar(name, vars.FromInit(v)).Ns())
}

// Eval evaluates an expression that must produce exactly one value.
func (b *Builder) Eval(expr string) (any, error) {
	o := elv.Run(b.Ev, "put "+expr)
	if o.Panic != "" {
		return nil, fmt.Errorf("panic evaluating %q: %s", expr, o.Panic)
	}
	if o.Err != nil {
		return nil, fmt.Errorf("evaluating %q: %v", expr, o.Err)
	}
	if len(o.Values) != 1 {
		return nil, fmt.Errorf("evaluating %q: %d values", expr, len(o.Values))
	}
	return o.Values[0], nil
}

// ---------------------------------------------------------------------------------------------
// Go constructions

var junk = "\x00junk"

// Go builds the value of t through the Go API.  variant selects the construction:
//
//	numbers  0,2: the Go value itself   1,3: vals.ParseNum of its text
//	lists    0: MakeList  1: Conj one by one, one element too many, then Pop
//	         2: slice of a longer list (a different Go type)  3: placeholders replaced by Assoc
//	maps     0: Assoc in construction order  1: in reverse order  2: extra key added first and
//	         dissoc'ed last  3: a struct ("field map") when all keys are lower-case words, else as 1
func (b *Builder) Go(t *Term, variant int) (any, error) {
	switch t.T {
	case "nil":
		return nil, nil
	case "bool":
		return t.B, nil
	case "str":
		if variant%2 == 1 { // a freshly allocated string
			return strings.Clone(t.String() + "x")[:len(t.Bytes)], nil
		}
		return t.String(), nil
	case "num":
		v, _, text, err := t.Num.GoValue()
		if err != nil {
			return nil, err
		}
		if variant%2 == 1 {
			p := vals.ParseNum(text)
			if p == nil {
				return nil, fmt.Errorf("ParseNum(%q) failed", text)
			}
			return p, nil
		}
		return v, nil
	case "fn":
		if v, ok := b.fns[t.ID]; ok {
			return v, nil
		}
		return nil, fmt.Errorf("unknown closure %q", t.ID)
	case "ns":
		if v, ok := b.nss[t.ID]; ok {
			return v, nil
		}
		return nil, fmt.Errorf("unknown namespace %q", t.ID)
	case "list":
		var es []any
		for _, e := range t.Elems {
			v, err := b.Go(e, variant)
			if err != nil {
				return nil, err
			}
			es = append(es, v)
		}
		switch variant % 4 {
		case 0:
			return vals.MakeList(es...), nil
		case 1:
			l := vals.EmptyList
			for _, e := range es {
				l = l.Conj(e)
			}
			return l.Conj(junk).Pop(), nil
		case 2:
			l := vals.EmptyList.Conj(junk).Conj(junk)
			for _, e := range es {
				l = l.Conj(e)
			}
			l = l.Conj(junk)
			return l.SubVector(2, 2+len(es)), nil
		default:
			l := vals.EmptyList
			for range es {
				l = l.Conj(junk)
			}
			for i := len(es) - 1; i >= 0; i-- {
				l = l.Assoc(i, es[i])
			}
			return l, nil
		}
	case "map":
		type kv struct{ k, v any }
		var ps []kv
		for _, p := range t.Pairs {
			k, err := b.Go(p[0], variant)
			if err != nil {
				return nil, err
			}
			v, err := b.Go(p[1], variant)
			if err != nil {
				return nil, err
			}
			ps = append(ps, kv{k, v})
		}
		switch variant % 4 {
		case 0:
			m := vals.EmptyMap
			for _, p := range ps {
				m = m.Assoc(p.k, p.v)
			}
			return m, nil
		case 2:
			m := vals.EmptyMap.Assoc(junk, junk)
			for _, p := range ps {
				m = m.Assoc(p.k, junk) // overwritten below
			}
			for _, p := range ps {
				m = m.Assoc(p.k, p.v)
			}
			return m.Dissoc(junk), nil
		case 3:
			if s, ok := structMap(t, func(i int) any { return ps[i].v }); ok {
				return s, nil
			}
			fallthrough
		default:
			m := vals.EmptyMap
			for i := len(ps) - 1; i >= 0; i-- {
				m = m.Assoc(ps[i].k, ps[i].v)
			}
			return m, nil
		}
	}
	return nil, fmt.Errorf("bad term %q", t.T)
}

var anyType = reflect.TypeOf((*any)(nil)).Elem()

// structMap builds a Go struct whose fields are the map's entries ("field map": in Elvish code it
// behaves exactly like a map).  Possible only when every key is a word of lower-case letters.
func structMap(t *Term, val func(i int) any) (any, bool) {
	if len(t.Pairs) == 0 {
		return nil, false
	}
	var fs []reflect.StructField
	for _, p := range t.Pairs {
		if p[0].T != "str" || len(p[0].Bytes) == 0 {
			return nil, false
		}
		k := p[0].String()
		for i := 0; i < len(k); i++ {
			if k[i] < 'a' || k[i] > 'z' {
				return nil, false
			}
		}
		// fields of the common kinds are TYPED (bool, int, float64, string), as in real field maps such
		// as storedefs.Dir{Path string; Score float64}; everything else is an `any` field
		ft := anyType
		switch val(len(fs)).(type) {
		case bool, int, float64, string:
			ft = reflect.TypeOf(val(len(fs)))
		}
		fs = append(fs, reflect.StructField{Name: strings.ToUpper(k[:1]) + k[1:], Type: ft})
	}
	s := reflect.New(reflect.StructOf(fs)).Elem()
	for i := range t.Pairs {
		if v := val(i); v != nil {
			s.Field(i).Set(reflect.ValueOf(v))
		}
	}
	return s.Interface(), true
}

// ---------------------------------------------------------------------------------------------
// Elvish constructions

func splitInt(n *big.Int) (a, c *big.Int) { // n = a + c with both parts non-trivial
	a = new(big.Int).Rsh(n, 1)
	c = new(big.Int).Sub(n, a)
	return
}

// Code renders t as an Elvish expression.  variant selects the construction:
//
//	numbers  0: (num TEXT)  1: arithmetic: exact integers as a sum, rationals as a quotient, floats
//	         as a product with 1.0  2: integers as exact-num of the equal float (|n| < 2^53) or a
//	         difference, rationals as an unreduced literal, floats via inexact-num of their own
//	         text, -0.0 as (- (num 0.0))  3: like 0 but as bare TEXT inside num's conversion: (num (+ TEXT)) for exact, (num TEXT) for floats
//	strings  0: parse.Quote  1,3: double-quoted  2: two double-quoted pieces concatenated
//	lists    0: literal  1: conj  2: slice of a longer literal  3: literal with one element too many, dropped by slicing ..-1
//	maps     0: literal in construction order  1: literal in reverse order  2: nested assoc
//	         3: literal with an extra key that is dissoc'ed
func (b *Builder) Code(t *Term, variant int) (string, error) {
	switch t.T {
	case "nil":
		return "$nil", nil
	case "bool":
		if t.B {
			return "$true", nil
		}
		return "$false", nil
	case "fn":
		if _, ok := b.fns[t.ID]; !ok {
			return "", fmt.Errorf("unknown closure %q", t.ID)
		}
		if variant%2 == 1 {
			return "$" + t.ID + "-alias", nil
		}
		return "$" + t.ID, nil
	case "ns":
		if _, ok := b.nss[t.ID]; !ok {
			return "", fmt.Errorf("unknown namespace %q", t.ID)
		}
		if variant%2 == 1 {
			return "$" + t.ID + "-alias:", nil
		}
		return "$" + t.ID + ":", nil
	case "str":
		s := t.String()
		switch variant % 4 {
		case 0:
			return parse.Quote(s), nil
		case 2:
			if len(s) >= 2 {
				q1, _ := parse.QuoteAs(s[:1], parse.DoubleQuoted)
				q2, _ := parse.QuoteAs(s[1:], parse.DoubleQuoted)
				return q1 + q2, nil
			}
		}
		q, _ := parse.QuoteAs(s, parse.DoubleQuoted)
		return q, nil
	case "num":
		v, _, text, err := t.Num.GoValue()
		if err != nil {
			return "", err
		}
		return numCode(v, text, variant), nil
	case "list":
		var es []string
		for _, e := range t.Elems {
			c, err := b.Code(e, variant)
			if err != nil {
				return "", err
			}
			es = append(es, c)
		}
		all := strings.Join(es, " ")
		switch variant % 4 {
		case 0:
			return "[" + all + "]", nil
		case 1:
			return "(conj [] " + all + ")", nil
		case 2:
			return fmt.Sprintf("[junk junk %s junk][2..%d]", all, 2+len(es)), nil
		default:
			return "[" + all + " junk][..-1]", nil
		}
	case "map":
		type kv struct{ k, v string }
		var ps []kv
		for _, p := range t.Pairs {
			k, err := b.Code(p[0], variant)
			if err != nil {
				return "", err
			}
			v, err := b.Code(p[1], variant)
			if err != nil {
				return "", err
			}
			ps = append(ps, kv{k, v})
		}
		lit := func(ps []kv, extra string) string {
			if len(ps) == 0 && extra == "" {
				return "[&]"
			}
			var ss []string
			for _, p := range ps {
				ss = append(ss, "&"+p.k+"="+p.v)
			}
			if extra != "" {
				ss = append(ss, extra)
			}
			return "[" + strings.Join(ss, " ") + "]"
		}
		switch variant % 4 {
		case 0:
			return lit(ps, ""), nil
		case 1:
			var r []kv
			for i := len(ps) - 1; i >= 0; i-- {
				r = append(r, ps[i])
			}
			return lit(r, ""), nil
		case 2:
			s := "[&]"
			for _, p := range ps {
				s = fmt.Sprintf("(assoc %s %s %s)", s, p.k, p.v)
			}
			return s, nil
		default:
			return "(dissoc " + lit(ps, "&zz-extra=1") + " zz-extra)", nil
		}
	}
	return "", fmt.Errorf("bad term %q", t.T)
}

var two53 = new(big.Int).Lsh(big.NewInt(1), 53)

func numCode(v any, text string, variant int) string {
	plain := "(num " + text + ")"
	switch v := v.(type) {
	case float64:
		switch variant % 4 {
		case 1:
			if math.IsInf(v, 0) || math.IsNaN(v) {
				return "(+ (num 0.0) " + plain + ")" // x + 0.0 = x
			}
			return "(* (num 1.0) " + plain + ")"
		case 2:
			if v == 0 && math.Signbit(v) {
				return "(- (num 0.0))"
			}
			return "(inexact-num " + text + ")"
		case 3:
			return "(inexact-num " + plain + ")"
		}
		return plain
	case *big.Rat:
		switch variant % 4 {
		case 1:
			return fmt.Sprintf("(/ (num %s) (num %s))", v.Num(), v.Denom())
		case 2:
			n2 := new(big.Int).Mul(v.Num(), big.NewInt(2))
			d2 := new(big.Int).Mul(v.Denom(), big.NewInt(2))
			return fmt.Sprintf("(num %s/%s)", n2, d2)
		case 3:
			return "(exact-num " + text + ")"
		}
		return plain
	default: // int, *big.Int
		var n *big.Int
		if i, ok := v.(int); ok {
			n = big.NewInt(int64(i))
		} else {
			n = v.(*big.Int)
		}
		switch variant % 4 {
		case 1:
			a, c := splitInt(n)
			return fmt.Sprintf("(+ (num %s) (num %s))", a, c)
		case 2:
			if new(big.Int).Abs(n).Cmp(two53) < 0 {
				return fmt.Sprintf("(exact-num (num %s.0))", n)
			}
			a := new(big.Int).Add(n, big.NewInt(7))
			return fmt.Sprintf("(- (num %s) (num 7))", a)
		case 3:
			return fmt.Sprintf("(* (num 1) (num %s))", n)
		}
		return plain
	}
}
